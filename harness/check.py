#!/venv/bin/python
"""Entry point of every check:  check.py <property id> [--tier quick|thorough] [--replay file]

exit 0  property held on everything explored (KNOWN-FINDING lines may be printed)
exit 1  at least one line  VIOLATION property=<id> replay=<path>
exit 2  the check itself is broken (build failure of the framework, timeout, audit failure)
"""
import argparse
import importlib
import json
import os
import subprocess
import sys
import time
import traceback
import warnings

HERE = os.path.dirname(os.path.abspath(__file__))
VERIF = os.path.dirname(HERE)
sys.path.insert(0, HERE)
warnings.filterwarnings("ignore", category=SyntaxWarning)

from gbv import core, lean, known, shrink  # noqa: E402


def main():
    ap = argparse.ArgumentParser()
    ap.add_argument("pid")
    ap.add_argument("--tier", default=os.environ.get("VERIF_TIER", "quick"))
    ap.add_argument("--replay", default=None)
    args = ap.parse_args()
    pid = args.pid
    tier = args.tier if args.tier in ("quick", "thorough") else "quick"
    seed = int(os.environ.get("VERIF_SEED", "0"))
    t0 = time.time()

    mod = importlib.import_module(f"checks.{pid.lower()}")
    run = core.Run(pid, tier, seed)

    # 1. translators + build (model executable, proof obligations of this property)
    try:
        build = lean.prepare(pid, tier, run)
    except lean.FrameworkBroken as e:
        print(f"BROKEN-CHECK property={pid}: {e}")
        sys.exit(2)

    # 2. correspondence / relational checks against the real code
    if args.replay:
        with open(args.replay) as fh:
            rep = json.load(fh)
        try:
            ok = mod.replay(run, rep)
        finally:
            run.close()
        print(f"replay {'passes (no longer fails)' if ok else 'still FAILS'}: {args.replay}")
        sys.exit(0 if ok else 1)
    try:
        mod.check(run)
    except core.WrongShape as exc:
        run.violation(f"the library returned an array of the wrong shape: {exc}",
                      {"case": "library-wrong-shape", "message": str(exc), "traceback": traceback.format_exc()[-3000:],
                       "last_case": run.last_case, "signature": {"kind": "library-wrong-shape"}})
    except Exception as exc:
        # an exception raised inside the library on a request the check considers valid is a violation of the
        # property (the function does not return what it must); an exception of the harness itself is a broken check
        tb = traceback.extract_tb(exc.__traceback__)
        repo_frames = [f for f in tb if os.path.abspath(f.filename).startswith(os.path.abspath(core.REPO) + os.sep)]
        if repo_frames and os.path.abspath(tb[-1].filename).startswith((os.path.abspath(core.REPO) + os.sep, os.path.dirname(os.__file__)))  \
                or (repo_frames and "site-packages" in tb[-1].filename):
            f = repo_frames[-1]
            run.violation(f"the library raised {type(exc).__name__}: {exc} at {os.path.relpath(f.filename, core.REPO)}:{f.lineno} on a request the check "
                          "considers valid",
                          {"case": "library-exception", "exception": type(exc).__name__, "message": str(exc)[:500],
                           "traceback": traceback.format_exc()[-3000:], "last_case": run.last_case,
                           "signature": {"kind": "library-exception"}})
        else:
            traceback.print_exc()
            run.close()
            print(f"BROKEN-CHECK property={pid}: harness exception")
            sys.exit(2)
    finally:
        run.close()

    # 3. broken obligations (extracted code / theorem) -> search already done by mod.check;
    #    if nothing concrete was found, report with no-failing-input-found
    lines = []
    broken = [o for o in run.obligations if not o[1]]
    new_violations = []
    for v in run.violations:
        kf = known.match(pid, v)
        if kf is not None:
            run.known_hits.append((kf["id"], kf["text"]))
        else:
            new_violations.append(v)
    seen = set()
    for fid, text in run.known_hits:
        if fid not in seen:
            seen.add(fid)
            lines.append(f"KNOWN-FINDING: property={pid} {text}")
    os.makedirs(os.path.join(core.OUT_DIR, "replays"), exist_ok=True)
    nviol = 0
    if new_violations and os.environ.get("VERIF_NO_SHRINK") != "1":
        # reduce the first failing case (drop shells / primitives / segments, simplify numbers) while it still fails
        try:
            run2 = core.Run(pid, tier, seed)
            new_violations[0] = dict(new_violations[0], replay=shrink.shrink(run2, mod, new_violations[0]))
            run2.close()
        except Exception:
            pass
    for k, v in enumerate(new_violations[:5]):
        path = os.path.join(core.OUT_DIR, "replays", f"{pid}-{tier}-{seed}-{k}.json")
        with open(path, "w") as fh:
            json.dump({"property": pid, "what": v["what"], **v["replay"]}, fh, indent=1, default=str)
        lines.append(f"VIOLATION property={pid} replay={path}")
        nviol += 1
    if broken and not new_violations:
        path = os.path.join(core.OUT_DIR, "replays", f"{pid}-{tier}-{seed}-obligation.json")
        with open(path, "w") as fh:
            json.dump({"property": pid, "no_longer_checks": [{"name": n, "detail": d} for n, _, d in broken],
                       "note": "no concrete failing input was found by the search on the implementation"},
                      fh, indent=1)
        lines.append(f"VIOLATION property={pid} replay={path} no-failing-input-found")
        nviol += 1

    # 4. evidence
    nob = len(run.obligations)
    ndis = sum(1 for o in run.obligations if o[1])
    ev = {
        "property_id": pid,
        "tier": tier,
        "seed": seed,
        "level": "proof",
        "coverage": {
            "obligations": nob,
            "discharged": ndis,
            "checker_cmd": build["checker_cmd"],
            "trusted_base": build["trusted_base"] + getattr(mod, "TRUSTED", []),
            "theorems": build["theorems"],
            "axioms": build["axioms"],
            "evaluations": run.evaluations,
            "distinct_nontrivial": len(run.distinct),
            "rule": getattr(mod, "RULE", ""),
            "samples": run.samples[:4],
            "input_histogram": run.hist,
            "model_requests": run._model.requests if run._model else 0,
            "obligation_list": [{"name": n, "ok": ok, "detail": d} for n, ok, d in run.obligations][:60],
            "known_findings_hit": [f for f, _ in run.known_hits][:20],
            "notes": run.notes,
        },
        "assumptions": getattr(mod, "ASSUMPTIONS", []),
        "wall_s": round(time.time() - t0, 2),
        "violations": nviol,
    }
    os.makedirs(os.path.join(core.OUT_DIR, "evidence"), exist_ok=True)
    with open(os.path.join(core.OUT_DIR, "evidence", f"{pid}.json"), "w") as fh:
        json.dump(ev, fh, indent=1, default=str)
    for ln in lines:
        print(ln)
    print(f"{pid} {tier} seed={seed}: obligations {ndis}/{nob}, cases {run.evaluations} "
          f"({len(run.distinct)} distinct), violations {nviol}, {ev['wall_s']} s")
    sys.exit(1 if nviol else 0)


if __name__ == "__main__":
    main()
