"""Core of the correspondence harness: exact number transport, model process, shells, evidence."""
import json
import math
import os
import random
import subprocess
import sys
import time
from fractions import Fraction

import numpy as np

VERIF = os.path.dirname(os.path.dirname(os.path.dirname(os.path.abspath(__file__))))
# GBASIS_LEAN_DIR / GBASIS_OUT_DIR are used only by tools/try_seed.py (private copy of the Lean project and scratch output
# directory when the checks are pointed at a seeded change); the registered commands never set them
LEAN_DIR = os.environ.get("GBASIS_LEAN_DIR") or os.path.join(VERIF, "lean")
OUT_DIR = os.environ.get("GBASIS_OUT_DIR") or VERIF
MODEL_EXE = os.path.join(LEAN_DIR, ".lake", "build", "bin", "gbmodel")
REPO = os.environ.get("GBASIS_REPO", "/repo")

if REPO not in sys.path:
    sys.path.insert(0, REPO)


# ----------------------------------------------------------------------------------------------
# exact transport of numbers
def enc(x):
    """float64 (or int) -> 'mantissa:exponent' (exact)."""
    if isinstance(x, (int, np.integer)):
        return f"{int(x)}:0"
    x = float(x)
    if not math.isfinite(x):
        raise ValueError("non-finite number cannot be sent to the model")
    num, den = x.as_integer_ratio()
    return f"{num}:{-(den.bit_length() - 1)}"


def dec_fraction(tok):
    m, e = tok.split(":")
    m = int(m)
    e = int(e)
    return Fraction(m) * (Fraction(2) ** e)


def dec_float(tok):
    """'m:e' -> nearest float64 (double rounding below 1e-90 relative is irrelevant)."""
    m, e = tok.split(":")
    m = int(m)
    e = int(e)
    if m == 0:
        return 0.0
    # reduce the mantissa to 64 bits before converting
    nb = abs(m).bit_length()
    if nb > 64:
        sh = nb - 64
        m >>= sh
        e += sh
    try:
        return math.ldexp(float(m), e)
    except OverflowError:
        return math.copysign(math.inf, m)


class ModelError(Exception):
    pass


class Model:
    """Line-protocol client of the compiled Lean model."""

    def __init__(self):
        if not os.path.exists(MODEL_EXE):
            raise RuntimeError(f"model executable missing: {MODEL_EXE} (run setup)")
        self.p = subprocess.Popen(
            [MODEL_EXE], stdin=subprocess.PIPE, stdout=subprocess.PIPE, text=True, bufsize=1
        )
        self.requests = 0

    def raw(self, line):
        self.requests += 1
        self.p.stdin.write(line + "\n")
        self.p.stdin.flush()
        out = self.p.stdout.readline()
        if not out:
            raise RuntimeError("model process died on request: " + line[:200])
        return out.strip()

    def _parse(self, line, conv):
        out = self.raw(line)
        toks = out.split()
        if toks[0] == "err":
            raise ModelError(" ".join(toks[1:]))
        nd = int(toks[1])
        dims = [int(t) for t in toks[2 : 2 + nd]]
        rest = toks[2 + nd :]
        if "|" in rest:
            k = rest.index("|")
            vals, mags = rest[:k], rest[k + 1 :]
        else:
            vals, mags = rest, []
        return dims, [conv(t) for t in vals], [conv(t) for t in mags]

    def array(self, line):
        """Request returning an array: numpy float64 array, or raises ModelError(kind)."""
        dims, vals, _ = self._parse(line, dec_float)
        vals = np.array(vals, dtype=float)
        return vals.reshape(dims) if dims else vals

    def array_mag(self, line):
        """values and magnitude majorants (running sum of absolute values of all terms)"""
        dims, vals, mags = self._parse(line, dec_float)
        return np.array(vals, dtype=float).reshape(dims), np.array(mags, dtype=float).reshape(dims)

    def fractions(self, line):
        dims, vals, _ = self._parse(line, dec_fraction)
        return dims, vals

    def close(self):
        try:
            self.p.stdin.close()
            self.p.wait(timeout=5)
        except Exception:
            self.p.kill()


class WrongShape(Exception):
    """an array returned by the library does not have the shape that the basis / arguments determine (raised by harness helpers
    before they would fail with a NumPy shape error; check.py reports it as a violation, not as a broken check)"""


# ----------------------------------------------------------------------------------------------
# shells
class ShellSpec:
    """Plain description of a shell; builds the gbasis object and the protocol tokens."""

    def __init__(self, l, center, exps, coeffs, sph=False, cart=None, sphord=None, unit_norm=True,
                 icenter=None, via_update=False, share=None, obj=None):
        self.l = int(l)
        self.center = [float(c) for c in center]
        self.exps = [float(e) for e in exps]
        co = np.array(coeffs, dtype=float)
        if co.ndim == 1:
            co = co[:, None]
        self.coeffs = co
        self.sph = bool(sph)
        self.cart = cart      # None = default, else list of (x,y,z)
        self.sphord = sphord  # None = default, else list of label strings
        self.unit_norm = unit_norm
        self.icenter = icenter
        # via_update: the gbasis object is first constructed with other exponents / coefficients / centre and then brought to
        # these parameters through the public setters followed by assign_norm_cont() (must be indistinguishable)
        self.via_update = bool(via_update)
        # share: shells of one basis with the same key are built from the very same exponent-array object (what make_contractions
        # does for the parts of an SP shell and for every atom of an element)
        self.share = share
        # obj: shells of one basis with the same key and the same parameters are one and the same Python object, listed more than
        # once (what `basis + [basis[0]]` or the union of two bases that share a shell gives)
        self.obj = obj

    def copy(self, **kw):
        d = dict(l=self.l, center=list(self.center), exps=list(self.exps), coeffs=self.coeffs.copy(),
                 sph=self.sph, cart=self.cart, sphord=self.sphord, unit_norm=self.unit_norm,
                 icenter=self.icenter, via_update=self.via_update, share=self.share, obj=self.obj)
        d.update(kw)
        return ShellSpec(**d)

    @property
    def nseg(self):
        return self.coeffs.shape[1]

    @property
    def nfun(self):
        return 2 * self.l + 1 if self.sph else (self.l + 1) * (self.l + 2) // 2

    @property
    def size(self):
        return self.nseg * self.nfun

    def tokens(self):
        t = [str(self.l), "1" if self.sph else "0", str(len(self.exps)), str(self.nseg),
             "1" if self.unit_norm else "0"]
        t += [enc(c) for c in self.center]
        t += [enc(e) for e in self.exps]
        for k in range(len(self.exps)):
            t += [enc(c) for c in self.coeffs[k]]
        if self.cart is None:
            t.append("C0")
        else:
            t.append(f"C{len(self.cart)}")
            for c in self.cart:
                t += [str(int(v)) for v in c]
        if self.sphord is None:
            t.append("S0")
        else:
            t.append(f"S{len(self.sphord)}")
            t += list(self.sphord)
        return t

    def make(self, shared_exps=None):
        """The real gbasis shell object (a subclass when a custom convention is requested)."""
        from gbasis.contractions import GeneralizedContractionShell

        cls = GeneralizedContractionShell
        if self.cart is not None or self.sphord is not None or not self.unit_norm:
            cart = None if self.cart is None else np.array(self.cart, dtype=int)
            sphord = None if self.sphord is None else tuple(self.sphord)
            unit = self.unit_norm

            class ConvShell(GeneralizedContractionShell):
                if cart is not None:
                    @property
                    def angmom_components_cart(self):
                        return cart.copy()
                if sphord is not None:
                    @property
                    def angmom_components_sph(self):
                        return sphord
                if not unit:
                    def assign_norm_cont(self):
                        n = (self.angmom + 1) * (self.angmom + 2) // 2
                        self.norm_cont = np.ones((self.coeffs.shape[1], n))

            cls = ConvShell
        if self.via_update:
            n = len(self.exps)
            sh = cls(self.l, np.array(self.center, dtype=float) + 0.375,
                     self.coeffs * np.linspace(0.5, 1.5, n)[:, None],
                     np.array(self.exps, dtype=float) * np.linspace(1.75, 0.625, n),
                     "spherical" if self.sph else "cartesian", icenter=self.icenter)
            sh.exps = np.array(self.exps, dtype=float)
            sh.coeffs = self.coeffs.copy()
            sh.coord = np.array(self.center, dtype=float)
            sh.assign_norm_cont()
            return sh
        return cls(self.l, np.array(self.center, dtype=float), self.coeffs.copy(),
                   np.array(self.exps, dtype=float) if shared_exps is None else shared_exps,
                   "spherical" if self.sph else "cartesian", icenter=self.icenter)

    def describe(self):
        return {"l": self.l, "center": self.center, "exps": self.exps,
                "coeffs": self.coeffs.tolist(), "sph": self.sph, "cart": self.cart,
                "sphord": self.sphord, "unit_norm": self.unit_norm, "via_update": self.via_update, "share": self.share,
                "icenter": self.icenter, "obj": self.obj}

    @staticmethod
    def from_desc(d):
        return ShellSpec(d["l"], d["center"], d["exps"], d["coeffs"], d.get("sph", False),
                         d.get("cart"), d.get("sphord"), d.get("unit_norm", True),
                         via_update=d.get("via_update", False), share=d.get("share"), icenter=d.get("icenter"),
                         obj=d.get("obj"))


def basis_tokens(specs):
    t = [str(len(specs))]
    for s in specs:
        t += s.tokens()
    return t


def make_basis(specs):
    pool, objs, out = {}, {}, []
    for s in specs:
        if s.obj is not None:
            key = (s.obj, tuple(s.tokens()))
            if key in objs:
                out.append(objs[key])
                continue
        if s.share is None or s.via_update:
            out.append(s.make())
        else:
            key = (s.share, tuple(s.exps))
            if key not in pool:
                pool[key] = np.array(s.exps, dtype=float)
            out.append(s.make(shared_exps=pool[key]))
        if s.obj is not None:
            objs[(s.obj, tuple(s.tokens()))] = out[-1]
    return out


def describe_basis(specs):
    return [s.describe() for s in specs]


# ----------------------------------------------------------------------------------------------
# generators (all randomness from one PRNG)
def exp_cap(l):
    """upper end of published exponents: 1e5 for s, falling a decade per unit of l, at least 10."""
    return max(10.0, 10.0 ** (5 - l))


def snap(x, bits=20):
    """round to a short dyadic so that cases print compactly and are exactly representable"""
    if x == 0:
        return 0.0
    e = math.floor(math.log2(abs(x)))
    q = 2.0 ** (e - bits)
    return round(x / q) * q


def rand_exp(rng, lo, hi):
    return snap(math.exp(rng.uniform(math.log(lo), math.log(hi))))


def rand_coeff(rng):
    mag = 10.0 ** rng.uniform(-2, 1)
    return snap(mag if rng.random() < 0.7 else -mag)


def rand_center(rng, centers, box=3.0):
    """a new centre; with some probability coincide with an earlier one or share coordinates"""
    r = rng.random()
    if centers and r < 0.2:
        return list(rng.choice(centers))
    c = [snap(rng.uniform(-box, box), 12) for _ in range(3)]
    if centers and r < 0.4:
        o = rng.choice(centers)
        ax = rng.randrange(3)
        for a in range(3):
            if a != ax:
                c[a] = o[a]
    return c


def rand_shell(rng, l, centers, nprim=None, nseg=None, sph=None, exp_lo=0.02, exp_hi=None):
    nprim = nprim or rng.randint(1, 4)
    nseg = nseg or rng.randint(1, 3)
    hi = exp_hi if exp_hi is not None else exp_cap(l)
    exps = []
    while len(exps) < nprim:
        e = rand_exp(rng, exp_lo, hi)
        if all(abs(e - x) > 1e-3 * x for x in exps):
            exps.append(e)
    coeffs = [[rand_coeff(rng) for _ in range(nseg)] for _ in range(nprim)]
    if nprim >= 2 and nseg >= 2 and int(exps[0] * 1e6) % 3 == 0:
        # general contractions of published basis sets (cc-pVXZ, ANO) carry exact zeros: an uncontracted column / a primitive
        # that enters only some columns (no extra PRNG draw)
        coeffs[nprim - 1][0] = 0.0
        coeffs[0][nseg - 1] = 0.0
    c = rand_center(rng, centers)
    centers.append(c)
    if sph is None:
        sph = rng.random() < 0.5
    # about one shell in five reaches its parameters through the public setters + assign_norm_cont (no extra PRNG draw)
    return ShellSpec(l, c, exps, coeffs, sph=sph, via_update=(int(exps[0] * 1e6) % 5 == 0))


# ----------------------------------------------------------------------------------------------
# evidence / violations
class Run:
    def __init__(self, pid, tier, seed):
        self.pid = pid
        self.tier = tier
        self.seed = seed
        self.rng = random.Random(f"{pid}-{seed}")
        self.t0 = time.time()
        self.evaluations = 0
        self.distinct = set()
        self.samples = []
        self.hist = {}
        self.violations = []      # dicts
        self.known_hits = []      # (finding id, text)
        self.obligations = []     # (name, ok, detail)
        self.notes = []
        self.last_case = None
        self._model = None

    @property
    def model(self):
        if self._model is None:
            self._model = Model()
        return self._model

    def count(self, key, n=1):
        self.hist[key] = self.hist.get(key, 0) + n

    def case(self, signature, sample=None, nontrivial=True):
        self.last_case = {"signature": repr(signature)[:400], "sample": sample}
        self.evaluations += 1
        if nontrivial:
            self.distinct.add(signature)
        if sample is not None and len(self.samples) < 4:
            self.samples.append(sample)

    def obligation(self, name, ok, detail=""):
        self.obligations.append((name, bool(ok), detail))

    def violation(self, what, replay):
        self.violations.append({"what": what, "replay": replay})

    def close(self):
        if self._model is not None:
            self._model.close()
            self._model = None


def max_excess(impl, model, tol):
    """largest (|impl - model| - tol) and its index; tol scalar or array"""
    impl = np.asarray(impl)
    model = np.asarray(model)
    if impl.shape != model.shape:
        return math.inf, None
    if impl.size == 0:
        return -math.inf, None
    d = np.abs(impl - model) - tol
    d = np.where(np.isnan(d), np.inf, d)
    idx = np.unravel_index(np.argmax(d), d.shape)
    return float(d[idx]), tuple(int(i) for i in idx)
