"""Translators from /repo's source to GBExtracted/*.lean (run at the start of every check)."""
import os

from . import core


def write_if_changed(path, text):
    if os.path.exists(path) and open(path).read() == text:
        return False
    os.makedirs(os.path.dirname(path), exist_ok=True)
    with open(path, "w") as fh:
        fh.write(text)
    return True


def run_all(run):
    """Regenerate every extracted file; record translator failures as failed obligations."""
    from . import tr_tables, tr_forms, tr_pipelines, tr_effects, tr_dispatch, tr_formulas, tr_signatures
    for name, fn in [("Tables", tr_tables.generate), ("Forms", tr_forms.generate), ("Pipelines", tr_pipelines.generate),
                     ("Effects", tr_effects.generate), ("Dispatch", tr_dispatch.generate), ("Formulas", tr_formulas.generate),
                     ("Signatures", tr_signatures.generate)]:
        try:
            text = fn()
            write_if_changed(os.path.join(core.LEAN_DIR, "GBExtracted", name + ".lean"), text)
        except Exception as e:  # the source no longer has the shape the translator understands
            run.obligation(f"translator {name}", False, f"{type(e).__name__}: {e}"[:300])
