"""Translators, Lean build, axiom audit."""
import hashlib
import json
import os
import re
import subprocess
import time

from . import core

LEAN_DIR = core.LEAN_DIR
STD_AXIOMS = {"propext", "Classical.choice", "Quot.sound"}
FORBIDDEN = re.compile(r"\b(sorry|admit|native_decide|bv_decide|implemented_by)\b|^\s*axiom\s|unsafe\s|maxHeartbeats\s+0")


class FrameworkBroken(Exception):
    pass


def sh(cmd, timeout=3600):
    p = subprocess.run(cmd, cwd=LEAN_DIR, stdout=subprocess.PIPE, stderr=subprocess.STDOUT, text=True,
                       timeout=timeout)
    return p.returncode, p.stdout


def lean_sources():
    out = []
    for root, dirs, files in os.walk(LEAN_DIR):
        if ".lake" in root:
            continue
        for f in files:
            if f.endswith(".lean"):
                out.append(os.path.join(root, f))
    return sorted(out)


def strip_comments(text):
    text = re.sub(r"/-.*?-/", "", text, flags=re.S)
    text = re.sub(r"--.*", "", text)
    return text


def grep_forbidden():
    hits = []
    for p in lean_sources():
        body = strip_comments(open(p).read())
        for i, line in enumerate(body.splitlines()):
            if FORBIDDEN.search(line):
                hits.append(f"{os.path.relpath(p, LEAN_DIR)}: {line.strip()[:80]}")
    return hits


def sources_hash():
    h = hashlib.sha256()
    for p in lean_sources():
        h.update(p.encode())
        h.update(open(p, "rb").read())
    return h.hexdigest()


def load_theorems():
    with open(os.path.join(LEAN_DIR, "theorems.json")) as fh:
        return json.load(fh)


def audit(pid, names, module):
    """#print axioms for every listed theorem; returns {name: [axioms]}; raises if one is missing."""
    cache_path = os.path.join(LEAN_DIR, ".lake", f"audit-{pid}.json")
    key = sources_hash() + "|" + ",".join(names)
    if os.path.exists(cache_path):
        try:
            c = json.load(open(cache_path))
            if c.get("key") == key:
                return c["axioms"]
        except Exception:
            pass
    os.makedirs(os.path.join(LEAN_DIR, ".lake"), exist_ok=True)
    src = os.path.join(LEAN_DIR, ".lake", f"Audit_{pid}.lean")
    with open(src, "w") as fh:
        fh.write(f"import {module}\n")
        for n in names:
            fh.write(f"#print axioms {n}\n")
    rc, out = sh(["lake", "env", "lean", src])
    if rc != 0:
        raise FrameworkBroken(f"axiom audit failed for {pid}:\n{out[-2000:]}")
    res = {}
    for m in re.finditer(r"^'(\S+)' depends on axioms: \[([^\]]*)\]", out, flags=re.S | re.M):
        res[m.group(1)] = [a.strip() for a in m.group(2).replace("\n", " ").split(",") if a.strip()]
    for m in re.finditer(r"^'(\S+)' does not depend on any axioms", out, flags=re.M):
        res[m.group(1)] = []
    missing = [n for n in names if n not in res]
    if missing:
        raise FrameworkBroken(f"audit: theorems not found: {missing}\n{out[-1500:]}")
    json.dump({"key": key, "axioms": res}, open(cache_path, "w"))
    return res


def prepare(pid, tier, run):
    t0 = time.time()
    from . import translate

    # translators: regenerate GBExtracted from /repo's working tree
    translate.run_all(run)

    rc, out = sh(["lake", "build", "gbmodel"])
    if rc != 0:
        raise FrameworkBroken("model executable does not build:\n" + out[-3000:])

    thms = load_theorems()
    entry = thms.get(pid, {"module": None, "theorems": [], "obligation_modules": []})
    names = entry.get("theorems", [])
    module = entry.get("module")
    axioms = {}
    if module:
        rc, out = sh(["lake", "build", module])
        if rc != 0:
            raise FrameworkBroken(f"proof module {module} does not build:\n" + out[-3000:])
        hits = grep_forbidden()
        if hits:
            raise FrameworkBroken("forbidden construct in Lean sources: " + "; ".join(hits[:5]))
        axioms = audit(pid, names, module)
        for n in names:
            ok = set(axioms[n]) <= STD_AXIOMS
            run.obligation(f"theorem {n}", ok, "axioms: " + ",".join(axioms[n]))
            if not ok:
                raise FrameworkBroken(f"theorem {n} depends on non-standard axioms {axioms[n]}")
    # obligations about code extracted from /repo (may legitimately fail when the code changes)
    for om in entry.get("obligation_modules", []):
        rc, out = sh(["lake", "build", om])
        errs = [l for l in out.splitlines() if l.startswith("error")]
        run.obligation(f"extracted-code obligation {om}", rc == 0, "; ".join(errs[:3])[:400])
    checker = f"cd {LEAN_DIR} && lake build {module or 'gbmodel'} && lake env lean .lake/Audit_{pid}.lean"
    if tier == "thorough" and module:
        rc, out = sh(["lake", "env", "leanchecker", module], timeout=3600)
        run.obligation(f"leanchecker {module}", rc == 0, out[-300:])
        checker += f" && lake env leanchecker {module}"
    run.notes.append(f"build+audit {time.time() - t0:.1f} s")
    return {
        "checker_cmd": checker,
        "theorems": names,
        "axioms": sorted({a for v in axioms.values() for a in v}),
        "trusted_base": [
            "Lean 4.33 kernel; axioms propext, Classical.choice, Quot.sound only (audited by #print axioms on every run)",
            "Mathlib v4.33 (analysis, polynomial algebra) as imported by the proof modules",
            "correspondence harness (/verif/harness) and the compiled model gbmodel: BF 320-bit arithmetic approximates real arithmetic far below the property's tolerance",
            "NumPy/SciPy semantics of the vectorised expressions are modelled index-wise, validated only by the correspondence",
        ],
    }
