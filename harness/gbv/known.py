"""Known findings: matching of a violation against /verif/known_findings.json (never written at run time)."""
import json
import os

from . import core

_PATH = os.path.join(core.VERIF, "known_findings.json")


def load():
    with open(_PATH) as fh:
        return json.load(fh)


def _match_eri_transfer(v, spec):
    """ERI element whose block needs >= `min_transfer_steps` electron-transfer steps (l_c + l_d) while a bra
    primitive exponent sum exceeds `min_ratio` times a ket primitive exponent sum."""
    sig = v["replay"].get("signature", {})
    return (sig.get("kind") == "eri" and sig.get("lc_plus_ld", 0) >= spec["min_transfer_steps"]
            and sig.get("pq_ratio", 0.0) >= spec["min_ratio"])


MATCHERS = {"eri_transfer_amplification": _match_eri_transfer}


def match(pid, violation):
    data = load()
    for f in data.get("findings", []):
        if pid in f["properties"] and MATCHERS[f["matcher"]](violation, f.get("spec", {})):
            return f
    return None
