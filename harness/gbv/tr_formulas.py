"""Translator: the scalar / elementwise formulas that the theorems are about -> GBExtracted/Formulas.lean.

Selected expressions of /repo's source are read with `ast` and emitted as S-expressions (`GB.Formula.E`): a literal, a name, or an
application.  `a + b` becomes `(+ a b)`, `f(x, k=y)` becomes `(f x (k= y))`, `a[i]` `([] a i)`, `a.b` `(. a b)`, comparisons and
boolean operators likewise.  The operands of `+` and `*` are sorted, `a - b` stays as it is, so that a mere reordering of a sum or
product is not a difference.  The Lean side (GBModel/Formulas.lean) holds the expected trees, the obligation is their equality
(GBProofs/Obl/Formulas.lean, `decide`), and GBProofs/FormulaProofs.lean gives the expected trees their meaning over the reals
(the cutoff of the screening rule, the primitive normalisation, …).

What is extracted (function : what):
  overlap.is_integral_screened : alpha_a, alpha_b, cutoff, the returned comparison
  contractions.GeneralizedContractionShell.norm_prim_cart : the returned expression
  spherical.harmonic_norm : the returned expression
  point_charge.PointChargeIntegral.boys_func : the returned expression
  electrostatic_potential.electrostatic_potential : dist, external_potential (first assignment), the mask statement
  density.evaluate_density / evaluate_posdef_kinetic_energy_density : the clipping rule (test of the raise, the clip)
  density.evaluate_general_kinetic_energy_density : the test guarding the Laplacian term
  electron_repulsion.ElectronRepulsionIntegral.construct_array_contraction : the orientation estimate (exps_sum_one, exps_sum_two,
      amplification, amplification_swapped, swap_pairs)
"""
import ast
import os

from . import core

BINOP = {ast.Add: "+", ast.Sub: "-", ast.Mult: "*", ast.Div: "/", ast.Pow: "**", ast.FloorDiv: "//", ast.Mod: "%", ast.MatMult: "@"}
CMPOP = {ast.Lt: "<", ast.LtE: "<=", ast.Gt: ">", ast.GtE: ">=", ast.Eq: "==", ast.NotEq: "!=", ast.Is: "is", ast.IsNot: "is-not",
         ast.In: "in", ast.NotIn: "not-in"}
COMMUTATIVE = {"+", "*"}


def sx(node):
    """AST expression -> nested tuple ('lit', s) | ('name', s) | ('app', f, [args])"""
    if isinstance(node, ast.Constant):
        return ("lit", repr(node.value))
    if isinstance(node, ast.Name):
        return ("name", node.id)
    if isinstance(node, ast.Attribute):
        return ("app", ("name", "."), [sx(node.value), ("name", node.attr)])
    if isinstance(node, ast.BinOp):
        op = BINOP.get(type(node.op), type(node.op).__name__)
        args = [sx(node.left), sx(node.right)]
        if op in COMMUTATIVE:
            # flatten nested sums / products and sort
            flat = []
            for a in args:
                if a[0] == "app" and a[1] == ("name", op):
                    flat += a[2]
                else:
                    flat.append(a)
            args = sorted(flat, key=render)
        return ("app", ("name", op), args)
    if isinstance(node, ast.UnaryOp):
        op = {ast.USub: "neg", ast.UAdd: "pos", ast.Not: "not", ast.Invert: "~"}[type(node.op)]
        return ("app", ("name", op), [sx(node.operand)])
    if isinstance(node, ast.Compare):
        out = None
        left = node.left
        for op, right in zip(node.ops, node.comparators):
            c = ("app", ("name", CMPOP.get(type(op), type(op).__name__)), [sx(left), sx(right)])
            out = c if out is None else ("app", ("name", "and"), [out, c])
            left = right
        return out
    if isinstance(node, ast.BoolOp):
        op = "and" if isinstance(node.op, ast.And) else "or"
        return ("app", ("name", op), [sx(v) for v in node.values])
    if isinstance(node, ast.Call):
        args = [sx(a) for a in node.args]
        for k in node.keywords:
            args.append(("app", ("name", (k.arg or "**") + "="), [sx(k.value)]))
        return ("app", sx(node.func), args)
    if isinstance(node, ast.Subscript):
        return ("app", ("name", "[]"), [sx(node.value), sx(node.slice)])
    if isinstance(node, ast.Tuple):
        return ("app", ("name", "tuple"), [sx(e) for e in node.elts])
    if isinstance(node, ast.List):
        return ("app", ("name", "list"), [sx(e) for e in node.elts])
    if isinstance(node, ast.Slice):
        none = ("lit", "None")
        return ("app", ("name", "slice"), [sx(node.lower) if node.lower else none, sx(node.upper) if node.upper else none,
                                          sx(node.step) if node.step else none])
    if isinstance(node, ast.IfExp):
        return ("app", ("name", "if-else"), [sx(node.test), sx(node.body), sx(node.orelse)])
    if isinstance(node, ast.GeneratorExp) or isinstance(node, ast.ListComp):
        return ("app", ("name", "comprehension"), [("lit", ast.unparse(node))])
    return ("lit", "<" + ast.unparse(node) + ">")


def render(t):
    if t[0] == "lit":
        return "L:" + t[1]
    if t[0] == "name":
        return "N:" + t[1]
    return "(" + render(t[1]) + " " + " ".join(render(a) for a in t[2]) + ")"


def q(s):
    return '"' + s.replace("\\", "\\\\").replace('"', '\\"') + '"'


def lean(t):
    if t[0] == "lit":
        return f"(.lit {q(t[1])})"
    if t[0] == "name":
        return f"(.name {q(t[1])})"
    out = lean(t[1])
    for a in t[2]:
        out = f"(.app {out} {lean(a)})"
    if not t[2]:
        out = f"(.app {out} (.name \"()\"))"
    return out


def find_func(tree, qual):
    parts = qual.split(".")
    node = tree
    for p in parts:
        node = next(n for n in ast.iter_child_nodes(node) if isinstance(n, (ast.FunctionDef, ast.ClassDef)) and n.name == p)
    return node


def assigns(fn, name, which=0):
    found = [st for st in ast.walk(fn) if isinstance(st, ast.Assign) and len(st.targets) == 1 and isinstance(st.targets[0], ast.Name)
             and st.targets[0].id == name]
    found.sort(key=lambda s: s.lineno)
    return found[which].value


def returns(fn, which=-1):
    found = [st for st in ast.walk(fn) if isinstance(st, ast.Return) and st.value is not None]
    found.sort(key=lambda s: s.lineno)
    return found[which].value


def raise_test(fn, which=-1):
    """the test of the last `if` whose body is a single `raise` (the rejection of too negative values)"""
    found = [st for st in ast.walk(fn) if isinstance(st, ast.If) and len(st.body) == 1 and isinstance(st.body[0], ast.Raise)]
    found.sort(key=lambda s: s.lineno)
    return found[which].test


def subscript_store(fn, target):
    """`target[index] = value` -> (index, value)"""
    for st in ast.walk(fn):
        if isinstance(st, ast.Assign) and len(st.targets) == 1 and isinstance(st.targets[0], ast.Subscript) \
                and isinstance(st.targets[0].value, ast.Name) and st.targets[0].value.id == target:
            return ast.Tuple(elts=[st.targets[0].slice, st.value], ctx=ast.Load())
    raise LookupError(f"no store into {target}[...]")


def guard_of_call(fn, callee):
    """the test of the `if` statement whose body contains a call of `callee`"""
    for st in ast.walk(fn):
        if isinstance(st, ast.If) and any(isinstance(c, ast.Call) and isinstance(c.func, ast.Name) and c.func.id == callee
                                          for c in ast.walk(ast.Module(body=st.body, type_ignores=[]))):
            return st.test
    raise LookupError(f"no guarded call of {callee}")


TARGETS = [
    ("gbasis/integrals/overlap.py", "is_integral_screened", [
        ("screen.alpha_a", lambda f: assigns(f, "alpha_a")), ("screen.alpha_b", lambda f: assigns(f, "alpha_b")),
        ("screen.cutoff", lambda f: assigns(f, "cutoff")), ("screen.r_12", lambda f: assigns(f, "r_12")),
        ("screen.result", lambda f: returns(f))]),
    ("gbasis/contractions.py", "GeneralizedContractionShell.norm_prim_cart", [
        ("norm_prim.exponents", lambda f: assigns(f, "exponents")), ("norm_prim.components", lambda f: assigns(f, "angmom_components_cart")),
        ("norm_prim.result", lambda f: returns(f))]),
    ("gbasis/spherical.py", "harmonic_norm", [("harmonic_norm.result", lambda f: returns(f))]),
    ("gbasis/integrals/point_charge.py", "PointChargeIntegral.boys_func", [("boys.result", lambda f: returns(f))]),
    ("gbasis/evals/electrostatic_potential.py", "electrostatic_potential", [
        ("esp.dist", lambda f: assigns(f, "dist")), ("esp.nuclear_terms", lambda f: assigns(f, "external_potential", 0)),
        ("esp.mask", lambda f: subscript_store(f, "external_potential")), ("esp.nuclear_sum", lambda f: assigns(f, "external_potential", 1)),
        ("esp.result", lambda f: returns(f))]),
    ("gbasis/evals/density.py", "evaluate_density", [
        ("density.reject", lambda f: raise_test(f)), ("density.result", lambda f: returns(f))]),
    ("gbasis/evals/density.py", "evaluate_posdef_kinetic_energy_density", [
        ("tplus.reject", lambda f: raise_test(f)), ("tplus.result", lambda f: returns(f))]),
    ("gbasis/evals/density.py", "evaluate_general_kinetic_energy_density", [
        ("generalke.guard", lambda f: guard_of_call(f, "evaluate_density_laplacian"))]),
    ("gbasis/integrals/electron_repulsion.py", "ElectronRepulsionIntegral.construct_array_contraction", [
        ("eri.exps_sum_one", lambda f: assigns(f, "exps_sum_one")), ("eri.exps_sum_two", lambda f: assigns(f, "exps_sum_two")),
        ("eri.amplification", lambda f: assigns(f, "amplification")), ("eri.amplification_swapped", lambda f: assigns(f, "amplification_swapped")),
        ("eri.swap_pairs", lambda f: assigns(f, "swap_pairs"))]),
]


def extract_all():
    out = []
    for path, qual, items in TARGETS:
        tree = ast.parse(open(os.path.join(core.REPO, path)).read())
        try:
            fn = find_func(tree, qual)
        except StopIteration:
            for name, _ in items:
                out.append((name, ("lit", f"<function {qual} not found>")))
            continue
        for name, get in items:
            try:
                out.append((name, sx(get(fn))))
            except Exception as e:  # the statement is no longer there in this shape
                out.append((name, ("lit", f"<not found: {type(e).__name__}>")))
    return out


def generate():
    lines = ["import GBModel.Formulas",
             "/-! GENERATED by /verif/harness/gbv/tr_formulas.py from /repo's source on every check run. Do not edit. -/",
             "namespace GBExtracted", "open GB.Formula", ""]
    names = []
    for name, t in extract_all():
        ident = "f_" + name.replace(".", "_")
        names.append((name, ident))
        lines.append(f"def {ident} : E := {lean(t)}")
    lines.append("")
    lines.append("def formulas : List (String × E) := [" + ", ".join(f"({q(n)}, {i})" for n, i in names) + "]")
    lines += ["", "end GBExtracted", ""]
    return "\n".join(lines)


def expected_source():
    """the same trees as Lean definitions for GBModel/Formulas.lean (run once on the reviewed tree; then maintained by hand)"""
    lines = []
    for name, t in extract_all():
        ident = "x_" + name.replace(".", "_")
        lines.append(f"def {ident} : E := {lean(t)}")
    return "\n".join(lines)
