"""Translator: the coordinate-type dispatch of the public wrapper functions -> GBExtracted/Dispatch.lean.

For each public integral / evaluation wrapper the body is read with `ast`:
  * every assignment to a name starting with `coord_type`: is it a list (comprehension / list(...)) or a generator, and over which
    basis argument does it run, collecting `shell.coord_type`;
  * a literal `kwargs = {"k": k, ...}` dictionary (so that `**kwargs` can be expanded);
  * the chain of `if` / `elif` / `else` / final `return` statements whose bodies are `Class(args).construct_array_*(…)`
    (returned or assigned): guard, method, positional argument names, keyword names.
Anything else in the body is recorded as guard `.other "<source>"` (which no criterion accepts), except the statements listed
as harmless: the docstring, a validation `if …: raise …`, and what follows the chain in `electron_repulsion_integral`
(the physicists' transpose, checked by C04).
"""
import ast
import os

from . import core

WRAPPERS = [("gbasis/integrals/overlap.py", "overlap_integral"),
            ("gbasis/integrals/kinetic_energy.py", "kinetic_energy_integral"),
            ("gbasis/integrals/momentum.py", "momentum_integral"),
            ("gbasis/integrals/angular_momentum.py", "angular_momentum_integral"),
            ("gbasis/integrals/moment.py", "moment_integral"),
            ("gbasis/integrals/point_charge.py", "point_charge_integral"),
            ("gbasis/integrals/electron_repulsion.py", "electron_repulsion_integral"),
            ("gbasis/integrals/overlap_asymm.py", "overlap_integral_asymmetric"),
            ("gbasis/evals/eval.py", "evaluate_basis"),
            ("gbasis/evals/eval_deriv.py", "evaluate_deriv_basis")]


def q(s):
    return '"' + s.replace("\\", "\\\\").replace('"', '\\"').replace("\n", " ")[:120] + '"'


def lst(xs):
    return "[" + ", ".join(xs) + "]"


def src(node):
    try:
        return ast.unparse(node)
    except Exception:
        return type(node).__name__


def seq_of(node):
    """(kind, source basis name) of an expression that should collect shell.coord_type over a basis argument"""
    if isinstance(node, (ast.ListComp, ast.GeneratorExp)):
        kind = "list" if isinstance(node, ast.ListComp) else "generator"
        if len(node.generators) != 1 or node.generators[0].ifs:
            return "other", src(node)
        gen = node.generators[0]
        it = gen.iter
        if isinstance(it, ast.Name):
            # innermost: the element must be <loop var>.coord_type
            ok = (isinstance(node.elt, ast.Attribute) and node.elt.attr == "coord_type" and isinstance(node.elt.value, ast.Name)
                  and isinstance(gen.target, ast.Name) and node.elt.value.id == gen.target.id)
            return (kind, it.id) if ok else ("other", src(node))
        # outer identity comprehension  [ct for ct in <inner>]
        if isinstance(node.elt, ast.Name) and isinstance(gen.target, ast.Name) and node.elt.id == gen.target.id:
            ik, isrc = seq_of(it)
            if ik == "other":
                return ik, isrc
            return (kind if ik == "list" else ("generator" if kind == "generator" else "other")), isrc
        return "other", src(node)
    if isinstance(node, ast.Call) and isinstance(node.func, ast.Name) and node.func.id in ("list", "tuple") and len(node.args) == 1:
        ik, isrc = seq_of(node.args[0])
        return ("list" if ik in ("list", "generator") else "other"), isrc
    return "other", src(node)


def guard_of(node):
    if isinstance(node, ast.Compare) and len(node.ops) == 1 and isinstance(node.ops[0], ast.IsNot) \
            and isinstance(node.left, ast.Name) and node.left.id == "transform" \
            and isinstance(node.comparators[0], ast.Constant) and node.comparators[0].value is None:
        return ".transform"
    if isinstance(node, ast.Call) and isinstance(node.func, ast.Name) and node.func.id in ("all", "any") and len(node.args) == 1 \
            and isinstance(node.args[0], ast.GeneratorExp):
        g = node.args[0]
        if len(g.generators) == 1 and not g.generators[0].ifs and isinstance(g.generators[0].iter, ast.Name) \
                and isinstance(g.generators[0].target, ast.Name) and isinstance(g.elt, ast.Compare) and len(g.elt.ops) == 1 \
                and isinstance(g.elt.ops[0], ast.Eq) and isinstance(g.elt.left, ast.Name) and g.elt.left.id == g.generators[0].target.id \
                and isinstance(g.elt.comparators[0], ast.Constant) and isinstance(g.elt.comparators[0].value, str):
            return f".{node.func.id}Eq {q(g.generators[0].iter.id)} {q(g.elt.comparators[0].value)}"
    if isinstance(node, ast.Compare) and len(node.ops) == 1 and isinstance(node.ops[0], ast.Eq) and isinstance(node.left, ast.Name) \
            and isinstance(node.comparators[0], ast.Constant) and isinstance(node.comparators[0].value, str):
        return f".strEq {q(node.left.id)} {q(node.comparators[0].value)}"
    if isinstance(node, ast.BoolOp) and isinstance(node.op, ast.Or):
        out = guard_of(node.values[0])
        for v in node.values[1:]:
            out = f".or ({out}) ({guard_of(v)})"
        return out
    if isinstance(node, ast.UnaryOp) and isinstance(node.op, ast.Not):
        return f".not ({guard_of(node.operand)})"
    return f".other {q(src(node))}"


def call_of(stmt, kwdict):
    """(method, ctor args, pos, kws) of  `return Class(a).m(...)`  or  `x = Class(a).m(...)`, else None"""
    val = None
    if isinstance(stmt, ast.Return):
        val = stmt.value
    elif isinstance(stmt, ast.Assign) and len(stmt.targets) == 1 and isinstance(stmt.targets[0], ast.Name):
        val = stmt.value
    if not (isinstance(val, ast.Call) and isinstance(val.func, ast.Attribute) and isinstance(val.func.value, ast.Call)
            and isinstance(val.func.value.func, ast.Name)):
        return None
    ctor = [a.id if isinstance(a, ast.Name) else "<" + src(a) + ">" for a in val.func.value.args]
    pos = [a.id if isinstance(a, ast.Name) else "<" + src(a) + ">" for a in val.args]
    kws = []
    for k in val.keywords:
        if k.arg is None:
            if isinstance(k.value, ast.Name) and k.value.id in kwdict:
                kws += kwdict[k.value.id]
            else:
                kws.append("**<" + src(k.value) + ">")
        elif isinstance(k.value, ast.Name) and k.value.id == k.arg:
            kws.append(k.arg)
        else:
            kws.append(f"{k.arg}=<{src(k.value)}>")
    return val.func.attr, ctor, pos, kws


def extract(path, fname):
    tree = ast.parse(open(os.path.join(core.REPO, path)).read())
    fn = next(n for n in ast.walk(tree) if isinstance(n, ast.FunctionDef) and n.name == fname)
    params = [a.arg for a in fn.args.posonlyargs + fn.args.args + fn.args.kwonlyargs]
    coord, kwdict, branches, ctors = [], {}, [], []
    body = list(fn.body)
    if body and isinstance(body[0], ast.Expr) and isinstance(body[0].value, ast.Constant):
        body = body[1:]
    done = False

    def add_branch(guard, stmts):
        c = call_of(stmts[0], kwdict) if len(stmts) == 1 else None
        if c is None:
            branches.append((f".other {q('; '.join(src(s) for s in stmts))}" if guard == ".otherwise" else guard, "<unrecognised>", [], []))
            return
        m, ctor, pos, kws = c
        ctors.append(ctor)
        branches.append((guard, m, pos, kws))

    def chain(node):
        """an if / elif / else chain"""
        add_branch(guard_of(node.test), node.body)
        if len(node.orelse) == 1 and isinstance(node.orelse[0], ast.If):
            chain(node.orelse[0])
            return True
        if node.orelse:
            add_branch(".otherwise", node.orelse)
            return True       # chain closed by else
        return False

    for st in body:
        if done:
            # after the chain: only `electron_repulsion_integral` has more (notation handling), which C04 covers
            continue
        if isinstance(st, ast.If) and all(isinstance(b, ast.Raise) for b in st.body) and not st.orelse:
            continue
        if isinstance(st, ast.Assign) and len(st.targets) == 1 and isinstance(st.targets[0], ast.Name):
            name = st.targets[0].id
            if name.startswith("coord_type"):
                kind, source = seq_of(st.value)
                coord.append((name, kind, source))
                continue
            if isinstance(st.value, ast.Dict) and all(isinstance(k, ast.Constant) and isinstance(v, ast.Name) and k.value == v.id
                                                      for k, v in zip(st.value.keys, st.value.values)):
                kwdict[name] = [k.value for k in st.value.keys]
                continue
        if isinstance(st, ast.If):
            if chain(st):
                done = True
            continue
        if isinstance(st, ast.Return):
            add_branch(".otherwise", [st])
            done = True
            continue
        branches.append((f".other {q(src(st))}", "<statement>", [], []))
    ctor = ctors[0] if ctors and all(c == ctors[0] for c in ctors) else ["<inconsistent>"]
    return params, ctor, coord, branches


def generate():
    lines = ["import GBModel.Dispatch",
             "/-! GENERATED by /verif/harness/gbv/tr_dispatch.py from /repo's public wrapper functions on every check run. Do not edit. -/",
             "namespace GBExtracted", "open GB.Dispatch", "", "def wrappers : List Wrapper := ["]
    rows = []
    for path, fname in WRAPPERS:
        params, ctor, coord, branches = extract(path, fname)
        cvs = lst(f"⟨{q(n)}, .{k}, {q(s)}⟩" for n, k, s in coord)
        brs = lst(f"⟨{g}, {q(m)}, {lst(q(p) for p in pos)}, {lst(q(k) for k in kws)}⟩" for g, m, pos, kws in branches)
        rows.append(f"  {{ fn := {q(fname)}, params := {lst(q(p) for p in params)}, ctorArgs := {lst(q(c) for c in ctor)},\n"
                    f"    coordVars := {cvs},\n    branches := {brs} }}")
    lines.append(",\n".join(rows))
    lines += ["]", "", "end GBExtracted", ""]
    return "\n".join(lines)
