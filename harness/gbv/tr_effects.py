"""Translator: static effect extraction over /repo's gbasis package -> GBExtracted/Effects.lean.

For every function of the package (libcint.py, a ctypes binding to an absent library, and the
`from_iodata` wrapper, whose dependency is absent, are outside the model) every mutating statement is
listed with a conservative classification of its target, by a simple forward alias analysis inside
the function body:
  param         the name is a parameter (or `self`, outside the shell class) and has not been rebound
  viewOfParam   rebound to a view of a parameter (subscript, attribute, reshape, swapaxes, .T, np.newaxis …)
  fresh         rebound to the result of an allocating expression (arithmetic, np.zeros/array/…, a call
                of a library function, a comprehension, list(...), .copy())
  selfShell     `self.<attr>` inside a method of GeneralizedContractionShell (the shell's own state)
  unknown       anything else
and every `np.seterr` call is listed with its protection.
"""
import ast
import os

from . import core

SKIP_FILES = {"gbasis/integrals/libcint.py"}
SKIP_FUNCS = {"from_iodata"}
MUTATORS = {"pop", "append", "extend", "insert", "remove", "clear", "sort", "reverse", "fill", "put", "itemset", "resize",
            "setfield", "setflags", "update", "popitem", "__setitem__", "partition", "byteswap"}
# dict.setdefault mutates, but the library uses it on local dicts only; it is classified like any other mutator
MUTATORS.add("setdefault")
VIEW_FUNCS = {"swapaxes", "transpose", "reshape", "squeeze", "ravel", "asarray", "atleast_1d", "atleast_2d", "moveaxis", "diagonal",
              "real", "imag", "view", "broadcast_to", "expand_dims", "einsum"}
VIEW_ATTRS = {"T", "real", "imag", "flat"}


class FuncEffects(ast.NodeVisitor):
    def __init__(self, func, in_shell_class):
        self.func = func
        self.in_shell = in_shell_class
        self.env = {}
        args = func.args
        for a in args.posonlyargs + args.args + args.kwonlyargs:
            self.env[a.arg] = "param"
        if args.vararg:
            self.env[args.vararg.arg] = "param"
        if args.kwarg:
            self.env[args.kwarg.arg] = "param"
        self.effects = []      # (line, kind, target class)
        self.seterr = []       # (line, protection)
        self.finally_depth = 0
        self.try_with_finally_restore = 0

    # ---- classification of expressions
    def classify(self, node):
        if isinstance(node, ast.Name):
            return self.env.get(node.id, "unknown-name")
        if isinstance(node, ast.Attribute):
            if isinstance(node.value, ast.Name) and node.value.id == "self" and self.in_shell:
                return "selfShell"
            base = self.classify(node.value)
            if node.attr in VIEW_ATTRS or base in ("param", "viewOfParam"):
                return "viewOfParam" if base in ("param", "viewOfParam") else base
            return base
        if isinstance(node, ast.Subscript):
            base = self.classify(node.value)
            return "viewOfParam" if base in ("param", "viewOfParam") else base
        if isinstance(node, ast.Starred):
            return self.classify(node.value)
        if isinstance(node, (ast.BinOp, ast.UnaryOp, ast.Compare, ast.BoolOp, ast.Constant, ast.ListComp, ast.DictComp,
                             ast.SetComp, ast.GeneratorExp, ast.JoinedStr, ast.Dict, ast.Set)):
            return "fresh"
        if isinstance(node, (ast.List, ast.Tuple)):
            return "fresh"
        if isinstance(node, ast.IfExp):
            a, b = self.classify(node.body), self.classify(node.orelse)
            return a if a == b else ("viewOfParam" if "param" in (a, b) or "viewOfParam" in (a, b) else "unknown")
        if isinstance(node, ast.Call):
            f = node.func
            name = f.attr if isinstance(f, ast.Attribute) else (f.id if isinstance(f, ast.Name) else "")
            if name in VIEW_FUNCS:
                # np.swapaxes(x, ...) / x.reshape(...): a view of its (first) array argument
                if isinstance(f, ast.Attribute) and not (isinstance(f.value, ast.Name) and f.value.id == "np"):
                    src = self.classify(f.value)
                else:
                    srcs = [self.classify(a) for a in node.args]
                    src = "fresh"
                    for s in srcs:
                        if s in ("param", "viewOfParam"):
                            src = "viewOfParam"
                        elif s.startswith("unknown") and src == "fresh":
                            src = s
                    if name == "einsum" and len(node.args) >= 2:
                        src = self.classify(node.args[1])
                return "viewOfParam" if src in ("param", "viewOfParam") else src
            return "fresh"       # every other call allocates its result
        return "unknown"

    def record(self, node, kind, target):
        cls = self.classify(target)
        if cls.startswith("unknown"):
            cls = "unknown"
        self.effects.append((node.lineno, kind, cls))

    # ---- statements, in order
    def run(self):
        self.block(self.func.body)

    def block(self, stmts):
        for st in stmts:
            self.stmt(st)

    RANK = {"param": 5, "viewOfParam": 4, "unknown": 3, "unknown-name": 3, "selfShell": 1, "fresh": 0}

    def join(self, envs):
        """least upper bound of several environments (a name keeps the most dangerous classification)"""
        keys = set()
        for e in envs:
            keys |= set(e)
        out = {}
        for k in keys:
            vals = [e.get(k, "unknown-name") for e in envs]
            out[k] = max(vals, key=lambda v: self.RANK.get(v, 3))
        return out

    def branches(self, bodies):
        """analyse alternative bodies from the current environment and join the results"""
        start = dict(self.env)
        ends = []
        for body in bodies:
            self.env = dict(start)
            self.block(body)
            ends.append(self.env)
        self.env = self.join(ends)

    def assign_name(self, name, value):
        self.env[name] = self.classify(value)

    def stmt(self, st):
        if isinstance(st, (ast.FunctionDef, ast.ClassDef, ast.AsyncFunctionDef)):
            return          # nested definitions are analysed on their own
        for node in ast.walk(st) if not isinstance(st, (ast.For, ast.While, ast.If, ast.With, ast.Try)) else self.shallow(st):
            if isinstance(node, ast.Call):
                f = node.func
                if isinstance(f, ast.Attribute) and f.attr in MUTATORS:
                    self.record(node, f"call .{f.attr}", f.value)
                for kw in node.keywords:
                    if kw.arg == "out":
                        self.record(node, "out=", kw.value)
                if isinstance(f, ast.Attribute) and f.attr == "seterr" and isinstance(f.value, ast.Name) and f.value.id == "np":
                    self.seterr.append((node.lineno, "scoped" if self.try_with_finally_restore > 0 or self.finally_depth > 0 else "leaking"))
        if isinstance(st, ast.Assign):
            for tg in st.targets:
                self.target(st, tg, st.value)
        elif isinstance(st, ast.AugAssign):
            if isinstance(st.target, ast.Name):
                # x op= y mutates the object x refers to when it is a mutable container
                self.record(st, "augmented assignment", st.target)
            else:
                self.record(st, "augmented assignment", st.target.value if isinstance(st.target, ast.Subscript) else st.target)
        elif isinstance(st, ast.AnnAssign) and st.value is not None:
            self.target(st, st.target, st.value)
        elif isinstance(st, ast.Delete):
            for tg in st.targets:
                if isinstance(tg, ast.Subscript):
                    self.record(st, "del item", tg.value)
        elif isinstance(st, ast.For):
            self.bind_loop(st.target, st.iter)
            self.branches([st.body + st.orelse, []])
        elif isinstance(st, ast.While):
            self.branches([st.body + st.orelse, []])
        elif isinstance(st, ast.If):
            self.branches([st.body, st.orelse])
        elif isinstance(st, ast.With):
            for item in st.items:
                if item.optional_vars is not None and isinstance(item.optional_vars, ast.Name):
                    self.env[item.optional_vars.id] = "fresh"
            self.block(st.body)
        elif isinstance(st, ast.Try):
            restores = any(isinstance(n, ast.Call) and isinstance(n.func, ast.Attribute) and n.func.attr == "seterr"
                           for f in st.finalbody for n in ast.walk(f))
            if restores:
                self.try_with_finally_restore += 1
            self.block(st.body)
            for h in st.handlers:
                self.block(h.body)
            self.block(st.orelse)
            if restores:
                self.try_with_finally_restore -= 1
            self.finally_depth += 1
            self.block(st.finalbody)
            self.finally_depth -= 1

    def shallow(self, st):
        """nodes of the header of a compound statement only (bodies are visited as statements)"""
        hdr = []
        if isinstance(st, ast.For):
            hdr = [st.iter]
        elif isinstance(st, (ast.While, ast.If)):
            hdr = [st.test]
        elif isinstance(st, ast.With):
            hdr = [i.context_expr for i in st.items]
        out = []
        for h in hdr:
            out.extend(ast.walk(h))
        return out

    def bind_loop(self, target, it):
        cls = self.classify(it)
        elem = "viewOfParam" if cls in ("param", "viewOfParam") else ("fresh" if cls == "fresh" else "unknown")
        # zip(...)/enumerate(...) over parameters yields elements of parameters
        if isinstance(it, ast.Call) and any(self.classify(a) in ("param", "viewOfParam") for a in ast.walk(it) if isinstance(a, (ast.Name, ast.Attribute, ast.Subscript))):
            elem = "viewOfParam"
        for n in ast.walk(target):
            if isinstance(n, ast.Name):
                self.env[n.id] = elem

    def target(self, st, tg, value):
        if isinstance(tg, ast.Name):
            self.assign_name(tg.id, value)
        elif isinstance(tg, (ast.Tuple, ast.List)):
            vals = value.elts if isinstance(value, (ast.Tuple, ast.List)) and len(value.elts) == len(tg.elts) else None
            for k, el in enumerate(tg.elts):
                if isinstance(el, ast.Name):
                    if vals is not None:
                        self.env[el.id] = self.classify(vals[k])
                    else:
                        c = self.classify(value)
                        self.env[el.id] = "viewOfParam" if c in ("param", "viewOfParam") else c
                else:
                    self.target(st, el, value)
        elif isinstance(tg, ast.Subscript):
            self.record(st, "item assignment", tg.value)
        elif isinstance(tg, ast.Attribute):
            if isinstance(tg.value, ast.Name) and tg.value.id == "self":
                # storing a reference in the object's own attribute: allowed in constructors/setters of any class
                self.effects.append((st.lineno, "attribute store on self", "selfShell" if self.in_shell or self.func.name == "__init__" else "param"))
            else:
                self.record(st, "attribute store", tg.value)


def extract_all():
    out = []     # (qualified name, [(line, kind, class)], err protocol)
    root = os.path.join(core.REPO, "gbasis")
    for dirpath, _dirs, files in sorted(os.walk(root)):
        for fn in sorted(files):
            if not fn.endswith(".py"):
                continue
            rel = os.path.relpath(os.path.join(dirpath, fn), core.REPO)
            if rel in SKIP_FILES:
                continue
            tree = ast.parse(open(os.path.join(dirpath, fn)).read())
            mod = rel[:-3].replace("/", ".")

            def visit(node, prefix, in_shell):
                for sub in node.body if hasattr(node, "body") else []:
                    if isinstance(sub, ast.ClassDef):
                        visit(sub, prefix + sub.name + ".", sub.name == "GeneralizedContractionShell" or
                              any(isinstance(b, ast.Name) and b.id == "GeneralizedContractionShell" for b in sub.bases))
                    elif isinstance(sub, ast.FunctionDef):
                        if sub.name in SKIP_FUNCS:
                            continue
                        fe = FuncEffects(sub, in_shell)
                        fe.run()
                        if not fe.seterr:
                            proto = "untouched"
                        elif all(p == "scoped" for _, p in fe.seterr):
                            proto = "scoped"
                        else:
                            proto = "leaking"
                        out.append((f"{mod}.{prefix}{sub.name}", fe.effects, proto))
                        visit(sub, prefix + sub.name + ".", in_shell)
            visit(tree, "", False)
    return out


def generate():
    entries = extract_all()
    cls_map = {"fresh": ".fresh", "selfShell": ".selfShell", "param": ".param", "viewOfParam": ".viewOfParam", "unknown": ".unknown", "global": ".global"}
    lines = ["import GBModel.Purity",
             "/-! GENERATED by /verif/harness/gbv/tr_effects.py from /repo's gbasis package on every check run. Do not edit. -/",
             "namespace GBExtracted", "open GB.Purity", "",
             "def summaries : List Summary := ["]
    rows = []
    for name, effs, proto in entries:
        es = ", ".join(f'⟨"{name}", {ln}, "{kind}", {cls_map[c]}⟩' for ln, kind, c in effs)
        rows.append(f'  {{ fn := "{name}", effects := [{es}], err := .{proto} }}')
    lines.append(",\n".join(rows))
    lines += ["]", "", "end GBExtracted", ""]
    return "\n".join(lines)
