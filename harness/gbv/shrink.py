"""Shrinking of failing cases: reduce the basis of a violation's replay while the check's own replay still fails."""
import copy
import time

SIZE_DEPENDENT = ("transform", "T", "gamma", "perm", "pattern", "Ms", "ls", "text")


def _candidates(basis):
    """smaller / simpler variants of a list of shell descriptions, most aggressive first"""
    out = []
    n = len(basis)
    if n > 1:
        for k in range(n):
            out.append(basis[:k] + basis[k + 1:])
    for k, s in enumerate(basis):
        nprim = len(s["exps"])
        ncol = len(s["coeffs"][0]) if s["coeffs"] and isinstance(s["coeffs"][0], list) else 1
        if nprim > 1:
            for j in range(nprim):
                t = copy.deepcopy(s)
                t["exps"] = s["exps"][:j] + s["exps"][j + 1:]
                t["coeffs"] = s["coeffs"][:j] + s["coeffs"][j + 1:]
                out.append(basis[:k] + [t] + basis[k + 1:])
        if ncol > 1:
            for j in range(ncol):
                t = copy.deepcopy(s)
                t["coeffs"] = [row[:j] + row[j + 1:] for row in s["coeffs"]]
                out.append(basis[:k] + [t] + basis[k + 1:])
        if any(c != 1.0 for row in s["coeffs"] for c in (row if isinstance(row, list) else [row])):
            t = copy.deepcopy(s)
            t["coeffs"] = [[1.0 for _ in (row if isinstance(row, list) else [row])] for row in s["coeffs"]]
            out.append(basis[:k] + [t] + basis[k + 1:])
        if any(c != round(c, 1) for c in s["center"]):
            t = copy.deepcopy(s)
            t["center"] = [round(c, 1) for c in s["center"]]
            out.append(basis[:k] + [t] + basis[k + 1:])
        if any(e != float("%.2g" % e) for e in s["exps"]):
            t = copy.deepcopy(s)
            t["exps"] = [float("%.2g" % e) for e in s["exps"]]
            if len(set(t["exps"])) == len(t["exps"]):
                out.append(basis[:k] + [t] + basis[k + 1:])
    return out


def shrink(run, mod, violation, budget_s=45.0, max_tries=60):
    """returns a (possibly) smaller replay dict that still fails `mod.replay`"""
    rep = violation["replay"]
    if "basis" not in rep or not hasattr(mod, "replay"):
        return rep
    if any(rep.get(k) is not None for k in SIZE_DEPENDENT):
        return rep
    t0 = time.time()
    tries = 0

    def fails(r):
        saved = (run.violations, run.evaluations, run.distinct, run.samples, run.hist, run.last_case)
        run.violations, run.distinct, run.samples, run.hist = [], set(), [], {}
        try:
            ok = mod.replay(run, r)
            got = None if ok else (run.violations[0] if run.violations else None)
        except Exception:
            ok, got = True, None      # a candidate that makes the harness itself fail is not a smaller failing case
        finally:
            run.violations, run.evaluations, run.distinct, run.samples, run.hist, run.last_case = saved
        return (not ok), got

    best = rep
    # the original must fail under replay, otherwise replay is not a faithful re-run of this case: do not shrink
    f, _ = fails(best)
    if not f:
        return rep
    progress = True
    while progress and time.time() - t0 < budget_s and tries < max_tries:
        progress = False
        for cand in _candidates(best["basis"]):
            if time.time() - t0 > budget_s or tries >= max_tries:
                break
            r = dict(best)
            r["basis"] = cand
            tries += 1
            f, got = fails(r)
            if f:
                if got is not None:
                    r = dict(got["replay"])
                    r.setdefault("basis", cand)
                best = r
                best["shrunk_from"] = {"shells": len(rep["basis"]), "primitives": sum(len(s["exps"]) for s in rep["basis"])}
                progress = True
                break
    return best
