"""Exact probing translator (P): linear forms of density.py / stress_tensor.py -> GBExtracted/Forms.lean.

Every function of the two modules is a linear combination of the symbols
D(p; q) = sum_ab gamma_ab d^p phi_a d^q phi_b.  The real functions are run with
`evaluate_deriv_basis` / `evaluate_basis` (as seen from gbasis.evals.density) replaced by indicator
stubs for a one-function basis (gamma = [[1.0]]): the value x_p of the p-th derivative is 1 for one or
two chosen orders and 0 otherwise, so every run returns an exact small dyadic number from which the
coefficient of D(p; q) + D(q; p) is read.  Parameters alpha, beta are dyadic, so nothing is rounded.
"""
import hashlib
import importlib
import json
import os
from fractions import Fraction

import numpy as np

from . import core

ALPHAS = [Fraction(0), Fraction(1, 2), Fraction(1), Fraction(1, 4), Fraction(3)]
BETAS = [Fraction(0), Fraction(3, 2)]
EXTRA = [(Fraction(-3, 8), Fraction(5)), (Fraction(1, 2), Fraction(-1, 4))]
ORDERS = [(0, 0, 0), (1, 0, 0), (0, 2, 0), (1, 1, 1), (2, 0, 1), (3, 0, 0), (0, 1, 3), (4, 0, 0), (2, 2, 0),
          (1, 4, 0), (3, 3, 1), (4, 4, 4), (0, 0, 4), (2, 3, 0)]


class _Stub:
    def __init__(self):
        self.values = None   # None: record mode (all ones)
        self.seen = set()

    def deriv(self, basis, points, orders, transform=None, deriv_type="general"):
        key = tuple(int(o) for o in orders)
        self.seen.add(key)
        v = 1.0 if self.values is None else self.values.get(key, 0.0)
        return np.full((1, len(points)), v)

    def plain(self, basis, points, transform=None):
        return self.deriv(basis, points, (0, 0, 0))


def _probe(call):
    """call(): runs the real function (with stubs installed) and returns a flat list of floats"""
    import gbasis.evals.density as dens

    stub = _Stub()
    saved = (dens.evaluate_deriv_basis, dens.evaluate_basis)
    dens.evaluate_deriv_basis = stub.deriv
    dens.evaluate_basis = stub.plain
    try:
        stub.values = None
        call()
        orders = sorted(stub.seen)
        single = {}
        for p in orders:
            stub.values = {p: 1.0}
            single[p] = np.array(call(), dtype=float).ravel()
        nout = len(next(iter(single.values()))) if single else 0
        forms = [dict() for _ in range(nout)]
        for p in orders:
            for k in range(nout):
                if single[p][k] != 0:
                    forms[k][(p, p)] = Fraction(float(single[p][k]))
        for i, p in enumerate(orders):
            for q in orders[i + 1:]:
                stub.values = {p: 1.0, q: 1.0}
                both = np.array(call(), dtype=float).ravel()
                for k in range(nout):
                    c = Fraction(float(both[k])) - Fraction(float(single[p][k])) - Fraction(float(single[q][k]))
                    if c != 0:
                        forms[k][(p, q)] = c
        # linearity spot check with a random integer assignment
        rng = np.random.default_rng(1)
        vals = {p: float(rng.integers(-3, 4)) for p in orders}
        stub.values = vals
        got = np.array(call(), dtype=float).ravel()
        for k in range(nout):
            exp = sum(c * Fraction(vals[p]) * Fraction(vals[q]) for (p, q), c in forms[k].items())
            if Fraction(float(got[k])) != exp:
                raise ValueError("function is not a quadratic form in the derivative values")
        return forms
    finally:
        dens.evaluate_deriv_basis, dens.evaluate_basis = saved


def extract_all():
    import gbasis.evals.density as dens
    import gbasis.evals.stress_tensor as st
    importlib.reload(dens)
    importlib.reload(st)

    g = np.array([[1.0]])
    pts = np.zeros((1, 3))
    out = []   # (name, [rationals], [naturals], form dict)

    def add(name, qs, ns, forms, picks):
        for idx, nn in picks:
            out.append((name, qs, ns + nn, forms[idx]))

    f = _probe(lambda: dens.evaluate_density(g, None, pts, threshold=1e30))
    add("density", [], [], f, [(0, [])])
    for L in ORDERS:
        f = _probe(lambda: dens.evaluate_deriv_density(np.array(L), g, None, pts))
        add("deriv_density", [], list(L), f, [(0, [])])
    f = _probe(lambda: dens.evaluate_density_gradient(g, None, pts))
    add("gradient", [], [], f, [(i, [i]) for i in range(3)])
    f = _probe(lambda: dens.evaluate_density_laplacian(g, None, pts))
    add("laplacian", [], [], f, [(0, [])])
    f = _probe(lambda: dens.evaluate_density_hessian(g, None, pts))
    add("hessian", [], [], f, [(3 * r + c, [r, c]) for r in range(3) for c in range(3)])
    f = _probe(lambda: dens.evaluate_posdef_kinetic_energy_density(g, None, pts, threshold=1e30))
    add("posdef_ke", [], [], f, [(0, [])])
    for a in [Fraction(0), Fraction(1, 4), Fraction(-3, 2)]:
        f = _probe(lambda: dens.evaluate_general_kinetic_energy_density(g, None, pts, float(a)))
        add("general_ke", [a], [], f, [(0, [])])
    grid = [(a, b) for a in ALPHAS for b in BETAS] + EXTRA
    for a, b in grid:
        fa, fb = float(a), float(b)
        f = _probe(lambda: st.evaluate_stress_tensor(g, None, pts, alpha=fa, beta=fb))
        add("stress", [a, b], [], f, [(3 * i + j, [i, j]) for i in range(3) for j in range(3)])
        f = _probe(lambda: st.evaluate_ehrenfest_force(g, None, pts, alpha=fa, beta=fb))
        add("force", [a, b], [], f, [(i, [i]) for i in range(3)])
    for a, b in [(Fraction(1), Fraction(0)), (Fraction(1, 4), Fraction(3, 2)), (Fraction(0), Fraction(0)),
                 (Fraction(1, 2), Fraction(3, 2)), (Fraction(3), Fraction(0))]:
        fa, fb = float(a), float(b)
        for sym in (0, 1):
            f = _probe(lambda: st.evaluate_ehrenfest_hessian(g, None, pts, alpha=fa, beta=fb, symmetric=bool(sym)))
            add("ehrenfest_hessian", [a, b], [sym], f, [(3 * i + j, [i, j]) for i in range(3) for j in range(3)])
    return out


def _src_hash():
    h = hashlib.sha256()
    for rel in ("gbasis/evals/density.py", "gbasis/evals/stress_tensor.py"):
        h.update(open(os.path.join(core.REPO, rel), "rb").read())
    h.update(open(__file__, "rb").read())
    return h.hexdigest()


def _rat(q):
    q = Fraction(q)
    return f"({q.numerator}, {q.denominator})"


def canon_items(form):
    """sorted [(coefficient, p, q)] with p <= q lexicographically (the order of GB.Form.canon)"""
    acc = {}
    for (p, q), c in form.items():
        if p > q:
            p, q = q, p
        acc[(p, q)] = acc.get((p, q), 0) + c
    return [(c, p, q) for (p, q), c in sorted(acc.items()) if c != 0]


def generate():
    cache = os.path.join(core.LEAN_DIR, ".lake", "forms-cache.json")
    key = _src_hash()
    data = None
    if os.path.exists(cache):
        try:
            c = json.load(open(cache))
            if c["key"] == key:
                data = c["text"]
        except Exception:
            data = None
    if data is not None:
        return data
    entries = extract_all()
    lines = ["import GBModel.Forms",
             "/-! GENERATED by /verif/harness/gbv/tr_forms.py by running /repo's density.py and stress_tensor.py with",
             "    indicator stubs (exact probing).  Rationals are (numerator, denominator) in lowest terms.  Do not edit. -/",
             "namespace GBExtracted", "",
             "abbrev QQ := Int × Nat",
             "abbrev FormRow := String × List QQ × List Nat × List (QQ × GB.Comp × GB.Comp)", ""]
    rows = []
    for name, qs, ns, form in entries:
        items = ", ".join(f"({_rat(c)}, ({p[0]},{p[1]},{p[2]}), ({q[0]},{q[1]},{q[2]}))" for c, p, q in canon_items(form))
        rows.append(f'  ("{name}", [{", ".join(_rat(q) for q in qs)}], [{", ".join(str(n) for n in ns)}], [{items}])')
    chunk = 24
    names = []
    for k in range(0, len(rows), chunk):
        nm = f"forms{k // chunk}"
        names.append(nm)
        lines.append(f"def {nm} : List FormRow := [")
        lines.append(",\n".join(rows[k:k + chunk]))
        lines.append("]")
    lines.append("def forms : List FormRow := " + " ++ ".join(names))
    lines += ["", "end GBExtracted", ""]
    text = "\n".join(lines)
    os.makedirs(os.path.dirname(cache), exist_ok=True)
    json.dump({"key": key, "text": text}, open(cache, "w"))
    return text
