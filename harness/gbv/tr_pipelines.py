"""Translator: the assembly pipelines of the four base classes -> GBExtracted/Pipelines.lean.

For every `construct_array_{cartesian,spherical,mix}` the straight-line sequence of array operations
applied to a shell block (between `construct_array_contraction(...)` and the statement that stores the
block) is extracted with `ast`, once per assignment of the `type_x == "spherical"` flags, as a list of
`GB.ArrOp`.  For `construct_array_lincomb` the chain applied to the assembled array is extracted.
Anything the translator does not recognise raises `TranslationError` (reported as a failed obligation).
"""
import ast
import itertools
import os

from . import core

CLASSES = [("gbasis/base_one.py", "BaseOneIndex", 1), ("gbasis/base_two_symm.py", "BaseTwoIndexSymmetric", 2),
           ("gbasis/base_two_asymm.py", "BaseTwoIndexAsymmetric", 2), ("gbasis/base_four_symm.py", "BaseFourIndexSymmetric", 4)]


class TranslationError(Exception):
    pass


def _names(node):
    return [n.id for n in ast.walk(node) if isinstance(n, ast.Name)]


def _is_call(node, *path):
    """node is a call of a.b.c given as path ('np','swapaxes')"""
    if not isinstance(node, ast.Call):
        return False
    f = node.func
    parts = []
    while isinstance(f, ast.Attribute):
        parts.append(f.attr)
        f = f.value
    if isinstance(f, ast.Name):
        parts.append(f.id)
    return tuple(reversed(parts)) == path


def _const(node):
    if isinstance(node, ast.Constant) and isinstance(node.value, int):
        return node.value
    raise TranslationError("integer literal expected: " + ast.unparse(node))


class Walker:
    def __init__(self, func, flags):
        self.func = func
        self.flags = flags          # {type var name: bool}
        self.transform_of = {}      # transform var -> contraction var
        self.type_of = {}           # type var -> contraction var
        self.slot = {}              # contraction var -> slot
        self.block = None
        self.ops = None
        self.result = None
        self.type_vars = set()

    # -- expression translation: returns list of ops such that value = ops applied to block var
    def expr_ops(self, node):
        if isinstance(node, ast.Name) and node.id == self.block:
            return []
        if _is_call(node, "np", "swapaxes"):
            inner, i, j = node.args
            return self.expr_ops(inner) + [("swap", _const(i), _const(j))]
        if _is_call(node, "np", "concatenate"):
            kw = {k.arg: k.value for k in node.keywords}
            if len(node.args) != 1 or _const(kw.get("axis")) != 0:
                raise TranslationError("unsupported concatenate: " + ast.unparse(node))
            return self.expr_ops(node.args[0]) + [("merge0",)]
        if _is_call(node, "np", "tensordot"):
            t, arr, axes = node.args
            if not (isinstance(t, ast.Name) and isinstance(axes, ast.Tuple) and _const(axes.elts[0]) == 1):
                raise TranslationError("unsupported tensordot: " + ast.unparse(node))
            if t.id not in self.transform_of:
                raise TranslationError(f"matrix {t.id} is not a generate_transformation(…, 'left') result")
            cont = self.transform_of[t.id]
            if cont not in self.slot:
                raise TranslationError(f"transformation built from {cont}, which is not an argument of construct_array_contraction")
            return self.expr_ops(arr) + [("tdot", self.slot[cont], _const(axes.elts[1]))]
        if isinstance(node, ast.Call) and isinstance(node.func, ast.Attribute) and node.func.attr == "reshape" \
                and isinstance(node.func.value, ast.Name) and node.func.value.id == self.block:
            npairs = 0
            for k, a in enumerate(node.args):
                if isinstance(a, ast.BinOp) and isinstance(a.op, ast.Mult):
                    want = f"{self.block}.shape[{2 * k}] * {self.block}.shape[{2 * k + 1}]"
                    if ast.unparse(a) != want:
                        raise TranslationError("unsupported reshape argument: " + ast.unparse(a))
                    npairs += 1
                elif isinstance(a, ast.Starred) and ast.unparse(a) == f"*{self.block}.shape[{2 * npairs}:]" and k == len(node.args) - 1:
                    pass
                else:
                    raise TranslationError("unsupported reshape: " + ast.unparse(node))
            return [("fusePairs", npairs)]
        raise TranslationError("unsupported expression: " + ast.unparse(node))

    def scale_op(self, value):
        # X.norm_cont.reshape(<pos ones>, *block.shape[pos:pos+2], *[1 for _ in block.shape[pos+2:]])
        if not (isinstance(value, ast.Call) and isinstance(value.func, ast.Attribute) and value.func.attr == "reshape"):
            raise TranslationError("unsupported in-place factor: " + ast.unparse(value))
        base = value.func.value
        if not (isinstance(base, ast.Attribute) and base.attr == "norm_cont" and isinstance(base.value, ast.Name)):
            raise TranslationError("unsupported in-place factor: " + ast.unparse(value))
        cont = base.value.id
        pos = 0
        args = list(value.args)
        while args and isinstance(args[0], ast.Constant) and args[0].value == 1:
            pos += 1
            args.pop(0)
        b = self.block
        sl = f"*{b}.shape[:2]" if pos == 0 else f"*{b}.shape[{pos}:{pos + 2}]"
        rest = f"*[1 for _ in {b}.shape[{pos + 2}:]]"
        if [ast.unparse(a) for a in args] != [sl, rest]:
            raise TranslationError("unsupported norm_cont reshape: " + ast.unparse(value))
        if cont not in self.slot:
            raise TranslationError(f"norm_cont of {cont}, which is not an argument of construct_array_contraction")
        return ("scale", self.slot[cont], pos)

    def visit(self, stmts):
        for st in stmts:
            if self.result is not None:
                return
            if isinstance(st, ast.For):
                self.note_targets(st.target)
                self.visit(st.body)
            elif isinstance(st, ast.If):
                t = st.test
                if isinstance(t, ast.Compare) and isinstance(t.left, ast.Name) and len(t.ops) == 1 and isinstance(t.ops[0], ast.Eq) \
                        and isinstance(t.comparators[0], ast.Constant) and t.comparators[0].value == "spherical":
                    self.type_vars.add(t.left.id)
                    self.visit(st.body if self.flags.get(t.left.id, False) else st.orelse)
                elif any(isinstance(x, ast.Raise) for x in ast.walk(st)):
                    continue   # argument validation
                else:
                    raise TranslationError("unsupported branch: " + ast.unparse(t))
            elif isinstance(st, ast.Assign) and len(st.targets) == 1:
                tg, val = st.targets[0], st.value
                if isinstance(tg, ast.Name) and _is_call(val, "generate_transformation"):
                    a = val.args
                    if not (len(a) == 4 and ast.unparse(a[0]).endswith(".angmom") and isinstance(a[3], ast.Constant) and a[3].value == "left"):
                        raise TranslationError("unsupported generate_transformation call: " + ast.unparse(val))
                    c0 = ast.unparse(a[0])[: -len(".angmom")]
                    if ast.unparse(a[1]) != c0 + ".angmom_components_cart" or ast.unparse(a[2]) != c0 + ".angmom_components_sph":
                        raise TranslationError("transformation built from mixed shells: " + ast.unparse(val))
                    self.transform_of[tg.id] = c0
                elif isinstance(tg, ast.Name) and isinstance(val, ast.Call) and ast.unparse(val.func) == "self.construct_array_contraction":
                    self.block = tg.id
                    self.ops = []
                    self.slot = {a.id: k for k, a in enumerate(val.args) if isinstance(a, ast.Name)}
                elif isinstance(tg, ast.Name) and self.block is not None and tg.id == self.block:
                    self.ops = self.ops + self.expr_ops(val)
                elif self.block is not None and self.block in _names(val):
                    # the block is stored: all_blocks[i, j, k, l] = block   (first store ends the pipeline)
                    if isinstance(tg, ast.Subscript):
                        self.ops = self.ops + self.expr_ops(val)
                        self.result = list(self.ops)
                    else:
                        raise TranslationError("unsupported use of the block: " + ast.unparse(st))
            elif isinstance(st, ast.AugAssign) and isinstance(st.target, ast.Name) and self.block is not None and st.target.id == self.block:
                if not isinstance(st.op, ast.Mult):
                    raise TranslationError("unsupported in-place update: " + ast.unparse(st))
                self.ops = self.ops + [self.scale_op(st.value)]
            elif isinstance(st, ast.Expr) and isinstance(st.value, ast.Call) and isinstance(st.value.func, ast.Attribute) \
                    and st.value.func.attr == "append" and self.block is not None and self.block in _names(st.value):
                self.ops = self.ops + self.expr_ops(st.value.args[0])
                self.result = list(self.ops)
            elif isinstance(st, (ast.Expr, ast.Return, ast.Assign, ast.AugAssign)):
                if self.block is not None and self.block in _names(st) and not isinstance(st, ast.Return):
                    raise TranslationError("unsupported statement on the block: " + ast.unparse(st))

    def note_targets(self, target):
        for node in ast.walk(target):
            if isinstance(node, ast.Tuple):
                ids = [e.id for e in node.elts if isinstance(e, ast.Name)]
                conts = [i for i in ids if i.startswith("cont")]
                types = [i for i in ids if "type" in i]
                if len(conts) == 1 and len(types) == 1:
                    self.type_of[types[0]] = conts[0]


def _method(tree, cls, name):
    for node in tree.body:
        if isinstance(node, ast.ClassDef) and node.name == cls:
            for sub in node.body:
                if isinstance(sub, ast.FunctionDef) and sub.name == name:
                    return sub
    raise TranslationError(f"{cls}.{name} not found")


def extract_pipeline(func, nslots, method):
    """[(sph flags per slot, ops)]"""
    out = []
    probe = Walker(func, {})
    try:
        probe.visit(func.body)
    except TranslationError:
        pass
    tvars = sorted(probe.type_vars)
    combos = [dict(zip(tvars, c)) for c in itertools.product([False, True], repeat=len(tvars))] if tvars else [{}]
    for flags in combos:
        w = Walker(func, flags)
        w.visit(func.body)
        if w.result is None:
            raise TranslationError("no block pipeline found")
        if method == "spherical":
            sph = [True] * nslots
        elif method == "cartesian":
            sph = [False] * nslots
        else:
            sph = [False] * nslots
            for tv, val in flags.items():
                cont = w.type_of.get(tv)
                if cont is None or cont not in w.slot:
                    raise TranslationError(f"cannot relate {tv} to an argument of construct_array_contraction")
                sph[w.slot[cont]] = val
        out.append((sph, w.result))
    return out


def extract_lincomb(func, nslots):
    """chain applied to `array` after it has been assembled: list of (matrix name, axis) / swaps"""
    ops = []
    names = [a.arg for a in func.args.args if a.arg.startswith("transform")]
    for st in ast.walk(func):
        pass
    seq = []

    def rec(node):
        if isinstance(node, ast.Name) and node.id == "array":
            return []
        if _is_call(node, "np", "swapaxes"):
            return rec(node.args[0]) + [("swap", _const(node.args[1]), _const(node.args[2]))]
        if _is_call(node, "np", "tensordot"):
            t, arr, axes = node.args
            if not (isinstance(t, ast.Name) and t.id in names and _const(axes.elts[0]) == 1):
                raise TranslationError("unsupported tensordot in lincomb: " + ast.unparse(node))
            return rec(arr) + [("tdot", names.index(t.id), _const(axes.elts[1]))]
        raise TranslationError("unsupported lincomb expression: " + ast.unparse(node))

    def walk(stmts, active):
        nonlocal seq
        for st in stmts:
            if isinstance(st, ast.If):
                t = ast.unparse(st.test)
                if t.endswith("is not None") and t.split()[0] in names:
                    walk(st.body, active)
                elif "array" in [x.id for tgt in ast.walk(st) if isinstance(tgt, ast.Assign) for x in tgt.targets if isinstance(x, ast.Name)] \
                        and any(_is_call(v, "np", "tensordot") for v in ast.walk(st)):
                    raise TranslationError("conditional tensordot in lincomb: " + t)
            elif isinstance(st, ast.Assign) and isinstance(st.targets[0], ast.Name) and st.targets[0].id == "array" \
                    and any(_is_call(v, "np", "tensordot") or _is_call(v, "np", "swapaxes") for v in ast.walk(st.value)) \
                    and not ast.unparse(st.value).startswith("self."):
                seq += rec(st.value)
            elif isinstance(st, ast.Return) and st.value is not None and not (isinstance(st.value, ast.Name)):
                if any(_is_call(v, "np", "tensordot") for v in ast.walk(st.value)):
                    seq += rec(st.value)
    walk(func.body, True)
    return len(names), seq


def fill_kind(func):
    """how the lower triangle is filled in the symmetric two-index class: 'conj-transpose', 'transpose' or None"""
    for node in ast.walk(func):
        if isinstance(node, ast.Assign) and "np.tril_indices" in ast.unparse(node.targets[0]):
            src = ast.unparse(node.value)
            if "np.swapaxes(block, 0, 1).conj()" in src or "np.conj(np.swapaxes(block, 0, 1))" in src:
                return "conj-transpose"
            if "np.swapaxes(block, 0, 1)" in src:
                return "transpose"
            return "other"
    return None


def lean_op(op):
    if op[0] == "swap":
        return f".swap {op[1]} {op[2]}"
    if op[0] == "merge0":
        return ".merge0"
    if op[0] == "tdot":
        return f".tdot {op[1]} {op[2]}"
    if op[0] == "scale":
        return f".scale {op[1]} {op[2]}"
    if op[0] == "fusePairs":
        return f".fusePairs {op[1]}"
    raise TranslationError(str(op))


def extract_all():
    pipes, lincombs, fills = [], [], []
    for rel, cls, nslots in CLASSES:
        tree = ast.parse(open(os.path.join(core.REPO, rel)).read())
        for method in ("cartesian", "spherical", "mix"):
            f = _method(tree, cls, "construct_array_" + method)
            for sph, ops in extract_pipeline(f, nslots, method):
                pipes.append((f"{cls}.construct_array_{method}", sph, ops))
            if cls == "BaseTwoIndexSymmetric":
                fills.append((f"{cls}.construct_array_{method}", fill_kind(f)))
        f = _method(tree, cls, "construct_array_lincomb")
        nmat, seq = extract_lincomb(f, nslots)
        lincombs.append((f"{cls}.construct_array_lincomb", nslots, nmat, seq))
    return pipes, lincombs, fills


def generate():
    pipes, lincombs, fills = extract_all()
    lines = ["import GBModel.Arr",
             "/-! GENERATED by /verif/harness/gbv/tr_pipelines.py from /repo's base_*.py on every check run. Do not edit. -/",
             "namespace GBExtracted", "", "open GB.ArrOp in",
             "def pipelines : List (String × List Bool × List GB.ArrOp) := ["]
    rows = []
    for name, sph, ops in pipes:
        rows.append(f'  ("{name}", [{", ".join("true" if s else "false" for s in sph)}], [{", ".join(lean_op(o) for o in ops)}])')
    lines.append(",\n".join(rows))
    lines.append("]")
    lines.append("")
    lines.append("open GB.ArrOp in")
    lines.append("/-- (name, number of basis axes, number of distinct matrices, chain applied to the assembled array) -/")
    lines.append("def lincombs : List (String × Nat × Nat × List GB.ArrOp) := [")
    lines.append(",\n".join(f'  ("{n}", {ns}, {nm}, [{", ".join(lean_op(o) for o in seq)}])' for n, ns, nm, seq in lincombs))
    lines.append("]")
    lines.append("")
    lines.append("/-- how the lower triangle (and the diagonal blocks) of the symmetric two-index array is filled -/")
    lines.append("def fills : List (String × String) := [" + ", ".join(f'("{n}", "{k}")' for n, k in fills) + "]")
    lines += ["", "end GBExtracted", ""]
    return "\n".join(lines)
