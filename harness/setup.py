#!/venv/bin/python
"""MANIFEST.setup_cmd: regenerate the extracted Lean files from /repo and build everything offline."""
import os
import subprocess
import sys
import warnings

HERE = os.path.dirname(os.path.abspath(__file__))
sys.path.insert(0, HERE)
warnings.filterwarnings("ignore", category=SyntaxWarning)
from gbv import core, translate  # noqa: E402


class _R:
    def obligation(self, name, ok, detail=""):
        if not ok:
            print("translator problem:", name, detail)


translate.run_all(_R())
rc = subprocess.call(["lake", "build", "GBModel", "gbmodel", "GBExtracted", "GBProofs"], cwd=core.LEAN_DIR)
sys.exit(rc)
