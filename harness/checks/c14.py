"""C14 — electrostatic potential equals nuclear minus electronic Coulomb potential."""
import numpy as np

from gbv import core
from checks.common import *

RULE = ("bases (l 0..3, generalized, mixed types), symmetric density matrices, 1-30 points (some exactly on nuclei), 1-5 nuclei with "
        "charges of either sign and magnitude 0.1..100, thresholds 0, beyond every distance, and bracketing each point-nucleus "
        "distance by factors 1 +- 2^-30; square and rectangular transformations: electrostatic_potential compared with "
        "sum_A [d_A >= t] Z_A/d_A - sum gamma_ab <a|1/|r-R||b> built from the Lean model's point-charge integrals within "
        "1e-8 x scale; points on nuclei compared as +-inf classes; size check of the density matrix; distinct by (basis "
        "signature, threshold kind, transformation kind)")
ASSUMPTIONS = ["distances are computed in float64 exactly as documented (Euclidean norm); bracketing avoids ties"]


def one_case(run, specs, gamma, pts, npos, Z, thr, transform=None, kind=""):
    from gbasis.evals.electrostatic_potential import electrostatic_potential
    basis = make_basis(specs)
    if (len(pts) + len(npos)) % 2:       # the basis is documented as "list/tuple" of shells: every other case passes a tuple
        basis = tuple(basis)
        run.count("basis given as a tuple")
    rep = {"case": "esp", "basis": core.describe_basis(specs), "gamma": gamma.tolist(), "points": pts.tolist(), "nuclei": npos.tolist(),
           "charges": Z.tolist(), "threshold": thr, "transform": None if transform is None else transform.tolist()}
    run.case(("esp", kind, thr) + sig(specs) + (transform is not None,),
             sample={"op": "electrostatic_potential", "threshold": thr, "nuclei": npos.tolist(), "charges": Z.tolist()})
    run.count("threshold " + kind)
    if transform is not None:
        run.count("transform " + ("square" if transform.shape[0] == transform.shape[1] else "rectangular"))
    try:
        impl = electrostatic_potential(basis, gamma, pts, npos, Z, transform=transform, threshold_dist=thr)
    except Exception as e:
        run.violation(f"electrostatic_potential raised {type(e).__name__}: {e} on a valid request", dict(rep, signature={"kind": "esp-rejected"}))
        return False
    line = ("pointcharge " + btok(specs) + f" {len(pts)} " + " ".join(core.enc(x) for x in pts.ravel()) + " "
            + " ".join(core.enc(1.0) for _ in pts))
    V = -run.model.array(line)       # <a| 1/|r - R_p| |b>
    dV = np.sqrt(np.abs(np.einsum("iip->ip", V)))
    if transform is not None:
        V = np.einsum("ia,jb,abp->ijp", transform, transform, V)
        dV = np.einsum("ia,ap->ip", np.abs(transform), dV)
    elec = np.einsum("ab,abp->p", gamma, V)
    escale = np.einsum("ab,ap,bp->p", np.abs(gamma), dV, dV)
    d = np.sqrt(((pts[:, None, :] - npos[None, :, :]) ** 2).sum(axis=2))
    with np.errstate(divide="ignore", invalid="ignore"):
        terms = np.where(d < thr, 0.0, Z[None, :] / d)
    nuc = terms.sum(axis=1)
    exp = nuc - elec
    tol = 1e-8 * escale + 1e-12 * np.abs(np.where(np.isfinite(terms), terms, 0)).sum(axis=1) + 1e-300
    fin = np.isfinite(exp)
    ok = True
    if not np.array_equal(np.isfinite(impl), fin) or np.any(np.sign(impl[~fin]) != np.sign(exp[~fin])):
        run.violation("pole structure (points on unmasked nuclei) differs", dict(rep, signature={"kind": "esp-pole"}))
        ok = False
    elif np.any(np.abs(impl[fin] - exp[fin]) > tol[fin]):
        k = int(np.argmax(np.where(fin, np.abs(np.where(fin, impl - exp, 0)) - tol, -1)))
        run.violation(f"electrostatic potential at point {k}: implementation {impl[k]!r}, definition {exp[k]!r} (threshold {thr!r}, distances {d[k].tolist()})",
                      dict(rep, index=k, impl=float(impl[k]), exact=float(exp[k]), signature={"kind": "esp-value"}))
        ok = False
    return ok


def size_case(run, specs, transform):
    from gbasis.evals.electrostatic_potential import electrostatic_potential
    n = sum(s.size for s in specs)
    m = n if transform is None else transform.shape[0]
    pts = np.array([[0.5, 0.5, 0.5]])
    npos = np.array([[0.0, 0.0, 1.0]])
    Z = np.array([1.0])
    run.case(("size", transform is not None) + sig(specs))
    ok = True
    for size, want in ((m, True), (m + 1, False), (max(m - 1, 1) if m > 1 else m + 2, False)):
        try:
            electrostatic_potential(make_basis(specs), np.eye(size), pts, npos, Z, transform=transform)
            got = True
        except ValueError:
            got = False
        except Exception:
            got = "other"
        if got != want:
            run.violation(f"density matrix of size {size} ({'expected ' + str(m)}): accepted={got}, should be {want}",
                          {"case": "size", "basis": core.describe_basis(specs), "transform": None if transform is None else transform.tolist(),
                           "signature": {"kind": "esp-size"}})
            ok = False
    return ok


def representation_cases(run):
    """points, nuclear coordinates, charges and density matrix passed as other kinds of ndarray"""
    from gbasis.evals.electrostatic_potential import electrostatic_potential
    rng = run.rng
    cs = []
    specs = [rand_shell(rng, l, cs, nprim=1 + l, nseg=1, exp_hi=5.0) for l in (0, 1)]
    basis = make_basis(specs)
    n = sum(s.size for s in specs)
    pts = np.array([[0.0, 1.0, -1.0], [2.0, 0.0, 1.0]])
    g = np.eye(n) * 2.0
    g[0, n - 1] = g[n - 1, 0] = 1.0
    rep = {"basis": core.describe_basis(specs), "points": pts.tolist(), "gamma": g.tolist()}
    npos = np.array([[1.0, 0.0, 0.0], [0.0, -1.0, 2.0]])
    Z = np.array([3.0, -2.0])
    for thr in (0.0, 2.0):
        repr_case(run, f"electrostatic_potential(threshold={thr})", "points", lambda p: electrostatic_potential(basis, g, p, npos, Z, threshold_dist=thr), pts, rep)
        repr_case(run, f"electrostatic_potential(threshold={thr})", "nuclear_coords", lambda c: electrostatic_potential(basis, g, pts, c, Z, threshold_dist=thr), npos, rep)
    repr_case(run, "electrostatic_potential", "nuclear_charges", lambda z: electrostatic_potential(basis, g, pts, npos, z), Z, rep)
    repr_case(run, "electrostatic_potential", "one_density_matrix", lambda d: electrostatic_potential(basis, d, pts, npos, Z), g, rep)


def check(run):
    rng = run.rng
    quick = run.tier == "quick"
    for k in range(8 if quick else 60):
        specs = random_basis(rng, 1, 2 if quick else 3, lmax=2 if quick else 3, exp_hi=30.0, nprim=None)
        n = sum(s.size for s in specs)
        t = None
        if k % 3 == 1:
            t = random_transform(rng, n, rect=True)
        elif k % 3 == 2:
            t = random_transform(rng, n, rect=False)
        m = n if t is None else t.shape[0]
        gamma = random_symmetric(rng, m, psd=(k % 2 == 0))
        nn = rng.randint(1, 5)
        npos = np.array([[core.snap(rng.uniform(-2, 2), 10) for _ in range(3)] for _ in range(nn)])
        Z = np.array([core.snap(rng.choice([-1, 1]) * 10 ** rng.uniform(-1, 2), 10) for _ in range(nn)])
        pts = np.array([[core.snap(rng.uniform(-3, 3), 10) for _ in range(3)] for _ in range(rng.randint(1, 4 if quick else 30))])
        d = np.sqrt(((pts[:, None, :] - npos[None, :, :]) ** 2).sum(axis=2))
        dsel = float(d.ravel()[rng.randrange(d.size)])
        for kind, thr in (("zero", 0.0), ("below-one-distance", dsel * (1 - 2.0 ** -30)), ("above-one-distance", dsel * (1 + 2.0 ** -30)),
                          ("beyond-all", float(d.max()) * 1.5), ("integer", 2)):
            one_case(run, specs, gamma, pts, npos, Z, thr, t, kind)
        if k % 2 == 0:
            pts2 = np.vstack([pts, npos])          # a point exactly on every nucleus
            one_case(run, specs, gamma, pts2, npos, Z, 0.0, t, "point-on-nucleus-unmasked")
            one_case(run, specs, gamma, pts2, npos, Z, 0.5, t, "point-on-nucleus-masked")
            # points very close to nuclei (the nuclear term must be Z/d to rounding there as well)
            near = []
            for a in range(len(npos)):
                u = np.array([rng.gauss(0, 1) for _ in range(3)])
                near.append(npos[a] + u / np.linalg.norm(u) * 10.0 ** -rng.randint(2, 5))
            near = np.array(near)
            dn = np.sqrt(((near[:, None, :] - npos[None, :, :]) ** 2).sum(axis=2))
            d0 = float(dn[0, 0])
            one_case(run, specs, gamma, near, npos, Z, 0.0, t, "points-near-nuclei")
            one_case(run, specs, gamma, near, npos, Z, d0 * (1 - 2.0 ** -30), t, "near-below-distance")
            one_case(run, specs, gamma, near, npos, Z, d0 * (1 + 2.0 ** -30), t, "near-above-distance")
        if k % 4 == 1:
            # the same kind of system far from the coordinate origin
            sh = np.array([40.0, -25.0, 60.0])
            specs_far = [s_.copy(center=list(np.array(s_.center) + sh)) for s_ in specs]
            one_case(run, specs_far, gamma, np.vstack([pts, npos[:1]]) + sh, npos + sh, Z, 0.0, t, "far-from-origin")
            one_case(run, specs_far, gamma, pts + sh, npos + sh, Z, dsel * (1 + 2.0 ** -30), t, "far-from-origin-threshold")
        size_case(run, specs, t)
    # every combination of coordinate types x generalized shells, without transformation (the branch that checks the size of the
    # density matrix itself): all-Cartesian, all-spherical and both mixed orders, each shell with 2-3 segmented contractions
    import itertools
    for ta, tb in itertools.product([False, True], repeat=2):
        cs = []
        specs = [rand_shell(rng, rng.randint(0, 2), cs, nprim=2, nseg=2 + (ta != tb), sph=ta, exp_hi=20.0),
                 rand_shell(rng, rng.randint(1, 2), cs, nprim=rng.randint(1, 2), nseg=rng.randint(2, 3), sph=tb, exp_hi=20.0)]
        n = sum(s_.size for s_ in specs)
        gamma = random_symmetric(rng, n, psd=False)
        npos = np.array([[core.snap(rng.uniform(-2, 2), 10) for _ in range(3)] for _ in range(2)])
        Z = np.array([1.0, core.snap(rng.uniform(1, 30), 8)])
        pts = np.array([[core.snap(rng.uniform(-3, 3), 10) for _ in range(3)] for _ in range(3)])
        one_case(run, specs, gamma, pts, npos, Z, 0.0, None, "types-%s-%s" % ("sph" if ta else "cart", "sph" if tb else "cart"))
        size_case(run, specs, None)
        run.count("coordinate types " + ("mixed" if ta != tb else ("spherical" if ta else "cartesian")) + " generalized")
    from checks.common import zero_diag_symmetric
    for n in range(2 if quick else 8):
        specs = random_basis(rng, 1, 2, lmax=2, exp_hi=20.0, nprim=None)
        nb = sum(s.size for s in specs)
        t = random_transform(rng, nb, rect=True) if n % 2 == 0 else None
        gamma = zero_diag_symmetric(rng, nb if t is None else t.shape[0])
        npos = np.array([[0.5, -0.25, 1.0], [-1.0, 0.75, 0.25]])
        one_case(run, specs, gamma, np.array([[0.1, 0.2, 0.3], [1.5, -1.0, 0.5]]), npos, np.array([1.0, 6.0]), 0.0, t, "zero-diagonal-gamma")
    # density matrices that are symmetric only up to rounding (transformed to another orbital basis and back), with many
    # noise-level elements; the "density matrix transformed back" of the property is obtained in exactly this way
    from checks.common import rounding_noise_symmetric
    for n in range(3 if quick else 10):
        specs = random_basis(rng, 2, 2, lmax=1 if quick else 2, exp_hi=20.0, nprim=None)
        nb = sum(s.size for s in specs)
        t = random_transform(rng, nb, rect=True) if n % 3 == 2 else None
        noisy, exact = rounding_noise_symmetric(rng, nb if t is None else t.shape[0], diagonal=(n % 2 == 0))
        npos = np.array([[0.5, -0.25, 1.0], [-1.0, 0.75, 0.25]])
        one_case(run, specs, noisy, np.array([[0.1, 0.2, 0.3], [1.5, -1.0, 0.5]]), npos, np.array([1.0, 6.0]), 0.0, t, "gamma symmetric up to rounding")
    # diffuse shells 27 - 35 bohr apart (exp(-R^2) underflows, the product factor exp(-mu R^2) does not), with points and nuclei in
    # between; density matrices of small magnitude (the electronic term is linear in the density matrix)
    from checks.common import far_diffuse_pair
    for n, R_ in enumerate((27.5, 31.0) if quick else (26.8, 27.5, 29.0, 31.0, 35.0)):
        specs = far_diffuse_pair(rng, n % 2, 0, R_)
        nb = sum(s_.size for s_ in specs)
        ca, cb = np.array(specs[0].center), np.array(specs[1].center)
        pts = np.array([0.5 * (ca + cb), 0.3 * ca + 0.7 * cb + 0.25, ca + 0.5])
        npos = np.array([ca, cb])
        gamma = random_symmetric(rng, nb, psd=False)
        gamma[:specs[0].size, specs[0].size:] *= 1e4         # the far pair carries the electronic term
        gamma[specs[0].size:, :specs[0].size] *= 1e4
        one_case(run, specs, gamma, pts, npos, np.array([1.0, -1.0]), 0.0, None, "diffuse shells far apart")
    # tall transformations (more orbitals than basis functions: linearly dependent orbitals), one and several extra rows
    for n, extra in enumerate((1, 3) if quick else (1, 3, 2, 5)):
        specs = random_basis(rng, 1, 2, lmax=1 if quick else 2, exp_hi=20.0, nprim=None)
        nb = sum(s.size for s in specs)
        t = np.array([[core.snap(rng.uniform(-1, 1), 10) for _ in range(nb)] for _ in range(nb + extra)])
        gamma = random_symmetric(rng, nb + extra, psd=bool(n % 2))
        npos = np.array([[0.5, -0.25, 1.0], [-1.0, 0.75, 0.25]])
        one_case(run, specs, gamma, np.array([[0.1, 0.2, 0.3], [1.5, -1.0, 0.5], [-0.7, 0.4, 2.0]]), npos, np.array([1.0, 6.0]), 0.0, t, "tall transform")
    # the coordinate origin as the only evaluation point (once, twice, integer typed), for a molecule that is not at the origin
    for n, pts_ in enumerate((np.zeros((1, 3)), np.zeros((2, 3)), np.zeros((1, 3), dtype=int), np.array([[0.0, 0.0, 0.0], [0.0, 0.0, 1e-300]]))):
        specs = random_basis(rng, 1, 2, lmax=2, exp_hi=20.0, nprim=None)
        specs = [s_.copy(center=[x + 0.6 for x in s_.center]) for s_ in specs]
        nb = sum(s.size for s in specs)
        t = random_transform(rng, nb, rect=True) if n % 2 else None
        gamma = random_symmetric(rng, nb if t is None else t.shape[0], psd=False)
        npos = np.array([[0.5, -0.25, 1.0], [-1.0, 0.75, 0.25]])
        one_case(run, specs, gamma, pts_, npos, np.array([1.0, 6.0]), [0.0, 1.0][n % 2], t, "all points at the origin")
    for n, scale in enumerate((1e-9, 1e-12) if quick else (1e-9, 1e-12, 1e-10, 1e-15)):
        specs = random_basis(rng, 1, 2, lmax=2, exp_hi=20.0, nprim=None)
        nb = sum(s.size for s in specs)
        t = random_transform(rng, nb, rect=True) if n % 2 else None
        gamma = random_symmetric(rng, nb if t is None else t.shape[0], psd=False) * scale
        npos = np.array([[0.5, -0.25, 1.0], [-1.0, 0.75, 0.25]])
        one_case(run, specs, gamma, np.array([[0.1, 0.2, 0.3], [1.5, -1.0, 0.5]]), npos, np.array([1.0, 6.0]) * scale, 0.0, t, "gamma of small magnitude")
    from checks import c09 as _c09
    _c09.positional_arguments_case(run, rng, only=('electrostatic',))
    representation_cases(run)
    # the witnesses of the repaired defects
    s = ShellSpec(0, [0, 0, 0], [1.0], [1.0])
    one_case(run, [s], np.array([[1.0]]), np.array([[0.0, 0.0, 1.5]]), np.array([[0.0, 0.0, 0.0]]), np.array([2.0]), 1.0, None, "Z=2,d=1.5,t=1")
    one_case(run, [s], np.array([[1.0]]), np.array([[0.0, 0.0, 0.5]]), np.array([[0.0, 0.0, 0.0]]), np.array([-3.0]), 1.0, None, "Z<0,d<t")


def replay(run, rep):
    if rep.get("case") == "positional":
        from checks import c09 as _c09
        n0_ = len(run.violations)
        _c09.positional_arguments_case(run, run.rng, only=('electrostatic',))
        return len(run.violations) == n0_
    n0 = len(run.violations)
    specs = specs_from(rep)
    t = None if rep.get("transform") is None else np.array(rep["transform"])
    if rep["case"] == "representation":
        representation_cases(run)
    elif rep["case"] == "size":
        size_case(run, specs, t)
    else:
        one_case(run, specs, np.array(rep["gamma"]), np.array(rep["points"]), np.array(rep["nuclei"]), np.array(rep["charges"]),
                 rep["threshold"], t)
    return len(run.violations) == n0
