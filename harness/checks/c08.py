"""C08 — momentum and angular-momentum integrals exact and Hermitian."""
import itertools

import numpy as np

from gbv import core
from checks.common import *

RULE = ("bases of 1-4 shells (l 0..4, 1-4 primitives, 1-3 segments, both coordinate types, transforms) in every "
        "ordering of the shells (all permutations up to 4 shells); momentum_integral and angular_momentum_integral "
        "compared for every ordered pair (a,b) and component with -i x the Lean model's real array within 1e-9 x "
        "the model's magnitude majorant, and tested for Hermiticity; distinct by (operator, ordered basis signature)")
ASSUMPTIONS = ["'exact' is judged as 1e-9 x the running sum of absolute values of all terms of the element (computed by the model)"]


def one_case(run, specs, op, transform=None):
    from gbasis.integrals.angular_momentum import angular_momentum_integral
    from gbasis.integrals.momentum import momentum_integral

    f = momentum_integral if op == "momentum" else angular_momentum_integral
    impl = f(make_basis(specs), transform=transform)
    model, mag = run.model.array_mag(("momentum " if op == "momentum" else "angmom ") + btok(specs))
    model = -1j * model
    if transform is not None:
        model = np.einsum("ia,jb,abd->ijd", transform, transform, model)
        mag = np.einsum("ia,jb,abd->ijd", np.abs(transform), np.abs(transform), mag)
    tol = 1e-9 * mag + 1e-290
    run.case((op,) + sig(specs) + (transform is not None,),
             sample={"op": op + "_integral", "basis": core.describe_basis(specs)})
    count_basis(run, specs)
    run.count(op)
    rep = {"case": op, "basis": core.describe_basis(specs),
           "transform": None if transform is None else np.real(transform).tolist()}
    if transform is not None and np.iscomplexobj(transform):
        rep["transform_imag"] = np.imag(transform).tolist()
    ok = compare(run, op + "_integral", impl, model, tol, rep, op)
    if not ok:
        return False
    if transform is not None and np.iscomplexobj(transform):
        return ok           # T M T^T of a complex T is not Hermitian
    herm = np.abs(impl - np.conj(np.transpose(impl, (1, 0, 2))))
    if ok and np.any(herm > 2 * tol):
        idx = tuple(int(i) for i in np.unravel_index(np.argmax(herm - 2 * tol), herm.shape))
        rep2 = dict(rep)
        rep2.update({"index": idx, "signature": {"kind": op + "-hermitian"}})
        run.violation(f"{op}_integral is not Hermitian at {idx}", rep2)
        ok = False
    return ok


def check(run):
    rng = run.rng
    nb = 6 if run.tier == "quick" else 40
    for k in range(nb):
        n = 1 + k % 4
        lmax = 4 if n <= 2 else (3 if n == 3 else 2)
        specs = random_basis(rng, n, n, lmax=lmax)
        perms = list(itertools.permutations(range(n)))
        if run.tier == "quick" and len(perms) > 6:
            perms = rng.sample(perms, 6)
        for pm in perms:
            ps = [specs[i] for i in pm]
            one_case(run, ps, "momentum")
            one_case(run, ps, "angmom")
        run.count(f"nshell={n}")
    # the witness of the repaired defect: s on the origin and a p shell
    s = ShellSpec(0, [0, 0, 0], [1.0], [1.0])
    p = ShellSpec(1, [0, 0, 0], [1.0], [1.0])
    for b in ([s, p], [p, s], [p], [p.copy(sph=True), s]):
        one_case(run, b, "momentum")
        one_case(run, b, "angmom")
    for la, lb in itertools.product(range(5), repeat=2):
        if run.tier == "quick" and (la + lb) % 2:
            continue
        specs = pair_specs(rng, la, lb)
        one_case(run, specs, "momentum")
        one_case(run, specs, "angmom")
    k = 0
    for la, lb in itertools.product(range(5), repeat=2):      # tail regime (premature screening would bite here)
        if run.tier == "quick" and (la + lb) % 2 == 0:
            continue
        s1, s2 = tail_pair(rng, la, lb, TAIL_LADDER[k % len(TAIL_LADDER)])
        one_case(run, [s1, s2], "momentum")
        one_case(run, [s2, s1], "angmom")
        run.count("tail regime")
        k += 1
    from checks.common import near_cases, near_pair
    for la, lb, sep, far in near_cases(run, 3):
        s1, s2 = near_pair(rng, la, lb, sep, far)
        one_case(run, [s1, s2], "momentum")
        one_case(run, [s2, s1], "angmom")
        run.count("nearly coincident centres")
    from checks.common import sp_family, structured_transforms
    for k, ls in enumerate([(0, 1), (0, 2), (1, 2), (0, 1, 2)]):
        specs = sp_family(rng, ls, two_centres=(k % 2 == 0) or run.tier != "quick")
        one_case(run, specs, "momentum")
        one_case(run, list(reversed(specs)), "angmom")
        run.count("SP-type shared exponent arrays")
    specs = random_basis(rng, 2, 2, lmax=2)
    for lab, T in structured_transforms(rng, sum(s_.size for s_ in specs)):
        one_case(run, specs, "momentum", T)
        one_case(run, specs, "angmom", T)
        run.count("transform " + lab)
    # two shells on exactly the same centre whose angular momenta differ by two (Cartesian f / g shells contain p- / d-type parts, so
    # the blocks do not vanish), Cartesian, pure and mixed
    for k, (la, lb) in enumerate([(1, 3), (2, 4), (3, 1)] if run.tier == "quick" else [(1, 3), (2, 4), (3, 1), (4, 2), (0, 2), (2, 0)]):
        c0 = [core.snap(rng.uniform(-1, 1), 8) for _ in range(3)]
        for ta, tb in ((False, False),) if run.tier == "quick" else ((False, False), (True, False), (False, True)):
            sa = rand_shell(rng, la, [], nprim=2, nseg=1, sph=ta, exp_hi=5.0).copy(center=c0, via_update=False)
            sb = rand_shell(rng, lb, [], nprim=2, nseg=1, sph=tb, exp_hi=5.0).copy(center=c0, via_update=False)
            one_case(run, [sa, sb], "angmom")
            one_case(run, [sa, sb], "momentum")
        run.count("same centre, angular momenta differing by two")
    from checks.common import structural_families
    for n_, (lab, sp_, T) in enumerate(structural_families(run)):
        one_case(run, sp_, "angmom" if n_ % 2 else "momentum", T)
        if run.tier != "quick":
            one_case(run, sp_, "momentum" if n_ % 2 else "angmom", T)
        run.count(lab)
    from checks.common import custom_order_family
    for k in range(2 if run.tier == "quick" else 8):
        sp_ = custom_order_family(rng, (2, 1) if k % 2 else (1, 3))
        one_case(run, sp_, "momentum")
        one_case(run, sp_, "angmom")
        run.count("declared (non-default) Cartesian component order")
    from checks.common import DEGENERATE_DISPLACEMENTS, degenerate_pair
    for k, d in enumerate(DEGENERATE_DISPLACEMENTS if run.tier != "quick" else DEGENERATE_DISPLACEMENTS[:: 2] + DEGENERATE_DISPLACEMENTS[1:2]):
        for la, lb in ((1, 1), (2, 1)) if run.tier == "quick" else ((1, 1), (2, 1), (1, 2), (2, 2), (3, 1), (0, 2)):
            s1, s2 = degenerate_pair(rng, la, lb, d)
            one_case(run, [s1, s2], "momentum")
            one_case(run, [s2, s1], "angmom")
        run.count("displacement with special structure")
    for _ in range(3 if run.tier == "quick" else 20):
        specs = random_basis(rng, 1, 3, lmax=3)
        t = random_transform(rng, sum(x.size for x in specs))
        run.count("transform")
        one_case(run, specs, rng.choice(["momentum", "angmom"]), t)
    # complex transformations (orbitals with complex coefficients): the transformation acts on every index without conjugation,
    # for all-Cartesian, all-pure and mixed bases, square and rectangular
    for k in range(3 if run.tier == "quick" else 12):
        specs = random_basis(rng, 2, 3, lmax=2, exp_hi=10.0)
        specs = [s_.copy(sph=[False, True, bool(i % 2)][k % 3]) for i, s_ in enumerate(specs)]
        nb = sum(x.size for x in specs)
        t = random_transform(rng, nb, rect=bool(k % 2))
        tc = t + 1j * np.array([[core.snap(rng.uniform(-1, 1), 10) for _ in range(nb)] for _ in range(t.shape[0])])
        run.count("complex transform")
        one_case(run, specs, ["momentum", "angmom"][k % 2], tc)
        one_case(run, specs, ["angmom", "momentum"][k % 2], tc)


def replay(run, rep):
    n0 = len(run.violations)
    t = rep.get("transform")
    if t is not None and rep.get("transform_imag") is not None:
        t = np.array(t) + 1j * np.array(rep["transform_imag"])
    one_case(run, specs_from(rep), rep["case"], None if t is None else np.array(t))
    return len(run.violations) == n0
