"""C03 — point-charge and nuclear-attraction integrals exact."""
import itertools

import numpy as np

from gbv import core
from checks.common import *

RULE = ("every ordered pair of angular momenta 0..5 (so both l_a >= l_b and l_a < l_b: the shell swap is taken and not "
        "taken) as two-shell bases, random bases of 1-4 shells, 1-5 point charges of either sign placed on a Gaussian "
        "centre, on the segment between centres, at the weighted centre P of a primitive pair (Boys argument exactly or "
        "nearly 0), nearby, and far away (Boys arguments up to > 1e4; histogram recorded); point_charge_integral is "
        "compared per charge with the Lean model within 1e-8*sqrt(|V_aa V_bb|), and nuclear_electron_attraction_integral "
        "with the sum over charges; distinct by (basis signature, charge placement kinds)")
ASSUMPTIONS = ["the Rys/Boys form evaluated by the model is the Coulomb integral (Gaussian transform of 1/r: named in the trusted base, not formalised)",
               "Boys function of the model: series/asymptotic in 320-bit arithmetic, validated against mpmath at setup"]


def place_charges(rng, specs, n):
    pts, kinds = [], []
    for _ in range(n):
        kind = rng.choice(["centre", "segment", "P", "near", "far", "veryfar"])
        a = rng.choice(specs)
        b = rng.choice(specs)
        A, B = np.array(a.center), np.array(b.center)
        if kind == "centre":
            p = A
        elif kind == "segment":
            p = A + core.snap(rng.random(), 8) * (B - A)
        elif kind == "P":
            ea, eb = rng.choice(a.exps), rng.choice(b.exps)
            p = (ea * A + eb * B) / (ea + eb)
        elif kind == "near":
            p = A + np.array([core.snap(rng.uniform(-1, 1), 10) for _ in range(3)])
        elif kind == "far":
            p = A + np.array([core.snap(rng.uniform(5, 30), 6) * rng.choice([-1, 1]) for _ in range(3)])
        else:
            p = A + np.array([core.snap(rng.uniform(50, 300), 6) * rng.choice([-1, 1]) for _ in range(3)])
        pts.append([float(x) for x in p])
        kinds.append(kind)
    q = [core.snap(rng.choice([-1, 1]) * 10 ** rng.uniform(-1, 1.5), 10) for _ in range(n)]
    return np.array(pts), np.array(q), kinds


def boys_hist(run, specs, pts):
    for s in specs:
        for t in specs:
            for ea in s.exps:
                for eb in t.exps:
                    P = (ea * np.array(s.center) + eb * np.array(t.center)) / (ea + eb)
                    for c in pts:
                        T = (ea + eb) * float(np.sum((P - c) ** 2))
                        k = "T=0" if T == 0 else ("T<1e-3" if T < 1e-3 else "T<1" if T < 1 else "T<30" if T < 30
                                                  else "T<1e3" if T < 1e3 else "T<1e4" if T < 1e4 else "T>=1e4")
                        run.count("boys " + k)


def one_case(run, specs, pts, q, kinds=(), transform=None):
    from gbasis.integrals.nuclear_electron_attraction import nuclear_electron_attraction_integral
    from gbasis.integrals.point_charge import point_charge_integral

    basis = make_basis(specs)
    impl = point_charge_integral(basis, pts, q, transform=transform)
    line = ("pointcharge " + btok(specs) + f" {len(pts)} " + " ".join(core.enc(x) for x in np.asarray(pts).ravel())
            + " " + " ".join(core.enc(x) for x in q))
    model = run.model.array(line)
    d = np.sqrt(np.abs(np.einsum("iik->ik", model)))
    tol = 1e-8 * d[:, None, :] * d[None, :, :]
    if transform is not None:
        model = np.einsum("ia,jb,abk->ijk", transform, transform, model)
        dd = np.einsum("ia,ak->ik", np.abs(transform), d)
        tol = 1e-8 * dd[:, None, :] * dd[None, :, :]
    tol = tol + 1e-300
    run.case(("pc",) + sig(specs) + tuple(kinds) + (transform is not None,),
             sample={"op": "point_charge_integral", "basis": core.describe_basis(specs),
                     "points": np.asarray(pts).tolist(), "charges": list(map(float, q))})
    count_basis(run, specs)
    for k in kinds:
        run.count("charge@" + k)
    boys_hist(run, specs, pts)
    rep = {"case": "pointcharge", "basis": core.describe_basis(specs), "points": np.asarray(pts).tolist(),
           "charges": [float(x) for x in q], "transform": None if transform is None else transform.tolist()}
    ok = compare(run, "point_charge_integral", impl, model, tol, rep, "pointcharge")
    nuc = nuclear_electron_attraction_integral(basis, pts, q, transform=transform)
    run.case(("nuc",) + sig(specs) + tuple(kinds))
    ok2 = compare(run, "nuclear_electron_attraction_integral", nuc, model.sum(axis=2), tol.sum(axis=2),
                  dict(rep, case="nuclear"), "nuclear")
    return ok and ok2


def many_charges_case(run, l=3, nprim=6, ncharge=220):
    """many point charges in one call for large shells (two f shells with six primitives, 220 charges: more than 2^24 numbers in
    the recursion work array) must give, charge by charge, what single-charge calls give; sampled charges also against the model"""
    from gbasis.integrals.point_charge import point_charge_integral
    rng = run.rng
    cs = []
    specs = [rand_shell(rng, l, cs, nprim=nprim, nseg=1, sph=False, exp_hi=8.0).copy(via_update=False) for _ in range(2)]
    specs[1] = specs[1].copy(center=[c + d for c, d in zip(specs[0].center, (0.9, -0.4, 0.6))])
    basis = make_basis(specs)
    pts = np.array([[core.snap(rng.uniform(-4, 4), 10) for _ in range(3)] for _ in range(ncharge)])
    q = np.array([core.snap(rng.uniform(0.5, 2.0), 8) for _ in range(ncharge)])
    whole = point_charge_integral(basis, pts, q)
    run.case(("many-charges", l, nprim, ncharge) + sig(specs))
    run.count("many point charges in one call (%d)" % ncharge)
    rep = {"case": "many-charges", "basis": core.describe_basis(specs), "signature": {"kind": "point-charge-many"}}
    nb = sum(s_.size for s_ in specs)
    if whole.shape != (nb, nb, ncharge):
        run.violation(f"point_charge_integral returned shape {whole.shape} for {ncharge} charges", rep)
        return False
    picks = [0, 1, ncharge // 2, ncharge - 1] + rng.sample(range(ncharge), 4)
    for i in picks:
        single = point_charge_integral(basis, pts[i:i + 1], q[i:i + 1])[:, :, 0]
        d = np.sqrt(np.abs(np.diag(single)))
        tol = 1e-11 * np.outer(d, d) + 1e-300
        if np.any(np.abs(whole[:, :, i] - single) > tol):
            run.violation(f"slice {i} of a {ncharge}-charge request differs from the result for that charge alone by "
                          f"{np.abs(whole[:, :, i] - single).max():.3e} (diagonal scale {d.max() ** 2:.3e})", dict(rep, position=i))
            return False
    return one_case(run, specs, pts[picks[:2]], q[picks[:2]], ("many", "many"))


def representation_cases(run):
    from gbasis.integrals.nuclear_electron_attraction import nuclear_electron_attraction_integral
    from gbasis.integrals.point_charge import point_charge_integral
    rng = run.rng
    cs = []
    specs = [rand_shell(rng, l, cs, nprim=1 + l, nseg=1, exp_hi=5.0) for l in (0, 1)]
    basis = make_basis(specs)
    n = sum(s.size for s in specs)
    pts = np.array([[0.0, 1.0, -1.0], [2.0, 0.0, 1.0]])
    g = np.eye(n) * 2.0
    g[0, n - 1] = g[n - 1, 0] = 1.0
    rep = {"basis": core.describe_basis(specs), "points": pts.tolist(), "gamma": g.tolist()}
    cpos = np.array([[1.0, 0.0, 0.0], [0.0, -1.0, 2.0]])
    q = np.array([3.0, -2.0])
    repr_case(run, "point_charge_integral", "points_coords", lambda c: point_charge_integral(basis, c, q), cpos, rep)
    repr_case(run, "point_charge_integral", "points_charge", lambda z: point_charge_integral(basis, cpos, z), q, rep)
    repr_case(run, "nuclear_electron_attraction_integral", "nuclear_coords", lambda c: nuclear_electron_attraction_integral(basis, c, q), cpos, rep)
    # atomic numbers: non-negative integers, also as unsigned arrays (uint8 / uint64 — either refused or treated as the numbers they are)
    zq = np.array([1.0, 8.0])
    repr_case(run, "point_charge_integral", "points_charge (atomic numbers)", lambda z: point_charge_integral(basis, cpos, z), zq, rep)
    repr_case(run, "nuclear_electron_attraction_integral", "nuclear_charges (atomic numbers)",
              lambda z: nuclear_electron_attraction_integral(basis, cpos, z), zq, rep)
    T = np.array([[float((3 * r + 2 * c) % 5 - 2) for c in range(n)] for r in range(2)])
    repr_case(run, "point_charge_integral", "transform", lambda t: point_charge_integral(basis, cpos, q, transform=t), T, rep)


def check(run):
    rng = run.rng
    quick = run.tier == "quick"
    for la, lb in itertools.product(range(6), repeat=2):
        heavy = la + lb >= 7
        kw = {}
        if quick and heavy:
            kw = dict(nprim=rng.randint(1, 2), nseg=1)
        elif quick and la + lb >= 5:
            kw = dict(nprim=rng.randint(1, 3), nseg=rng.randint(1, 2))
        specs = pair_specs(rng, la, lb, **kw)
        pts, q, kinds = place_charges(rng, specs, 2 if (quick and heavy) else rng.randint(1, 5))
        one_case(run, specs, pts, q, kinds)
        run.count("swap" if la < lb else "noswap")
    # Boys-argument ladder: charges placed so that p*|P-C|^2 of the first primitive pair takes prescribed values
    # (including the neighbourhoods of the usual switch points of Boys-function implementations)
    ladder = [0.0, 1e-6, 0.3, 3.0, 9.0, 15.0, 20.0, 24.0, 26.0, 28.0, 31.0, 36.0, 45.0, 60.0, 90.0, 130.0, 250.0, 1e3, 1e4, 3e4]
    k = 0
    for la, lb in itertools.product(range(6), repeat=2):
        if quick and (la + lb) % 2 == 1 and la + lb < 9:
            continue
        kw = dict(nprim=1, nseg=1) if la + lb >= 7 else dict(nprim=rng.randint(1, 2), nseg=1)
        specs = pair_specs(rng, la, lb, exp_lo=0.3, exp_hi=3.0, **kw)
        ea, eb = specs[0].exps[0], specs[1].exps[0]
        P = (ea * np.array(specs[0].center) + eb * np.array(specs[1].center)) / (ea + eb)
        ts = ladder if not quick else [ladder[(k * 4 + j * 5 + 7) % len(ladder)] for j in range(4)] + [26.0, 28.0][: 1 + (la + lb >= 8)]
        pts = []
        for T in ts:
            d = np.array([rng.gauss(0, 1) for _ in range(3)])
            d = d / np.linalg.norm(d) * np.sqrt(T / (ea + eb))
            pts.append(P + d)
        q = np.array([core.snap(rng.choice([-1, 1]) * rng.uniform(0.5, 3), 8) for _ in ts])
        one_case(run, specs, np.array(pts), q, tuple("T=%g" % T for T in ts))
        run.count("boys ladder case")
        k += 1
    from checks.common import sp_family, structured_transforms
    for k, ls in enumerate([(0, 1), (0, 2), (1, 2)]):
        specs = sp_family(rng, ls, two_centres=True)
        pts, q, kinds = place_charges(rng, specs, 2)
        one_case(run, specs if k % 2 else list(reversed(specs)), pts, q, kinds)
        run.count("SP-type shared exponent arrays")
    specs = random_basis(rng, 2, 2, lmax=2)
    pts, q, kinds = place_charges(rng, specs, 2)
    for lab, T in structured_transforms(rng, sum(s_.size for s_ in specs)):
        one_case(run, specs, pts, q, kinds, T)
        run.count("transform " + lab)
    from checks.common import structural_families
    for lab, sp_, T in structural_families(run):
        pts, q, kinds = place_charges(rng, sp_, 2)
        if lab.startswith("symmetric"):
            # charges at the symmetric sites: on the central atom (= the exact midpoint of the outer ones in the linear case) and at
            # the exact midpoint of the first two outer atoms
            mid = [(a + b) / 2 for a, b in zip(sp_[1].center, sp_[2].center)]
            pts = np.vstack([pts, [sp_[0].center, mid]])
            q = np.concatenate([q, [1.0, -2.0]])
            kinds = list(kinds) + ["centre", "midpoint"]
        one_case(run, sp_, pts, q, kinds, T)
        run.count(lab)
    many_charges_case(run)
    # sets of charges of both signs whose sum vanishes, exactly or to rounding (an embedding cloud, a dipole)
    for qs in ([0.1, 0.2, -0.3], [1.0, 1.0, -2.0], [1.0, -1.0], [2.5, -1.25, -1.25, 0.0]):
        sp_ = random_basis(rng, 2, 2, lmax=2, exp_hi=10.0)
        pts_, _q, kinds_ = place_charges(rng, sp_, len(qs))
        one_case(run, sp_, pts_, np.array(qs), ("neutral",) * len(qs))
        run.count("charges that sum to zero")
    # one nucleus with a basis of one function / a single-row transformation: the nuclear-attraction matrix is still a matrix
    from gbasis.integrals.nuclear_electron_attraction import nuclear_electron_attraction_integral
    from gbasis.integrals.point_charge import point_charge_integral
    for k in range(3):
        sp_ = [ShellSpec(0, [0.1, -0.2, 0.3], [1.3, 0.4], [[0.6], [0.5]])] if k == 0 else random_basis(rng, 2, 2, lmax=1, exp_hi=10.0)
        nfun = sum(s_.size for s_ in sp_)
        T = None if k == 0 else np.array([[core.snap(rng.uniform(-1, 1), 10) for _ in range(nfun)]])
        pts1, q1 = np.array([[0.4, 0.1, -0.3]]), np.array([2.0])
        kw = {} if T is None else {"transform": T}
        b_ = make_basis(sp_)
        nuc, pc = nuclear_electron_attraction_integral(b_, pts1, q1, **kw), point_charge_integral(b_, pts1, q1, **kw)
        run.case(("one-nucleus-shape", k))
        run.count("one nucleus, result with a single row and column")
        if np.shape(nuc) != (1, 1) or np.shape(pc) != (1, 1, 1) or abs(float(np.asarray(nuc).ravel()[0]) - float(pc[0, 0, 0])) > 1e-12 * abs(float(pc[0, 0, 0])):
            run.violation(f"nuclear_electron_attraction_integral for one nucleus returns shape {np.shape(nuc)} (point_charge_integral: {np.shape(pc)}); "
                          "it is the sum of the per-charge arrays over the nuclei, a (1, 1) matrix here",
                          {"case": "one-nucleus-shape", "basis": core.describe_basis(sp_), "signature": {"kind": "nuclear-shape"}})
        one_case(run, sp_, pts1, q1, ("one",), T)
    from checks.common import custom_order_family
    for k in range(2 if run.tier == "quick" else 8):
        sp_ = custom_order_family(rng, (2, 1) if k % 2 else (1, 3))
        pts, q, kinds = place_charges(rng, sp_, 2)
        one_case(run, sp_, pts, q, kinds)
        run.count("declared (non-default) Cartesian component order")
    from checks.common import DEGENERATE_DISPLACEMENTS, degenerate_pair
    for k, d in enumerate(DEGENERATE_DISPLACEMENTS if run.tier != "quick" else DEGENERATE_DISPLACEMENTS[:: 2] + DEGENERATE_DISPLACEMENTS[1:2]):
        for la, lb in ((1, 1), (2, 1)) if run.tier == "quick" else ((1, 1), (2, 1), (1, 2), (2, 2), (3, 1), (0, 2)):
            s1, s2 = degenerate_pair(rng, la, lb, d)
            pts, q, kinds = place_charges(rng, [s1, s2], 2)
            one_case(run, [s1, s2], pts, q, kinds)
        run.count("displacement with special structure")
    # nearly coincident centres (and a charge nearly on a centre)
    from checks.common import near_cases, near_pair
    for la, lb, sep, far in near_cases(run, 3)[:: (3 if quick else 1)]:
        s1, s2 = near_pair(rng, la, lb, sep, far)
        pts, q, kinds = place_charges(rng, [s1, s2], 2)
        pts = np.vstack([pts, np.array(s1.center) + np.array([sep, -0.5 * sep, 0.25 * sep])])
        q = np.append(q, 1.5)
        one_case(run, [s1, s2], pts, q, tuple(kinds) + ("near-centre",))
        run.count("nearly coincident centres")
    for _ in range(6 if quick else 60):
        n = rng.randint(1, 4)
        specs = random_basis(rng, n, n, lmax=3 if quick else (5 if n <= 2 else 3))
        pts, q, kinds = place_charges(rng, specs, rng.randint(1, 5))
        t = None
        if rng.random() < 0.25:
            t = random_transform(rng, sum(s.size for s in specs))
            run.count("transform")
        one_case(run, specs, pts, q, kinds, t)
    # exactly T = 0 and very large T with a tight s function
    s = ShellSpec(0, [0.0, 0.0, 0.0], [1e5, 0.02], [[1.0], [0.3]])
    p = ShellSpec(1, [0.0, 0.0, 0.0], [1e4, 0.5], [[0.7], [1.0]], sph=True)
    one_case(run, [s, p], np.array([[0.0, 0.0, 0.0], [0.0, 0.0, 1.0], [100.0, -50.0, 25.0]]),
             np.array([1.0, -3.0, 8.0]), ("centre", "near", "veryfar"))
    representation_cases(run)


def replay(run, rep):
    n0 = len(run.violations)
    if rep.get("case") == "representation":
        representation_cases(run)
        return len(run.violations) == n0
    t = rep.get("transform")
    one_case(run, specs_from(rep), np.array(rep["points"]), np.array(rep["charges"]), (),
             None if t is None else np.array(t))
    return len(run.violations) == n0
