"""C18 — basis-set import preserves every shell and leaves its arguments intact."""
import copy
import os
import tempfile

import numpy as np

from gbv import core
from checks.common import *

RULE = ("random basis-set descriptions (1-5 elements with one- and two-letter symbols, 1-8 shells each, l from s to k, 1-10 "
        "primitives, 1-6 columns, SP shells, numbers in E / D / plain form with a decimal point) are rendered to NWChem and "
        "Gaussian94 text with comment and blank lines and zero, one or many lines before the first element, and with varying "
        "white space; parse_nwchem / parse_gbs must return for every element the flattened sequence (l, exponents, column) in "
        "file order with exactly the floats written, and must agree with the Lean token-line model on the same lines; the "
        "repository's own data files are a corpus; make_contractions on molecules of 1-5 atoms with repeated elements with "
        "coord_types as string / list / tuple (arguments compared bitwise before and after, repeated calls), from_pyscf on a "
        "duck-typed Mole; malformed coordinate types; distinct by description signature")
ASSUMPTIONS = ["the token-line model abstracts the regular expressions below the token level; the file-level correspondence with white-space "
               "variations covers that part", "float(str) is correctly rounded"]

LETTERS = "spdfghik"
ELEMENTS = ["H", "He", "Li", "C", "N", "O", "Ne", "Na", "Cl", "K", "Fe", "U", "Xe", "B"]


def fmt_num(rng, x, style):
    if style == "plain":
        s = f"{x:.10f}"
    elif style == "E":
        s = f"{x:.8E}"
    else:
        s = f"{x:.8E}".replace("E", "D")
    # Fortran and C both accept an exponent without sign (0.3425D2, 1.5E3); written so for about a third of the numbers >= 1
    if style != "plain" and ("E+" in s or "D+" in s) and rng.random() < 0.35:
        mant, ex = s.replace("D", "E").split("E+")
        s = mant + ("D" if "D" in s else "E") + str(int(ex))
    return s


def rand_desc(rng):
    nel = rng.randint(1, 5)
    elems = rng.sample(ELEMENTS, nel)
    desc = []
    for el in elems:
        groups = []
        # about one element in four starts with a shell that repeats the letters and exponents of the last shell of the element written
        # before it (universal / even-tempered primitive sets shared by neighbouring elements)
        if desc and rng.random() < 0.25:
            pl, prow = desc[-1][1][-1]
            groups.append((list(pl), [(e, [fmt_num(rng, rng.choice([-1, 1]) * 10 ** rng.uniform(-3, 1), "E") for _ in cs]) for e, cs in prow]))
        for _ in range(rng.randint(1, 8)):
            nprim = rng.randint(1, 10)
            if rng.random() < 0.2:
                ls = [0, 1]                      # SP shell
                ncol = 2
            else:
                ls = [rng.randrange(len(LETTERS))]
                ncol = rng.randint(1, 6)
            style = rng.choice(["plain", "E", "D"])
            rows = []
            # about one group in six repeats the exponents (and the letters) of an earlier group of the element with other
            # coefficients — directly after it or further down (general-contraction sets written shell by shell)
            again = rng.choice(groups) if groups and rng.random() < 0.17 else None
            if again is not None:
                ls = list(again[0])
                ncol = len(again[1][0][1])
            for _k in range(nprim if again is None else len(again[1])):
                e = fmt_num(rng, 10 ** rng.uniform(-2, 5), style if style != "plain" or True else style) if again is None else again[1][_k][0]
                cs = [fmt_num(rng, rng.choice([-1, 1]) * 10 ** rng.uniform(-3, 1), rng.choice(["plain", "E", "D"])) for _ in range(ncol)]
                rows.append((e, cs))
            groups.append((ls, rows))
        desc.append((el, groups))
    return desc


def split_runs(rng, desc):
    """the same description with the shell groups of some elements written in two or three separate runs"""
    if len(desc) == 1:
        desc = desc + [(rng.choice([e for e in ELEMENTS if e != desc[0][0]]), rand_desc(rng)[0][1])]
    head, tail = [], []
    for n, (el, groups) in enumerate(desc):
        if len(groups) >= 2 and (n == 0 or rng.random() < 0.6):
            cut = rng.randint(1, len(groups) - 1)
            head.append((el, groups[:cut]))
            tail.append((el, groups[cut:]))
        else:
            head.append((el, groups))
    if not tail:
        el, groups = desc[0]
        tail.append((el, [groups[0]]))
    rng.shuffle(tail)
    return head + tail


def tofloat(tok):
    return float(tok.lower().replace("d", "e"))


def expected(desc, gbs):
    """element -> [(l, [exps], [column])] in file order"""
    out = {}
    for el, groups in desc:
        lst = out.setdefault(el, [])
        for ls, rows in groups:
            exps = [tofloat(e) for e, _ in rows]
            ncol = len(rows[0][1])
            if len(ls) == 1 and not gbs:
                for c in range(ncol):
                    lst.append((ls[0], exps, [tofloat(cs[c]) for _, cs in rows]))
            elif len(ls) == 1:
                # Gaussian94: one shell line carries one column per letter; extra columns are not part of the format
                lst.append((ls[0], exps, [tofloat(cs[0]) for _, cs in rows]))
            else:
                for i, l in enumerate(ls):
                    lst.append((l, exps, [tofloat(cs[i]) for _, cs in rows]))
    return out


def noise(rng, kind):
    if kind == "nw":
        return rng.choice(["", "   ", "#BASIS SET: (4s,1p) -> [2s,1p]", "# comment line", "END", 'BASIS "ao basis" PRINT'])
    return rng.choice(["", "  ", "! comment", "!----------", "! Basis set: test"])


def render(rng, desc, fmt, npre):
    lines = []
    pre_pool = {"nw": ["#  STO-6G  EMSL  Basis Set Exchange Library", "# Elements   References", 'BASIS "ao basis" PRINT', "#"],
                "gbs": ["!----------------------------------------", "! Basis Set Exchange", "!   Basis set: STO-6G", ""]}[fmt]
    for k in range(npre):
        lines.append(pre_pool[k % len(pre_pool)])
    sp = lambda: " " * rng.randint(1, 6)
    for el, groups in desc:
        if fmt == "gbs":
            lines.append(f"{el}{sp()}0")
        for ls, rows in groups:
            letters = "".join(LETTERS[l].upper() for l in ls)
            if rng.random() < 0.2:       # both formats are case-insensitive (the NWChem manual itself writes `hydrogen s`)
                letters = letters.lower() if rng.random() < 0.7 else "".join(rng.choice([ch.lower(), ch]) for ch in letters)
            if fmt == "nw":
                if rng.random() < 0.3:
                    lines.append(noise(rng, "nw"))
                lines.append(f"{el}{sp()}{letters}")
                rws = rows
            else:
                lines.append(f"{letters}{sp()}{len(rows)}{sp()}1.00")
                rws = [(e, cs[:len(ls)]) for e, cs in rows]
            # comment / blank lines inside a shell: after the header, between two primitives (about one shell in four)
            interior = rng.random() < 0.25
            for e, cs in rws:
                if interior and rng.random() < 0.5:
                    lines.append(rng.choice(["# interior comment", "", "   ", "#"]) if fmt == "nw" else rng.choice(["! interior comment", "!"]))
                lines.append(" " * rng.randint(0, 8) + e + "".join(sp() + c for c in cs) + (" " * rng.randint(0, 3)))
        if fmt == "gbs":
            lines.append("****")
        elif rng.random() < 0.3:
            lines.append(noise(rng, "nw"))
    if fmt == "nw" and rng.random() < 0.5:
        lines.append("END")
    return lines


def model_parse(run, op, lines):
    toks = [ln.split() for ln in lines]
    req = f"{op} {len(toks)} " + " ".join(f"{len(t)} " + " ".join(t) if t else "0" for t in toks)
    rep = run.model.raw(req).split()
    if rep[0] == "err":
        return None
    pos = 1
    nel = int(rep[pos]); pos += 1
    out = {}
    for _ in range(nel):
        sym, nsh = rep[pos], int(rep[pos + 1]); pos += 2
        lst = out.setdefault(sym, [])
        for _s in range(nsh):
            l, npr, ncol = int(rep[pos]), int(rep[pos + 1]), int(rep[pos + 2]); pos += 3
            exps = [float(x) for x in rep[pos:pos + npr]]; pos += npr
            for _c in range(ncol):
                col = [float(x) for x in rep[pos:pos + npr]]; pos += npr
                lst.append((l, exps, col))
    return out


def flatten_impl(parsed):
    out = {}
    for el, shells in parsed.items():
        lst = out.setdefault(el, [])
        for l, exps, coeffs in shells:
            co = np.asarray(coeffs)
            if co.ndim == 1:
                co = co[:, None]
            for c in range(co.shape[1]):
                lst.append((int(l), [float(x) for x in exps], [float(x) for x in co[:, c]]))
    return out


def parse_case(run, fmt, lines, exp, tag):
    from gbasis.parsers import parse_gbs, parse_nwchem
    text = "\n".join(lines) + "\n"
    with tempfile.NamedTemporaryFile("w", suffix="." + fmt, delete=False) as fh:
        fh.write(text)
        path = fh.name
    rep = {"case": "parse", "format": fmt, "text": text, "tag": tag}
    run.case(("parse", fmt, tag, len(lines), hash(text) & 0xFFFFFF), sample={"format": fmt, "preamble_lines": tag, "first_lines": lines[:4]})
    run.count(f"format {fmt}")
    run.count(f"preamble {tag}")
    try:
        try:
            got = flatten_impl((parse_nwchem if fmt == "nw" else parse_gbs)(path))
        except Exception as e:
            run.violation(f"parse_{'nwchem' if fmt == 'nw' else 'gbs'} raised {type(e).__name__}: {e} on a well-formed file ({tag} line(s) before the first element)",
                          dict(rep, signature={"kind": "parse-raises"}))
            return False
    finally:
        os.unlink(path)
    ok = True
    if exp is not None and got != exp:
        what = "elements differ: %s vs %s" % (list(got), list(exp)) if list(got) != list(exp) else "shell data differ"
        for el in exp:
            if el in got and got[el] != exp[el]:
                what = f"element {el}: {len(got[el])} shells returned, {len(exp[el])} written" if len(got[el]) != len(exp[el]) else f"element {el}: shell data differ"
                break
        run.violation(f"parse_{'nwchem' if fmt == 'nw' else 'gbs'} does not return the shells written in the file ({what}; {tag} line(s) before the first element)",
                      dict(rep, signature={"kind": "parse-content"}))
        ok = False
    mod = model_parse(run, "parse_nwchem" if fmt == "nw" else "parse_gbs", lines)
    if mod != got:
        run.violation("implementation and token-line model disagree on a file", dict(rep, signature={"kind": "parse-model"}))
        ok = False
    return ok


def repeated_import_case(run, rng, fmt):
    """repeated imports of one path: each call returns what the file contains *now*, as fresh objects — whatever was done with an
    earlier result (in-place update of a shell built from it, editing the returned dictionary) or to the file in between"""
    from gbasis.parsers import make_contractions, parse_gbs, parse_nwchem
    parse = parse_nwchem if fmt == "nw" else parse_gbs
    d1, d2 = rand_desc(rng), rand_desc(rng)
    l1, l2 = render(rng, d1, fmt, 2), render(rng, d2, fmt, 2)
    e1, e2 = expected(d1, fmt == "gbs"), expected(d2, fmt == "gbs")
    with tempfile.NamedTemporaryFile("w", suffix="." + fmt, delete=False) as fh:
        fh.write("\n".join(l1) + "\n")
        path = fh.name
    rep = {"case": "repeated-import", "format": fmt, "text": "\n".join(l1) + "\n", "text2": "\n".join(l2) + "\n"}
    run.case(("repeated-import", fmt, hash(rep["text"]) & 0xFFFFFF))
    run.count("repeated import " + fmt)
    ok = True
    try:
        r1 = parse(path)
        el = next(iter(r1))
        basis = make_contractions(r1, [el], np.zeros((1, 3)), "cartesian")
        if not (basis[0].exps.flags.writeable and basis[0].coeffs.flags.writeable and all(
                a.flags.writeable for sh in r1[el] for a in sh[1:] if isinstance(a, np.ndarray))):
            run.violation("make_contractions left an array of its argument / of the shells it returned read-only: a valid in-place "
                          "parameter update is refused", dict(rep, signature={"kind": "make-contractions-argument-flags"}))
            return False
        basis[0].exps *= 1.44                      # in-place parameter update of a shell built from the first result
        basis[0].assign_norm_cont()
        r1[el].append((0, np.array([1.0]), np.array([[1.0]])))      # the caller edits the dictionary it was given
        r2 = parse(path)
        if flatten_impl(r2) != e1:
            run.violation("a second import of the same unchanged file does not return the file's contents (the result depends on what "
                          "was done with the first result)", dict(rep, signature={"kind": "parse-repeat"}))
            ok = False
        r3 = parse(path)
        arrs = lambda r: [a for shells in r.values() for sh in shells for a in sh[1:] if isinstance(a, np.ndarray)]
        if any(np.shares_memory(a, b) for a in arrs(r2) for b in arrs(r3)):
            run.violation("two imports of the same file return arrays that share memory", dict(rep, signature={"kind": "parse-alias"}))
            ok = False
        with open(path, "w") as fh:
            fh.write("\n".join(l2) + "\n")
        r4 = parse(path)
        if flatten_impl(r4) != e2:
            run.violation("an import after the file was rewritten does not return the new contents", dict(rep, signature={"kind": "parse-stale"}))
            ok = False
    finally:
        os.unlink(path)
    return ok


def contractions_case(run, rng):
    from gbasis.parsers import make_contractions
    nel = rng.randint(1, 3)
    elems = rng.sample(ELEMENTS, nel)
    bd = {}
    for el in elems:
        bd[el] = [(rng.randint(0, 3), np.array([core.rand_exp(rng, 0.1, 50) for _ in range(rng.randint(1, 3))]), None) for _ in range(rng.randint(1, 4))]
        new = []
        for l, e, _ in bd[el]:
            ncol = rng.randint(1, 2)
            new.append((l, e, np.array([[core.rand_coeff(rng) for _ in range(ncol)] for _ in e])))
        bd[el] = new
    atoms = [rng.choice(elems) for _ in range(rng.randint(1, 5))]
    coords = np.array([[core.snap(rng.uniform(-3, 3), 8) for _ in range(3)] for _ in atoms])
    total = sum(len(bd[a]) for a in atoms)
    kind = rng.choice(["str", "list", "tuple"])
    if kind == "str":
        ct = rng.choice(["cartesian", "spherical", "c", "p"])
        want = [{"c": "cartesian", "p": "spherical"}.get(ct, ct)] * total
    else:
        lst = [rng.choice(["cartesian", "spherical", "c", "p"]) for _ in range(total)]
        want = [{"c": "cartesian", "p": "spherical"}.get(x, x) for x in lst]
        ct = lst if kind == "list" else tuple(lst)
    snap_atoms, snap_coords, snap_ct = copy.deepcopy(atoms), coords.copy(), copy.deepcopy(ct)
    snap_bd = {k: [(l, e.copy(), c.copy()) for l, e, c in v] for k, v in bd.items()}
    flags0 = [(e.flags.writeable, c.flags.writeable) for v in bd.values() for _, e, c in v] + [coords.flags.writeable]
    rep = {"case": "contractions", "atoms": atoms, "coord_types": list(ct) if kind != "str" else ct, "kind": kind}
    run.case(("mk", kind, tuple(atoms), total))
    run.count("coord_types as " + kind)
    ok = True
    for call in range(2):      # repeated calls with the same argument objects
        try:
            shells = make_contractions(bd, atoms, coords, ct)
        except Exception as e:
            run.violation(f"make_contractions raised {type(e).__name__} (coord_types given as {kind}, call #{call + 1} with the same objects)",
                          dict(rep, signature={"kind": "make-contractions-raises"}))
            return False
        flags1 = [(e.flags.writeable, c.flags.writeable) for v in bd.values() for _, e, c in v] + [coords.flags.writeable]
        if flags1 != flags0:
            run.violation("make_contractions changed the flags of an argument array (an array that was writeable is read-only afterwards)",
                          dict(rep, signature={"kind": "make-contractions-argument-flags"}))
            return False
        exp = []
        for k, a in enumerate(atoms):
            for l, e, c in snap_bd[a]:
                exp.append((l, k, e, c))
        if len(shells) != len(exp):
            run.violation("make_contractions returned the wrong number of shells", dict(rep, signature={"kind": "make-contractions"}))
            return False
        for sh, (l, k, e, c), t in zip(shells, exp, want):
            if not (sh.angmom == l and sh.icenter == k and np.array_equal(sh.coord, snap_coords[k]) and np.array_equal(sh.exps, e)
                    and np.array_equal(sh.coeffs, c if c.ndim == 2 else c[:, None]) and sh.coord_type == t):
                run.violation("make_contractions: a shell has the wrong angular momentum / atom index / coordinates / data / coordinate type",
                              dict(rep, signature={"kind": "make-contractions"}))
                return False
        same = (atoms == snap_atoms and np.array_equal(coords, snap_coords) and ct == snap_ct and type(ct) is type(snap_ct)
                and all(np.array_equal(e, e2) and np.array_equal(c, c2) for k in bd for (l, e, c), (l2, e2, c2) in zip(bd[k], snap_bd[k])))
        if not same:
            run.violation(f"make_contractions modified an argument (coord_types given as {kind}: now {ct!r})",
                          dict(rep, signature={"kind": "make-contractions-mutates"}))
            return False
    return ok


class Mole:     # duck-typed stand-in for pyscf.gto.mole.Mole (class name checked by from_pyscf)
    pass


def pyscf_case(run, rng):
    from gbasis.wrappers import from_pyscf
    mol = Mole()
    mol.cart = rng.random() < 0.5
    nat = rng.randint(1, 4)
    syms = [rng.choice(["H", "O", "C"]) for _ in range(nat)]
    mol._atom = [(s, [core.snap(rng.uniform(-2, 2), 8) for _ in range(3)]) for s in syms]      # always Bohr, as in pyscf
    # what a real Mole carries besides: the unit of the *input* geometry (pyscf's default is Angstrom), charge, spin, verbose ...
    k = rng.randint(0, 3)
    if k:
        mol.unit = ["Angstrom", "Ang", "Bohr"][k - 1]
        mol.atom = [(s, [x * (0.52917721092 if k < 3 else 1.0) for x in c]) for s, c in mol._atom]
        mol.charge, mol.spin, mol.verbose = 0, 0, 0
        run.count("Mole.unit=" + mol.unit)
    mol._basis = {}
    for s in set(syms):
        shells = []
        for _ in range(rng.randint(1, 3)):
            l = rng.randint(0, 3)
            ncol = rng.randint(1, 2)
            rows = [[core.rand_exp(rng, 0.1, 30)] + [core.rand_coeff(rng) for _ in range(ncol)] for _ in range(rng.randint(1, 3))]
            shells.append([l] + rows)
        mol._basis[s] = shells
    run.case(("pyscf", tuple(syms), mol.cart))
    run.count("from_pyscf")
    try:
        basis = from_pyscf(mol)
    except Exception as e:
        run.violation(f"from_pyscf raised {type(e).__name__}: {e}", {"case": "pyscf", "signature": {"kind": "pyscf"}})
        return False
    exp = []
    for s, c in mol._atom:
        for sh in mol._basis[s]:
            arr = np.array(sh[1:])
            exp.append((sh[0], np.array(c), arr[:, 0], arr[:, 1:]))
    ok = len(basis) == len(exp) and all(
        b.angmom == l and np.array_equal(b.coord, c) and np.array_equal(b.exps, e) and np.array_equal(b.coeffs, co)
        and b.coord_type == ("cartesian" if mol.cart else "spherical") for b, (l, c, e, co) in zip(basis, exp))
    if not ok:
        run.violation("from_pyscf does not preserve the shells of the molecule", {"case": "pyscf", "signature": {"kind": "pyscf"}})
    return ok


def iodata_case(run, rng):
    """from_iodata on a duck-typed IOData object: every shell keeps its data (angular momentum, centre, exponents, coefficients,
    kind, atom index) and reports the declared component conventions incl. the sign prefixes; the argument is not altered"""
    import copy
    from checks.common import install_iodata_standin, iodata_molecule
    from gbasis.wrappers import from_iodata
    install_iodata_standin()
    mol, specs = iodata_molecule(rng, 3)
    conv0 = copy.deepcopy(mol.obasis.conventions)
    data0 = [(s.exponents.copy(), s.coeffs.copy(), s.icenter, list(s.kinds), s.angmoms.copy()) for s in mol.obasis.shells]
    at0 = mol.atcoords.copy()
    run.case(("iodata", len(specs), tuple(s.l for s in specs)))
    run.count("from_iodata")
    rep = {"case": "iodata", "signature": {"kind": "iodata"}}
    basis = from_iodata(mol)
    ok = len(basis) == len(specs)
    for b, sp_, sh in zip(basis, specs, mol.obasis.shells):
        ok = ok and b.angmom == sp_.l and np.array_equal(b.coord, mol.atcoords[sh.icenter]) and np.array_equal(b.exps, sh.exponents) \
            and np.array_equal(b.coeffs, sh.coeffs) and b.coord_type == ("spherical" if sp_.sph else "cartesian") and b.icenter == sh.icenter \
            and [tuple(int(v) for v in c) for c in b.angmom_components_cart] == [tuple(c) for c in sp_.cart] \
            and (sp_.sphord is None or list(b.angmom_components_sph) == list(sp_.sphord))
    if not ok:
        run.violation("from_iodata does not preserve the shells / declared conventions of the IOData object", rep)
        return False
    same = mol.obasis.conventions == conv0 and np.array_equal(mol.atcoords, at0) and all(
        np.array_equal(s.exponents, d[0]) and np.array_equal(s.coeffs, d[1]) and s.icenter == d[2] and list(s.kinds) == d[3]
        and np.array_equal(s.angmoms, d[4]) for s, d in zip(mol.obasis.shells, data0))
    if not same:
        run.violation("from_iodata altered its argument", dict(rep, signature={"kind": "iodata-argument"}))
        return False
    # importing another molecule does not change what was imported before
    mol2, specs2 = iodata_molecule(rng, 3)
    from_iodata(mol2)
    for b, sp_ in zip(basis, specs):
        if [tuple(int(v) for v in c) for c in b.angmom_components_cart] != [tuple(c) for c in sp_.cart] or \
                (sp_.sphord is not None and list(b.angmom_components_sph) != list(sp_.sphord)):
            run.violation("after a second from_iodata call the shells of the first import report other component conventions",
                          dict(rep, signature={"kind": "iodata-second-import"}))
            return False
    return True


def check(run):
    rng = run.rng
    quick = run.tier == "quick"
    for _ in range(4 if quick else 30):
        iodata_case(run, rng)
    data = os.path.join(core.REPO, "tests")
    for f in sorted(os.listdir(data)):
        if f.endswith(".nwchem") or f.endswith(".gbs"):
            lines = open(os.path.join(data, f)).read().split("\n")
            parse_case(run, "nw" if f.endswith(".nwchem") else "gbs", lines, None, "corpus:" + f)
    for k in range(12 if quick else 150):
        desc = rand_desc(rng)
        for fmt in ("nw", "gbs"):
            for npre in (0, 1, 2, 7):
                if quick and (k + npre) % 2:
                    continue
                lines = render(rng, desc, fmt, npre)
                parse_case(run, fmt, lines, expected(desc, fmt == "gbs"), str(npre))
    # NWChem names the element on every shell line, so the shells of one element need not be contiguous (library sets with diffuse /
    # polarisation shells appended at the end of the block): every element must still get all of its shells, in file order
    for k in range(6 if quick else 60):
        desc = split_runs(rng, rand_desc(rng))
        lines = render(rng, desc, "nw", (0, 1, 2, 7)[k % 4])
        run.count("NWChem file with non-contiguous element runs")
        parse_case(run, "nw", lines, expected(desc, False), "runs")
    for k in range(4 if quick else 30):
        repeated_import_case(run, rng, "nw" if k % 2 else "gbs")
    for _ in range(10 if quick else 100):
        contractions_case(run, rng)
    for _ in range(4 if quick else 30):
        pyscf_case(run, rng)
    # malformed coordinate types must be rejected
    from gbasis.parsers import make_contractions
    bd = {"H": [(0, np.array([1.0]), np.array([[1.0]]))]}
    for bad in ("sph", ["cartesian", "spherical"], [], ("x",)):
        run.case(("mk-bad", str(bad)))
        try:
            make_contractions(bd, ["H"], np.zeros((1, 3)), bad)
            run.violation(f"make_contractions accepted coord_types={bad!r}", {"case": "contractions-bad", "bad": str(bad), "signature": {"kind": "make-contractions-validation"}})
        except (ValueError, TypeError):
            pass


def replay(run, rep):
    n0 = len(run.violations)
    if rep["case"] == "iodata":
        for k in range(10):
            iodata_case(run, run.rng)
    elif rep["case"] == "repeated-import":
        for k in range(6):
            repeated_import_case(run, run.rng, rep["format"])
    elif rep["case"] == "parse":
        lines = rep["text"].split("\n")[:-1]
        parse_case(run, rep["format"], lines, None, rep.get("tag", "?"))
        # content check against the model only (the description is not stored)
    else:
        for _ in range(20):
            contractions_case(run, run.rng)
    return len(run.violations) == n0
