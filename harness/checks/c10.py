"""C10 — the Cartesian-to-spherical matrix is the set of real regular solid harmonics."""
import itertools

import numpy as np

from gbv import core
from gbv.core import ModelError
from checks.common import *

RULE = ("every l from 0 to 10 (all m) with the default orders; every permutation of the Cartesian component order "
        "for l <= 2, 60 random ones for l = 3 (all 10! is out of reach; thorough: 2000) and random ones above; every order/sign "
        "pattern of the spherical labels for l <= 2 (thorough) / a random half (quick) and random ones above; a malformed stream "
        "(duplicates, wrong m, '--c1', 'c-1', 'c1-', 'c01', wrong length, non-strings, upper case); generate_transformation "
        "compared with the Lean model entry by entry (1e-13 relative) and, for malformed input, by rejection; left form = "
        "transpose of right form; overlap of a single spherical shell = identity; distinct by (l, cart order, label list)")
ASSUMPTIONS = ["the model's rational tables for l <= 10 are harmonic, orthonormal and correctly phased by kernel-checked theorems (GBProofs/Harmonics)"]


def default_cart(l):
    return [(x, y, l - x - y) for x in range(l, -1, -1) for y in range(l - x, -1, -1)]


def default_sph(l):
    if l == 1:
        return ["c1", "s1", "c0"]
    return [f"s{m}" for m in range(l, 0, -1)] + [f"c{m}" for m in range(l + 1)]


def one_case(run, l, cart, labels, expect_kind="valid"):
    from gbasis.spherical import generate_transformation

    cart_arr = np.array(cart, dtype=int).reshape(-1, 3)
    rep = {"case": "trans", "l": l, "cart": [list(map(int, c)) for c in cart], "labels": list(map(str, labels))}
    run.case(("trans", l, tuple(map(tuple, cart)), tuple(map(str, labels))),
             sample={"op": "generate_transformation", "l": l, "labels": list(map(str, labels))})
    run.count(f"l={l}")
    run.count("labels " + expect_kind)
    strs = all(isinstance(x, str) for x in labels)
    try:
        lab_list, cart_before = list(labels), cart_arr.copy()
        right = generate_transformation(l, cart_arr, lab_list, "right")
        impl = generate_transformation(l, cart_arr, lab_list, "left")          # the very same list object passed again
        if lab_list != list(labels) or not np.array_equal(cart_arr, cart_before):
            run.violation(f"generate_transformation altered its arguments: the label list is now {lab_list}",
                          dict(rep, signature={"kind": "trans-argument-altered"}))
            return False
        if not np.array_equal(impl, generate_transformation(l, cart_arr, tuple(labels), "left")):
            run.violation("generate_transformation gives another matrix for a label list passed a second time than for the same labels as a tuple",
                          dict(rep, signature={"kind": "trans-list-vs-tuple"}))
            return False
        iexc = None
    except (ValueError, TypeError) as e:
        iexc = "rejected"
    except Exception as e:
        iexc = "other:" + type(e).__name__
    mexc = None
    model = None
    if not strs or any((not x) or any(ch.isspace() for ch in x) for x in labels):
        mexc = "rejected"
    else:
        try:
            model = run.model.array(f"trans {l} {len(cart)} " + " ".join(str(int(v)) for c in cart for v in c)
                                    + f" {len(labels)} " + " ".join(labels))
        except ModelError:
            mexc = "rejected"
    if iexc is not None or mexc is not None:
        if iexc != mexc:
            run.violation(f"generate_transformation(l={l}, labels={list(labels)}): implementation "
                          f"{iexc or 'accepted'}, specification {mexc or 'accepts'}",
                          dict(rep, impl=iexc, spec=mexc, signature={"kind": "trans-validation"}))
            return False
        return True
    if not np.array_equal(impl, right.T):
        run.violation("left form is not the transpose of the right form", dict(rep, signature={"kind": "trans-left-right"}))
        return False
    return compare(run, "generate_transformation", impl, model, 1e-13 * np.abs(model) + 1e-15, rep, "trans")


def single_shell_overlap(run, l, rng):
    from gbasis.integrals.overlap import overlap_integral

    s = rand_shell(rng, l, [], sph=True, exp_hi=min(core.exp_cap(l), 100.0))
    ov = overlap_integral([s.make()])
    n = 2 * l + 1
    run.case(("sph-overlap", l, s.nseg, len(s.exps)))
    for m in range(s.nseg):
        blk = ov[m * n:(m + 1) * n, m * n:(m + 1) * n]
        if np.abs(blk - np.eye(n)).max() > 1e-8:
            run.violation(f"overlap of one spherical shell (l={l}) is not the identity within a segment: the "
                          "transformation is not orthonormal in the metric of the normalised Cartesian functions",
                          {"case": "sph_overlap", "basis": [s.describe()], "signature": {"kind": "trans-orthonormal"}})
            return False
    return True


def check(run):
    rng = run.rng
    quick = run.tier == "quick"
    for l in range(11):
        one_case(run, l, default_cart(l), default_sph(l), "default")
        single_shell_overlap(run, l, rng) if l <= (6 if quick else 10) else None
        # the shell's own properties give the default orders
        s = ShellSpec(l, [0, 0, 0], [1.0], [1.0]).make()
        rep = run.model.raw(f"defaults {l}").split()
        k = rep.index("|")
        mc = [tuple(int(v) for v in t.split(",")) for t in rep[1:k]]
        ms = rep[k + 1:]
        run.case(("defaults", l))
        if mc != [tuple(int(v) for v in row) for row in s.angmom_components_cart] or tuple(ms) != tuple(s.angmom_components_sph):
            run.violation(f"default component order of l={l} differs from the documented one",
                          {"case": "defaults", "l": l, "signature": {"kind": "default-order"}})
    for l in range(0, 11):
        cart = default_cart(l)
        if l <= 2:
            perms = list(itertools.permutations(cart))
        else:
            perms = []
            for _ in range((60 if l == 3 else 6) if quick else (2000 if l == 3 else 40)):
                p = list(cart)
                rng.shuffle(p)
                perms.append(p)
        for p in perms:
            one_case(run, l, list(p), default_sph(l), "cart-permuted")
        sph = default_sph(l)
        if l <= 2:
            pats = []
            for pm in itertools.permutations(sph):
                for signs in itertools.product(["", "-"], repeat=len(sph)):
                    pats.append([sg + x for sg, x in zip(signs, pm)])
            if quick:
                pats = rng.sample(pats, min(len(pats), 200))
        else:
            pats = []
            for _ in range(6 if quick else 40):
                pm = list(sph)
                rng.shuffle(pm)
                pats.append([rng.choice(["", "-"]) + x for x in pm])
        for pat in pats:
            one_case(run, l, cart, pat, "sph-permuted-signed")
    bad = [(1, ["c-1", "s1", "c0"]), (1, ["--c1", "s1", "c0"]), (1, ["c1-", "s1", "c0"]), (1, ["c01", "s1", "c0"]),
           (1, ["c1", "s1"]), (1, ["c1", "c1", "c0"]), (1, ["c1", "s1", "c2"]), (1, ["s-1", "c1", "c0"]),
           (1, ["C1", "s1", "c0"]), (1, ["c1", "s1", "c0", "c0"]), (1, ["s0", "s1", "c0"]), (1, ["c1", "s1", ""]),
           (2, ["s2", "s1", "c0", "c1", "c-2"]), (2, ["s2", "s1", "c0", "c1", "-c2", "c2"]),
           (2, ["s2", "s1", "c0", "c1", "c3"]), (3, ["s3", "s2", "s1", "c0", "c1", "c2", "s3"]),
           (1, ["c1", "s1", 0]), (0, ["-c0"]), (0, ["c0"]), (0, ["s0"]), (2, ["-s2", "-s1", "-c0", "-c1", "-c2"]),
           # one function both plain and negated while another one is missing; the same with both signs
           (1, ["s1", "c0", "-s1"]), (1, ["c1", "-c1", "c0"]), (2, ["s2", "s1", "c0", "c1", "-s2"]), (2, ["-c2", "s1", "c0", "c1", "c2"]),
           (3, ["s3", "s2", "s1", "c0", "c1", "-c1", "c3"]), (1, ["-c0", "c0", "s1"])]
    for l, labs in bad:
        one_case(run, l, default_cart(l), labs, "malformed-or-edge")
    # the caller rescales / edits the expansions and matrices it obtained (they are return values): later results must not change
    from checks.common import mutate_returned_spherical_objects
    nmod = mutate_returned_spherical_objects(4)
    run.count(f"returned helper objects modified by the caller: {nmod}")
    for l in range(5):
        one_case(run, l, default_cart(l), default_sph(l), "after-caller-modified-returned-objects")
        single_shell_overlap(run, l, rng)


def replay(run, rep):
    n0 = len(run.violations)
    if rep.get("case") == "trans":
        one_case(run, rep["l"], [tuple(c) for c in rep["cart"]], rep["labels"])
    elif rep.get("case") == "sph_overlap":
        from gbasis.integrals.overlap import overlap_integral
        s = specs_from(rep)[0]
        ov = overlap_integral([s.make()])
        n = 2 * s.l + 1
        return all(np.abs(ov[m * n:(m + 1) * n, m * n:(m + 1) * n] - np.eye(n)).max() <= 1e-8 for m in range(s.nseg))
    return len(run.violations) == n0
