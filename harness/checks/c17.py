"""C17 — integral arrays satisfy the positivity and Schwarz bounds of Gram matrices."""
import numpy as np

from gbv import core
from checks.common import *

RULE = ("bases of 1-5 shells (l 0..3, generalized, all coordinate types) with centres from coincident to well separated, "
        "exponents 0.05..50 (0.1..10 for the repulsion array), including nearly linearly dependent bases (shells duplicated "
        "with exponents scaled by 1 + 1e-3; two s shells 1e-5..1e-1 apart with a positive charge next to them); eigenvalues of the returned overlap / kinetic / -(point-charge) matrices and of the "
        "repulsion array viewed as a matrix over index pairs must be >= -1e-9 (1e-6) x the largest eigenvalue; |S_ab| <= 1; "
        "(ab|ab) >= 0 and (ab|cd)^2 <= (ab|ab)(cd|cd) elementwise; distinct by basis signature")
ASSUMPTIONS = ["eigenvalue slack of the floating-point matrices is the property's own (1e-9 / 1e-6 of the largest eigenvalue)"]


def gen(rng, n, lmax, lo, hi, dependent=False, spread=2.0):
    cs = []
    specs = []
    for i in range(n):
        s = rand_shell(rng, rng.randint(0, lmax), cs, exp_lo=lo, exp_hi=hi, nprim=rng.randint(1, 3), nseg=rng.randint(1, 2))
        if spread != 3.0:
            s = s.copy(center=[core.snap(x * spread / 3.0, 10) for x in s.center])
        specs.append(s)
    if dependent and specs:
        s = specs[0]
        specs.append(s.copy(exps=[core.snap(e * (1 + 1e-3)) for e in s.exps]))
    return specs


def one_case(run, specs, eri=False):
    from gbasis.integrals.kinetic_energy import kinetic_energy_integral
    from gbasis.integrals.overlap import overlap_integral
    from gbasis.integrals.point_charge import point_charge_integral
    basis = make_basis(specs)
    rep = {"case": "gram", "basis": core.describe_basis(specs), "eri": eri}
    run.case(("gram", eri) + sig(specs), sample={"op": "eigenvalues", "basis": core.describe_basis(specs)})
    count_basis(run, specs)
    ok = True
    S = overlap_integral(basis)
    T = kinetic_energy_integral(basis)
    pos = np.array([specs[0].center, [0.3, 0.1, -0.2], [4.0, -3.0, 2.0]])
    V = point_charge_integral(basis, pos, np.array([1.0, 2.5, 0.3]))
    for name, mat, sgn in [("overlap", S, 1), ("kinetic", T, 1)] + [(f"point-charge[{k}]", V[:, :, k], -1) for k in range(3)]:
        if not np.all(np.isfinite(mat)):
            run.violation(f"{name} matrix has non-finite elements", dict(rep, signature={"kind": "gram-finite"}))
            ok = False
            continue
        if np.abs(mat - mat.T).max() > 1e-9 * np.abs(mat).max():
            run.violation(f"{name} matrix not symmetric", dict(rep, signature={"kind": "gram-symmetric"}))
            ok = False
        ev = np.linalg.eigvalsh(sgn * (mat + mat.T) / 2)
        if ev.min() < -1e-9 * max(abs(ev.max()), 1e-300):
            run.violation(f"{name} matrix has the wrong definiteness: eigenvalue {sgn * ev.min()!r} (largest {sgn * ev.max()!r})",
                          dict(rep, signature={"kind": "gram-psd"}))
            ok = False
    if np.abs(S).max() > 1 + 1e-9:
        run.violation(f"overlap element of magnitude {np.abs(S).max()!r} > 1", dict(rep, signature={"kind": "gram-schwarz"}))
        ok = False
    if eri:
        from gbasis.integrals.electron_repulsion import electron_repulsion_integral
        g = electron_repulsion_integral(basis, notation="chemist")
        n = g.shape[0]
        if not np.all(np.isfinite(g)):
            run.violation(f"electron-repulsion array has {int((~np.isfinite(g)).sum())} non-finite elements of {g.size}",
                          dict(rep, signature={"kind": "eri-finite"}))
            return False
        G = g.reshape(n * n, n * n)
        d = np.einsum("ijij->ij", g)
        pmax = 2 * max(max(s.exps) for s in specs)
        qmin = 2 * min(min(s.exps) for s in specs)
        sigd = {"kind": "eri", "lc_plus_ld": 2 * max(s.l for s in specs), "pq_ratio": pmax / qmin}
        ev = np.linalg.eigvalsh((G + G.T) / 2)
        run.count("eri pair matrix")
        if ev.min() < -1e-6 * ev.max():
            run.violation(f"electron-repulsion pair matrix not positive semi-definite: eigenvalue {ev.min()!r} (largest {ev.max()!r})",
                          dict(rep, signature=sigd))
            ok = False
        if d.min() < -1e-6 * d.max():
            run.violation("(ab|ab) < 0", dict(rep, signature=sigd))
            ok = False
        dd = np.abs(d)
        if np.any(g ** 2 > dd[:, :, None, None] * dd[None, None, :, :] * (1 + 1e-6) + 1e-6 * d.max() ** 2 * 1e-6):
            run.violation("Schwarz inequality (ab|cd)^2 <= (ab|ab)(cd|cd) violated", dict(rep, signature=sigd))
            ok = False
    return ok


def many_charges_case(run, ncharge=220):
    """many positive point charges in one call for two nearly coincident contracted f shells (6 primitives) and an s shell: every
    slice must be negative semi-definite to 1e-9 of its largest eigenvalue, and equal to the single-charge result"""
    from gbasis.integrals.point_charge import point_charge_integral
    rng = run.rng
    exps = sorted([core.rand_exp(rng, 0.3, 8.0) for _ in range(6)], reverse=True)
    co = [[core.rand_coeff(rng)] for _ in range(6)]
    c = [core.snap(rng.uniform(-0.5, 0.5), 8) for _ in range(3)]
    specs = [ShellSpec(3, c, exps, co), ShellSpec(3, [c[0] + 1e-4, c[1] - 1e-4, c[2] + 2e-4], exps, co),
             ShellSpec(0, [c[0] + 0.8, c[1], c[2] - 0.5], [0.7], [[1.0]])]
    basis = make_basis(specs)
    pos = np.array([[core.snap(rng.uniform(-4, 4), 10) for _ in range(3)] for _ in range(ncharge)])
    q = np.array([core.snap(rng.uniform(0.5, 2.0), 8) for _ in range(ncharge)])
    V = point_charge_integral(basis, pos, q)
    rep = {"case": "many-charges", "basis": core.describe_basis(specs), "signature": {"kind": "gram-many-charges"}}
    run.case(("many-charges", ncharge) + sig(specs))
    run.count("point-charge matrices of %d positive charges computed in one call" % ncharge)
    for k in range(ncharge):
        m = V[:, :, k]
        ev = np.linalg.eigvalsh(-(m + m.T) / 2)
        if not np.all(np.isfinite(m)) or ev.min() < -1e-9 * max(abs(ev.max()), 1e-300):
            run.violation(f"point-charge matrix of positive charge {k} (of {ncharge} computed in one call) is not negative semi-definite: "
                          f"eigenvalue {-ev.min()!r} against largest magnitude {ev.max()!r}", rep)
            return False
    return True


def near_coincident_charge_case(run):
    """two nearly coincident s shells (separation R over 1e-5 .. 1e-1, three exponents) with one positive charge at the distance
    0.5 R, 1.06 R, 2 R off the axis of the pair: the Boys arguments of the diagonal and of the cross primitive pairs then lie within
    a factor 1.2 .. 4 of each other across p R^2 = 1e-10 .. 1e-2, so a Boys function that is not smooth there (a switch between two
    formulas) makes |V12| exceed sqrt(V11 V22); deterministic"""
    from gbasis.integrals.point_charge import point_charge_integral
    run.case(("near-coincident-charge",))
    for e in (1.0, 0.25, 6.0):
        for R in (1e-5, 2e-5, 6e-5, 2e-4, 6e-4, 2e-3, 6e-3, 2e-2, 6e-2, 1e-1):
            for ratio in (0.5, 1.06, 2.0):
                specs = [ShellSpec(0, [-R / 2, 0.0, 0.0], [e], [[1.0]], sph=True), ShellSpec(0, [R / 2, 0.0, 0.0], [e], [[1.0]], sph=True)]
                m = point_charge_integral(make_basis(specs), np.array([[0.0, ratio * R, 0.0]]), np.array([1.0]))[:, :, 0]
                run.count("nearly coincident s shells with a positive charge next to them")
                ev = np.linalg.eigvalsh(-(m + m.T) / 2)
                if not np.all(np.isfinite(m)) or ev.min() < -1e-9 * max(abs(ev.max()), 1e-300):
                    run.violation(f"point-charge matrix of a unit positive charge at (0, {ratio * R!r}, 0) for two s shells (exponent {e!r}) at "
                                  f"x = -/+ {R / 2!r} is not negative semi-definite: eigenvalue {-ev.min()!r} against largest magnitude "
                                  f"{ev.max()!r}", {"case": "near-coincident-charge", "basis": core.describe_basis(specs),
                                                    "charge_position": [0.0, ratio * R, 0.0], "signature": {"kind": "gram-near-coincident-charge"}})
                    return False
    return True


def check(run):
    rng = run.rng
    quick = run.tier == "quick"
    many_charges_case(run)
    near_coincident_charge_case(run)
    # positive charges given as arrays of other integer types (atomic numbers as uint8 / uint64 / int64): refused or negative semi-definite
    from gbasis.integrals.point_charge import point_charge_integral
    from checks.common import repr_variants
    sp_ = random_basis(rng, 2, 2, lmax=2, exp_hi=10.0)
    b_ = make_basis(sp_)
    pos_ = np.array([[0.3, 0.1, -0.2], [1.5, -1.0, 0.5]])
    for lab, z in repr_variants(np.array([1.0, 8.0])):
        run.case(("charges-repr", lab))
        run.count("positive charges as a %s array" % lab)
        try:
            V = point_charge_integral(b_, pos_, z)
        except TypeError:
            continue
        for k in range(2):
            ev = np.linalg.eigvalsh(-(V[:, :, k] + V[:, :, k].T) / 2)
            if not np.all(np.isfinite(V)) or ev.min() < -1e-9 * max(abs(ev.max()), 1e-300):
                run.violation(f"point-charge matrix of the positive charge {int(z[k])} given in a {lab} array is not negative semi-definite "
                              f"(eigenvalues of -V from {ev.min():.4g} to {ev.max():.4g})",
                              {"case": "gram", "basis": core.describe_basis(sp_), "eri": False, "signature": {"kind": "gram-charges-representation"}})
                break
    for k in range(8 if quick else 60):
        n = 1 + k % 5
        one_case(run, gen(rng, n, 3, 0.05, 50.0, dependent=(k % 3 == 0), spread=[0.0, 0.5, 3.0, 6.0][k % 4]))
    for k in range(2 if quick else 6):
        # s/p shells on three centres in general position: the pair matrix needs every recursion axis to be right
        cs = []
        specs = [rand_shell(rng, [1, 1, 0][(i + k) % 3], cs, nprim=1, nseg=1, sph=False, exp_lo=0.3, exp_hi=3.0) for i in range(3)]
        specs = [s_.copy(center=[core.snap(rng.uniform(-1.5, 1.5), 10) for _ in range(3)]) for s_ in specs]
        one_case(run, specs, eri=True)
    # uncontracted shells carrying several contraction columns (one primitive, M >= 2 with different coefficients) next to
    # contracted and single-column shells: every quartet must scale each function consistently, or the pair matrix is no Gram matrix
    for k in range(2 if quick else 6):
        s1 = ShellSpec(k % 2, [0.0, 0.0, 0.0], [core.rand_exp(rng, 0.5, 3.0)], [[1.0, 3.0]] if k % 2 == 0 else [[0.5, -2.0, 1.5]], sph=bool(k % 3 == 1))
        s2 = ShellSpec(1, [0.4, -0.7, 0.9], [core.rand_exp(rng, 0.5, 3.0)], [[1.0]], sph=bool(k % 2))
        extra = [ShellSpec(0, [-0.6, 0.3, 0.2], [2.0, 0.6], [[0.4], [0.7]])] if k >= 2 else []
        one_case(run, [s1, s2] + extra, eri=True)
        run.count("single-primitive shells with several contraction columns")
    # well separated atoms carrying only tight shells (Gaussian product factors that underflow to exactly zero), with a diffuse shell
    # on one of them and without
    for k, (dist, e_lo, e_hi) in enumerate([(14.0, 8.0, 10.0), (40.0, 0.9, 1.5)] if quick else
                                            [(14.0, 8.0, 10.0), (40.0, 0.9, 1.5), (25.0, 3.0, 10.0), (14.5, 9.0, 10.0), (60.0, 0.5, 1.0), (13.5, 9.5, 10.0)]):
        d = np.array([0.6, -0.5, 0.62])
        d = d / np.linalg.norm(d) * dist
        specs = []
        for ia, c in enumerate(([0.1, -0.2, 0.3], [float(x) for x in np.array([0.1, -0.2, 0.3]) + d])):
            for l in ((0, 1) if k % 2 == 0 else (1, 0)):
                specs.append(ShellSpec(l, c, [core.rand_exp(rng, e_lo, e_hi)], [[1.0]], sph=bool((k + l) % 2)))
        if k % 2 == 1:
            specs.append(ShellSpec(0, [0.1, -0.2, 0.3], [0.1], [[1.0]]))
        one_case(run, specs, eri=True)
        run.count("well separated atoms with tight shells only (%g bohr)" % dist)
    # contracted shells holding a tight and a diffuse primitive on well separated atoms: the tight-tight product factor underflows to
    # exactly 0 while the diffuse-diffuse one is 1e-3 .. 1e-4, with a third shell listed first (so that the far pair also occurs as
    # the second pair of a quartet)
    from checks.common import far_diffuse_pair
    for k, R_ in enumerate((13.0, 13.6) if quick else (13.0, 13.6, 15.0, 12.95, 17.0, 20.0)):
        pair = far_diffuse_pair(rng, 0, k % 2, R_, tight=True)
        pair = [p_.copy(exps=[p_.exps[0], core.snap(0.06 + 0.01 * (k % 3), 10)]) for p_ in pair]
        third = ShellSpec(0, [x + 0.7 for x in pair[0].center], [core.rand_exp(rng, 0.3, 1.5)], [[1.0]])
        one_case(run, ([third] + pair) if k % 3 != 2 else (pair + [third]), eri=True)
        run.count("contracted tight+diffuse shells on well separated atoms (%g bohr)" % R_)
    # generalized shells with l >= 1 (two or three columns): the quartets (aa|aa), (ab|ab) with identical pairs carry the diagonal of
    # the pair matrix
    for k in range(3 if quick else 12):
        l1, l2 = [(1, 1), (1, 0), (1, 1), (2, 1), (1, 2), (1, 1)][k % 6]
        s1 = rand_shell(rng, l1, [], nprim=2, nseg=2 + k % 2, sph=bool(k % 2), exp_lo=0.3, exp_hi=4.0).copy(via_update=False)
        s2 = rand_shell(rng, l2, [], nprim=2, nseg=2 if l2 >= 1 else 1, sph=bool((k // 2) % 2), exp_lo=0.3, exp_hi=4.0).copy(
            center=[core.snap(rng.uniform(-1.2, 1.2), 8) for _ in range(3)], via_update=False)
        one_case(run, [s1, s2], eri=True)
        run.count("generalized shells with l >= 1 (ERI pair matrix)")
    # all-s bases of generalized shells with a 1s-like and a 2s-like column (coefficients of mixed sign: a radial node): contracted
    # (ss|ss) integrals of either sign occur, and the pair matrix is a Gram matrix all the same
    for k in range(6 if quick else 24):
        specs = []
        for i in range(3):
            e1, e2 = core.rand_exp(rng, 2.0, 8.0), core.rand_exp(rng, 0.15, 0.6)
            c = [core.snap(rng.uniform(-0.8, 0.8), 8) for _ in range(3)]
            co = [[core.snap(rng.uniform(0.3, 1.0), 8), -core.snap(rng.uniform(0.2, 0.6), 8)],
                  [core.snap(rng.uniform(0.2, 0.8), 8), core.snap(rng.uniform(0.6, 1.2), 8)]]
            specs.append(ShellSpec(0, c, [e1, e2], co, sph=bool((i + k) % 2)))
        one_case(run, specs, eri=True)
        run.count("all-s generalized shells with a radial node")
    from checks.common import mutate_returned_spherical_objects
    mutate_returned_spherical_objects(3)
    one_case(run, [s_.copy(sph=True) for s_ in gen(rng, 3, 3, 0.3, 5.0, dependent=False, spread=1.0)])
    run.count("after the caller modified objects returned by gbasis.spherical")
    for k in range(2 if quick else 10):
        n = 1 + k % (2 if quick else 3)
        one_case(run, gen(rng, n, 1 if quick else 2, 0.1, 10.0, dependent=(k % 2 == 0 and not quick), spread=[0.0, 2.0, 4.0][k % 3]), eri=True)


def replay(run, rep):
    n0 = len(run.violations)
    if rep.get("case") == "many-charges":
        many_charges_case(run)
        return len(run.violations) == n0
    if rep.get("case") == "near-coincident-charge":
        near_coincident_charge_case(run)
        return len(run.violations) == n0
    one_case(run, specs_from(rep), rep.get("eri", False))
    return len(run.violations) == n0
