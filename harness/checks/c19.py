"""C19 — calls are pure: arguments, shells and global numerical state are never changed."""
import copy
import itertools
import os
import tempfile

import numpy as np

from gbv import core
from checks.common import *
from checks import pubfuncs as pf

RULE = ("(T) static effect extraction over every function of the gbasis package (mutating statements with alias classification, "
        "np.seterr protection) must satisfy the hypothesis of the Lean history theorem (obligation GBProofs.Obl.Effects); "
        "(C) monitored histories: random sequences of 1-30 public integral / evaluation / density / import calls, valid and "
        "deliberately invalid, on shared basis / array / list objects, interleaved with shell-parameter updates followed by "
        "assign_norm_cont; around every call bitwise snapshots of every argument (arrays, lists, every array attribute of every "
        "shell) and of numpy.geterr() are compared; a call repeated later in the history must return bitwise the same array; "
        "every construct_array_contraction result must not share memory with any argument or shell array; after a parameter "
        "update + renormalisation the shell is unit-normalised; distinct by (history length, call kinds)")
ASSUMPTIONS = ["bitwise comparison of numpy buffers and Python lists; object identity of shells"]

SHELL_ATTRS = ["_coord", "_exps", "_coeffs", "norm_cont"]


def global_state():
    """process-wide settings that a call must leave alone (besides numpy.geterr(), which is reported separately): scipy's special-function
    error handling, numpy's print options and error callback, the state of numpy's and Python's global random generators, the warnings
    filters, the working directory"""
    import hashlib
    import os as _os
    import random as _random
    import warnings as _warnings
    from scipy import special as _special
    return {
        "scipy.special.geterr": tuple(sorted(_special.geterr().items())),
        "numpy.printoptions": repr(sorted(np.get_printoptions().items(), key=lambda kv: kv[0])),
        "numpy.geterrcall": repr(np.geterrcall()),
        "numpy.random state": hashlib.sha1(np.random.get_state()[1].tobytes()).hexdigest(),
        "random state": hashlib.sha1(repr(_random.getstate()).encode()).hexdigest(),
        "warnings.filters": repr(_warnings.filters)[:2000],
        "cwd": _os.getcwd(),
    }


def snapshot_basis(basis):
    return [(s.angmom, s.coord_type, s.icenter, [np.array(getattr(s, a), copy=True) for a in SHELL_ATTRS]) for s in basis]


def same_basis(basis, snap):
    if len(basis) != len(snap):
        return False
    for s, (l, ct, ic, arrs) in zip(basis, snap):
        if s.angmom != l or s.coord_type != ct or s.icenter != ic:
            return False
        for a, old in zip(SHELL_ATTRS, arrs):
            cur = getattr(s, a)
            if cur.shape != old.shape or cur.dtype != old.dtype or cur.tobytes() != old.tobytes():
                return False
    return True


def snap_obj(x):
    if isinstance(x, np.ndarray):
        return ("nd", x.shape, str(x.dtype), x.tobytes(), bool(x.flags.writeable))
    if isinstance(x, (list, tuple)):
        return (type(x).__name__, tuple(snap_obj(e) for e in x))
    if isinstance(x, dict):
        return ("dict", tuple((k, snap_obj(v)) for k, v in x.items()))
    return ("val", repr(x))


class Shared:
    """the shared objects of one history"""

    def __init__(self, rng):
        cs = []
        self.specs = [rand_shell(rng, rng.randint(0, 2), cs, nprim=rng.randint(1, 3), nseg=rng.randint(1, 2), exp_lo=0.1, exp_hi=10.0)
                      for _ in range(rng.randint(1, 3))]
        self.basis = make_basis(self.specs)
        n = sum(s.size for s in self.specs)
        self.n = n
        self.points = np.array([[core.snap(rng.uniform(-2, 2), 8) for _ in range(3)] for _ in range(3)])
        self.gamma = random_symmetric(rng, n, psd=True)
        self.charges = np.array([1.0, 2.0])
        self.cpos = np.array([[0.5, 0.25, -1.0], [1.5, -0.75, 0.5]])
        self.origin = np.array([0.25, -0.5, 0.125])
        self.orders = np.array([[1, 0, 0], [0, 2, 1]])
        self.dorder = np.array([1, 0, 2])
        self.T = random_transform(rng, n)
        self.ctypes_list = ["cartesian"] * 1
        self.bdict = {"H": [(0, np.array([1.0, 0.5]), np.array([[1.0], [0.5]])), (1, np.array([0.8]), np.array([[1.0]]))]}
        self.atoms = ["H", "H"]
        self.coords = np.array([[0.0, 0.0, 0.0], [0.0, 0.0, 1.4]])
        self.ct2 = ["cartesian", "spherical", "c", "p"]
        self.ct_tuple = ("p", "c", "spherical", "cartesian")
        self.badgamma = np.ones((n + 1, n + 1))
        self.badcharges = np.array(["a", "b"])

    def objects(self):
        return [self.points, self.gamma, self.charges, self.cpos, self.origin, self.orders, self.dorder, self.T, self.bdict, self.atoms,
                self.coords, self.ct2, self.ct_tuple, self.badgamma, self.badcharges]


def catalogue(sh):
    from gbasis.evals import density as D
    from gbasis.evals import stress_tensor as ST
    from gbasis.evals.electrostatic_potential import electrostatic_potential
    from gbasis.evals.eval import evaluate_basis
    from gbasis.evals.eval_deriv import evaluate_deriv_basis
    from gbasis.integrals.angular_momentum import angular_momentum_integral
    from gbasis.integrals.electron_repulsion import electron_repulsion_integral
    from gbasis.integrals.kinetic_energy import kinetic_energy_integral
    from gbasis.integrals.moment import moment_integral
    from gbasis.integrals.momentum import momentum_integral
    from gbasis.integrals.nuclear_electron_attraction import nuclear_electron_attraction_integral
    from gbasis.integrals.overlap import overlap_integral
    from gbasis.integrals.overlap_asymm import overlap_integral_asymmetric
    from gbasis.integrals.point_charge import point_charge_integral
    from gbasis.parsers import make_contractions
    b = sh.basis
    calls = {
        "overlap": lambda: overlap_integral(b),
        "overlap_T": lambda: overlap_integral(b, transform=sh.T),
        "overlap_screen": lambda: overlap_integral(b, tol_screen=1e-4),
        "overlap_asym": lambda: overlap_integral_asymmetric(b, b[:1], transform_two=None),
        "kinetic": lambda: kinetic_energy_integral(b),
        "momentum": lambda: momentum_integral(b),
        "angmom": lambda: angular_momentum_integral(b, transform=sh.T),
        "moment": lambda: moment_integral(b, sh.origin, sh.orders),
        "pointcharge": lambda: point_charge_integral(b, sh.cpos, sh.charges),
        "nuclear": lambda: nuclear_electron_attraction_integral(b, sh.cpos, sh.charges),
        "eri": lambda: electron_repulsion_integral(b[:1], notation="chemist"),
        "eval": lambda: evaluate_basis(b, sh.points),
        "evalderiv": lambda: evaluate_deriv_basis(b, sh.points, sh.dorder),
        "evalderiv_direct": lambda: evaluate_deriv_basis(b, sh.points, np.array([0, 2, 1]), deriv_type="direct"),
        "density": lambda: D.evaluate_density(sh.gamma, b, sh.points),
        "gradient": lambda: D.evaluate_density_gradient(sh.gamma, b, sh.points),
        "laplacian": lambda: D.evaluate_density_laplacian(sh.gamma, b, sh.points, deriv_type="direct"),
        "hessian": lambda: D.evaluate_density_hessian(sh.gamma, b, sh.points),
        "posdef": lambda: D.evaluate_posdef_kinetic_energy_density(sh.gamma, b, sh.points),
        "genke": lambda: D.evaluate_general_kinetic_energy_density(sh.gamma, b, sh.points, 0.25),
        "derivdensity": lambda: D.evaluate_deriv_density(np.array([2, 1, 0]), sh.gamma, b, sh.points),
        "stress": lambda: ST.evaluate_stress_tensor(sh.gamma, b, sh.points, alpha=0.5, beta=1.5),
        "force": lambda: ST.evaluate_ehrenfest_force(sh.gamma, b, sh.points, alpha=0.25, beta=0.0),
        "ehess": lambda: ST.evaluate_ehrenfest_hessian(sh.gamma, b, sh.points, alpha=1, beta=0.5, symmetric=True),
        "esp": lambda: electrostatic_potential(b, sh.gamma, sh.points, sh.cpos, sh.charges, threshold_dist=0.5),
        "make_contractions_list": lambda: [s.coord_type for s in make_contractions(sh.bdict, sh.atoms, sh.coords, sh.ct2)],
        "make_contractions_tuple": lambda: [s.coord_type for s in make_contractions(sh.bdict, sh.atoms, sh.coords, sh.ct_tuple)],
        "make_contractions_str": lambda: [s.angmom for s in make_contractions(sh.bdict, sh.atoms, sh.coords, "spherical")],
        # deliberately invalid requests
        "bad_esp_charges": lambda: electrostatic_potential(b, sh.gamma, sh.points, sh.cpos, sh.badcharges),
        "bad_esp_gamma": lambda: electrostatic_potential(b, sh.badgamma, sh.points, sh.cpos, sh.charges),
        "bad_density_gamma": lambda: D.evaluate_density(sh.badgamma, b, sh.points),
        "bad_evalderiv": lambda: evaluate_deriv_basis(b, sh.points, np.array([3, 0, 0]), deriv_type="direct"),
        "bad_moment": lambda: moment_integral(b, sh.origin, sh.orders.astype(float)),
        "bad_points": lambda: evaluate_basis(b, sh.points[:, :2]),
        "bad_make_contractions": lambda: make_contractions(sh.bdict, sh.atoms, sh.coords, ["cartesian"]),
        "bad_pointcharge": lambda: point_charge_integral(b, sh.cpos, sh.charges[:1]),
        "bad_screen": lambda: overlap_integral(b, tol_screen=True),
    }
    return calls


def history_independence(run, sh, trace):
    """the value returned depends only on the arguments: a shell whose parameters were updated (and renormalised) must give the
    same arrays as a shell constructed afresh with the same parameters"""
    from gbasis.contractions import GeneralizedContractionShell as GCS
    from gbasis.evals.eval import evaluate_basis
    from gbasis.integrals.kinetic_energy import kinetic_energy_integral
    from gbasis.integrals.overlap import overlap_integral
    from gbasis.integrals.point_charge import point_charge_integral
    fresh = [type(s)(s.angmom, np.array(s.coord), np.array(s.coeffs), np.array(s.exps), s.coord_type) for s in sh.basis]
    fs = [("overlap_integral", overlap_integral), ("kinetic_energy_integral", kinetic_energy_integral),
          ("evaluate_basis", lambda b: evaluate_basis(b, sh.points)),
          ("point_charge_integral", lambda b: point_charge_integral(b, sh.cpos, sh.charges))]
    ok = True
    for fname, f in fs:
        r_hist, r_new = f(sh.basis), f(fresh)
        run.count("history-independence " + fname)
        if r_hist.shape != r_new.shape or np.abs(r_hist - r_new).max() > 1e-10 * max(1.0, np.abs(r_new).max()):
            run.violation(f"{fname} on a shell whose parameters were updated and renormalised differs from the same call on a shell "
                          f"constructed with the same parameters (max deviation {np.abs(r_hist - r_new).max():.3e}): the result depends on the "
                          "history of the object, not only on the arguments",
                          {"case": "history", "trace": list(trace), "function": fname, "signature": {"kind": "purity-history"}})
            ok = False
    return ok


def result_bytes(r):
    if isinstance(r, np.ndarray):
        return ("nd", r.shape, r.tobytes())
    return ("val", repr(r))


def history(run, length, seed_tag):
    rng = run.rng
    sh = Shared(rng)
    calls = catalogue(sh)
    names = list(calls)
    first_results = {}
    trace = []
    err0 = dict(np.geterr())
    glob0 = BASELINE.get("state") or global_state()      # the state of the process before the first library call of this check
    ok = True
    epoch = 0
    for step in range(length):
        if rng.random() < 0.12:
            # parameter update followed by renormalisation
            s = rng.choice(sh.basis)
            kind = rng.choice(["exps", "exps", "coeffs", "coord", "exps-in-place", "coeffs-in-place", "norm_cont-by-hand"])
            if kind in ("exps-in-place", "coeffs-in-place") and not (s.exps.flags.writeable and s.coeffs.flags.writeable):
                run.violation("an array held by a shell has become read-only during the history: a valid in-place parameter update is refused",
                              {"case": "history", "trace": list(trace), "signature": {"kind": "purity-readonly"}})
                return False
            if kind == "exps-in-place":
                s.exps *= np.array([core.snap(rng.uniform(0.6, 1.6), 6) for _ in range(s.exps.size)])       # edit inside the array held
            elif kind == "coeffs-in-place":
                s.coeffs[:, rng.randrange(s.coeffs.shape[1])] *= core.snap(rng.choice([-1, 1]) * rng.uniform(0.5, 50.0), 6)
            elif kind == "norm_cont-by-hand":
                s.norm_cont = np.ones_like(s.norm_cont)
            elif kind == "exps":
                s.exps = s.exps * np.array([core.snap(rng.uniform(0.6, 1.6), 6) for _ in range(s.exps.size)])
            elif kind == "coeffs":
                s.coeffs = s.coeffs * np.array([[core.snap(rng.uniform(0.5, 1.5), 6)] for _ in range(s.coeffs.shape[0])])
            else:
                s.coord = s.coord + np.array([core.snap(rng.uniform(-0.5, 0.5), 6) for _ in range(3)])
            s.assign_norm_cont()
            from gbasis.integrals.overlap import overlap_integral
            ov = overlap_integral([s])
            trace.append("update(%s)+assign_norm_cont" % kind)
            epoch += 1
            ok = history_independence(run, sh, trace) and ok
            if np.abs(np.diag(ov) - 1).max() > 1e-8:
                run.violation("after a parameter update followed by assign_norm_cont the shell is not unit-normalised",
                              {"case": "renormalise", "trace": trace, "signature": {"kind": "renormalise"}})
                ok = False
            continue
        name = rng.choice(names)
        trace.append(name)
        bsnap = snapshot_basis(sh.basis)
        osnap = [snap_obj(o) for o in sh.objects()]
        try:
            res = calls[name]()
            outcome = "returned"
        except (ValueError, TypeError) as e:
            res, outcome = None, "raised " + type(e).__name__
        except Exception as e:
            res, outcome = None, "raised other:" + type(e).__name__
        run.count("call " + ("invalid" if name.startswith("bad_") else "valid"))
        run.count("outcome " + outcome.split(":")[0])
        rep = {"case": "history", "trace": list(trace), "seed_tag": seed_tag, "call": name, "outcome": outcome}
        if not same_basis(sh.basis, bsnap):
            run.violation(f"call #{step} ({name}, {outcome}) modified a shell of the basis passed to it", dict(rep, signature={"kind": "purity-shell"}))
            ok = False
        now = [snap_obj(o) for o in sh.objects()]
        if now != osnap:
            k = [i for i, (a, b) in enumerate(zip(now, osnap)) if a != b]
            run.violation(f"call #{step} ({name}, {outcome}) modified an argument object (object #{k})", dict(rep, signature={"kind": "purity-argument"}))
            ok = False
        if global_state() != glob0:
            g1 = global_state()
            run.violation(f"call #{step} ({name}, {outcome}) changed process-wide state other than numpy's error settings: "
                          + "; ".join(f"{k}: {glob0[k]!r} -> {g1[k]!r}" for k in glob0 if glob0[k] != g1[k])[:600],
                          {"case": "history", "trace": list(trace), "signature": {"kind": "purity-global-state"}})
            ok = False
            glob0 = g1
        if dict(np.geterr()) != err0:
            run.violation(f"call #{step} ({name}, {outcome}) changed numpy's floating-point error settings: {np.geterr()} (were {err0})",
                          dict(rep, signature={"kind": "purity-errstate"}))
            np.seterr(**err0)
            ok = False
        if outcome == "raised other:" + outcome.split(":")[-1] and name.startswith("bad_"):
            pass    # the kind of exception on invalid input is not part of this property
        if outcome == "returned":
            key = (name, epoch)
            rb = result_bytes(res)
            if key in first_results and first_results[key] != rb:
                run.violation(f"call #{step} ({name}) returned a different array than the same call earlier in the history",
                              dict(rep, signature={"kind": "purity-repeat"}))
                ok = False
            first_results.setdefault(key, rb)
    run.case(("history", length, tuple(sorted(set(trace)))), sample={"history": trace[:12], "length": length})
    return ok


def freshness(run):
    """construct_array_contraction results must not alias arguments or shell arrays"""
    from gbasis.evals.eval import Eval
    from gbasis.evals.eval_deriv import EvalDeriv
    from gbasis.integrals.angular_momentum import AngularMomentumIntegral
    from gbasis.integrals.electron_repulsion import ElectronRepulsionIntegral
    from gbasis.integrals.kinetic_energy import KineticEnergyIntegral
    from gbasis.integrals.moment import Moment
    from gbasis.integrals.momentum import MomentumIntegral
    from gbasis.integrals.overlap import Overlap
    from gbasis.integrals.overlap_asymm import OverlapAsymmetric
    from gbasis.integrals.point_charge import PointChargeIntegral
    rng = run.rng
    ok = True
    for trial in range(3):
        sa, sb = pair_specs(rng, rng.randint(0, 2), rng.randint(0, 2), nprim=2, nseg=2)
        sa, sb = sa.copy(center=sb.center) if trial == 2 else sa, sb
        a, b = sa.make(), sb.make()
        pts = np.array([[0.1, 0.2, 0.3], [1.0, -1.0, 0.5]])
        q = np.array([1.0, -1.0])
        origin = np.zeros(3)
        orders = np.array([[0, 0, 0], [1, 1, 0]])
        items = [("Overlap", lambda: Overlap.construct_array_contraction(a, b)),
                 ("Overlap(screened)", lambda: Overlap.construct_array_contraction(a, b, tol_screen=0.9999)),
                 ("OverlapAsymmetric", lambda: OverlapAsymmetric.construct_array_contraction(a, b)),
                 ("KineticEnergyIntegral", lambda: KineticEnergyIntegral.construct_array_contraction(a, b)),
                 ("MomentumIntegral", lambda: MomentumIntegral.construct_array_contraction(a, b)),
                 ("AngularMomentumIntegral", lambda: AngularMomentumIntegral.construct_array_contraction(a, b)),
                 ("Moment", lambda: Moment.construct_array_contraction(a, b, origin, orders)),
                 ("PointChargeIntegral", lambda: PointChargeIntegral.construct_array_contraction(a, b, pts, q)),
                 ("ElectronRepulsionIntegral", lambda: ElectronRepulsionIntegral.construct_array_contraction(a, b, a, b)),
                 ("Eval", lambda: Eval.construct_array_contraction(a, pts)),
                 ("EvalDeriv", lambda: EvalDeriv.construct_array_contraction(a, pts, np.array([1, 0, 1])))]
        held = [getattr(s, at) for s in (a, b) for at in SHELL_ATTRS] + [pts, q, origin, orders]
        for name, f in items:
            r1 = f()
            r2 = f()
            run.case(("fresh", name, trial))
            run.count("freshness " + name)
            if any(np.shares_memory(r1, h) for h in held) or np.shares_memory(r1, r2):
                run.violation(f"{name}.construct_array_contraction returns an array sharing memory with an argument, a shell array or an earlier result "
                              "(the assembly code multiplies it in place)",
                              {"case": "fresh", "function": name, "basis": core.describe_basis([sa, sb]), "signature": {"kind": "purity-fresh"}})
                ok = False
            r1 *= 0.0     # what the assembly code does: must not disturb later results
            r3 = f()
            if r3.tobytes() != r2.tobytes():
                run.violation(f"{name}.construct_array_contraction: modifying a returned array in place changes later results",
                              {"case": "fresh", "function": name, "basis": core.describe_basis([sa, sb]), "signature": {"kind": "purity-fresh"}})
                ok = False
    return ok


def helper_freshness(run):
    """the public helpers of gbasis.spherical return fresh objects: a caller that edits what it received does not change what a
    later call (its own or the library's) gets"""
    from gbasis.spherical import generate_transformation, real_solid_harmonic
    ok = True
    for l in range(4):
        cart = np.array([(x, y, l - x - y) for x in range(l, -1, -1) for y in range(l - x, -1, -1)])
        sph = tuple(["c1", "s1", "c0"] if l == 1 else [f"s{m}" for m in range(l, 0, -1)] + [f"c{m}" for m in range(l + 1)])
        run.case(("helper-fresh", l))
        run.count("freshness of gbasis.spherical helpers")
        d1 = real_solid_harmonic(l, 0)
        ref = dict(d1)
        for k in list(d1):
            d1[k] = d1[k] * 3.0
        if dict(real_solid_harmonic(l, 0)) != ref:
            run.violation(f"real_solid_harmonic({l}, 0) returns an object shared between calls: editing one result changes the next",
                          {"case": "helper-fresh", "l": l, "function": "real_solid_harmonic", "signature": {"kind": "purity-fresh-helper"}})
            ok = False
        t1 = generate_transformation(l, cart, sph, "left")
        ref = t1.copy()
        try:
            t1 *= 3.0
        except ValueError:
            pass
        t2 = generate_transformation(l, cart, sph, "left")
        if np.shares_memory(t1, t2) or not np.array_equal(t2, ref):
            run.violation(f"generate_transformation(l={l}) returns an array shared between calls: editing one result changes the next",
                          {"case": "helper-fresh", "l": l, "function": "generate_transformation", "signature": {"kind": "purity-fresh-helper"}})
            ok = False
    return ok


def as_constructed(run):
    rng = run.rng
    from gbasis.integrals.overlap import overlap_integral
    for l in range(0, 5):
        s = rand_shell(rng, l, [], exp_hi=50.0)
        sh = s.make()
        run.case(("constructed", l, s.sph))
        if np.abs(np.diag(overlap_integral([sh])) - 1).max() > 1e-8:
            run.violation("a freshly constructed shell is not unit-normalised", {"case": "constructed", "basis": [s.describe()], "signature": {"kind": "renormalise"}})


def aliasing_histories(run, n=4):
    """shell objects that share arrays — shallow copies of a shell, the shells `make_contractions` builds for one atom (one coordinate
    array) — : a parameter update of one of them through the public setters, followed by assign_norm_cont, must not change the
    others, nor the arrays the caller passed in, and the results of calls on the untouched objects must stay bitwise the same"""
    import copy
    from gbasis.integrals.kinetic_energy import kinetic_energy_integral
    from gbasis.integrals.overlap import overlap_integral
    from gbasis.parsers import make_contractions
    rng = run.rng
    ok = True
    for k in range(n):
        s = rand_shell(rng, rng.randint(0, 2), [], nprim=rng.randint(2, 3), nseg=rng.randint(1, 2), exp_lo=0.1, exp_hi=10.0)
        a = s.make()
        b = copy.copy(a)
        before = snapshot_basis([a])
        r_ov, r_ke = overlap_integral([a]).tobytes(), kinetic_energy_integral([a]).tobytes()
        kind = ["exps", "coeffs", "coord"][k % 3]
        if kind == "exps":
            b.exps = b.exps * 1.44
        elif kind == "coeffs":
            b.coeffs = b.coeffs * np.linspace(0.5, 1.5, b.coeffs.shape[0])[:, None]
        else:
            b.coord = b.coord + np.array([0.5, -0.25, 1.0])
        b.assign_norm_cont()
        run.case(("alias-copy", kind, k))
        run.count("aliasing: shallow copy updated (" + kind + ")")
        if not same_basis([a], before) or overlap_integral([a]).tobytes() != r_ov or kinetic_energy_integral([a]).tobytes() != r_ke:
            run.violation(f"updating ({kind}) and renormalising a shallow copy of a shell changed the original shell object",
                          {"case": "alias", "kind": kind, "basis": [s.describe()], "signature": {"kind": "purity-alias"}})
            ok = False
        # shells of one atom from make_contractions share the atom's coordinate array
        bd = {"H": [(0, np.array([1.2, 0.4]), np.array([[1.0], [0.5]])), (1, np.array([0.8]), np.array([[1.0]])), (2, np.array([0.6]), np.array([[1.0]]))]}
        coords = np.array([[0.0, 0.25, -0.5], [0.5, 0.0, 1.4]])
        coords0 = coords.copy()
        basis = make_contractions(bd, ["H", "H"], coords, "spherical")
        snap = snapshot_basis(basis)
        basis[1].coord = basis[1].coord + np.array([0.25, 0.5, -0.125])        # move one shell through the setter
        basis[1].assign_norm_cont()
        run.case(("alias-make-contractions", k))
        run.count("aliasing: make_contractions shells, one moved")
        others_ok = all(same_basis([basis[i]], [snap[i]]) for i in range(len(basis)) if i != 1)
        if not others_ok or coords.tobytes() != coords0.tobytes():
            run.violation("moving one shell through the `coord` setter changed other shells of the basis or the caller's coordinate array",
                          {"case": "alias", "kind": "make_contractions-coord", "signature": {"kind": "purity-alias"}})
            ok = False
    return ok


def rejected_updates(run, n=3):
    """parameter updates that the setters must reject (wrong number of coefficient rows, wrong number of exponents, a centre that is
    not a 3-vector, a negative angular momentum, an unknown coordinate type): they raise, the shell is bitwise unchanged, and the
    calls made before give the same arrays afterwards"""
    from gbasis.integrals.overlap import overlap_integral
    rng = run.rng
    ok = True
    for k in range(n):
        s = rand_shell(rng, rng.randint(0, 2), [], nprim=3, nseg=rng.randint(1, 2), exp_lo=0.1, exp_hi=10.0)
        a = s.make()
        before = snapshot_basis([a])
        ov = overlap_integral([a]).tobytes()
        attempts = [("coeffs", np.array([0.6, 0.4])), ("coeffs", np.ones((1, 3))), ("exps", np.array([1.0, 2.0])), ("coord", np.array([0.0, 1.0])),
                    ("angmom", -1), ("coord_type", "polar"), ("coeffs", np.ones((2, 2, 2))), ("exps", np.array([[1.0, 2.0, 3.0]]))]
        for attr, val in attempts:
            run.case(("rejected-update", attr, str(np.shape(val)), k))
            run.count("rejected update of " + attr)
            try:
                setattr(a, attr, val)
                outcome = "accepted"
            except (ValueError, TypeError):
                outcome = "raised"
            if outcome == "accepted":
                # an update the setter accepts is not this function's business; restore a fresh shell for the next attempt
                a = s.make()
                before = snapshot_basis([a])
                continue
            try:
                same = same_basis([a], before) and overlap_integral([a]).tobytes() == ov
            except Exception:
                same = False
            if not same:
                run.violation(f"a rejected update of `{attr}` (shape {np.shape(val)}) left the shell modified: later calls on it fail or differ",
                              {"case": "rejected-update", "attribute": attr, "basis": [s.describe()], "signature": {"kind": "purity-rejected-update"}})
                ok = False
                a = s.make()
                before = snapshot_basis([a])
    return ok


def import_histories(run, n=4):
    """import calls in a history: parse, use / edit the result, parse again, rewrite the file, parse again (see c18.repeated_import_case)"""
    from checks import c18
    for k in range(n):
        c18.repeated_import_case(run, run.rng, "nw" if k % 2 else "gbs")


def edited_arguments(run, n=2):
    """the caller passes the same array objects again after editing them in place (scanning a moment origin, moving points,
    rescaling a density matrix): the second result is what fresh copies of the edited arrays give"""
    from gbasis.evals import density as Dn
    from gbasis.evals.electrostatic_potential import electrostatic_potential
    rng = run.rng
    ok = True
    for k in range(n):
        specs = random_basis(rng, 2, 2, lmax=2, exp_hi=10.0)
        basis = make_basis(specs)
        env = pf.default_env(rng, specs)
        nb = sum(s_.size for s_ in specs)
        gamma = random_symmetric(rng, nb, psd=True)
        T = random_transform(rng, nb, rect=False)
        calls = {
            "moment_integral(origin edited)": (lambda a: pf.FUNCS["moment"][0](basis, pf.Env(origin=a, orders=env.orders)), env.origin, lambda a: a.__iadd__(0.75)),
            "moment_integral(orders edited)": (lambda a: pf.FUNCS["moment"][0](basis, pf.Env(origin=env.origin, orders=a)), env.orders, lambda a: a.__iadd__(1)),
            "evaluate_basis(points edited)": (lambda a: pf.FUNCS["evaluate_basis"][0](basis, pf.Env(points=a)), env.points, lambda a: a.__imul__(0.5)),
            "evaluate_deriv_basis(points edited)": (lambda a: pf.FUNCS["evaluate_deriv_basis(1,0,2)"][0](basis, pf.Env(points=a)), env.points, lambda a: a.__iadd__(0.25)),
            "point_charge_integral(positions edited)": (lambda a: pf.FUNCS["point_charge"][0](basis, pf.Env(charge_pos=a, charges=env.charges)), env.charge_pos, lambda a: a.__isub__(0.5)),
            "point_charge_integral(charges edited)": (lambda a: pf.FUNCS["point_charge"][0](basis, pf.Env(charge_pos=env.charge_pos, charges=a)), env.charges, lambda a: a.__imul__(-2.0)),
            "overlap_integral(transform edited)": (lambda a: pf.FUNCS["overlap"][0](basis, None, transform=a), T, lambda a: a.__imul__(1.5)),
            "kinetic_energy_integral(transform edited)": (lambda a: pf.FUNCS["kinetic"][0](basis, None, transform=a), T, lambda a: a.__iadd__(0.125)),
            "evaluate_density(density matrix edited)": (lambda a: Dn.evaluate_density(a, basis, env.points), gamma, lambda a: a.__imul__(0.5)),
            "evaluate_density_gradient(density matrix edited)": (lambda a: Dn.evaluate_density_gradient(a, basis, env.points), gamma, lambda a: a.__imul__(3.0)),
            "electrostatic_potential(points edited)": (lambda a: electrostatic_potential(basis, gamma, a, env.charge_pos, np.abs(env.charges)), env.points, lambda a: a.__iadd__(0.5)),
        }
        for name, (f, arr, edit) in calls.items():
            run.case(("edited-argument", name, k))
            run.count("same argument object passed again after an in-place edit")
            r1 = f(arr)
            edit(arr)
            r2 = f(arr)
            ref = f(arr.copy())
            if r2.shape != ref.shape or not np.array_equal(r2, ref):
                run.violation(f"{name}: the result for an argument array that was edited in place since the previous call differs from "
                              f"the result for a fresh copy of it (max deviation {np.abs(r2 - ref).max() if r2.shape == ref.shape else float('nan'):.3e})",
                              {"case": "edited-argument", "function": name, "signature": {"kind": "purity-edited-argument"}})
                ok = False
    return ok


def freed_memory_case(run, n=3):
    """a result must not depend on what freed memory happens to contain: right before each call, blocks of the sizes that the work
    arrays of the library have (for this number of functions K and points N) are filled with NaN / inf / -1 and released; the result
    must be finite and bitwise equal to that of the first call"""
    from gbasis.evals import density as Dn
    from gbasis.evals import stress_tensor as ST
    from gbasis.evals.electrostatic_potential import electrostatic_potential
    rng = run.rng
    ok = True
    for k in range(n):
        specs = [rand_shell(rng, [0, 1, 0][(i + k) % 3], [], nprim=1 + i % 2, nseg=1, exp_hi=5.0) for i in range(1 + k % 2)]
        basis = make_basis(specs)
        K = sum(s_.size for s_ in specs)
        N = 1 + k % 3
        pts = np.array([[core.snap(rng.uniform(-1, 1), 8) for _ in range(3)] for _ in range(N)])
        g = random_symmetric(rng, K, psd=True)
        nuc = np.array([[0.4, -0.3, 0.2]])
        funcs = {
            "evaluate_density_hessian": lambda: Dn.evaluate_density_hessian(g, basis, pts),
            "evaluate_density_gradient": lambda: Dn.evaluate_density_gradient(g, basis, pts),
            "evaluate_density_laplacian": lambda: Dn.evaluate_density_laplacian(g, basis, pts),
            "evaluate_deriv_density(2,1,0)": lambda: Dn.evaluate_deriv_density(np.array([2, 1, 0]), g, basis, pts),
            "evaluate_posdef_kinetic_energy_density": lambda: Dn.evaluate_posdef_kinetic_energy_density(g, basis, pts),
            "evaluate_stress_tensor": lambda: ST.evaluate_stress_tensor(g, basis, pts, alpha=0.5, beta=1.0),
            "evaluate_ehrenfest_force": lambda: ST.evaluate_ehrenfest_force(g, basis, pts, alpha=0.5, beta=1.0),
            "evaluate_ehrenfest_hessian": lambda: ST.evaluate_ehrenfest_hessian(g, basis, pts, alpha=0.5, beta=1.0),
            "electrostatic_potential": lambda: electrostatic_potential(basis, g, pts, nuc, np.array([1.0])),
            "overlap_integral": lambda: pf.FUNCS["overlap"][0](basis, None),
            "kinetic_energy_integral": lambda: pf.FUNCS["kinetic"][0](basis, None),
            "moment_integral": lambda: pf.FUNCS["moment"][0](basis, pf.Env(origin=np.zeros(3), orders=np.array([[1, 0, 0], [0, 2, 0]]))),
            "point_charge_integral": lambda: pf.FUNCS["point_charge"][0](basis, pf.Env(charge_pos=nuc, charges=np.array([1.0]))),
        }
        shapes = [(3, 3, K, N), (K, N), (N,), (3, N), (3, 3, N), (N, 3, 3), (K, K), (K, K, N), (3, K, N), (N, 3), (K, K, 3), (9 * K * N,), (3 * K * N,)]

        def poison():
            junk = []
            for sh in shapes:
                for val in (np.nan, np.inf, -np.inf):
                    junk.append(np.full(sh, val))
                junk.append(np.full(sh, -1, dtype=np.int64))
            del junk
        for name, f in funcs.items():
            run.case(("freed-memory", name, K, N))
            run.count("calls after blocks of NaN / inf were released")
            ref = f()
            for rep in range(4):
                poison()
                r = f()
                if not np.all(np.isfinite(r)) or not np.array_equal(r, ref):
                    run.violation(f"{name}: the result of a repeated identical call changed after blocks of non-finite numbers had been "
                                  f"allocated and released ({'non-finite entries' if not np.all(np.isfinite(r)) else 'different values'}): the "
                                  "result depends on the contents of uninitialised memory",
                                  {"case": "freed-memory", "function": name, "K": K, "N": N, "signature": {"kind": "purity-uninitialised-memory"}})
                    ok = False
                    break
    return ok


BASELINE = {}


def caller_errstate_case(run):
    """the caller has chosen error settings other than numpy's defaults (everything ignored; a mixture; a callback): constructing and
    renormalising shells, building a basis and every integral / evaluation leave exactly those settings in place"""
    from gbasis.contractions import GeneralizedContractionShell
    from gbasis.parsers import make_contractions
    rng = run.rng
    calls_seen = []
    settings = [dict(divide="ignore", over="ignore", under="ignore", invalid="ignore"),
                dict(divide="ignore", over="warn", under="ignore", invalid="ignore"),
                dict(divide="call", over="call", under="ignore", invalid="call")]
    old_err, old_call = dict(np.geterr()), np.geterrcall()
    try:
        for setting in settings:
            np.seterrcall(lambda *a: calls_seen.append(a))
            handler = np.geterrcall()
            np.seterr(**setting)
            sh = Shared(rng)
            steps = [("GeneralizedContractionShell(...)", lambda: GeneralizedContractionShell(1, np.array([0.0, 0.5, -0.25]), np.array([[1.0, 0.5], [0.25, -2.0]]),
                                                                                               np.array([0.75, 3.5]), "spherical")),
                     ("assign_norm_cont()", lambda: sh.basis[0].assign_norm_cont()),
                     ("make_contractions(...)", lambda: make_contractions({"H": [(0, np.array([1.5, 0.25]), np.array([[0.5], [0.75]])), (1, np.array([0.75]), np.array([[1.0]]))]},
                                                                             ["H", "H"], np.array([[0.0, 0.0, 0.0], [0.0, 0.5, 1.25]]), "p"))]
            cat = catalogue(sh)
            steps += [(n, cat[n]) for n in cat if not n.startswith("bad_")]
            run.case(("caller-errstate", tuple(sorted(setting.items()))), sample={"settings": setting, "calls": len(steps)})
            run.count("calls under caller-chosen numpy error settings", len(steps))
            for name, f in steps:
                try:
                    f()
                    outcome = "returned"
                except Exception as e:
                    outcome = "raised " + type(e).__name__
                if dict(np.geterr()) != setting or np.geterrcall() is not handler:
                    run.violation(f"{name} ({outcome}) changed numpy's floating-point error settings chosen by the caller: {np.geterr()} (were {setting})",
                                  {"case": "caller-errstate", "call": name, "settings": setting, "signature": {"kind": "purity-errstate"}})
                    return False
    finally:
        np.seterr(**old_err)
        np.seterrcall(old_call)
    return True


def global_state_unchanged(run, where):
    g1 = global_state()
    g0 = BASELINE["state"]
    if g1 != g0:
        run.violation(f"process-wide state changed during {where}: " + "; ".join(f"{k}: {g0[k]!r} -> {g1[k]!r}" for k in g0 if g0[k] != g1[k])[:600],
                      {"case": "global-state", "where": where, "signature": {"kind": "purity-global-state"}})
        BASELINE["state"] = g1
        return False
    return True


def check(run):
    quick = run.tier == "quick"
    BASELINE["state"] = global_state()
    edited_arguments(run, 2 if quick else 8)
    global_state_unchanged(run, "calls of the public integral and evaluation functions (edited_arguments)")
    freed_memory_case(run, 3 if quick else 12)
    caller_errstate_case(run)
    lengths = [1, 2, 3, 5, 8, 13, 21, 30] if quick else [1, 2, 3, 4, 5, 6, 8, 10, 13, 16, 21, 25, 30] * 4
    for k, n in enumerate(lengths):
        history(run, n, k)
    freshness(run)
    as_constructed(run)
    import_histories(run, 4 if quick else 24)
    aliasing_histories(run, 3 if quick else 18)
    rejected_updates(run, 2 if quick else 10)
    helper_freshness(run)


def replay(run, rep):
    n0 = len(run.violations)
    if rep.get("case") == "global-state":
        BASELINE["state"] = global_state()
        edited_arguments(run, 2)
        global_state_unchanged(run, "calls of the public integral and evaluation functions")
        return len(run.violations) == n0
    if rep.get("case") == "caller-errstate":
        caller_errstate_case(run)
        return len(run.violations) == n0
    if rep.get("case") == "freed-memory":
        freed_memory_case(run, 8)
        return len(run.violations) == n0
    if rep.get("case") == "edited-argument":
        edited_arguments(run, 6)
        return len(run.violations) == n0
    if rep.get("case") == "helper-fresh":
        helper_freshness(run)
        return len(run.violations) == n0
    if rep.get("case") == "rejected-update":
        rejected_updates(run, 6)
        return len(run.violations) == n0
    if rep.get("case") == "alias":
        aliasing_histories(run, 6)
        return len(run.violations) == n0
    if rep.get("case") == "repeated-import":
        import_histories(run, 8)
        return len(run.violations) == n0
    BASELINE.setdefault("state", global_state())
    for k in range(12):
        history(run, 30, k)
    freshness(run)
    return len(run.violations) == n0
