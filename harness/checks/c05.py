"""C05 — basis-function values and arbitrary-order derivatives exact; back-ends agree; rejection."""
import itertools

import numpy as np

from gbv import core
from gbv.core import ModelError
from checks.common import *

RULE = ("all 125 order triples 0..4 for the 'general' back-end and all 27 triples 0..2 for 'direct' are enumerated over "
        "bases of 1-4 shells (l 0..6, 1-4 primitives, 1-3 segments, both coordinate types, transforms) at 1-50 points "
        "including points exactly on a centre and on coordinate planes/axes through a centre; evaluate_basis / "
        "evaluate_deriv_basis compared with the Lean model of the same back-end within 1e-9 x the model's magnitude "
        "majorant; both back-ends compared with each other; every triple with an order > 2 and unknown back-end names "
        "must be rejected by 'direct' exactly as the model's dispatcher says; distinct by (back-end, orders, basis signature)")
ASSUMPTIONS = ["scipy.special.eval_hermite/comb/perm are covered only through the correspondence"]


def points_for(rng, specs, n):
    pts = []
    for k in range(n):
        s = rng.choice(specs)
        c = list(s.center)
        r = k % 5
        if r == 0:
            p = c
        elif r == 1:
            p = [c[0], core.snap(rng.uniform(-2, 2), 10), c[2]]
        elif r == 2:
            p = [core.snap(rng.uniform(-2, 2), 10), c[1], core.snap(rng.uniform(-2, 2), 10)]
        else:
            p = [core.snap(rng.uniform(-3, 3), 12) for _ in range(3)]
        pts.append(p)
    return np.array(pts, dtype=float)


def line(dt, specs, pts, orders):
    return (f"evalderiv {dt} " + btok(specs) + f" {len(pts)} " + " ".join(core.enc(x) for x in pts.ravel())
            + " %d %d %d" % tuple(orders))


def one_case(run, specs, pts, orders, dt, transform=None, via_class=False, runtime_name=False):
    from gbasis.evals.eval import evaluate_basis
    from gbasis.evals.eval_deriv import evaluate_deriv_basis

    basis = make_basis(specs)
    rep = {"case": "evalderiv", "basis": core.describe_basis(specs), "points": pts.tolist(), "orders": list(orders),
           "deriv_type": dt, "transform": None if transform is None else transform.tolist(), "via_class": via_class,
           "runtime_name": runtime_name}
    run.case((dt, tuple(orders), via_class) + sig(specs) + (len(pts), transform is not None),
             sample={"op": "evaluate_deriv_basis", "deriv_type": dt, "orders": list(orders),
                     "basis": core.describe_basis(specs), "npoints": len(pts)})
    count_basis(run, specs)
    run.count("backend " + dt)
    run.count(f"total order {sum(orders)}")
    try:
        model, mag = run.model.array_mag(line(dt, specs, pts, orders))
        mexc = None
    except ModelError as e:
        mexc = str(e)
    if runtime_name:
        dt = "".join(list(dt))          # an equal string that is not the interned literal (as read from a file / command line)
    try:
        if via_class:
            # the documented class interface behind the wrapper: the same request must get the same answer (or rejection)
            from gbasis.evals.eval_deriv import EvalDeriv
            obj = EvalDeriv(basis)
            types = [sh_.coord_type for sh_ in basis]
            kw = dict(points=pts, orders=np.array(orders), deriv_type=dt)
            if transform is not None:
                impl = obj.construct_array_lincomb(transform, types, **kw)
            elif all(t_ == "cartesian" for t_ in types):
                impl = obj.construct_array_cartesian(**kw)
            elif all(t_ == "spherical" for t_ in types):
                impl = obj.construct_array_spherical(**kw)
            else:
                impl = obj.construct_array_mix(types, **kw)
            run.count("via EvalDeriv class interface")
        else:
            impl = evaluate_deriv_basis(basis, pts, np.array(orders), transform=transform, deriv_type=dt)
        iexc = None
    except (ValueError, TypeError) as e:
        iexc = type(e).__name__
    except Exception as e:  # any other exception is not an orderly rejection
        iexc = "other:" + type(e).__name__
    if mexc is not None or iexc is not None:
        run.count("rejected" if iexc else "accepted-but-model-rejects")
        if mexc != iexc:
            run.violation(f"evaluate_deriv_basis(deriv_type={dt!r}, orders={orders}): implementation "
                          f"{'raised ' + iexc if iexc else 'returned numbers'}, specification says "
                          f"{'reject with ' + mexc if mexc else 'answer'}",
                          dict(rep, impl_error=iexc, model_error=mexc, signature={"kind": "dispatch"}))
            return False
        return True
    if transform is not None:
        model = transform @ model
        mag = np.abs(transform) @ mag
    ok = compare(run, f"evaluate_deriv_basis[{dt}]", impl, model, 1e-9 * mag + 1e-300, rep, "evalderiv")
    if ok and tuple(orders) == (0, 0, 0):
        val = evaluate_basis(basis, pts, transform=transform)
        ok = compare(run, "evaluate_basis", val, model, 1e-9 * mag + 1e-300, dict(rep, case="eval"), "eval")
    return ok


def check(run):
    rng = run.rng
    quick = run.tier == "quick"
    triples = list(itertools.product(range(5), repeat=3))
    rng.shuffle(triples)
    for n, o in enumerate(triples):
        if quick and n % 2:
            continue
        specs = random_basis(rng, 1, 2 if quick else 4, lmax=6 if n % 4 == 0 else 4)
        pts = points_for(rng, specs, rng.randint(1, 6 if quick else 50))
        t = random_transform(rng, sum(s.size for s in specs)) if n % 7 == 3 else None
        one_case(run, specs, pts, o, "general", t)
        if max(o) <= 2:
            one_case(run, specs, pts, o, "direct", t)
        elif n % 3 == 0 or not quick:
            one_case(run, specs, pts, o, "direct")          # must be rejected
    for o in itertools.product(range(3), repeat=3):          # all 27 direct triples, every l 0..4
        specs = random_basis(rng, 1, 2, lmax=4)
        pts = points_for(rng, specs, 5)
        one_case(run, specs, pts, o, "direct")
    for l in range(7):                                       # every l, points on the centre
        s = rand_shell(rng, l, [])
        pts = np.array([s.center, [s.center[0], s.center[1], s.center[2] + 0.5], [0.3, -0.2, 0.1]])
        for o in [(0, 0, 0), (1, 0, 2), (2, 2, 2), (4, 0, 1)]:
            one_case(run, [s], pts, o, "general")
        one_case(run, [s], pts, (2, 1, 0), "direct")
    s = ShellSpec(1, [0, 0, 0], [0.7], [1.0])
    pts = np.array([[0.3, 0.2, 0.1]])
    for dt, o in [("direct", (3, 0, 0)), ("bogus", (1, 0, 0)), ("Direct", (0, 0, 0)), ("direct", (0, 0, 3)), ("general", (3, 0, 0))]:
        one_case(run, [s], pts, o, dt)
    # the same requests through the class interface (EvalDeriv.construct_array_*), all coordinate-type branches and lincomb
    for k, (dt, o) in enumerate([("direct", (3, 0, 0)), ("direct", (0, 4, 1)), ("direct", (2, 1, 2)), ("general", (3, 1, 0)), ("bogus", (1, 0, 0)),
                                 ("direct", (2, 1, 3)), ("general", (0, 0, 0)), ("direct", (1, 1, 1))]):
        cs = []
        specs2 = [rand_shell(rng, l, cs, nprim=2, sph=[False, True, k % 2 == 0][i]) for i, l in enumerate((0, 2, 1))]
        if k % 4 == 3:
            specs2 = [s_.copy(sph=bool(k % 8 == 3)) for s_ in specs2]
        t2 = random_transform(rng, sum(s_.size for s_ in specs2)) if k % 3 == 2 else None
        one_case(run, specs2, points_for(rng, specs2, 3), o, dt, t2, via_class=True)
    # diffuse shells evaluated 20-35 bohr from their centre (along one axis and in general direction): values of 1e-5..1e-9 that
    # must still be exact to rounding
    for k, (o, dt) in enumerate([((0, 0, 0), "general"), ((1, 0, 0), "general"), ((0, 1, 1), "direct"), ((2, 0, 0), "general")] if quick else
                                 [(o_, dt_) for o_ in ((0, 0, 0), (1, 0, 0), (0, 1, 1), (2, 0, 0), (0, 0, 3)) for dt_ in ("general", "direct") if max(o_) <= 2 or dt_ == "general"]):
        l = k % 4
        sh = ShellSpec(l, [core.snap(rng.uniform(-1, 1), 8) for _ in range(3)], [0.02 + 0.01 * (k % 3), 0.09], [[1.0], [0.4]], sph=bool(k % 2))
        c = np.array(sh.center)
        far = [c + np.array([27.0 + k, 0.3, -0.2]), c + np.array([0.1, -(28.5 + k % 3), 0.4]), c + np.array([-0.2, 0.1, 30.0 + k % 4]),
               c + np.array([17.0, -16.0, 18.0]), c + np.array([24.0, 0.0, 0.0])]
        one_case(run, [sh], np.array(far), o, dt)
        run.count("diffuse shell 24-35 bohr from its centre")
    representation_cases(run)
    from checks.common import sp_family, structured_transforms
    for k, ls in enumerate([(0, 1), (0, 2), (1, 2), (0, 1, 2)]):
        specs2 = sp_family(rng, ls, two_centres=True)
        one_case(run, specs2 if k % 2 else list(reversed(specs2)), points_for(rng, specs2, 3 + k % 2), (k % 3, 1, 0), "general" if k % 2 else "direct")
        run.count("SP-type shared exponent arrays")
    specs2 = random_basis(rng, 2, 2, lmax=2)
    for lab, T in structured_transforms(rng, sum(s_.size for s_ in specs2)):
        one_case(run, specs2, points_for(rng, specs2, 3), (1, 0, 1), "general", T)
        run.count("transform " + lab)
    from checks.common import custom_order_family
    for k, (o, dt) in enumerate([((2, 0, 0), "direct"), ((0, 2, 1), "direct"), ((2, 1, 2), "direct"), ((1, 1, 0), "direct"), ((0, 0, 2), "direct"),
                                 ((3, 0, 1), "general"), ((0, 0, 0), "general"), ((2, 2, 2), "direct")]):
        sp_ = custom_order_family(rng, (1, 2, 3) if k % 2 else (2, 1), two=(k % 3 == 0))
        one_case(run, sp_, points_for(rng, sp_, 3), o, dt, via_class=(k % 4 == 3))
        run.count("declared (non-default) Cartesian component order")
    for k, (o, dt) in enumerate([((3, 0, 0), "direct"), ((2, 1, 3), "direct"), ((1, 2, 0), "direct"), ((0, 4, 1), "general"), ((1, 0, 0), "bogus"),
                                 ((0, 0, 4), "direct")]):
        sp_ = random_basis(rng, 1, 2, lmax=2)
        one_case(run, sp_, points_for(rng, sp_, 3), o, dt, via_class=(k % 2 == 1), runtime_name=True)
        run.count("back-end name given as a run-time string")
    # generalized shells with structured coefficient matrices (several segmented contractions stored as one shell: every primitive
    # in exactly one column; uncontracted sets; a shared primitive) and the other structural families
    from checks.common import structural_families
    for k, (lab, sp_, T) in enumerate(structural_families(run, transforms=False)):
        if "bohr apart" in lab:
            continue
        o, dt = [((0, 0, 0), "general"), ((1, 0, 1), "direct"), ((0, 2, 0), "general"), ((2, 1, 0), "direct")][k % 4]
        one_case(run, sp_, points_for(rng, sp_, 3), o, dt)
        run.count(lab.split(" (")[0])
    from checks import c09 as _c09
    _c09.positional_arguments_case(run, rng, only=('evaluate_basis', 'evaluate_deriv_basis'))
    batch_independence(run)



def batch_independence(run):
    """the value at a point does not depend on which (or how many) other points are in the same call: one call with 70 001 points
    (beyond any block size an implementation may use internally) against the same points evaluated in chunks, both back-ends"""
    from gbasis.evals.eval import evaluate_basis
    from gbasis.evals.eval_deriv import evaluate_deriv_basis
    rng = run.rng
    cs = []
    specs = [rand_shell(rng, l, cs, nprim=1, nseg=1, exp_lo=0.2, exp_hi=2.0) for l in (0, 1)]
    basis = make_basis(specs)
    npts = 70001
    g = np.random.default_rng(rng.randrange(2 ** 32))
    pts = g.uniform(-2.5, 2.5, size=(npts, 3))
    rep = {"case": "batch", "basis": core.describe_basis(specs)}
    for name, f in (("evaluate_basis", lambda p: evaluate_basis(basis, p)),
                    ("evaluate_deriv_basis(1,0,1)[general]", lambda p: evaluate_deriv_basis(basis, p, np.array([1, 0, 1]))),
                    ("evaluate_deriv_basis(0,2,0)[direct]", lambda p: evaluate_deriv_basis(basis, p, np.array([0, 2, 0]), deriv_type="direct"))):
        whole = f(pts)
        parts = np.concatenate([f(pts[i:i + 9973]) for i in range(0, npts, 9973)], axis=1)
        run.case(("batch", name))
        run.count("batch independence " + name)
        if whole.shape != parts.shape or np.abs(whole - parts).max() > 1e-13 * max(1.0, float(np.abs(parts).max())):
            bad = int(np.argmax(np.abs(whole - parts).max(axis=0))) if whole.shape == parts.shape else -1
            run.violation(f"{name}: one call with {npts} points differs from the same points evaluated in chunks (first difference at point "
                          f"{bad}: {whole[:, bad].tolist() if bad >= 0 else whole.shape} vs {parts[:, bad].tolist() if bad >= 0 else parts.shape})",
                          dict(rep, function=name, signature={"kind": "batch-independence"}))


def representation_cases(run):
    from gbasis.evals.eval import evaluate_basis
    from gbasis.evals.eval_deriv import evaluate_deriv_basis
    rng = run.rng
    specs = random_basis(rng, 2, 3, lmax=3, exp_hi=5.0)
    basis = make_basis(specs)
    pts = np.array([[0.0, 1.0, -1.0], [2.0, 0.0, 1.0], [1.0, 1.0, 1.0], [-1.0, 2.0, 0.0]])
    rep = {"basis": core.describe_basis(specs), "points": pts.tolist()}
    repr_case(run, "evaluate_basis", "points", lambda p: evaluate_basis(basis, p), pts, rep)
    for o, dt in (((1, 0, 2), "general"), ((0, 2, 1), "direct"), ((3, 1, 0), "general")):
        repr_case(run, f"evaluate_deriv_basis{o}[{dt}]", "points", lambda p, o=o, dt=dt: evaluate_deriv_basis(basis, p, np.array(o), deriv_type=dt), pts, rep)
    n = sum(s_.size for s_ in specs)
    T = np.array([[float((3 * r + 2 * c) % 5 - 2) for c in range(n)] for r in range(3)])
    repr_case(run, "evaluate_basis", "transform", lambda t: evaluate_basis(basis, pts, transform=t), T, rep)


def replay(run, rep):
    if rep.get("case") == "positional":
        from checks import c09 as _c09
        n0_ = len(run.violations)
        _c09.positional_arguments_case(run, run.rng, only=('evaluate_basis', 'evaluate_deriv_basis'))
        return len(run.violations) == n0_
    n0 = len(run.violations)
    if rep.get("case") == "representation":
        representation_cases(run)
        return len(run.violations) == n0
    if rep.get("case") == "batch":
        batch_independence(run)
        return len(run.violations) == n0
    t = rep.get("transform")
    one_case(run, specs_from(rep), np.array(rep["points"]), tuple(rep["orders"]), rep["deriv_type"],
             None if t is None else np.array(t), via_class=bool(rep.get("via_class")),
             runtime_name=bool(rep.get("runtime_name")))
    return len(run.violations) == n0
