"""C02 — kinetic-energy integrals exact."""
import itertools

import numpy as np

from gbv import core
from checks.common import *

RULE = ("every ordered pair of angular momenta 0..5 enumerated as two-shell bases (random 1-4 primitives, 1-3 "
        "segments, exponents log-uniform in [0.02, cap(l)], both coordinate types), random bases of 1-4 shells, "
        "and exponent-range corners; full matrix of kinetic_energy_integral compared with the Lean model entry by "
        "entry within 1e-8*sqrt(T_aa*T_bb) (T from the model); distinct by (l, type, nprim, nseg, first exponent)")
ASSUMPTIONS = ["model value exact (diffTab/momTab theorems); float rounding of the implementation observed, not proved"]


def one_case(run, specs, transform=None):
    from gbasis.integrals.kinetic_energy import kinetic_energy_integral

    impl = kinetic_energy_integral(make_basis(specs), transform=transform)
    model = run.model.array("kinetic " + btok(specs))
    d = np.sqrt(np.abs(np.diag(model)))
    tol = 1e-8 * np.outer(d, d)
    if transform is not None:
        model = transform @ model @ transform.T
        dd = np.sqrt(np.abs(np.diag(np.abs(transform) @ np.outer(d, d) @ np.abs(transform).T)))
        tol = 1e-8 * np.outer(dd, dd)
    run.case(("kin",) + sig(specs) + (transform is not None,),
             sample={"op": "kinetic_energy_integral", "basis": core.describe_basis(specs)})
    count_basis(run, specs)
    ok = compare(run, "kinetic_energy_integral", impl, model, tol,
                 {"case": "kinetic", "basis": core.describe_basis(specs),
                  "transform": None if transform is None else transform.tolist()}, "kinetic")
    if ok and transform is None and np.abs(impl - impl.T).max() > tol.max():
        run.violation("kinetic matrix not symmetric", {"case": "kinetic", "basis": core.describe_basis(specs),
                                                      "signature": {"kind": "kinetic-symm"}})
    return ok


def check(run):
    rng = run.rng
    reps = 1 if run.tier == "quick" else 4
    for la, lb in itertools.product(range(6), repeat=2):
        for rep in range(reps):
            specs = pair_specs(rng, la, lb)
            if rep >= 1:
                specs = [specs[0].copy(sph=bool(rep & 1)), specs[1].copy(sph=bool(rep & 2))]
            one_case(run, specs)
    for _ in range(10 if run.tier == "quick" else 100):
        n = rng.randint(1, 4)
        specs = random_basis(rng, n, n, lmax=5 if n <= 2 else 3)
        t = None
        if rng.random() < 0.3:
            t = random_transform(rng, sum(s.size for s in specs))
            run.count("transform")
        one_case(run, specs, t)
    # tail regime: small but not negligible Gaussian product factors (where a premature screening would bite)
    k = 0
    for la, lb in itertools.product(range(6), repeat=2):
        for u in (TAIL_LADDER if run.tier == "thorough" else
                  [TAIL_LADDER[(k + j * 3) % len(TAIL_LADDER)] for j in range(2)] + ([28.0, 30.5, 32.0] if la + lb >= 7 else [])):
            s1, s2 = tail_pair(rng, la, lb, u)
            one_case(run, [s1, s2])
            run.count("tail regime mu*R^2=%g" % u)
        k += 1
    from checks.common import near_cases, near_pair
    for la, lb, sep, far in near_cases(run, 4):
        s1, s2 = near_pair(rng, la, lb, sep, far)
        one_case(run, [s1, s2])
        run.count("nearly coincident centres %g%s" % (sep, " far from origin" if far else ""))
    # SP-type bases (shells of different l sharing one exponent-array object, one and two centres) and structured transformations
    from checks.common import sp_family, structured_transforms
    for k, ls in enumerate([(0, 1), (0, 2), (1, 2), (0, 1, 2)]):
        specs = sp_family(rng, ls, two_centres=(k % 2 == 0) or run.tier != "quick")
        one_case(run, specs)
        one_case(run, list(reversed(specs)))
        run.count("SP-type shared exponent arrays")
    specs = random_basis(rng, 2, 2, lmax=2)
    for lab, T in structured_transforms(rng, sum(s_.size for s_ in specs)):
        one_case(run, specs, T)
        run.count("transform " + lab)
    from checks.common import structural_families
    for lab, specs, T in structural_families(run):
        one_case(run, specs, T)
        run.count(lab)
    from checks.common import custom_order_family
    for k in range(2 if run.tier == "quick" else 8):
        one_case(run, custom_order_family(rng, (2, 1, 3) if k % 2 else (1, 2)))
        run.count("declared (non-default) Cartesian component order")
    from checks.common import DEGENERATE_DISPLACEMENTS, degenerate_pair
    for k, d in enumerate(DEGENERATE_DISPLACEMENTS if run.tier != "quick" else DEGENERATE_DISPLACEMENTS[:: 2] + DEGENERATE_DISPLACEMENTS[1:2]):
        for la, lb in ((1, 1), (2, 1)) if run.tier == "quick" else ((1, 1), (2, 1), (1, 2), (2, 2), (3, 1), (0, 2)):
            s1, s2 = degenerate_pair(rng, la, lb, d)
            one_case(run, [s1, s2])
        run.count("displacement with special structure")
    for l in range(6):
        hi = core.exp_cap(l)
        s1 = ShellSpec(l, [0.0, 0.0, 0.0], [hi, 0.02], [[1.0], [0.5]], sph=(l % 2 == 0))
        s2 = ShellSpec(max(l - 1, 0), [0.1, -0.2, 0.05], [hi * 0.5, 0.05], [[0.3], [-1.0]], sph=(l % 2 == 1))
        one_case(run, [s1, s2])
        run.count("corner")


def replay(run, rep):
    n0 = len(run.violations)
    t = rep.get("transform")
    one_case(run, specs_from(rep), None if t is None else np.array(t))
    return len(run.violations) == n0
