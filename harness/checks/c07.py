"""C07 — multipole-moment integrals exact for every order and origin."""
import itertools
from math import comb

import numpy as np

from gbv import core
from checks.common import *

RULE = ("all 125 order triples 0..4 are enumerated (in shuffled lists of 1-6 triples, repetitions allowed) over "
        "bases of 1-4 shells (l 0..4, both coordinate types, transforms) with origins on a centre / off centre / "
        "1e3 bohr away; moment_integral compared entry by entry with the Lean model within 1e-9 x the model's "
        "running magnitude majorant; order (0,0,0) compared with overlap_integral; origin shift checked against "
        "the binomial expansion on implementation outputs; distinct by (basis signature, origin kind, order list)")
ASSUMPTIONS = ["'to double-precision accuracy' is judged as 1e-9 x the sum of absolute values of all terms that make up the element (computed by the model)"]


def one_case(run, specs, origin, orders, transform=None, kind="off"):
    from gbasis.integrals.moment import moment_integral

    origin = np.array(origin, dtype=float)
    orders = np.array(orders, dtype=int).reshape(-1, 3)
    impl = moment_integral(make_basis(specs), origin, orders, transform=transform)
    line = ("moment " + btok(specs) + " " + " ".join(core.enc(x) for x in origin) + f" {len(orders)} "
            + " ".join(str(int(v)) for v in orders.ravel()))
    model, mag = run.model.array_mag(line)
    if transform is not None:
        model = np.einsum("ia,jb,abd->ijd", transform, transform, model)
        mag = np.einsum("ia,jb,abd->ijd", np.abs(transform), np.abs(transform), mag)
    tol = 1e-9 * mag + 1e-290
    run.case(("mom",) + sig(specs) + (kind, tuple(map(tuple, orders.tolist())), transform is not None),
             sample={"op": "moment_integral", "basis": core.describe_basis(specs), "origin": origin.tolist(),
                     "orders": orders.tolist()})
    count_basis(run, specs)
    run.count("origin-" + kind)
    for o in orders:
        run.count(f"order-sum={int(o.sum())}")
    return compare(run, "moment_integral", impl, model, tol,
                   {"case": "moment", "basis": core.describe_basis(specs), "origin": origin.tolist(),
                    "orders": orders.tolist(), "transform": None if transform is None else transform.tolist()},
                   "moment"), impl


def relations(run, specs, origin):
    """order zero = overlap; binomial shift of the origin (on implementation outputs)"""
    from gbasis.integrals.moment import moment_integral
    from gbasis.integrals.overlap import overlap_integral

    basis = make_basis(specs)
    s = overlap_integral(basis)
    m0 = moment_integral(basis, np.array(origin, dtype=float), np.array([[0, 0, 0]]))[:, :, 0]
    run.case(("mom0",) + sig(specs))
    if np.abs(m0 - s).max() > 1e-9:
        run.violation("moment order (0,0,0) differs from the overlap matrix",
                      {"case": "moment0", "basis": core.describe_basis(specs), "origin": list(origin),
                       "signature": {"kind": "moment-order0"}})
    # shift: M_k(X') = sum_n C(k,n) (X - X')^(k-n) M_n(X), per axis
    k = (2, 1, 3)
    x = np.array(origin, dtype=float)
    xp = x + np.array([0.5, -0.25, 1.0])
    sub = [(a, b, c) for a in range(k[0] + 1) for b in range(k[1] + 1) for c in range(k[2] + 1)]
    lower = moment_integral(basis, x, np.array(sub))
    target = moment_integral(basis, xp, np.array([k]))[:, :, 0]
    acc = np.zeros_like(target)
    mag = np.zeros_like(target)
    d = x - xp
    for n, (a, b, c) in enumerate(sub):
        f = (comb(k[0], a) * d[0] ** (k[0] - a) * comb(k[1], b) * d[1] ** (k[1] - b)
             * comb(k[2], c) * d[2] ** (k[2] - c))
        acc += f * lower[:, :, n]
        # scale of the rounding error of a lower moment: its largest element (an individual element can be a tiny
        # remainder of cancelling contributions, so its own magnitude says nothing about its error)
        mag += abs(f) * float(np.abs(lower[:, :, n]).max())
    run.case(("shift",) + sig(specs))
    run.count("origin-shift-law")
    if np.any(np.abs(acc - target) > 1e-9 * mag + 1e-12):
        run.violation("moments about a shifted origin differ from the binomial expansion in lower moments",
                      {"case": "moment_shift", "basis": core.describe_basis(specs), "origin": list(origin),
                       "signature": {"kind": "moment-shift"}})


def long_list_case(run, la=4, lb=4, nprim=4):
    """a long list of order triples for large shells in one call (all 125 triples, two g shells with 4 primitives: more than 10^6
    intermediate numbers per shell pair) must give, slice by slice, what separate calls give; sampled slices are also compared with
    the model"""
    from gbasis.integrals.moment import moment_integral
    rng = run.rng
    cs = []
    specs = [rand_shell(rng, la, cs, nprim=nprim, nseg=1, sph=False, exp_hi=8.0).copy(via_update=False),
             rand_shell(rng, lb, cs, nprim=nprim, nseg=1, sph=False, exp_hi=8.0).copy(via_update=False)]
    if specs[0].center == specs[1].center:
        specs[1] = specs[1].copy(center=[c + d for c, d in zip(specs[1].center, (0.9, -0.4, 0.6))])
    basis = make_basis(specs)
    origin = np.array([0.3, -0.2, 0.45])
    triples = list(itertools.product(range(5), repeat=3))
    rng.shuffle(triples)
    whole = moment_integral(basis, origin, np.array(triples))
    run.case(("long-list", la, lb, nprim) + sig(specs))
    run.count("long order list for large shells (%d triples)" % len(triples))
    rep = {"case": "long-list", "basis": core.describe_basis(specs), "origin": origin.tolist(), "signature": {"kind": "moment-long-list"}}
    if whole.shape != (sum(s_.size for s_ in specs),) * 2 + (len(triples),):
        run.violation(f"moment_integral returned shape {whole.shape} for {len(triples)} order triples", rep)
        return False
    picks = [0, 1, len(triples) // 2, len(triples) - 2, len(triples) - 1] + rng.sample(range(len(triples)), 5)
    for i in picks:
        single = moment_integral(basis, origin, np.array([triples[i]]))[:, :, 0]
        scale = float(np.abs(single).max())
        if np.abs(whole[:, :, i] - single).max() > 1e-12 * scale + 1e-300:
            run.violation(f"slice {i} (order {triples[i]}) of a {len(triples)}-triple request differs from the result of requesting that "
                          f"triple alone by {np.abs(whole[:, :, i] - single).max():.3e}", dict(rep, position=i, order=list(triples[i])))
            return False
    ok, _ = one_case(run, specs, origin, [triples[i] for i in picks[:3]], None, "off")
    return ok


def scanned_origin_case(run):
    """a caller scans the moment origin by editing one array in place and passing the same origin and order objects again"""
    from gbasis.integrals.moment import moment_integral
    rng = run.rng
    specs = random_basis(rng, 2, 2, lmax=2, exp_hi=10.0)
    basis = make_basis(specs)
    origin = np.array([0.0, 0.0, 0.0])
    orders = np.array([[1, 0, 0], [0, 1, 1], [0, 0, 0], [2, 0, 1]])
    ok = True
    for step, new in enumerate(([0.0, 0.0, 0.0], [0.3, -0.2, 0.5], [2.0, 1.0, -1.5])):
        origin[:] = new
        impl = moment_integral(basis, origin, orders)
        line = ("moment " + btok(specs) + " " + " ".join(core.enc(x) for x in origin) + f" {len(orders)} " + " ".join(str(int(v)) for v in orders.ravel()))
        model, mag = run.model.array_mag(line)
        run.case(("scan-origin", step) + sig(specs))
        run.count("origin array edited in place between calls")
        ok &= compare(run, "moment_integral (same origin object, edited in place since the previous call)", impl, model, 1e-9 * mag + 1e-290,
                      {"case": "scan-origin", "basis": core.describe_basis(specs), "origin": list(new), "signature": {"kind": "moment-scan-origin"}}, "moment-scan-origin")
    return ok


def representation_cases(run):
    from gbasis.integrals.moment import moment_integral
    rng = run.rng
    cs = []
    specs = [rand_shell(rng, l, cs, nprim=1 + l, nseg=1, exp_hi=5.0) for l in (0, 1)]
    basis = make_basis(specs)
    n = sum(s.size for s in specs)
    pts = np.array([[0.0, 1.0, -1.0], [2.0, 0.0, 1.0]])
    g = np.eye(n) * 2.0
    g[0, n - 1] = g[n - 1, 0] = 1.0
    rep = {"basis": core.describe_basis(specs), "points": pts.tolist(), "gamma": g.tolist()}
    origin = np.array([1.0, -2.0, 0.0])
    orders = np.array([[1, 0, 0], [0, 1, 1], [0, 0, 0]])
    repr_case(run, "moment_integral", "moment_coord", lambda o: moment_integral(basis, o, orders), origin, rep)
    T = np.array([[float((3 * r + 2 * c) % 5 - 2) for c in range(n)] for r in range(2)])
    repr_case(run, "moment_integral", "transform", lambda t: moment_integral(basis, origin, orders, transform=t), T, rep)


def check(run):
    rng = run.rng
    triples = list(itertools.product(range(5), repeat=3))
    rng.shuffle(triples)
    pos = 0
    ncase = 0
    while pos < len(triples):
        n = rng.randint(1, 6)
        orders = triples[pos : pos + n]
        pos += n
        if rng.random() < 0.3:
            orders = orders + [rng.choice(orders)]
        lmax = 4 if run.tier == "thorough" else (3 if ncase % 3 else 4)
        specs = random_basis(rng, 1, 3 if run.tier == "quick" else 4, lmax=lmax)
        kind = ["centre", "off", "far"][ncase % 3]
        if kind == "centre":
            origin = specs[0].center
        elif kind == "off":
            origin = [core.snap(rng.uniform(-2, 2), 10) for _ in range(3)]
        else:
            origin = [1000.0, -750.0, 500.0]
        t = None
        if ncase % 4 == 3:
            t = random_transform(rng, sum(s.size for s in specs))
            run.count("transform")
        one_case(run, specs, origin, orders, t, kind)
        ncase += 1
    k = 0
    for la, lb in itertools.product(range(5), repeat=2):      # tail regime (premature screening would bite here)
        if run.tier == "quick" and (la + lb) % 2:
            continue
        u = TAIL_LADDER[k % len(TAIL_LADDER)]
        s1, s2 = tail_pair(rng, la, lb, u)
        one_case(run, [s1, s2], [0.1, -0.2, 0.3], [rng.choice(triples) for _ in range(2)] + [(0, 0, 0)], None, "off")
        run.count("tail regime")
        k += 1
    from checks.common import near_cases, near_pair
    for la, lb, sep, far in near_cases(run, 3):
        s1, s2 = near_pair(rng, la, lb, sep, far)
        org = [float(c) + 0.3 for c in s1.center] if far else [0.1, -0.2, 0.3]
        one_case(run, [s1, s2], org, [rng.choice(triples) for _ in range(2)] + [(0, 0, 0), (1, 0, 0)], None, "off")
        run.count("nearly coincident centres")
    from checks.common import sp_family, structured_transforms
    for k, ls in enumerate([(0, 1), (0, 2), (1, 2), (0, 1, 2)]):
        specs = sp_family(rng, ls, two_centres=(k % 2 == 0) or run.tier != "quick")
        for sp_ in (specs, list(reversed(specs))):
            one_case(run, sp_, [0.3, -0.1, 0.2], [(1, 0, 0), (0, 2, 1), (0, 0, 0), rng.choice(triples)], None, "off")
        run.count("SP-type shared exponent arrays")
    specs = random_basis(rng, 2, 2, lmax=2)
    for lab, T in structured_transforms(rng, sum(s_.size for s_ in specs)):
        one_case(run, specs, [0.3, -0.1, 0.2], [(1, 0, 0), (0, 1, 1), (0, 0, 0)], T, "off")
        run.count("transform " + lab)
    from checks.common import custom_order_family
    for k in range(2 if run.tier == "quick" else 8):
        one_case(run, custom_order_family(rng, (2, 1) if k % 2 else (1, 3)), [0.3, -0.1, 0.2], [(1, 0, 0), (0, 2, 1), (0, 0, 0)], None, "off")
        run.count("declared (non-default) Cartesian component order")
    from checks.common import DEGENERATE_DISPLACEMENTS, degenerate_pair
    for k, d in enumerate(DEGENERATE_DISPLACEMENTS if run.tier != "quick" else DEGENERATE_DISPLACEMENTS[:: 2] + DEGENERATE_DISPLACEMENTS[1:2]):
        for la, lb in ((1, 1), (2, 1)) if run.tier == "quick" else ((1, 1), (2, 1), (1, 2), (2, 2), (3, 1), (0, 2)):
            s1, s2 = degenerate_pair(rng, la, lb, d)
            one_case(run, [s1, s2], list(s1.center), [(2, 0, 0), (0, 2, 2), (0, 0, 0), (1, 0, 1)], None, "on-centre")
        run.count("displacement with special structure")
    # an s shell exactly at the coordinate origin with the moment origin on it (every odd moment vanishes exactly)
    for k in range(2):
        s0 = ShellSpec(0, [0.0, 0.0, 0.0] if k == 0 else [0.5, -2.0, 0.25], [1.3, 0.4], [[0.6, 0.2], [0.5, 0.9]])
        one_case(run, [s0], list(s0.center), [(2, 0, 0), (2, 2, 0), (4, 0, 0), (0, 2, 4), (1, 0, 0), (0, 0, 0)], None, "on-centre")
    # origins very far away: 3e7 and 1e9 bohr (the (0,0,0) slice must still be the overlap, every slice exact to rounding)
    for far in ([3.0e7, -1.0e7, 2.0e7], [1.0e9, 5.0e8, -7.0e8]):
        specs = random_basis(rng, 2, 2, lmax=2)
        # two distinct centres in general position (the pool of `random_basis` forces coincidences, and one-centre blocks do not
        # see how the origin enters)
        specs = [specs[0].copy(center=[0.35, -0.6, 0.85]), specs[1].copy(center=[-0.75, 0.4, -0.2])]
        one_case(run, specs, far, [(0, 0, 0), (1, 0, 0), (0, 1, 1)], None, "very-far")
        run.count("origin 1e7..1e9 bohr away")
    for _ in range(4 if run.tier == "quick" else 30):
        specs = random_basis(rng, 1, 3, lmax=3)
        relations(run, specs, [core.snap(rng.uniform(-1, 1), 8) for _ in range(3)])
    if run.tier == "thorough":
        for la, lb in itertools.product(range(5), repeat=2):
            specs = pair_specs(rng, la, lb)
            one_case(run, specs, [0.25, -0.5, 0.125], [rng.choice(triples) for _ in range(3)], None, "off")
    # a diffuse shell and a tight core-like shell 5-10 bohr apart, in both listing orders, moments of order 3-4 about the tight
    # shell's centre (the product centre is next to the origin, the diffuse centre far from it)
    for k, (ld, lt, et) in enumerate([(0, 1, 4000.0), (1, 2, 800.0)] if run.tier == "quick" else [(0, 1, 4000.0), (1, 2, 800.0), (2, 0, 5.0e4), (0, 3, 90.0)]):
        tight = ShellSpec(lt, [0.3, -0.2, 0.1], [et, et * 0.3], [[0.5], [0.6]])
        diffuse = ShellSpec(ld, [0.3 + 5.5, -0.2 - 4.0, 0.1 + 6.0], [0.02, 0.05], [[1.0], [0.4]])
        for sp_ in ([diffuse, tight], [tight, diffuse]):
            one_case(run, sp_, list(tight.center), [(0, 0, 4), (0, 0, 3), (2, 0, 2), (1, 1, 2), (0, 0, 0)], None, "on-centre")
        run.count("diffuse shell listed with a tight shell, high orders about the tight centre")
    representation_cases(run)
    scanned_origin_case(run)
    long_list_case(run)
    if run.tier != "quick":
        long_list_case(run, 5, 3, 4)
    from checks.common import structural_families
    for lab, specs, T in structural_families(run):
        one_case(run, specs, [0.3, -0.1, 0.2], [(1, 0, 0), (0, 2, 1), (0, 0, 0), (3, 0, 1)], T, "off")
        run.count(lab)


def replay(run, rep):
    n0 = len(run.violations)
    if rep.get("case") == "scan-origin":
        scanned_origin_case(run)
        return len(run.violations) == n0
    if rep.get("case") == "long-list":
        long_list_case(run)
        return len(run.violations) == n0
    if rep.get("case") == "representation":
        representation_cases(run)
        return len(run.violations) == n0
    if rep.get("case") == "moment":
        t = rep.get("transform")
        one_case(run, specs_from(rep), rep["origin"], rep["orders"], None if t is None else np.array(t))
    else:
        relations(run, specs_from(rep), rep["origin"])
    return len(run.violations) == n0
