"""Catalogue of public functions used by the relational checks (C09, C11, C12, C13).

Every entry: name, number of leading basis axes, kind of the trailing axes under rotations, and a
callable(basis, env) where env carries points, charges, moment origin/orders, density matrix.
"""
import numpy as np


class Env:
    def __init__(self, points=None, charges=None, charge_pos=None, origin=None, orders=None):
        self.points = points
        self.charges = charges
        self.charge_pos = charge_pos
        self.origin = origin
        self.orders = orders


def _overlap(b, e, transform=None):
    from gbasis.integrals.overlap import overlap_integral
    return overlap_integral(b, transform=transform)


def _overlap_screened(b, e, transform=None):
    from gbasis.integrals.overlap import overlap_integral
    return overlap_integral(b, transform=transform, tol_screen=1e-8)


def _kinetic(b, e, transform=None):
    from gbasis.integrals.kinetic_energy import kinetic_energy_integral
    return kinetic_energy_integral(b, transform=transform)


def _momentum(b, e, transform=None):
    from gbasis.integrals.momentum import momentum_integral
    return momentum_integral(b, transform=transform)


def _angmom(b, e, transform=None):
    from gbasis.integrals.angular_momentum import angular_momentum_integral
    return angular_momentum_integral(b, transform=transform)


def _moment(b, e, transform=None):
    from gbasis.integrals.moment import moment_integral
    return moment_integral(b, e.origin, e.orders, transform=transform)


def _pointcharge(b, e, transform=None):
    from gbasis.integrals.point_charge import point_charge_integral
    return point_charge_integral(b, e.charge_pos, e.charges, transform=transform)


def _nuclear(b, e, transform=None):
    from gbasis.integrals.nuclear_electron_attraction import nuclear_electron_attraction_integral
    return nuclear_electron_attraction_integral(b, e.charge_pos, e.charges, transform=transform)


def _eri(b, e, transform=None):
    from gbasis.integrals.electron_repulsion import electron_repulsion_integral
    return electron_repulsion_integral(b, transform=transform, notation="chemist")


def _eri_phys(b, e, transform=None):
    from gbasis.integrals.electron_repulsion import electron_repulsion_integral
    return electron_repulsion_integral(b, transform=transform, notation="physicist")


def _eval(b, e, transform=None):
    from gbasis.evals.eval import evaluate_basis
    return evaluate_basis(b, e.points, transform=transform)


def _evalderiv(orders, dt="general"):
    def f(b, e, transform=None):
        from gbasis.evals.eval_deriv import evaluate_deriv_basis
        return evaluate_deriv_basis(b, e.points, np.array(orders), transform=transform, deriv_type=dt)
    return f


# name -> (callable, number of basis axes, cost class)
FUNCS = {
    "overlap": (_overlap, 2, 1),
    "overlap(tol_screen=1e-8)": (_overlap_screened, 2, 1),
    "kinetic": (_kinetic, 2, 1),
    "momentum": (_momentum, 2, 1),
    "angular_momentum": (_angmom, 2, 1),
    "moment": (_moment, 2, 1),
    "point_charge": (_pointcharge, 2, 2),
    "nuclear_attraction": (_nuclear, 2, 2),
    "eri_chemist": (_eri, 4, 3),
    "eri_physicist": (_eri_phys, 4, 3),
    "evaluate_basis": (_eval, 1, 1),
    "evaluate_deriv_basis(1,0,2)": (_evalderiv((1, 0, 2)), 1, 1),
    "evaluate_deriv_basis(0,2,0,direct)": (_evalderiv((0, 2, 0), "direct"), 1, 1),
}


def default_env(rng, specs, npts=4, ncharge=2):
    from gbv import core
    pts = np.array([[core.snap(rng.uniform(-2, 2), 10) for _ in range(3)] for _ in range(npts)])
    cpos = np.array([[core.snap(rng.uniform(-2, 2), 10) for _ in range(3)] for _ in range(ncharge)])
    q = np.array([core.snap(rng.choice([-1, 1]) * rng.uniform(0.5, 3), 8) for _ in range(ncharge)])
    origin = np.array([core.snap(rng.uniform(-1, 1), 8) for _ in range(3)])
    orders = np.array([[1, 0, 0], [0, 1, 0], [0, 0, 1], [2, 0, 1], [0, 0, 0]])
    return Env(points=pts, charges=q, charge_pos=cpos, origin=origin, orders=orders)


def offsets(specs):
    out, acc = [], 0
    for s in specs:
        out.append(acc)
        acc += s.size
    return out, acc


def index_perm(specs, perm):
    """indices such that array_of(permuted basis) == array_of(basis)[ix] on every basis axis;
    permuted basis = [specs[i] for i in perm]"""
    offs, _ = offsets(specs)
    ix = []
    for i in perm:
        ix.extend(range(offs[i], offs[i] + specs[i].size))
    return np.array(ix, dtype=int)


def apply_on_axes(arr, mats, naxes):
    """contract matrix mats[k] (new x old) with basis axis k of arr, k < naxes"""
    from gbv import core
    for k in range(naxes):
        if arr.ndim <= k or arr.shape[k] != mats[k].shape[1]:
            raise core.WrongShape(f"array of shape {arr.shape} returned where basis axis {k} must have length {mats[k].shape[1]}")
        arr = np.moveaxis(np.tensordot(mats[k], arr, (1, k)), 0, k)
    return arr


def rel_tol(fname, ref):
    """tolerance of a relational comparison between two evaluations of the same quantity: 1e-9 of the largest magnitude
    (1e-6 for the repulsion array, the property's own slack) plus an absolute floor of 1e-12 — the quantities are
    matrix elements of normalised functions, so exact zeros (by parity, e.g. the momentum matrix of a single shell) come out
    as rounding noise of order 1e-17 that must not be compared relatively"""
    import numpy as np
    return (1e-6 if fname.startswith("eri") else 1e-9) * float(np.abs(ref).max() if np.size(ref) else 0.0) + 1e-12
