"""C06 — density and density-derived fields equal their definitions."""
import itertools
from math import comb

import numpy as np

from gbv import core
from checks.common import *

RULE = ("(P) the linear forms of every function of density.py are read off the running implementation by exact probing and "
        "must equal the model's forms (kernel-checked obligation GBProofs.Obl.Forms); (C) bases of 1-4 shells (l 0..4, "
        "generalized, mixed types), random symmetric density matrices (PSD and indefinite), 1-30 points, all 125 order "
        "triples 0..4 (thorough; a spread in quick), both back-ends, square and rectangular transformations: every public "
        "function compared with the *defining* full Leibniz sums built from the Lean model's derivative values within "
        "1e-9 x magnitude; Hessian symmetry and trace; PSD => no rejection; thresholds bracketing the most negative value "
        "by factors (1 +- 2^-20) must clip / raise; distinct by (function, orders, back-end, basis signature)")
ASSUMPTIONS = ["defining sums are evaluated in float64 from 320-bit model values of the basis-function derivatives"]


def leibniz(dc, gamma, L):
    val, mag = 0.0, 0.0
    for lx in range(L[0] + 1):
        for ly in range(L[1] + 1):
            for lz in range(L[2] + 1):
                c = comb(L[0], lx) * comb(L[1], ly) * comb(L[2], lz)
                v, g = dc.D(gamma, (lx, ly, lz), (L[0] - lx, L[1] - ly, L[2] - lz))
                val, mag = val + c * v, mag + c * g
    return val, mag


def setup(rng, quick, lmax=4):
    specs = random_basis(rng, 1, 2 if quick else 4, lmax=lmax, exp_hi=20.0)
    n = sum(s.size for s in specs)
    t = None
    r = rng.random()
    if r < 0.25:
        t = random_transform(rng, n, rect=True)
    elif r < 0.4:
        t = random_transform(rng, n, rect=False)
    m = n if t is None else t.shape[0]
    psd = rng.random() < 0.5
    gamma = random_symmetric(rng, m, psd)
    pts = np.array([[core.snap(rng.uniform(-2, 2), 10) for _ in range(3)] for _ in range(rng.randint(1, 5 if quick else 30))]
                   + [specs[0].center])
    return specs, t, gamma, pts, psd


def rep_of(specs, t, gamma, pts, **kw):
    d = {"basis": core.describe_basis(specs), "transform": None if t is None else t.tolist(),
         "gamma": gamma.tolist(), "points": pts.tolist()}
    d.update(kw)
    return d


def deriv_case(run, specs, t, gamma, pts, L, dt):
    from gbasis.evals.density import evaluate_deriv_density
    dc = DerivCache(run, specs, pts, t)
    impl = evaluate_deriv_density(np.array(L), gamma, make_basis(specs), pts, transform=t, deriv_type=dt)
    val, mag = leibniz(dc, gamma, L)
    run.case(("deriv", tuple(L), dt) + sig(specs) + (t is not None,),
             sample={"op": "evaluate_deriv_density", "orders": list(L), "deriv_type": dt, "basis": core.describe_basis(specs)})
    run.count("deriv_density total order %d" % sum(L))
    run.count("backend " + dt)
    if t is not None:
        run.count("transform " + ("square" if t.shape[0] == t.shape[1] else "rectangular"))
    return compare(run, "evaluate_deriv_density", impl, val, 1e-9 * mag + 1e-300,
                   rep_of(specs, t, gamma, pts, case="deriv", orders=list(L), deriv_type=dt), "density-deriv")


def held_results_case(run, specs, t, gamma, pts, dt):
    """several results on the same grid are kept by the caller and compared only after all calls have been made (a caller sums
    d2rho/dx2 + d2rho/dy2 + d2rho/dz2): every returned array must still hold its own values and no two of them may share memory"""
    from gbasis.evals import density as D
    basis = make_basis(specs)
    dc = DerivCache(run, specs, pts, t)
    orders = [(2, 0, 0), (0, 2, 0), (0, 0, 2), (1, 1, 0), (0, 0, 0)]
    held = [D.evaluate_deriv_density(np.array(L), gamma, basis, pts, transform=t, deriv_type=dt) for L in orders]
    held.append(D.evaluate_density_laplacian(gamma, basis, pts, transform=t, deriv_type=dt))
    held.append(D.evaluate_density_gradient(gamma, basis, pts, transform=t, deriv_type=dt))
    # a later request on a grid with the same number of points (other basis-independent arguments)
    D.evaluate_deriv_density(np.array([1, 0, 1]), gamma, basis, pts + 0.125, transform=t, deriv_type=dt)
    run.case(("held", dt) + sig(specs) + (t is not None,))
    run.count("results held across later calls")
    ok = True
    for L, impl in zip(orders, held):
        val, mag = leibniz(dc, gamma, L)
        ok &= compare(run, "evaluate_deriv_density (result kept while later calls were made)", impl, val, 1e-9 * mag + 1e-300,
                      rep_of(specs, t, gamma, pts, case="held", deriv_type=dt, orders=list(L)), "density-held")
    for i in range(len(held)):
        for j in range(i + 1, len(held)):
            if np.shares_memory(held[i], held[j]):
                run.violation("two results of separate density calls share memory",
                              rep_of(specs, t, gamma, pts, case="held", deriv_type=dt, signature={"kind": "density-held-shared"}))
                return False
    return ok


def fields_case(run, specs, t, gamma, pts, dt, psd, alpha):
    from gbasis.evals import density as D
    basis = make_basis(specs)
    dc = DerivCache(run, specs, pts, t)
    rep = rep_of(specs, t, gamma, pts, case="fields", deriv_type=dt, alpha=alpha, psd=psd)
    run.case(("fields", dt, alpha) + sig(specs) + (t is not None, psd))
    run.count("psd" if psd else "indefinite")
    e = [(1, 0, 0), (0, 1, 0), (0, 0, 1)]
    z = (0, 0, 0)
    ok = True
    # gradient
    g = D.evaluate_density_gradient(gamma, basis, pts, transform=t, deriv_type=dt)
    for i in range(3):
        v, m = dc.D(gamma, e[i], z)
        ok &= compare(run, f"evaluate_density_gradient[{i}]", g[:, i], 2 * v, 2e-9 * m + 1e-300, rep, "density-gradient")
    # laplacian
    lap = D.evaluate_density_laplacian(gamma, basis, pts, transform=t, deriv_type=dt)
    lv, lm = 0.0, 0.0
    for i in range(3):
        v1, m1 = dc.D(gamma, tuple(2 * x for x in e[i]), z)
        v2, m2 = dc.D(gamma, e[i], e[i])
        lv, lm = lv + 2 * v1 + 2 * v2, lm + 2 * m1 + 2 * m2
    ok &= compare(run, "evaluate_density_laplacian", lap, lv, 1e-9 * lm + 1e-300, rep, "density-laplacian")
    # hessian
    h = D.evaluate_density_hessian(gamma, basis, pts, transform=t, deriv_type=dt)
    for r in range(3):
        for c in range(3):
            v, m = leibniz(dc, gamma, tuple(a + b for a, b in zip(e[r], e[c])))
            ok &= compare(run, f"evaluate_density_hessian[{r},{c}]", h[:, r, c], v, 1e-9 * m + 1e-300, rep, "density-hessian")
    if ok:
        if np.abs(h - h.transpose(0, 2, 1)).max() > 1e-9 * lm.max() + 1e-300:
            run.violation("density Hessian is not symmetric", dict(rep, signature={"kind": "hessian-symmetric"}))
            ok = False
        if np.any(np.abs(np.trace(h, axis1=1, axis2=2) - lap) > 1e-9 * lm + 1e-300):
            run.violation("trace of the density Hessian differs from the Laplacian", dict(rep, signature={"kind": "hessian-trace"}))
            ok = False
    # density and t+ with clipping; unclipped values from the public lower-level functions
    rho_v, rho_m = dc.D(gamma, z, z)
    tp_v = sum(dc.D(gamma, e[i], e[i])[0] for i in range(3)) / 2
    tp_m = sum(dc.D(gamma, e[i], e[i])[1] for i in range(3)) / 2
    for name, fn, v, m in (("evaluate_density", lambda thr: D.evaluate_density(gamma, basis, pts, transform=t, threshold=thr), rho_v, rho_m),
                           ("evaluate_posdef_kinetic_energy_density",
                            lambda thr: D.evaluate_posdef_kinetic_energy_density(gamma, basis, pts, transform=t, deriv_type=dt, threshold=thr), tp_v, tp_m)):
        big = fn(1e300)
        ok &= compare(run, name, big, np.maximum(v, 0.0), 1e-9 * m + 1e-300, rep, "density-value")
        if psd:
            try:
                fn(1e-8 * max(1.0, float(m.max())))
            except ValueError:
                run.violation(f"{name} rejected a positive semi-definite density matrix", dict(rep, signature={"kind": "psd-rejected"}))
                ok = False
        mn = float(v.min())
        if mn < -1e-6 * float(m.max()):     # a clearly negative value: bracket it
            run.count("clip boundary bracketed")
            for thr, want in ((-mn * (1 + 2.0 ** -20), "clip"), (-mn * (1 - 2.0 ** -20), "raise")):
                try:
                    out = fn(thr)
                    got = "clip"
                    if np.any(out < 0) or np.abs(out - np.maximum(v, 0)).max() > 1e-9 * m.max():
                        got = "wrong values"
                except ValueError:
                    got = "raise"
                if got != want:
                    run.violation(f"{name}: most negative value {mn!r}, threshold {thr!r}: expected {want}, implementation did {got}",
                                  dict(rep, function=name, threshold=thr, min_value=mn, signature={"kind": "clip-rule"}))
                    ok = False
    # general kinetic energy density
    if not (tp_v.min() < -1e-8):
        gk = D.evaluate_general_kinetic_energy_density(gamma, basis, pts, alpha, transform=t, deriv_type=dt)
        ok &= compare(run, "evaluate_general_kinetic_energy_density", gk, np.maximum(tp_v, 0) + alpha * lv,
                      1e-9 * (tp_m + abs(alpha) * lm) + 1e-300, rep, "general-ke")
    return ok


def zero_threshold_case(run, rng, scale):
    """threshold given as exactly 0 (int, float): every strictly negative value must be rejected, however small; with the default
    threshold the same tiny negative values are clipped to zero"""
    from gbasis.evals import density as D
    specs = random_basis(rng, 1, 2, lmax=1, exp_hi=5.0)
    basis = make_basis(specs)
    n = sum(s_.size for s_ in specs)
    a = np.array([[core.snap(rng.uniform(-1, 1), 10) for _ in range(n)] for _ in range(n)])
    gamma = -(a @ a.T + np.eye(n)) * scale          # negative definite, tiny
    pts = np.array([list(specs[0].center), [0.3, -0.2, 0.4]])
    rep = rep_of(specs, None, gamma, pts, case="zero-threshold", scale=scale)
    run.case(("zero-threshold", scale) + sig(specs))
    run.count("threshold exactly 0 with tiny negative values (%g)" % scale)
    ok = True
    for name, fn in (("evaluate_density", lambda thr: D.evaluate_density(gamma, basis, pts, threshold=thr)),
                     ("evaluate_posdef_kinetic_energy_density", lambda thr: D.evaluate_posdef_kinetic_energy_density(gamma, basis, pts, threshold=thr))):
        for thr in (0, 0.0):
            try:
                out = fn(thr)
                run.violation(f"{name}(threshold={thr!r}) returned {out.tolist()} although the values are negative (of order {scale:g}); "
                              "with threshold 0 every negative value must be rejected",
                              dict(rep, function=name, threshold=thr, signature={"kind": "clip-rule-zero-threshold"}))
                ok = False
            except ValueError:
                pass
        if scale < 1e-9:
            try:
                out = fn(1e-8)
                if np.any(out != 0):
                    run.violation(f"{name}(threshold=1e-8) did not clip tiny negative values to zero", dict(rep, function=name, signature={"kind": "clip-rule"}))
                    ok = False
            except ValueError:
                run.violation(f"{name}(threshold=1e-8) rejected values of order {scale:g}", dict(rep, function=name, signature={"kind": "clip-rule"}))
                ok = False
    return ok


def representation_cases(run):
    """the same points / density matrix passed as other kinds of ndarray (Fortran order, strided view, read-only, int64, float32)"""
    from gbasis.evals import density as D
    rng = run.rng
    cs = []
    specs = [rand_shell(rng, l, cs, nprim=1 + l, nseg=1, exp_hi=5.0) for l in (0, 1)]
    basis = make_basis(specs)
    n = sum(s.size for s in specs)
    pts = np.array([[0.0, 1.0, -1.0], [2.0, 0.0, 1.0]])
    g = np.eye(n) * 2.0
    g[0, n - 1] = g[n - 1, 0] = 1.0
    rep = {"basis": core.describe_basis(specs), "points": pts.tolist(), "gamma": g.tolist()}
    funcs = {"evaluate_density": lambda d, p: D.evaluate_density(d, basis, p),
             "evaluate_deriv_density(1,0,2)": lambda d, p: D.evaluate_deriv_density(np.array([1, 0, 2]), d, basis, p),
             "evaluate_density_gradient": lambda d, p: D.evaluate_density_gradient(d, basis, p),
             "evaluate_density_laplacian": lambda d, p: D.evaluate_density_laplacian(d, basis, p),
             "evaluate_density_hessian": lambda d, p: D.evaluate_density_hessian(d, basis, p),
             "evaluate_posdef_kinetic_energy_density": lambda d, p: D.evaluate_posdef_kinetic_energy_density(d, basis, p),
             "evaluate_general_kinetic_energy_density": lambda d, p: D.evaluate_general_kinetic_energy_density(d, basis, p, 0.5)}
    # whether a representation of the density matrix is accepted cannot depend on the *orders* requested
    from checks.common import repr_variants
    for lab, v in repr_variants(g):
        outcome = {}
        for L in ((1, 0, 2), (2, 0, 0), (0, 0, 0), (1, 1, 0), (0, 2, 2), (0, 1, 0)):
            try:
                r = D.evaluate_deriv_density(np.array(L), v, basis, pts)
                outcome[L] = "accepted"
            except TypeError:
                outcome[L] = "TypeError"
        run.case(("repr-consistency", lab))
        if len(set(outcome.values())) > 1:
            run.violation(f"evaluate_deriv_density accepts a {lab} density matrix for some derivative orders and rejects it for others: "
                          + ", ".join(f"{k}: {o}" for k, o in outcome.items()),
                          dict(rep, case="representation", function="evaluate_deriv_density", variant=lab, signature={"kind": "representation-consistency"}))
    for name, f in funcs.items():
        repr_case(run, name, "points", lambda p, f=f: f(g, p), pts, rep)
        if run.tier != "quick" or name in ("evaluate_density", "evaluate_density_gradient", "evaluate_density_hessian"):
            repr_case(run, name, "one_density_matrix", lambda d, f=f: f(d, pts), g, rep)


def check(run):
    rng = run.rng
    quick = run.tier == "quick"
    triples = list(itertools.product(range(5), repeat=3))
    rng.shuffle(triples)
    if quick:
        triples = triples[:22] + [(4, 4, 4), (0, 0, 4), (3, 0, 3)]
    for n, L in enumerate(triples):
        specs, t, gamma, pts, psd = setup(rng, quick, lmax=2 if sum(L) >= 9 else (3 if quick else 4))
        deriv_case(run, specs, t, gamma, pts, L, "general" if n % 2 else "direct")
    for n in range(6 if quick else 40):
        specs, t, gamma, pts, psd = setup(rng, quick, lmax=3)
        alpha = [0, 0.5, 1, -0.375, 2.25, 1.0][n % 6]
        fields_case(run, specs, t, gamma, pts, "general" if n % 2 else "direct", psd, alpha)
    # alpha given as numpy float scalars (elements of an array, results of numpy arithmetic) and as Python ints
    for n, alpha in enumerate([np.float64(0.25), np.linspace(-0.5, 0.5, 5)[1], np.float64(0.0), 2, 0, np.sqrt(2.0)]):
        specs, t, gamma, pts, psd = setup(rng, quick, lmax=2)
        fields_case(run, specs, t, gamma, pts, "general" if n % 2 else "direct", psd, alpha)
        run.count("alpha of type " + type(alpha).__name__)
    # alpha in R: tiny non-zero values; density matrices with exact zeros on the diagonal (with and without transformation)
    from checks.common import zero_diag_symmetric
    for n, alpha in enumerate([4e-9, -1e-12, 1e-300, -2.5e-7] if quick else [4e-9, -1e-12, 1e-300, -2.5e-7, 1e-8, -1e-8, 3e-16, 1e-5]):
        specs, t, gamma, pts, psd = setup(rng, quick, lmax=2)
        # core-like exponents make the Laplacian large next to t+, so that a dropped alpha * Laplacian is visible
        specs = [s_.copy(exps=[e * (1e4 if k == 0 else 1.0) for k, e in enumerate(s_.exps)]) for s_ in specs]
        fields_case(run, specs, t, gamma, np.vstack([pts, [specs[0].center]]), "general" if n % 2 else "direct", psd, alpha)
        run.count("tiny alpha")
    for n in range(4 if quick else 16):
        specs, t, gamma, pts, psd = setup(rng, quick, lmax=2)
        m = gamma.shape[0]
        if n % 2 == 0 and t is None:
            t = random_transform(rng, sum(s_.size for s_ in specs), rect=True)
            m = t.shape[0]
        gamma = zero_diag_symmetric(rng, m, nzero=1 + n % 2)
        fields_case(run, specs, t, gamma, pts, "general" if n % 2 else "direct", False, 0.25)
        deriv_case(run, specs, t, gamma, pts, (1, 0, 1) if n % 2 else (0, 0, 0), "general")
        run.count("zero-diagonal density matrix")
    for n in range(2 if quick else 8):
        specs, t, gamma, pts, psd = setup(rng, quick, lmax=2)
        held_results_case(run, specs, t, gamma, pts, "general" if n % 2 else "direct")
    # nearly trivial transformation matrices
    from checks.common import near_identity_transforms
    specs, t, gamma, pts, psd = setup(rng, quick, lmax=1 if quick else 2)
    nb = sum(s_.size for s_ in specs)
    for n, (lab, T) in enumerate(near_identity_transforms(rng, nb)):
        gamma = random_symmetric(rng, nb, psd=bool(n % 2))
        fields_case(run, specs, T, gamma, pts, "general" if n % 2 else "direct", bool(n % 2), 0.5)
        deriv_case(run, specs, T, gamma, pts, (1, 0, 1), "direct")
        run.count("transform " + lab)
    # density matrices symmetric only up to rounding (transformed to another orbital basis and back)
    from checks.common import rounding_noise_symmetric
    for n in range(2 if quick else 8):
        specs, t, gamma, pts, psd = setup(rng, quick, lmax=2)
        noisy, exact = rounding_noise_symmetric(rng, gamma.shape[0], diagonal=(n % 2 == 0))
        fields_case(run, specs, t, noisy, pts, "general" if n % 2 else "direct", n % 2 == 0, 0.5)
        deriv_case(run, specs, t, noisy, pts, (1, 1, 0), "general")
        run.count("density matrix symmetric up to rounding")
    for sc in ((1e-11, 1e-3) if quick else (1e-11, 1e-3, 1e-14, 1.0)):
        zero_threshold_case(run, rng, sc)
    # deliberately negative densities: clip boundary
    for n in range(3 if quick else 12):
        specs, t, gamma, pts, psd = setup(rng, quick, lmax=2)
        gamma = -np.abs(gamma) @ np.abs(gamma).T * 0.01
        fields_case(run, specs, t, gamma, pts, "general", False, 0.25)
    # every field is linear in the density matrix: matrices of small magnitude (response / difference densities, anything scaled
    # by 1e-9 .. 1e-12) whose off-diagonal elements are tiny in absolute terms but not next to the diagonal
    for n, scale in enumerate((1e-9, 1e-12, 1e-10) if quick else (1e-9, 1e-12, 1e-10, 1e-8, 1e-15, 1e-9)):
        specs, t, gamma, pts, psd = setup(rng, quick, lmax=2)
        gamma = random_symmetric(rng, gamma.shape[0], psd=True) * scale
        fields_case(run, specs, t, gamma, pts, "general" if n % 2 else "direct", True, 0.5)
        deriv_case(run, specs, t, gamma, pts, [(0, 0, 0), (1, 0, 1), (2, 0, 0)][n % 3], "general" if n % 2 == 0 else "direct")
        run.count("density matrix of magnitude %g" % scale)
    # generalized shells with structured coefficient matrices (several segmented contractions stored as one shell, ...)
    from checks.common import structured_coefficient_shell
    for n, kind in enumerate(("block-disjoint", "permutation", "shared-primitive") if quick else
                             ("block-disjoint", "permutation", "shared-primitive", "diagonal", "triangular", "block-disjoint")):
        sh = structured_coefficient_shell(rng, n % 3, kind, sph=bool(n % 2))
        other = rand_shell(rng, (n + 1) % 2, [], nprim=2, nseg=1, exp_hi=10.0)
        specs = [sh, other]
        nb = sum(s_.size for s_ in specs)
        pts = np.array([[core.snap(rng.uniform(-2, 2), 10) for _ in range(3)] for _ in range(2)] + [sh.center, [x + 0.25 for x in sh.center],
                       [sh.center[0] - 0.5, sh.center[1] + 0.125, sh.center[2]]])
        fields_case(run, specs, None, random_symmetric(rng, nb, psd=True), pts, "general" if n % 2 else "direct", True, 0.5)
        run.count("coefficient matrix of %s type" % kind)
    from checks import c09 as _c09
    _c09.positional_arguments_case(run, rng, only=('density',))
    representation_cases(run)


def replay(run, rep):
    if rep.get("case") == "positional":
        from checks import c09 as _c09
        n0_ = len(run.violations)
        _c09.positional_arguments_case(run, run.rng, only=('density',))
        return len(run.violations) == n0_
    n0 = len(run.violations)
    specs = specs_from(rep)
    t = None if rep.get("transform") is None else np.array(rep["transform"])
    if rep.get("case") == "zero-threshold":
        n0 = len(run.violations)
        zero_threshold_case(run, run.rng, rep.get("scale", 1e-11))
        return len(run.violations) == n0
    if rep.get("case") == "held":
        n0 = len(run.violations)
        held_results_case(run, specs_from(rep), t, np.array(rep["gamma"]), np.array(rep["points"]), rep["deriv_type"])
        return len(run.violations) == n0
    gamma, pts = np.array(rep["gamma"]), np.array(rep["points"])
    if rep.get("case") == "representation":
        representation_cases(run)
    elif rep.get("case") == "deriv":
        deriv_case(run, specs, t, gamma, pts, tuple(rep["orders"]), rep["deriv_type"])
    else:
        fields_case(run, specs, t, gamma, pts, rep["deriv_type"], rep.get("psd", False), rep.get("alpha", 0.25))
    return len(run.violations) == n0
