"""C16 — analytic integrals and pointwise evaluations describe the same functions."""
import numpy as np

from gbv import core
from checks.common import *

RULE = ("bases of 1-3 shells (l 0..4, generalized, Cartesian/spherical/mixed) with exponents 0.3..3 and centres within 1 bohr of "
        "the origin; the library's evaluate_basis / evaluate_deriv_basis / evaluate_density / "
        "evaluate_posdef_kinetic_energy_density outputs are integrated with the trapezoid rule on a uniform grid (h = 0.2, box "
        "+-9 bohr, 91^3 points; geometric convergence below 1e-12) and compared with overlap_integral, moment_integral (orders "
        "up to 2, several origins), kinetic_energy_integral (half the products of gradients), tr(gamma S) and tr(gamma T) within "
        "1e-8 x scale; distinct by basis signature")
ASSUMPTIONS = ["trapezoid rule error < 1e-10 for the stated exponent/centre range (band-limited Gaussians; checked by halving h in the thorough tier)"]

H = 0.2      # the property quotes h = 0.25; for l = 4 with exponents near 3 that spacing leaves an error of ~1e-6 in the
             # kinetic diagonal (measured: 7e-7 at h = 0.25, 4e-13 at h = 0.2), so the check integrates on a finer grid
BOX = 9.0


def grid():
    ax = np.arange(-BOX, BOX + H / 2, H)
    g = np.stack(np.meshgrid(ax, ax, ax, indexing="ij"), axis=-1).reshape(-1, 3)
    return g, H ** 3


def one_case(run, specs, gamma, origin, check_tau=True):
    from gbasis.evals.density import evaluate_density, evaluate_posdef_kinetic_energy_density
    from gbasis.evals.eval import evaluate_basis
    from gbasis.evals.eval_deriv import evaluate_deriv_basis
    from gbasis.integrals.kinetic_energy import kinetic_energy_integral
    from gbasis.integrals.moment import moment_integral
    from gbasis.integrals.overlap import overlap_integral

    basis = make_basis(specs)
    pts, w = grid()
    # the quadrature sum does not depend on the order of the points: visit them in a random order, so that whatever an
    # implementation does with a particular part of one call (the first / last points, a block boundary) hits the whole box
    pts = pts[np.random.default_rng(run.rng.randrange(2 ** 32)).permutation(len(pts))]
    n = sum(s.size for s in specs)
    S = np.zeros((n, n))
    Tm = np.zeros((n, n))
    orders = np.array([[0, 0, 0], [1, 0, 0], [0, 1, 0], [0, 0, 1], [2, 0, 0], [1, 1, 0], [0, 1, 1], [0, 0, 2]])
    M = np.zeros((n, n, len(orders)))
    rho_int = 0.0
    tau_int = 0.0
    tau_min = np.inf        # smallest value of 1/2 sum gamma_ab grad phi_a . grad phi_b on the grid (t+ is clipped at 0 by the library)
    # points per call: the whole grid (389 017 points) in one call for small bases, otherwise 100 003 or 60 000 — the result must
    # not depend on how the grid is split over calls
    chunk = len(pts) if n <= 4 else (100003 if n <= 9 else 60000)
    run.count(f"points per call {chunk}")
    for i in range(0, len(pts), chunk):
        p = pts[i:i + chunk]
        v = evaluate_basis(basis, p)
        S += w * v @ v.T
        for k, o in enumerate(orders):
            mono = np.prod((p - origin) ** o, axis=1)
            M[:, :, k] += w * (v * mono) @ v.T
        tau_ref = np.zeros(len(p))
        for ax in range(3):
            o = np.zeros(3, dtype=int)
            o[ax] = 1
            d = evaluate_deriv_basis(basis, p, o, deriv_type="direct" if ax % 2 else "general")
            Tm += 0.5 * w * d @ d.T
            tau_ref += 0.5 * np.einsum("ab,ap,bp->p", gamma, d, d)
        tau_min = min(tau_min, float(tau_ref.min()))
        rho_int += w * float(np.sum(evaluate_density(gamma, basis, p, threshold=1e300)))
        tau_int += w * float(np.sum(evaluate_posdef_kinetic_energy_density(gamma, basis, p, threshold=1e300)))
    rep = {"case": "grid", "basis": core.describe_basis(specs), "gamma": gamma.tolist(), "origin": list(map(float, origin))}
    run.case(("grid",) + sig(specs), sample={"op": "grid quadrature vs integrals", "basis": core.describe_basis(specs)})
    count_basis(run, specs)
    Sx = overlap_integral(basis)
    Tx = kinetic_energy_integral(basis)
    Mx = moment_integral(basis, np.array(origin, dtype=float), orders)
    ok = compare(run, "∫ phi_a phi_b vs overlap_integral", S, Sx, 1e-8, rep, "grid-overlap")
    dT = np.sqrt(np.abs(np.diag(Tx)))
    ok &= compare(run, "½∫ grad phi_a . grad phi_b vs kinetic_energy_integral", Tm, Tx, 1e-8 * np.outer(dT, dT) + 1e-10, rep, "grid-kinetic")
    ok &= compare(run, "∫ phi_a (r-O)^k phi_b vs moment_integral", M, Mx, 1e-8 * (1 + np.abs(Mx).max()), rep, "grid-moment")
    # clipping at 0 hides negative parts: use a PSD gamma so that the fields are non-negative
    trS = float(np.sum(gamma * Sx))
    trT = float(np.sum(gamma * Tx))
    if abs(rho_int - trS) > 1e-8 * (1 + abs(trS)):
        run.violation(f"∫ rho = {rho_int!r} differs from tr(gamma S) = {trS!r}", dict(rep, signature={"kind": "grid-density"}))
        ok = False
    if check_tau and tau_min < -1e-14:
        run.count("t+ not compared: the kinetic energy density of this indefinite matrix is negative somewhere")
    elif check_tau and abs(tau_int - trT) > 1e-8 * (1 + abs(trT)):
        run.violation(f"∫ t+ = {tau_int!r} differs from tr(gamma T) = {trT!r}", dict(rep, signature={"kind": "grid-tau"}))
        ok = False
    return ok


def check(run):
    rng = run.rng
    quick = run.tier == "quick"
    for k in range(3 if quick else 14):
        n = 1 + k % 3
        specs = []
        for i in range(n):
            l = [0, 1, 2, 3, 4, 2, 1, 3, 0, 4][(k * 3 + i) % 10]
            if quick and n == 3:
                l = min(l, 2)
            c = [core.snap(rng.uniform(-0.57, 0.57), 8) for _ in range(3)]
            npr = rng.randint(1, 3)
            exps = sorted({core.rand_exp(rng, 0.3, 3.0) for _ in range(npr)})
            coeffs = [[core.rand_coeff(rng) for _ in range(rng.randint(1, 2))] for _ in exps]
            m = len(coeffs[0])
            coeffs = [row[:m] + [core.rand_coeff(rng)] * (m - len(row)) for row in coeffs]
            specs.append(ShellSpec(l, c, exps, coeffs, sph=bool((i + k) % 2)))
        nb = sum(s.size for s in specs)
        gamma = random_symmetric(rng, nb, psd=True)
        origin = [0.0, 0.0, 0.0] if k % 2 else [0.25, -0.5, 0.125]
        one_case(run, specs, gamma, np.array(origin))
    # an indefinite density matrix with an exact zero on the diagonal whose density is nevertheless non-negative everywhere
    # (positive s-type functions, non-negative matrix elements): the density must still integrate to tr(gamma S)
    cs = []
    specs = [ShellSpec(0, [core.snap(rng.uniform(-0.5, 0.5), 8) for _ in range(3)], [core.rand_exp(rng, 0.4, 2.5)], [[1.0]] if i else [[0.8, 0.3]],
                       sph=bool(i % 2)) for i in range(2)]
    nb = sum(s_.size for s_ in specs)
    gamma = np.array([[core.snap(rng.uniform(0.2, 1.0), 8) for _ in range(nb)] for _ in range(nb)])
    gamma = (gamma + gamma.T) / 2
    gamma[1, 1] = 0.0
    one_case(run, specs, gamma, np.zeros(3), check_tau=False)
    run.count("zero-diagonal density matrix with non-negative density")
    indefinite_tau_case(run)
    # several segmented contractions of one angular momentum stored as one shell (every primitive in exactly one column); a density
    # matrix of small magnitude (everything is linear in it)
    from checks.common import structured_coefficient_shell
    for k, kind in enumerate(("block-disjoint",) if quick else ("block-disjoint", "permutation", "shared-primitive", "block-disjoint")):
        sh = structured_coefficient_shell(rng, k % 2, kind, sph=bool(k % 2))
        sh = sh.copy(center=[core.snap(rng.uniform(-0.4, 0.4), 8) for _ in range(3)], exps=[min(max(e, 0.35), 2.0) * (1 + 0.21 * i) for i, e in enumerate(sh.exps)])
        other = ShellSpec(1 - k % 2, [core.snap(rng.uniform(-0.4, 0.4), 8) for _ in range(3)], [core.rand_exp(rng, 0.4, 2.5)], [[1.0]], sph=bool((k + 1) % 2))
        specs = [sh, other]
        nb = sum(s_.size for s_ in specs)
        one_case(run, specs, random_symmetric(rng, nb, psd=True) * (1e-9 if k % 2 else 1.0), np.zeros(3))
        run.count("coefficient matrix of %s type" % kind)
    # shells that keep their stored coefficients instead of renormalising (what from_iodata builds): the overlap diagonal is the true
    # self-overlap, not 1, and must equal the integrated squares of the evaluations
    c = [core.snap(rng.uniform(-0.4, 0.4), 8) for _ in range(3)]
    specs = [ShellSpec(0, c, [1.1, 0.4], [[0.7, 0.2], [0.4, 0.9]], unit_norm=False), ShellSpec(1, [c[0] + 0.5, c[1], c[2] - 0.3], [0.9], [[0.8]], sph=True, unit_norm=False)]
    nb = sum(s_.size for s_ in specs)
    one_case(run, specs, random_symmetric(rng, nb, psd=True), np.zeros(3))
    run.count("shells that are not renormalised")


def indefinite_tau_case(run):
    """an indefinite density matrix (a small negative occupation of one p function) whose kinetic energy density is non-negative
    everywhere although one Cartesian contribution to it is negative near the centre: it must still integrate to tr(gamma T)"""
    rng = run.rng
    c = [core.snap(rng.uniform(-0.3, 0.3), 8) for _ in range(3)]
    specs = [ShellSpec(0, [c[0] + 0.2, c[1] - 0.1, c[2] + 0.15], [0.3], [[1.0]]), ShellSpec(1, c, [2.0, 0.9], [[0.6], [0.5]])]
    occ = [1.0, -0.05, 0.8, 0.3]
    k = rng.randrange(3)
    occ[1], occ[1 + k] = occ[1 + k], occ[1]
    run.count("indefinite density matrix with non-negative kinetic energy density")
    return one_case(run, specs, np.diag(occ), np.zeros(3))


def replay(run, rep):
    n0 = len(run.violations)
    one_case(run, specs_from(rep), np.array(rep["gamma"]), np.array(rep["origin"]))
    return len(run.violations) == n0
