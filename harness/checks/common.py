"""Helpers shared by the property checks."""
import itertools

import numpy as np

from gbv import core
from gbv.core import ShellSpec, basis_tokens, make_basis, rand_shell, max_excess


def sig(specs):
    return tuple((s.l, s.sph, len(s.exps), s.nseg, s.exps[0]) for s in specs)


def btok(specs):
    return " ".join(basis_tokens(specs))


def count_basis(run, specs):
    for s in specs:
        run.count(f"l={s.l}")
        run.count("spherical" if s.sph else "cartesian")
        run.count(f"nprim={len(s.exps)}")
        run.count(f"nseg={s.nseg}")


def compare(run, what, impl, model, tol, replay, kind):
    """record a violation if impl deviates from the exact model value by more than tol"""
    impl = np.asarray(impl)
    ex, idx = max_excess(impl, model, tol)
    if ex > 0:
        info = dict(replay)
        info["index"] = idx
        if idx is not None:
            info["impl"] = complex(impl[idx]) if np.iscomplexobj(impl) else float(impl[idx])
            info["exact"] = complex(model[idx]) if np.iscomplexobj(model) else float(model[idx])
            t = np.asarray(tol)
            info["tolerance"] = float(t[idx]) if t.shape == impl.shape else float(t)
        else:
            info["impl_shape"] = list(impl.shape)
            info["exact_shape"] = list(np.asarray(model).shape)
        info.setdefault("signature", {"kind": kind})
        run.violation(f"{what}: implementation differs from the exact value at index {idx}", info)
        return False
    return True


def random_transform(rng, n, rect=True):
    m = rng.randint(1, n + 1) if rect else n
    return np.array([[core.snap(rng.uniform(-1, 1), 10) for _ in range(n)] for _ in range(m)])


def pair_specs(rng, la, lb, **kw):
    cs = []
    return [rand_shell(rng, la, cs, **kw), rand_shell(rng, lb, cs, **kw)]


def random_basis(rng, nmin=1, nmax=4, lmax=4, **kw):
    cs = []
    n = rng.randint(nmin, nmax)
    return [rand_shell(rng, rng.randint(0, lmax), cs, **kw) for _ in range(n)]


def specs_from(rep, key="basis"):
    return [ShellSpec.from_desc(d) for d in rep[key]]


# ---- density-type quantities from the model's derivative values ---------------------------------
class DerivCache:
    """model values (and magnitude majorants) of d^p phi_a at points, on demand"""

    def __init__(self, run, specs, pts, transform=None):
        self.run, self.specs, self.pts, self.t = run, specs, np.asarray(pts, dtype=float), transform
        self.cache = {}

    def get(self, p):
        p = tuple(int(v) for v in p)
        if p not in self.cache:
            line = (f"evalderiv general " + btok(self.specs) + f" {len(self.pts)} "
                    + " ".join(core.enc(x) for x in self.pts.ravel()) + " %d %d %d" % p)
            v, g = self.run.model.array_mag(line)
            if self.t is not None:
                v, g = self.t @ v, np.abs(self.t) @ g
            self.cache[p] = (v, g)
        return self.cache[p]

    def D(self, gamma, p, q):
        """(value, magnitude) of D(p;q) = sum_ab gamma_ab d^p phi_a d^q phi_b at every point"""
        vp, gp = self.get(p)
        vq, gq = self.get(q)
        return np.einsum("ab,ap,bp->p", gamma, vp, vq), np.einsum("ab,ap,bp->p", np.abs(gamma), gp, gq)


def parse_form(reply):
    """'ok c:p:q ...' -> [(Fraction, p, q)]"""
    from fractions import Fraction
    toks = reply.split()
    assert toks[0] == "ok", reply
    out = []
    for t in toks[1:]:
        c, p, q = t.split(":")
        out.append((Fraction(c), tuple(int(v) for v in p.split(",")), tuple(int(v) for v in q.split(","))))
    return out


def model_form(run, name, rationals=(), naturals=()):
    from fractions import Fraction
    qs = " ".join(f"{Fraction(q).numerator}/{Fraction(q).denominator}" for q in rationals)
    ns = " ".join(str(int(n)) for n in naturals)
    return parse_form(run.model.raw(f"form {name} {len(rationals)} {qs} {len(naturals)} {ns}"))


def eval_form(form, dc, gamma):
    val, mag = 0.0, 0.0
    for c, p, q in form:
        v, g = dc.D(gamma, p, q)
        val = val + float(c) * v
        mag = mag + abs(float(c)) * g
    return val, mag


def random_symmetric(rng, n, psd=False):
    a = np.array([[core.snap(rng.uniform(-1, 1), 10) for _ in range(n)] for _ in range(n)])
    if psd:
        return a @ a.T
    return (a + a.T) / 2


# ---- "tail regime": shell pairs whose Gaussian product factor exp(-mu_min R^2) is small but not negligible -----------
TAIL_LADDER = [6.0, 10.0, 14.0, 18.0, 21.0, 24.0, 28.0, 34.0]


def tail_pair(rng, la, lb, u, nprim=None):
    """two shells with moderately tight exponents at a separation R with mu_min * R^2 = u
    (mu_min from the most diffuse primitives), direction random"""
    import math
    sa = rand_shell(rng, la, [], nprim=nprim or rng.randint(1, 2), nseg=rng.randint(1, 2), exp_lo=0.5, exp_hi=20.0)
    sb = rand_shell(rng, lb, [], nprim=nprim or rng.randint(1, 2), nseg=rng.randint(1, 2), exp_lo=0.5, exp_hi=20.0)
    a, b = min(sa.exps), min(sb.exps)
    mu = a * b / (a + b)
    R = math.sqrt(u / mu)
    d = np.array([rng.gauss(0, 1) for _ in range(3)])
    d = d / np.linalg.norm(d) * R
    ca = [core.snap(rng.uniform(-1, 1), 8) for _ in range(3)]
    return sa.copy(center=ca), sb.copy(center=[float(x) for x in np.array(ca) + d])


# ---- nearly coincident centres: distinct centres 1e-7 .. 1e-3 bohr apart, near the origin or ~15 bohr away from it -----------
# (displaced copies of an atom in finite-difference geometries, ghost functions almost on an atom: a "same centre" shortcut
#  decided with a floating-point tolerance would bite here)
NEAR_LADDER = [1e-7, 1e-6, 1e-5, 1e-4, 1e-3]


def near_pair(rng, la, lb, sep, far=False, nprim=None):
    sa = rand_shell(rng, la, [], nprim=nprim or rng.randint(1, 2), nseg=rng.randint(1, 2), exp_lo=0.3, exp_hi=30.0)
    sb = rand_shell(rng, lb, [], nprim=nprim or rng.randint(1, 2), nseg=rng.randint(1, 2), exp_lo=0.3, exp_hi=30.0)
    if far:
        ca = [core.snap(rng.choice([-1, 1]) * rng.uniform(8, 20), 6) for _ in range(3)]
    else:
        ca = [core.snap(rng.uniform(-1.5, 1.5), 8) for _ in range(3)]
    d = [rng.choice([-1, 1]) * sep * rng.uniform(0.3, 1.0) for _ in range(3)]
    return sa.copy(center=ca), sb.copy(center=[float(a + x) for a, x in zip(ca, d)])


def near_cases(run, lmax=4):
    """(la, lb, sep, far) selections: quick = 10 pairs of both parities, thorough = every pair x the whole ladder x near/far"""
    import itertools
    out = []
    k = 0
    for la, lb in itertools.product(range(lmax + 1), repeat=2):
        if run.tier == "thorough":
            for sep in NEAR_LADDER:
                out.append((la, lb, sep, False))
                out.append((la, lb, sep, True))
        elif (la * (lmax + 1) + lb) % 3 == 0 or (la, lb) in ((0, 1), (1, 1), (0, 2)):
            out.append((la, lb, NEAR_LADDER[1 + k % 3], k % 2 == 0))
            out.append((la, lb, NEAR_LADDER[4 - k % 3], k % 2 == 1))
            k += 1
    return out


# ---- representation of array arguments: the same values as another kind of ndarray must give the same result ----------------
def repr_variants(a):
    """ndarray representations of the same values: Fortran order, a strided view, a read-only array, int64 (if integer-valued),
    float32 (if exactly representable)"""
    a = np.asarray(a, dtype=float)
    out = [("fortran-order", np.asfortranarray(a))]
    big = np.zeros(tuple(2 * x for x in a.shape))
    v = big[tuple(slice(None, None, 2) for _ in a.shape)]
    v[...] = a
    out.append(("strided-view", v))
    r = a.copy()
    r.setflags(write=False)
    out.append(("read-only", r))
    if np.all(a == np.round(a)) and np.all(np.abs(a) < 2 ** 50):
        out.append(("int64", a.astype(np.int64)))
        if np.all(a >= 0) and np.all(a < 256):
            out.append(("uint8", a.astype(np.uint8)))
            out.append(("uint64", a.astype(np.uint64)))
    if np.all(a.astype(np.float32).astype(float) == a):
        out.append(("float32", a.astype(np.float32)))
    return out


def repr_case(run, fname, argname, f, a, rep=None):
    """f(a) for every representation of `a`: either a clean TypeError (a documented dtype requirement) or the float64 result"""
    base = np.asarray(f(np.asarray(a, dtype=float)))
    ok = True
    for lab, v in repr_variants(a):
        run.case(("repr", fname, argname, lab))
        try:
            r = np.asarray(f(v))
        except TypeError:
            run.count(f"representation {lab}: rejected with TypeError")
            continue
        run.count(f"representation {lab}: accepted")
        fin = np.isfinite(base)
        if r.shape != base.shape or r.dtype != base.dtype or not np.array_equal(np.isfinite(r), fin) or \
                (fin.any() and np.abs(r[fin] - base[fin]).max() > 1e-13 * max(1.0, float(np.abs(base[fin]).max()))):
            run.violation(f"{fname}: passing `{argname}` as a {lab} array with the same values changes the result "
                          f"(dtype {r.dtype} vs {base.dtype}, max deviation "
                          f"{(np.abs(np.asarray(r, dtype=float)[fin] - base[fin]).max() if r.shape == base.shape and fin.any() else float('nan')):.3e})",
                          dict(rep or {}, case="representation", function=fname, argument=argname, variant=lab,
                               signature={"kind": "representation"}))
            ok = False
    return ok


# ---- SP-type bases: shells of different angular momentum built from one exponent-array object, on one and on two centres ----------
def sp_family(rng, ls=(0, 1), two_centres=True, nprim=3, sph=None):
    """what parse_nwchem + make_contractions produce for Pople-type SP shells of a homonuclear molecule: on every atom an s and a
    p (or d) shell with the same exponents — the very same array object (`share`) — and their own coefficient columns"""
    exps = []
    while len(exps) < nprim:
        e = core.rand_exp(rng, 0.1, 30.0)
        if all(abs(e - x) > 1e-3 * x for x in exps):
            exps.append(e)
    centres = [[core.snap(rng.uniform(-1, 1), 8) for _ in range(3)]]
    if two_centres:
        centres.append([float(c + d) for c, d in zip(centres[0], (1.1, -0.7, 0.9))])
    specs = []
    for ic, c in enumerate(centres):
        for l in ls:
            co = [[core.rand_coeff(rng)] for _ in range(nprim)]
            specs.append(ShellSpec(l, c, exps, co, sph=(rng.random() < 0.5) if sph is None else sph, share="sp", icenter=ic))
    return specs


# ---- structured transformation matrices: what users pass besides dense MO coefficients ---------------------------------------
def structured_transforms(rng, n):
    """(label, matrix): diagonal phase matrix, scaled diagonal, signed permutation, selection of rows, a single row"""
    perm = list(range(n))
    rng.shuffle(perm)
    out = [("diagonal signs", np.diag([float(rng.choice([-1, 1])) for _ in range(n)])),
           ("scaled diagonal", np.diag([core.snap(rng.uniform(0.25, 3.0), 6) * rng.choice([-1, 1]) for _ in range(n)]))]
    sp = np.zeros((n, n))
    for r, c in enumerate(perm):
        sp[r, c] = float(rng.choice([-1, 1]))
    out.append(("signed permutation", sp))
    k = max(1, n // 2)
    sel = np.zeros((k, n))
    for r, c in enumerate(perm[:k]):
        sel[r, c] = 2.0 if r % 2 else 1.0
    out.append(("scaled selection", sel))
    out.append(("single row", np.array([[core.snap(rng.uniform(-1, 1), 10) for _ in range(n)]])))
    out.append(("tall (more orbitals than basis functions)", np.array([[core.snap(rng.uniform(-1, 1), 10) for _ in range(n)] for _ in range(n + 2)])))
    return out + near_identity_transforms(rng, n)


# ---- shells that declare their Cartesian components in another order (what IODataShell does for Molden / Gaussian conventions) ----
def custom_order(spec, rng=None, kind="reversed"):
    """the same shell reporting `angmom_components_cart` reversed (z-major), or in a random order"""
    l = spec.l
    d = [(x, y, l - x - y) for x in range(l, -1, -1) for y in range(l - x, -1, -1)]
    if kind == "reversed" or rng is None:
        cart = list(reversed(d))
    else:
        cart = list(d)
        rng.shuffle(cart)
    return spec.copy(cart=[list(c) for c in cart])


def custom_order_family(rng, ls=(1, 2, 3), two=True):
    """bases of shells with declared (non-default) Cartesian orders, Cartesian and spherical, next to a default-order shell"""
    cs = []
    specs = []
    for k, l in enumerate(ls):
        s_ = rand_shell(rng, l, cs, nprim=rng.randint(1, 2), nseg=1 + k % 2, exp_hi=20.0)
        specs.append(custom_order(s_, rng, "reversed" if k % 2 == 0 else "shuffled"))
    if two:
        specs.append(rand_shell(rng, rng.randint(0, 2), cs, nprim=2, nseg=1, exp_hi=20.0))
    # two pure shells of one angular momentum with *different* declared conventions in the same basis (shells of two loads
    # concatenated), and a pure s shell that declares the phase "-c0"
    l = ls[0] if ls[0] >= 1 else 1
    labs = [f"c{m}" for m in range(l + 1)] + [f"s{m}" for m in range(1, l + 1)]
    rng.shuffle(labs)
    twin_a = rand_shell(rng, l, cs, nprim=2, nseg=1, sph=True, exp_hi=10.0).copy(via_update=False)
    twin_b = custom_order(rand_shell(rng, l, cs, nprim=1, nseg=1 + l % 2, sph=True, exp_hi=10.0).copy(via_update=False), rng, "shuffled")
    twin_b = twin_b.copy(sphord=[rng.choice(["", "-"]) + x for x in labs])
    specs += [twin_a, twin_b]
    specs.append(ShellSpec(0, [core.snap(rng.uniform(-1, 1), 8) for _ in range(3)], [core.rand_exp(rng, 0.2, 5.0)], [[1.0]], sph=True, sphord=["-c0"]))
    return specs


# ---- density matrices with exact zeros on the diagonal (transition / difference matrices): indefinite, the zero-diagonal orbital
#      still couples to the others
def zero_diag_symmetric(rng, n, nzero=1):
    a = random_symmetric(rng, n, psd=False)
    for k in rng.sample(range(n), min(nzero, n)):
        a[k, k] = 0.0
    return a


# ---- quartets mixing a tight core shell, a diffuse shell and moderate shells in every arrangement of the four slots ------------
def mixed_tight_diffuse_quartets(full=False):
    """(tag, [a, b, c, d]): M = moderate d shells, D = diffuse p / d shell, T = contracted core s shell (3e4, 4.5e3); the accuracy
    of (ab|cd) must not depend on which slots the tight and the diffuse shell occupy"""
    M1 = ShellSpec(2, [0.0, 0.0, 0.0], [1.1], [1.0])
    M2 = ShellSpec(2, [0.4, -0.3, 0.9], [0.8], [1.0])
    Dp = ShellSpec(1, [0.2, 0.5, -0.4], [0.02], [1.0])
    Dd = ShellSpec(2, [0.2, 0.5, -0.4], [0.05], [1.0])
    T = ShellSpec(0, [-0.3, 0.1, 0.2], [3.0e4, 4.5e3], [[0.3], [0.7]])
    pats = [("MM|DT", [M1, M2, Dp, T]), ("MM|TD", [M1, M2, T, Dp]), ("DT|MM", [Dp, T, M1, M2]), ("MD|MT", [M1, Dp, M2, T]),
            ("MT|DM", [M1, T, Dp, M2]), ("TM|MD", [T, M1, M2, Dp])]
    if full:
        pats += [("MM|DT(d)", [M1, M2, Dd, T]), ("TD|MM(d)", [T, Dd, M1, M2]), ("DM|TM(d)", [Dd, M1, T, M2]), ("MT|MD(d)", [M1, T, M2, Dd])]
    return pats




# ---- what a caller may do with objects the library returned: they are the caller's; later results must not depend on it ----------
def mutate_returned_spherical_objects(lmax=4):
    """fetch expansions / matrices from the public helpers of gbasis.spherical and modify them in place (rescale, clear); returns the
    number of objects modified.  With fresh return values this has no effect on anything computed afterwards."""
    from gbasis.spherical import generate_transformation, real_solid_harmonic
    n = 0
    for l in range(lmax + 1):
        cart = np.array([(x, y, l - x - y) for x in range(l, -1, -1) for y in range(l - x, -1, -1)])
        sph = tuple(["c1", "s1", "c0"] if l == 1 else [f"s{m}" for m in range(l, 0, -1)] + [f"c{m}" for m in range(l + 1)])
        for m in range(-l, l + 1):
            d = real_solid_harmonic(l, m)
            for key in list(d):
                d[key] = d[key] * 2.0
            n += 1
        for side in ("left", "right"):
            t = generate_transformation(l, cart, sph, side)
            try:
                t *= 2.0
                n += 1
            except ValueError:      # a read-only result is fine too
                pass
    return n


# ---- displacement vectors between two centres with special structure (components that cancel, coincide, vanish) ----------------
DEGENERATE_DISPLACEMENTS = [(1.2, -1.2, 0.0), (0.0, 1.4, -1.4), (0.7, 0.7, -1.4), (0.9, 0.9, 0.9), (1.1, 0.0, 0.0), (0.0, 0.0, -1.3),
                            (0.8, -0.8, 0.8), (1.0, 2.0, -3.0)]


def degenerate_pair(rng, la, lb, d, nprim=None):
    sa = rand_shell(rng, la, [], nprim=nprim or rng.randint(1, 2), nseg=rng.randint(1, 2), exp_lo=0.3, exp_hi=10.0)
    sb = rand_shell(rng, lb, [], nprim=nprim or rng.randint(1, 2), nseg=rng.randint(1, 2), exp_lo=0.3, exp_hi=10.0)
    ca = [0.0, 0.0, 0.0] if rng.random() < 0.5 else [0.5, -0.25, 1.0]
    return sa.copy(center=ca), sb.copy(center=[a + x for a, x in zip(ca, d)])



# ---- the very same shell object listed more than once (basis + [basis[0]], the union of two bases that share a shell) ----------
def repeated_object_family(rng, kinds=("spherical", "cartesian", "mixed"), lmax=2):
    """(label, specs): bases in which one shell object occurs twice, not adjacent; every coordinate-type pattern"""
    out = []
    for kind in kinds:
        cs = []
        ls = [rng.randint(1, lmax), rng.randint(0, lmax), rng.randint(0, 1)]
        specs = []
        for k, l in enumerate(ls):
            sph = {"spherical": True, "cartesian": False, "mixed": k % 2 == 0}[kind]
            specs.append(rand_shell(rng, l, cs, nprim=rng.randint(1, 2), nseg=1 + (k == 0), sph=sph, exp_hi=10.0).copy(via_update=False))
        specs[0] = specs[0].copy(obj="twice")
        specs.append(specs[0].copy())
        out.append((kind, specs))
    return out


# ---- two different shells of the same angular momentum and the same number (>= 2) of segmented contractions on one centre -----
def same_centre_twins(rng, l, nseg=2, sph=None):
    """e.g. the valence and the polarisation set of a general-contraction basis: same centre, same l, same M, different primitives;
    the block between them is not symmetric in (segment, segment')"""
    c = [core.snap(rng.uniform(-1, 1), 8) for _ in range(3)]
    a = rand_shell(rng, l, [], nprim=nseg + 1, nseg=nseg, sph=sph, exp_hi=min(core.exp_cap(l), 30.0)).copy(center=c, via_update=False)
    b = rand_shell(rng, l, [], nprim=nseg, nseg=nseg, sph=a.sph if sph is None else sph, exp_hi=min(core.exp_cap(l), 30.0)).copy(center=c, via_update=False)
    return [a, b]


# ---- transformation matrices that are nearly, but not exactly, trivial ---------------------------------------------------------
def near_identity_transforms(rng, n):
    """(label, matrix): identity with relative perturbations of 1e-6 on the diagonal, identity plus 1e-9 off the diagonal, a
    permutation matrix with one entry off by 2e-6"""
    d = np.diag([1.0 + rng.choice([-1, 1]) * rng.uniform(2e-6, 9e-6) for _ in range(n)])
    o = np.eye(n)
    for i in range(n):
        for j in range(n):
            if i != j:
                o[i, j] = rng.choice([-1, 1]) * rng.uniform(1e-9, 9e-9)
    o[0, 0] = 1.0 + 4e-6
    perm = list(range(n))
    rng.shuffle(perm)
    p = np.zeros((n, n))
    for r, c in enumerate(perm):
        p[r, c] = 1.0
    p[0, perm[0]] = 1.0 - 2e-6
    return [("near-identity diagonal", d), ("near-identity dense", o), ("near-permutation", p)]


# ---- generalized shells whose columns differ by many orders of magnitude and own primitives the other column does not use ------
def extreme_column_shell(rng, l, factors=(1e6, 1e-6), sph=False):
    """(scaled shell, unscaled shell): two columns; primitive 0 belongs to column 0 only, the last primitive to column 1 only; the
    columns are multiplied by `factors` (every column is renormalised separately, so both descriptions give the same functions
    up to the signs of the factors)"""
    exps = []
    while len(exps) < 4:
        e = core.rand_exp(rng, 0.05, min(core.exp_cap(l), 20.0))
        if all(abs(e - x) > 0.05 * x for x in exps):
            exps.append(e)
    exps.sort(reverse=True)
    co = np.array([[core.rand_coeff(rng), 0.0], [core.rand_coeff(rng), core.rand_coeff(rng)], [core.rand_coeff(rng), core.rand_coeff(rng)],
                   [0.0, core.rand_coeff(rng)]])
    c = [core.snap(rng.uniform(-1, 1), 8) for _ in range(3)]
    plain = ShellSpec(l, c, exps, co, sph=sph)
    return plain.copy(coeffs=co * np.array(factors)[None, :]), plain


# ---- symmetric matrices that are symmetric only up to rounding (obtained by transforming back and forth) ------------------------
def rounding_noise_symmetric(rng, n, diagonal=True):
    """(noisy, exact): `exact` is symmetric with many exact zeros (diagonal, or block diagonal); `noisy` = Q^T (Q exact Q^T) Q for a
    random orthogonal Q, equal to `exact` up to ~1e-16 with unequal noise in (a,b) and (b,a)"""
    if diagonal:
        exact = np.diag([core.snap(rng.uniform(0.2, 2.0), 8) for _ in range(n)])
    else:
        exact = random_symmetric(rng, n)
        exact[: n // 2, n // 2:] = 0.0
        exact[n // 2:, : n // 2] = 0.0
    q, _ = np.linalg.qr(np.array([[rng.gauss(0, 1) for _ in range(n)] for _ in range(n)]))
    mo = q @ exact @ q.T
    mo = (mo + mo.T) / 2
    noisy = q.T @ mo @ q
    return noisy, exact


def repeated_exponent_shell(rng, l, sph=False, nseg=1):
    """a contraction that lists the same exponent twice with different coefficients (what splitting a primitive, or merging two
    tabulated sets, gives): it denotes the primitive with the summed coefficient"""
    e1 = core.rand_exp(rng, 0.5, min(core.exp_cap(l), 10.0))
    e2 = core.rand_exp(rng, 0.05, 0.4)
    co = np.array([[core.rand_coeff(rng) for _ in range(nseg)] for _ in range(3)])
    co[1] = -0.4 * co[0] + 0.05
    c = [core.snap(rng.uniform(-1, 1), 8) for _ in range(3)]
    return ShellSpec(l, c, [e1, e1, e2], co, sph=sph)


def symmetric_molecule_family(rng, sph=None):
    """(label, specs): symmetric arrangements — identical shell definitions (the same exponents and coefficients) at the same
    distance from a p / d shell but in different directions (water-like, linear B-A-B, a square); random centres never give two
    equal distances"""
    out = []
    for lab, pos in (("water-like", [(1.43, 1.11, 0.0), (-1.43, 1.11, 0.0)]), ("linear B-A-B", [(0.0, 0.0, 1.6), (0.0, 0.0, -1.6)]),
                     ("square", [(1.2, 1.2, 0.0), (-1.2, 1.2, 0.0), (-1.2, -1.2, 0.0), (1.2, -1.2, 0.0)])):
        lc = rng.randint(1, 2)
        centre = rand_shell(rng, lc, [], nprim=2, nseg=1, sph=sph, exp_lo=0.3, exp_hi=8.0).copy(center=[0.0, 0.0, 0.0], via_update=False)
        lig = rand_shell(rng, rng.randint(0, 1), [], nprim=1 if lab == "linear B-A-B" else 2, nseg=1, sph=sph, exp_lo=0.3, exp_hi=5.0).copy(via_update=False)
        if lab == "linear B-A-B":
            lig = lig.copy(l=1)      # (s_A s_A | p_C s_D)-type quartets need a p function on the outer atoms
        specs = [centre] + [lig.copy(center=[float(v) for v in c]) for c in (pos if lab != "square" else pos[: 2 + rng.randint(0, 1) * 2])]
        if lab == "linear B-A-B":
            # outer atoms with the same single exponent but different angular momentum (p and s): the product centre of the outer
            # pair falls exactly on the central atom, and integrals odd along the axis do not vanish
            specs[2] = specs[2].copy(l=0)
            specs[0] = specs[0].copy(l=rng.choice([0, 2]))
        out.append(("symmetric arrangement (%s)" % lab, specs))
    return out


def structured_coefficient_shell(rng, l, kind, sph=False):
    """generalized shells whose coefficient matrix has special structure: 'permutation' (square, one non-zero per column, not
    diagonal: an uncontracted set listed in another order), 'shared-primitive' (two columns that use the same single primitive),
    'diagonal' (uncontracted), 'triangular'"""
    k = 3 if kind in ("permutation", "diagonal", "triangular", "block-disjoint") else 2
    exps = []
    while len(exps) < k:
        e = core.rand_exp(rng, 0.1, min(core.exp_cap(l), 15.0))
        if all(abs(e - x) > 0.1 * x for x in exps):
            exps.append(e)
    c = lambda: core.rand_coeff(rng)
    if kind == "permutation":
        co = np.array([[0.0, c(), 0.0], [0.0, 0.0, c()], [c(), 0.0, 0.0]])
    elif kind == "diagonal":
        co = np.diag([c(), c(), c()])
    elif kind == "triangular":
        co = np.array([[c(), c(), c()], [0.0, c(), c()], [0.0, 0.0, c()]])
    elif kind == "block-disjoint":
        # several segmented contractions of one angular momentum stored as one shell: every primitive belongs to exactly one column,
        # one column has two primitives
        co = np.array([[c(), 0.0], [c(), 0.0], [0.0, c()]])
        if rng.random() < 0.5:
            co = co[[0, 2, 1]]
    else:
        co = np.array([[c(), c()], [0.0, 0.0]])
    cen = [core.snap(rng.uniform(-1, 1), 8) for _ in range(3)]
    return ShellSpec(l, cen, exps, co, sph=sph)


def three_function_bases(rng):
    """(label, specs): bases with exactly three basis functions — as many as a vector operator has components, so that a
    transformation applied to the wrong axis still has a matching shape"""
    cs = []
    p = rand_shell(rng, 1, cs, nprim=2, nseg=1, exp_hi=10.0).copy(via_update=False)
    three_s = [rand_shell(rng, 0, [], nprim=1 + k % 2, nseg=1, exp_hi=10.0).copy(
        center=[core.snap(rng.uniform(-1.5, 1.5), 8) for _ in range(3)], via_update=False) for k in range(3)]
    s3 = rand_shell(rng, 0, [], nprim=3, nseg=3, exp_hi=10.0).copy(via_update=False)
    return [("three basis functions (one p shell)", [p.copy(sph=False)]), ("three basis functions (one pure p shell)", [p.copy(sph=True)]),
            ("three basis functions (three s shells)", three_s), ("three basis functions (one s shell with three columns)", [s3])]


def nearly_normalised_shell(rng, l, sph=False):
    """a contracted shell whose coefficients were rescaled so that its contraction norm is 1 up to a few 1e-6 (what 5-6 printed
    decimals of a normalised contraction give)"""
    base = rand_shell(rng, l, [], nprim=3, nseg=1, sph=sph, exp_lo=0.15, exp_hi=4.0).copy(via_update=False)
    nc = float(np.asarray(base.copy(sph=False).make().norm_cont).ravel()[0])
    delta = rng.choice([-1, 1]) * rng.uniform(2e-6, 8e-6)
    return base.copy(coeffs=base.coeffs * nc * (1.0 + delta))


def near_equal_exponent_pair(rng, la, lb, sph=None):
    """two shells on different centres whose exponents are pairwise nearly equal (relative difference 2e-6 .. 8e-6: the same tabulated
    set quoted to six digits, or re-optimised): they are different numbers and must be treated as such"""
    e1 = core.rand_exp(rng, 1.0, min(core.exp_cap(max(la, lb)), 4.0))
    e2 = core.rand_exp(rng, 0.3, 0.7)
    d = [rng.choice([-1, 1]) * rng.uniform(2e-6, 8e-6) for _ in range(2)]
    ca = [core.snap(rng.uniform(-0.5, 0.5), 8) for _ in range(3)]
    cb = [ca[0] + core.snap(rng.uniform(0.5, 0.9), 8), ca[1] - core.snap(rng.uniform(0.3, 0.8), 8), ca[2] + core.snap(rng.uniform(0.2, 0.7), 8)]
    sa = ShellSpec(la, ca, [e1, e2], [[core.rand_coeff(rng)], [core.rand_coeff(rng)]], sph=bool(rng.random() < 0.5) if sph is None else sph)
    sb = ShellSpec(lb, cb, [e1 * (1 + d[0]), e2 * (1 + d[1])], [[core.rand_coeff(rng)], [core.rand_coeff(rng)]], sph=bool(rng.random() < 0.5) if sph is None else sph)
    return [sa, sb]


def far_diffuse_pair(rng, la, lb, R, tight=False):
    """two shells with diffuse primitives (exponents 0.02 .. 0.05) 27 .. 35 bohr apart in a general direction: exp(-R^2) underflows
    although the Gaussian product factor exp(-mu R^2) is 1e-3 .. 1e-7; with `tight` each shell also holds a tight primitive whose
    product factor with the other tight primitive underflows to exactly 0"""
    u = np.array([rng.uniform(0.3, 1.0) * rng.choice([-1, 1]) for _ in range(3)])
    u = u / np.linalg.norm(u) * R
    ca = [core.snap(rng.uniform(-0.5, 0.5), 8) for _ in range(3)]
    cb = [float(core.snap(x + y, 8)) for x, y in zip(ca, u)]
    def one(l, c):
        exps = [core.snap(rng.uniform(0.02, 0.03), 12), core.snap(rng.uniform(0.035, 0.05), 12)]
        co = [[core.rand_coeff(rng)], [core.rand_coeff(rng)]]
        if tight:
            exps = [core.rand_exp(rng, 9.0, 10.0)] + exps[:1]
            co = [[abs(core.rand_coeff(rng))], [abs(core.rand_coeff(rng))]]
        return ShellSpec(l, c, exps, co, sph=bool(rng.random() < 0.5))
    return [one(la, ca), one(lb, cb)]


def structural_families(run, transforms=True, lmax_twins=3, lmax_obj=2, ls_extreme=None, small=False):
    """(label, specs, transform | None): bases with special *structure* (not special numbers) that every array-valued function must
    treat like any other basis: a shell object listed twice, twin shells (same centre, l and number of segments), generalized shells
    with columns of very different magnitude, a repeated exponent inside a contraction, nearly trivial transformation matrices"""
    rng = run.rng
    quick = run.tier == "quick"
    out = []
    for kind, specs in repeated_object_family(rng, lmax=lmax_obj):
        if small:
            specs = [s_.copy(coeffs=s_.coeffs[:, :1].copy()) for s_ in specs[:2]] + [specs[-1].copy(coeffs=specs[-1].coeffs[:, :1].copy())]
        out.append(("same shell object listed twice (%s)" % kind, specs, None))
    for k, l in enumerate(range(lmax_twins + 1)):
        for nseg in ((2 + k % 2,) if quick else (2, 3)):
            if small and nseg > 2:
                continue
            for sph in ((bool(k % 2),) if quick else (False, True)):
                out.append(("twin shells: same centre, l, number of segments", same_centre_twins(rng, l, 2 if small else nseg, sph), None))
    if ls_extreme is None:
        ls_extreme = (0, 1, 2) if quick else (0, 1, 2, 3)
    for k, l in enumerate(ls_extreme):
        for f in (((1e6, 1e-6),) if quick else ((1e6, 1e-6), (-1e-6, 1e6), (1e6, 1.0))):
            scaled, _ = extreme_column_shell(rng, l, f, sph=bool(k % 2))
            other = rand_shell(rng, (l + 1) % (2 if small else 3), [], nprim=2, nseg=1, exp_hi=10.0)
            out.append(("generalized shell with columns scaled by %g, %g" % f, [scaled, other], None))
        out.append(("contraction with a repeated exponent",
                     [repeated_exponent_shell(rng, l, sph=bool((k + 1) % 2), nseg=1 + k % 2),
                      rand_shell(rng, (l + 1) % (2 if small else 3), [], nprim=2, nseg=1, exp_hi=10.0)], None))
    for lab, specs in symmetric_molecule_family(rng):
        if small:
            specs = specs[:3]
        out.append((lab, specs, None))
    for k, kind in enumerate(("permutation", "shared-primitive", "diagonal", "triangular", "block-disjoint")):
        for l in ((k % 2,) if (quick or small) else (0, 1, 2)):
            sh = structured_coefficient_shell(rng, l, kind, sph=bool((k + l) % 2))
            if small:
                sh = sh.copy(coeffs=sh.coeffs[:, :2].copy())
            other = rand_shell(rng, (l + 1) % 2, [], nprim=2, nseg=1, exp_hi=10.0)
            out.append(("coefficient matrix of %s type" % kind, [sh, other], None))
    # contractions that are normalised only to printing precision (tabulated coefficients quoted to 5-6 decimals): the contraction
    # norm differs from 1 by 1e-7 ... 1e-5 and must still be applied
    for k, l in enumerate((0, 1) if (quick or small) else (0, 1, 2)):
        out.append(("contraction normalised to printing precision (norm_cont - 1 of order 1e-6)", [nearly_normalised_shell(rng, l, sph=bool(k % 2)),
                    rand_shell(rng, (l + 1) % 2, [], nprim=2, nseg=1, exp_hi=10.0)], None))
    # accidental exact zeros of one-dimensional factors: two p (or d) functions with equal exponent a at a distance R along an axis
    # with R^2 = 1/a have a vanishing one-dimensional overlap factor along that axis (not by parity)
    for k, (a_, R_) in enumerate(((1.0, 1.0), (0.25, 2.0), (4.0, 0.5))):
        ax = k % 3
        d_ = [0.0, 0.0, 0.0]
        d_[ax] = R_
        c0 = [0.25, -0.5, 0.125]
        la, lb = (1, 1) if k < 2 else (1, 2)
        s1 = ShellSpec(la, c0, [a_] if k else [a_, 0.6], [[1.0]] if k else [[0.7], [0.4]], sph=False)
        s2 = ShellSpec(lb, [x + y for x, y in zip(c0, d_)], [a_], [[1.0]], sph=bool(k == 1))
        out.append(("accidentally vanishing one-dimensional factor (a = %g, R = %g)" % (a_, R_), [s1, s2], None))
    # exponents that are nearly but not exactly equal on two centres
    for k, (la, lb) in enumerate(((1, 2), (1, 0)) if not small else ((1, 0),)):
        out.append(("nearly equal exponents on two centres (relative difference of a few 1e-6)", near_equal_exponent_pair(rng, la, lb), None))
    # diffuse shells far apart: exp(-R^2) underflows, exp(-mu R^2) does not
    for k, R_ in enumerate((27.5, 31.0) if (quick or small) else (26.8, 27.5, 29.0, 31.0, 35.0)):
        la, lb = ((0, 0), (1, 0), (0, 1), (1, 1), (2, 0))[k % 5]
        out.append(("diffuse shells %.1f bohr apart" % R_, far_diffuse_pair(rng, la, lb, R_), None))
    # coinciding sizes: as many segmented contractions as (Cartesian) components, as many primitives as segments
    for k, (l, sph_) in enumerate(((1, False), (1, True), (0, False)) if not small else ((1, False),)):
        m = (l + 1) * (l + 2) // 2
        sh = rand_shell(rng, l, [], nprim=m, nseg=m, sph=sph_, exp_hi=10.0).copy(via_update=False)
        other = rand_shell(rng, (l + 1) % 2, [], nprim=2, nseg=1 + k % 2, exp_hi=10.0)
        out.append(("as many segmented contractions as Cartesian components (l=%d, M=%d)" % (l, m), [sh, other], None))
    if transforms:
        for lab, specs in three_function_bases(rng):
            t3 = np.array([[core.snap(rng.uniform(-1, 1), 10) for _ in range(3)] for _ in range(3)])
            out.append((lab + ", 3x3 transformation", specs, t3))
            out.append((lab + ", 2x3 transformation", specs, t3[:2]))
    if transforms:
        specs = random_basis(rng, 2, 2, lmax=1 if quick else 2, exp_hi=10.0)
        n = sum(s.size for s in specs)
        for lab, t in near_identity_transforms(rng, n):
            out.append(("transform " + lab, specs, t))
    return out


# ---- from_iodata: a duck-typed IOData object (the wrapper only looks at the class name and at attributes) ------------------------
def install_iodata_standin():
    """`from_iodata` imports iodata.convert.convert_to_segmented; when the package is absent a trivial stand-in (the bases built
    here are already segmented) is registered.  Returns True when the stand-in (not the real package) is in use."""
    import sys
    import types
    try:
        import iodata.convert  # noqa: F401
        return False
    except Exception:
        pkg, conv = types.ModuleType("iodata"), types.ModuleType("iodata.convert")
        conv.convert_to_segmented = lambda obasis: obasis
        pkg.convert = conv
        sys.modules["iodata"], sys.modules["iodata.convert"] = pkg, conv
        return True


def iodata_molecule(rng, lmax=3, nshell=None, omit_unused_cart=False):
    """(mol, specs): an object that `from_iodata` accepts — segmented shells of l <= lmax of both kinds on 2-3 atoms, with declared
    conventions: a random order of the Cartesian components for every l, a random order *and random signs* ('-c3' as in Molden
    files written by ORCA) of the pure functions — and the equivalent ShellSpecs (contractions not renormalised, as IODataShell)"""
    letters = "xyz"
    conv = {}
    cart_of, sph_of = {}, {}
    for l in range(lmax + 1):
        comps = [(x, y, l - x - y) for x in range(l, -1, -1) for y in range(l - x, -1, -1)]
        rng.shuffle(comps)
        cart_of[l] = comps
        conv[(l, "c")] = ["".join(letters[i] * c[i] for i in range(3)) or "1" for c in comps]
        if l >= 2:
            labs = [f"c{m}" for m in range(l + 1)] + [f"s{m}" for m in range(1, l + 1)]
            rng.shuffle(labs)
            labs = [(rng.choice(["", "-"]) if m_ >= 1 else "") + lab for m_, lab in enumerate(labs)]
            sph_of[l] = labs
            conv[(l, "p")] = labs
    natom = rng.randint(2, 3)
    atcoords = np.array([[core.snap(rng.uniform(-1.5, 1.5), 8) for _ in range(3)] for _ in range(natom)])

    class Shell:
        pass

    shells, specs = [], []
    for k in range(nshell or rng.randint(2, 4)):
        l = rng.randint(0, lmax)
        kind = "p" if (l >= 2 and rng.random() < 0.6) else "c"
        if omit_unused_cart and lmax >= 2:
            # always at least one angular momentum (d) that occurs as pure shells only
            if k == 0:
                l, kind = 2, "p"
            elif l == 2:
                kind = "p"
        ic = rng.randrange(natom)
        npr = rng.randint(1, 3)
        exps = []
        while len(exps) < npr:
            e = core.rand_exp(rng, 0.1, 10.0)
            if all(abs(e - x) > 0.05 * x for x in exps):
                exps.append(e)
        co = np.array([[core.rand_coeff(rng)] for _ in range(npr)])
        sh = Shell()
        sh.icenter, sh.angmoms, sh.kinds = ic, np.array([l]), [kind]
        sh.exponents, sh.coeffs, sh.ncon = np.array(exps), co.copy(), 1
        shells.append(sh)
        specs.append(ShellSpec(l, list(atcoords[ic]), exps, co, sph=(kind == "p"), cart=[list(c) for c in cart_of[l]],
                               sphord=list(sph_of[l]) if l in sph_of else None, unit_norm=False, icenter=ic))

    if omit_unused_cart:
        # a conventions table that lists Cartesian orders only for the angular momenta that occur as Cartesian shells (iodata does
        # this for "6D 7F"-type files); the library then falls back to its default order for the others
        used_c = {int(sh.angmoms[0]) for sh in shells if sh.kinds[0] == "c"}
        for l in range(lmax + 1):
            if l not in used_c and (l, "c") in conv:
                del conv[(l, "c")]
                specs = [sp_.copy(cart=None) if sp_.l == l else sp_ for sp_ in specs]

    class Basis:
        pass

    ob = Basis()
    ob.shells, ob.conventions, ob.primitive_normalization = shells, conv, "L2"
    IOData = type("IOData", (), {})
    mol = IOData()
    mol.obasis, mol.atcoords = ob, atcoords
    return mol, specs
