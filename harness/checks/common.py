"""Helpers shared by the property checks."""
import itertools

import numpy as np

from gbv import core
from gbv.core import ShellSpec, basis_tokens, make_basis, rand_shell, max_excess


def sig(specs):
    return tuple((s.l, s.sph, len(s.exps), s.nseg, s.exps[0]) for s in specs)


def btok(specs):
    return " ".join(basis_tokens(specs))


def count_basis(run, specs):
    for s in specs:
        run.count(f"l={s.l}")
        run.count("spherical" if s.sph else "cartesian")
        run.count(f"nprim={len(s.exps)}")
        run.count(f"nseg={s.nseg}")


def compare(run, what, impl, model, tol, replay, kind):
    """record a violation if impl deviates from the exact model value by more than tol"""
    impl = np.asarray(impl)
    ex, idx = max_excess(impl, model, tol)
    if ex > 0:
        info = dict(replay)
        info["index"] = idx
        if idx is not None:
            info["impl"] = complex(impl[idx]) if np.iscomplexobj(impl) else float(impl[idx])
            info["exact"] = complex(model[idx]) if np.iscomplexobj(model) else float(model[idx])
            t = np.asarray(tol)
            info["tolerance"] = float(t[idx]) if t.shape == impl.shape else float(t)
        else:
            info["impl_shape"] = list(impl.shape)
            info["exact_shape"] = list(np.asarray(model).shape)
        info.setdefault("signature", {"kind": kind})
        run.violation(f"{what}: implementation differs from the exact value at index {idx}", info)
        return False
    return True


def random_transform(rng, n, rect=True):
    m = rng.randint(1, n + 1) if rect else n
    return np.array([[core.snap(rng.uniform(-1, 1), 10) for _ in range(n)] for _ in range(m)])


def pair_specs(rng, la, lb, **kw):
    cs = []
    return [rand_shell(rng, la, cs, **kw), rand_shell(rng, lb, cs, **kw)]


def random_basis(rng, nmin=1, nmax=4, lmax=4, **kw):
    cs = []
    n = rng.randint(nmin, nmax)
    return [rand_shell(rng, rng.randint(0, lmax), cs, **kw) for _ in range(n)]


def specs_from(rep, key="basis"):
    return [ShellSpec.from_desc(d) for d in rep[key]]
