"""Helpers shared by the property checks."""
import itertools

import numpy as np

from gbv import core
from gbv.core import ShellSpec, basis_tokens, make_basis, rand_shell, max_excess


def sig(specs):
    return tuple((s.l, s.sph, len(s.exps), s.nseg, s.exps[0]) for s in specs)


def btok(specs):
    return " ".join(basis_tokens(specs))


def count_basis(run, specs):
    for s in specs:
        run.count(f"l={s.l}")
        run.count("spherical" if s.sph else "cartesian")
        run.count(f"nprim={len(s.exps)}")
        run.count(f"nseg={s.nseg}")


def compare(run, what, impl, model, tol, replay, kind):
    """record a violation if impl deviates from the exact model value by more than tol"""
    impl = np.asarray(impl)
    ex, idx = max_excess(impl, model, tol)
    if ex > 0:
        info = dict(replay)
        info["index"] = idx
        if idx is not None:
            info["impl"] = complex(impl[idx]) if np.iscomplexobj(impl) else float(impl[idx])
            info["exact"] = complex(model[idx]) if np.iscomplexobj(model) else float(model[idx])
            t = np.asarray(tol)
            info["tolerance"] = float(t[idx]) if t.shape == impl.shape else float(t)
        else:
            info["impl_shape"] = list(impl.shape)
            info["exact_shape"] = list(np.asarray(model).shape)
        info.setdefault("signature", {"kind": kind})
        run.violation(f"{what}: implementation differs from the exact value at index {idx}", info)
        return False
    return True


def random_transform(rng, n, rect=True):
    m = rng.randint(1, n + 1) if rect else n
    return np.array([[core.snap(rng.uniform(-1, 1), 10) for _ in range(n)] for _ in range(m)])


def pair_specs(rng, la, lb, **kw):
    cs = []
    return [rand_shell(rng, la, cs, **kw), rand_shell(rng, lb, cs, **kw)]


def random_basis(rng, nmin=1, nmax=4, lmax=4, **kw):
    cs = []
    n = rng.randint(nmin, nmax)
    return [rand_shell(rng, rng.randint(0, lmax), cs, **kw) for _ in range(n)]


def specs_from(rep, key="basis"):
    return [ShellSpec.from_desc(d) for d in rep[key]]


# ---- density-type quantities from the model's derivative values ---------------------------------
class DerivCache:
    """model values (and magnitude majorants) of d^p phi_a at points, on demand"""

    def __init__(self, run, specs, pts, transform=None):
        self.run, self.specs, self.pts, self.t = run, specs, np.asarray(pts, dtype=float), transform
        self.cache = {}

    def get(self, p):
        p = tuple(int(v) for v in p)
        if p not in self.cache:
            line = (f"evalderiv general " + btok(self.specs) + f" {len(self.pts)} "
                    + " ".join(core.enc(x) for x in self.pts.ravel()) + " %d %d %d" % p)
            v, g = self.run.model.array_mag(line)
            if self.t is not None:
                v, g = self.t @ v, np.abs(self.t) @ g
            self.cache[p] = (v, g)
        return self.cache[p]

    def D(self, gamma, p, q):
        """(value, magnitude) of D(p;q) = sum_ab gamma_ab d^p phi_a d^q phi_b at every point"""
        vp, gp = self.get(p)
        vq, gq = self.get(q)
        return np.einsum("ab,ap,bp->p", gamma, vp, vq), np.einsum("ab,ap,bp->p", np.abs(gamma), gp, gq)


def parse_form(reply):
    """'ok c:p:q ...' -> [(Fraction, p, q)]"""
    from fractions import Fraction
    toks = reply.split()
    assert toks[0] == "ok", reply
    out = []
    for t in toks[1:]:
        c, p, q = t.split(":")
        out.append((Fraction(c), tuple(int(v) for v in p.split(",")), tuple(int(v) for v in q.split(","))))
    return out


def model_form(run, name, rationals=(), naturals=()):
    from fractions import Fraction
    qs = " ".join(f"{Fraction(q).numerator}/{Fraction(q).denominator}" for q in rationals)
    ns = " ".join(str(int(n)) for n in naturals)
    return parse_form(run.model.raw(f"form {name} {len(rationals)} {qs} {len(naturals)} {ns}"))


def eval_form(form, dc, gamma):
    val, mag = 0.0, 0.0
    for c, p, q in form:
        v, g = dc.D(gamma, p, q)
        val = val + float(c) * v
        mag = mag + abs(float(c)) * g
    return val, mag


def random_symmetric(rng, n, psd=False):
    a = np.array([[core.snap(rng.uniform(-1, 1), 10) for _ in range(n)] for _ in range(n)])
    if psd:
        return a @ a.T
    return (a + a.T) / 2


# ---- "tail regime": shell pairs whose Gaussian product factor exp(-mu_min R^2) is small but not negligible -----------
TAIL_LADDER = [6.0, 10.0, 14.0, 18.0, 21.0, 24.0, 28.0, 34.0]


def tail_pair(rng, la, lb, u, nprim=None):
    """two shells with moderately tight exponents at a separation R with mu_min * R^2 = u
    (mu_min from the most diffuse primitives), direction random"""
    import math
    sa = rand_shell(rng, la, [], nprim=nprim or rng.randint(1, 2), nseg=rng.randint(1, 2), exp_lo=0.5, exp_hi=20.0)
    sb = rand_shell(rng, lb, [], nprim=nprim or rng.randint(1, 2), nseg=rng.randint(1, 2), exp_lo=0.5, exp_hi=20.0)
    a, b = min(sa.exps), min(sb.exps)
    mu = a * b / (a + b)
    R = math.sqrt(u / mu)
    d = np.array([rng.gauss(0, 1) for _ in range(3)])
    d = d / np.linalg.norm(d) * R
    ca = [core.snap(rng.uniform(-1, 1), 8) for _ in range(3)]
    return sa.copy(center=ca), sb.copy(center=[float(x) for x in np.array(ca) + d])


# ---- nearly coincident centres: distinct centres 1e-7 .. 1e-3 bohr apart, near the origin or ~15 bohr away from it -----------
# (displaced copies of an atom in finite-difference geometries, ghost functions almost on an atom: a "same centre" shortcut
#  decided with a floating-point tolerance would bite here)
NEAR_LADDER = [1e-7, 1e-6, 1e-5, 1e-4, 1e-3]


def near_pair(rng, la, lb, sep, far=False, nprim=None):
    sa = rand_shell(rng, la, [], nprim=nprim or rng.randint(1, 2), nseg=rng.randint(1, 2), exp_lo=0.3, exp_hi=30.0)
    sb = rand_shell(rng, lb, [], nprim=nprim or rng.randint(1, 2), nseg=rng.randint(1, 2), exp_lo=0.3, exp_hi=30.0)
    if far:
        ca = [core.snap(rng.choice([-1, 1]) * rng.uniform(8, 20), 6) for _ in range(3)]
    else:
        ca = [core.snap(rng.uniform(-1.5, 1.5), 8) for _ in range(3)]
    d = [rng.choice([-1, 1]) * sep * rng.uniform(0.3, 1.0) for _ in range(3)]
    return sa.copy(center=ca), sb.copy(center=[float(a + x) for a, x in zip(ca, d)])


def near_cases(run, lmax=4):
    """(la, lb, sep, far) selections: quick = 10 pairs of both parities, thorough = every pair x the whole ladder x near/far"""
    import itertools
    out = []
    k = 0
    for la, lb in itertools.product(range(lmax + 1), repeat=2):
        if run.tier == "thorough":
            for sep in NEAR_LADDER:
                out.append((la, lb, sep, False))
                out.append((la, lb, sep, True))
        elif (la * (lmax + 1) + lb) % 3 == 0 or (la, lb) in ((0, 1), (1, 1), (0, 2)):
            out.append((la, lb, NEAR_LADDER[1 + k % 3], k % 2 == 0))
            out.append((la, lb, NEAR_LADDER[4 - k % 3], k % 2 == 1))
            k += 1
    return out


# ---- representation of array arguments: the same values as another kind of ndarray must give the same result ----------------
def repr_variants(a):
    """ndarray representations of the same values: Fortran order, a strided view, a read-only array, int64 (if integer-valued),
    float32 (if exactly representable)"""
    a = np.asarray(a, dtype=float)
    out = [("fortran-order", np.asfortranarray(a))]
    big = np.zeros(tuple(2 * x for x in a.shape))
    v = big[tuple(slice(None, None, 2) for _ in a.shape)]
    v[...] = a
    out.append(("strided-view", v))
    r = a.copy()
    r.setflags(write=False)
    out.append(("read-only", r))
    if np.all(a == np.round(a)) and np.all(np.abs(a) < 2 ** 50):
        out.append(("int64", a.astype(np.int64)))
    if np.all(a.astype(np.float32).astype(float) == a):
        out.append(("float32", a.astype(np.float32)))
    return out


def repr_case(run, fname, argname, f, a, rep=None):
    """f(a) for every representation of `a`: either a clean TypeError (a documented dtype requirement) or the float64 result"""
    base = np.asarray(f(np.asarray(a, dtype=float)))
    ok = True
    for lab, v in repr_variants(a):
        run.case(("repr", fname, argname, lab))
        try:
            r = np.asarray(f(v))
        except TypeError:
            run.count(f"representation {lab}: rejected with TypeError")
            continue
        run.count(f"representation {lab}: accepted")
        fin = np.isfinite(base)
        if r.shape != base.shape or r.dtype != base.dtype or not np.array_equal(np.isfinite(r), fin) or \
                (fin.any() and np.abs(r[fin] - base[fin]).max() > 1e-13 * max(1.0, float(np.abs(base[fin]).max()))):
            run.violation(f"{fname}: passing `{argname}` as a {lab} array with the same values changes the result "
                          f"(dtype {r.dtype} vs {base.dtype}, max deviation "
                          f"{(np.abs(np.asarray(r, dtype=float)[fin] - base[fin]).max() if r.shape == base.shape and fin.any() else float('nan')):.3e})",
                          dict(rep or {}, case="representation", function=fname, argument=argname, variant=lab,
                               signature={"kind": "representation"}))
            ok = False
    return ok


# ---- SP-type bases: shells of different angular momentum built from one exponent-array object, on one and on two centres ----------
def sp_family(rng, ls=(0, 1), two_centres=True, nprim=3, sph=None):
    """what parse_nwchem + make_contractions produce for Pople-type SP shells of a homonuclear molecule: on every atom an s and a
    p (or d) shell with the same exponents — the very same array object (`share`) — and their own coefficient columns"""
    exps = []
    while len(exps) < nprim:
        e = core.rand_exp(rng, 0.1, 30.0)
        if all(abs(e - x) > 1e-3 * x for x in exps):
            exps.append(e)
    centres = [[core.snap(rng.uniform(-1, 1), 8) for _ in range(3)]]
    if two_centres:
        centres.append([float(c + d) for c, d in zip(centres[0], (1.1, -0.7, 0.9))])
    specs = []
    for ic, c in enumerate(centres):
        for l in ls:
            co = [[core.rand_coeff(rng)] for _ in range(nprim)]
            specs.append(ShellSpec(l, c, exps, co, sph=(rng.random() < 0.5) if sph is None else sph, share="sp", icenter=ic))
    return specs


# ---- structured transformation matrices: what users pass besides dense MO coefficients ---------------------------------------
def structured_transforms(rng, n):
    """(label, matrix): diagonal phase matrix, scaled diagonal, signed permutation, selection of rows, a single row"""
    perm = list(range(n))
    rng.shuffle(perm)
    out = [("diagonal signs", np.diag([float(rng.choice([-1, 1])) for _ in range(n)])),
           ("scaled diagonal", np.diag([core.snap(rng.uniform(0.25, 3.0), 6) * rng.choice([-1, 1]) for _ in range(n)]))]
    sp = np.zeros((n, n))
    for r, c in enumerate(perm):
        sp[r, c] = float(rng.choice([-1, 1]))
    out.append(("signed permutation", sp))
    k = max(1, n // 2)
    sel = np.zeros((k, n))
    for r, c in enumerate(perm[:k]):
        sel[r, c] = 2.0 if r % 2 else 1.0
    out.append(("scaled selection", sel))
    return out


# ---- shells that declare their Cartesian components in another order (what IODataShell does for Molden / Gaussian conventions) ----
def custom_order(spec, rng=None, kind="reversed"):
    """the same shell reporting `angmom_components_cart` reversed (z-major), or in a random order"""
    l = spec.l
    d = [(x, y, l - x - y) for x in range(l, -1, -1) for y in range(l - x, -1, -1)]
    if kind == "reversed" or rng is None:
        cart = list(reversed(d))
    else:
        cart = list(d)
        rng.shuffle(cart)
    return spec.copy(cart=[list(c) for c in cart])


def custom_order_family(rng, ls=(1, 2, 3), two=True):
    """bases of shells with declared (non-default) Cartesian orders, Cartesian and spherical, next to a default-order shell"""
    cs = []
    specs = []
    for k, l in enumerate(ls):
        s_ = rand_shell(rng, l, cs, nprim=rng.randint(1, 2), nseg=1 + k % 2, exp_hi=20.0)
        specs.append(custom_order(s_, rng, "reversed" if k % 2 == 0 else "shuffled"))
    if two:
        specs.append(rand_shell(rng, rng.randint(0, 2), cs, nprim=2, nseg=1, exp_hi=20.0))
    return specs


# ---- density matrices with exact zeros on the diagonal (transition / difference matrices): indefinite, the zero-diagonal orbital
#      still couples to the others
def zero_diag_symmetric(rng, n, nzero=1):
    a = random_symmetric(rng, n, psd=False)
    for k in rng.sample(range(n), min(nzero, n)):
        a[k, k] = 0.0
    return a


# ---- quartets mixing a tight core shell, a diffuse shell and moderate shells in every arrangement of the four slots ------------
def mixed_tight_diffuse_quartets(full=False):
    """(tag, [a, b, c, d]): M = moderate d shells, D = diffuse p / d shell, T = contracted core s shell (3e4, 4.5e3); the accuracy
    of (ab|cd) must not depend on which slots the tight and the diffuse shell occupy"""
    M1 = ShellSpec(2, [0.0, 0.0, 0.0], [1.1], [1.0])
    M2 = ShellSpec(2, [0.4, -0.3, 0.9], [0.8], [1.0])
    Dp = ShellSpec(1, [0.2, 0.5, -0.4], [0.02], [1.0])
    Dd = ShellSpec(2, [0.2, 0.5, -0.4], [0.05], [1.0])
    T = ShellSpec(0, [-0.3, 0.1, 0.2], [3.0e4, 4.5e3], [[0.3], [0.7]])
    pats = [("MM|DT", [M1, M2, Dp, T]), ("MM|TD", [M1, M2, T, Dp]), ("DT|MM", [Dp, T, M1, M2]), ("MD|MT", [M1, Dp, M2, T]),
            ("MT|DM", [M1, T, Dp, M2]), ("TM|MD", [T, M1, M2, Dp])]
    if full:
        pats += [("MM|DT(d)", [M1, M2, Dd, T]), ("TD|MM(d)", [T, Dd, M1, M2]), ("DM|TM(d)", [Dd, M1, T, M2]), ("MT|MD(d)", [M1, T, M2, Dd])]
    return pats




# ---- what a caller may do with objects the library returned: they are the caller's; later results must not depend on it ----------
def mutate_returned_spherical_objects(lmax=4):
    """fetch expansions / matrices from the public helpers of gbasis.spherical and modify them in place (rescale, clear); returns the
    number of objects modified.  With fresh return values this has no effect on anything computed afterwards."""
    from gbasis.spherical import generate_transformation, real_solid_harmonic
    n = 0
    for l in range(lmax + 1):
        cart = np.array([(x, y, l - x - y) for x in range(l, -1, -1) for y in range(l - x, -1, -1)])
        sph = tuple(["c1", "s1", "c0"] if l == 1 else [f"s{m}" for m in range(l, 0, -1)] + [f"c{m}" for m in range(l + 1)])
        for m in range(-l, l + 1):
            d = real_solid_harmonic(l, m)
            for key in list(d):
                d[key] = d[key] * 2.0
            n += 1
        for side in ("left", "right"):
            t = generate_transformation(l, cart, sph, side)
            try:
                t *= 2.0
                n += 1
            except ValueError:      # a read-only result is fine too
                pass
    return n


# ---- displacement vectors between two centres with special structure (components that cancel, coincide, vanish) ----------------
DEGENERATE_DISPLACEMENTS = [(1.2, -1.2, 0.0), (0.0, 1.4, -1.4), (0.7, 0.7, -1.4), (0.9, 0.9, 0.9), (1.1, 0.0, 0.0), (0.0, 0.0, -1.3),
                            (0.8, -0.8, 0.8), (1.0, 2.0, -3.0)]


def degenerate_pair(rng, la, lb, d, nprim=None):
    sa = rand_shell(rng, la, [], nprim=nprim or rng.randint(1, 2), nseg=rng.randint(1, 2), exp_lo=0.3, exp_hi=10.0)
    sb = rand_shell(rng, lb, [], nprim=nprim or rng.randint(1, 2), nseg=rng.randint(1, 2), exp_lo=0.3, exp_hi=10.0)
    ca = [0.0, 0.0, 0.0] if rng.random() < 0.5 else [0.5, -0.25, 1.0]
    return sa.copy(center=ca), sb.copy(center=[a + x for a, x in zip(ca, d)])

