"""C12 — results are covariant under rigid motions of the whole system."""
import itertools
from math import factorial

import numpy as np

from gbv import core
from checks.common import *
from checks import pubfuncs as pf

RULE = ("random bases (l 0..4, generalized, Cartesian and spherical), points, point charges, moment origin and density matrices; "
        "the whole system is moved by every one of the 48 signed axis permutations (proper and improper; the shell "
        "representation matrices are then signed permutation matrices for Cartesian shells) and by random orthogonal matrices "
        "(rational Cayley transforms, optionally composed with a reflection) followed by a random translation; every public "
        "function on the original system must equal the function on the moved system contracted with the shells' "
        "representation matrices on every basis index, with vector (momentum, first moments) and pseudo-vector (angular "
        "momentum) components rotated, second moments as tensors; densities/potentials/invariants unchanged; angular momentum "
        "under a pure translation shifts by d x p; distinct by (motion kind, function, basis signature)")
ASSUMPTIONS = ["representation matrices: exact multinomial expansion of (R^T r)^a, angular normalisation, and T D pinv(T) for spherical shells",
               "relational tolerance 1e-9 x largest magnitude (1e-6 for the repulsion array)"]


def comps(l):
    return [(x, y, l - x - y) for x in range(l, -1, -1) for y in range(l - x, -1, -1)]


def dfact(n):
    r = 1
    while n > 1:
        r *= n
        n -= 2
    return r


def nang(c):
    return 1.0 / np.sqrt(dfact(2 * c[0] - 1) * dfact(2 * c[1] - 1) * dfact(2 * c[2] - 1))


def poly_mul(p, q):
    out = {}
    for (a, ca) in p.items():
        for (b, cb) in q.items():
            k = (a[0] + b[0], a[1] + b[1], a[2] + b[2])
            out[k] = out.get(k, 0.0) + ca * cb
    return out


def cart_rep(l, R):
    """D[c, c'] with  chi_c(R^T u) = sum_c' D[c, c'] chi_c'(u)  for normalised angular parts N_c u^c"""
    cs = comps(l)
    idx = {c: i for i, c in enumerate(cs)}
    lin = [{(1, 0, 0): R[0, k], (0, 1, 0): R[1, k], (0, 0, 1): R[2, k]} for k in range(3)]   # (R^T u)_k = sum_j R[j,k] u_j
    D = np.zeros((len(cs), len(cs)))
    for c in cs:
        p = {(0, 0, 0): 1.0}
        for k in range(3):
            for _ in range(c[k]):
                p = poly_mul(p, lin[k])
        for mono, coef in p.items():
            D[idx[c], idx[mono]] += coef * nang(c) / nang(mono)
    return D


def shell_rep(spec, R):
    from gbasis.spherical import generate_transformation
    D = cart_rep(spec.l, R)
    if spec.sph:
        s = spec.make()
        T = generate_transformation(s.angmom, s.angmom_components_cart, s.angmom_components_sph, "left")
        D = T @ D @ np.linalg.pinv(T)
    return np.kron(np.eye(spec.nseg), D)


def basis_rep(specs, R):
    n = sum(s.size for s in specs)
    D = np.zeros((n, n))
    o = 0
    for s in specs:
        D[o:o + s.size, o:o + s.size] = shell_rep(s, R)
        o += s.size
    return D


def cayley(rng):
    a = np.array([core.snap(rng.uniform(-1, 1), 6) for _ in range(3)])
    S = np.array([[0, -a[2], a[1]], [a[2], 0, -a[0]], [-a[1], a[0], 0]])
    R = np.linalg.solve(np.eye(3) + S, np.eye(3) - S)
    if rng.random() < 0.5:
        R = R @ np.diag([1, 1, -1])
    return R


def signed_perms():
    out = []
    for pm in itertools.permutations(range(3)):
        for sg in itertools.product([1, -1], repeat=3):
            R = np.zeros((3, 3))
            for i in range(3):
                R[i, pm[i]] = sg[i]
            out.append(R)
    return out


def move(specs, env, R, t):
    mv = lambda x: (R @ np.asarray(x, dtype=float).T).T + t
    specs2 = [s.copy(center=list(mv(s.center))) for s in specs]
    env2 = pf.Env(points=mv(env.points), charges=env.charges, charge_pos=mv(env.charge_pos), origin=mv(env.origin), orders=env.orders)
    return specs2, env2


def motion_case(run, specs, env, R, t, kind, names):
    specs2, env2 = move(specs, env, R, t)
    D = basis_rep(specs, R)
    b1, b2 = make_basis(specs), make_basis(specs2)
    det = np.linalg.det(R)
    ok = True
    exact = kind == "signed-permutation"
    for n in names:
        f, nax, _ = pf.FUNCS[n]
        if n == "angular_momentum" and np.abs(t).max() > 0:
            continue
        a1 = f(b1, env)
        a2 = pf.apply_on_axes(f(b2, env2), [D] * nax, nax)
        if n == "momentum":
            a2 = np.einsum("abj,ji->abi", a2, R)
        elif n == "angular_momentum":
            a2 = det * np.einsum("abj,ji->abi", a2, R)
        elif n.startswith("evaluate_deriv_basis"):
            continue    # mixed partial derivatives of fixed order do not form an invariant set
        elif n == "moment":
            # orders: x, y, z (vector), (2,0,1) skipped, (0,0,0) scalar
            v1, v2 = a1[:, :, :3], np.einsum("abj,ji->abi", a2[:, :, :3], R)
            s1, s2 = a1[:, :, 4], a2[:, :, 4]
            a1, a2 = np.concatenate([v1, s1[:, :, None]], axis=2), np.concatenate([v2, s2[:, :, None]], axis=2)
        run.case((kind, n) + sig(specs) + (round(float(R[0, 0]), 6), round(float(t[0]), 6)),
                 sample={"motion": kind, "op": n, "R": R.tolist(), "t": list(map(float, t)), "basis": core.describe_basis(specs)})
        run.count("motion " + kind)
        run.count("function " + n)
        tol = pf.rel_tol(n, a1)
        if a1.shape != a2.shape or np.abs(a1 - a2).max() > tol:
            run.violation(f"{n} is not covariant under the rigid motion ({kind})",
                          {"case": "motion", "function": n, "basis": core.describe_basis(specs), "R": R.tolist(), "t": list(map(float, t)),
                           "env": {"points": env.points.tolist(), "charges": env.charges.tolist(), "charge_pos": env.charge_pos.tolist(),
                                   "origin": env.origin.tolist()}, "kind": kind, "signature": {"kind": "rigid-motion"}})
            ok = False
    # invariants: density, posdef kinetic density, electrostatic potential
    from gbasis.evals.density import evaluate_density, evaluate_posdef_kinetic_energy_density, evaluate_density_laplacian
    from gbasis.evals.electrostatic_potential import electrostatic_potential
    nb = sum(s.size for s in specs)
    g = random_symmetric(run.rng, nb, psd=True)
    g2 = D.T @ g @ D
    g2 = (g2 + g2.T) / 2
    run.case((kind, "invariants") + sig(specs) + (round(float(R[0, 0]), 6),))
    for name, f1, f2 in (
        ("evaluate_density", lambda: evaluate_density(g, b1, env.points), lambda: evaluate_density(g2, b2, env2.points)),
        ("evaluate_posdef_kinetic_energy_density", lambda: evaluate_posdef_kinetic_energy_density(g, b1, env.points),
         lambda: evaluate_posdef_kinetic_energy_density(g2, b2, env2.points)),
        ("evaluate_density_laplacian", lambda: evaluate_density_laplacian(g, b1, env.points), lambda: evaluate_density_laplacian(g2, b2, env2.points)),
        ("electrostatic_potential", lambda: electrostatic_potential(b1, g, env.points, env.charge_pos, np.abs(env.charges)),
         lambda: electrostatic_potential(b2, g2, env2.points, env2.charge_pos, np.abs(env.charges)))):
        x, y = f1(), f2()
        if np.abs(x - y).max() > 1e-8 * float(np.abs(x).max()) + 1e-12:
            run.violation(f"{name} changes under a rigid motion of the whole system ({kind})",
                          {"case": "invariant", "function": name, "basis": core.describe_basis(specs), "R": R.tolist(), "t": list(map(float, t)),
                           "signature": {"kind": "rigid-motion-invariant"}})
            ok = False
    return ok


def deriv_tensor(f, k):
    """full rank-k tensor of k-th partial derivatives: f(orders) -> array; result shape = shape(f) + (3,)*k"""
    out = None
    for idx in itertools.product(range(3), repeat=k):
        orders = [idx.count(0), idx.count(1), idx.count(2)]
        a = f(np.array(orders))
        if out is None:
            out = np.zeros(a.shape + (3,) * k)
        out[(Ellipsis,) + idx] = a
    return out


def rotate_tensor(a, R, first_axis, k):
    """a[..., j1..jk] -> sum_j a[..., j1..jk] R[j1,i1] ... R[jk,ik]   (d/dr_i = sum_j R[j,i] d/dr'_j)"""
    for m in range(k):
        a = np.moveaxis(np.tensordot(a, R, axes=([first_axis + m], [0])), -1, first_axis + m)
    return a


def tensor_case(run, specs, env, R, t, kind):
    """derivative tensors of the basis functions and of the density, gradient / Hessian / stress tensor / Ehrenfest force and
    Hessian rotate as tensors of their rank"""
    from gbasis.evals import density as Dn
    from gbasis.evals import stress_tensor as ST
    from gbasis.evals.eval_deriv import evaluate_deriv_basis
    specs2, env2 = move(specs, env, R, t)
    D = basis_rep(specs, R)
    b1, b2 = make_basis(specs), make_basis(specs2)
    nb = sum(s.size for s in specs)
    g = random_symmetric(run.rng, nb, psd=True)
    g2 = D.T @ g @ D
    g2 = (g2 + g2.T) / 2
    ok = True
    items = []
    for k, dt in ((1, "general"), (2, "general"), (2, "direct"), (3, "general")) + ((() if run.tier == "quick" else ((4, "general"),))):
        items.append((f"evaluate_deriv_basis rank-{k} tensor ({dt})", k, 2,
                      lambda k=k, dt=dt: deriv_tensor(lambda o: evaluate_deriv_basis(b1, env.points, o, deriv_type=dt), k),
                      lambda k=k, dt=dt: pf.apply_on_axes(deriv_tensor(lambda o: evaluate_deriv_basis(b2, env2.points, o, deriv_type=dt), k), [D], 1)))
    from gbasis.integrals.moment import moment_integral
    for k in (2, 3, 4) + (() if run.tier == "quick" else (5,)):
        items.append((f"moment_integral rank-{k} tensor", k, 2,
                      lambda k=k: deriv_tensor(lambda o: moment_integral(b1, env.origin, o[None, :])[:, :, 0], k),
                      lambda k=k: pf.apply_on_axes(deriv_tensor(lambda o: moment_integral(b2, env2.origin, o[None, :])[:, :, 0], k), [D, D], 2)))
    for k in (1, 2, 3):
        items.append((f"evaluate_deriv_density rank-{k} tensor", k, 1,
                      lambda k=k: deriv_tensor(lambda o: Dn.evaluate_deriv_density(o, g, b1, env.points), k),
                      lambda k=k: deriv_tensor(lambda o: Dn.evaluate_deriv_density(o, g2, b2, env2.points), k)))
    items += [
        ("evaluate_density_gradient", 1, 1, lambda: Dn.evaluate_density_gradient(g, b1, env.points), lambda: Dn.evaluate_density_gradient(g2, b2, env2.points)),
        ("evaluate_density_hessian", 2, 1, lambda: Dn.evaluate_density_hessian(g, b1, env.points), lambda: Dn.evaluate_density_hessian(g2, b2, env2.points)),
        ("evaluate_stress_tensor", 2, 1, lambda: ST.evaluate_stress_tensor(g, b1, env.points, alpha=0.3, beta=0.7),
         lambda: ST.evaluate_stress_tensor(g2, b2, env2.points, alpha=0.3, beta=0.7)),
        ("evaluate_ehrenfest_force", 1, 1, lambda: ST.evaluate_ehrenfest_force(g, b1, env.points, alpha=0.3, beta=0.7),
         lambda: ST.evaluate_ehrenfest_force(g2, b2, env2.points, alpha=0.3, beta=0.7)),
        ("evaluate_ehrenfest_hessian", 2, 1, lambda: ST.evaluate_ehrenfest_hessian(g, b1, env.points, alpha=0.3, beta=0.7),
         lambda: ST.evaluate_ehrenfest_hessian(g2, b2, env2.points, alpha=0.3, beta=0.7)),
        ("evaluate_ehrenfest_hessian(symmetric)", 2, 1, lambda: ST.evaluate_ehrenfest_hessian(g, b1, env.points, alpha=1.0, beta=0.25, symmetric=True),
         lambda: ST.evaluate_ehrenfest_hessian(g2, b2, env2.points, alpha=1.0, beta=0.25, symmetric=True)),
    ]
    for name, k, first, f1, f2 in items:
        a1 = f1()
        a2 = rotate_tensor(f2(), R, first, k)
        run.case((kind, name) + sig(specs) + (round(float(R[0, 0]), 6), round(float(t[0]), 6)))
        run.count("tensor " + name)
        if a1.shape != a2.shape or np.abs(a1 - a2).max() > 1e-9 * float(np.abs(a1).max()) + 1e-12:
            run.violation(f"{name} does not rotate as a rank-{k} tensor under the rigid motion ({kind}): max deviation "
                          f"{np.abs(a1 - a2).max():.3e} of {np.abs(a1).max():.3e}",
                          {"case": "tensor", "function": name, "basis": core.describe_basis(specs), "R": R.tolist(), "t": list(map(float, t)),
                           "env": {"points": env.points.tolist(), "charges": env.charges.tolist(), "charge_pos": env.charge_pos.tolist(),
                                   "origin": env.origin.tolist()}, "kind": kind, "signature": {"kind": "rigid-motion-tensor"}})
            ok = False
    return ok


def setter_motion_case(run, rng, R, t):
    """a basis whose shells share per-atom coordinate arrays (as make_contractions builds it) is moved shell by shell through the
    `coord` setter; it must then behave exactly like the basis built afresh at the moved centres"""
    from gbasis.contractions import GeneralizedContractionShell as GCS
    from gbasis.evals.eval import evaluate_basis
    from gbasis.integrals.overlap import overlap_integral
    from gbasis.integrals.point_charge import point_charge_integral
    atoms = [np.array([core.snap(rng.uniform(-1.5, 1.5), 8) for _ in range(3)]) for _ in range(2)]
    shells = [(0, [1.3, 0.4], [[0.7], [0.5]]), (1, [0.9], [[1.0]]), (2, [0.7], [[1.0]])]
    moved_atoms = [R @ a + t for a in atoms]
    basis = [GCS(l, a, np.array(c), np.array(e), "spherical") for a in atoms for (l, e, c) in shells]       # shared coord arrays per atom
    for sh in basis:
        sh.coord = R @ sh.coord + t
    fresh = [GCS(l, a.copy(), np.array(c), np.array(e), "spherical") for a in moved_atoms for (l, e, c) in shells]
    pts = np.array([R @ np.array([0.3, -0.2, 0.5]) + t, R @ np.array([1.0, 1.0, -1.0]) + t])
    run.case(("setter-motion", round(float(R[0, 0]), 6), round(float(t[0]), 6)))
    run.count("motion through the coord setter")
    ok = True
    for name, f in (("overlap_integral", overlap_integral), ("evaluate_basis", lambda b: evaluate_basis(b, pts)),
                    ("point_charge_integral", lambda b: point_charge_integral(b, pts[:1], np.array([1.0])))):
        x, y = f(basis), f(fresh)
        if x.shape != y.shape or np.abs(x - y).max() > 1e-12 * max(1.0, float(np.abs(y).max())):
            run.violation(f"{name}: a basis moved through the shells' `coord` setter differs from the basis built at the moved centres "
                          f"(max deviation {np.abs(x - y).max():.3e})",
                          {"case": "setter-motion", "function": name, "R": R.tolist(), "t": list(map(float, t)),
                           "signature": {"kind": "rigid-motion-setter"}})
            ok = False
    return ok


def right_matrix_case(run, rng, l):
    """rotational invariant of a pure shell assembled by the caller from Cartesian values with generate_transformation(..., "right"):
    sum_m phi_lm(r)^2 depends on |r - A| only (it is (2l+1)/(4 pi) R(r)^2), so it is the same at all points of a sphere"""
    from gbasis.evals.eval import evaluate_basis
    from gbasis.spherical import generate_transformation
    s = rand_shell(rng, l, [], nprim=2, nseg=1, sph=False, exp_lo=0.3, exp_hi=3.0)
    sh = s.make()
    Tr = generate_transformation(l, sh.angmom_components_cart, sh.angmom_components_sph, "right")
    Tl = generate_transformation(l, sh.angmom_components_cart, sh.angmom_components_sph, "left")
    run.case(("right-matrix", l))
    run.count("pure shell assembled with the 'right' matrix")
    ok = True
    if Tr.shape != Tl.T.shape or np.abs(Tr - Tl.T).max() > 1e-13 * max(1.0, float(np.abs(Tl).max())):
        run.violation(f"generate_transformation(l={l}, apply_from='right') is not the transpose of the 'left' form",
                      {"case": "right-matrix", "l": l, "signature": {"kind": "right-matrix"}})
        return False
    pts = []
    for _ in range(6):
        u = np.array([rng.gauss(0, 1) for _ in range(3)])
        pts.append(np.array(s.center) + 0.9 * u / np.linalg.norm(u))
    vals = evaluate_basis([sh], np.array(pts)).T @ Tr          # (points, 2l+1)
    inv = (vals ** 2).sum(axis=1)
    if np.abs(inv - inv[0]).max() > 1e-10 * float(np.abs(inv).max()):
        run.violation(f"sum_m phi_lm^2 of a pure l={l} shell assembled with the 'right' matrix is not constant on a sphere around the centre "
                      f"(relative spread {np.abs(inv - inv[0]).max() / np.abs(inv).max():.2e})",
                      {"case": "right-matrix", "l": l, "signature": {"kind": "right-matrix"}})
        ok = False
    return ok


def angmom_shift_case(run, specs, d, transform=None):
    b1 = make_basis(specs)
    b2 = make_basis([s.copy(center=list(np.array(s.center) + d)) for s in specs])
    kw = {} if transform is None else {"transform": transform}
    L1 = pf.FUNCS["angular_momentum"][0](b1, None, **kw)
    L2 = pf.FUNCS["angular_momentum"][0](b2, None, **kw)
    P = pf.FUNCS["momentum"][0](b1, None, **kw)
    exp = L1 + np.stack([d[1] * P[:, :, 2] - d[2] * P[:, :, 1], d[2] * P[:, :, 0] - d[0] * P[:, :, 2], d[0] * P[:, :, 1] - d[1] * P[:, :, 0]], axis=2)
    run.case(("angmom-shift",) + sig(specs))
    run.count("angmom origin law")
    if np.abs(L2 - exp).max() > 1e-9 * float(np.abs(exp).max()) + 1e-12:
        run.violation("angular momentum about the coordinate origin does not shift by d x p under a translation by d",
                      {"case": "angmom_shift", "basis": core.describe_basis(specs), "d": list(map(float, d)), "signature": {"kind": "angmom-shift"}})
        return False
    return True


def check(run):
    rng = run.rng
    quick = run.tier == "quick"
    names = [n for n, v in pf.FUNCS.items() if v[2] <= 2]
    sp = signed_perms()
    nbases = 2 if quick else 10
    for k in range(nbases):
        cs = []
        specs = [rand_shell(rng, rng.randint(0, 4 if k % 2 else 3), cs, exp_hi=20.0, nprim=rng.randint(1, 3), nseg=rng.randint(1, 2))
                 for _ in range(rng.randint(1, 3))]
        env = pf.default_env(rng, specs, npts=[3, 4, 1, 5, 2][k % 5])
        for R in (sp if (not quick or k == 0) else rng.sample(sp, 8)):
            motion_case(run, specs, env, R, np.zeros(3), "signed-permutation", names if not quick else rng.sample(names, 4))
        for _ in range(3 if quick else 20):
            t = np.array([core.snap(rng.uniform(-2, 2), 8) for _ in range(3)]) if rng.random() < 0.7 else np.zeros(3)
            motion_case(run, specs, env, cayley(rng), t, "orthogonal+translation", names)
        for _ in range(2 if quick else 10):
            t = np.array([core.snap(rng.uniform(-3, 3), 8) for _ in range(3)])
            motion_case(run, specs, env, np.eye(3), t, "translation", names)
        for _ in range(2 if quick else 6):
            tensor_case(run, specs, env, cayley(rng), np.array([core.snap(rng.uniform(-2, 2), 8) for _ in range(3)]), "orthogonal+translation")
        tensor_case(run, specs, env, rng.choice(sp), np.zeros(3), "signed-permutation")
        angmom_shift_case(run, specs, np.array([0.5, -1.25, 2.0]))
        nb_ = sum(s_.size for s_ in specs)
        Tc_ = random_transform(run.rng, nb_, rect=False) + 1j * random_transform(run.rng, nb_, rect=False)
        angmom_shift_case(run, specs, np.array([-0.75, 0.5, 1.5]), transform=Tc_[: max(1, nb_ // 2)])
        run.count("origin law with a complex transformation")
        setter_motion_case(run, rng, cayley(rng), np.array([core.snap(rng.uniform(-2, 2), 8) for _ in range(3)]))
    # shells without any diffuse primitive (smallest exponent 10-60), points close to their centres, the whole system moved 10-25 bohr
    # away from the coordinate origin
    for k in range(2 if quick else 8):
        cs = []
        specs = [rand_shell(rng, (i + k) % 3, cs, nprim=rng.randint(1, 2), nseg=1, sph=bool((i + k) % 2), exp_lo=10.0, exp_hi=60.0) for i in range(2)]
        env = pf.default_env(rng, specs, npts=4)
        env.points = np.array([np.array(specs[i % 2].center) + np.array([core.snap(rng.uniform(-0.25, 0.25), 10) for _ in range(3)]) for i in range(4)])
        t = np.array([[15.0, -12.0, 18.0], [-9.0, 21.0, 7.0]][k % 2])
        motion_case(run, specs, env, np.eye(3) if k % 2 else cayley(rng), t, "translation" if k % 2 else "orthogonal+translation",
                    ["evaluate_basis", "overlap", "kinetic", "point_charge", "moment"])
        tensor_case(run, specs, env, cayley(rng), t, "orthogonal+translation")
        run.count("tight shells moved 10-25 bohr from the origin")
    # screened overlap: whether a pair is dropped depends on the distance only, not on how the separation is spread over the axes —
    # diffuse shells 5.5 - 8 bohr apart along an axis, a face diagonal and a body diagonal (cutoff about 9 bohr at 1e-8), rotated
    for k, d0 in enumerate(([6.0, 0.0, 0.0], [0.0, 4.5, 4.5]) if quick else ([6.0, 0.0, 0.0], [0.0, 4.5, 4.5], [0.0, 0.0, 7.5], [3.5, 3.5, 3.5], [5.0, 0.0, 5.0])):
        specs = [rand_shell(rng, (i + k) % 2, [], nprim=1 + i % 2, nseg=1, exp_lo=0.4, exp_hi=0.5, sph=bool((i + k) % 2)).copy(via_update=False) for i in range(2)]
        c0 = [0.25, -0.5, 0.125]
        specs = [specs[0].copy(center=c0), specs[1].copy(center=[a + b for a, b in zip(c0, d0)])]
        env = pf.default_env(rng, specs)
        motion_case(run, specs, env, cayley(rng), np.array([0.5, 0.25, -1.0]), "orthogonal+translation", ["overlap(tol_screen=1e-8)", "overlap"])
        motion_case(run, specs, env, sp[(5 * k + 3) % len(sp)], np.zeros(3), "signed-permutation", ["overlap(tol_screen=1e-8)"])
        # the distance is below 0.9 x the documented cutoff, so nothing may be dropped: in the given frame and in rotated frames (among
        # them one that puts the separation on a coordinate axis and one that puts it on the body diagonal) screened = unscreened
        amin = [min(s_.exps) for s_ in specs]
        cutoff = float(np.sqrt(-(amin[0] + amin[1]) / (amin[0] * amin[1]) * np.log(1e-8)))
        dist = float(np.linalg.norm(d0))
        if dist < 0.9 * cutoff:
            for lab, dvec in (("given frame", np.array(d0)), ("separation along x", np.array([dist, 0.0, 0.0])), ("separation along z", np.array([0.0, 0.0, dist])),
                              ("separation along the body diagonal", np.array([1.0, -1.0, 1.0]) * dist / np.sqrt(3.0))):
                sp2 = [specs[0], specs[1].copy(center=[float(a + b) for a, b in zip(c0, dvec)])]
                b2 = make_basis(sp2)
                a_s = pf.FUNCS["overlap(tol_screen=1e-8)"][0](b2, env)
                a_u = pf.FUNCS["overlap"][0](b2, env)
                run.case(("screen-frame", lab, k) + sig(sp2))
                if a_s.shape != a_u.shape or np.abs(a_s - a_u).max() > 1e-9:
                    run.violation(f"screened overlap drops a pair {dist:.3g} bohr apart although the cutoff is {cutoff:.3g} bohr ({lab}): the decision "
                                  "depends on the orientation of the frame", {"case": "screen-frame", "basis": core.describe_basis(sp2),
                                                                            "signature": {"kind": "motion-screening"}})
                    break
        run.count("screened overlap of diffuse shells 5.5 - 8 bohr apart")
    for l in range(5 if quick else 8):
        right_matrix_case(run, rng, l)
    # one-electron integrals of d / f pairs on two centres in general position (the horizontal recursions reach b_z >= 2 only there)
    for k, ls in enumerate([(2, 2), (3, 2)] if quick else [(2, 2), (3, 2), (2, 3), (3, 3), (4, 2)]):
        specs = [rand_shell(rng, ls[i], [], nprim=rng.randint(1, 2), nseg=1, exp_lo=0.2, exp_hi=8.0, sph=bool((i + k) % 2)) for i in range(2)]
        general = [[0.35, -0.6, 0.85], [-0.75, 0.4, -0.2]]
        specs = [s_.copy(center=general[i]) for i, s_ in enumerate(specs)]
        env = pf.default_env(rng, specs)
        motion_case(run, specs, env, cayley(rng), np.array([0.5, 0.25, -1.0]), "orthogonal+translation", names)
        motion_case(run, specs, env, sp[(7 * k + 9) % len(sp)], np.zeros(3), "signed-permutation", names)
        run.count("d / f shell pairs in general position")
    # repulsion integrals: angular momenta fixed so that every axis branch of the electron-transfer and horizontal recursions is
    # exercised (p and d shells on both electrons), centres in general position
    for k, ls in enumerate([(1, 1), (1, 2)] if quick else [(1, 1), (1, 2), (2, 1), (0, 2), (2, 2)]):
        cs = []
        specs = [rand_shell(rng, ls[i], cs, nprim=rng.randint(1, 2), nseg=1, exp_lo=0.1, exp_hi=10.0, sph=bool((i + k) % 2)) for i in range(2)]
        # centres in general position (no coincidence, no two equal displacement components): the pool of `rand_shell` forces
        # coincidences and alignments, under which whole branches of the recursions are multiplied by zero
        general = [[0.35, -0.6, 0.85], [-0.75, 0.4, -0.2]]
        specs = [s_.copy(center=general[i]) for i, s_ in enumerate(specs)]
        env = pf.default_env(rng, specs)
        motion_case(run, specs, env, cayley(rng), np.array([0.5, 0.25, -1.0]), "orthogonal+translation", ["eri_chemist"])
        motion_case(run, specs, env, rng.choice(sp), np.zeros(3), "signed-permutation", ["eri_chemist"])


def replay(run, rep):
    if rep.get("case") == "screen-frame":
        n0_ = len(run.violations)
        b2 = make_basis(specs_from(rep))
        a_s = pf.FUNCS["overlap(tol_screen=1e-8)"][0](b2, None)
        a_u = pf.FUNCS["overlap"][0](b2, None)
        if a_s.shape != a_u.shape or np.abs(a_s - a_u).max() > 1e-9:
            run.violation("screened overlap drops a pair that is closer than the documented cutoff", dict(rep))
        return len(run.violations) == n0_
    n0 = len(run.violations)
    specs = specs_from(rep)
    if rep["case"] == "right-matrix":
        right_matrix_case(run, run.rng, rep["l"])
    elif rep["case"] == "setter-motion":
        setter_motion_case(run, run.rng, np.array(rep["R"]), np.array(rep["t"]))
    elif rep["case"] == "angmom_shift":
        angmom_shift_case(run, specs, np.array(rep["d"]))
    elif rep["case"] == "tensor":
        e = rep["env"]
        env = pf.Env(np.array(e["points"]), np.array(e["charges"]), np.array(e["charge_pos"]), np.array(e["origin"]),
                     np.array([[1, 0, 0], [0, 1, 0], [0, 0, 1], [2, 0, 1], [0, 0, 0]]))
        tensor_case(run, specs, env, np.array(rep["R"]), np.array(rep["t"]), rep.get("kind", "orthogonal+translation"))
    else:
        e = rep.get("env")
        env = pf.default_env(run.rng, specs) if e is None else pf.Env(np.array(e["points"]), np.array(e["charges"]), np.array(e["charge_pos"]),
                                                                      np.array(e["origin"]), np.array([[1, 0, 0], [0, 1, 0], [0, 0, 1], [2, 0, 1], [0, 0, 0]]))
        names = [rep["function"]] if rep["function"] in pf.FUNCS else ["overlap"]
        motion_case(run, specs, env, np.array(rep["R"]), np.array(rep["t"]), rep.get("kind", "orthogonal+translation"), names)
    return len(run.violations) == n0
