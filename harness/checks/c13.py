"""C13 — contractions behave as the linear combinations they denote."""
import itertools

import numpy as np

from gbv import core
from checks.common import *
from checks import pubfuncs as pf

RULE = ("shells with 1-4 primitives and 1-4 coefficient columns, l 0..4 (ERI: l <= 2), inside bases of 1-3 shells; every "
        "public integral and evaluation function is run on the basis and on its rewritten-but-equivalent form: generalized "
        "shell -> single-column shells, every permutation of the primitives (<= 24), a primitive split in two with the "
        "coefficient shared, a column scaled by +-10^k for k in -6..6 (sign pattern predicted), and un-normalised blocks "
        "tested for linearity in the coefficients; distinct by (rewrite kind, function, basis signature)")
ASSUMPTIONS = ["relational comparisons use 1e-9 x the largest magnitude of the array (1e-6 for the repulsion array)"]


def run_funcs(specs, env, names, transform=None):
    basis = make_basis(specs)
    if transform is None:
        return {n: pf.FUNCS[n][0](basis, env) for n in names}
    return {n: pf.FUNCS[n][0](basis, env, transform=transform) for n in names}


def compare_sets(run, kind, specs, specs2, env, names, signs=None, extra=None, transform=None):
    a = run_funcs(specs, env, names, transform if signs is None else None)
    b = run_funcs(specs2, env, names, transform if signs is None else None)
    ok = True
    for n in names:
        nax = pf.FUNCS[n][1]
        exp = a[n]
        if signs is not None:
            for k in range(nax):
                shape = [1] * exp.ndim
                shape[k] = len(signs)
                exp = exp * signs.reshape(shape)
        run.case((kind, n) + sig(specs) + (extra,), sample={"rewrite": kind, "op": n, "basis": core.describe_basis(specs)})
        run.count("rewrite " + kind)
        run.count("function " + n)
        tol = pf.rel_tol(n, exp)
        if b[n].shape != exp.shape or np.abs(b[n] - exp).max() > tol:
            run.violation(f"{n}: result changes under the rewrite '{kind}' of the basis",
                          {"case": kind, "function": n, "basis": core.describe_basis(specs), "basis2": core.describe_basis(specs2),
                           "signature": {"kind": "contraction-" + kind}})
            ok = False
    return ok


def rewrites(run, rng, specs, k, env, names):
    s = specs[k]
    nprim = len(s.exps)
    ok = True
    # (a) generalized -> single-column shells
    singles = [s.copy(coeffs=s.coeffs[:, m:m + 1].copy()) for m in range(s.nseg)]
    ok &= compare_sets(run, "split-columns", specs, specs[:k] + singles + specs[k + 1:], env, names)
    # the same with a rectangular transformation (the two descriptions have the same functions in the same order)
    T = random_transform(rng, sum(x.size for x in specs), rect=True)
    ok &= compare_sets(run, "split-columns, transformed", specs, specs[:k] + singles + specs[k + 1:], env, names, transform=T, extra=T.shape)
    # (b) permutations of the primitives
    perms = list(itertools.permutations(range(nprim)))[1:]
    if run.tier == "quick":
        perms = perms[:3]
    for pm in perms:
        pm = list(pm)
        s2 = s.copy(exps=[s.exps[i] for i in pm], coeffs=s.coeffs[pm, :].copy())
        ok &= compare_sets(run, "permute-primitives", specs, specs[:k] + [s2] + specs[k + 1:], env, names, extra=tuple(pm))
    # (c) split one primitive in two
    j = rng.randrange(nprim)
    frac = core.snap(rng.uniform(-0.5, 1.5), 8)
    co = np.vstack([s.coeffs, (1 - frac) * s.coeffs[j:j + 1]])
    co[j] = frac * s.coeffs[j]
    s2 = s.copy(exps=s.exps + [s.exps[j]], coeffs=co)
    ok &= compare_sets(run, "split-primitive", specs, specs[:k] + [s2] + specs[k + 1:], env, names)
    # (d) scale a column
    offs, total = pf.offsets(specs)
    for e10 in ([-6, 3] if run.tier == "quick" else range(-6, 7, 2)):
        for sgn in (1, -1):
            m = rng.randrange(s.nseg)
            co = s.coeffs.copy()
            co[:, m] *= sgn * 10.0 ** e10
            s2 = s.copy(coeffs=co)
            signs = np.ones(total)
            if sgn < 0:
                signs[offs[k] + m * s.nfun: offs[k] + (m + 1) * s.nfun] = -1
            ok &= compare_sets(run, "scale-column", specs, specs[:k] + [s2] + specs[k + 1:], env, names, signs=signs, extra=(e10, sgn))
    return ok


def linearity(run, rng, sa, sb):
    """un-normalised shell blocks are linear in the coefficients"""
    from gbasis.integrals.kinetic_energy import KineticEnergyIntegral
    from gbasis.integrals.overlap import Overlap
    from gbasis.evals.eval import Eval
    x, y = core.snap(rng.uniform(-2, 2), 8), core.snap(rng.uniform(-2, 2), 8)
    c1 = sa.coeffs
    c2 = np.array([[rand_c for rand_c in (core.rand_coeff(rng) for _ in range(sa.nseg))] for _ in range(len(sa.exps))])
    s1, s2, s3 = sa.copy(coeffs=c1).make(), sa.copy(coeffs=c2).make(), sa.copy(coeffs=x * c1 + y * c2).make()
    b = sb.make()
    pts = np.array([[0.1, 0.2, 0.3], [-1.0, 0.5, 2.0]])
    run.case(("linear",) + sig([sa, sb]))
    run.count("rewrite linearity")
    ok = True
    for name, f in (("Overlap", lambda s: Overlap.construct_array_contraction(s, b)),
                    ("KineticEnergyIntegral", lambda s: KineticEnergyIntegral.construct_array_contraction(s, b)),
                    ("Eval", lambda s: Eval.construct_array_contraction(s, pts))):
        a1, a2, a3 = f(s1), f(s2), f(s3)
        sc = max(1e-300, float(np.abs(a1).max()), float(np.abs(a2).max()))
        if np.abs(a3 - (x * a1 + y * a2)).max() > 1e-9 * sc * (abs(x) + abs(y) + 1) + 1e-14 * sc:
            run.violation(f"{name}.construct_array_contraction is not linear in the contraction coefficients",
                          {"case": "linear", "basis": core.describe_basis([sa, sb]), "function": name, "signature": {"kind": "contraction-linearity"}})
            ok = False
    return ok


def inplace_rescale_case(run, rng, l):
    """scaling a column in place in the coefficient array the shell holds and renormalising gives the same function up to the sign"""
    from gbasis.evals.eval import evaluate_basis
    from gbasis.integrals.overlap import overlap_integral
    s = rand_shell(rng, l, [], nprim=3, nseg=2, exp_lo=0.2, exp_hi=10.0)
    sh = s.make()
    pts = np.array([[0.3, -0.2, 0.5], [1.0, 1.0, -1.0], list(s.center)])
    v0 = evaluate_basis([sh], pts)
    f = core.snap(rng.choice([-1, 1]) * 10.0 ** rng.uniform(-3, 3), 6)
    sh.coeffs[:, 1] *= f
    sh.assign_norm_cont()
    v1 = evaluate_basis([sh], pts)
    n = s.nfun
    exp = v0.copy()
    exp[n:2 * n] *= np.sign(f)
    run.case(("inplace-rescale", l, f))
    run.count("rewrite scale-column in place + assign_norm_cont")
    if np.abs(v1 - exp).max() > 1e-9 * float(np.abs(exp).max()) or np.abs(np.diag(overlap_integral([sh])) - 1).max() > 1e-8:
        run.violation(f"after scaling a coefficient column in place by {f} and calling assign_norm_cont the shell is not renormalised",
                      {"case": "inplace-rescale", "l": l, "basis": [s.describe()], "signature": {"kind": "contraction-inplace"}})
        return False
    return True


def extreme_columns_case(run, rng, l, factors, names, sph=False):
    """all columns of a generalized shell scaled at once by factors many orders of magnitude apart (each inside the +-6 orders of
    the property), with primitives that only one of the columns uses: same functions up to the signs of the factors, and the same
    as the single-column shells built from the scaled columns"""
    scaled, plain = extreme_column_shell(rng, l, factors, sph=sph)
    other = rand_shell(rng, (l + 1) % 3, [], nprim=2, nseg=1, exp_hi=10.0)
    specs, specs2 = [plain, other], [scaled, other]
    env = pf.default_env(rng, specs)
    signs = np.ones(plain.size + other.size)
    for m, f in enumerate(factors):
        if f < 0:
            signs[m * plain.nfun:(m + 1) * plain.nfun] = -1
    ok = compare_sets(run, "scale-all-columns", specs, specs2, env, names, signs=signs, extra=tuple(factors))
    singles = [scaled.copy(coeffs=scaled.coeffs[:, m:m + 1].copy()) for m in range(scaled.nseg)]
    ok &= compare_sets(run, "split-columns", specs2, singles + [other], env, names, extra=tuple(factors))
    return ok


def check(run):
    rng = run.rng
    quick = run.tier == "quick"
    cheap = [n for n, v in pf.FUNCS.items() if v[2] <= 2]
    for k, (l, f) in enumerate([(1, (1e6, 1e-6)), (0, (-1e-6, 1e6)), (2, (1e6, 1.0))] if quick else
                               [(l, f) for l in range(4) for f in ((1e6, 1e-6), (-1e-6, 1e6), (1e6, 1.0), (1.0, -1e-6))]):
        extreme_columns_case(run, rng, l, f, cheap, sph=bool(k % 2))
        run.count("all columns scaled at once, factors %g / %g" % f)
    extreme_columns_case(run, rng, 1, (1e6, 1e-6), ["eri_chemist"])
    for it in range(5 if quick else 30):
        n = rng.randint(1, 3)
        cs = []
        specs = [rand_shell(rng, rng.randint(0, 4), cs, nprim=rng.randint(1, 4), nseg=rng.randint(1, 4), exp_hi=30.0) for _ in range(n)]
        env = pf.default_env(rng, specs)
        k = rng.randrange(n)
        rewrites(run, rng, specs, k, env, cheap if not quick else rng.sample(cheap, 6))
    # generalized shells with different numbers of columns far apart (screened blocks) and close together
    for it in range(2 if quick else 8):
        cs = []
        specs = [rand_shell(rng, 1 + (i + it) % 2, cs, nprim=2, nseg=2 + (i + it) % 2, exp_lo=0.5, exp_hi=20.0) for i in range(2)]
        if it % 2 == 0:
            specs[1] = specs[1].copy(center=[float(x) + 40.0 for x in specs[0].center])
        rewrites(run, rng, specs, it % 2, pf.default_env(rng, specs), ["overlap(tol_screen=1e-8)", "overlap"])
        run.count("screened overlap, different column counts")
    for it in range(1 if quick else 6):
        cs = []
        specs = [rand_shell(rng, rng.randint(0, 1 if quick else 2), cs, nprim=rng.randint(2, 3), nseg=rng.randint(1, 2), exp_lo=0.1, exp_hi=10.0)
                 for _ in range(rng.randint(1, 2))]
        rewrites(run, rng, specs, 0, None, ["eri_chemist"])
    # uncontracted shells with several columns (one primitive, M >= 2): every quartet type must treat the columns alike
    for it in range(1 if quick else 4):
        s1 = ShellSpec(it % 2, [0.0, 0.0, 0.0], [1.1], [[1.0, 3.0, -0.5][: 2 + it % 2]])
        s2 = ShellSpec(1, [0.4, -0.7, 0.9], [0.8], [[1.0]])
        rewrites(run, rng, [s1, s2], 0, None, ["eri_chemist"])
        run.count("single-primitive shell with several columns (ERI)")
    # the same for every other function, both derivative back-ends included: one primitive shared by 2 - 4 columns
    for it in range(3 if quick else 8):
        l = it % 3
        s1 = ShellSpec(l, [core.snap(rng.uniform(-0.5, 0.5), 8) for _ in range(3)], [core.rand_exp(rng, 0.4, 3.0)],
                       [[1.0, -2.0e3, 5.0e-4, 0.7][: 2 + it % 3]], sph=bool(it % 2))
        s2 = rand_shell(rng, (l + 1) % 2, [], nprim=2, nseg=1, exp_hi=10.0)
        specs = [s1, s2] if it % 2 == 0 else [s2, s1]
        rewrites(run, rng, specs, it % 2, pf.default_env(rng, specs), cheap)
        run.count("single-primitive shell with several columns (all functions)")
    # coefficient matrices with special structure (permutation of an uncontracted set, two columns sharing one primitive, diagonal,
    # triangular, several segmented contractions stored as one shell): every rewrite for every cheap function
    from checks.common import structured_coefficient_shell
    for it, kind in enumerate(("permutation", "shared-primitive", "block-disjoint", "diagonal", "triangular")):
        for l in ((it % 2,) if quick else (0, 1, 2)):
            sh = structured_coefficient_shell(rng, l, kind, sph=bool((it + l) % 2))
            other = rand_shell(rng, (l + 1) % 2, [], nprim=2, nseg=1, exp_hi=10.0)
            specs = [sh, other] if it % 2 == 0 else [other, sh]
            rewrites(run, rng, specs, it % 2, pf.default_env(rng, specs), cheap)
            run.count("coefficient matrix of %s type" % kind)
    # all-s generalized shells go through the dedicated (ss|ss) routine
    for it in range(1 if quick else 4):
        cs = []
        specs = [rand_shell(rng, 0, cs, nprim=rng.randint(2, 3), nseg=2 + (i + it) % 2, exp_lo=0.1, exp_hi=10.0) for i in range(2)]
        rewrites(run, rng, specs, it % 2, None, ["eri_chemist", "eri_physicist"])
        run.count("all-s generalized ERI")
    for l in range(3 if quick else 5):
        inplace_rescale_case(run, rng, l)
    for it in range(4 if quick else 25):
        sa, sb = pair_specs(rng, rng.randint(0, 4), rng.randint(0, 3))
        linearity(run, rng, sa.copy(sph=False), sb.copy(sph=False))


def replay(run, rep):
    n0 = len(run.violations)
    specs = specs_from(rep)
    if rep["case"] == "inplace-rescale":
        inplace_rescale_case(run, run.rng, rep["l"])
    elif rep["case"] == "linear":
        linearity(run, run.rng, specs[0], specs[1])
    else:
        env = pf.default_env(run.rng, specs)
        a = pf.FUNCS[rep["function"]][0](make_basis(specs), env)
        b = pf.FUNCS[rep["function"]][0](make_basis(specs_from(rep, "basis2")), env)
        tol = 1e-9 * max(1e-300, float(np.abs(a).max()))
        if a.shape != b.shape or (rep["case"] != "scale-column" and np.abs(a - b).max() > tol) or \
                (rep["case"] == "scale-column" and np.abs(np.abs(a) - np.abs(b)).max() > tol):
            run.violation("still differs", rep)
    return len(run.violations) == n0
