"""C15 — stress tensor, Ehrenfest force and Ehrenfest Hessian obey their definitions."""
import itertools

import numpy as np

from gbv import core
from checks.common import *

RULE = ("(P) the linear forms in D(p;q) of evaluate_stress_tensor / evaluate_ehrenfest_force / evaluate_ehrenfest_hessian are "
        "read off the running implementation by exact probing at (alpha, beta) in {0, 1/2, 1, 1/4, 3} x {0, 3/2} and two more "
        "points, and must equal the model's forms (kernel-checked obligation GBProofs.Obl.Forms; the model's forms are "
        "polynomials in alpha, beta about which the theorems speak); (C) end to end on small real bases (l 0..3, generalized, "
        "mixed types, transforms, 1-20 points) for special and generic alpha, beta: implementation vs the model's form "
        "evaluated with the Lean model's derivative values within 1e-9 x magnitude; stress symmetric; symmetric option = "
        "(H + H^T)/2; distinct by (function, alpha, beta, basis signature)")
ASSUMPTIONS = ["a differential ring with three commuting derivations models smooth functions on R^3 (standard; used by the theorems)"]


def one_case(run, specs, t, gamma, pts, alpha, beta, sym_flag=True):
    from gbasis.evals import stress_tensor as S
    basis = make_basis(specs)
    dc = DerivCache(run, specs, pts, t)
    rep = {"basis": core.describe_basis(specs), "transform": None if t is None else t.tolist(), "gamma": gamma.tolist(),
           "points": pts.tolist(), "alpha": alpha, "beta": beta}
    run.case(("stress", alpha, beta) + sig(specs) + (t is not None,),
             sample={"op": "stress/force/hessian", "alpha": alpha, "beta": beta, "basis": core.describe_basis(specs)})
    run.count(f"alpha={alpha}")
    run.count(f"beta={beta}")
    count_basis(run, specs)
    ok = True
    st = S.evaluate_stress_tensor(gamma, basis, pts, alpha=alpha, beta=beta, transform=t)
    fo = S.evaluate_ehrenfest_force(gamma, basis, pts, alpha=alpha, beta=beta, transform=t)
    he = S.evaluate_ehrenfest_hessian(gamma, basis, pts, alpha=alpha, beta=beta, transform=t)
    hs = S.evaluate_ehrenfest_hessian(gamma, basis, pts, alpha=alpha, beta=beta, transform=t, symmetric=sym_flag)
    scale = 0.0
    for i in range(3):
        v, m = eval_form(model_form(run, "force", (alpha, beta), (i,)), dc, gamma)
        ok &= compare(run, f"evaluate_ehrenfest_force[{i}]", fo[:, i], v + 0 * fo[:, i], 1e-9 * m + 1e-300, dict(rep, case="force"), "force")
        for j in range(3):
            v, m = eval_form(model_form(run, "stress", (alpha, beta), (i, j)), dc, gamma)
            ok &= compare(run, f"evaluate_stress_tensor[{i},{j}]", st[:, i, j], v + 0 * st[:, i, j], 1e-9 * m + 1e-300, dict(rep, case="stress"), "stress")
            v, m = eval_form(model_form(run, "ehrenfest_hessian", (alpha, beta), (0, i, j)), dc, gamma)
            ok &= compare(run, f"evaluate_ehrenfest_hessian[{i},{j}]", he[:, i, j], v + 0 * he[:, i, j], 1e-9 * m + 1e-300, dict(rep, case="hessian"), "ehrenfest-hessian")
            scale = max(scale, float(np.max(m)) if np.ndim(m) else float(m))
    if ok:
        if np.abs(st - st.transpose(0, 2, 1)).max() > 0:
            run.violation("stress tensor is not symmetric", dict(rep, case="stress", signature={"kind": "stress-symmetric"}))
            ok = False
        if np.abs(hs - (he + he.transpose(0, 2, 1)) / 2).max() > 1e-12 * scale + 1e-300:
            run.violation("symmetric=True does not return (H + H^T)/2", dict(rep, case="hessian", signature={"kind": "hessian-symmetrised"}))
            ok = False
    return ok


def representation_cases(run):
    """the same points / density matrix passed as other kinds of ndarray (Fortran order, strided view, read-only, int64, float32)"""
    from gbasis.evals import stress_tensor as ST
    rng = run.rng
    cs = []
    specs = [rand_shell(rng, l, cs, nprim=1 + l, nseg=1, exp_hi=5.0) for l in (0, 1)]
    basis = make_basis(specs)
    n = sum(s.size for s in specs)
    pts = np.array([[0.0, 1.0, -1.0], [2.0, 0.0, 1.0]])
    g = np.eye(n) * 2.0
    g[0, n - 1] = g[n - 1, 0] = 1.0
    rep = {"basis": core.describe_basis(specs), "points": pts.tolist(), "gamma": g.tolist()}
    for name, f in (("evaluate_stress_tensor", lambda d, p: ST.evaluate_stress_tensor(d, basis, p, alpha=0.5, beta=1.0)),
                    ("evaluate_ehrenfest_force", lambda d, p: ST.evaluate_ehrenfest_force(d, basis, p, alpha=0.25, beta=0.5)),
                    ("evaluate_ehrenfest_hessian", lambda d, p: ST.evaluate_ehrenfest_hessian(d, basis, p, alpha=1.0, beta=0.5, symmetric=True))):
        repr_case(run, name, "points", lambda p, f=f: f(g, p), pts, rep)
        repr_case(run, name, "one_density_matrix", lambda d, f=f: f(d, pts), g, rep)


def check(run):
    rng = run.rng
    quick = run.tier == "quick"
    params = [(1, 0), (0, 0), (0.5, 0), (1, 1.5), (0.25, 3.0), (0, -2.0), (0.5, 0.75), (-0.375, 5.0), (3.0, 0), (2.5, -1.25)]
    if not quick:
        params = params + [(core.snap(rng.uniform(-2, 2), 8), core.snap(rng.uniform(-2, 2), 8)) for _ in range(20)]
    for n, (a, b) in enumerate(params):
        specs = random_basis(rng, 1, 2 if quick else 3, lmax=2 if quick else 3, exp_hi=10.0)
        nb = sum(s.size for s in specs)
        t = random_transform(rng, nb) if n % 3 == 1 else None
        m = nb if t is None else t.shape[0]
        gamma = random_symmetric(rng, m, psd=(n % 2 == 0))
        pts = np.array([[core.snap(rng.uniform(-2, 2), 10) for _ in range(3)] for _ in range(rng.randint(1, 4 if quick else 20))])
        one_case(run, specs, t, gamma, pts, a, b)
    # flags and parameters as numpy scalars (what comparisons / array elements produce)
    for n, (a, b, flag) in enumerate([(np.float64(1.0), np.float64(0.5), np.bool_(True)), (0.3, np.float64(-1.0), np.array([True])[0]), (np.float64(0.5), 0, 1)]):
        specs = random_basis(rng, 2, 2, lmax=2, exp_hi=10.0)
        nb = sum(s.size for s in specs)
        gamma = random_symmetric(rng, nb, psd=False)
        pts = np.array([[core.snap(rng.uniform(-2, 2), 10) for _ in range(3)] for _ in range(3)])
        one_case(run, specs, None, gamma, pts, a, b, sym_flag=flag)
        run.count("symmetric flag of type " + type(flag).__name__)
    # both parameters given as Python integers (the default alpha is the int 1), odd and even, of either sign; bools
    for n, (a, b) in enumerate([(1, 1), (0, 3), (1, -1), (2, 1), (True, 1), (-1, 5), (1, 2)] if quick else
                               [(a_, b_) for a_ in (1, 0, 2, -1, True) for b_ in (1, 3, -1, 5, 2, -3)]):
        specs = random_basis(rng, 1, 2, lmax=2, exp_hi=10.0)
        nb = sum(s.size for s in specs)
        gamma = random_symmetric(rng, nb, psd=(n % 2 == 0))
        pts = np.array([[core.snap(rng.uniform(-2, 2), 10) for _ in range(3)] for _ in range(2)])
        one_case(run, specs, None, gamma, pts, a, b)
        run.count("alpha and beta both Python integers")
    from checks.common import zero_diag_symmetric
    for n, (a, b) in enumerate([(1, 0), (0.5, 0.75), (0, -2.0), (0.3, 1.0)] if quick else params[:8]):
        specs = random_basis(rng, 1, 2, lmax=2, exp_hi=10.0)
        nb = sum(s.size for s in specs)
        t = random_transform(rng, nb) if n % 2 == 0 else None
        m = nb if t is None else t.shape[0]
        gamma = zero_diag_symmetric(rng, m, nzero=1 + n % 2)
        pts = np.array([[core.snap(rng.uniform(-2, 2), 10) for _ in range(3)] for _ in range(3)])
        one_case(run, specs, t, gamma, pts, a, b)
        run.count("zero-diagonal density matrix")
    # every quantity is linear in the density matrix: matrices of small magnitude (first-order response, density differences,
    # anything scaled by 1e-9) whose off-diagonal elements are tiny in absolute terms but not next to the diagonal
    for n, (a, b, scale) in enumerate([(1, 0, 1e-9), (0.3, 0.75, 1e-9), (0, 1.5, 1e-12), (0.5, -2.0, 1e-10)] if quick else
                                      [(a_, b_, sc_) for (a_, b_) in params[:8] for sc_ in (1e-9, 1e-12)]):
        specs = random_basis(rng, 1, 2, lmax=2, exp_hi=10.0)
        nb = sum(s.size for s in specs)
        t = random_transform(rng, nb) if n % 2 else None
        m = nb if t is None else t.shape[0]
        gamma = random_symmetric(rng, m, psd=(n % 2 == 0)) * scale
        pts = np.array([[core.snap(rng.uniform(-2, 2), 10) for _ in range(3)] for _ in range(3)])
        one_case(run, specs, t, gamma, pts, a, b)
        run.count("density matrix of magnitude %g" % scale)
    from checks import c09 as _c09
    _c09.positional_arguments_case(run, rng, only=('stress', 'ehrenfest'))
    representation_cases(run)


def replay(run, rep):
    if rep.get("case") == "positional":
        from checks import c09 as _c09
        n0_ = len(run.violations)
        _c09.positional_arguments_case(run, run.rng, only=('stress', 'ehrenfest'))
        return len(run.violations) == n0_
    n0 = len(run.violations)
    if rep.get("case") == "representation":
        representation_cases(run)
        return len(run.violations) == n0
    t = None if rep.get("transform") is None else np.array(rep["transform"])
    one_case(run, specs_from(rep), t, np.array(rep["gamma"]), np.array(rep["points"]), rep["alpha"], rep["beta"])
    return len(run.violations) == n0
