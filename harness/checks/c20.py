"""C20 — overlap screening follows the documented cutoff and is conservative."""
import itertools
import math

import numpy as np

from gbv import core
from checks.common import *

RULE = ("bases of 2-5 shells (l 0..3, 1-4 primitives with exponents 0.05..500, generalized, all coordinate types) placed at centre "
        "distances 0..30 bohr including distances that bracket the documented cutoff sqrt(-(a+b)/(ab) ln tol) (smallest exponents) by "
        "factors 1 +- 2^-20; tolerances 1e-16..0.5 and None; with and without transformation: every shell-pair block of "
        "overlap_integral(basis, tol_screen) must equal the unscreened block (and the Lean model) when the distance does not exceed "
        "the cutoff and be exactly zero otherwise; None = unscreened; lowering the tolerance never removes more blocks; every removed "
        "s-type element is below tol x the sums of normalised absolute contraction coefficients; booleans rejected; distinct by "
        "(basis signature, tolerance)")
ASSUMPTIONS = ["the cutoff is evaluated in float64; pairs whose distance is within 1e-12 relative of the cutoff are not generated"]


def cutoff(sa, sb, tol):
    a, b = min(sa.exps), min(sb.exps)
    return math.sqrt(-(a + b) / (a * b) * math.log(tol))


def place(rng, n, lmax, tol):
    """shells with distances spread from 0 to 30 bohr, some bracketing the cutoff"""
    specs = []
    for i in range(n):
        s = rand_shell(rng, rng.randint(0, lmax), [], exp_lo=0.05, exp_hi=500.0)
        if i == 0:
            c = [0.0, 0.0, 0.0]
        else:
            ref = specs[rng.randrange(len(specs))]
            r = rng.random()
            if r < 0.15:
                d = 0.0
            elif r < 0.55 and tol is not None:
                d = cutoff(ref, s, tol) * (1 + rng.choice([-1, 1]) * 2.0 ** -20)
            else:
                d = rng.uniform(0, 30)
            u = np.array([rng.gauss(0, 1) for _ in range(3)])
            u /= np.linalg.norm(u)
            c = list(np.array(ref.center) + d * u)
        # atom labels as concatenated make_contractions fragments produce them: numbered from 0 in every fragment, so that shells on
        # different centres can carry the same `icenter` (the label is bookkeeping; only the distance decides the screening)
        if len(s.exps) >= 2 and (i + n) % 3 == 0:
            # zero-padded contraction tables: the primitive with the smallest exponent has coefficient 0 in every column
            co = s.coeffs.copy()
            co[int(np.argmin(s.exps)), :] = 0.0
            if np.all(np.any(co != 0, axis=0)):        # every contraction must keep a non-zero coefficient
                s = s.copy(coeffs=co)
        ic = None if n % 2 else (i % 2 if i else 0)
        specs.append(s.copy(center=[float(x) for x in c], icenter=ic))
    return specs


def expected_mask(specs, tol):
    n = len(specs)
    keep = np.ones((n, n), dtype=bool)
    ambiguous = False
    if tol is None:
        return keep, False
    for i in range(n):
        for j in range(n):
            d = float(np.linalg.norm(np.array(specs[i].center) - np.array(specs[j].center)))
            c = cutoff(specs[i], specs[j], tol)
            if abs(d - c) <= 1e-12 * max(c, 1e-300):
                ambiguous = True
            keep[i, j] = not (d > c)
    return keep, ambiguous


def one_case(run, specs, tol, transform=None):
    from gbasis.integrals.overlap import overlap_integral
    basis = make_basis(specs)
    keep, amb = expected_mask(specs, tol)
    if amb:
        return True
    full = overlap_integral(basis)
    scr = overlap_integral(basis, tol_screen=tol, transform=transform)
    offs, total = [], 0
    for s in specs:
        offs.append(total)
        total += s.size
    exp = full.copy()
    for i, j in itertools.product(range(len(specs)), repeat=2):
        if not keep[i, j]:
            exp[offs[i]:offs[i] + specs[i].size, offs[j]:offs[j] + specs[j].size] = 0.0
    if transform is not None:
        exp = transform @ exp @ transform.T
    rep = {"case": "screen", "basis": core.describe_basis(specs), "tol": tol, "transform": None if transform is None else transform.tolist()}
    run.case(("screen", tol) + sig(specs) + (transform is not None,), sample={"op": "overlap_integral(tol_screen)", "tol": tol, "basis": core.describe_basis(specs)})
    run.count("tol None" if tol is None else f"tol 1e{int(math.floor(math.log10(tol)))}")
    run.count(f"removed blocks {int((~keep).sum())}")
    ok = True
    if transform is None:
        if not np.array_equal(scr, exp):
            bad = tuple(int(i) for i in np.unravel_index(np.argmax(np.abs(scr - exp)), scr.shape))
            run.violation(f"screened overlap differs from 'unscreened block if distance <= cutoff else exactly zero' at {bad}: got {scr[bad]!r}, expected {exp[bad]!r}",
                          dict(rep, index=bad, signature={"kind": "screen-rule"}))
            ok = False
        model = run.model.array("overlap " + btok(specs))
        ok &= compare(run, "kept blocks vs exact overlap", np.where(exp != 0, scr, 0.0), np.where(exp != 0, model, 0.0), 1e-8, rep, "screen-exact")
    else:
        if np.abs(scr - exp).max() > 1e-12 * max(1.0, np.abs(exp).max()):
            run.violation("screened overlap with a transformation differs from the transformed screened matrix", dict(rep, signature={"kind": "screen-forwarded"}))
            ok = False
    # conservativeness for s-type elements
    if tol is not None and transform is None:
        shells = basis
        for i, j in itertools.product(range(len(specs)), repeat=2):
            if keep[i, j] or specs[i].l != 0 or specs[j].l != 0:
                continue
            for m in range(specs[i].nseg):
                for k in range(specs[j].nseg):
                    # the function is  sum_k (norm_cont * c_k) * (unit-normalised primitive k): its "normalised contraction
                    # coefficients" are norm_cont * c_k (theorem screen_conservative bounds |S| by tol x the two sums of their
                    # absolute values); the primitive norms belong to the unit-normalised primitives, not to the coefficients
                    bi = shells[i].norm_cont[m, 0] * np.sum(np.abs(shells[i].coeffs[:, m]))
                    bj = shells[j].norm_cont[k, 0] * np.sum(np.abs(shells[j].coeffs[:, k]))
                    val = abs(full[offs[i] + m, offs[j] + k])
                    run.count("removed s-type elements")
                    if not val < tol * bi * bj:
                        run.violation(f"removed s-type element {val!r} is not below tol x coefficient sums = {tol * bi * bj!r}",
                                      dict(rep, signature={"kind": "screen-conservative"}))
                        ok = False
    return ok


def monotone_case(run, specs, tols):
    prev = None
    for tol in sorted(tols, reverse=True):
        keep, amb = expected_mask(specs, tol)
        from gbasis.integrals.overlap import overlap_integral
        scr = overlap_integral(make_basis(specs), tol_screen=tol)
        zero = scr == 0
        if prev is not None and np.any(zero & ~prev):
            run.violation("lowering the tolerance removed additional elements", {"case": "monotone", "basis": core.describe_basis(specs),
                                                                                   "tols": tols, "signature": {"kind": "screen-monotone"}})
            return False
        prev = zero
    run.case(("monotone",) + sig(specs))
    return True


def check(run):
    rng = run.rng
    quick = run.tier == "quick"
    tols = [None, 0.5, 1e-1, 1e-3, 1e-5, 1e-8, 1e-12, 1e-16]
    for k in range(16 if quick else 120):
        tol = tols[k % len(tols)]
        specs = place(rng, rng.randint(2, 5), 3 if k % 2 else 1, tol)
        t = random_transform(rng, sum(s.size for s in specs)) if k % 5 == 4 else None
        one_case(run, specs, tol, t)
    # one-centre and two-centre bases with every pair of angular momenta 0..3 in both coordinate types (distance 0 is always within
    # the cutoff: every block must be untouched, in particular the non-vanishing Cartesian blocks with l differing by 2)
    for k, tol in enumerate([0.5, 1e-3, 1e-8, 1e-16] if quick else tols[1:]):
        for sph in (False, True):
            specs = [rand_shell(rng, l, [], nprim=rng.randint(1, 3), exp_lo=0.05, exp_hi=50.0, sph=sph).copy(center=[0.25, -0.5, 1.0])
                     for l in (0, 2, 1, 3)]
            if (k + sph) % 2:
                far = rand_shell(rng, rng.randint(0, 3), [], exp_lo=1.0, exp_hi=50.0)
                specs.append(far.copy(center=[0.25, -0.5, 1.0 + cutoff(specs[0], far, tol) * (1 + 2.0 ** -20)]))
            one_case(run, specs, tol)
            run.count("one-centre basis, all l pairs")
    for k in range(3 if quick else 20):
        specs = place(rng, 4, 2, 1e-6)
        monotone_case(run, specs, [0.5, 1e-2, 1e-4, 1e-8, 1e-16])
    from gbasis.integrals.overlap import overlap_integral
    specs = place(rng, 2, 1, 1e-3)
    run.case(("bool",))
    try:
        overlap_integral(make_basis(specs), tol_screen=True)
        run.violation("a boolean tol_screen was accepted", {"case": "bool", "basis": core.describe_basis(specs), "signature": {"kind": "screen-bool"}})
    except TypeError:
        pass


def replay(run, rep):
    n0 = len(run.violations)
    specs = specs_from(rep)
    if rep["case"] == "screen":
        t = rep.get("transform")
        one_case(run, specs, rep["tol"], None if t is None else np.array(t))
    elif rep["case"] == "monotone":
        monotone_case(run, specs, rep["tols"])
    return len(run.violations) == n0
