"""C11 — index symmetries hold and reordering shells only reorders indices."""
import itertools

import numpy as np

from gbv import core
from checks.common import *
from checks import pubfuncs as pf

RULE = ("bases of 2-5 shells of differing angular momentum, segment count and coordinate type; all permutations of the "
        "shells up to 4 shells (a random sample for 5): every public integral/evaluation function on the permuted basis must "
        "equal the original array with basis indices permuted; symmetric / Hermitian / eight-fold symmetry of the outputs; "
        "shell blocks from construct_array_contraction evaluated independently in both orientations (pairs) and all eight "
        "orientations (quartets, including tight/diffuse ones, reported through the recorded finding F10); the two orientations "
        "are also each compared with the Lean model; distinct by (function, basis signature, permutation)")
ASSUMPTIONS = ["relational comparisons use 1e-9 x the largest magnitude of the array (1e-6 of the Schwarz scale for the repulsion array)"]


def perm_case(run, specs, perm, fname, env):
    f, nax, _ = pf.FUNCS[fname]
    a0 = f(make_basis(specs), env)
    ps = [specs[i] for i in perm]
    a1 = f(make_basis(ps), env)
    ix = pf.index_perm(specs, perm)
    exp = a0
    for k in range(nax):
        exp = np.take(exp, ix, axis=k)
    run.case(("perm", fname, tuple(perm)) + sig(specs), sample={"op": fname, "perm": list(perm), "basis": core.describe_basis(specs)})
    run.count("function " + fname)
    tol = pf.rel_tol(fname, a0)
    if a1.shape != exp.shape or np.abs(a1 - exp).max() > tol:
        bad = None if a1.shape != exp.shape else tuple(int(i) for i in np.unravel_index(np.argmax(np.abs(a1 - exp)), a1.shape))
        pmax = 2 * max(max(s.exps) for s in specs)
        qmin = 2 * min(min(s.exps) for s in specs)
        run.violation(f"{fname}: listing the shells in the order {list(perm)} does not just permute the basis indices (index {bad})",
                      {"case": "perm", "function": fname, "basis": core.describe_basis(specs), "perm": list(perm), "index": bad,
                       "signature": {"kind": "eri" if fname.startswith("eri") else "perm", "lc_plus_ld": 2 * max(s.l for s in specs),
                                     "pq_ratio": pmax / qmin}})
        return False
    return True


def symmetry_case(run, specs, env):
    ok = True
    basis = make_basis(specs)
    rep = {"case": "symm", "basis": core.describe_basis(specs)}
    run.case(("symm",) + sig(specs))
    for name in ("overlap", "kinetic", "nuclear_attraction"):
        a = pf.FUNCS[name][0](basis, env)
        if np.abs(a - a.T).max() > (1e-9 * np.abs(a).max() + 1e-12):
            run.violation(f"{name} matrix is not symmetric", dict(rep, function=name, signature={"kind": "symmetric"}))
            ok = False
    for name in ("moment", "point_charge"):
        a = pf.FUNCS[name][0](basis, env)
        if np.abs(a - a.transpose(1, 0, 2)).max() > (1e-9 * np.abs(a).max() + 1e-12):
            run.violation(f"{name} array is not symmetric in its basis indices", dict(rep, function=name, signature={"kind": "symmetric"}))
            ok = False
    for name in ("momentum", "angular_momentum"):
        a = pf.FUNCS[name][0](basis, env)
        if np.abs(a - np.conj(a.transpose(1, 0, 2))).max() > (1e-9 * np.abs(a).max() + 1e-12) or np.abs(a.real).max() > (1e-9 * np.abs(a).max() + 1e-12):
            run.violation(f"{name} array is not Hermitian / purely imaginary", dict(rep, function=name, signature={"kind": "hermitian"}))
            ok = False
    return ok


def eightfold_case(run, specs):
    a = pf.FUNCS["eri_chemist"][0](make_basis(specs), None)
    run.case(("8fold",) + sig(specs))
    run.count("eightfold")
    d = np.sqrt(np.abs(np.einsum("ijij->ij", a)))
    tol = 1e-6 * d[:, :, None, None] * d[None, None, :, :] + 1e-300
    for name, tr in (("(ab|cd)=(ba|cd)", (1, 0, 2, 3)), ("(ab|cd)=(ab|dc)", (0, 1, 3, 2)), ("(ab|cd)=(cd|ab)", (2, 3, 0, 1)),
                     ("(ab|cd)=(dc|ba)", (3, 2, 1, 0))):
        if np.any(np.abs(a - a.transpose(tr)) > tol + tol.transpose(tr)):
            run.violation(f"electron-repulsion array lacks the symmetry {name}",
                          {"case": "8fold", "basis": core.describe_basis(specs), "signature": {"kind": "eri-symmetry"}})
            return False
    return True


def block_orientation_case(run, sa, sb):
    from gbasis.integrals.kinetic_energy import KineticEnergyIntegral
    from gbasis.integrals.moment import Moment
    from gbasis.integrals.overlap import Overlap
    from gbasis.integrals.point_charge import PointChargeIntegral
    a, b = sa.make(), sb.make()
    run.case(("orient2", sa.l, sb.l) + sig([sa, sb]))
    run.count("pair orientation")
    pts = np.array([[0.3, -0.2, 0.5], [1.0, 1.0, -1.0]])
    q = np.array([1.0, -2.0])
    tests = [("Overlap", Overlap.construct_array_contraction(a, b), Overlap.construct_array_contraction(b, a), (2, 3, 0, 1)),
             ("KineticEnergyIntegral", KineticEnergyIntegral.construct_array_contraction(a, b), KineticEnergyIntegral.construct_array_contraction(b, a), (2, 3, 0, 1)),
             ("PointChargeIntegral", PointChargeIntegral.construct_array_contraction(a, b, pts, q), PointChargeIntegral.construct_array_contraction(b, a, pts, q), (2, 3, 0, 1, 4)),
             ("Moment", Moment.construct_array_contraction(a, b, np.array([0.1, 0.2, -0.3]), np.array([[1, 0, 2], [0, 0, 0]])),
              Moment.construct_array_contraction(b, a, np.array([0.1, 0.2, -0.3]), np.array([[1, 0, 2], [0, 0, 0]])), (2, 3, 0, 1, 4))]
    ok = True
    for name, x, y, tr in tests:
        sc = max(1e-300, float(np.abs(x).max()))
        if np.abs(x - y.transpose(tr)).max() > 1e-9 * sc + 1e-12:
            run.violation(f"{name}.construct_array_contraction(s1, s2) is not the transpose of (s2, s1)",
                          {"case": "orient2", "basis": core.describe_basis([sa, sb]), "function": name, "signature": {"kind": "block-orientation"}})
            ok = False
    from gbasis.integrals.momentum import MomentumIntegral
    x, y = MomentumIntegral.construct_array_contraction(a, b), MomentumIntegral.construct_array_contraction(b, a)
    if np.abs(x - np.conj(y.transpose(2, 3, 0, 1, 4))).max() > 1e-9 * float(np.abs(x).max()) + 1e-12:
        run.violation("MomentumIntegral.construct_array_contraction(s1, s2) is not the conjugate transpose of (s2, s1)",
                      {"case": "orient2", "basis": core.describe_basis([sa, sb]), "function": "MomentumIntegral", "signature": {"kind": "block-orientation"}})
        ok = False
    return ok


def quartet_orientation_case(run, specs, tag="random"):
    from gbasis.integrals.electron_repulsion import ElectronRepulsionIntegral as E
    sh = [s.copy(sph=False).make() for s in specs]

    def normed(order):
        ss = [sh[i] for i in order]
        blk = E.construct_array_contraction(*ss)
        for k, s in enumerate(ss):
            shape = [1] * 8
            shape[2 * k], shape[2 * k + 1] = blk.shape[2 * k], blk.shape[2 * k + 1]
            blk = blk * s.norm_cont.reshape(shape)
        return blk
    base = normed((0, 1, 2, 3))
    run.case(("orient8", tag) + sig(specs))
    run.count("quartet orientation " + tag)
    ab = normed((0, 1, 0, 1))
    cd = normed((2, 3, 2, 3))
    dab = np.sqrt(np.abs(np.einsum("ijklijkl->ijkl", ab)))
    dcd = np.sqrt(np.abs(np.einsum("ijklijkl->ijkl", cd)))
    tol = 1e-6 * dab[:, :, :, :, None, None, None, None] * dcd[None, None, None, None] + 1e-300
    ok = True
    for order in [(1, 0, 2, 3), (0, 1, 3, 2), (1, 0, 3, 2), (2, 3, 0, 1), (3, 2, 0, 1), (2, 3, 1, 0), (3, 2, 1, 0)]:
        other = normed(order)
        # bring `other` back to the axis order of `base`
        inv = [order.index(k) for k in range(4)]
        axes = [x for k in inv for x in (2 * k, 2 * k + 1)]
        back = other.transpose(axes)
        if np.any(np.abs(back - base) > tol):
            exps = [s.exps for s in specs]
            pq = []
            for o in ((0, 1, 2, 3), order):
                p = max(exps[o[0]]) + max(exps[o[1]])
                q = min(exps[o[2]]) + min(exps[o[3]])
                pq.append((p / q, specs[o[2]].l + specs[o[3]].l))
            worst = max(pq)
            run.violation(f"electron-repulsion block computed in orientation {order} differs from orientation (0,1,2,3)",
                          {"case": "orient8", "basis": core.describe_basis(specs), "order": list(order),
                           "signature": {"kind": "eri", "lc_plus_ld": max(x[1] for x in pq if x[0] == worst[0]), "pq_ratio": worst[0]}})
            ok = False
    return ok


def braket_swap_case(run, specs, tag):
    """(ab|cd) against the independently computed (cd|ab) only — for quartets with exponents beyond the published range, where the
    two orderings *within* a pair differ in accuracy already on the unchanged code, but the bra-ket exchange is exact"""
    from gbasis.integrals.electron_repulsion import ElectronRepulsionIntegral as E
    sh = [s_.copy(sph=False).make() for s_ in specs]
    x = E.construct_array_contraction(sh[0], sh[1], sh[2], sh[3])
    y = E.construct_array_contraction(sh[2], sh[3], sh[0], sh[1]).transpose(4, 5, 6, 7, 0, 1, 2, 3)
    run.case(("braket-swap", tag) + sig(specs))
    run.count("bra-ket exchange " + tag)
    sc = float(np.abs(y).max())
    if x.shape != y.shape or np.abs(x - y).max() > 1e-10 * sc + 1e-300:
        run.violation(f"(ab|cd) differs from the independently computed (cd|ab) by {np.abs(x - y).max() / max(sc, 1e-300):.3e} of the largest element",
                      {"case": "braket-swap", "basis": core.describe_basis(specs), "signature": {"kind": "eri-braket-swap"}})
        return False
    return True


def check(run):
    rng = run.rng
    quick = run.tier == "quick"
    cheap = [n for n, v in pf.FUNCS.items() if v[2] <= 2]
    # class-level lincomb with a one-string coord_type list in several listing orders (documented: the string applies to every shell)
    from checks import c09 as _c09
    _c09.single_string_types_case(run, rng)
    for k, (lt, et) in enumerate([(3, 2.0e4), (4, 3.0e3), (3, 3.0e3)] if quick else [(3, 2.0e4), (4, 3.0e3), (3, 3.0e3), (2, 1.0e5), (4, 1.0e2), (3, 1.0e2)]):
        tight = ShellSpec(lt, [0.0, 0.0, 0.0], [et], [[1.0]])
        diffuse = ShellSpec(0, [0.9, -0.5, 0.7], [0.1], [[1.0]])
        c_ = ShellSpec(0, [-0.4, 0.6, 0.3], [0.8], [[1.0]])
        d_ = ShellSpec(1, [0.5, 0.5, -0.6], [1.2], [[1.0]])
        braket_swap_case(run, [tight, diffuse, c_, d_], "very tight high-l shell with a diffuse partner")
        braket_swap_case(run, [diffuse, tight, d_, c_], "very tight high-l shell with a diffuse partner")
    for k in range(4 if quick else 20):
        n = 2 + k % (3 if quick else 4)
        cs = []
        ls = list(range(4))
        rng.shuffle(ls)
        specs = [rand_shell(rng, ls[i % 4] if n <= 4 else rng.randint(0, 3), cs, nseg=1 + (i % 3), sph=bool((i + k) % 2), exp_hi=30.0)
                 for i in range(n)]
        env = pf.default_env(rng, specs)
        perms = list(itertools.permutations(range(n)))[1:]
        if n >= 4 or quick:
            perms = rng.sample(perms, min(len(perms), 5 if quick else (23 if n == 4 else 12)))
        for pm in perms:
            for fname in (cheap if not quick else rng.sample(cheap, 5)):
                perm_case(run, specs, pm, fname, env)
        symmetry_case(run, specs, env)
        run.count(f"nshell={n}")
    # shells of equal angular momentum on different centres (where a tie-break between the two shells of a pair can go wrong),
    # generalized, listed in every order
    for k in range(2 if quick else 8):
        cs = []
        ls = [(1, 1, 2), (2, 2, 1), (1, 2, 1, 2), (3, 3)][k % 4]
        specs = [rand_shell(rng, l, cs, nprim=rng.randint(1, 2), nseg=1 + (i + k) % 2, sph=bool((i + k) % 3 == 0), exp_hi=20.0) for i, l in enumerate(ls)]
        env = pf.default_env(rng, specs)
        for pm in list(itertools.permutations(range(len(ls))))[1:: (1 if len(ls) <= 3 else 4)]:
            for fname in ("point_charge", "nuclear_attraction", "overlap", "momentum", "angular_momentum", "moment"):
                perm_case(run, specs, pm, fname, env)
        symmetry_case(run, specs, env)
        for i in range(len(specs)):
            for j in range(i + 1, len(specs)):
                if specs[i].l == specs[j].l:
                    block_orientation_case(run, specs[i], specs[j])
                    block_orientation_case(run, specs[j], specs[i])
        run.count("equal angular momenta on different centres")
    # ERI: permutations and eight-fold symmetry on small bases
    for k in range(2 if quick else 8):
        cs = []
        n = 2 + k % 2
        specs = [rand_shell(rng, (i + k) % 2 if quick else rng.randint(0, 2), cs, nprim=rng.randint(1, 2), nseg=1 + i % 2,
                            sph=bool(i % 2), exp_lo=0.1, exp_hi=10.0) for i in range(n)]
        for pm in list(itertools.permutations(range(n)))[1:][: 2 if quick else 5]:
            perm_case(run, specs, pm, "eri_chemist", None)
            perm_case(run, specs, pm, "eri_physicist", None)
        eightfold_case(run, specs)
    cs = []
    sgen = [rand_shell(rng, 0, cs, nprim=2, nseg=2 + i % 2, sph=False, exp_lo=0.1, exp_hi=10.0) for i in range(3)]
    for pm in [(1, 0, 2), (2, 1, 0), (1, 2, 0)]:
        perm_case(run, sgen, pm, "eri_chemist", None)
    eightfold_case(run, sgen)
    for la, lb in ([(0, 1), (2, 1), (3, 0), (2, 4)] if quick else itertools.product(range(5), repeat=2)):
        sa, sb = pair_specs(rng, la, lb)
        block_orientation_case(run, sa.copy(sph=False), sb.copy(sph=False))
    # a very tight shell of high angular momentum (core-correlating f / g functions of heavy elements) against a diffuse s or p
    # shell a few bohr away: both orientations of the pair must agree to rounding for every block type
    for lhi, ehi, llo, elo in ([(3, 1.0e3, 0, 0.03), (4, 1.0e3, 1, 0.08), (4, 4.0e3, 0, 0.03)] if quick else
                               [(lh, eh, ll, el) for lh, eh in ((3, 1.0e3), (3, 4.0e3), (4, 1.0e2), (4, 1.0e3), (4, 4.0e3), (2, 1.0e4))
                                for ll, el in ((0, 0.03), (1, 0.08))]):
        hi = ShellSpec(lhi, [0.0, 0.0, 0.0], [ehi, ehi * 0.375], [[1.0], [0.6]])
        lo = ShellSpec(llo, [3.0, -2.5, 3.0], [elo, elo * 0.375], [[0.7], [1.0]])
        block_orientation_case(run, lo, hi)
        block_orientation_case(run, hi, lo)
        run.count("tight high-l shell against a diffuse low-l shell")
    for ls in ([(0, 1, 1, 0), (1, 0, 2, 1), (2, 0, 0, 1)] if quick else [tuple(rng.randint(0, 2) for _ in range(4)) for _ in range(12)]):
        cs = []
        specs = [rand_shell(rng, l, cs, nprim=rng.randint(1, 2), nseg=1, sph=False, exp_lo=0.1, exp_hi=10.0) for l in ls]
        quartet_orientation_case(run, specs)
    # a tight p / d shell about one bohr from a much more diffuse partner (the product centre of the pair lies within 1e-5 of the
    # tight shell's centre), near the coordinate origin and 15-20 bohr from it; a pair whose centres share one coordinate to 3e-8
    for n_, far in enumerate((False, True)):
        o = np.array([12.0, -9.0, 11.0]) if far else np.zeros(3)
        at = lambda v: [float(x) for x in o + np.array(v)]
        tight = ShellSpec(1 + n_ % 2, at([0.1, 0.2, -0.1]), [1.5e3 if far else 2.0e4], [1.0])
        diffuse = ShellSpec(n_ % 2, at([0.9, -0.5, 0.7]), [0.1], [1.0])
        m1 = ShellSpec(1, at([-0.4, 0.6, 0.3]), [0.8], [1.0])
        m2 = ShellSpec(0, at([0.5, 0.5, -0.6]), [1.2], [1.0])
        for q in ([tight, diffuse, m1, m2], [m1, m2, diffuse, tight]) if quick else ([tight, diffuse, m1, m2], [m1, m2, diffuse, tight], [m1, tight, diffuse, m2]):
            quartet_orientation_case(run, q, "tight next to diffuse" + (", far from the origin" if far else ""))
    a_ = ShellSpec(1, [0.3, -0.2, 0.5], [1.3], [1.0])
    b_ = ShellSpec(1, [0.3 + 3e-8, 0.7, -0.4], [0.9], [1.0])
    c_ = ShellSpec(0, [-0.6, 0.1, 0.2], [0.7], [1.0])
    quartet_orientation_case(run, [a_, b_, c_, a_.copy(l=0)], "centres sharing one coordinate to 3e-8")
    quartet_orientation_case(run, [c_, b_, a_, b_.copy(l=0)], "centres sharing one coordinate to 3e-8")
    from checks.common import mixed_tight_diffuse_quartets
    for tag, q in mixed_tight_diffuse_quartets(full=not quick)[1:: (2 if quick else 1)]:
        quartet_orientation_case(run, q, "tight/diffuse/moderate " + tag)
    # tight core s against diffuse d: the recorded finding
    core_s = ShellSpec(0, [0.0, 0.0, 0.0], [1e4], [1.0])
    core_s2 = ShellSpec(0, [0.0, 0.0, 0.0], [5e3], [1.0])
    d1 = ShellSpec(2, [0.0, 0.0, 1.2], [0.3], [1.0])
    d2 = ShellSpec(2, [0.3, -0.4, 1.0], [0.45], [1.0])
    quartet_orientation_case(run, [d1, d2, core_s, core_s2], "tight-diffuse")
    t1 = ShellSpec(0, [0.0, 0.0, 0.0], [1e5], [1.0])
    t2 = ShellSpec(0, [0.0, 0.0, 0.0], [5e4], [1.0])
    f1 = ShellSpec(3, [0.0, 0.0, 1.2], [0.2], [1.0])
    f2 = ShellSpec(3, [0.3, -0.4, 1.0], [0.3], [1.0])
    quartet_orientation_case(run, [f1, f2, t1, t2], "tight-diffuse")


def replay(run, rep):
    n0 = len(run.violations)
    specs = specs_from(rep)
    rng = run.rng
    if rep["case"] == "perm":
        perm_case(run, specs, tuple(rep["perm"]), rep["function"], pf.default_env(rng, specs))
    elif rep["case"] == "symm":
        symmetry_case(run, specs, pf.default_env(rng, specs))
    elif rep["case"] == "8fold":
        eightfold_case(run, specs)
    elif rep["case"] == "orient2":
        block_orientation_case(run, specs[0], specs[1])
    elif rep["case"] == "single-string-types":
        from checks import c09 as _c09
        _c09.single_string_types_case(run, rng)
    elif rep["case"] == "braket-swap":
        braket_swap_case(run, specs, "replay")
    else:
        quartet_orientation_case(run, specs)
    return len(run.violations) == n0
