"""C09 — spherical, mixed and linearly transformed results derive from the Cartesian ones."""
import itertools

import numpy as np

from gbv import core
from checks.common import *
from checks import pubfuncs as pf

RULE = ("(T) every construct_array_{cartesian,spherical,mix,lincomb} pipeline of the four base classes is extracted from the source "
        "(34 programs + 4 lincomb chains) and checked symbolically in Lean for all shapes (obligation GBProofs.Obl.Pipelines); "
        "(C) exact labelled-block test: the four classes are subclassed with integer-labelled blocks of pairwise distinct shapes, "
        "integer norm_cont and integer 'transformation' matrices, and every method (all assignments of cartesian/spherical to 1-4 "
        "shells for the one/two-index classes, 1-2 shells for the four-index class; rectangular integer T; both transforms of the "
        "asymmetric class present/absent) must equal the direct index formula exactly; (R) every public function on "
        "spherical/mixed bases vs the all-Cartesian result contracted with the shells' matrices, transform= vs explicit "
        "contraction, and component order/sign conventions (all Cartesian permutations for l <= 2, random for l = 3; all "
        "spherical order/sign patterns for l = 1, random above) vs permuted/signed outputs; distinct by (class, method, pattern)")
ASSUMPTIONS = ["labelled-block expectation is a direct index formula written independently of the library's tensordot/swapaxes code"]


# ------------------------------------------------------------------------------------------------
# exact labelled-block test
def prime_table(n):
    out, k = [], 2
    while len(out) < n:
        if all(k % p for p in out):
            out.append(k)
        k += 1
    return out


class Dummy:
    """shell data for the labelled test: l, M, fake integer norm and transformation"""

    def __init__(self, idx, l, M):
        self.idx, self.l, self.M = idx, l, M
        self.L = (l + 1) * (l + 2) // 2
        self.S = 2 * l + 1
        self.norm = np.array([[1 + ((3 * m + 5 * c + idx) % 4) for c in range(self.L)] for m in range(M)], dtype=float)
        self.T = np.array([[((2 * r + 3 * c + idx) % 5) - 2 for c in range(self.L)] for r in range(self.S)], dtype=float)

    def make(self):
        from gbasis.contractions import GeneralizedContractionShell
        s = GeneralizedContractionShell(self.l, np.array([0.1 * self.idx, 0.0, 0.0]), np.ones((1, self.M)), np.array([1.0 + self.idx]), "cartesian")
        s.norm_cont = self.norm.copy()
        s._dummy = self
        return s


def fid(d, m, c):
    return d.idx * 97 + m * 13 + c + 1


PR = prime_table(700)


def label(kind, xs, extra):
    """value of the dummy kernel for function ids xs (one per basis slot)"""
    p = [PR[x] for x in xs]
    if kind == "one":
        return float(p[0] * 10 + extra)
    if kind == "asym":
        return float(p[0] * 1009 + p[1] + 7 * extra)
    if kind == "herm":   # Hermitian kernel: K(x2,x1) = conj K(x1,x2)
        return complex(p[0] * p[1] + 7 * (p[0] + p[1]) + extra, p[0] - p[1])
    if kind == "four":   # eight-fold symmetric
        return float(p[0] * p[1] + p[2] * p[3] + 1009 * (p[0] + p[1]) * (p[2] + p[3]) + extra)
    raise ValueError(kind)


def dummy_block(kind, ds, nextra):
    shape = []
    for d in ds:
        shape += [d.M, d.L]
    shape.append(nextra)
    out = np.zeros(shape, dtype=complex if kind == "herm" else float)
    for ix in np.ndindex(*shape):
        xs = [fid(ds[k], ix[2 * k], ix[2 * k + 1]) for k in range(len(ds))]
        out[ix] = label(kind, xs, ix[-1])
    return out


def direct(kind, dummies_per_slot, sph_per_slot, nextra):
    """the specification of C09 as an index formula: normalise on (segment, Cartesian component), contract every
    spherical slot with its own matrix, flatten segment-major, place at the shells' offsets"""
    nsl = len(dummies_per_slot)
    sizes = [[d.M * (d.S if s else d.L) for d, s in zip(ds, ss)] for ds, ss in zip(dummies_per_slot, sph_per_slot)]
    totals = [sum(x) for x in sizes]
    out = np.zeros(totals + [nextra], dtype=complex if kind == "herm" else float)
    for combo in itertools.product(*[range(len(ds)) for ds in dummies_per_slot]):
        ds = [dummies_per_slot[k][combo[k]] for k in range(nsl)]
        ss = [sph_per_slot[k][combo[k]] for k in range(nsl)]
        blk = dummy_block(kind, ds, nextra)
        for k, d in enumerate(ds):
            shape = [1] * blk.ndim
            shape[2 * k], shape[2 * k + 1] = d.M, d.L
            blk = blk * d.norm.reshape(shape)
        for k, (d, s) in enumerate(zip(ds, ss)):
            if s:
                blk = np.moveaxis(np.tensordot(d.T, blk, (1, 2 * k + 1)), 0, 2 * k + 1)
        blk = blk.reshape([blk.shape[2 * k] * blk.shape[2 * k + 1] for k in range(nsl)] + [nextra])
        sl = tuple(slice(sum(sizes[k][:combo[k]]), sum(sizes[k][:combo[k] + 1])) for k in range(nsl))
        out[sl] = blk
    return out


def install_fake_transform(mods):
    """generate_transformation(angmom, cart, sph, 'left') -> the dummy integer matrix of that angular momentum & shell"""
    saved = [(m, m.generate_transformation) for m in mods]
    return saved


def labelled_case(run, kind, ls, Ms, nextra, pattern, transforms):
    """kind: one | herm | asym | four"""
    import gbasis.base_four_symm as b4
    import gbasis.base_one as b1
    import gbasis.base_two_asymm as b2a
    import gbasis.base_two_symm as b2s

    dummies = [Dummy(i, l, M) for i, (l, M) in enumerate(zip(ls, Ms))]
    shells = [d.make() for d in dummies]
    current = {}

    def fake_gen(angmom, cart, sph, apply_from):
        # called with the shell's own properties: identify the shell by its angular momentum and position
        d = current["by_l"][angmom]
        return d.T.copy()

    class One(b1.BaseOneIndex):
        @staticmethod
        def construct_array_contraction(contractions):
            return dummy_block("one", [contractions._dummy], nextra)

    class Herm(b2s.BaseTwoIndexSymmetric):
        @staticmethod
        def construct_array_contraction(c1, c2):
            return dummy_block("herm", [c1._dummy, c2._dummy], nextra)

    class Asym(b2a.BaseTwoIndexAsymmetric):
        @staticmethod
        def construct_array_contraction(c1, c2):
            return dummy_block("asym", [c1._dummy, c2._dummy], nextra)

    class Four(b4.BaseFourIndexSymmetric):
        @staticmethod
        def construct_array_contraction(c1, c2, c3, c4):
            return dummy_block("four", [c1._dummy, c2._dummy, c3._dummy, c4._dummy], nextra)

    # all shells of one test have distinct l, so the fake generator can find the dummy by angular momentum
    current["by_l"] = {d.l: d for d in dummies}
    mods = [b1, b2s, b2a, b4]
    saved = [m.generate_transformation for m in mods]
    for m in mods:
        m.generate_transformation = fake_gen
    try:
        types = ["spherical" if s else "cartesian" for s in pattern]
        if kind == "asym":
            half = max(1, len(shells) // 2)
            sh1, sh2 = shells[:half], shells[half:] or shells[:1]
            d1, d2 = dummies[:half], dummies[half:] or dummies[:1]
            p1, p2 = list(pattern[:half]), list(pattern[half:]) or list(pattern[:1])
            obj = Asym(sh1, sh2)
            exp = direct("asym", [d1, d2], [p1, p2], nextra)
            t1, t2 = transforms
            T1 = None if t1 is None else t1[:, :exp.shape[0]]
            T2 = None if t2 is None else t2[:, :exp.shape[1]]
            got = obj.construct_array_lincomb(T1, T2, ["spherical" if s else "cartesian" for s in p1],
                                              ["spherical" if s else "cartesian" for s in p2])
            if T1 is not None:
                exp = np.tensordot(T1, exp, (1, 0))
            if T2 is not None:
                exp = np.moveaxis(np.tensordot(T2, exp, (1, 1)), 0, 1)
            results = [("lincomb", got, exp)]
            if all(p1) and all(p2):
                results.append(("spherical", obj.construct_array_spherical(), direct("asym", [d1, d2], [p1, p2], nextra)))
            if not any(p1) and not any(p2):
                results.append(("cartesian", obj.construct_array_cartesian(), direct("asym", [d1, d2], [p1, p2], nextra)))
            results.append(("mix", obj.construct_array_mix(["spherical" if s else "cartesian" for s in p1],
                                                           ["spherical" if s else "cartesian" for s in p2]),
                            direct("asym", [d1, d2], [p1, p2], nextra)))
        else:
            nsl = {"one": 1, "herm": 2, "four": 4}[kind]
            cls = {"one": One, "herm": Herm, "four": Four}[kind]
            obj = cls(shells)
            exp = direct(kind, [dummies] * nsl, [list(pattern)] * nsl, nextra)
            results = [("mix", obj.construct_array_mix(types), exp)]
            if all(pattern):
                results.append(("spherical", obj.construct_array_spherical(), exp))
            if not any(pattern):
                results.append(("cartesian", obj.construct_array_cartesian(), exp))
            T = transforms[0]
            if T is not None:
                T = T[:, :exp.shape[0]]
                e2 = exp
                for k in range(nsl):
                    e2 = np.moveaxis(np.tensordot(T, e2, (1, k)), 0, k)
                results.append(("lincomb", obj.construct_array_lincomb(T, types), e2))
    finally:
        for m, g in zip(mods, saved):
            m.generate_transformation = g
    ok = True
    for method, got, exp in results:
        run.case(("labelled", kind, method, tuple(ls), tuple(Ms), tuple(pattern), nextra),
                 sample={"class": kind, "method": method, "l": list(ls), "segments": list(Ms), "pattern": list(map(bool, pattern))})
        run.count(f"labelled {kind}.{method}")
        got = np.asarray(got)
        if got.shape != exp.shape or not np.array_equal(got, exp):
            bad = None
            if got.shape == exp.shape:
                bad = tuple(int(i) for i in np.unravel_index(np.argmax(np.abs(got - exp)), got.shape))
            run.violation(f"{kind}-index class, construct_array_{method}, types {types if kind != 'asym' else pattern}: labelled-block result differs "
                          f"from the index formula at {bad} (shape {got.shape} vs {exp.shape})",
                          {"case": "labelled", "kind": kind, "method": method, "ls": list(ls), "Ms": list(Ms), "nextra": nextra,
                           "pattern": [bool(x) for x in pattern], "index": bad, "signature": {"kind": "assembly-" + kind}})
            ok = False
    return ok


# ------------------------------------------------------------------------------------------------
# relational checks on the public functions
def sph_vs_cart(run, specs, fname, env):
    from gbasis.spherical import generate_transformation
    f, nax, _ = pf.FUNCS[fname]
    cart_specs = [s.copy(sph=False) for s in specs]
    a_cart = f(make_basis(cart_specs), env)
    a = f(make_basis(specs), env)
    # block-diagonal matrix: identity for Cartesian shells, kron(I_M, T) for spherical ones
    rows = sum(s.size for s in specs)
    cols = sum(s.size for s in cart_specs)
    W = np.zeros((rows, cols))
    r = c = 0
    for s, sc in zip(specs, cart_specs):
        if s.sph:
            sh = s.make()
            T = generate_transformation(sh.angmom, sh.angmom_components_cart, sh.angmom_components_sph, "left")
            blk = np.kron(np.eye(s.nseg), T)
        else:
            blk = np.eye(sc.size)
        W[r:r + blk.shape[0], c:c + blk.shape[1]] = blk
        r += blk.shape[0]
        c += blk.shape[1]
    exp = pf.apply_on_axes(a_cart, [W] * nax, nax)
    run.case(("sph-vs-cart", fname) + sig(specs), sample={"op": fname, "relation": "spherical/mixed = T . cartesian", "basis": core.describe_basis(specs)})
    run.count("relation sph-vs-cart " + fname)
    tol = pf.rel_tol(fname, exp)
    if a.shape != exp.shape or np.abs(a - exp).max() > tol:
        run.violation(f"{fname}: spherical/mixed result is not the Cartesian result contracted with the shells' matrices",
                      {"case": "sph-vs-cart", "function": fname, "basis": core.describe_basis(specs), "signature": {"kind": "sph-vs-cart"}})
        return False
    return True


def type_matrix(specs):
    """block-diagonal matrix taking the all-Cartesian basis to `specs`: identity for Cartesian shells, kron(I_M, T) for spherical ones"""
    from gbasis.spherical import generate_transformation
    cart_specs = [s.copy(sph=False) for s in specs]
    W = np.zeros((sum(s.size for s in specs), sum(s.size for s in cart_specs)))
    r = c = 0
    for s, sc in zip(specs, cart_specs):
        if s.sph:
            sh = s.make()
            blk = np.kron(np.eye(s.nseg), generate_transformation(sh.angmom, sh.angmom_components_cart, sh.angmom_components_sph, "left"))
        else:
            blk = np.eye(sc.size)
        W[r:r + blk.shape[0], c:c + blk.shape[1]] = blk
        r += blk.shape[0]
        c += blk.shape[1]
    return W, cart_specs


def asym_case(run, specs1, specs2, rng):
    """overlap_integral_asymmetric of two bases with their own coordinate-type patterns = W1 . (all-Cartesian result) . W2^T,
    and with transform_one / transform_two = T1 . that . T2^T"""
    from gbasis.integrals.overlap_asymm import overlap_integral_asymmetric
    W1, c1 = type_matrix(specs1)
    W2, c2 = type_matrix(specs2)
    cart = overlap_integral_asymmetric(make_basis(c1), make_basis(c2))
    exp = W1 @ cart @ W2.T
    got = overlap_integral_asymmetric(make_basis(specs1), make_basis(specs2))
    run.case(("asym-types",) + sig(specs1) + sig(specs2))
    run.count("relation asymmetric overlap, type patterns %s|%s" % ("".join("s" if s.sph else "c" for s in specs1), "".join("s" if s.sph else "c" for s in specs2)))
    rep = {"case": "asym-types", "basis": core.describe_basis(specs1), "basis2": core.describe_basis(specs2), "signature": {"kind": "asym-types"}}
    if got.shape != exp.shape or np.abs(got - exp).max() > 1e-9 * max(1.0, np.abs(exp).max()):
        run.violation("overlap_integral_asymmetric: result for two bases with different coordinate types is not the Cartesian result "
                      f"contracted with each basis' own matrices (shape {got.shape}, expected {exp.shape})", rep)
        return False
    T1, T2 = random_transform(rng, exp.shape[0], rect=True), random_transform(rng, exp.shape[1], rect=True)
    got = overlap_integral_asymmetric(make_basis(specs1), make_basis(specs2), transform_one=T1, transform_two=T2)
    e2 = T1 @ exp @ T2.T
    if got.shape != e2.shape or np.abs(got - e2).max() > 1e-9 * max(1.0, np.abs(e2).max()):
        run.violation("overlap_integral_asymmetric with transform_one / transform_two is not T1 . result . T2^T", rep)
        return False
    return True


def transform_case(run, specs, fname, env, T):
    f, nax, _ = pf.FUNCS[fname]
    basis = make_basis(specs)
    a = f(basis, env)
    at = f(basis, env, transform=T)
    exp = pf.apply_on_axes(a, [T] * nax, nax)
    run.case(("transform", fname, T.shape) + sig(specs))
    run.count("relation transform " + fname)
    tol = pf.rel_tol(fname, exp)
    if at.shape != exp.shape or np.abs(at - exp).max() > tol:
        run.violation(f"{fname}(transform=T) is not T applied to every basis index of the untransformed array (T {T.shape})",
                      {"case": "transform", "function": fname, "basis": core.describe_basis(specs), "T": T.tolist(), "signature": {"kind": "transform"}})
        return False
    return True


def convention_case(run, spec, others, fname, env, cart_perm, sph_pat):
    """a shell that reports its components in another order / sign convention"""
    f, nax, _ = pf.FUNCS[fname]
    base_specs = [spec] + others
    a0 = f(make_basis(base_specs), env)
    l = spec.l
    dcart = [(x, y, l - x - y) for x in range(l, -1, -1) for y in range(l - x, -1, -1)]
    dsph = ["c1", "s1", "c0"] if l == 1 else [f"s{m}" for m in range(l, 0, -1)] + [f"c{m}" for m in range(l + 1)]
    cart = [dcart[i] for i in cart_perm] if cart_perm is not None else None
    sph = sph_pat
    conv = spec.copy(cart=cart, sphord=sph)
    a1 = f(make_basis([conv] + others), env)
    # expected: permutation / signs on the functions of the first shell
    n0 = spec.size
    total = sum(s.size for s in base_specs)
    P = np.eye(total)
    nf = spec.nfun
    blk = np.zeros((nf, nf))
    if spec.sph:
        pat = sph if sph is not None else dsph
        for r, lab in enumerate(pat):
            sg = -1.0 if lab.startswith("-") else 1.0
            blk[r, dsph.index(lab.lstrip("-"))] = sg
    else:
        perm = cart_perm if cart_perm is not None else list(range(nf))
        for r, i in enumerate(perm):
            blk[r, i] = 1.0
    P[:n0, :n0] = np.kron(np.eye(spec.nseg), blk)
    exp = pf.apply_on_axes(a0, [P] * nax, nax)
    run.case(("convention", fname, spec.sph, tuple(cart_perm) if cart_perm else None, tuple(sph) if sph else None) + sig(base_specs))
    run.count("relation convention " + fname)
    tol = pf.rel_tol(fname, exp)
    if a1.shape != exp.shape or np.abs(a1 - exp).max() > tol:
        run.violation(f"{fname}: a shell reporting its components as cart={cart} sph={sph} does not yield correspondingly permuted/signed outputs",
                      {"case": "convention", "function": fname, "basis": core.describe_basis(base_specs), "cart_perm": cart_perm, "sph": sph,
                       "signature": {"kind": "convention"}})
        return False
    return True


def same_l_conventions_case(run, rng, quick=True, names=None):
    """two shells of the *same* angular momentum in one basis that declare different component orders (bases from two loads with
    different conventions combined): each shell's own order applies, also inside one electron-repulsion quartet"""
    ok = True
    for k, l in enumerate((2, 1) if quick else (2, 1, 2, 3)):
        cs = []
        ncart = (l + 1) * (l + 2) // 2
        pm = rng.sample(range(ncart), ncart)
        if pm == list(range(ncart)):
            pm = pm[::-1]
        spec = rand_shell(rng, l, cs, sph=False, nprim=1, nseg=1, exp_lo=0.3, exp_hi=4.0).copy(via_update=False)
        twin = rand_shell(rng, l, [], sph=bool(k % 2 == 1 and l > 1), nprim=1, nseg=1, exp_lo=0.3, exp_hi=4.0).copy(
            center=[core.snap(rng.uniform(-1.2, 1.2), 8) for _ in range(3)], via_update=False)
        s0 = rand_shell(rng, 0, [], nprim=1, nseg=1, exp_lo=0.3, exp_hi=4.0).copy(center=[core.snap(rng.uniform(-1.2, 1.2), 8) for _ in range(3)])
        others = [s0, twin] if k % 2 == 0 else [twin, s0]
        env = pf.default_env(rng, [spec] + others)
        for fname in (names or (["eri_chemist"] if l == 2 and not quick or l <= 2 else []) + ["overlap", "angular_momentum"]):
            ok &= convention_case(run, spec, others, fname, env, list(pm), None)
        run.count("two shells of one l with different declared Cartesian orders")
    return ok


def check(run):
    rng = run.rng
    quick = run.tier == "quick"
    # (C) labelled blocks: distinct l per shell so that blocks have distinct shapes
    for n in range(1, 5):
        for ls in ([tuple(range(n))] if quick else list(itertools.permutations(range(4), n))[:8]):
            Ms = [1 + (i + n) % 3 for i in range(n)]
            for pattern in itertools.product([False, True], repeat=n):
                T = np.array([[((3 * r + 2 * c) % 7) - 3 for c in range(200)] for r in range(3 + n)], dtype=float)
                labelled_case(run, "one", ls, Ms, 2, pattern, [T])
                labelled_case(run, "herm", ls, Ms, 1 + n % 2, pattern, [T])
                if n >= 2:
                    for tt in ([(T, T[:2])] if quick else [(T, T[:2]), (None, T), (T, None), (None, None)]):
                        labelled_case(run, "asym", ls, Ms, 1, pattern, tt)
    for n in (1, 2):
        for pattern in itertools.product([False, True], repeat=n):
            T = np.array([[((3 * r + 2 * c) % 5) - 2 for c in range(60)] for r in range(2)], dtype=float)
            labelled_case(run, "four", tuple(range(n)), [1 + i for i in range(n)], 1, pattern, [T])
    if not quick:
        labelled_case(run, "four", (1, 0, 2), [2, 1, 1], 1, (True, False, True), [None])
    # (R) relational checks
    names = [n for n, v in pf.FUNCS.items() if v[2] <= 2]
    for k in range(3 if quick else 16):
        n = 1 + k % 4
        for pattern in (list(itertools.product([False, True], repeat=n)) if (not quick or n <= 2) else
                        rng.sample(list(itertools.product([False, True], repeat=n)), 3)):
            if not any(pattern):
                continue
            cs = []
            specs = [rand_shell(rng, (i + k) % 5 if n <= 2 else (i + k) % 4, cs, nseg=1 + (i + k) % 3, sph=pattern[i], exp_hi=30.0) for i in range(n)]
            env = pf.default_env(rng, specs)
            for fname in (names if not quick else rng.sample(names, 4)):
                sph_vs_cart(run, specs, fname, env)
            T = random_transform(rng, sum(s.size for s in specs))
            for fname in (names if not quick else rng.sample(names, 3)):
                transform_case(run, specs, fname, env, T)
            # a genuinely complex transformation (complex orbitals): still T applied to every basis index, without conjugation
            Tc = T + 1j * random_transform(rng, T.shape[1], rect=False)[: T.shape[0]] if T.shape[0] <= T.shape[1] else None
            if Tc is not None:
                for fname in (names if not quick else ["momentum", "angular_momentum", "overlap"] + rng.sample(names, 1)):
                    transform_case(run, specs, fname, env, Tc)
                run.count("complex transformation")
            if n == 2:
                from checks.common import near_identity_transforms
                for lab, Tn in near_identity_transforms(rng, sum(s.size for s in specs)):
                    for fname in (names if not quick else rng.sample(names, 3)):
                        transform_case(run, specs, fname, env, Tn)
                    run.count("transform " + lab)
    for k in range(1 if quick else 4):
        cs = []
        specs = [rand_shell(rng, (i + k) % 3, cs, nprim=rng.randint(1, 2), nseg=1 + i % 2, sph=bool((i + k) % 2), exp_lo=0.1, exp_hi=10.0) for i in range(2)]
        sph_vs_cart(run, specs, "eri_chemist", None)
        transform_case(run, specs, "eri_physicist", None, random_transform(rng, sum(s.size for s in specs)))
    # dispatch of the public functions on the coordinate types: every order of Cartesian and spherical d shells (for s and p shells
    # the two types coincide, so a wrong branch would go unnoticed), every public function incl. the repulsion integrals
    for pattern in ((False, True), (True, False), (False, True, False), (True, False, False)):
        cs = []
        specs = [rand_shell(rng, 2, cs, nprim=1 + i % 2, nseg=1 + (i + len(pattern)) % 2, sph=pattern[i], exp_lo=0.2, exp_hi=8.0) for i in range(len(pattern))]
        env = pf.default_env(rng, specs)
        for fname in pf.FUNCS:
            if fname.startswith("eri") and (len(pattern) > 2 or (quick and fname != "eri_physicist")):
                continue
            sph_vs_cart(run, [s_.copy(coeffs=s_.coeffs[:, :1]) for s_ in specs] if fname.startswith("eri") else specs, fname, env)
            run.count("dispatch pattern " + "".join("s" if x else "c" for x in pattern))
    # asymmetric overlap: the two bases carry their own coordinate-type patterns
    for p1, p2 in (((False, False), (True, True)), ((True, True), (False,)), ((True, False), (False, True)), ((False, True, True), (True, False))):
        cs = []
        s1 = [rand_shell(rng, 2 + i % 2, cs, nseg=1 + i % 2, sph=t_, exp_hi=20.0) for i, t_ in enumerate(p1)]
        s2 = [rand_shell(rng, 2 + (i + 1) % 2, cs, nseg=2 - i % 2, sph=t_, exp_hi=20.0) for i, t_ in enumerate(p2)]
        asym_case(run, s1, s2, rng)
    # conventions
    for l in range(1, 4):
        ncart = (l + 1) * (l + 2) // 2
        perms = list(itertools.permutations(range(ncart))) if l <= 1 else [rng.sample(range(ncart), ncart) for _ in range(4 if quick else 30)]
        dsph = ["c1", "s1", "c0"] if l == 1 else [f"s{m}" for m in range(l, 0, -1)] + [f"c{m}" for m in range(l + 1)]
        if l == 1 and not quick:
            pats = [[sg + x for sg, x in zip(sgs, pm)] for pm in itertools.permutations(dsph) for sgs in itertools.product(["", "-"], repeat=3)]
        else:
            pats = []
            for _ in range(4 if quick else 20):
                pm = list(dsph)
                rng.shuffle(pm)
                pats.append([rng.choice(["", "-"]) + x for x in pm])
        cs = []
        other = rand_shell(rng, rng.randint(0, 2), cs, nseg=2, exp_hi=20.0)
        for pm in perms:
            spec = rand_shell(rng, l, cs, sph=False, nseg=rng.randint(1, 2), exp_hi=20.0)
            env = pf.default_env(rng, [spec, other])
            for fname in rng.sample(names, 2 if quick else 5):
                convention_case(run, spec, [other], fname, env, list(pm), None)
        for pat in pats:
            spec = rand_shell(rng, l, cs, sph=True, nseg=rng.randint(1, 2), exp_hi=20.0)
            env = pf.default_env(rng, [spec, other])
            for fname in rng.sample(names, 2 if quick else 5):
                convention_case(run, spec, [other], fname, env, None, pat)
    # a pure s shell that declares the phase "-c0" (l = 0 has one component, but it has a sign)
    cs = []
    for k_ in range(2 if quick else 6):
        s0 = rand_shell(rng, 0, cs, sph=True, nseg=1 + k_ % 2, exp_hi=20.0).copy(via_update=False)
        other0 = rand_shell(rng, 1 + k_ % 2, cs, nseg=1, sph=bool(k_ % 2), exp_hi=20.0)
        env0 = pf.default_env(rng, [s0, other0])
        for fname in (names if not quick else rng.sample(names, 4)):
            convention_case(run, s0, [other0], fname, env0, None, ["-c0"])
    for k_ in range(3 if quick else 12):
        iodata_case(run, rng)
        iodata_case(run, rng, omit=True)
    container_case(run, rng)
    positional_arguments_case(run, rng)
    single_string_types_case(run, rng)
    for k_ in range(3 if quick else 12):
        interaction_case(run, rng, k_)
    degenerate_sizes_case(run, rng)
    same_l_conventions_case(run, rng, quick)
    if not quick:
        cs = []
        spec = rand_shell(rng, 1, cs, sph=True, nprim=1, nseg=1, exp_lo=0.2, exp_hi=5.0)
        other = rand_shell(rng, 0, cs, nprim=1, nseg=1, exp_lo=0.2, exp_hi=5.0)
        convention_case(run, spec, [other], "eri_chemist", None, None, ["-c0", "c1", "-s1"])


def interaction_case(run, rng, k):
    """several features at once: shells with declared (shuffled / signed) component conventions, generalized, of both coordinate
    types, together with a rectangular transformation and — for the overlap — a screening tolerance; compared with the exact model
    of the same shells"""
    from gbasis.integrals.overlap import overlap_integral
    from gbasis.integrals.kinetic_energy import kinetic_energy_integral
    from gbasis.evals.eval import evaluate_basis
    from checks.common import custom_order
    cs = []
    specs = []
    for i, l in enumerate([2, 1, 2 + k % 2][: 2 + k % 2]):
        s_ = rand_shell(rng, l, cs, nprim=rng.randint(1, 2), nseg=1 + (i + k) % 2, sph=bool((i + k) % 2), exp_lo=0.2, exp_hi=10.0).copy(via_update=False)
        s_ = custom_order(s_, rng, "shuffled")
        if s_.sph and l >= 2:
            labs = [f"c{m}" for m in range(l + 1)] + [f"s{m}" for m in range(1, l + 1)]
            rng.shuffle(labs)
            s_ = s_.copy(sphord=[rng.choice(["", "-"]) + x for x in labs])
        specs.append(s_)
    if k % 3 == 2:          # one shell far away, so that a screening tolerance removes blocks
        specs[-1] = specs[-1].copy(center=[float(c) + 30.0 for c in specs[0].center])
    n = sum(s_.size for s_ in specs)
    T = random_transform(rng, n, rect=True)
    basis = make_basis(specs)
    rep = {"case": "interaction", "basis": core.describe_basis(specs), "T": T.tolist(), "signature": {"kind": "interaction"}}
    run.case(("interaction", k) + sig(specs))
    run.count("declared conventions + generalized + mixed types + rectangular transformation")
    model = run.model.array("overlap " + btok(specs))
    ok = compare(run, "overlap_integral(conventions, transform)", overlap_integral(basis, transform=T), T @ model @ T.T,
                 1e-9 * float((np.abs(T) @ np.abs(model) @ np.abs(T).T).max()) + 1e-12, rep, "interaction")
    un = overlap_integral(basis, tol_screen=1e-8)
    tr = overlap_integral(basis, transform=T, tol_screen=1e-8)
    if tr.shape != (T.shape[0], T.shape[0]) or np.abs(tr - T @ un @ T.T).max() > 1e-9 * float((np.abs(T) @ np.abs(un) @ np.abs(T).T).max()) + 1e-12:
        run.violation("overlap_integral(transform=T, tol_screen=1e-8) is not T applied to the screened untransformed matrix", rep)
        ok = False
    km = run.model.array("kinetic " + btok(specs))
    ok &= compare(run, "kinetic_energy_integral(conventions, transform)", kinetic_energy_integral(basis, transform=T), T @ km @ T.T,
                  1e-9 * float((np.abs(T) @ np.abs(km) @ np.abs(T).T).max()) + 1e-12, rep, "interaction")
    pts = np.array([[core.snap(rng.uniform(-2, 2), 10) for _ in range(3)] for _ in range(1 + k % 3)])
    line = ("evalderiv general " + btok(specs) + f" {len(pts)} " + " ".join(core.enc(x) for x in pts.ravel()) + " 0 0 0")
    v, g = run.model.array_mag(line)
    ok &= compare(run, "evaluate_basis(conventions, transform)", evaluate_basis(basis, pts, transform=T), T @ v, 1e-9 * (np.abs(T) @ g) + 1e-300, rep, "interaction")
    return ok


def degenerate_sizes_case(run, rng):
    """one point / one charge / one order triple / a basis with a single function: the result is the corresponding slice of the
    result for several, with the documented shape"""
    cs = []
    for specs in ([rand_shell(rng, 0, cs, nprim=2, nseg=1, exp_hi=10.0)],
                  [rand_shell(rng, 1, cs, nprim=1, nseg=1, exp_hi=10.0), rand_shell(rng, 2, cs, nprim=2, nseg=2, sph=True, exp_hi=10.0)]):
        basis = make_basis(specs)
        n = sum(s_.size for s_ in specs)
        env = pf.default_env(rng, specs, npts=3, ncharge=3)
        one = pf.Env(points=env.points[:1], charges=env.charges[:1], charge_pos=env.charge_pos[:1], origin=env.origin, orders=env.orders[:1])
        run.case(("degenerate-sizes", n) + sig(specs))
        run.count("one point / one charge / one order triple" + (" / one basis function" if n == 1 else ""))
        ok = True
        for fname, nlast in (("evaluate_basis", 1), ("evaluate_deriv_basis(1,0,2)", 1), ("point_charge", 1), ("moment", 1)):
            f, nax, _ = pf.FUNCS[fname]
            for T in (None, np.array([[core.snap(rng.uniform(-1, 1), 10) for _ in range(n)]]),
                      np.array([[core.snap(rng.uniform(-1, 1), 10) for _ in range(n)] for _ in range(n + 1)])):
                kw = {} if T is None else {"transform": T}
                many, single = f(basis, env, **kw), f(basis, one, **kw)
                m = n if T is None else T.shape[0]
                want = (m,) * nax + (1,)
                if fname == "point_charge":
                    nuc = pf.FUNCS["nuclear_attraction"][0](basis, one, **kw)
                    if np.shape(nuc) != (m, m) or np.abs(np.asarray(nuc) - single[..., 0]).max() > 1e-12 * max(1.0, float(np.abs(single).max())):
                        run.violation(f"nuclear_electron_attraction_integral with a single nucleus returns shape {np.shape(nuc)} (expected {(m, m)}) "
                                      "or differs from the single point-charge array",
                                      {"case": "degenerate-sizes", "function": "nuclear_attraction", "basis": core.describe_basis(specs),
                                       "signature": {"kind": "degenerate-sizes"}})
                        ok = False
                if single.shape != want or np.abs(single - many[..., :1]).max() > 1e-12 * max(1.0, float(np.abs(many).max())):
                    run.violation(f"{fname} with a single point / charge / order ({'no transformation' if T is None else 'transformation %dx%d' % T.shape}): "
                                  f"shape {single.shape} (expected {want}) or values differ from the first slice of the several-item result",
                                  {"case": "degenerate-sizes", "function": fname, "basis": core.describe_basis(specs), "signature": {"kind": "degenerate-sizes"}})
                    ok = False
    return ok


def single_string_types_case(run, rng):
    """`construct_array_lincomb(transform, coord_type)` of the base classes: "if multiple shells are given but only one string is
    provided in the list/tuple, all of the contractions will be treated according to that string" — whatever coordinate type the
    shell objects themselves carry; compared with the full-length list"""
    from gbasis.evals.eval import Eval
    from gbasis.integrals.electron_repulsion import ElectronRepulsionIntegral
    from gbasis.integrals.kinetic_energy import KineticEnergyIntegral
    from gbasis.integrals.momentum import MomentumIntegral
    from gbasis.integrals.overlap import Overlap
    ok = True
    for k, ls in enumerate(((0, 1, 2), (1, 2, 0), (2, 2))):
        for own in (False, True):          # the shells' own coord_type attribute
            specs = [rand_shell(rng, l, [], nprim=1, nseg=1, sph=own, exp_lo=0.3, exp_hi=5.0).copy(
                center=[0.4 * i - 0.3, 0.2 * i, -0.5 * i + 0.1], via_update=False) for i, l in enumerate(ls)]
            basis = make_basis(specs)
            pts = np.array([[0.3, -0.2, 0.5], [1.0, 0.4, -0.6]])
            for want in ("spherical", "cartesian"):
                n = sum((2 * s_.l + 1) if want == "spherical" else (s_.l + 1) * (s_.l + 2) // 2 for s_ in specs)
                T = random_transform(rng, n, rect=True)
                for cname, make, kw in (("Overlap", lambda: Overlap(basis), {}), ("KineticEnergyIntegral", lambda: KineticEnergyIntegral(basis), {}),
                                        ("MomentumIntegral", lambda: MomentumIntegral(basis), {}), ("Eval", lambda: Eval(basis), {"points": pts}),
                                        ("ElectronRepulsionIntegral", lambda: ElectronRepulsionIntegral(basis), {})):
                    if cname == "ElectronRepulsionIntegral" and (k != 1 or run.tier == "quick" and own):
                        continue
                    run.case(("single-string-types", cname, ls, own, want))
                    run.count("class-level lincomb with a one-string coord_type list")
                    full = make().construct_array_lincomb(T, [want] * len(specs), **kw)
                    try:
                        one = make().construct_array_lincomb(T, [want], **kw)
                    except Exception as e:
                        run.violation(f"{cname}.construct_array_lincomb(T, ['{want}']) raised {type(e).__name__}: {e} for {len(specs)} shells "
                                      "(documented: one string applies to all shells)",
                                      {"case": "single-string-types", "class": cname, "basis": core.describe_basis(specs), "signature": {"kind": "single-string-types"}})
                        ok = False
                        continue
                    if one.shape != full.shape or not np.array_equal(one, full):
                        run.violation(f"{cname}.construct_array_lincomb(T, ['{want}']) differs from the call with the full-length list",
                                      {"case": "single-string-types", "class": cname, "basis": core.describe_basis(specs), "signature": {"kind": "single-string-types"}})
                        ok = False
    return ok


def positional_arguments_case(run, rng, only=None):
    """every public function called with its optional arguments by position, in the published order (GBModel/Signatures.lean), against
    the same call with keywords; `only`: restrict to functions whose name contains one of the given strings"""
    from gbasis.evals import density as Dn
    from gbasis.evals import stress_tensor as ST
    from gbasis.evals.eval import evaluate_basis
    from gbasis.evals.eval_deriv import evaluate_deriv_basis
    from gbasis.evals.electrostatic_potential import electrostatic_potential
    from gbasis.integrals.electron_repulsion import electron_repulsion_integral
    from gbasis.integrals.moment import moment_integral
    from gbasis.integrals.overlap import overlap_integral
    from gbasis.integrals.point_charge import point_charge_integral
    specs = [rand_shell(rng, l, [], nprim=1 + l % 2, nseg=1, sph=bool(l % 2), exp_lo=0.3, exp_hi=5.0).copy(
        center=[0.5 * l - 0.4, 0.3 * l, -0.2 * l + 0.1], via_update=False) for l in (0, 1)]
    basis = make_basis(specs)
    n = sum(s_.size for s_ in specs)
    T = random_transform(rng, n, rect=True)
    m = T.shape[0]
    g = random_symmetric(rng, m, psd=True)
    gneg = -1e-12 * (g + np.eye(m))         # tiny negative values: clipped under the default-size threshold, whatever the back-end
    pts = np.array([[0.3, -0.2, 0.5], [1.0, 0.4, -0.6]])
    nuc, Z = np.array([[0.3, -0.2, 0.5], [2.0, 0.0, 1.0]]), np.array([1.0, 3.0])
    o = np.array([1, 0, 1])
    table = [
        ("evaluate_density", Dn.evaluate_density, (g, basis, pts), ("transform", "threshold"), (T, 1e-6)),
        ("evaluate_density (clipping)", Dn.evaluate_density, (gneg, basis, pts), ("transform", "threshold"), (T, 1e-6)),
        ("evaluate_deriv_density", Dn.evaluate_deriv_density, (o, g, basis, pts), ("transform", "deriv_type"), (T, "direct")),
        ("evaluate_density_gradient", Dn.evaluate_density_gradient, (g, basis, pts), ("transform", "deriv_type"), (T, "direct")),
        ("evaluate_density_laplacian", Dn.evaluate_density_laplacian, (g, basis, pts), ("transform", "deriv_type"), (T, "direct")),
        ("evaluate_density_hessian", Dn.evaluate_density_hessian, (g, basis, pts), ("transform", "deriv_type"), (T, "direct")),
        ("evaluate_posdef_kinetic_energy_density", Dn.evaluate_posdef_kinetic_energy_density, (g, basis, pts), ("transform", "deriv_type", "threshold"), (T, "direct", 1e-6)),
        ("evaluate_posdef_kinetic_energy_density (clipping)", Dn.evaluate_posdef_kinetic_energy_density, (gneg, basis, pts), ("transform", "deriv_type", "threshold"), (T, "direct", 1e-6)),
        ("evaluate_posdef_kinetic_energy_density (back-end only)", Dn.evaluate_posdef_kinetic_energy_density, (gneg, basis, pts), ("transform", "deriv_type"), (T, "direct")),
        ("evaluate_general_kinetic_energy_density", Dn.evaluate_general_kinetic_energy_density, (g, basis, pts, 0.5), ("transform", "deriv_type"), (T, "direct")),
        ("evaluate_stress_tensor", ST.evaluate_stress_tensor, (g, basis, pts), ("alpha", "beta", "transform"), (0.5, 1.5, T)),
        ("evaluate_ehrenfest_force", ST.evaluate_ehrenfest_force, (g, basis, pts), ("alpha", "beta", "transform"), (0.5, 1.5, T)),
        ("evaluate_ehrenfest_hessian", ST.evaluate_ehrenfest_hessian, (g, basis, pts), ("alpha", "beta", "transform", "symmetric"), (0.5, 1.5, T, True)),
        ("evaluate_basis", evaluate_basis, (basis, pts), ("transform",), (T,)),
        ("evaluate_deriv_basis", evaluate_deriv_basis, (basis, pts, o), ("transform", "deriv_type"), (T, "direct")),
        ("electrostatic_potential", electrostatic_potential, (basis, g, pts, nuc, Z), ("transform", "threshold_dist"), (T, 0.25)),
        ("overlap_integral", overlap_integral, (basis,), ("transform", "tol_screen"), (T, 1e-3)),
        ("moment_integral", moment_integral, (basis, np.array([0.1, 0.2, -0.3]), np.array([[1, 0, 0], [0, 2, 0]])), ("transform",), (T,)),
        ("point_charge_integral", point_charge_integral, (basis, nuc, Z), ("transform",), (T,)),
        ("electron_repulsion_integral", electron_repulsion_integral, (basis,), ("transform", "notation"), (T, "chemist")),
    ]
    ok = True
    for name, f, req, kws, vals in table:
        if only is not None and not any(x in name for x in only):
            continue
        run.case(("positional", name))
        run.count("optional arguments passed by position")
        want = f(*req, **dict(zip(kws, vals)))
        try:
            got = f(*req, *vals)
        except Exception as e:
            run.violation(f"{name}{tuple(['...'] * len(req)) + tuple(kws)}: the call with the optional arguments by position in the published order "
                          f"raised {type(e).__name__}: {e}", {"case": "positional", "function": name, "signature": {"kind": "positional-arguments"}})
            ok = False
            continue
        if np.shape(got) != np.shape(want) or not np.array_equal(got, want):
            run.violation(f"{name}: optional arguments passed by position ({', '.join(kws)}) give another result than the same values by keyword",
                          {"case": "positional", "function": name, "signature": {"kind": "positional-arguments"}})
            ok = False
    return ok


def container_case(run, rng):
    """the basis given as a tuple instead of a list (both are documented), for every public function incl. the density-type ones"""
    from gbasis.evals import density as Dn
    from gbasis.evals import stress_tensor as ST
    from gbasis.evals.electrostatic_potential import electrostatic_potential
    specs = random_basis(rng, 2, 2, lmax=1, exp_hi=10.0)
    specs = [s_.copy(coeffs=s_.coeffs[:, :1].copy()) for s_ in specs]
    env = pf.default_env(rng, specs)
    lst = make_basis(specs)
    tup = tuple(lst)
    n = sum(s_.size for s_ in specs)
    g = random_symmetric(rng, n, psd=True)
    funcs = {name: (lambda b, f=f: f(b, env)) for name, (f, _, _) in pf.FUNCS.items()}
    funcs.update({
        "evaluate_density": lambda b: Dn.evaluate_density(g, b, env.points),
        "evaluate_density_gradient": lambda b: Dn.evaluate_density_gradient(g, b, env.points),
        "evaluate_density_laplacian": lambda b: Dn.evaluate_density_laplacian(g, b, env.points),
        "evaluate_density_hessian": lambda b: Dn.evaluate_density_hessian(g, b, env.points),
        "evaluate_posdef_kinetic_energy_density": lambda b: Dn.evaluate_posdef_kinetic_energy_density(g, b, env.points),
        "evaluate_general_kinetic_energy_density": lambda b: Dn.evaluate_general_kinetic_energy_density(g, b, env.points, 0.5),
        "evaluate_stress_tensor": lambda b: ST.evaluate_stress_tensor(g, b, env.points, alpha=0.5, beta=1.0),
        "evaluate_ehrenfest_force": lambda b: ST.evaluate_ehrenfest_force(g, b, env.points, alpha=0.5, beta=1.0),
        "evaluate_ehrenfest_hessian": lambda b: ST.evaluate_ehrenfest_hessian(g, b, env.points, alpha=0.5, beta=1.0),
        "electrostatic_potential": lambda b: electrostatic_potential(b, g, env.points, env.charge_pos, np.abs(env.charges)),
    })
    ok = True
    for name, f in funcs.items():
        run.case(("container", name))
        run.count("basis given as a tuple")
        a, b_ = f(lst), f(tup)
        if a.shape != b_.shape or not np.array_equal(a, b_):
            run.violation(f"{name}: the basis given as a tuple gives another result than the same shells in a list",
                          {"case": "container", "function": name, "basis": core.describe_basis(specs), "signature": {"kind": "container"}})
            ok = False
    return ok


def iodata_case(run, rng, lmax=3, omit=False):
    """the conventions (order of the Cartesian components, order *and signs* of the pure functions) that an IOData object declares
    must show in every array computed from the basis that gbasis.wrappers.from_iodata builds: compared with the exact model of the
    equivalent shells (overlap, evaluation) and, for the other functions, with the same shells given through a subclass"""
    from gbasis.wrappers import from_iodata
    from gbasis.integrals.overlap import overlap_integral
    from gbasis.evals.eval import evaluate_basis
    standin = install_iodata_standin()
    mol, specs = iodata_molecule(rng, lmax, omit_unused_cart=omit)
    basis = from_iodata(mol)
    rep = {"case": "iodata", "basis": core.describe_basis(specs), "conventions": {f"{k[0]}{k[1]}": v for k, v in mol.obasis.conventions.items()},
           "signature": {"kind": "iodata-convention"}}
    run.case(("iodata",) + sig(specs), sample={"op": "from_iodata", "conventions": rep["conventions"]})
    run.count("from_iodata with declared conventions" + (" (stand-in for iodata.convert)" if standin else ""))
    ok = True
    for sh, sp_ in zip(basis, specs):
        decl_c = [tuple(c) for c in sp_.cart] if sp_.cart is not None else [tuple(int(v) for v in c) for c in sp_.make().angmom_components_cart]
        if [tuple(int(v) for v in c) for c in sh.angmom_components_cart] != decl_c or \
                (sp_.sphord is not None and list(sh.angmom_components_sph) != list(sp_.sphord)):
            run.violation(f"the l={sp_.l} shell built by from_iodata reports other component conventions than the IOData object declares "
                          f"({list(sh.angmom_components_sph) if sp_.sphord is not None else ''} vs {sp_.sphord})", rep)
            return False
    pts = np.array([[core.snap(rng.uniform(-2, 2), 10) for _ in range(3)] for _ in range(3)])
    model = run.model.array("overlap " + btok(specs))
    ok &= compare(run, "overlap_integral(from_iodata(mol))", overlap_integral(basis), model, 1e-9 * max(1.0, float(np.abs(model).max())), rep, "iodata-convention")
    line = ("evalderiv general " + btok(specs) + f" {len(pts)} " + " ".join(core.enc(x) for x in pts.ravel()) + " 0 0 0")
    v, g = run.model.array_mag(line)
    ok &= compare(run, "evaluate_basis(from_iodata(mol))", evaluate_basis(basis, pts), v, 1e-9 * g + 1e-300, rep, "iodata-convention")
    # the asymmetric overlap with a plain basis on either side (mixed Cartesian / pure second basis whose shells declare pure
    # conventions only for the angular momenta that are pure)
    from gbasis.integrals.overlap_asymm import overlap_integral_asymmetric
    plain = [rand_shell(rng, rng.randint(0, 2), [], nprim=2, nseg=1, exp_hi=10.0).copy(via_update=False) for _ in range(2)]
    for left, right, ls_, rs_ in ((make_basis(plain), basis, plain, specs), (basis, make_basis(plain), specs, plain)):
        masym = run.model.array("overlap_asym " + btok(ls_) + " " + btok(rs_))
        ok &= compare(run, "overlap_integral_asymmetric with a from_iodata basis", overlap_integral_asymmetric(left, right), masym,
                      1e-9 * max(1.0, float(np.abs(masym).max())), rep, "iodata-convention")
    # another molecule with other conventions is loaded in between: the first basis must keep its own
    mol2, specs2 = iodata_molecule(rng, lmax)
    basis2 = from_iodata(mol2)
    ok &= compare(run, "overlap_integral(from_iodata(mol)) after another molecule was loaded", overlap_integral(basis), model,
                  1e-9 * max(1.0, float(np.abs(model).max())), dict(rep, second_load=True), "iodata-convention")
    model2 = run.model.array("overlap " + btok(specs2))
    ok &= compare(run, "overlap_integral(from_iodata(mol2))", overlap_integral(basis2), model2,
                  1e-9 * max(1.0, float(np.abs(model2).max())), dict(rep, basis=core.describe_basis(specs2)), "iodata-convention")
    env = pf.default_env(rng, specs)
    ref = make_basis(specs)
    for fname in ("kinetic", "momentum", "moment", "point_charge", "evaluate_deriv_basis(1,0,2)"):
        f = pf.FUNCS[fname][0]
        a, b = f(basis, env), f(ref, env)
        if a.shape != b.shape or np.abs(a - b).max() > pf.rel_tol(fname, b):
            run.violation(f"{fname}: the basis built by from_iodata gives another array than the same shells with the declared conventions", 
                          dict(rep, function=fname))
            ok = False
    return ok


def replay(run, rep):
    n0 = len(run.violations)
    if rep["case"] == "positional":
        positional_arguments_case(run, run.rng)
        return len(run.violations) == n0
    if rep["case"] == "single-string-types":
        single_string_types_case(run, run.rng)
        return len(run.violations) == n0
    if rep["case"] == "container":
        container_case(run, run.rng)
        return len(run.violations) == n0
    if rep["case"] in ("interaction", "degenerate-sizes"):
        for k_ in range(6):
            interaction_case(run, run.rng, k_)
        degenerate_sizes_case(run, run.rng)
        return len(run.violations) == n0
    if rep["case"] == "iodata":
        for _ in range(6):
            iodata_case(run, run.rng)
        return len(run.violations) == n0
    if rep["case"] == "labelled":
        T = np.array([[((3 * r + 2 * c) % 7) - 3 for c in range(200)] for r in range(4)], dtype=float)
        labelled_case(run, rep["kind"], tuple(rep["ls"]), rep["Ms"], rep["nextra"], tuple(rep["pattern"]),
                      [T, T[:2]] if rep["kind"] == "asym" else [T])
    else:
        specs = specs_from(rep)
        env = pf.default_env(run.rng, specs)
        if rep["case"] == "sph-vs-cart":
            sph_vs_cart(run, specs, rep["function"], env)
        elif rep["case"] == "transform":
            transform_case(run, specs, rep["function"], env, np.array(rep["T"]))
        else:
            convention_case(run, specs[0], specs[1:], rep["function"], env, rep.get("cart_perm"), rep.get("sph"))
    return len(run.violations) == n0
