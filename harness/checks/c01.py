"""C01 — overlap integrals exact, unit-normalised, asymmetric = block of the union."""
import itertools

import numpy as np

from gbv import core
from gbv.core import ShellSpec, basis_tokens, make_basis, rand_shell, max_excess
from checks.common import TAIL_LADDER, tail_pair

RULE = ("every ordered pair of angular momenta 0..5 is enumerated (two-shell bases, random 1-4 primitives, "
        "1-3 segments, exponents log-uniform in [0.02, cap(l)], centres in a 3 bohr box with forced "
        "coincidences/alignments, each shell Cartesian or spherical), plus random bases of 1-4 shells; "
        "a case is distinct by (angular momenta, types, primitive/segment counts, first exponent); every "
        "case compares the full matrix of the public function with the Lean model entry by entry "
        "(abs 1e-8), checks the diagonal against 1 and the asymmetric form against the union block")
ASSUMPTIONS = ["the Lean model (GBModel/Gauss1D, Shell, Spherical, Assemble) evaluated in 320-bit arithmetic is the exact value (theorems momTab_eq, integral_poly_mul_gauss tie it to the integral)",
               "floating-point error of the implementation is observed, not proved"]
TOL = 1e-8


def _sig(specs):
    return tuple((s.l, s.sph, len(s.exps), s.nseg, s.exps[0]) for s in specs)


def one_case(run, specs, specs2=None, label=""):
    from gbasis.integrals.overlap import overlap_integral
    from gbasis.integrals.overlap_asymm import overlap_integral_asymmetric

    basis = make_basis(specs)
    impl = overlap_integral(basis)
    model = run.model.array("overlap " + " ".join(basis_tokens(specs)))
    run.case(("ov",) + _sig(specs), sample={"op": "overlap_integral", "basis": core.describe_basis(specs)})
    for s in specs:
        run.count(f"l={s.l}")
        run.count("spherical" if s.sph else "cartesian")
    ex, idx = max_excess(impl, model, TOL)
    if ex > 0:
        run.violation(f"overlap_integral differs from the exact value at {idx}: impl {impl[idx] if idx else impl.shape} "
                      f"model {model[idx] if idx else model.shape}",
                      {"case": "overlap", "basis": core.describe_basis(specs), "index": idx,
                       "impl": float(impl[idx]) if idx else None, "exact": float(model[idx]) if idx else None,
                       "tolerance": TOL, "signature": {"kind": "overlap"}})
        return False
    dg = np.abs(np.diag(impl) - 1.0).max()
    if dg > TOL:
        i = int(np.argmax(np.abs(np.diag(impl) - 1.0)))
        run.violation(f"diagonal element {i} of overlap_integral is {impl[i, i]}, not 1",
                      {"case": "overlap", "basis": core.describe_basis(specs), "index": (i, i),
                       "impl": float(impl[i, i]), "exact": 1.0, "tolerance": TOL, "signature": {"kind": "overlap-diag"}})
        return False
    if not np.array_equal(impl, impl.T) and np.abs(impl - impl.T).max() > TOL:
        run.violation("overlap matrix not symmetric", {"case": "overlap", "basis": core.describe_basis(specs),
                                                      "signature": {"kind": "overlap-symm"}})
        return False
    if specs2 is not None:
        b2 = make_basis(specs2)
        # each basis is documented as a list or a tuple of shells: all four combinations occur
        kind = (len(specs) + 2 * len(specs2) + sum(s_.l for s_ in specs)) % 4
        asym = overlap_integral_asymmetric(tuple(basis) if kind & 1 else list(basis), tuple(b2) if kind & 2 else list(b2))
        run.count("asymmetric containers " + ("tuple" if kind & 1 else "list") + "/" + ("tuple" if kind & 2 else "list"))
        masym = run.model.array("overlap_asym " + " ".join(basis_tokens(specs)) + " " + " ".join(basis_tokens(specs2)))
        union = overlap_integral(make_basis(specs + specs2))
        n1 = sum(s.size for s in specs)
        run.case(("asym",) + _sig(specs) + _sig(specs2))
        run.count("asymmetric")
        ex, idx = max_excess(asym, masym, TOL)
        ex2, idx2 = max_excess(asym, union[:n1, n1:], TOL)
        if ex > 0 or ex2 > 0:
            run.violation("overlap_integral_asymmetric differs from the exact value / from the off-diagonal block of the union",
                          {"case": "overlap_asym", "basis": core.describe_basis(specs),
                           "basis2": core.describe_basis(specs2), "index": idx if ex > 0 else idx2,
                           "excess_vs_exact": ex, "excess_vs_union": ex2, "tolerance": TOL,
                           "signature": {"kind": "overlap-asym"}})
            return False
    return True


def block_case(run, sa, sb):
    """Overlap.construct_array_contraction against the model (through the shell's own norm_cont)."""
    from gbasis.integrals.overlap import Overlap

    a, b = sa.copy(sph=False).make(), sb.copy(sph=False).make()
    blk = Overlap.construct_array_contraction(a, b)
    blk = blk * a.norm_cont[:, :, None, None] * b.norm_cont[None, None, :, :]
    n1, n2 = blk.shape[0] * blk.shape[1], blk.shape[2] * blk.shape[3]
    specs = [sa.copy(sph=False), sb.copy(sph=False)]
    model = run.model.array("overlap_asym 1 " + " ".join(specs[0].tokens()) + " 1 " + " ".join(specs[1].tokens()))
    run.case(("blk",) + _sig(specs))
    run.count("block-level")
    ex, idx = max_excess(blk.reshape(n1, n2), model, TOL)
    if ex > 0:
        run.violation("Overlap.construct_array_contraction (normalised) differs from the exact block",
                      {"case": "overlap_block", "basis": core.describe_basis(specs), "index": idx,
                       "tolerance": TOL, "signature": {"kind": "overlap-block"}})


def check(run):
    rng = run.rng
    reps = 1 if run.tier == "quick" else 3
    for la, lb in itertools.product(range(6), repeat=2):
        for rep in range(reps):
            cs = []
            sa = rand_shell(rng, la, cs)
            sb = rand_shell(rng, lb, cs)
            if run.tier == "thorough":
                types = [(False, False), (True, True), (True, False), (False, True)][rep % 4 :][:2]
            else:
                types = [(sa.sph, sb.sph)]
            for ta, tb in types:
                s1, s2 = sa.copy(sph=ta), sb.copy(sph=tb)
                third = rand_shell(rng, rng.randint(0, 2), cs)
                one_case(run, [s1, s2], specs2=[third] if (la + lb + rep) % 3 == 0 else None)
            if (la * 6 + lb) % 4 == 0:
                block_case(run, sa, sb)
    nb = 12 if run.tier == "quick" else 120
    for _ in range(nb):
        cs = []
        n = rng.randint(1, 4)
        lmax = 5 if n <= 2 else 3
        specs = [rand_shell(rng, rng.randint(0, lmax), cs) for _ in range(n)]
        specs2 = None
        if rng.random() < 0.4:
            specs2 = [rand_shell(rng, rng.randint(0, 3), cs) for _ in range(rng.randint(1, 2))]
        one_case(run, specs, specs2)
    # extreme corners of the exponent range
    # tail regime: small but not negligible Gaussian product factors (where a premature screening would bite)
    k = 0
    for la, lb in itertools.product(range(6), repeat=2):
        for u in (TAIL_LADDER if run.tier == "thorough" else
                  [TAIL_LADDER[(k + j * 3) % len(TAIL_LADDER)] for j in range(2)] + ([28.0, 30.5, 32.0] if la + lb >= 7 else [])):
            s1, s2 = tail_pair(rng, la, lb, u)
            one_case(run, [s1, s2])
            run.count("tail regime mu*R^2=%g" % u)
        k += 1
    from checks.common import near_cases, near_pair
    for la, lb, sep, far in near_cases(run, 4):
        s1, s2 = near_pair(rng, la, lb, sep, far)
        one_case(run, [s1, s2], specs2=[s2.copy(sph=not s2.sph)] if la % 2 else None)
        run.count("nearly coincident centres %g%s" % (sep, " far from origin" if far else ""))
    from checks.common import sp_family
    for k, ls in enumerate([(0, 1), (0, 2), (1, 2), (0, 1, 2)]):
        specs = sp_family(rng, ls, two_centres=True)
        one_case(run, specs)
        one_case(run, list(reversed(specs)), specs2=specs[:1])
        run.count("SP-type shared exponent arrays")
    from checks.common import structural_families
    for lab, specs, _ in structural_families(run, transforms=False):
        # the second basis shares its first shell object with the first one (only the `obj` copies are the same object)
        one_case(run, specs, specs2=[specs[0].copy(), specs[-1].copy(obj=None)])
        run.count(lab)
    from checks.common import custom_order_family
    for k in range(2 if run.tier == "quick" else 8):
        one_case(run, custom_order_family(rng, (2, 1, 3) if k % 2 else (1, 2)))
        run.count("declared (non-default) Cartesian component order")
    from checks.common import DEGENERATE_DISPLACEMENTS, degenerate_pair
    for k, d in enumerate(DEGENERATE_DISPLACEMENTS if run.tier != "quick" else DEGENERATE_DISPLACEMENTS[:: 2] + DEGENERATE_DISPLACEMENTS[1:2]):
        for la, lb in ((1, 1), (2, 1)) if run.tier == "quick" else ((1, 1), (2, 1), (1, 2), (2, 2), (3, 1), (0, 2)):
            s1, s2 = degenerate_pair(rng, la, lb, d)
            one_case(run, [s1, s2])
        run.count("displacement with special structure")
    from checks.common import mutate_returned_spherical_objects
    mutate_returned_spherical_objects(3)
    cs = []
    one_case(run, [rand_shell(rng, l, cs, nprim=2, nseg=1 + l % 2, sph=True, exp_hi=10.0) for l in (2, 1, 3)])
    run.count("after the caller modified objects returned by gbasis.spherical")
    # shells that keep their stored coefficients instead of renormalising the contractions (what from_iodata builds): the diagonal
    # is the true self-overlap, not 1
    from gbasis.integrals.overlap import overlap_integral
    for k in range(2):
        sp_ = [ShellSpec(k, [0.1, -0.2, 0.3], [1.1, 0.4], [[0.7, 0.2], [0.4, 0.9]], sph=bool(k), unit_norm=False),
               ShellSpec(1 - k, [0.6, 0.2, 0.0], [0.9], [[0.8]], unit_norm=False)]
        m_ = run.model.array("overlap " + " ".join(basis_tokens(sp_)))
        run.case(("ov-not-renormalised", k))
        run.count("shells that are not renormalised")
        ex, idx = max_excess(overlap_integral(make_basis(sp_)), m_, TOL)
        if ex > 0:
            run.violation(f"overlap_integral of shells that are not renormalised differs from the exact value at {idx}",
                          {"case": "overlap", "basis": core.describe_basis(sp_), "index": idx, "tolerance": TOL, "signature": {"kind": "overlap"}})
    for l in range(6):
        hi = core.exp_cap(l)
        s1 = ShellSpec(l, [0.0, 0.0, 0.0], [hi, 0.02], [[1.0], [0.5]], sph=(l % 2 == 0))
        s2 = ShellSpec(l, [0.1, -0.2, 0.05], [hi * 0.5, 0.05], [[0.3], [-1.0]], sph=(l % 2 == 1))
        one_case(run, [s1, s2])
        run.count("corner")


def replay(run, rep):
    specs = [ShellSpec.from_desc(d) for d in rep["basis"]]
    specs2 = [ShellSpec.from_desc(d) for d in rep["basis2"]] if rep.get("basis2") else None
    n0 = len(run.violations)
    if rep.get("case") == "overlap_block":
        block_case(run, specs[0], specs[1])
    else:
        one_case(run, specs, specs2)
    return len(run.violations) == n0
