"""C04 — electron-repulsion integrals exact in both index conventions."""
import itertools

import numpy as np

from gbv import core
from checks.common import *

RULE = ("shell quartets with angular momenta 0..3: thorough enumerates all 256 4-tuples, quick a fixed spread of 26 "
        "tuples covering every l in every slot (1-3 primitives, 1-2 segments, coincident / collinear / general centres, "
        "exponents log-uniform in 0.1..10, 0.2..5 with an f shell); ElectronRepulsionIntegral.construct_array_contraction "
        "(normalised with the shells' own norm_cont) is compared with the Lean model block within 1e-6*sqrt((ab|ab)(cd|cd)) "
        "(Schwarz factors from the model); a fixed list of ill-conditioned quartets (core s exponents 1e2..1e5 against "
        "diffuse d/f, both bra/ket orientations); whole-basis calls with 2-4 shells in both notations and all "
        "coordinate types; distinct by (l-tuple, geometry kind, primitive/segment counts, first exponents)")
ASSUMPTIONS = ["the Rys/Boys form evaluated by the model is the Coulomb integral (Gaussian transform of 1/r12: trusted base, not formalised)"]
TOL = 1e-6

QUICK_TUPLES = [(0, 0, 0, 0), (1, 0, 0, 0), (0, 1, 0, 0), (0, 0, 1, 0), (0, 0, 0, 1), (1, 1, 1, 1), (2, 0, 0, 0),
                (0, 2, 0, 0), (0, 0, 2, 0), (0, 0, 0, 2), (2, 1, 0, 1), (1, 2, 1, 0), (0, 1, 2, 1), (1, 0, 1, 2),
                (2, 2, 0, 0), (0, 0, 2, 2), (2, 0, 2, 0), (0, 2, 0, 2), (3, 0, 0, 0), (0, 3, 0, 0), (0, 0, 3, 0),
                (0, 0, 0, 3), (3, 1, 0, 1), (1, 0, 3, 1), (2, 1, 1, 2), (1, 3, 1, 0)]


def geom(rng, kind):
    if kind == "coincident":
        c = [core.snap(rng.uniform(-1, 1), 8) for _ in range(3)]
        return [list(c) for _ in range(4)]
    if kind == "collinear":
        d = [core.snap(rng.uniform(-1, 1), 8) for _ in range(3)]
        return [[core.snap(t * x, 10) for x in d] for t in (0.0, 0.75, 1.5, -1.25)]
    return [[core.snap(rng.uniform(-2, 2), 10) for _ in range(3)] for _ in range(4)]


def rand_quartet(rng, ls, kind, maxprim=3, maxseg=2):
    lo, hi = (0.2, 5.0) if 3 in ls else (0.1, 10.0)
    cs = geom(rng, kind)
    specs = []
    for l, c in zip(ls, cs):
        s = rand_shell(rng, l, [], nprim=rng.randint(1, maxprim), nseg=rng.randint(1, maxseg), sph=False,
                       exp_lo=lo, exp_hi=hi)
        specs.append(s.copy(center=c))
    return specs


def tok1(s):
    return "1 " + " ".join(s.copy(sph=False).tokens())


def quartet_case(run, specs, kind="general", tag="enumerated"):
    from gbasis.integrals.electron_repulsion import ElectronRepulsionIntegral as E

    sh = [s.copy(sph=False).make() for s in specs]
    blk = E.construct_array_contraction(*sh)
    for k, s in enumerate(sh):
        shape = [1] * 8
        shape[2 * k], shape[2 * k + 1] = blk.shape[2 * k], blk.shape[2 * k + 1]
        blk = blk * s.norm_cont.reshape(shape)
    blk = blk.reshape([blk.shape[2 * k] * blk.shape[2 * k + 1] for k in range(4)])
    a, b, c, d = specs
    model = run.model.array("eri4 " + " ".join(tok1(s) for s in (a, b, c, d)))
    ab = run.model.array("eri4 " + " ".join(tok1(s) for s in (a, b, a, b)))
    cd = run.model.array("eri4 " + " ".join(tok1(s) for s in (c, d, c, d)))
    dab = np.sqrt(np.abs(np.einsum("ijij->ij", ab)))
    dcd = np.sqrt(np.abs(np.einsum("ijij->ij", cd)))
    # |(ab|cd)| <= sqrt((ab|ab)(cd|cd)) (theorem eriBlock_schwarz), so TOL * |exact| never exceeds the property's tolerance; it takes
    # over when the Schwarz product underflows in float64 (shell pairs 20+ bohr apart: values ~1e-180, (cd|cd) ~ 1e-360 -> 0)
    tol = np.maximum(TOL * dab[:, :, None, None] * dcd[None, None, :, :], TOL * np.abs(model)) + 1e-300
    ls = tuple(s.l for s in specs)
    run.case(("q", ls, kind) + sig(specs), sample={"op": "ElectronRepulsionIntegral.construct_array_contraction",
                                                    "shells": core.describe_basis(specs)})
    run.count("l-tuple " + "".join("spdf"[l] for l in ls))
    run.count("geometry " + kind)
    run.count(tag)
    p = max(a.exps) + max(b.exps)
    q = min(c.exps) + min(d.exps)
    return compare(run, "electron-repulsion block (ab|cd)", blk, model, tol,
                   {"case": "quartet", "basis": core.describe_basis(specs), "kind": kind,
                    "signature": {"kind": "eri", "lc_plus_ld": c.l + d.l, "pq_ratio": p / q,
                                  "ls": list(ls)}}, "eri")


def large_quartet_case(run, rng, full):
    """the largest quartets of the quantifier, (ff|ff) with 3,3,3,2 primitives (work arrays of > 2^25 elements): the un-normalised
    block must be the coefficient-weighted sum of the single-primitive blocks of the last shell (each of which is small), and — in
    the thorough tier — equal the model"""
    from gbasis.integrals.electron_repulsion import ElectronRepulsionIntegral as E
    f1 = ShellSpec(3, [0.0, 0.0, 0.0], [3.5, 1.2, 0.45], [[0.3], [0.6], [0.4]])
    f2 = ShellSpec(3, [0.4, -0.3, 0.9], [2.5, 0.9], [[0.5], [0.7]])
    specs = [f1, f1.copy(center=[0.1, 0.7, -0.2]), f1.copy(center=[-0.5, 0.2, 0.3]), f2]
    rep = {"case": "large-quartet", "basis": core.describe_basis(specs)}
    run.case(("large-quartet",) + sig(specs))
    run.count("large work array (ff|ff), 54 primitive quartets")
    sh = [s.make() for s in specs]
    whole = E.construct_array_contraction(*sh)
    parts = 0.0
    for k, e in enumerate(f2.exps):
        prim = f2.copy(exps=[e], coeffs=[[1.0]]).make()
        parts = parts + f2.coeffs[k, 0] * E.construct_array_contraction(sh[0], sh[1], sh[2], prim)
    sc = float(np.abs(parts).max())
    ok = True
    if whole.shape != parts.shape or np.abs(whole - parts).max() > 1e-9 * sc:
        run.violation("electron-repulsion block of a large quartet (ff|ff, 3/3/3/2 primitives) is not the coefficient-weighted sum of the "
                      f"blocks of the primitives of its last shell (max deviation {np.abs(whole - parts).max():.3e} of {sc:.3e})",
                      dict(rep, signature={"kind": "eri-large"}))
        ok = False
    if full:
        ok = quartet_case(run, specs, "general", "large (ff|ff)") and ok
    return ok


def basis_case(run, specs, notation, transform=None):
    from gbasis.integrals.electron_repulsion import electron_repulsion_integral

    impl = electron_repulsion_integral(make_basis(specs), transform=transform, notation=notation)
    model = run.model.array("eri " + btok(specs))
    d = np.sqrt(np.abs(np.einsum("ijij->ij", model)))
    tol = TOL * d[:, :, None, None] * d[None, None, :, :]
    if transform is not None:
        t = transform
        model = np.einsum("ia,jb,kc,ld,abcd->ijkl", t, t, t, t, model)
        tol = np.einsum("ia,jb,kc,ld,abcd->ijkl", np.abs(t), np.abs(t), np.abs(t), np.abs(t), tol)
    if notation == "physicist":
        model = model.transpose(0, 2, 1, 3)
        tol = tol.transpose(0, 2, 1, 3)
    run.case(("basis", notation) + sig(specs) + (transform is not None,),
             sample={"op": "electron_repulsion_integral", "notation": notation, "basis": core.describe_basis(specs)})
    count_basis(run, specs)
    run.count("notation " + notation)
    pmax = 2 * max(max(s.exps) for s in specs)
    qmin = 2 * min(min(s.exps) for s in specs)
    return compare(run, f"electron_repulsion_integral({notation})", impl, model, tol + 1e-300,
                   {"case": "basis", "basis": core.describe_basis(specs), "notation": notation,
                    "transform": None if transform is None else transform.tolist(),
                    "signature": {"kind": "eri", "lc_plus_ld": 2 * max(s.l for s in specs), "pq_ratio": pmax / qmin}},
                   "eri")


def ill_conditioned():
    """core s shells (exponent 1e2 .. 1e5) against diffuse d / f shells, in both orientations"""
    out = []
    for e in (1e2, 1e3, 1e4, 1e5):
        for l, ed in ((2, 0.3), (3, 0.2)):
            core_s = ShellSpec(0, [0.0, 0.0, 0.0], [e], [1.0])
            core_s2 = ShellSpec(0, [0.0, 0.0, 0.0], [e / 2], [1.0])
            diff1 = ShellSpec(l, [0.0, 0.0, 1.2], [ed], [1.0])
            diff2 = ShellSpec(l, [0.3, -0.4, 1.0], [ed * 1.5], [1.0])
            out.append(("ket-diffuse", [core_s, core_s2, diff1, diff2]))
            out.append(("bra-diffuse", [diff1, diff2, core_s, core_s2]))
    return out


def check(run):
    rng = run.rng
    quick = run.tier == "quick"
    tuples = QUICK_TUPLES if quick else list(itertools.product(range(4), repeat=4))
    kinds = ["general", "collinear", "coincident"]
    for n, ls in enumerate(tuples):
        heavy = sum(ls) >= 7
        mp = 1 if (quick and sum(ls) >= 5) or heavy else (2 if quick else 3)
        specs = rand_quartet(rng, ls, kinds[n % 3], maxprim=mp, maxseg=1 if (quick or heavy) else 2)
        quartet_case(run, specs, kinds[n % 3])
    for tag, specs in ill_conditioned():
        if quick and (specs[0].exps[0] in (1e2, 1e4) or specs[2].exps[0] in (1e2, 1e4)):
            continue
        quartet_case(run, specs, "general", "ill-conditioned " + tag)
    # a tight core shell, a diffuse shell and moderate shells in every arrangement of the four slots
    from checks.common import mixed_tight_diffuse_quartets
    for tag, specs in mixed_tight_diffuse_quartets(full=not quick)[:: (2 if quick else 1)]:
        quartet_case(run, specs, "general", "tight/diffuse/moderate " + tag)
    large_quartet_case(run, rng, full=not quick)
    # tight shells on atoms so far apart that every Gaussian product factor of a pair underflows to exactly zero: the block is
    # zero (to 1e-300), not NaN
    for n, (ls, dist) in enumerate([((1, 0, 0, 1), 14.0), ((0, 1, 1, 1), 40.0)] if quick else
                                   [((1, 0, 0, 1), 14.0), ((0, 1, 1, 1), 40.0), ((1, 1, 0, 0), 14.5), ((0, 0, 1, 0), 25.0), ((2, 0, 1, 1), 15.0)]):
        e = (9.0, 10.0) if dist < 20 else (1.1, 1.4)
        far = [0.6 * dist / 1.0, -0.5 * dist / 1.0, 0.62 * dist / 1.0]
        sc = dist / float(np.linalg.norm(far))
        far = [float(x * sc) for x in far]
        A, B = [0.1, -0.2, 0.3], [0.1 + far[0], -0.2 + far[1], 0.3 + far[2]]
        cen = [A, B, A, B] if n % 2 == 0 else [A, B, B, A]
        specs = [ShellSpec(l, cen[i], [e[i % 2]], [[1.0]]) for i, l in enumerate(ls)]
        quartet_case(run, specs, "general", "underflowing pair factors")
    # contracted shells holding a tight and a diffuse primitive on well separated atoms: the tight-tight product factor underflows to
    # exactly 0, the diffuse-diffuse one is 1e-3 .. 1e-4 — as first pair, as second pair, and against itself
    from checks.common import far_diffuse_pair
    for n, R_ in enumerate((13.0, 14.0) if quick else (13.0, 14.0, 13.5, 17.0)):
        pair = far_diffuse_pair(rng, 0, n % 2, R_, tight=True)
        pair = [p_.copy(exps=[p_.exps[0], core.snap(0.1 + 0.02 * (n % 3), 10)], sph=False) for p_ in pair]
        third = ShellSpec(0, [x + 0.7 for x in pair[0].center], [core.rand_exp(rng, 0.3, 1.5)], [[1.0]])
        for arrangement in ((pair[0], pair[1], pair[0], pair[1]), (pair[0], pair[1], third, third), (third, third, pair[0], pair[1]), (pair[1], pair[0], third, pair[0])):
            quartet_case(run, list(arrangement), "general", "tight+diffuse contracted shells %g bohr apart" % R_)
    # linear symmetric arrangement C - A - D: both shells of one pair on the central atom, the other pair on the outer atoms with equal
    # single exponents (the weighted centre of the outer pair falls on the central atom), a p function on one outer atom — integrals
    # that are odd along the axis do not vanish; every axis, both orders of the pairs, tighter and looser central pair
    for ax in range(3):
        for n_, (ea, ek) in enumerate(((0.3, 1.5), (2.5, 0.6)) if not quick else (((0.3, 1.5),) if ax else ((0.3, 1.5), (2.5, 0.6)))):
            R_ = [0.0, 0.0, 0.0]
            R_[ax] = 1.5 + 0.25 * ax
            cA = [0.25, -0.5, 0.125]
            sa1 = ShellSpec(0, cA, [ea], [[1.0]])
            sa2 = ShellSpec(ax % 2, cA, [ea * 1.25], [[1.0]])
            pc = ShellSpec(1, [a + b for a, b in zip(cA, R_)], [ek], [[1.0]])
            sd = ShellSpec(0, [a - b for a, b in zip(cA, R_)], [ek], [[1.0]])
            quartet_case(run, [sa1, sa2, pc, sd], "general", "linear symmetric arrangement")
            quartet_case(run, [pc, sd, sa1, sa2], "general", "linear symmetric arrangement")
            quartet_case(run, [sa1, sa2, sd, pc], "general", "linear symmetric arrangement")
    # two shells of one angular momentum with different declared Cartesian orders inside one quartet
    from checks import c09 as _c09
    _c09.same_l_conventions_case(run, rng, quick, names=["eri_chemist", "eri_physicist"][: 1 if quick else 2])
    # nearly coincident centres within the bra and between bra and ket
    from checks.common import NEAR_LADDER
    for n, ls in enumerate([(0, 1, 0, 0), (1, 1, 0, 1), (0, 2, 1, 0), (1, 0, 1, 0)] + ([] if quick else [(2, 1, 1, 1), (1, 2, 2, 0), (0, 0, 0, 1), (2, 2, 0, 0)])):
        specs = rand_quartet(rng, ls, "general", maxprim=1 if quick else 2, maxseg=1)
        sep = NEAR_LADDER[1 + n % 4]
        a = np.array(specs[0].center) + (np.array([12.0, -9.0, 15.0]) if n % 2 else 0.0)
        specs[0] = specs[0].copy(center=[float(x) for x in a])
        specs[1] = specs[1].copy(center=[float(x) for x in a + sep * np.array([0.7, -1.0, 0.4])])
        specs[2 + n % 2] = specs[2 + n % 2].copy(center=[float(x) for x in a + sep * np.array([-0.5, 0.3, 0.9])])
        other = specs[3 - n % 2]
        specs[3 - n % 2] = other.copy(center=[float(x) for x in a + (np.array(other.center) - np.array(specs[0].center)) * 0.0
                                              + np.array([0.8, -0.6, 1.1])])
        quartet_case(run, specs, "general", "nearly coincident centres")
    # whole-basis calls, both notations, all coordinate types
    nb = 3 if quick else 16
    for k in range(nb):
        n = 2 + k % (2 if quick else 3)
        lmax = 1 if (quick or n == 4) else 2
        cs = []
        specs = [rand_shell(rng, rng.randint(0, lmax), cs, nprim=rng.randint(1, 2), nseg=rng.randint(1, 2),
                            exp_lo=0.1, exp_hi=10.0) for _ in range(n)]
        if k % 3 == 0:
            specs = [s.copy(sph=True) for s in specs]
        elif k % 3 == 1:
            specs = [s.copy(sph=False) for s in specs]
        t = None
        if k % 4 == 2:
            t = random_transform(rng, sum(s.size for s in specs))
            run.count("transform")
        basis_case(run, specs, "chemist" if k % 2 else "physicist", t)
    # a pure d shell with two segmented contractions (the Cartesian-to-pure matrix acts on the component index of every segment)
    gd = ShellSpec(2, [0.2, -0.1, 0.3], [1.4, 0.5], [[0.6, -0.3], [0.5, 0.9]], sph=True)
    for n_, other in enumerate([ShellSpec(0, [0.0, 0.6, -0.4], [0.9], [[1.0]]), ShellSpec(1, [0.0, 0.6, -0.4], [0.9, 0.3], [[1.0, 0.2], [0.3, 1.0]], sph=True)][: 1 if quick else 2]):
        basis_case(run, [gd, other], "chemist" if n_ else "physicist")
        basis_case(run, [other, gd.copy(sph=bool(n_))], "physicist" if n_ else "chemist")
        run.count("pure d shell with two segmented contractions (whole-basis call)")
    from checks.common import structural_families
    for n_, (lab, sp_, T) in enumerate(structural_families(run, transforms=False, lmax_twins=1, lmax_obj=1, ls_extreme=(0, 1), small=True)):
        basis_case(run, sp_, "chemist" if n_ % 2 else "physicist", T)
        run.count(lab)
    basis_case(run, [ShellSpec(1, [0, 0, 0], [0.8, 2.5], [[1.0], [0.4]], sph=True),
                     ShellSpec(0, [0.0, 0.5, -0.3], [1.3], [1.0])], "chemist")
    basis_case(run, [ShellSpec(1, [0, 0, 0], [0.8, 2.5], [[1.0], [0.4]], sph=True),
                     ShellSpec(0, [0.0, 0.5, -0.3], [1.3], [1.0])], "physicist")


def replay(run, rep):
    n0 = len(run.violations)
    if rep.get("case") == "convention":
        from checks import c09 as _c09
        return _c09.replay(run, rep)
    if rep.get("case") == "large-quartet":
        large_quartet_case(run, run.rng, False)
    elif rep.get("case") == "quartet":
        quartet_case(run, specs_from(rep), rep.get("kind", "general"))
    else:
        t = rep.get("transform")
        basis_case(run, specs_from(rep), rep["notation"], None if t is None else np.array(t))
    return len(run.violations) == n0
