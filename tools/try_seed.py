#!/usr/bin/env python3
"""Run checks against a seeded change.

usage: try_seed.py <patch.diff> <property ids...>   [--tier quick|thorough] [--inplace]

Default: a scratch worktree of /repo is created under /tmp, the patch is applied there and the checks are run
with GBASIS_REPO pointing at it (the harness imports gbasis and runs the translators from that tree).
--inplace: `git -C /repo apply`, run, `git -C /repo checkout -- .` (as the brief describes).
Prints one line per property: DETECTED / MISSED / BROKEN, with the VIOLATION lines.
"""
import os
import subprocess
import sys
import tempfile

VERIF = os.path.dirname(os.path.dirname(os.path.abspath(__file__)))


def main():
    args = [a for a in sys.argv[1:] if not a.startswith("--")]
    tier = "quick"
    if "--tier" in sys.argv:
        tier = sys.argv[sys.argv.index("--tier") + 1]
        args.remove(tier)
    inplace = "--inplace" in sys.argv
    patch, pids = os.path.abspath(args[0]), args[1:]
    env = dict(os.environ)
    if inplace:
        tree = "/repo"
        subprocess.check_call(["git", "-C", "/repo", "apply", patch])
    else:
        tree = tempfile.mkdtemp(prefix="seedtest_", dir="/tmp")
        os.rmdir(tree)
        subprocess.check_call(["git", "-C", "/repo", "worktree", "add", "-q", "--detach", tree, "HEAD"])
        subprocess.check_call(["git", "-C", tree, "apply", patch])
        env["GBASIS_REPO"] = tree
        # private copy of the Lean project (the translators rewrite GBExtracted/) and scratch output directory, so that runs
        # against seeded changes neither disturb concurrent checks nor overwrite the committed evidence
        lean_copy = tree + "_lean"
        subprocess.check_call(["cp", "-r", os.path.join(VERIF, "lean"), lean_copy])
        env["GBASIS_LEAN_DIR"] = lean_copy
        env["GBASIS_OUT_DIR"] = tree + "_out"
        os.makedirs(env["GBASIS_OUT_DIR"], exist_ok=True)
    results = {}
    try:
        for pid in pids:
            p = subprocess.run(["/venv/bin/python", os.path.join(VERIF, "harness", "check.py"), pid, "--tier", tier],
                               cwd=VERIF, env=env, stdout=subprocess.PIPE, stderr=subprocess.STDOUT, text=True)
            lines = [l for l in p.stdout.splitlines() if l.startswith(("VIOLATION", "KNOWN-FINDING", "BROKEN"))]
            status = {0: "MISSED", 1: "DETECTED"}.get(p.returncode, f"BROKEN(rc={p.returncode})")
            results[pid] = status
            print(f"{pid}: {status}")
            for l in lines[:4]:
                print("    " + l[:260])
            if p.returncode not in (0, 1):
                print("    " + "\n    ".join(p.stdout.splitlines()[-8:]))
    finally:
        if inplace:
            subprocess.check_call(["git", "-C", "/repo", "checkout", "--", "."])
        else:
            subprocess.call(["git", "-C", "/repo", "worktree", "remove", "--force", tree])
            subprocess.call(["rm", "-rf", tree + "_lean", tree + "_out"])
        if inplace:
            # regenerate the extracted files from the clean tree
            subprocess.call(["/venv/bin/python", os.path.join(VERIF, "harness", "setup.py")], cwd=VERIF, stdout=subprocess.DEVNULL,
                            stderr=subprocess.DEVNULL)
    return results


if __name__ == "__main__":
    main()
