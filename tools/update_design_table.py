#!/usr/bin/env python3
"""Rewrite the rows of the table in DESIGN.md §8.3 from seeded/*/meta.json (what tools/seed_matrix.py recorded)."""
import os
import re
import subprocess
import sys

VERIF = os.path.dirname(os.path.dirname(os.path.abspath(__file__)))
rows = subprocess.run([sys.executable, os.path.join(VERIF, "tools", "seed_matrix.py"), "--table-only", "--jobs", "1"],
                      stdout=subprocess.PIPE, text=True, check=True).stdout.splitlines()
rows = [r for r in rows if r.startswith("| `")]
path = os.path.join(VERIF, "DESIGN.md")
lines = open(path).read().split("\n")
start = next(i for i, l in enumerate(lines) if l.startswith("### 8.3"))
end = next(i for i, l in enumerate(lines) if l.startswith("### 8.4"))
first = next(i for i in range(start, end) if lines[i].startswith("| `"))
last = max(i for i in range(start, end) if lines[i].startswith("| `"))
lines[start] = re.sub(r"all \d+ changes", f"all {len(rows)} changes", lines[start])
lines[first:last + 1] = rows
open(path, "w").write("\n".join(lines))
print(f"{len(rows)} rows written")
