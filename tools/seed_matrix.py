#!/usr/bin/env python3
"""Re-run every seeded change under /verif/seeded against the checks recorded in its meta.json (quick tier, scratch worktree and
private copy of the Lean project per run, so several run in parallel), update meta.json["checks"], and print the markdown table
used in DESIGN.md §8.
usage: seed_matrix.py [--only <prefix>] [--table-only] [--targets-only] [--jobs N] [--no-write]
(--no-write: do not update meta.json — for runs with another VERIF_SEED, which only ask whether detection depends on the seed)"""
import json
import os
import subprocess
import sys
from concurrent.futures import ThreadPoolExecutor

VERIF = os.path.dirname(os.path.dirname(os.path.abspath(__file__)))
only = sys.argv[sys.argv.index("--only") + 1] if "--only" in sys.argv else ""
jobs = int(sys.argv[sys.argv.index("--jobs") + 1]) if "--jobs" in sys.argv else 4


def one(name):
    d = os.path.join(VERIF, "seeded", name)
    mp = os.path.join(d, "meta.json")
    if not os.path.exists(mp) or not name.startswith(only):
        return None
    meta = json.load(open(mp))
    pids = sorted(meta.get("checks", {}))
    tgt = meta.get("property")
    if tgt and tgt not in pids:
        pids.insert(0, tgt)
    if "--targets-only" in sys.argv:
        pids = [tgt]
    if "--table-only" not in sys.argv:
        out = subprocess.run([os.path.join(VERIF, "tools", "try_seed.py"), os.path.join(d, "patch.diff")] + pids,
                             stdout=subprocess.PIPE, stderr=subprocess.STDOUT, text=True).stdout
        for line in out.splitlines():
            for pid in pids:
                if line.startswith(pid + ": "):
                    meta.setdefault("checks", {})[pid] = line.split(": ", 1)[1].strip()
        if "--no-write" not in sys.argv:
            json.dump(meta, open(mp, "w"), indent=1)
    det = [p for p, r in meta["checks"].items() if r == "DETECTED"]
    sil = [p for p, r in meta["checks"].items() if r != "DETECTED"]
    det.sort(key=lambda p: (p != tgt, p))
    clean = lambda t: " ".join(str(t).replace("|", "/").split())
    row = (f"| `{name}` | {tgt} | {clean(meta.get('summary', ''))[:230]} | {clean(meta.get('needs', ''))[:260]} | "
           f"{', '.join(det) or '**none**'} | {', '.join(sil) or '—'} |")
    print(row, flush=True)
    return row


with ThreadPoolExecutor(max_workers=jobs) as ex:
    rows = [r for r in ex.map(one, sorted(os.listdir(os.path.join(VERIF, "seeded")))) if r]
