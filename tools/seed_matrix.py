#!/usr/bin/env python3
"""Re-run every seeded change under /verif/seeded against the checks recorded in its meta.json (quick tier, scratch worktree),
update meta.json["checks"], and print the markdown table used in DESIGN.md §8.
usage: seed_matrix.py [--only <prefix>] [--table-only]"""
import json
import os
import subprocess
import sys

VERIF = os.path.dirname(os.path.dirname(os.path.abspath(__file__)))
only = sys.argv[sys.argv.index("--only") + 1] if "--only" in sys.argv else ""
rows = []
for name in sorted(os.listdir(os.path.join(VERIF, "seeded"))):
    d = os.path.join(VERIF, "seeded", name)
    mp = os.path.join(d, "meta.json")
    if not os.path.exists(mp) or not name.startswith(only):
        continue
    meta = json.load(open(mp))
    pids = sorted(meta.get("checks", {}))
    tgt = meta.get("property")
    if tgt and tgt not in pids:
        pids.insert(0, tgt)
    if "--table-only" not in sys.argv:
        out = subprocess.run([os.path.join(VERIF, "tools", "try_seed.py"), os.path.join(d, "patch.diff")] + pids,
                             stdout=subprocess.PIPE, stderr=subprocess.STDOUT, text=True).stdout
        for line in out.splitlines():
            for pid in pids:
                if line.startswith(pid + ": "):
                    meta.setdefault("checks", {})[pid] = line.split(": ", 1)[1].strip()
        json.dump(meta, open(mp, "w"), indent=1)
    det = [p for p, r in meta["checks"].items() if r == "DETECTED"]
    sil = [p for p, r in meta["checks"].items() if r != "DETECTED"]
    det.sort(key=lambda p: (p != tgt, p))
    rows.append(f"| `{name}` | {tgt} | {meta.get('summary', '')[:230]} | {meta.get('needs', '')[:260]} | {', '.join(det) or '**none**'} | {', '.join(sil) or '—'} |")
    print(rows[-1], flush=True)
