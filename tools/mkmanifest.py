#!/usr/bin/env python3
"""Regenerates /verif/MANIFEST.json from the table below (kept by hand)."""
import json
import os

VERIF = os.path.dirname(os.path.dirname(os.path.abspath(__file__)))

CHECKS = {
 "C01": ("Lean theorems: the recursion table of the code equals the Gaussian integral for all indices (momTab_eq; table_entry_eq_integral over Mathlib's Lebesgue integral), unit normalisation of Cartesian components; the compiled model is compared with overlap_integral / overlap_integral_asymmetric / Overlap.construct_array_contraction entry by entry within the property's tolerance (1e-8) on every pair of angular momenta 0..5, both coordinate types, union-block relation",
         "3-D product, contraction and assembly are executed by the model in the correspondence but the lift of the 1-D theorem to the contracted 3-D block is not yet a theorem; float rounding of the implementation is observed, not proved",
         "Lean 4 proof (model table = integral) + translator-checked tables + differential correspondence model vs code"),
 "C02": ("Lean theorems: the padded derivative table equals the integral of a Gaussian against the k-th (iterated) derivative of the other for all k <= d_max, i <= a_max (diffTab_eq, table_entry_eq_integral), the padding is necessary (diffPlanes_unpadded_ne), second-derivative symmetry; compiled model vs kinetic_energy_integral within 1e-8*sqrt(T_aa T_bb) on every pair of angular momenta 0..5",
         "as C01; the sum over axes and -1/2 factor are executed by the model, not separately proved",
         "Lean 4 proof (derivative table = integral) + differential correspondence"),
 "C07": ("Lean theorems: table = integral for every moment order (no bound), order 0 independent of the origin, binomial origin-shift law (moment_shift); compiled model vs moment_integral for all 125 order triples 0..4, origins on/off/far, transforms; order-0 and shift law also tested on implementation outputs",
         "tolerance for 'to double precision' = 1e-9 x running absolute-value majorant of the element computed by the model",
         "Lean 4 proof + differential correspondence"),
 "C08": ("Lean theorems: first-derivative table = integral, antisymmetry <a|d|b> = -<b|d|a> for all polynomial prefactors (deriv_antisymm, table_swap), conjugate-transpose fill is correct and the plain-transpose fill is wrong (conj_fill_correct, plain_fill_wrong: the repaired defect); compiled model vs momentum_integral / angular_momentum_integral for every ordered pair in every shell ordering, Hermiticity tested",
         "the written-out r x grad products are executed by the model; their antisymmetry is covered by the correspondence of every ordered pair",
         "Lean 4 proof + differential correspondence over all shell orderings"),
}

NOT_APPLICABLE = {}

PENDING = ["C03", "C04", "C05", "C06", "C09", "C10", "C11", "C12", "C13", "C14", "C15", "C16", "C17", "C18", "C19", "C20"]


def main():
    man = {
        "version": 1,
        "setup_cmd": "/venv/bin/python harness/setup.py",
        "hooks": {"guard": "GBASIS_VERIF",
                  "enable": "no source hooks are needed: the harness subclasses the public classes and replaces module attributes in-process",
                  "baseline_off_cmd": "cd /repo && /venv/bin/python -m pytest -ra -q -p no:cacheprovider --timeout=900 --continue-on-collection-errors",
                  "source_commits": [], "add_only": True},
        "engines": [{"name": "lean-proof+correspondence", "path": "harness/check.py",
                     "serves_properties": sorted(CHECKS),
                     "kind_free_text": "Lean 4 theorems about a code-shaped executable model (lean/GBModel, proofs in lean/GBProofs) + translators (harness/gbv/tr_*.py -> lean/GBExtracted, obligations in lean/GBProofs/Obl) + differential correspondence of the compiled model (gbmodel, 320-bit dyadic arithmetic) with the public API of /repo"}],
        "checks": [],
        "not_applicable": [{"property_id": k, "reason": v} for k, v in sorted(NOT_APPLICABLE.items())]
                          + [{"property_id": k, "reason": "check under construction in this round (model exists or is being built; not yet claimed)"} for k in PENDING if k not in CHECKS],
        "notes": "DESIGN.md explains the approach; known_findings.json lists recorded and repaired defects.",
    }
    for pid in sorted(CHECKS):
        text, note, tech = CHECKS[pid]
        man["checks"].append({
            "property_id": pid,
            "quick_cmd": f"/venv/bin/python harness/check.py {pid} --tier quick",
            "thorough_cmd": f"/venv/bin/python harness/check.py {pid} --tier thorough",
            "evidence_file": f"evidence/{pid}.json",
            "replay_cmd_template": f"/venv/bin/python harness/check.py {pid} --replay {{path}}",
            "engine": "lean-proof+correspondence",
            "level_claimed": {"category": "proof", "text": text, "design_ref": f"DESIGN.md section 4, {pid}"},
            "level_note": "trusted: Lean kernel + propext/Classical.choice/Quot.sound (audited each run), Mathlib; " + note,
            "technique": tech,
        })
    with open(os.path.join(VERIF, "MANIFEST.json"), "w") as fh:
        json.dump(man, fh, indent=1)


if __name__ == "__main__":
    main()
