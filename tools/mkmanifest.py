#!/usr/bin/env python3
"""Regenerates /verif/MANIFEST.json from the table below (kept by hand)."""
import json
import os

VERIF = os.path.dirname(os.path.dirname(os.path.abspath(__file__)))

CHECKS = {
 "C01": ("Lean theorems: the recursion table of the code equals the Gaussian integral for all indices (momTab_eq; table_entry_eq_integral over Mathlib's Lebesgue integral), unit normalisation of Cartesian components; the compiled model is compared with overlap_integral / overlap_integral_asymmetric / Overlap.construct_array_contraction entry by entry within the property's tolerance (1e-8) on every pair of angular momenta 0..5, both coordinate types, union-block relation",
         "3-D product, contraction and assembly are executed by the model in the correspondence but the lift of the 1-D theorem to the contracted 3-D block is not yet a theorem; float rounding of the implementation is observed, not proved",
         "Lean 4 proof (model table = integral) + translator-checked tables + differential correspondence model vs code"),
 "C02": ('Lean theorems: the padded derivative table equals the integral of a Gaussian against the k-th (iterated) derivative of the other for all k <= d_max, i <= a_max (diffTab_eq, table_entry_eq_integral), the padding is necessary (diffPlanes_unpadded_ne), the whole kinetic shell block is the integral of phi_a (-1/2 Laplacian) phi_b of the contracted normalised functions (kineticBlock_eq_integral) and equals 1/2 the integral of grad phi_a . grad phi_b (kineticBlock_eq_gradient, block-level integration by parts), hence symmetric and positive semi-definite; compiled model vs kinetic_energy_integral within 1e-8*sqrt(T_aa T_bb) on every pair of angular momenta 0..5, tail regime, shells reached through the parameter setters, exact-zero coefficients',
         'floating-point error of the implementation is observed against the exact model, not proved',
         'Lean 4 proof (kinetic block = integral over R^3) + differential correspondence'),
 "C07": ("Lean theorems: table = integral for every moment order (no bound), order 0 independent of the origin, binomial origin-shift law (moment_shift); compiled model vs moment_integral for all 125 order triples 0..4, origins on/off/far, transforms; order-0 and shift law also tested on implementation outputs",
         "tolerance for 'to double precision' = 1e-9 x running absolute-value majorant of the element computed by the model",
         "Lean 4 proof + differential correspondence"),
 "C08": ("Lean theorems: first-derivative table = integral, antisymmetry <a|d|b> = -<b|d|a> for all polynomial prefactors (deriv_antisymm, table_swap), conjugate-transpose fill is correct and the plain-transpose fill is wrong (conj_fill_correct, plain_fill_wrong: the repaired defect); compiled model vs momentum_integral / angular_momentum_integral for every ordered pair in every shell ordering, Hermiticity tested",
         "the written-out r x grad products are executed by the model; their antisymmetry is covered by the correspondence of every ordered pair",
         "Lean 4 proof + differential correspondence over all shell orderings"),
 "C03": ("Lean theorems: for an arbitrary Boys sequence the vertical and horizontal passes, contraction and component selection compute the contracted Rys form (pointChargeBlock_eq_rys); with the true Boys function the three-dimensional Coulomb integral of two primitives of arbitrary angular momenta is formalised (Gaussian transform of 1/r, Fubini, Rys substitution: coulomb_general), so every entry of the model's point-charge block equals -q times the integral of phi_a phi_b / |r - C| over R^3 (pointChargeBlock_eq_integral); shell-swap symmetry; compiled model (320-bit Boys function) vs point_charge_integral per charge within 1e-8*sqrt(|V_aa V_bb|) and vs nuclear_electron_attraction_integral, every ordered pair of l 0..5, charges on a ladder of Boys arguments 0 .. 3e4",
         "the model's 320-bit Boys evaluation (series / downward recursion) is validated numerically, not proved equal to the Boys integral; scipy.hyp1f1 is covered only through the correspondence",
         'Lean 4 proof (point-charge block = Coulomb integral over R^3) + differential correspondence'),
 "C04": ("Lean theorems: vertical recursion, electron transfer, four-fold contraction, both horizontal passes, component selection, angular norms and axis order of the model of ElectronRepulsionIntegral.construct_array_contraction compute the contracted Rys form for arbitrary angular momenta and any Boys table (eriBlock_eq_rys); the six-dimensional Coulomb integral of four primitive Gaussians is formalised (Gaussian transform of 1/r12, two-variable Gaussian moments by integration by parts, Fubini, Boys integral: coulomb2_general, integrability included) and closed under the horizontal relations (horiz4_unique), so every block entry equals the integral of phi_a(r1) phi_b(r1) phi_c(r2) phi_d(r2)/|r1-r2| over R^6 (eriBlock_eq_integral); consequences: the three generators of the eight-fold symmetry, (ab|ab) >= 0, Schwarz; physicists' = middle-index swap; compiled model vs the implementation on all 256 l-tuples 0..3 (thorough; 26 in quick) and whole-basis calls in both notations within 1e-6*sqrt((ab|ab)(cd|cd)); ill-conditioned tight-bra/diffuse-ket quartets are the recorded finding F10",
         "float rounding amplification in the implementation (finding F10) is visible only to the correspondence; the model's 320-bit Boys evaluation is validated numerically",
         'Lean 4 proof (ERI block = six-dimensional Coulomb integral) + differential correspondence + known-finding matching'),
 "C05": ("Lean theorems: the general back-end equals the n-th iterated derivative of x^a e^{-ax^2} for all a, n, x (twisted Leibniz rule, Hermite recurrence), the direct back-end agrees with it for orders <= 2 on every component of a full shell, the dispatcher accepts 'direct' iff all orders <= 2 and rejects unknown names, and the order-3 counter-example of the repaired defect; compiled model of both back-ends vs evaluate_basis / evaluate_deriv_basis for all 125 order triples, points on centres and coordinate planes; rejection behaviour compared as an enum",
         "scipy eval_hermite/comb/perm covered through the correspondence only",
         "Lean 4 proof + differential correspondence incl. error behaviour"),
 "C10": ("Kernel-checked complete tables for l <= 10 (decide +kernel): every generated function is a homogeneous harmonic polynomial (genuine MvPolynomial Laplacian via laplacian_sound), rows are orthonormal in the metric of unit-normalised Cartesians for every accepted order/sign convention, cosine/sine partners are f*Re(x+iy)^m, f*Im(x+iy)^m with the same f positive at the pole, label validation = permutation of the canonical labels with one optional leading '-'; default orders extracted from the source by the translator and compared with the model's by decide; compiled model vs generate_transformation for all l <= 10, Cartesian permutations, order/sign patterns, malformed labels",
         "quantifier is finite and enumerated completely; numpy float evaluation of the closed-form coefficients compared at 1e-13 relative",
         "Lean 4 proof by complete kernel enumeration + translator + differential correspondence"),
 "C06": ("Lean theorems in a differential ring with three commuting derivations: the half-range Leibniz loop of evaluate_deriv_density equals d^L rho for every order triple when gamma is symmetric (and is wrong without symmetry: explicit counter-example), gradient/Laplacian/Hessian forms equal the derivatives, Hessian symmetric with trace = Laplacian, t_alpha = t_+ + alpha*Laplacian, clipping rule; the forms are tied to the code by exact probing (translator tr_forms.py runs the real functions with indicator stubs; kernel-checked obligation forms_ok); end-to-end correspondence of every density function with the defining sums built from the model's derivative values, both back-ends, rectangular transforms, thresholds bracketing the clip boundary",
         "a differential ring models smooth functions on R^3 (standard, instance given for polynomials); non-negativity for PSD gamma is observed (no rejection), not proved",
         "Lean 4 proof + exact-probing translator with decide obligation + differential correspondence"),
 "C11": ("Lean theorems: the model's arrays are, entry by entry, the block of the shells the indices belong to, in the documented order shell / segment / component (locate_offset, entry2_layout), so reordering shells permutes indices by construction; block symmetries proved for the model's blocks themselves justify the code's filling by symmetry: overlap, kinetic and point-charge blocks symmetric (overlapMat_symm, kineticMat_symm, pointChargeMat_symm), momentum type antisymmetric + conjugate fill (conj_fill_correct, plain_fill_wrong), the three generators of the eight-fold symmetry of the repulsion block (eriBlock_swap_ab / _cd / _electrons); checks: every public function on all permutations of 2-5 shells equals the index-permuted array, symmetric/Hermitian/eight-fold symmetry, shell blocks in both (pairs) and all eight (quartets) orientations incl. tight/diffuse quartets (recorded finding F10)",
         'floating-point error of the implementation is observed, not proved',
         'Lean 4 proof of layout and block symmetries + relational checks on the implementation + correspondence'),
 "C12": ("Lean theorems: (i) every affine isometry g of Euclidean 3-space (all translations, proper and improper rotations) preserves volume, and if the moved system's functions satisfy psi_i(g r) = sum_j D_ij phi_j(r) then overlap-type, point-charge (charge moved along) and Coulomb integrals of the moved system are D...D applied to the original ones (lift_overlap, lift_pointCharge, lift_coulomb); (ii) for a Cartesian shell with the full component list the moved shell's functions at the moved point are sum_c' repMat(R) c c' times the original functions, repMat depending only on the linear part and the component list, = 1 for s and = R for p (shellFnE_moved, exists_repMat, repMat_s, repMat_p), translations need no hypothesis; (iii) for the model's blocks themselves: overlapBlock_moved, pointChargeBlock_moved, eriBlock_moved, and translation invariance of all block types (TranslationLaws for overlap / moment / derivative / kinetic, pointChargeBlock_translate, eriBlock_translate); reflection parity of the one-dimensional factors; checks: every public function under all 48 signed axis permutations (exact index permutation) and random proper/improper orthogonal matrices with translations, using exact shell representation matrices; invariants (density, t+, Laplacian, ESP); full rank-1..4 derivative tensors of basis functions and density, gradient, Hessian, stress tensor, Ehrenfest force and Hessian rotate as tensors; angular momentum shifts by d x p",
         'PARTIAL: rotation covariance is proved for overlap, point-charge and repulsion blocks of Cartesian shells; for kinetic / momentum / moment blocks (gradient and moment tensors) and for spherical shells (T D pinv(T)) it is verified numerically on the implementation only',
         'Lean 4 proof (rigid-motion covariance of integrals and of Cartesian shell functions) + relational checks with representation matrices'),
 "C13": ("Lean theorems about the model's contraction: a column of a generalized shell equals the single-column shell, invariance under any permutation of primitives and under splitting a primitive, linearity in the coefficients, normalisation absorbs a positive scale factor and a negative one flips the sign; checks: every public function on a basis and its rewritten-but-equivalent form (all primitive permutations, scale factors 1e-6..1e6 of both signs)",
         "theorems are about `contract`, through which every block of the model is formed; the implementation is tied by the relational checks and by the correspondences of C01-C08",
         "Lean 4 proof + metamorphic checks on the implementation"),
 "C14": ("Lean theorems: a nucleus is dropped iff its distance is below the threshold independent of its charge; the repaired rule Z/d > 1/t differs (counter-examples); size rule of the density matrix with/without transformation; trace identity for rectangular transformations; electronic term = C03; check: electrostatic_potential vs nuclear sum + model point-charge integrals with thresholds bracketing each distance, charges of both signs, points on nuclei, rectangular transforms",
         "float64 distance computation; ties avoided by bracketing",
         "Lean 4 proof (decision logic, matrix identity) + differential correspondence"),
 "C15": ("Lean theorems valid for all alpha, beta at once (differential ring): stress tensor = documented expression and symmetric, Ehrenfest force = -div stress, Ehrenfest Hessian = Jacobian of the force, symmetric option = average with transpose; forms tied to the code by exact probing at 12 (alpha, beta) points incl. all special-cased values (kernel-checked obligation); end-to-end correspondence on real bases",
         "probing covers a finite set of parameter points; the theorems cover all parameters of the model's forms",
         "Lean 4 proof + exact-probing translator with decide obligation + differential correspondence"),
 "C16": ("Lean theorems (Mathlib measure theory on R^3): the model's overlap / moment / kinetic blocks equal the integrals over R^3 of products of exactly the functions (and derivatives) that the evaluation model returns — same primitive norms, component order and sign — for all shells; unit normalisation; check: trapezoid quadrature of the library's own evaluations on a 73^3 grid vs its analytic integrals, tr(gamma S), tr(gamma T)",
         "quadrature error < 1e-10 for the stated exponent range (assumed; halving h in thorough)",
         "Lean 4 proof (Fubini/product measure) + numerical quadrature of implementation outputs"),
 "C17": ("Lean theorems for the model's blocks themselves (any finite family of shell/segment/component indices): x^T S x = integral of (sum x_i phi_i)^2 >= 0, |S_ab| <= sqrt(S_aa S_bb) (overlap_psd, overlap_abs_le); T_ab = 1/2 integral grad phi_a . grad phi_b, PSD (kineticBlock_eq_gradient, kinetic_psd); x^T V x = -q integral (sum x_i phi_i)^2/|r-C| <= 0 for q >= 0 (pointCharge_nsd); the Coulomb kernel is positive (coulomb_kernel_nonneg via Gaussian transform and Gaussian convolution square root), so the repulsion block is PSD over index pairs, (ab|ab) >= 0 and |(ab|cd)| <= sqrt((ab|ab)(cd|cd)) (eriBlock_psd, eriBlock_self_nonneg, eriBlock_schwarz, through eriBlock_eq_integral); congruence with transformation matrices preserves definiteness (GramLaws); check: eigenvalues and Schwarz inequalities of the implementation's matrices incl. nearly dependent bases",
         'the numerical slack (1e-9 of the largest eigenvalue, 1e-6 for the repulsion array) of the floating-point matrices is measured, not derived',
         'Lean 4 proof (definiteness of all four families at block level) + direct eigenvalue measurement'),
 "C20": ("Lean theorems over the reals: documented cutoff <=> exp(-ab/(a+b) d^2) < tol, monotone in the tolerance, conservative bound for s-type elements; check: blockwise comparison of screened vs unscreened overlap with distances bracketing the cutoff, tolerances 1e-16..0.5, None, transforms, booleans rejected",
         "float64 evaluation of the cutoff; ties avoided by bracketing",
         "Lean 4 proof + blockwise differential check"),
 "C09": ("Translator + Lean: every construct_array_{cartesian,spherical,mix,lincomb} pipeline of the four base classes is extracted from the source with ast on every run (34 block programs over all coordinate-type flag patterns, 4 lincomb chains, the lower-triangle fill) and checked in the kernel against the symbolic criterion pipelineOk / lincombOk (axes fused segment-major, norm_cont on (segment, Cartesian component) before the transformation, each spherical slot contracted with its own matrix, trailing axes untouched) — symbolic, hence for all shapes; reference theorems show the criterion accepts the right programs and rejects the typical mistakes; exact labelled-block test of all four classes against an independent index formula; relational checks of every public function (spherical/mixed vs T.cartesian, transform= vs explicit contraction, component order/sign conventions)",
         "soundness of the symbolic axis calculus w.r.t. the index-wise semantics of the NumPy operations is proved in GBProofs/AxisCalculus.lean when present (otherwise validated by the exact labelled-block test on every run); NumPy's own semantics is trusted through that test",
         "AST translator -> Lean decide obligations (symbolic axis calculus) + exact integer differential test"),
 "C18": ("Lean token-line model of parse_nwchem / parse_gbs / make_contractions with kernel-evaluated instances (zero, one, many lines before the first element; SP shells; D exponents) and round-trip theorems in GBProofs/ParserProofs.lean when present; check: random well-formed files rendered with comments, blank lines, white-space variation and 0/1/2/7 preamble lines must give back exactly the shells written, and the implementation must agree with the Lean model on the token lines of every file (repository data files as corpus); make_contractions with string/list/tuple coordinate types, arguments snapshotted, repeated calls; from_pyscf on a duck-typed Mole",
         "regular-expression behaviour below the token level (tabs, \\s* spanning lines) is covered by the file-level correspondence only; from_iodata is outside the model (package absent)",
         "Lean model + kernel-evaluated instances (+ round-trip proof) + differential correspondence on rendered files"),
 "C19": ("Lean theorem history_pure: if every effect summary is pure, no history of calls of any length (returning or raising) changes an argument object or the process-wide floating-point error state, and results do not depend on the history; the hypothesis is discharged by decide for the summaries that the static effect translator extracts from every function of the package on every run (mutating statements with a path-joining alias analysis, np.seterr protection); counter-example theorems for the two repaired defects; monitored random histories of 1-30 valid and invalid public calls with bitwise snapshots of all arguments, shells and numpy.geterr(), repeated-call equality, freshness of every construct_array_contraction result, renormalisation after parameter updates (exponents, coefficients, centre) and equality of overlap / kinetic / evaluation / point-charge arrays with those of a shell constructed afresh with the same parameters",
         "the alias analysis is a conservative syntactic approximation (calls are assumed to allocate their results: checked dynamically by the freshness test); C extensions of NumPy/SciPy are assumed not to mutate their inputs",
         "static effect translator -> Lean decide obligation + history theorem + monitored histories"),
}

NOT_APPLICABLE = {}

PENDING = []


def main():
    man = {
        "version": 1,
        "setup_cmd": "/venv/bin/python harness/setup.py",
        "hooks": {"guard": "GBASIS_VERIF",
                  "enable": "no source hooks are needed: the harness subclasses the public classes and replaces module attributes in-process",
                  "baseline_off_cmd": "cd /repo && /venv/bin/python -m pytest -ra -q -p no:cacheprovider --timeout=900 --continue-on-collection-errors",
                  "source_commits": [], "add_only": True},
        "engines": [{"name": "lean-proof+correspondence", "path": "harness/check.py",
                     "serves_properties": sorted(CHECKS),
                     "kind_free_text": "Lean 4 theorems about a code-shaped executable model (lean/GBModel, proofs in lean/GBProofs) + translators (harness/gbv/tr_*.py -> lean/GBExtracted, obligations in lean/GBProofs/Obl) + differential correspondence of the compiled model (gbmodel, 320-bit dyadic arithmetic) with the public API of /repo"}],
        "checks": [],
        "not_applicable": [{"property_id": k, "reason": v} for k, v in sorted(NOT_APPLICABLE.items())]
                          + [{"property_id": k, "reason": "check under construction in this round (model exists or is being built; not yet claimed)"} for k in PENDING if k not in CHECKS],
        "notes": "DESIGN.md explains the approach; known_findings.json lists recorded and repaired defects.",
    }
    for pid in sorted(CHECKS):
        text, note, tech = CHECKS[pid]
        man["checks"].append({
            "property_id": pid,
            "quick_cmd": f"/venv/bin/python harness/check.py {pid} --tier quick",
            "thorough_cmd": f"/venv/bin/python harness/check.py {pid} --tier thorough",
            "evidence_file": f"evidence/{pid}.json",
            "replay_cmd_template": f"/venv/bin/python harness/check.py {pid} --replay {{path}}",
            "engine": "lean-proof+correspondence",
            "level_claimed": {"category": "proof", "text": text, "design_ref": f"DESIGN.md section 4, {pid}"},
            "level_note": "trusted: Lean kernel + propext/Classical.choice/Quot.sound (audited each run), Mathlib; " + note,
            "technique": tech,
        })
    with open(os.path.join(VERIF, "MANIFEST.json"), "w") as fh:
        json.dump(man, fh, indent=1)


if __name__ == "__main__":
    main()
