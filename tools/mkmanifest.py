#!/usr/bin/env python3
"""Regenerates /verif/MANIFEST.json from the table below (kept by hand)."""
import json
import os

VERIF = os.path.dirname(os.path.dirname(os.path.abspath(__file__)))

CHECKS = {
 "C01": ("Lean theorems: the recursion table of the code equals the Gaussian integral for all indices (momTab_eq; table_entry_eq_integral over Mathlib's Lebesgue integral), unit normalisation of Cartesian components; the compiled model is compared with overlap_integral / overlap_integral_asymmetric / Overlap.construct_array_contraction entry by entry within the property's tolerance (1e-8) on every pair of angular momenta 0..5, both coordinate types, union-block relation",
         "3-D product, contraction and assembly are executed by the model in the correspondence but the lift of the 1-D theorem to the contracted 3-D block is not yet a theorem; float rounding of the implementation is observed, not proved",
         "Lean 4 proof (model table = integral) + translator-checked tables + differential correspondence model vs code"),
 "C02": ("Lean theorems: the padded derivative table equals the integral of a Gaussian against the k-th (iterated) derivative of the other for all k <= d_max, i <= a_max (diffTab_eq, table_entry_eq_integral), the padding is necessary (diffPlanes_unpadded_ne), second-derivative symmetry; compiled model vs kinetic_energy_integral within 1e-8*sqrt(T_aa T_bb) on every pair of angular momenta 0..5",
         "as C01; the sum over axes and -1/2 factor are executed by the model, not separately proved",
         "Lean 4 proof (derivative table = integral) + differential correspondence"),
 "C07": ("Lean theorems: table = integral for every moment order (no bound), order 0 independent of the origin, binomial origin-shift law (moment_shift); compiled model vs moment_integral for all 125 order triples 0..4, origins on/off/far, transforms; order-0 and shift law also tested on implementation outputs",
         "tolerance for 'to double precision' = 1e-9 x running absolute-value majorant of the element computed by the model",
         "Lean 4 proof + differential correspondence"),
 "C08": ("Lean theorems: first-derivative table = integral, antisymmetry <a|d|b> = -<b|d|a> for all polynomial prefactors (deriv_antisymm, table_swap), conjugate-transpose fill is correct and the plain-transpose fill is wrong (conj_fill_correct, plain_fill_wrong: the repaired defect); compiled model vs momentum_integral / angular_momentum_integral for every ordered pair in every shell ordering, Hermiticity tested",
         "the written-out r x grad products are executed by the model; their antisymmetry is covered by the correspondence of every ordered pair",
         "Lean 4 proof + differential correspondence over all shell orderings"),
 "C03": ("Lean theorems for an arbitrary Boys sequence F: the three vertical passes fill V[m][a] with the Rys-form value on m+|a| < m_max (vertical_table_eq_spec), the three horizontal passes reproduce any family satisfying the transfer relations, in particular contracted ones (horizontal_table_eq_spec, contraction_preserves_transfer), the shell swap is a symmetry of the specification (spec_swap); compiled model (with its own 320-bit Boys function) vs point_charge_integral per charge within 1e-8*sqrt(|V_aa V_bb|) and vs nuclear_electron_attraction_integral, every ordered pair of l 0..5, charges on centres / between / far (Boys arguments 0 .. > 1e4)",
         "the identity Rys/Boys form = Coulomb integral (Gaussian transform of 1/r, Fubini) is specification, not theorem; scipy.hyp1f1 is covered only through the correspondence; block-level composition of the three table theorems with contraction/selection is executed, not yet a single theorem",
         "Lean 4 proof (OS vertical + HGP horizontal = Rys spec) + differential correspondence"),
 "C04": ("Lean theorems for an arbitrary Boys sequence: two-electron vertical table = Rys form (vertical_table_eq_spec), electron-transfer table = two-variable Gaussian (Wick) Rys form on |a|+|c| < m_max (etransfer_table_eq_spec, from the consistency of the Wick recursion), horizontal passes shared with C03, physicists' = middle-index swap; compiled model vs ElectronRepulsionIntegral.construct_array_contraction on all 256 l-tuples 0..3 (thorough; 26 in quick) and whole-basis calls in both notations within 1e-6*sqrt((ab|ab)(cd|cd)); ill-conditioned tight-bra/diffuse-ket quartets are reported as the recorded finding F10",
         "Rys form = Coulomb integral is specification (trusted base); float rounding amplification in the implementation (finding F10) is visible only to the correspondence",
         "Lean 4 proof (vertical, electron transfer = Rys/Wick spec) + differential correspondence + known-finding matching"),
 "C05": ("Lean theorems: the general back-end equals the n-th iterated derivative of x^a e^{-ax^2} for all a, n, x (twisted Leibniz rule, Hermite recurrence), the direct back-end agrees with it for orders <= 2 on every component of a full shell, the dispatcher accepts 'direct' iff all orders <= 2 and rejects unknown names, and the order-3 counter-example of the repaired defect; compiled model of both back-ends vs evaluate_basis / evaluate_deriv_basis for all 125 order triples, points on centres and coordinate planes; rejection behaviour compared as an enum",
         "scipy eval_hermite/comb/perm covered through the correspondence only",
         "Lean 4 proof + differential correspondence incl. error behaviour"),
 "C10": ("Kernel-checked complete tables for l <= 10 (decide +kernel): every generated function is a homogeneous harmonic polynomial (genuine MvPolynomial Laplacian via laplacian_sound), rows are orthonormal in the metric of unit-normalised Cartesians for every accepted order/sign convention, cosine/sine partners are f*Re(x+iy)^m, f*Im(x+iy)^m with the same f positive at the pole, label validation = permutation of the canonical labels with one optional leading '-'; default orders extracted from the source by the translator and compared with the model's by decide; compiled model vs generate_transformation for all l <= 10, Cartesian permutations, order/sign patterns, malformed labels",
         "quantifier is finite and enumerated completely; numpy float evaluation of the closed-form coefficients compared at 1e-13 relative",
         "Lean 4 proof by complete kernel enumeration + translator + differential correspondence"),
}

NOT_APPLICABLE = {}

PENDING = ["C06", "C09", "C11", "C12", "C13", "C14", "C15", "C16", "C17", "C18", "C19", "C20"]


def main():
    man = {
        "version": 1,
        "setup_cmd": "/venv/bin/python harness/setup.py",
        "hooks": {"guard": "GBASIS_VERIF",
                  "enable": "no source hooks are needed: the harness subclasses the public classes and replaces module attributes in-process",
                  "baseline_off_cmd": "cd /repo && /venv/bin/python -m pytest -ra -q -p no:cacheprovider --timeout=900 --continue-on-collection-errors",
                  "source_commits": [], "add_only": True},
        "engines": [{"name": "lean-proof+correspondence", "path": "harness/check.py",
                     "serves_properties": sorted(CHECKS),
                     "kind_free_text": "Lean 4 theorems about a code-shaped executable model (lean/GBModel, proofs in lean/GBProofs) + translators (harness/gbv/tr_*.py -> lean/GBExtracted, obligations in lean/GBProofs/Obl) + differential correspondence of the compiled model (gbmodel, 320-bit dyadic arithmetic) with the public API of /repo"}],
        "checks": [],
        "not_applicable": [{"property_id": k, "reason": v} for k, v in sorted(NOT_APPLICABLE.items())]
                          + [{"property_id": k, "reason": "check under construction in this round (model exists or is being built; not yet claimed)"} for k in PENDING if k not in CHECKS],
        "notes": "DESIGN.md explains the approach; known_findings.json lists recorded and repaired defects.",
    }
    for pid in sorted(CHECKS):
        text, note, tech = CHECKS[pid]
        man["checks"].append({
            "property_id": pid,
            "quick_cmd": f"/venv/bin/python harness/check.py {pid} --tier quick",
            "thorough_cmd": f"/venv/bin/python harness/check.py {pid} --tier thorough",
            "evidence_file": f"evidence/{pid}.json",
            "replay_cmd_template": f"/venv/bin/python harness/check.py {pid} --replay {{path}}",
            "engine": "lean-proof+correspondence",
            "level_claimed": {"category": "proof", "text": text, "design_ref": f"DESIGN.md section 4, {pid}"},
            "level_note": "trusted: Lean kernel + propext/Classical.choice/Quot.sound (audited each run), Mathlib; " + note,
            "technique": tech,
        })
    with open(os.path.join(VERIF, "MANIFEST.json"), "w") as fh:
        json.dump(man, fh, indent=1)


if __name__ == "__main__":
    main()
