#!/bin/bash
# usage: confirm_seed.sh <mut worktree dir>   — confirms the demonstration: fails with the change, passes without
set -u
W=$1
cd $W || exit 2
echo "--- with change:"; PYTHONPATH=$W /venv/bin/python _seed/demo.py > /tmp/demo_with.out 2>&1; A=$?; tail -3 /tmp/demo_with.out; echo "exit=$A"
git stash -q -- gbasis
echo "--- without change:"; PYTHONPATH=$W /venv/bin/python _seed/demo.py > /tmp/demo_without.out 2>&1; B=$?; tail -2 /tmp/demo_without.out; echo "exit=$B"
git stash pop -q
git diff --stat -- gbasis | tail -1
[ $A -eq 1 ] && [ $B -eq 0 ] && echo CONFIRMED || echo NOT-CONFIRMED
