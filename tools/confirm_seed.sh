#!/bin/bash
# usage: confirm_seed.sh <mut worktree dir>   — confirms the demonstration: fails with the change, passes without
# (the change is taken out with `git apply -R` — the stash is shared between worktrees — and put back afterwards)
set -u
W=$1
cd $W || exit 2
git diff -- gbasis > _seed/.current.diff
echo "--- with change:"; PYTHONPATH=$W /venv/bin/python _seed/demo.py > _seed/.demo_with.out 2>&1; A=$?; tail -3 _seed/.demo_with.out; echo "exit=$A"
git apply -R _seed/.current.diff || { echo NOT-CONFIRMED; exit 2; }
echo "--- without change:"; PYTHONPATH=$W /venv/bin/python _seed/demo.py > _seed/.demo_without.out 2>&1; B=$?; tail -2 _seed/.demo_without.out; echo "exit=$B"
git apply _seed/.current.diff
git diff --stat -- gbasis | tail -1
cmp -s <(git diff -- gbasis) _seed/patch.diff || echo "note: patch.diff differs from the worktree diff"
[ $A -eq 1 ] && [ $B -eq 0 ] && echo CONFIRMED || echo NOT-CONFIRMED
