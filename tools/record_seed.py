#!/usr/bin/env python3
"""usage: record_seed.py <name> <mut worktree> <property ids to run...>
Confirms the demonstration (fails with the change, passes without), runs the given checks (quick tier) against the
change in a scratch worktree, and stores patch.diff, demo.py, meta.json under /verif/seeded/<name>/."""
import json
import os
import shutil
import subprocess
import sys

VERIF = os.path.dirname(os.path.dirname(os.path.abspath(__file__)))
name, wt, pids = sys.argv[1], sys.argv[2], sys.argv[3:]
conf = subprocess.run([os.path.join(VERIF, "tools", "confirm_seed.sh"), wt], stdout=subprocess.PIPE, stderr=subprocess.STDOUT, text=True).stdout
confirmed = "CONFIRMED" in conf and "NOT-CONFIRMED" not in conf
print(conf.strip().splitlines()[-1])
out = subprocess.run([os.path.join(VERIF, "tools", "try_seed.py"), os.path.join(wt, "_seed", "patch.diff")] + pids,
                     stdout=subprocess.PIPE, stderr=subprocess.STDOUT, text=True).stdout
print(out)
res = {}
for line in out.splitlines():
    for pid in pids:
        if line.startswith(pid + ": "):
            res[pid] = line.split(": ", 1)[1].strip()
dst = os.path.join(VERIF, "seeded", name)
os.makedirs(dst, exist_ok=True)
for f in ("patch.diff", "demo.py"):
    shutil.copy(os.path.join(wt, "_seed", f), os.path.join(dst, f))
meta = json.load(open(os.path.join(wt, "_seed", "meta.json")))
meta["demonstration_confirmed"] = confirmed
meta["what_was_run"] = ("tools/confirm_seed.sh (demo.py exits 1 with the change, 0 without); the author ran the full pytest suite with the change "
                        "(192 passed); tools/try_seed.py patch.diff " + " ".join(pids) + " (quick tier, scratch worktree, GBASIS_REPO)")
meta["checks"] = res
json.dump(meta, open(os.path.join(dst, "meta.json"), "w"), indent=1)
print("recorded", dst, res)
