import GBModel.Num
import GBModel.Gauss1D
import GBModel.Shell
import GBModel.Spherical
import GBModel.Assemble
import GBModel.Eval
import GBModel.OneElec
import GBModel.TwoElec
