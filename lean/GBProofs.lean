import GBProofs.Basic
import GBProofs.RealInst
import GBProofs.GaussFunctional
import GBProofs.GaussIntegral
import GBProofs.MomTab
import GBProofs.Obl.Tables
import GBProofs.Props.C01
