import GBModel.OneElec
/-!
# Electron-repulsion integrals

Model of `gbasis/integrals/_two_elec_int.py`:
`_compute_two_elec_integrals_angmom_zero` (closed form for four s shells) and
`_compute_two_elec_integrals` (Obara–Saika vertical recursion on `a`, electron-transfer recursion
to `c`, contraction, horizontal recursions `c → d` and `a → b`, component selection, angular norms),
and of `ElectronRepulsionIntegral.construct_array_contraction` (the dispatch between the two and the
final axis order `(M_a, L_a, M_b, L_b, M_c, L_c, M_d, L_d)`, chemists' notation `(ab|cd)`).
-/
namespace GB
variable {K : Type}

section
variable [Num K]

/-- vertical step of the two-electron recursion: `w = ρ/p`, `WQ = (ρ/p)·(P-Q)_u`, `h = 1/(2p)`:
`new[m] = PA·cur[m] − WQ·cur[m+1] + a·h·(prev[m] − w·prev[m+1])`, `m = mMax-1` left untouched -/
def vertStep2 (PA WQ h w : K) (mMax a : Nat) (cur prev curU prevU : K) (m : Nat) : K :=
  if m + 1 < mMax then PA * cur - WQ * curU + Num.nat a * h * (prev - w * prevU) else Num.nat 0

/-- `integrals_vert[m, ax, ay, az]` as `[az][ay][ax][m]`, materialised for `m + ax + ay + az < mMax` -/
def vert2 (PA WQ : Nat → K) (h w : K) (mMax : Nat) (base : Nat → K) : Tab4 K :=
  let vx : Tab (Tab K) :=
    rows2 mMax (tab mMax base) (tab 0 fun _ => Num.nat 0) fun a cur prev =>
      tab (mMax - (a + 1)) fun m =>
        vertStep2 (PA 0) (WQ 0) h w mMax a (cur.get m) (prev.get m) (cur.get (m+1)) (prev.get (m+1)) m
  let vxy : Tab (Tab (Tab K)) :=
    rows2 mMax vx (tab 0 fun _ => tab 0 fun _ => Num.nat 0) fun a cur prev =>
      tab (mMax - (a + 1)) fun ax => tab (mMax - (a + 1) - ax) fun m =>
        vertStep2 (PA 1) (WQ 1) h w mMax a (cur.get2 ax m) (prev.get2 ax m) (cur.get2 ax (m+1))
          (prev.get2 ax (m+1)) m
  rows2 mMax vxy (tab 0 fun _ => tab 0 fun _ => tab 0 fun _ => Num.nat 0) fun a cur prev =>
    tab (mMax - (a + 1)) fun ay => tab (mMax - (a + 1) - ay) fun ax =>
      tab (mMax - (a + 1) - ay - ax) fun m =>
        vertStep2 (PA 2) (WQ 2) h w mMax a (cur.get3 ay ax m) (prev.get3 ay ax m)
          (cur.get3 ay ax (m+1)) (prev.get3 ay ax (m+1)) m

/-- electron-transfer step along one axis: `f1 = (Q-C)_u + (p/q)(P-A)_u`, `f2 = p/q`, `h2 = 1/(2q)`:
`new[a] = f1·cur[a] + a·h2·cur[a-1] + c·h2·prev[a] − f2·cur[a+1]`; the last index `a = mMax-1`
is left untouched (zero) -/
def etStep (f1 f2 h2 : K) (mMax c a : Nat) (cur curD curU prev : K) : K :=
  if a + 1 < mMax then f1 * cur + Num.nat a * h2 * curD + Num.nat c * h2 * prev - f2 * curU
  else Num.nat 0

/-- `integrals_etransf[cx, cy, cz, ax, ay, az]` as `[cz][cy][cx][ax][ay][az]`, from
`v0[ax][ay][az]` (= `integrals_vert[0]`); materialised where `|a| + |c| < mMax`, `|c| ≤ lcd` -/
def etransf (f1 : Nat → K) (f2 h2 : K) (mMax lcd : Nat) (v0 : Tab3 K) : Tab3 (Tab3 K) :=
  let z3 : Tab3 K := tab 0 fun _ => tab 0 fun _ => tab 0 fun _ => Num.nat 0
  -- x: [cx][ax][ay][az]
  let ex : Tab (Tab3 K) := rows2 (lcd + 1) v0 z3 fun c cur prev =>
    tab (mMax - (c + 1)) fun ax => tab (mMax - (c + 1) - ax) fun ay => tab (mMax - (c + 1) - ax - ay) fun az =>
      etStep (f1 0) f2 h2 mMax c ax (cur.get3 ax ay az) (cur.get3 (ax-1) ay az) (cur.get3 (ax+1) ay az)
        (prev.get3 ax ay az)
  -- y: [cy][cx][ax][ay][az]
  let ey : Tab (Tab (Tab3 K)) := rows2 (lcd + 1) ex (tab 0 fun _ => z3) fun c cur prev =>
    tab (lcd + 1 - (c + 1)) fun cx =>
      let r := mMax - (c + 1) - cx
      tab r fun ax => tab (r - ax) fun ay => tab (r - ax - ay) fun az =>
        etStep (f1 1) f2 h2 mMax c ay ((cur.get cx).get3 ax ay az) ((cur.get cx).get3 ax (ay-1) az)
          ((cur.get cx).get3 ax (ay+1) az) ((prev.get cx).get3 ax ay az)
  -- z: [cz][cy][cx][ax][ay][az]
  rows2 (lcd + 1) ey (tab 0 fun _ => tab 0 fun _ => z3) fun c cur prev =>
    tab (lcd + 1 - (c + 1)) fun cy => tab (lcd + 1 - (c + 1) - cy) fun cx =>
      let r := mMax - (c + 1) - cy - cx
      tab r fun ax => tab (r - ax) fun ay => tab (r - ax - ay) fun az =>
        etStep (f1 2) f2 h2 mMax c az ((cur.get2 cy cx).get3 ax ay az) ((cur.get2 cy cx).get3 ax ay (az-1))
          ((cur.get2 cy cx).get3 ax ay (az+1)) ((prev.get2 cy cx).get3 ax ay az)

end

section
variable [Transc K]

abbrev Tab8 (K : Type) := Tab4 (Tab4 K)

def Tab.get8 (t : Tab8 K) (a b c d e f g h : Nat) : K := (t.get4 a b c d).get4 e f g h

/-- prefactor and Boys argument of a primitive quartet; returns `(pref, T)` -/
def eriBase (a b c d : K) (A B C D : Nat → K) : K × K :=
  let p := a + b
  let q := c + d
  let ρ := p * q / (p + q)
  let ab2 := sumN 3 fun i => (A i - B i) * (A i - B i)
  let cd2 := sumN 3 fun i => (C i - D i) * (C i - D i)
  let pq2 := sumN 3 fun i =>
    ((a * A i + b * B i) / p - (c * C i + d * D i) / q) * ((a * A i + b * B i) / p - (c * C i + d * D i) / q)
  (Num.nat 2 * (Transc.pi * Transc.pi * Transc.sqrt Transc.pi) / (p * q * Transc.sqrt (p + q))
      * Transc.exp (-(a * b / p * ab2)) * Transc.exp (-(c * d / q * cd2)), ρ * pq2)

/-- `_compute_two_elec_integrals_angmom_zero`: `[ma][mb][mc][md]` for four s shells -/
def eriSSSS (boys : K → Nat → Tab K) (sa sb sc sd : Shell K) : Tab4 K :=
  let na : Tab K := tab sa.nprim fun k => normRad (sa.exp! k) 0
  let nb : Tab K := tab sb.nprim fun k => normRad (sb.exp! k) 0
  let nc : Tab K := tab sc.nprim fun k => normRad (sc.exp! k) 0
  let nd : Tab K := tab sd.nprim fun k => normRad (sd.exp! k) 0
  let prim : Tab4 K := tab4 sa.nprim sb.nprim sc.nprim sd.nprim fun ka kb kc kd =>
    let e := eriBase (sa.exp! ka) (sb.exp! kb) (sc.exp! kc) (sd.exp! kd) sa.ctr sb.ctr sc.ctr sd.ctr
    e.1 * (boys e.2 1).get 0
  tab4 sa.nseg sb.nseg sc.nseg sd.nseg fun ma mb mc md =>
    sumN sa.nprim fun ka => sumN sb.nprim fun kb => sumN sc.nprim fun kc => sumN sd.nprim fun kd =>
      prim.get4 ka kb kc kd * (na.get ka * sa.coef! ka ma) * (nc.get kc * sc.coef! kc mc)
        * (nb.get kb * sb.coef! kb mb) * (nd.get kd * sd.coef! kd md)

/-- `_compute_two_elec_integrals` followed by the final transposition of
`construct_array_contraction`: `[ma][ca][mb][cb][mc][cc][md][cd]` -/
def eriGeneral (boys : K → Nat → Tab K) (sa sb sc sd : Shell K) : Tab8 K :=
  let la := sa.l; let lb := sb.l; let lc := sc.l; let ld := sd.l
  let mMax := la + lb + lc + ld + 1
  let mMaxA := la + lb + 1
  let mMaxC := lc + ld + 1
  let lab := la + lb
  let lcd := lc + ld
  -- primitive quartets: electron-transferred integrals [cz][cy][cx][ax][ay][az]
  let prim : Tab4 (Tab3 (Tab3 K)) := tab4 sa.nprim sb.nprim sc.nprim sd.nprim fun ka kb kc kd =>
    let a := sa.exp! ka; let b := sb.exp! kb; let c := sc.exp! kc; let d := sd.exp! kd
    let p := a + b
    let q := c + d
    let ρ := p * q / (p + q)
    let P : Nat → K := fun i => (a * sa.ctr i + b * sb.ctr i) / p
    let Q : Nat → K := fun i => (c * sc.ctr i + d * sd.ctr i) / q
    let PA : Nat → K := fun i => P i - sa.ctr i
    let QC : Nat → K := fun i => Q i - sc.ctr i
    let w := ρ / p
    let WQ : Nat → K := fun i => w * (P i - Q i)
    let e := eriBase a b c d sa.ctr sb.ctr sc.ctr sd.ctr
    let F := boys e.2 mMax
    let v := vert2 PA WQ (Num.nat 1 / (Num.nat 2 * p)) w mMax (fun m => e.1 * F.get m)
    let v0 : Tab3 K := tab mMax fun ax => tab (mMax - ax) fun ay => tab (mMax - ax - ay) fun az =>
      v.get4 az ay ax 0
    etransf (fun i => QC i + p / q * PA i) (p / q) (Num.nat 1 / (Num.nat 2 * q)) mMax lcd v0
  let ra : Tab K := tab sa.nprim fun k => normRad (sa.exp! k) la
  let rb : Tab K := tab sb.nprim fun k => normRad (sb.exp! k) lb
  let rc : Tab K := tab sc.nprim fun k => normRad (sc.exp! k) lc
  let rd : Tab K := tab sd.nprim fun k => normRad (sd.exp! k) ld
  -- contraction, in the order of the code (a, c, b, d); kept where |c| ≤ lcd, |a| ≤ lab
  let cont : Tab3 (Tab3 (Tab4 K)) :=
    tab (lcd + 1) fun cz => tab (lcd + 1 - cz) fun cy => tab (lcd + 1 - cz - cy) fun cx =>
      tab (lab + 1) fun ax => tab (lab + 1 - ax) fun ay => tab (lab + 1 - ax - ay) fun az =>
        let s1 : Tab4 K := tab4 sb.nprim sc.nprim sd.nprim sa.nseg fun kb kc kd ma =>
          sumN sa.nprim fun ka =>
            ((prim.get4 ka kb kc kd).get3 cz cy cx).get3 ax ay az * ra.get ka * sa.coef! ka ma
        let s2 : Tab4 K := tab4 sb.nprim sd.nprim sa.nseg sc.nseg fun kb kd ma mc =>
          sumN sc.nprim fun kc => s1.get4 kb kc kd ma * rc.get kc * sc.coef! kc mc
        let s3 : Tab4 K := tab4 sd.nprim sa.nseg sc.nseg sb.nseg fun kd ma mc mb =>
          sumN sb.nprim fun kb => s2.get4 kb kd ma mc * rb.get kb * sb.coef! kb mb
        tab4 sa.nseg sb.nseg sc.nseg sd.nseg fun ma mb mc md =>
          sumN sd.nprim fun kd => s3.get4 kd ma mc mb * rd.get kd * sd.coef! kd md
  let CD : Nat → K := fun i => sc.ctr i - sd.ctr i
  let AB : Nat → K := fun i => sa.ctr i - sb.ctr i
  -- horizontal recursion c → d for every segment quadruple and every (ax, ay, az):
  -- hd[ma][mb][mc][md][ax][ay][az] = [cc][cd]
  let hd : Tab4 (Tab3 (Tab (Tab K))) := tab4 sa.nseg sb.nseg sc.nseg sd.nseg fun ma mb mc md =>
    tab (lab + 1) fun ax => tab (lab + 1 - ax) fun ay => tab (lab + 1 - ax - ay) fun az =>
      let h0 : Tab3 K := tab3 mMaxC mMaxC mMaxC fun cx cy cz =>
        if cx + cy + cz < mMaxC then (((cont.get3 cz cy cx).get3 ax ay az).get4 ma mb mc md) else Num.nat 0
      let H := horiz3 CD mMaxC ld lc h0
      tab2 sc.ncart sd.ncart fun cc cd =>
        let c := sc.comp! cc
        let d := sd.comp! cd
        (H.get3 d.2.2 d.2.1 d.1).get3 c.1 c.2.1 c.2.2
  -- horizontal recursion a → b for every segment quadruple and every (cc, cd)
  let hb : Tab4 (Tab (Tab (Tab (Tab K)))) := tab4 sa.nseg sb.nseg sc.nseg sd.nseg fun ma mb mc md =>
    tab2 sc.ncart sd.ncart fun cc cd =>
      let h0 : Tab3 K := tab3 mMaxA mMaxA mMaxA fun ax ay az =>
        if ax + ay + az < mMaxA then (((hd.get4 ma mb mc md).get3 ax ay az).get2 cc cd) else Num.nat 0
      let H := horiz3 AB mMaxA lb la h0
      tab2 sa.ncart sb.ncart fun ca cb =>
        let a := sa.comp! ca
        let b := sb.comp! cb
        (H.get3 b.2.2 b.2.1 b.1).get3 a.1 a.2.1 a.2.2
  let nA : Tab K := tab sa.ncart fun c => normAng (sa.comp! c)
  let nB : Tab K := tab sb.ncart fun c => normAng (sb.comp! c)
  let nC : Tab K := tab sc.ncart fun c => normAng (sc.comp! c)
  let nD : Tab K := tab sd.ncart fun c => normAng (sd.comp! c)
  tab4 sa.nseg sa.ncart sb.nseg sb.ncart fun ma ca mb cb =>
    tab4 sc.nseg sc.ncart sd.nseg sd.ncart fun mc cc md cd =>
      (((hb.get4 ma mb mc md).get2 cc cd).get2 ca cb) * nA.get ca * nB.get cb * nC.get cc * nD.get cd

/-- `ElectronRepulsionIntegral.construct_array_contraction` (chemists' notation) -/
def eriBlock (boys : K → Nat → Tab K) (sa sb sc sd : Shell K) : Tab8 K :=
  if sa.l == 0 && sb.l == 0 && sc.l == 0 && sd.l == 0 then
    let t := eriSSSS boys sa sb sc sd
    tab4 sa.nseg 1 sb.nseg 1 fun ma _ mb _ => tab4 sc.nseg 1 sd.nseg 1 fun mc _ md _ => t.get4 ma mb mc md
  else eriGeneral boys sa sb sc sd

/-- apply the weights (norm_cont and, for spherical shells, the transformation) of one shell to the
index pair `(m, a)` of a table `f m a`; result indexed `(m, function)` -/
def applyW (s : Shell K) (w : Tab3 K) (f : Nat → Nat → K) (m g : Nat) : K :=
  if s.sph then sumN s.ncart fun a => w.get3 m g a * f m a else w.get3 m g g * f m g

/-- weight tables of all shells of a basis -/
def Basis.weightTabs (b : Basis K) : Tab (Tab3 K) := tab b.size fun i => match b[i]? with
  | some s => s.weights
  | none => tab3 0 0 0 fun _ _ _ => Num.nat 0

/-- normalised and transformed block of one quartet of shells (the four index pairs are staged one after
the other): indices `[ma][fa][mb][fb][mc][fc][md][fd]` -/
def wBlock4 (sa sb sc sd : Shell K) (wa wb wc wd : Tab3 K) (raw : Tab8 K) : Tab8 K :=
  let t1 : Tab8 K := tab4 sa.nseg sa.nfun sb.nseg sb.ncart fun ma fa mb cb =>
    tab4 sc.nseg sc.ncart sd.nseg sd.ncart fun mc cc md cd =>
      applyW sa wa (fun m a => raw.get8 m a mb cb mc cc md cd) ma fa
  let t2 : Tab8 K := tab4 sa.nseg sa.nfun sb.nseg sb.nfun fun ma fa mb fb =>
    tab4 sc.nseg sc.ncart sd.nseg sd.ncart fun mc cc md cd =>
      applyW sb wb (fun m a => t1.get8 ma fa m a mc cc md cd) mb fb
  let t3 : Tab8 K := tab4 sa.nseg sa.nfun sb.nseg sb.nfun fun ma fa mb fb =>
    tab4 sc.nseg sc.nfun sd.nseg sd.ncart fun mc fc md cd =>
      applyW sc wc (fun m a => t2.get8 ma fa mb fb m a md cd) mc fc
  tab4 sa.nseg sa.nfun sb.nseg sb.nfun fun ma fa mb fb =>
    tab4 sc.nseg sc.nfun sd.nseg sd.nfun fun mc fc md fd =>
      applyW sd wd (fun m a => t3.get8 ma fa mb fb mc fc m a) md fd

/-- normalised and transformed blocks of all quartets of shells: `[i][j][k][l]` -/
def quartetBlocks (b1 b2 b3 b4 : Basis K) (blk : Nat → Nat → Nat → Nat → Tab8 K) :
    Tab (Tab (Tab (Tab (Tab8 K)))) :=
  let w1 := b1.weightTabs; let w2 := b2.weightTabs; let w3 := b3.weightTabs; let w4 := b4.weightTabs
  tab4 b1.size b2.size b3.size b4.size fun i j k l =>
    wBlock4 (b1.getD i default) (b2.getD j default) (b3.getD k default) (b4.getD l default)
      (w1.get i) (w2.get j) (w3.get k) (w4.get l) (blk i j k l)

/-- entry `(r1, r2, r3, r4)` of a four-index array: index `r1` is function `f` of segment `m` of shell `i` of
`b1` (`Basis.locate`), and likewise for the other three -/
def entry4 (b1 b2 b3 b4 : Basis K) (qb : Tab (Tab (Tab (Tab (Tab8 K))))) (r1 r2 r3 r4 : Nat) : K :=
  let l1 := b1.locate r1; let l2 := b2.locate r2; let l3 := b3.locate r3; let l4 := b4.locate r4
  (qb.get4 l1.1 l2.1 l3.1 l4.1).get8 l1.2.1 l1.2.2 l2.2.1 l2.2.2 l3.2.1 l3.2.2 l4.2.1 l4.2.2

/-- four-index array over basis functions, chemists' order `(ab|cd)`, row-major `[i][j][k][l]`,
index `i` running over the functions of `b1`, `j` over `b2`, `k` over `b3`, `l` over `b4`;
every quartet of shells is computed in the orientation in which it appears -/
def assemble4g (b1 b2 b3 b4 : Basis K) (blk : Nat → Nat → Nat → Nat → Tab8 K) : Array K :=
  let qb := quartetBlocks b1 b2 b3 b4 blk
  let n2 := b2.total; let n3 := b3.total; let n4 := b4.total
  Array.ofFn (n := b1.total * n2 * n3 * n4) fun idx =>
    entry4 b1 b2 b3 b4 qb (idx.val / (n2 * n3 * n4)) (idx.val / (n3 * n4) % n2) (idx.val / n4 % n3)
      (idx.val % n4)

def assemble4 (b : Basis K) (blk : Nat → Nat → Nat → Nat → Tab8 K) : Array K :=
  assemble4g b b b b blk

end
end GB
