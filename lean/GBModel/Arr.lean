import GBModel.Num
/-!
# Arrays, the NumPy operations of the assembly code, and a symbolic axis calculus

The four base classes (`base_one.py`, `base_two_symm.py`, `base_two_asymm.py`, `base_four_symm.py`)
turn a shell block `(M₁, L₁, M₂, L₂, …)` into a block over basis functions by a straight-line
sequence of `*=` (normalisation), `np.tensordot` (Cartesian → spherical), `np.swapaxes`,
`np.concatenate(·, axis=0)` and `reshape`.  `ArrOp` is that instruction set; `ArrOp.apply` its
index-wise meaning on concrete arrays (functions of a multi-index); `symStep` the same on symbolic
shapes, where an axis is the row-major list of the atomic labels merged into it.  The translator
(`harness/gbv/tr_pipelines.py`) extracts one `List ArrOp` per pipeline from the source.
-/
namespace GB

/-- an array: dimensions and entries (meaningful for in-range multi-indices of the right length) -/
structure Arr (α : Type) where
  dims : List Nat
  get : List Nat → α

inductive ArrOp
  /-- `np.swapaxes(a, i, j)` -/
  | swap (i j : Nat)
  /-- `np.concatenate(a, axis=0)` of an ndarray: fuses axes 0 and 1 (row-major) -/
  | merge0
  /-- `np.tensordot(T_t, a, (1, k))`: contracts the column index of matrix number `t` with axis `k`;
  the row index of `T_t` becomes the new first axis -/
  | tdot (t k : Nat)
  /-- `a *= norm_n.reshape(1, …, M, L, 1, …)`: multiplies by `norm_n[i_pos, i_{pos+1}]` -/
  | scale (n pos : Nat)
  /-- `a.reshape(s₀·s₁, s₂·s₃, …, rest)`: fuses `npairs` consecutive pairs of axes -/
  | fusePairs (npairs : Nat)
deriving DecidableEq, Repr

def swapL {β : Type} (l : List β) (i j : Nat) : List β :=
  match l[i]?, l[j]? with
  | some a, some b => (l.set i b).set j a
  | _, _ => l

def insertAt {β : Type} (l : List β) (k : Nat) (x : β) : List β := l.take k ++ x :: l.drop k

variable {α : Type} [Num α]

/-- index-wise meaning of one operation; `mats t` are the matrices (`[row, col]`), `norms n` the
normalisation tables (`[m, c]`) -/
def ArrOp.apply (mats norms : Nat → Arr α) : ArrOp → Arr α → Arr α
  | .swap i j, a => { dims := swapL a.dims i j, get := fun ix => a.get (swapL ix i j) }
  | .merge0, a =>
    match a.dims with
    | d0 :: d1 :: ds =>
      { dims := (d0 * d1) :: ds
        get := fun ix => match ix with
          | k :: rest => a.get ((k / d1) :: (k % d1) :: rest)
          | [] => a.get [] }
    | _ => a
  | .tdot t k, a =>
    let T := mats t
    let n := a.dims.getD k 0
    { dims := T.dims.headD 0 :: a.dims.eraseIdx k
      get := fun ix => match ix with
        | r :: rest => sumN n fun c => T.get [r, c] * a.get (insertAt rest k c)
        | [] => a.get [] }
  | .scale n pos, a =>
    { dims := a.dims, get := fun ix => a.get ix * (norms n).get [ix.getD pos 0, ix.getD (pos + 1) 0] }
  | .fusePairs np, a =>
    let rec fuseDims : Nat → List Nat → List Nat
      | 0, ds => ds
      | n+1, d0 :: d1 :: ds => (d0 * d1) :: fuseDims n ds
      | _, ds => ds
    let rec split : Nat → List Nat → List Nat → List Nat
      | 0, _, ix => ix
      | n+1, _ :: d1 :: ds, k :: rest => (k / d1) :: (k % d1) :: split n ds rest
      | _, _, ix => ix
    { dims := fuseDims np a.dims, get := fun ix => a.get (split np a.dims ix) }

def runOps (mats norms : Nat → Arr α) (prog : List ArrOp) (a : Arr α) : Arr α :=
  prog.foldl (fun acc op => op.apply mats norms acc) a

/-! ## symbolic shapes -/

/-- atomic axis labels: axes of the shell block (`seg s`, `cart s` for slot `s`, `extra k` for
trailing axes such as points or moment orders) and spherical indices created by a `tensordot` -/
inductive Label
  | seg (slot : Nat)
  | cart (slot : Nat)
  | sph (slot : Nat)
  | extra (k : Nat)
deriving DecidableEq, Repr

/-- a factor applied so far -/
inductive Factor
  | trans (t : Nat) (new old : Label)     -- T_t[new, old], `old` summed over
  | norm (n : Nat) (m c : Label)          -- norm_n[m, c]
deriving DecidableEq, Repr

/-- symbolic array: each axis is the row-major list of atomic labels fused into it -/
structure Sym where
  axes : List (List Label)
  factors : List Factor
deriving DecidableEq, Repr

/-- the slot a matrix acts on is read off the label it contracts: `T` applied to `cart s` creates `sph s` -/
def symStep : ArrOp → Sym → Option Sym
  | .swap i j, s => if i < s.axes.length ∧ j < s.axes.length then some { s with axes := swapL s.axes i j } else none
  | .merge0, s =>
    match s.axes with
    | a0 :: a1 :: rest => some { s with axes := (a0 ++ a1) :: rest }
    | _ => none
  | .tdot t k, s =>
    match s.axes[k]? with
    | some [Label.cart slot] =>
      some { axes := [Label.sph slot] :: s.axes.eraseIdx k
             factors := s.factors ++ [Factor.trans t (Label.sph slot) (Label.cart slot)] }
    | _ => none
  | .scale n pos, s =>
    match s.axes[pos]?, s.axes[pos + 1]? with
    | some [m], some [c] => some { s with factors := s.factors ++ [Factor.norm n m c] }
    | _, _ => none
  | .fusePairs np, s =>
    let rec go : Nat → List (List Label) → Option (List (List Label))
      | 0, as => some as
      | n+1, a0 :: a1 :: as => (go n as).map fun r => (a0 ++ a1) :: r
      | _, _ => none
    (go np s.axes).map fun ax => { s with axes := ax }

def symEval (prog : List ArrOp) (s : Sym) : Option Sym :=
  prog.foldlM (fun acc op => symStep op acc) s

/-- the shell block of `n` basis slots with `nextra` trailing axes:
`(seg 0, cart 0, seg 1, cart 1, …, extra 0, …)` -/
def startSym (nslots nextra : Nat) : Sym :=
  { axes := ((List.range nslots).flatMap fun s => [[Label.seg s], [Label.cart s]])
             ++ ((List.range nextra).map fun k => [Label.extra k])
    factors := [] }

/-- what C09 demands of a pipeline for slots with coordinate types `sphs` (`true` = spherical):
axis `s` is `(segment, function)` fused segment-major, every slot normalised on `(seg, cart)` and every
spherical slot contracted with its own matrix; the order of the factors is irrelevant -/
def expectedAxes (sphs : List Bool) (nextra : Nat) : List (List Label) :=
  ((List.range sphs.length).map fun s =>
      [Label.seg s, if sphs.getD s false then Label.sph s else Label.cart s])
    ++ ((List.range nextra).map fun k => [Label.extra k])

def expectedFactors (sphs : List Bool) : List Factor :=
  ((List.range sphs.length).map fun s => Factor.norm s (Label.seg s) (Label.cart s))
    ++ ((List.range sphs.length).filterMap fun s =>
      if sphs.getD s false then some (Factor.trans s (Label.sph s) (Label.cart s)) else none)

/-- the check applied to an extracted pipeline: right axes; exactly the expected factors (as a set,
no duplicates); and every normalisation precedes the transformation of the same slot (the norms are
indexed by *Cartesian* components) -/
def pipelineOk (prog : List ArrOp) (sphs : List Bool) (nextra : Nat) : Bool :=
  match symEval prog (startSym sphs.length nextra) with
  | none => false
  | some r =>
    r.axes == expectedAxes sphs nextra
      && r.factors.length == (expectedFactors sphs).length
      && (expectedFactors sphs).all (fun f => r.factors.contains f)
      && (List.range sphs.length).all (fun s =>
          match r.factors.idxOf? (Factor.norm s (Label.seg s) (Label.cart s)),
                r.factors.idxOf? (Factor.trans s (Label.sph s) (Label.cart s)) with
          | some i, some j => i < j
          | _, _ => true)

end GB

namespace GB

/-- `construct_array_lincomb`: starting from the assembled array with one axis per basis slot, every
axis must be contracted exactly once with the transformation meant for it (`matOf s`), and the axes
must end up in their original order -/
def lincombOk (prog : List ArrOp) (nslots : Nat) (matOf : Nat → Nat) : Bool :=
  let start : Sym := { axes := (List.range nslots).map fun s => [Label.cart s], factors := [] }
  match symEval prog start with
  | none => false
  | some r =>
    r.axes == ((List.range nslots).map fun s => [Label.sph s])
      && r.factors.length == nslots
      && (List.range nslots).all fun s => r.factors.contains (Factor.trans (matOf s) (Label.sph s) (Label.cart s))

end GB
