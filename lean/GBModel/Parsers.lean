import GBModel.Num
/-!
# Basis-set import (token-line level)

Models of `gbasis/parsers.py::parse_nwchem`, `parse_gbs`, `make_contractions` and of
`gbasis/wrappers.py::from_pyscf`.  A file is a list of lines, a line the list of its
whitespace-separated tokens; the three regular expressions of the Python code are modelled by
token-level matchers (what they do below the token level — `[ ]+` versus tabs, `\s*` spanning
lines — is covered by the correspondence only).  Numbers stay strings: `normNum` is the code's
`.lower().replace("d", "e")`, the harness compares `float` of both sides.
-/
namespace GB.Parse

abbrev Line := List String

def isWordChar (c : Char) : Bool := c.isAlphanum || c == '_'
def isWord (s : String) : Bool := !s.isEmpty && s.toList.all isWordChar
/-- `[0-9\.DE\+\-]+` -/
def isNumTok (s : String) : Bool :=
  !s.isEmpty && s.toList.all fun c => c.isDigit || c == '.' || c == 'D' || c == 'E' || c == '+' || c == '-'

def normNum (s : String) : String :=
  String.ofList (s.toList.map fun c => let c := c.toLower; if c == 'd' then 'e' else c)

def dictAngmom : List (Char × Nat) :=
  [('s', 0), ('p', 1), ('d', 2), ('f', 3), ('g', 4), ('h', 5), ('i', 6), ('k', 7)]

def angmomOf (c : Char) : Option Nat := (dictAngmom.find? fun p => p.1 == c.toLower).map (·.2)

/-- one shell as the property observes it: angular momentum, exponents, one coefficient column each -/
structure ShellRec where
  l : Nat
  exps : List String
  cols : List (List String)
deriving Repr, BEq, DecidableEq

/-- a data line: at least two tokens, all numeric; gives `(exponent, coefficients)` -/
def dataLine (ln : Line) : Option (String × List String) :=
  match ln with
  | e :: c :: cs => if (e :: c :: cs).all isNumTok then some (normNum e, (c :: cs).map normNum) else none
  | _ => none

/-- transpose rows of coefficients into columns (all rows are expected to have the same length) -/
def columns (rows : List (List String)) : List (List String) :=
  match rows with
  | [] => []
  | r :: _ => (List.range r.length).map fun i => rows.map fun row => row.getD i ""

/-- finish a group of data rows under a header with angular momentum letters `ls` -/
def finishGroup (ls : List Nat) (rows : List (String × List String)) : List ShellRec :=
  let exps := rows.map (·.1)
  let cols := columns (rows.map (·.2))
  match ls with
  | [l] => [⟨l, exps, cols⟩]                                   -- one letter: (generalized) contraction
  | _ => (ls.zipIdx).map fun (l, i) => ⟨l, exps, [cols.getD i []]⟩   -- SP…: column i for letter i

/-- append shells to the entry of `atom` (Python `dict.setdefault(atom, [])` keeps insertion order) -/
def addShells (out : List (String × List ShellRec)) (atom : String) (shs : List ShellRec) :
    List (String × List ShellRec) :=
  if out.any (·.1 == atom) then out.map fun p => if p.1 == atom then (p.1, p.2 ++ shs) else p
  else out ++ [(atom, shs)]

/-! ## NWChem -/

/-- `\n\s*(\w[\w]?)[ ]+(\w+)\s*\n`: a line of exactly two word tokens, the first of length ≤ 2 -/
def headerNw (ln : Line) : Option (String × String) :=
  match ln with
  | [a, b] => if isWord a && a.length ≤ 2 && isWord b then some (a, b) else none
  | _ => none

structure NwState where
  out : List (String × List ShellRec) := []
  cur : Option (String × List Nat) := none        -- element and angular momenta of the open group
  rows : List (String × List String) := []
  prevHeader : Bool := false    -- the newline before this line was consumed by a header match
  bad : Bool := false           -- unknown angular-momentum letter (Python: KeyError)

def NwState.close (s : NwState) : NwState :=
  match s.cur with
  | some (atom, ls) => { s with out := addShells s.out atom (finishGroup ls s.rows.reverse), cur := none, rows := [] }
  | none => s

def nwStep (s : NwState) (ln : Line) : NwState :=
  if ln.isEmpty then s      -- blank lines are swallowed by `\s*`; they do not give back the newline
  else match (if s.prevHeader then none else headerNw ln) with
    | some (atom, letters) =>
      let s := s.close
      match letters.toList.mapM angmomOf with
      | some ls => { s with cur := some (atom, ls), prevHeader := true }
      | none => { s with bad := true, prevHeader := true }
    | none =>
      match dataLine ln with
      | some row => { s with rows := (if s.cur.isSome then row :: s.rows else s.rows), prevHeader := false }
      | none => { s with prevHeader := false }

/-- `parse_nwchem` on the token lines of the file; `none` = the code raises -/
def parseNw (lines : List Line) : Option (List (String × List ShellRec)) :=
  let s := (lines.foldl nwStep {}).close
  if s.bad then none else some s.out

/-! ## Gaussian94 (.gbs) -/

/-- element line `\n\s*(\w[\w]?)\s+\w+\s*\n`: two word tokens, the first of length ≤ 2 -/
def headerGbsElem (ln : Line) : Option String :=
  match ln with
  | [a, b] => if isWord a && a.length ≤ 2 && isWord b then some a else none
  | _ => none

/-- `\w+\.\w+`: word characters, one point, word characters -/
def isPointNumber (s : String) : Bool :=
  let cs := s.toList
  let x := cs.takeWhile (· != '.')
  let r := cs.dropWhile (· != '.')
  match r with
  | '.' :: y => !x.isEmpty && x.all isWordChar && !y.isEmpty && y.all isWordChar
  | _ => false

/-- shell line `(\w+)\s+\w+\s+\w+\.\w+`: letters, number of primitives, scale factor with a point -/
def headerGbsShell (ln : Line) : Option String :=
  match ln with
  | [a, b, c] =>
    if isWord a && isWord b && isPointNumber c then some a else none
  | _ => none

structure GbsState where
  out : List (String × List ShellRec) := []
  atom : Option String := none
  cur : Option (List Nat) := none
  rows : List (String × List String) := []
  prevHeader : Bool := false
  bad : Bool := false

def GbsState.close (s : GbsState) : GbsState :=
  match s.atom, s.cur with
  | some atom, some ls =>
    -- every letter gives one shell with its own column (`coeffs_seg[:, i:i+1]`)
    let exps := s.rows.reverse.map (·.1)
    let cols := columns (s.rows.reverse.map (·.2))
    let shs := (ls.zipIdx).map fun (l, i) => (⟨l, exps, [cols.getD i []]⟩ : ShellRec)
    { s with out := addShells s.out atom shs, cur := none, rows := [] }
  | _, _ => { s with cur := none, rows := [] }

def gbsStep (s : GbsState) (ln : Line) : GbsState :=
  if ln.isEmpty then s
  else match (if s.prevHeader then none else headerGbsElem ln) with
    | some atom =>
      let s := s.close
      { s with atom := some atom, out := addShells s.out atom [], prevHeader := true }
    | none =>
      match headerGbsShell ln with
      | some letters =>
        let s := s.close
        match letters.toList.mapM angmomOf with
        | some ls => { s with cur := (if s.atom.isSome then some ls else none), prevHeader := false }
        | none => { s with bad := s.atom.isSome || s.bad, prevHeader := false }
      | none =>
        match dataLine ln with
        | some row => { s with rows := (if s.cur.isSome then row :: s.rows else s.rows), prevHeader := false }
        | none => { s with prevHeader := false }

/-- `parse_gbs`, observed as the flattened sequence of `(l, exponents, column)` per element (the
merging of consecutive equal-exponent shells into one generalized contraction is invisible here) -/
def parseGbs (lines : List Line) : Option (List (String × List ShellRec)) :=
  let s := (lines.foldl gbsStep {}).close
  if s.bad then none else some s.out

/-- flatten to one record per coefficient column -/
def flatten (shs : List ShellRec) : List ShellRec :=
  shs.flatMap fun s => s.cols.map fun c => ⟨s.l, s.exps, [c]⟩

/-! ## rendering (used by the round-trip theorem and mirrored by the harness) -/

def letterOf (l : Nat) : String := (dictAngmom.find? fun p => p.2 == l).map (fun p => String.singleton p.1.toUpper) |>.getD "?"

/-- a group as written in a file: letters (one, or several for SP-type shells with one column each)
and primitive rows -/
structure Group where
  ls : List Nat
  rows : List (String × List String)

def renderNwGroup (atom : String) (g : Group) : List Line :=
  [atom, String.join (g.ls.map letterOf)] :: g.rows.map fun r => r.1 :: r.2

def renderNw (elems : List (String × List Group)) : List Line :=
  elems.flatMap fun e => e.2.flatMap (renderNwGroup e.1)

def renderGbsGroup (g : Group) : List Line :=
  [String.join (g.ls.map letterOf), toString g.rows.length, "1.00"] :: g.rows.map fun r => r.1 :: r.2

def renderGbs (elems : List (String × List Group)) : List Line :=
  elems.flatMap fun e => [e.1, "0"] :: (e.2.flatMap renderGbsGroup) ++ [["****"]]

/-- what a group denotes -/
def Group.shells (g : Group) : List ShellRec :=
  finishGroup g.ls (g.rows.map fun r => (normNum r.1, r.2.map normNum))

/-! ## `make_contractions` -/

structure MadeShell where
  l : Nat
  atomIndex : Nat          -- row of `coords`, also `icenter`
  exps : List String
  cols : List (List String)
  coordType : String       -- normalised: "cartesian" | "spherical"
deriving Repr, BEq, DecidableEq

def normCoordType (s : String) : Option String :=
  if s == "c" || s == "cartesian" then some "cartesian"
  else if s == "p" || s == "spherical" then some "spherical" else none

/-- `coord_types` is one string or a sequence (list or tuple) with one entry per shell -/
inductive CoordTypes
  | one (s : String)
  | many (l : List String)

/-- `make_contractions(basis_dict, atoms, coords, coord_types)`; `none` = raises -/
def makeContractions (basis : List (String × List ShellRec)) (atoms : List String) (ct : CoordTypes) :
    Option (List MadeShell) :=
  let perAtom := atoms.mapM fun a => (basis.find? (·.1 == a)).map (·.2)
  match perAtom with
  | none => none
  | some shellLists =>
    let total := (shellLists.map List.length).sum
    let types : Option (List String) := match ct with
      | .one s => (normCoordType s).map fun t => List.replicate total t
      | .many l => if l.length == total then l.mapM normCoordType else none
    match types with
    | none => none
    | some ts =>
      let flat := (shellLists.zipIdx).flatMap fun (shs, k) => shs.map fun s => (k, s)
      some ((flat.zip ts).map fun ((k, s), t) => ⟨s.l, k, s.exps, s.cols, t⟩)

end GB.Parse
