import GBModel.Shell
/-!
# Decision logic of `electrostatic_potential` and of overlap screening

Models of the nucleus mask and the density-matrix size check of
`gbasis/evals/electrostatic_potential.py`, and of `is_integral_screened` in
`gbasis/integrals/overlap.py`.  Distances enter squared so that the rules are exact on rationals.
-/
namespace GB

/-! ## electrostatic potential -/

/-- the documented rule: a nucleus is left out for a point iff its distance to the point is
*below* the threshold (`dist < threshold_dist`); `d2` is the squared distance, `t ≥ 0` -/
def espMasked (d2 t : Rat) : Bool := d2 < t * t

/-- the rule of the pinned code (repaired): `Z/d > 1/t`, which for `d, t > 0` is `Z·t > d` -/
def espMaskedOld (Z d t : Rat) : Bool := Z * t > d

/-- nuclear term `Σ_A [not masked] Z_A / d_A` given the distances (all positive) -/
def espNuclear (Zs ds : List Rat) (t : Rat) : Rat :=
  ((Zs.zip ds).map fun (Z, d) => if espMasked (d * d) t then 0 else Z / d).sum

/-- size the density matrix must have: the number of rows of the transformation if one is given,
otherwise the number of basis functions in the shells' own coordinate types -/
def espExpectedSize (shellSizes : List Nat) (transformRows : Option Nat) : Nat :=
  match transformRows with
  | some m => m
  | none => shellSizes.sum

/-- accepted iff square, of the expected size (symmetry is checked separately by the code) -/
def espSizeOk (gammaRows gammaCols : Nat) (shellSizes : List Nat) (transformRows : Option Nat) : Bool :=
  gammaRows == gammaCols && gammaRows == espExpectedSize shellSizes transformRows

/-! ## overlap screening -/

/-- blocks of a screened overlap: `keep i j` says whether the pair is computed; a removed block is a
zero array of the same shape -/
def screenedBlock {K : Type} [Num K] (keep : Bool) (blk : Tab4 K) : Tab4 K :=
  if keep then blk else tab4 0 0 0 0 fun _ _ _ _ => Num.nat 0

end GB
