import GBModel.Assemble
import GBModel.Eval
import GBModel.OneElec
import GBModel.TwoElec
import GBModel.Forms
import GBModel.Parsers
/-!
# Line protocol of the model executable

One request per input line, one reply per output line.  Numbers are exact dyadic
rationals `mantissa:exponent` in both directions.  Replies: `ok <ndims> <dims…> <values…>`
or `err <kind>`.
-/
open GB

abbrev P := StateT (List String) (Except String)

def tok : P String := do
  match (← get) with
  | [] => throw "eof"
  | t :: ts => set ts; pure t

def natTok : P Nat := do
  let t ← tok
  match t.toNat? with
  | some n => pure n
  | none => throw s!"nat expected: {t}"

def bfTok : P BM := do
  let t ← tok
  match BF.parse? t with
  | some x => pure (BM.ofBF x)
  | none => throw s!"number expected: {t}"

def rep {α} (n : Nat) (p : P α) : P (Array α) := do
  let mut out := #[]
  for _ in [0:n] do
    out := out.push (← p)
  return out

def compTok : P Comp := do
  let x ← natTok; let y ← natTok; let z ← natTok
  pure (x, y, z)

def shellTok : P (Shell BM) := do
  let l ← natTok
  let sph ← natTok
  let k ← natTok
  let m ← natTok
  let un ← natTok
  let c ← rep 3 bfTok
  let exps ← rep k bfTok
  let coefs ← rep k (rep m bfTok)
  let ct ← tok
  let cart ← (do
    if ct == "C0" then pure (defaultCart l)
    else match (ct.drop 1).toString.toNat? with
      | some n => do let a ← rep n compTok; pure a.toList
      | none => throw "bad cart order")
  let st ← tok
  let sphOrd ← (do
    if st == "S0" then pure (defaultSph l)
    else match (st.drop 1).toString.toNat? with
      | some n => do
        let labs ← rep n tok
        match validSphOrder l labs.toList with
        | some ls => pure ls
        | none => throw "ValueError"
      | none => throw "bad sph order")
  pure { l := l, ctr := fun i => c.getD i (Num.nat 0), exps := exps, coefs := coefs, sph := sph == 1,
         cart := cart, sphOrd := sphOrd, unitNorm := un == 1 }

def basisTok : P (Basis BM) := do
  let n ← natTok
  rep n shellTok

/-- reply: dims, values, then `|` and the magnitude majorants -/
def fmt (dims : List Nat) (vals : Array BM) : String :=
  let hd := s!"ok {dims.length} " ++ " ".intercalate (dims.map toString)
  let a := vals.foldl (fun acc v => acc ++ " " ++ v.v.toStr) hd
  vals.foldl (fun acc v => acc ++ " " ++ v.g.toStr) (a ++ " |")

def one4 (t : Tab4 BM) : Tab (Tab4 BM) := tab 1 fun _ => t

/-- the Boys function handed to the model -/
def boysBM (T : BM) (n : Nat) : Tab BM :=
  ⟨(BF.boysAll T.v n).map BM.ofBF, fun _ => Num.nat 0⟩

def linesTok : P (List Parse.Line) := do
  let n ← natTok
  let ls ← rep n (do let k ← natTok; let ts ← rep k tok; pure ts.toList)
  pure ls.toList

def fmtParsed (r : Option (List (String × List Parse.ShellRec))) : String :=
  match r with
  | none => "err raises"
  | some out =>
    out.foldl (fun acc e =>
      e.2.foldl (fun acc sh =>
        acc ++ s!" {sh.l} {sh.exps.length} {sh.cols.length} " ++ " ".intercalate sh.exps
          ++ (sh.cols.foldl (fun a c => a ++ " " ++ " ".intercalate c) ""))
        (acc ++ s!" {e.1} {e.2.length}")) s!"ok {out.length}"

def handle : P String := do
  let op ← tok
  match op with
  | "ping" => pure "ok 0"
  | "num" => do  -- numeric self-test: sqrt, exp, pi
    let x ← bfTok
    pure (fmt [3] #[Transc.sqrt x, Transc.exp x, Transc.pi])
  | "overlap" => do
    let b ← basisTok
    let n := b.total
    pure (fmt [n, n] (assemble2 b b 1 fun i j => one4 (overlapBlock b[i]! b[j]!)))
  | "overlap_asym" => do
    let b1 ← basisTok
    let b2 ← basisTok
    pure (fmt [b1.total, b2.total] (assemble2 b1 b2 1 fun i j => one4 (overlapBlock b1[i]! b2[j]!)))
  | "kinetic" => do
    let b ← basisTok
    let n := b.total
    pure (fmt [n, n] (assemble2 b b 1 fun i j => one4 (kineticBlock b[i]! b[j]!)))
  | "moment" => do
    let b ← basisTok
    let o ← rep 3 bfTok
    let nord ← natTok
    let orders ← rep nord compTok
    let n := b.total
    pure (fmt [n, n, nord] (assemble2 b b nord fun i j =>
      momentBlock b[i]! b[j]! (fun ax => o.getD ax (Num.nat 0)) orders.toList))
  | "momentum" => do
    let b ← basisTok
    let n := b.total
    pure (fmt [n, n, 3] (assemble2 b b 3 fun i j => momentumBlock b[i]! b[j]!))
  | "angmom" => do
    let b ← basisTok
    let n := b.total
    pure (fmt [n, n, 3] (assemble2 b b 3 fun i j => angmomBlock b[i]! b[j]!))
  | "evalderiv" => do   -- back-end name, basis, points, orders
    let dt ← tok
    let b ← basisTok
    let np ← natTok
    let pts ← rep np (rep 3 bfTok)
    let o ← compTok
    match dispatch dt o with
    | .error e => pure s!"err {e}"
    | .ok be =>
      let ptf : Array (Nat → BM) := pts.map fun p => fun ax => p.getD ax (Num.nat 0)
      pure (fmt [b.total, np] (assemble1 b np fun i => evalBlock b[i]! be o ptf))
  | "pointcharge" => do   -- basis, points, charges
    let b ← basisTok
    let np ← natTok
    let pts ← rep np (rep 3 bfTok)
    let qs ← rep np bfTok
    let n := b.total
    pure (fmt [n, n, np] (assemble2 b b np fun i j => tab np fun e =>
      pointChargeBlock boysBM b[i]! b[j]! (fun ax => (pts.getD e #[]).getD ax (Num.nat 0)) (qs.getD e (Num.nat 0))))
  | "eri" => do   -- chemists' notation, every quartet computed directly
    let b ← basisTok
    let n := b.total
    pure (fmt [n, n, n, n] (assemble4 b fun i j k l => eriBlock boysBM b[i]! b[j]! b[k]! b[l]!))
  | "eri4" => do   -- (ab|cd) with a ∈ b1, b ∈ b2, c ∈ b3, d ∈ b4
    let b1 ← basisTok
    let b2 ← basisTok
    let b3 ← basisTok
    let b4 ← basisTok
    pure (fmt [b1.total, b2.total, b3.total, b4.total]
      (assemble4g b1 b2 b3 b4 fun i j k l => eriBlock boysBM b1[i]! b2[j]! b3[k]! b4[l]!))
  | "form" => do   -- name, #rationals, rationals (num/den), #naturals, naturals
    let name ← tok
    let nq ← natTok
    let qs ← rep nq (do
      let t ← tok
      match t.splitOn "/" with
      | [a, b] => match a.toInt?, b.toNat? with
        | some a, some b => pure ((a : Rat) / (b : Rat))
        | _, _ => throw "bad rational"
      | _ => throw "bad rational")
    let nn ← natTok
    let ns ← rep nn natTok
    match formOf name qs.toList ns.toList with
    | some f => pure ("ok " ++ f.canon.toStr)
    | none => pure "err unknown-form"
  | "parse_nwchem" => do
    let ls ← linesTok
    pure (fmtParsed ((Parse.parseNw ls).map fun o => o.map fun e => (e.1, Parse.flatten e.2)))
  | "parse_gbs" => do
    let ls ← linesTok
    pure (fmtParsed ((Parse.parseGbs ls).map fun o => o.map fun e => (e.1, Parse.flatten e.2)))
  | "boys" => do   -- T, mMax
    let t ← bfTok
    let mm ← natTok
    pure (fmt [mm] ((BF.boysAll t.v mm).map BM.ofBF))
  | "trans" => do   -- l, Cartesian order, raw labels
    let l ← natTok
    let nc ← natTok
    let cart ← rep nc compTok
    let ns ← natTok
    let labs ← rep ns tok
    match validSphOrder l labs.toList with
    | none => pure "err ValueError"
    | some ls =>
      let vals := ls.toArray.flatMap fun lab => cart.map fun c => (transEntry l lab c : BM)
      pure (fmt [ls.length, nc] vals)
  | "defaults" => do  -- default component orders of angular momentum l
    let l ← natTok
    let c := (defaultCart l).map fun c => s!"{c.1},{c.2.1},{c.2.2}"
    let s := (defaultSph l).map fun x => (if x.negSign then "-" else "") ++ SphLabel.name x.sine x.m
    pure ("ok " ++ " ".intercalate c ++ " | " ++ " ".intercalate s)
  | _ => throw s!"unknown op {op}"

def processLine (line : String) : String :=
  let toks := (line.splitOn " ").filter (· ≠ "")
  match (handle.run toks) with
  | .ok (r, _) => r
  | .error e => s!"err {e}"

partial def loop (hin hout : IO.FS.Stream) : IO Unit := do
  let line ← hin.getLine
  if line.isEmpty then return ()
  let l := line.trimAscii.toString
  if l.isEmpty then loop hin hout else
  hout.putStrLn (processLine l)
  hout.flush
  loop hin hout

def main : IO Unit := do
  loop (← IO.getStdin) (← IO.getStdout)
