import GBModel.Assemble
/-!
# Values and derivatives of contracted Gaussians at points

Models of `gbasis/evals/_deriv.py::_eval_deriv_contractions` (the *general* back-end: Hermite
polynomial expansion for any order) and `_eval_first_second_order_deriv_contractions`
(the *direct* back-end: written-out first and second derivatives), and of the dispatch in
`EvalDeriv.construct_array_contraction`.
-/
namespace GB
variable {K : Type}

section
variable [Num K]

/-- physicists' Hermite polynomial `H_h(y)` (`scipy.special.eval_hermite`) -/
def hermite (y : K) (h : Nat) : K :=
  (lin2 (Num.nat 1) (Num.nat 2 * y)
    (fun n a b => Num.nat 2 * y * b - Num.nat (2 * (n + 1)) * a) h).1

end

section
variable [Transc K]

/-- polynomial-times-Hermite part of `d^n/dx^n (x^a e^{-αx²})` as the general back-end sums it
(`x` is the coordinate relative to the centre):
`Σ_h C(n,h)·perm(a, n-h)·(-√α)^h·x^{max(a-n+h,0)}·H_h(√α x)`, terms with `h < n - a` zeroed. -/
def derivPolyGeneral (α x : K) (a n : Nat) : K :=
  let r := Transc.sqrt α
  sumN (n + 1) fun h =>
    if h + a < n then Num.nat 0
    else Num.nat (choose n h) * Num.nat (perm a (n - h)) * powN (-r) h * powN x (a + h - n)
          * hermite (r * x) h

/-- one axis of the general back-end: order 0 is `x^a e^{-αx²}` -/
def axisGeneral (α x : K) (a n : Nat) : K :=
  let g := Transc.exp (-(α * (x * x)))
  if n = 0 then powN x a * g else g * derivPolyGeneral α x a n

/-- first derivative as written in `_first_derivative` -/
def directFirst (α x : K) (a : Nat) : K :=
  if a = 0 then -(Num.nat 2) * α * x
  else powN x (a - 1) * (Num.nat a - Num.nat 2 * α * (x * x))

/-- second derivative as written in `_second_derivative`.  `has1`, `has2`: whether some component
of the shell has exponent 1 / at least 2 on the *first* twice-differentiated axis — the code looks
only there to decide whether the branches for `a = 1` and `a ≥ 2` are needed at all. -/
def directSecond (α x : K) (a : Nat) (has1 has2 : Bool) : K :=
  let n0 := Num.nat 4 * α * α * (x * x) - Num.nat 2 * α
  if !has1 then n0
  else if a = 1 then Num.nat 4 * α * α * (x * x * x) - Num.nat 6 * α * x
  else if a ≥ 2 && has2 then
    powN x (a - 2) * (Num.nat 4 * α * α * (x * x * x * x) - α * Num.nat (4 * a + 2) * (x * x)
      + Num.nat (a * (a - 1)))
  else n0

/-- one axis of the direct back-end (orders 0, 1, 2; an axis with a larger order is silently left
out of the product by `_eval_first_second_order_deriv_contractions`, which is why the dispatcher
must reject such requests) -/
def axisDirect (α x : K) (a n : Nat) (has1 has2 : Bool) : K :=
  let g := Transc.exp (-(α * (x * x)))
  if n = 0 then powN x a * g
  else if n = 1 then directFirst α x a * g
  else if n = 2 then directSecond α x a has1 has2 * g
  else Num.nat 1

inductive Backend | general | direct
deriving DecidableEq, Repr

/-- dispatch of `EvalDeriv.construct_array_contraction` -/
def dispatch (deriv_type : String) (orders : Comp) : Except String Backend :=
  if deriv_type == "general" then .ok .general
  else if deriv_type == "direct" then
    if orders.1 > 2 || orders.2.1 > 2 || orders.2.2 > 2 then .error "ValueError" else .ok .direct
  else .error "ValueError"

/-- `EvalDeriv.construct_array_contraction`: `[m][c][point]`, un-normalised contraction -/
def evalBlock (s : Shell K) (be : Backend) (orders : Comp) (pts : Array (Nat → K)) : Tab3 K :=
  let na := s.normTab
  -- which twice-differentiated axis comes first, and what the shell has there
  let first2 := if orders.1 = 2 then 0 else if orders.2.1 = 2 then 1 else 2
  let has1 := s.cart.any fun c => c.ax first2 == 1
  let has2 := s.cart.any fun c => c.ax first2 ≥ 2
  -- per primitive, point, axis and exponent a ≤ l: the axis factor
  let ax : Tab (Tab (Tab (Tab K))) := tab4 s.nprim pts.size 3 (s.l + 1) fun k p axis a =>
    let x := (pts.getD p (fun _ => Num.nat 0)) axis - s.ctr axis
    match be with
    | .general => axisGeneral (s.exp! k) x a (orders.ax axis)
    | .direct => axisDirect (s.exp! k) x a (orders.ax axis) has1 has2
  tab3 s.nseg s.ncart pts.size fun m c p =>
    let cc := s.comp! c
    sumN s.nprim fun k =>
      s.coef! k m * (na.get2 k c * (ax.get4 k p 0 cc.1 * ax.get4 k p 1 cc.2.1 * ax.get4 k p 2 cc.2.2))

end
end GB
