/-!
# Purity: effect summaries and the history machine

`Effect` / `Summary` is what the static effect extraction (`harness/gbv/tr_effects.py`) produces for
every function of the library: each mutating statement (augmented assignment, subscript or attribute
store, call of a mutating method, `out=`) with a conservative classification of what it writes to,
and the way the function treats NumPy's process-wide floating-point error state.

The history machine abstracts a Python process: a heap of objects and the error state.  A call of a
catalogued function allocates fresh objects and — only if its summary says so — may overwrite objects
reachable from its arguments or leave the error state changed; it may return or raise.
-/
namespace GB.Purity

/-- what a mutating statement writes to -/
inductive Target
  | fresh          -- an object created inside the call (directly or as a view of such an object)
  | selfShell      -- the shell's own attributes, inside methods of `GeneralizedContractionShell`
  | param          -- an argument object
  | viewOfParam    -- a view / slice / attribute of an argument object
  | unknown        -- could not be classified (treated as a possible argument)
  | global         -- module-level state
deriving DecidableEq, Repr

structure Effect where
  fn : String
  line : Nat
  kind : String
  target : Target
deriving DecidableEq, Repr

def Effect.ok (e : Effect) : Bool := e.target == .fresh || e.target == .selfShell

/-- how a function treats `numpy.seterr` -/
inductive ErrProto
  | untouched
  | scoped        -- `with np.errstate(...)` or `try: … finally: np.seterr(**old)`
  | leaking       -- `np.seterr(...)` restored only on the normal path (or not at all)
deriving DecidableEq, Repr

structure Summary where
  fn : String
  effects : List Effect
  err : ErrProto
deriving Repr

def Summary.pure (s : Summary) : Bool := s.effects.all Effect.ok && s.err != .leaking

/-! ## history machine -/

abbrev ObjId := Nat
abbrev Val := Nat          -- abstract contents

structure World where
  heap : ObjId → Val
  next : ObjId              -- objects with id ≥ next do not exist yet
  err : Nat                 -- the process-wide error-state setting

inductive Op
  /-- call of function number `f` on argument objects `args`; `raises`: whether it raises;
  `noise`: values it would write if it were allowed to (adversarial) -/
  | call (f : Nat) (args : List ObjId) (raises : Bool) (noise : Val)
  /-- explicit parameter update of a shell by the user (followed by `assign_norm_cont`) -/
  | update (obj : ObjId) (v : Val)

/-- one step.  A pure function only allocates; an impure one may clobber its arguments and, if its
error protocol leaks and it raises, leave the error state changed. -/
def step (sums : Nat → Summary) (w : World) : Op → World
  | .update obj v => { w with heap := fun o => if o = obj then v else w.heap o }
  | .call f args raises noise =>
    let s := sums f
    let heap' : ObjId → Val :=
      if s.effects.all Effect.ok then w.heap
      else fun o => if o ∈ args then noise else w.heap o
    let err' := if s.err == .leaking && raises then noise else w.err
    -- the result object (or nothing, when raising) is allocated at `next`
    { heap := fun o => if o = w.next ∧ ¬ raises then noise else heap' o, next := w.next + 1, err := err' }

def run (sums : Nat → Summary) (w : World) (ops : List Op) : World := ops.foldl (step sums) w

/-- objects explicitly updated by the user in a history -/
def updated : List Op → List ObjId
  | [] => []
  | .update o _ :: rest => o :: updated rest
  | _ :: rest => updated rest

end GB.Purity
