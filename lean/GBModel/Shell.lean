import GBModel.Gauss1D
/-!
# Shells, component orders, normalisation and separable two-index blocks

Models of `gbasis/contractions.py::GeneralizedContractionShell` (the data, the
default Cartesian component order, primitive norms, `assign_norm_cont`),
`_moment_int.py::_cleanup_intermediate_integrals`, and the
`construct_array_contraction` methods of `Overlap`, `Moment`,
`KineticEnergyIntegral`, `MomentumIntegral`, `AngularMomentumIntegral`.
-/
namespace GB

abbrev Comp := Nat × Nat × Nat

def Comp.ax (c : Comp) : Nat → Nat
  | 0 => c.1
  | 1 => c.2.1
  | _ => c.2.2

/-- default Cartesian order of `angmom_components_cart`:
`x` from `l` down to 0, `y` from `l-x` down to 0 -/
def defaultCart (l : Nat) : List Comp :=
  (List.range (l+1)).reverse.flatMap fun x =>
    (List.range (l - x + 1)).reverse.map fun y => (x, y, l - x - y)

/-- a spherical label: sign, cosine(`false`)/sine(`true`), `|m|` -/
structure SphLabel where
  negSign : Bool
  sine : Bool
  m : Nat
deriving Repr, BEq, DecidableEq

/-- default order of `angmom_components_sph`: `l = 1`: c1 s1 c0; otherwise s_l … s_1 c_0 … c_l -/
def defaultSph (l : Nat) : List SphLabel :=
  if l = 1 then [⟨false, false, 1⟩, ⟨false, true, 1⟩, ⟨false, false, 0⟩]
  else ((List.range l).reverse.map fun m => (⟨false, true, m+1⟩ : SphLabel))
       ++ ((List.range (l+1)).map fun m => (⟨false, false, m⟩ : SphLabel))

structure Shell (K : Type) where
  l : Nat
  ctr : Nat → K                 -- axis ↦ coordinate
  exps : Array K
  coefs : Array (Array K)       -- coefs[k][m]
  sph : Bool                    -- coordinate type
  cart : List Comp              -- Cartesian component order in use
  sphOrd : List SphLabel        -- spherical order/sign convention in use
  unitNorm : Bool               -- `false`: norm_cont is all ones (IODataShell-like)

variable {K : Type}

instance [Num K] : Inhabited (Shell K) :=
  ⟨{ l := 0, ctr := fun _ => Num.nat 0, exps := #[], coefs := #[], sph := false, cart := [],
     sphOrd := [], unitNorm := true }⟩

def Shell.nprim (s : Shell K) : Nat := s.exps.size
def Shell.nseg (s : Shell K) : Nat := match s.coefs[0]? with | some r => r.size | none => 0
def Shell.ncart (s : Shell K) : Nat := s.cart.length
/-- number of functions per segmented contraction in the shell's own coordinate type -/
def Shell.nfun (s : Shell K) : Nat := if s.sph then s.sphOrd.length else s.cart.length
def Shell.size (s : Shell K) : Nat := s.nseg * s.nfun

section
variable [Transc K]

def Shell.exp! (s : Shell K) (k : Nat) : K := s.exps.getD k (Num.nat 0)
def Shell.coef! (s : Shell K) (k m : Nat) : K := (s.coefs.getD k #[]).getD m (Num.nat 0)
def Shell.comp! (s : Shell K) (c : Nat) : Comp := s.cart.getD c (0,0,0)

/-- `x^{3/4}` -/
def pow34 (x : K) : K := Transc.sqrt (Transc.sqrt (x * x * x))
/-- `x^{n/2}` -/
def powHalf (x : K) (n : Nat) : K :=
  if n % 2 == 0 then powN x (n/2) else powN x (n/2) * Transc.sqrt x

/-- angular-independent part of the primitive norm: `(2α/π)^{3/4} (4α)^{l/2}` -/
def normRad (α : K) (l : Nat) : K :=
  pow34 (Num.nat 2 * α / Transc.pi) * powHalf (Num.nat 4 * α) l

/-- `1/√((2a_x-1)!!(2a_y-1)!!(2a_z-1)!!)` -/
def normAng (c : Comp) : K :=
  Num.nat 1 / Transc.sqrt (Num.nat (dfactOdd c.1 * dfactOdd c.2.1 * dfactOdd c.2.2))

/-- `norm_prim_cart[c, k]` -/
def normPrim (α : K) (l : Nat) (c : Comp) : K := normRad α l * normAng c

/-- per primitive pair and axis: the parameters of the one-dimensional recursions -/
structure Pair1D (K : Type) where
  h : K      -- 1/(2p)
  PA : K
  PB : K
  P : K
  base : K   -- √(π/p) exp(-μ (A-B)²)

def pair1D (a b A B : K) : Pair1D K :=
  let p := a + b
  let P := (a * A + b * B) / p
  { h := Num.nat 1 / (Num.nat 2 * p), PA := P - A, PB := P - B, P := P,
    base := Transc.sqrt (Transc.pi / p) * Transc.exp (- (a * b / p * ((A - B) * (A - B)))) }

abbrev Tab3 (K : Type) := Tab (Tab (Tab K))
abbrev Tab4 (K : Type) := Tab (Tab (Tab (Tab K)))

/-- moment-type table for primitives `ka`, `kb` and `axis`, about `origin`:
`(momAx …).get3 k j i` = `integrals[k, j, i, axis, kb, ka]` -/
def momAx (s t : Shell K) (origin : Nat → K) (nk : Nat) (ka kb axis : Nat) : Tab3 K :=
  let q := pair1D (s.exp! ka) (t.exp! kb) (s.ctr axis) (t.ctr axis)
  momTab q.h q.PA q.PB (q.P - origin axis) q.base nk (t.l + 1) (s.l + 1)

/-- derivative-type table (`_compute_differential_operator_integrals_intermediate`) -/
def diffAx (s t : Shell K) (dmax : Nat) (ka kb axis : Nat) : Tab3 K :=
  let q := pair1D (s.exp! ka) (t.exp! kb) (s.ctr axis) (t.ctr axis)
  diffTab q.h q.PA q.PB q.base (s.exp! ka) (t.l + 1) s.l dmax

/-- all tables of a shell pair: `(pairTabs …).get3 ka kb axis` -/
def pairTabs (s t : Shell K) (mk : Nat → Nat → Nat → Tab3 K) : Tab3 (Tab3 K) :=
  tab3 s.nprim t.nprim 3 mk

/-- `norm_prim_cart[c, k]` as a table indexed `[k][c]` -/
def Shell.normTab (s : Shell K) : Tab (Tab K) :=
  tab2 s.nprim s.ncart fun k c => normPrim (s.exp! k) s.l (s.comp! c)

/-- `_cleanup_intermediate_integrals` for fixed segments `ma mb` and components `ca cb`
(indices into the shells' component lists):
`Σ_{ka,kb} c_a[ka,ma] N_a[ca,ka] c_b[kb,mb] N_b[cb,kb] · prim ka kb a b` -/
def contract (s t : Shell K) (na nb : Tab (Tab K)) (prim : Nat → Nat → Comp → Comp → K)
    (ma ca mb cb : Nat) : K :=
  let a := s.comp! ca
  let b := t.comp! cb
  sumN s.nprim fun ka => sumN t.nprim fun kb =>
    s.coef! ka ma * na.get2 ka ca * (t.coef! kb mb * nb.get2 kb cb) * prim ka kb a b

/-- product over the three axes of the selected table entries -/
def prod3 (tabs : Tab3 (Tab3 K)) (o : Comp) (ka kb : Nat) (a b : Comp) : K :=
  (tabs.get3 ka kb 0).get3 o.1 b.1 a.1 * (tabs.get3 ka kb 1).get3 o.2.1 b.2.1 a.2.1
    * (tabs.get3 ka kb 2).get3 o.2.2 b.2.2 a.2.2

def blockTab (s t : Shell K) (f : Nat → Nat → Nat → Nat → K) : Tab4 K :=
  tab4 s.nseg s.ncart t.nseg t.ncart f

/-- `Moment.construct_array_contraction` (un-normalised contraction): one block per order triple -/
def momentBlock (s t : Shell K) (origin : Nat → K) (orders : List Comp) : Tab (Tab4 K) :=
  let nk := (orders.foldl (fun m o => max m (max o.1 (max o.2.1 o.2.2))) 0) + 1
  let tabs := pairTabs s t (momAx s t origin nk)
  let na := s.normTab
  let nb := t.normTab
  tab orders.length fun d => blockTab s t (contract s t na nb (prod3 tabs (orders.getD d (0,0,0))))

/-- `Overlap.construct_array_contraction` without screening -/
def overlapBlock (s t : Shell K) : Tab4 K :=
  (momentBlock s t (fun _ => Num.nat 0) [(0,0,0)]).get 0

/-- `_compute_differential_operator_integrals`: `∫ g_a ∂^o g_b` (un-normalised contraction),
one block per order triple -/
def diffBlock (s t : Shell K) (orders : List Comp) : Tab (Tab4 K) :=
  let dmax := orders.foldl (fun m o => max m (max o.1 (max o.2.1 o.2.2))) 0
  let tabs := pairTabs s t (diffAx s t dmax)
  let na := s.normTab
  let nb := t.normTab
  tab orders.length fun d => blockTab s t (contract s t na nb (prod3 tabs (orders.getD d (0,0,0))))

/-- `KineticEnergyIntegral.construct_array_contraction` -/
def kineticBlock (s t : Shell K) : Tab4 K :=
  let d := diffBlock s t [(2,0,0), (0,2,0), (0,0,2)]
  blockTab s t fun ma ca mb cb =>
    - (Num.nat 1 / Num.nat 2) *
      ((d.get 0).get4 ma ca mb cb + (d.get 1).get4 ma ca mb cb + (d.get 2).get4 ma ca mb cb)

/-- real array `∫ g_a ∂_axis g_b` (`MomentumIntegral.construct_array_contraction` is `-i` times it),
indexed by `axis` -/
def momentumBlock (s t : Shell K) : Tab (Tab4 K) :=
  diffBlock s t [(1,0,0), (0,1,0), (0,0,1)]

/-- `AngularMomentumIntegral.construct_array_contraction` divided by `-i`:
component `axis` of `∫ g_a (r × ∇) g_b` about the coordinate origin, written out as in the code:
`S_x (M_y D_z − M_z D_y)`, `S_y (M_z D_x − M_x D_z)`, `S_z (M_x D_y − M_y D_x)`. -/
def angmomBlock (s t : Shell K) : Tab (Tab4 K) :=
  let dt := pairTabs s t (diffAx s t 1)
  let mt := pairTabs s t (momAx s t (fun _ => Num.nat 0) 2)
  let na := s.normTab
  let nb := t.normTab
  tab 3 fun axis =>
    let u := axis            -- overlap axis
    let v := (axis + 1) % 3
    let w := (axis + 2) % 3
    blockTab s t <| contract s t na nb fun ka kb a b =>
      (mt.get3 ka kb u).get3 0 (b.ax u) (a.ax u) *
        ((mt.get3 ka kb v).get3 1 (b.ax v) (a.ax v) * (dt.get3 ka kb w).get3 1 (b.ax w) (a.ax w)
          - (mt.get3 ka kb w).get3 1 (b.ax w) (a.ax w) * (dt.get3 ka kb v).get3 1 (b.ax v) (a.ax v))

/-- `assign_norm_cont`: `norm_cont[m, c] = (self-overlap of (m, c))^{-1/2}`; all ones if the
shell opts out of normalisation (as `IODataShell` does) -/
def normCont (s : Shell K) : Tab (Tab K) :=
  if s.unitNorm then
    let ov := overlapBlock s s
    tab2 s.nseg s.ncart fun m c => Num.nat 1 / Transc.sqrt (ov.get4 m c m c)
  else tab2 0 0 fun _ _ => Num.nat 1

end
end GB
