/-!
# Published signatures of the public functions

Parameter names in order, with the source text of the default where there is one — as documented in the docstrings of
gbasis (reviewed once; maintained by hand).  `tr_signatures.py` extracts the same table from /repo's source on every run
(`GBExtracted/Signatures.lean`); the obligation `GBProofs/Obl/Signatures.lean` is their equality.  A caller who passes arguments by
position, or relies on a default value, depends on exactly this table.
-/
namespace GB.Signatures

def published : List (String × List (String × String)) :=
  [("evaluate_density", [("one_density_matrix", ""), ("basis", ""), ("points", ""), ("transform", "None"), ("threshold", "1e-08")]),
  ("evaluate_deriv_density", [("orders", ""), ("one_density_matrix", ""), ("basis", ""), ("points", ""), ("transform", "None"), ("deriv_type", "'general'")]),
  ("evaluate_density_gradient", [("one_density_matrix", ""), ("basis", ""), ("points", ""), ("transform", "None"), ("deriv_type", "'general'")]),
  ("evaluate_density_laplacian", [("one_density_matrix", ""), ("basis", ""), ("points", ""), ("transform", "None"), ("deriv_type", "'general'")]),
  ("evaluate_density_hessian", [("one_density_matrix", ""), ("basis", ""), ("points", ""), ("transform", "None"), ("deriv_type", "'general'")]),
  ("evaluate_posdef_kinetic_energy_density", [("one_density_matrix", ""), ("basis", ""), ("points", ""), ("transform", "None"), ("deriv_type", "'general'"), ("threshold", "1e-08")]),
  ("evaluate_general_kinetic_energy_density", [("one_density_matrix", ""), ("basis", ""), ("points", ""), ("alpha", ""), ("transform", "None"), ("deriv_type", "'general'")]),
  ("evaluate_deriv_reduced_density_matrix", [("orders_one", ""), ("orders_two", ""), ("one_density_matrix", ""), ("basis", ""), ("points", ""), ("transform", "None"), ("deriv_type", "'general'")]),
  ("evaluate_stress_tensor", [("one_density_matrix", ""), ("basis", ""), ("points", ""), ("alpha", "1"), ("beta", "0"), ("transform", "None")]),
  ("evaluate_ehrenfest_force", [("one_density_matrix", ""), ("basis", ""), ("points", ""), ("alpha", "1"), ("beta", "0"), ("transform", "None")]),
  ("evaluate_ehrenfest_hessian", [("one_density_matrix", ""), ("basis", ""), ("points", ""), ("alpha", "1"), ("beta", "0"), ("transform", "None"), ("symmetric", "False")]),
  ("evaluate_basis", [("basis", ""), ("points", ""), ("transform", "None")]),
  ("evaluate_deriv_basis", [("basis", ""), ("points", ""), ("orders", ""), ("transform", "None"), ("deriv_type", "'general'")]),
  ("electrostatic_potential", [("basis", ""), ("one_density_matrix", ""), ("points", ""), ("nuclear_coords", ""), ("nuclear_charges", ""), ("transform", "None"), ("threshold_dist", "0.0")]),
  ("overlap_integral", [("basis", ""), ("transform", "None"), ("tol_screen", "None")]),
  ("overlap_integral_asymmetric", [("basis_one", ""), ("basis_two", ""), ("transform_one", "None"), ("transform_two", "None")]),
  ("moment_integral", [("basis", ""), ("moment_coord", ""), ("moment_orders", ""), ("transform", "None")]),
  ("point_charge_integral", [("basis", ""), ("points_coords", ""), ("points_charge", ""), ("transform", "None")]),
  ("nuclear_electron_attraction_integral", [("basis", ""), ("nuclear_coords", ""), ("nuclear_charges", ""), ("transform", "None")]),
  ("electron_repulsion_integral", [("basis", ""), ("transform", "None"), ("notation", "'physicist'")]),
  ("kinetic_energy_integral", [("basis", ""), ("transform", "None")]),
  ("momentum_integral", [("basis", ""), ("transform", "None")]),
  ("angular_momentum_integral", [("basis", ""), ("transform", "None")]),
  ("make_contractions", [("basis_dict", ""), ("atoms", ""), ("coords", ""), ("coord_types", "")]),
  ("parse_nwchem", [("nwchem_basis_file", "")]),
  ("parse_gbs", [("gbs_basis_file", "")]),
  ("generate_transformation", [("angmom", ""), ("cartesian_order", ""), ("spherical_order", ""), ("apply_from", "")])]

/-- position of a parameter in the published signature of a function -/
def position (f p : String) : Option Nat :=
  (published.find? fun x => x.1 == f).bind fun x => x.2.findIdx? fun y => y.1 == p

/-- published default (source text) of a parameter -/
def default? (f p : String) : Option String :=
  (published.find? fun x => x.1 == f).bind fun x => (x.2.find? fun y => y.1 == p).map (·.2)

end GB.Signatures
