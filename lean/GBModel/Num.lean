/-!
# Numeric interface of the model

The model of gbasis is written once, polymorphically, over an *operations-only*
class (no laws).  Proof files instantiate it with a `Field`; the compiled driver
instantiates it with the dyadic big float `BF` below (320-bit mantissa), so that
the very definitions the theorems talk about are the ones that are executed
against the Python implementation.
-/

/-- ring/field operations, no laws -/
class Num (K : Type) extends Add K, Sub K, Mul K, Div K, Neg K where
  nat : Nat → K

/-- transcendental operations needed by Gaussian integrals -/
class Transc (K : Type) extends Num K where
  exp : K → K
  sqrt : K → K
  pi : K

namespace GB
variable {K : Type} [Num K]

@[inline] def zero : K := Num.nat 0
@[inline] def one : K := Num.nat 1
@[inline] def two : K := Num.nat 2

def ofInt (i : Int) : K := if i < 0 then - Num.nat (K := K) i.natAbs else Num.nat i.natAbs

def powN (x : K) : Nat → K
  | 0 => Num.nat 1
  | n+1 => powN x n * x

/-- right-nested sum of a list, `0` for the empty list -/
def sumL : List K → K
  | [] => Num.nat 0
  | x :: xs => x + sumL xs

/-- `Σ_{i<n} f i` -/
def sumN (n : Nat) (f : Nat → K) : K := sumL ((List.range n).map f)

def prodL : List K → K
  | [] => Num.nat 1
  | x :: xs => x * prodL xs

/-- `(2k-1)!!` with `(-1)!! = 1` -/
def dfactOdd : Nat → Nat
  | 0 => 1
  | k+1 => (2*k+1) * dfactOdd k

def fact : Nat → Nat
  | 0 => 1
  | n+1 => (n+1) * fact n

def choose : Nat → Nat → Nat
  | _, 0 => 1
  | 0, _+1 => 0
  | n+1, k+1 => choose n k + choose n (k+1)

/-- falling factorial `n (n-1) … (n-k+1)` (scipy `perm`), 0 when `k > n` -/
def perm : Nat → Nat → Nat
  | _, 0 => 1
  | 0, _+1 => 0
  | n+1, k+1 => (n+1) * perm n k

end GB

/-! ## Memoisation

A table is a *data* value (`Tab`): an array of the first `n` values of a function
together with the function itself as fall-back outside the array.  `(tab n f).get`
is extensionally `f` (theorem `tab_get`), so proofs erase tables, while compiled
code evaluates `f 0 … f (n-1)` exactly once when the table is built.  (A closure
capturing an array would not do: the compiler re-evaluates it at every call.)
-/
namespace GB

structure Tab (α : Type) where
  arr : Array α
  fb : Nat → α

def Tab.get {α : Type} (t : Tab α) (i : Nat) : α :=
  if h : i < t.arr.size then t.arr[i] else t.fb i

def tab {α : Type} (n : Nat) (f : Nat → α) : Tab α :=
  ⟨Array.ofFn (n := n) (fun i => f i.val), f⟩

@[simp] theorem tab_get {α : Type} (n : Nat) (f : Nat → α) (i : Nat) : (tab n f).get i = f i := by
  unfold Tab.get tab
  by_cases h : i < (Array.ofFn (n := n) fun i => f i.val).size
  · rw [dif_pos h]; simp
  · rw [dif_neg h]

def tab2 {α : Type} (n1 n2 : Nat) (f : Nat → Nat → α) : Tab (Tab α) :=
  tab n1 (fun i => tab n2 (f i))

def Tab.get2 {α : Type} (t : Tab (Tab α)) (i j : Nat) : α := (t.get i).get j

@[simp] theorem tab2_get {α : Type} (n1 n2 : Nat) (f : Nat → Nat → α) (i j : Nat) :
    (tab2 n1 n2 f).get2 i j = f i j := by
  simp [tab2, Tab.get2]

def tab3 {α : Type} (n1 n2 n3 : Nat) (f : Nat → Nat → Nat → α) : Tab (Tab (Tab α)) :=
  tab n1 (fun i => tab2 n2 n3 (f i))

def Tab.get3 {α : Type} (t : Tab (Tab (Tab α))) (i j k : Nat) : α := (t.get i).get2 j k

@[simp] theorem tab3_get {α : Type} (n1 n2 n3 : Nat) (f : Nat → Nat → Nat → α) (i j k : Nat) :
    (tab3 n1 n2 n3 f).get3 i j k = f i j k := by
  simp [tab3, Tab.get3]

def tab4 {α : Type} (n1 n2 n3 n4 : Nat) (f : Nat → Nat → Nat → Nat → α) :
    Tab (Tab (Tab (Tab α))) :=
  tab n1 (fun i => tab3 n2 n3 n4 (f i))

def Tab.get4 {α : Type} (t : Tab (Tab (Tab (Tab α)))) (i j k l : Nat) : α := (t.get i).get3 j k l

@[simp] theorem tab4_get {α : Type} (n1 n2 n3 n4 : Nat) (f : Nat → Nat → Nat → Nat → α)
    (i j k l : Nat) : (tab4 n1 n2 n3 n4 f).get4 i j k l = f i j k l := by
  simp [tab4, Tab.get4]

end GB

/-! ## `BF`: dyadic big floats, value `m · 2^e`, results rounded to `prec` bits -/

structure BF where
  m : Int
  e : Int
deriving Repr, Inhabited, BEq

namespace BF
def prec : Nat := 320

def norm (x : BF) : BF :=
  if x.m == 0 then ⟨0, 0⟩ else
  let n := x.m.natAbs.log2 + 1
  if n > prec then
    let s := n - prec
    ⟨x.m / (2 ^ s : Int), x.e + s⟩
  else x

def ofInt (i : Int) : BF := ⟨i, 0⟩
def mul (a b : BF) : BF := norm ⟨a.m * b.m, a.e + b.e⟩
def add (a b : BF) : BF :=
  if a.m == 0 then b else if b.m == 0 then a else
  if a.e ≥ b.e then
    let d := (a.e - b.e).toNat
    if d > 4 * prec then a else norm ⟨a.m * (2 ^ d : Int) + b.m, b.e⟩
  else
    let d := (b.e - a.e).toNat
    if d > 4 * prec then b else norm ⟨b.m * (2 ^ d : Int) + a.m, a.e⟩
def neg (a : BF) : BF := ⟨-a.m, a.e⟩
def sub (a b : BF) : BF := add a (neg b)
/-- division; division by zero yields 0 (never relied upon: the driver rejects such requests) -/
def div (a b : BF) : BF :=
  if b.m == 0 then ⟨0, 0⟩ else
  let sh := 2 * prec
  norm ⟨(a.m * (2 ^ sh : Int)) / b.m, a.e - b.e - sh⟩

instance : Add BF := ⟨add⟩
instance : Mul BF := ⟨mul⟩
instance : Sub BF := ⟨sub⟩
instance : Div BF := ⟨div⟩
instance : Neg BF := ⟨neg⟩
instance : OfNat BF n := ⟨ofInt n⟩

/-- square root for `m ≥ 0` (0 for negative input) -/
def sqrt (a : BF) : BF :=
  if a.m ≤ 0 then ⟨0,0⟩ else
  let sh0 := 2 * prec
  let e' := a.e - sh0
  let (m', e'') := if e' % 2 == 0 then (a.m.natAbs <<< sh0, e') else (a.m.natAbs <<< (sh0 + 1), e' - 1)
  norm ⟨Int.ofNat (Nat.sqrt m'), e'' / 2⟩

def pow2 (k : Int) : BF := ⟨1, k⟩

def taylorExp (y : BF) : Nat → Nat → BF → BF → BF
  | 0, _, _, acc => acc
  | n+1, k, term, acc =>
    let term' := div (mul term y) (ofInt (k+1))
    taylorExp y n (k+1) term' (add acc term')

def sqN : Nat → BF → BF
  | 0, r => r
  | n+1, r => sqN n (mul r r)

/-- exp by argument halving + Taylor -/
def exp (x : BF) : BF :=
  if x.m == 0 then 1 else
  let bits : Int := (x.m.natAbs.log2 : Int) + 1 + x.e   -- |x| < 2^bits
  let s : Nat := (bits + 8).toNat
  let y := mul x (pow2 (-(s : Int)))
  let r := taylorExp y 60 0 1 1
  sqN s r

def toFloat (x : BF) : Float := Float.ofInt x.m * Float.exp2 (Float.ofInt x.e)
def lt (a b : BF) : Bool := (sub a b).m < 0
def isZero (a : BF) : Bool := a.m == 0
def abs (a : BF) : BF := ⟨Int.ofNat a.m.natAbs, a.e⟩

/-- arctan(1/k) series for pi (Machin) -/
def atanInv (k : Nat) : BF := Id.run do
  let k2 : BF := ofInt (k*k)
  let mut term : BF := div 1 (ofInt k)
  let mut acc : BF := term
  for i in [1:400] do
    term := div term k2
    let t := div term (ofInt (2*i+1))
    acc := if i % 2 == 1 then sub acc t else add acc t
  return acc

def piVal : BF := mul (ofInt 4) (sub (mul (ofInt 4) (atanInv 5)) (atanInv 239))

instance : Num BF := { nat := fun n => BF.ofInt n }
instance : Transc BF := { exp := BF.exp, sqrt := BF.sqrt, pi := BF.piVal }

def toStr (x : BF) : String := s!"{x.m}:{x.e}"

def parse? (s : String) : Option BF :=
  match s.splitOn ":" with
  | [m, e] => match m.toInt?, e.toInt? with
    | some m, some e => some ⟨m, e⟩
    | _, _ => none
  | _ => none

end BF

namespace BF

/-- `Σ_{k<n} term_k`, `term_0 = 1/(2m+1)`, `term_{k+1} = term_k · 2T/(2m+2k+3)` -/
def boysSeries (T : BF) (m : Nat) : Nat → Nat → BF → BF → BF
  | 0, _, _, acc => acc
  | n+1, k, term, acc =>
    let term' := div (mul term (mul (ofInt 2) T)) (ofInt (2*m + 2*k + 3))
    boysSeries T m n (k+1) term' (add acc term')

/-- Boys function `F_m(T) = ∫₀¹ t^{2m} e^{-T t²} dt` for `m = 0 … mMax-1`, `T ≥ 0`.
`T ≤ 200`: the all-positive series `e^{-T} Σ_k (2T)^k / ((2m+1)(2m+3)…(2m+2k+1))` at the top order
and the downward recursion `F_m = (2T F_{m+1} + e^{-T})/(2m+1)`;
`T > 200`: `F_0 = ½√(π/T)` (the neglected tail is below `e^{-200}`) and the upward recursion. -/
def boysAll (T : BF) (mMax : Nat) : Array BF :=
  if mMax == 0 then #[] else
  let eT := exp (neg T)
  if lt (ofInt 200) T then Id.run do
    let mut out : Array BF := #[div (sqrt (div piVal T)) (ofInt 2)]
    for m in [0:mMax-1] do
      let prev := out[m]!
      out := out.push (div (sub (mul (ofInt (2*m+1)) prev) eT) (mul (ofInt 2) T))
    return out
  else Id.run do
    let top := mMax - 1
    let t0 := div 1 (ofInt (2*top+1))
    let ftop := mul eT (boysSeries T top 1200 0 t0 t0)
    let mut rev : Array BF := #[ftop]
    for i in [0:top] do
      let m := top - 1 - i
      let nxt := rev[i]!
      rev := rev.push (div (add (mul (mul (ofInt 2) T) nxt) eT) (ofInt (2*m+1)))
    return rev.reverse

end BF

/-! ## `BM`: a `BF` value together with a running majorant of its magnitude

Every operation also propagates an upper bound of what the result would be if all the
terms of all the sums that produced it had been added in absolute value.  This is the scale
against which "equal to rounding error" is judged for properties that state no tolerance. -/
structure BM where
  v : BF
  g : BF     -- majorant, `g ≥ |v|`
deriving Inhabited

namespace BM
def ofBF (x : BF) : BM := ⟨x, x.abs⟩
instance : Add BM := ⟨fun a b => ⟨a.v + b.v, a.g + b.g⟩⟩
instance : Sub BM := ⟨fun a b => ⟨a.v - b.v, a.g + b.g⟩⟩
instance : Mul BM := ⟨fun a b => ⟨a.v * b.v, a.g * b.g⟩⟩
instance : Div BM := ⟨fun a b => ⟨a.v / b.v, a.g / b.v.abs⟩⟩
instance : Neg BM := ⟨fun a => ⟨-a.v, a.g⟩⟩
instance : Num BM := { nat := fun n => ofBF (BF.ofInt n) }
instance : Transc BM :=
  { exp := fun a => ofBF (BF.exp a.v), sqrt := fun a => ofBF (BF.sqrt a.v), pi := ofBF BF.piVal }
end BM

