import GBModel.Shell
/-!
# Real regular solid harmonics and the Cartesian → spherical matrix

Model of `gbasis/spherical.py` (`expansion_coeff`, `harmonic_norm`,
`real_solid_harmonic`, `generate_transformation`).  All coefficients are exact
rationals; the only irrational factor of a matrix entry is one square root of a
rational, taken at the very end.
-/
namespace GB

abbrev Poly3 := List (Comp × Rat)

def Poly3.addTerm (p : Poly3) (m : Comp) (c : Rat) : Poly3 :=
  match p with
  | [] => if c == 0 then [] else [(m, c)]
  | (m', c') :: t =>
    if m' == m then (if c' + c == 0 then t else (m', c' + c) :: t)
    else (m', c') :: Poly3.addTerm t m c

def Poly3.sum (l : List (Comp × Rat)) : Poly3 := l.foldl (fun acc (m, c) => acc.addTerm m c) []

def Poly3.coeff (p : Poly3) (m : Comp) : Rat :=
  match p.find? (fun t => t.1 == m) with
  | some t => t.2
  | none => 0

/-- `expansion_coeff(l, ±mabs, i, j, k)`; for the sine functions (`neg`) the code's half-integer
`k` is `z + 1/2` and the sign exponent `i + k - 1/2 = i + z` -/
def expCoeff (l mabs : Nat) (neg : Bool) (i j z : Nat) : Rat :=
  let sgn : Rat := if (i + z) % 2 == 0 then 1 else -1
  let twok := if neg then 2 * z + 1 else 2 * z
  sgn * (1 / (4 ^ i : Nat) : Rat) * (choose l i) * (choose (l - i) (mabs + i)) * (choose i j)
    * (choose mabs twok)

/-- `real_solid_harmonic(l, ±mabs)` without the factor `harmonic_norm` -/
def harmonic (l mabs : Nat) (neg : Bool) : Poly3 :=
  Poly3.sum <|
    (List.range ((l - mabs) / 2 + 1)).flatMap fun i =>
      (List.range (i + 1)).flatMap fun j =>
        (List.range (mabs / 2 + 1)).filterMap fun z =>
          let c := expCoeff l mabs neg i j z
          let twojk := if neg then 2 * (j + z) + 1 else 2 * (j + z)
          if c == 0 then none else some ((2 * i + mabs - twojk, twojk, l - 2 * i - mabs), c)

/-- `harmonic_norm(l, ±mabs)²` = `2 (l+|m|)! (l-|m|)! / 2^{δ_{m0}} / (2^{|m|} l!)²` -/
def normSq (l mabs : Nat) : Rat :=
  ((2 * fact (l + mabs) * fact (l - mabs) : Nat) : Rat) / ((if mabs == 0 then 2 else 1 : Nat) : Rat)
    / (((2 ^ mabs * fact l) ^ 2 : Nat) : Rat)

def Comp.dfact (c : Comp) : Nat := dfactOdd c.1 * dfactOdd c.2.1 * dfactOdd c.2.2

/-- rational part and squared irrational part of the entry of `generate_transformation(…, "left")`
for spherical label `lab` (row) and Cartesian component `c` (column):
`entry = rat · √sq`, `rat = ± coefficient of the monomial`,
`sq = harmonic_norm² · Π(2a_i-1)!! / (2l-1)!!` -/
def transEntryQ (l : Nat) (lab : SphLabel) (c : Comp) : Rat × Rat :=
  let q := (harmonic l lab.m lab.sine).coeff c
  ((if lab.negSign then -q else q), normSq l lab.m * (c.dfact : Rat) / (dfactOdd l : Rat))

variable {K : Type} [Transc K]

def ofRat (r : Rat) : K := ofInt r.num / Num.nat r.den

/-- `generate_transformation(l, cart, sph, "left")[row][col]` -/
def transEntry (l : Nat) (lab : SphLabel) (c : Comp) : K :=
  let e := transEntryQ l lab c
  ofRat e.1 * Transc.sqrt (ofRat e.2)

/-- the shell's transformation matrix as a table `[row][col]` -/
def Shell.transTab (s : Shell K) : Tab (Tab K) :=
  tab2 s.sphOrd.length s.cart.length fun r c =>
    transEntry s.l (s.sphOrd.getD r ⟨false, false, 0⟩) (s.comp! c)

/-! ## Validation of a spherical-order argument (decision logic of `generate_transformation`) -/

/-- canonical spelling `c{m}` / `s{m}` -/
def SphLabel.name (sine : Bool) (m : Nat) : String := (if sine then "s" else "c") ++ toString m

/-- parse one label: an optional single leading `-`, then exactly a canonical name with
`m ≤ l` (`m ≥ 1` for sine) -/
def parseLabel (l : Nat) (s : String) : Option SphLabel :=
  let neg := s.startsWith "-"
  let body := if neg then (s.drop 1).toString else s
  let cands := ((List.range (l+1)).map fun m => (false, m)) ++ ((List.range l).map fun m => (true, m+1))
  match cands.find? (fun p => SphLabel.name p.1 p.2 == body) with
  | some p => some ⟨neg, p.1, p.2⟩
  | none => none

/-- a label list is accepted iff every entry parses and, signs ignored, the entries are exactly
the `2l+1` functions `c0, c1 … cl, s1 … sl`, each once -/
def validSphOrder (l : Nat) (labels : List String) : Option (List SphLabel) :=
  match labels.mapM (parseLabel l) with
  | none => none
  | some ls =>
    let keys := ls.map fun x => (x.sine, x.m)
    let all := ((List.range (l+1)).map fun m => (false, m)) ++ ((List.range l).map fun m => (true, m+1))
    if ls.length == 2 * l + 1 && all.all (fun k => keys.contains k) then some ls else none

end GB
