import GBModel.Num
/-!
# One-dimensional recursion tables

Models of
* `gbasis/integrals/_moment_int.py::_compute_multipole_moment_integrals_intermediate`
* `gbasis/integrals/_diff_operator_int.py::_compute_differential_operator_integrals_intermediate`
for one Cartesian axis and one pair of primitives.  The Python code fills the
array `integrals[k, j, i]` (moment/derivative order `k`, right angular index `j`,
left angular index `i`) slice by slice; here each slice is a table (`Tab`), built
from the previous one or two slices exactly as the assignment statements do.
`h` stands for `1 / (2 (α_a + α_b))`.
-/
namespace GB
variable {K : Type} [Num K]

/-- two-term linear recursion `T 0 = f0`, `T 1 = f1`, `T (n+2) = s n (T n) (T (n+1))`;
returns `(T n, T (n+1))` -/
def lin2 (f0 f1 : K) (s : Nat → K → K → K) : Nat → K × K
  | 0 => (f0, f1)
  | n+1 => let p := lin2 f0 f1 s n; (p.2, s n p.1 p.2)

/-- `integrals[0, 0, i]`:
`[0,0,0] = base`, `[0,0,1] = PA·[0,0,0]`,
`[0,0,i+1] = PA·[0,0,i] + i·[0,0,i-1]/(2p)` -/
def momRow0 (h PA base : K) (i : Nat) : K :=
  (lin2 base (PA * base) (fun n a b => PA * b + Num.nat (n+1) * a * h) i).1

/-- rows `integrals[0, j, ·]`; returns `(row j, row (j-1))`.
`[0,j+1,i] = PB·[0,j,i] + (i·[0,j,i-1] + j·[0,j-1,i])/(2p)` (terms with a factor 0 are the
cases the Python slices leave out). -/
def momRows (h PA PB base : K) (ni : Nat) : Nat → Tab K × Tab K
  | 0 => (tab ni (momRow0 h PA base), tab 0 fun _ => Num.nat 0)
  | j+1 =>
    let p := momRows h PA PB base ni j
    (tab ni (fun i => PB * p.1.get i + (Num.nat i * p.1.get (i-1) + Num.nat j * p.2.get i) * h), p.1)

/-- planes `integrals[k, ·, ·]`; returns `(plane k, plane (k-1))`.
`[k+1,j,i] = PC·[k,j,i] + (i·[k,j,i-1] + j·[k,j-1,i] + k·[k-1,j,i])/(2p)` -/
def momPlanes (h PA PB PC base : K) (nj ni : Nat) : Nat → Tab (Tab K) × Tab (Tab K)
  | 0 => (tab nj (fun j => (momRows h PA PB base ni j).1), tab 0 fun _ => tab 0 fun _ => Num.nat 0)
  | k+1 =>
    let p := momPlanes h PA PB PC base nj ni k
    (tab2 nj ni (fun j i => PC * p.1.get2 j i
        + (Num.nat i * p.1.get2 j (i-1) + Num.nat j * p.1.get2 (j-1) i + Num.nat k * p.2.get2 j i) * h),
     p.1)

/-- the table of `_compute_multipole_moment_integrals_intermediate`, orders `0 … nk-1` -/
def momTab (h PA PB PC base : K) (nk nj ni : Nat) : Tab (Tab (Tab K)) :=
  tab nk (fun k => (momPlanes h PA PB PC base nj ni k).1)

/-- planes of `_compute_differential_operator_integrals_intermediate`, width `w = a_max + d_max + 1`:
`[0] = ` overlap-type table of width `w`;
`[k+1, j, 0] = 2a·[k,j,1]`, `[k+1,j,i] = 2a·[k,j,i+1] − i·[k,j,i-1]` for `1 ≤ i ≤ w-2`,
and the last column `i = w-1` is never written (stays 0). -/
def diffPlanes (a : K) (t0 : Tab (Tab K)) (nj w : Nat) : Nat → Tab (Tab K)
  | 0 => t0
  | k+1 =>
    let p := diffPlanes a t0 nj w k
    tab2 nj w (fun j i =>
      if i + 1 < w then Num.nat 2 * a * p.get2 j (i+1) - Num.nat i * p.get2 j (i-1) else Num.nat 0)

/-- the table of `_compute_differential_operator_integrals_intermediate`
(before its final slice `[:, :, :a_max+1]`, which only restricts `i`), orders `0 … dmax` -/
def diffTab (h PA PB base a : K) (nj amax dmax : Nat) : Tab (Tab (Tab K)) :=
  let w := amax + dmax + 1
  let t0 := (momPlanes h PA PB (Num.nat 0) base nj w 0).1
  tab (dmax + 1) (fun k => diffPlanes a t0 nj w k)

end GB
