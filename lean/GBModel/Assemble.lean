import GBModel.Spherical
/-!
# From shell blocks to arrays over basis functions

What `construct_array_cartesian / _spherical / _mix` of the four base classes are
meant to produce, as a direct index formula: basis index `r` ↦ (shell, segmented
contraction `m`, function `f` of the shell in its own coordinate type), in the
documented order *shell, then segment, then component*; the array entry is the
shell block, multiplied by `norm_cont[m, a]` on every Cartesian index and then
contracted with the shell's Cartesian→spherical matrix on every index that
belongs to a spherical shell.

Every pair (or quartet) of shells is computed in the orientation in which it
appears in the result; nothing is filled in by symmetry.  (That the code may do
so is a theorem about the blocks, not an assumption of the model.)
-/
namespace GB
variable {K : Type} [Transc K]

abbrev Basis (K : Type) := Array (Shell K)

def Basis.total (b : Basis K) : Nat := b.foldl (fun n s => n + s.size) 0

/-- `(shell index, segment, function)` of basis index `r` -/
def Basis.locate (b : Basis K) (r : Nat) : Nat × Nat × Nat :=
  let rec go (i : Nat) (fuel : Nat) (r : Nat) : Nat × Nat × Nat :=
    match fuel with
    | 0 => (i, 0, 0)
    | fuel+1 =>
      match b[i]? with
      | none => (i, 0, 0)
      | some s =>
        if r < s.size then (i, r / s.nfun, r % s.nfun) else go (i+1) fuel (r - s.size)
  go 0 b.size r

/-- weight of Cartesian component `a` in function `(m, f)` of shell `s`:
`norm_cont[m, a] · (T[f, a]` if spherical, `δ_{fa}` if Cartesian`)`, as a table `[m][f][a]` -/
def Shell.weights (s : Shell K) : Tab3 K :=
  let nc := normCont s
  let tt := if s.sph then s.transTab else tab2 0 0 fun _ _ => Num.nat 0
  tab3 s.nseg s.nfun s.ncart fun m f a =>
    if s.sph then tt.get2 f a * nc.get2 m a
    else if f == a then nc.get2 m a else Num.nat 0

/-- apply the weights of `s` to the first pair of indices and of `t` to the second -/
def wBlock2 (s t : Shell K) (ws wt : Tab3 K) (blk : Tab4 K) : Tab4 K :=
  -- stage 1: first index pair
  let st1 : Tab4 K := tab4 s.nseg s.nfun t.nseg t.ncart fun m f n b =>
    if s.sph then sumN s.ncart fun a => ws.get3 m f a * blk.get4 m a n b
    else ws.get3 m f f * blk.get4 m f n b
  tab4 s.nseg s.nfun t.nseg t.nfun fun m f n g =>
    if t.sph then sumN t.ncart fun b => wt.get3 n g b * st1.get4 m f n b
    else wt.get3 n g g * st1.get4 m f n g

def Basis.offset (b : Basis K) (i : Nat) : Nat := (b.toList.take i).foldl (fun n s => n + s.size) 0

/-- normalised and transformed blocks of all shell pairs: `[i][j][e]` -/
def pairBlocks (b1 b2 : Basis K) (nextra : Nat) (blk : Nat → Nat → Tab (Tab4 K)) : Tab (Tab (Tab (Tab4 K))) :=
  let w1 := tab b1.size fun i => match b1[i]? with | some s => s.weights | none => tab3 0 0 0 fun _ _ _ => Num.nat 0
  let w2 := tab b2.size fun i => match b2[i]? with | some s => s.weights | none => tab3 0 0 0 fun _ _ _ => Num.nat 0
  tab2 b1.size b2.size fun i j =>
    let raw := blk i j
    tab nextra fun e => wBlock2 (b1.getD i default) (b2.getD j default) (w1.get i) (w2.get j) (raw.get e)

/-- entry `(r, c, e)` of a two-index array: row `r` is function `f` of segment `m` of shell `i`
(`Basis.locate`), column `c` likewise in the second basis -/
def entry2 (b1 b2 : Basis K) (pb : Tab (Tab (Tab (Tab4 K)))) (r c e : Nat) : K :=
  let lr := b1.locate r
  let lc := b2.locate c
  ((pb.get2 lr.1 lc.1).get e).get4 lr.2.1 lr.2.2 lc.2.1 lc.2.2

/-- two-index array with `nextra` trailing entries per pair of basis functions, row-major
`[r][c][e]`.  `blk s t` is the un-normalised Cartesian block(s) of shells `s` of `b1`, `t` of `b2`. -/
def assemble2 (b1 b2 : Basis K) (nextra : Nat) (blk : Nat → Nat → Tab (Tab4 K)) : Array K :=
  let pb := pairBlocks b1 b2 nextra blk
  let nc := b2.total
  Array.ofFn (n := b1.total * nc * nextra) fun idx =>
    entry2 b1 b2 pb (idx.val / (nc * nextra)) (idx.val / nextra % nc) (idx.val % nextra)

/-- normalised and transformed one-index blocks of all shells: `[i]` ↦ `[m][f][e]` -/
def oneBlocks (b : Basis K) (nextra : Nat) (blk : Nat → Tab3 K) : Tab (Tab3 K) :=
  tab b.size fun i =>
    let s := b.getD i default
    let ws := s.weights
    let raw := blk i
    tab3 s.nseg s.nfun nextra fun m f e =>
      if s.sph then sumN s.ncart fun a => ws.get3 m f a * raw.get3 m a e
      else ws.get3 m f f * raw.get3 m f e

/-- entry `(r, e)` of a one-index array: row `r` is function `f` of segment `m` of shell `i` -/
def entry1 (b : Basis K) (ob : Tab (Tab3 K)) (r e : Nat) : K :=
  let lr := b.locate r
  (ob.get lr.1).get3 lr.2.1 lr.2.2 e

/-- one-index array (`BaseOneIndex`): rows = basis functions, `nextra` columns.
`blk s` gives `[m][a][e]`. -/
def assemble1 (b : Basis K) (nextra : Nat) (blk : Nat → Tab3 K) : Array K :=
  let ob := oneBlocks b nextra blk
  Array.ofFn (n := b.total * nextra) fun idx => entry1 b ob (idx.val / nextra) (idx.val % nextra)

end GB
