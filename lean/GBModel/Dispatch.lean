/-!
# Dispatch of the public wrapper functions on the shells' coordinate types

Every public integral / evaluation function of gbasis ends in the same decision: collect the coordinate
types of the shells, then `transform` given → `construct_array_lincomb`, all Cartesian →
`construct_array_cartesian`, all spherical → `construct_array_spherical`, otherwise
`construct_array_mix`, forwarding the remaining arguments by keyword.  `tr_dispatch.py` extracts this
structure from the source (`GBExtracted/Dispatch.lean`); here are its syntax, its semantics — including
what happens when the collected types are a *generator* that the guards consume — and the decidable
criterion `wrapperOk` that the extracted data must satisfy.
-/
namespace GB.Dispatch

/-- guards of the `if` chain -/
inductive G where
  | transform                       -- `transform is not None`
  | allEq (var lit : String)        -- `all(ct == lit for ct in var)`
  | anyEq (var lit : String)        -- `any(ct == lit for ct in var)`
  | strEq (var lit : String)        -- `var == lit` (a sequence compared with a string)
  | or (a b : G)
  | not (a : G)
  | otherwise                       -- final `return` / `else`
  | other (src : String)            -- anything the translator does not recognise
deriving DecidableEq, Repr, Inhabited

inductive SeqKind where
  | list | generator | other
deriving DecidableEq, Repr

/-- `name = [shell.coord_type for shell in source]` (kind `list`), `(… for …)` (kind `generator`) -/
structure CoordVar where
  name : String
  kind : SeqKind
  source : String
deriving DecidableEq, Repr

structure Branch where
  guard : G
  method : String
  pos : List String        -- positional arguments (names)
  kws : List String        -- keyword arguments `k=k`
deriving DecidableEq, Repr

structure Wrapper where
  fn : String
  params : List String
  ctorArgs : List String   -- arguments of the class instantiation, e.g. `Overlap(basis)`
  coordVars : List CoordVar
  branches : List Branch
deriving Repr

/-! ## Semantics: the state is what is left of the collected sequence -/

/-- `all(x == lit for x in g)` on a generator: consumes up to and including the first mismatch -/
def consumeAll (lit : String) : List String → Bool × List String
  | [] => (true, [])
  | x :: xs => if x == lit then consumeAll lit xs else (false, xs)

/-- `any(x == lit for x in g)` on a generator: consumes up to and including the first match -/
def consumeAny (lit : String) : List String → Bool × List String
  | [] => (false, [])
  | x :: xs => if x == lit then (true, xs) else consumeAny lit xs

def evalG (kind : SeqKind) (hasTransform : Bool) : G → List String → Option (Bool × List String)
  | .transform, st => some (hasTransform, st)
  | .allEq _ lit, st =>
    match kind with
    | .list => some (st.all (· == lit), st)
    | .generator => some (consumeAll lit st)
    | .other => none
  | .anyEq _ lit, st =>
    match kind with
    | .list => some (st.any (· == lit), st)
    | .generator => some (consumeAny lit st)
    | .other => none
  | .strEq _ _, st => some (false, st)      -- a list or generator object never equals a string
  | .or a b, st =>
    match evalG kind hasTransform a st with
    | none => none
    | some (true, s1) => some (true, s1)
    | some (false, s1) => evalG kind hasTransform b s1
  | .not a, st =>
    match evalG kind hasTransform a st with
    | none => none
    | some (r, s1) => some (!r, s1)
  | .otherwise, st => some (true, st)
  | .other _, _ => none

/-- the method chosen and the coordinate-type list it would receive (`list(var)`) -/
def select (kind : SeqKind) (hasTransform : Bool) : List Branch → List String → Option (String × List String)
  | [], _ => none
  | b :: bs, st =>
    match evalG kind hasTransform b.guard st with
    | none => none
    | some (true, st') => some (b.method, st')
    | some (false, st') => select kind hasTransform bs st'

/-- what the documentation promises -/
def canon (hasTransform : Bool) (types : List String) : String × List String :=
  if hasTransform then ("construct_array_lincomb", types)
  else if types.all (· == "cartesian") then ("construct_array_cartesian", types)
  else if types.all (· == "spherical") then ("construct_array_spherical", types)
  else ("construct_array_mix", types)

/-! ## The criterion -/

/-- drop disjuncts that compare the collected sequence with a string (always false) -/
def normG : G → G
  | .or a (.strEq _ _) => normG a
  | .or a b => .or (normG a) (normG b)
  | .not a => .not (normG a)
  | g => g

def stdBranches (v : String) (extras : List String) : List Branch :=
  [ ⟨.transform, "construct_array_lincomb", ["transform", v], extras⟩,
    ⟨.allEq v "cartesian", "construct_array_cartesian", [], extras⟩,
    ⟨.allEq v "spherical", "construct_array_spherical", [], extras⟩,
    ⟨.otherwise, "construct_array_mix", [v], extras⟩ ]

def Branch.norm (b : Branch) : Branch := { b with guard := normG b.guard }

/-- parameters that every branch must forward by keyword -/
def extrasOf (params : List String) : List String :=
  params.filter fun p => !(["basis", "transform", "notation"].contains p)

/-- the standard four-way wrapper -/
def stdOk (w : Wrapper) : Bool :=
  match w.coordVars with
  | [cv] =>
    cv.kind == .list && cv.source == "basis" && w.ctorArgs == ["basis"] &&
      w.branches.map Branch.norm == stdBranches cv.name (extrasOf w.params)
  | _ => false

/-- `overlap_integral_asymmetric`: both bases carry their own types, everything goes through `lincomb` -/
def asymOk (w : Wrapper) : Bool :=
  w.ctorArgs == ["basis_one", "basis_two"] &&
  (match w.coordVars with
   | [c1, c2] =>
     c1.kind == .list && c1.source == "basis_one" && c2.kind == .list && c2.source == "basis_two" &&
       w.branches == [⟨.otherwise, "construct_array_lincomb",
         ["transform_one", "transform_two", c1.name, c2.name], []⟩]
   | _ => false)

def wrapperOk (w : Wrapper) : Bool :=
  if w.fn == "overlap_integral_asymmetric" then asymOk w else stdOk w

/-- the wrappers that must be present -/
def expectedWrappers : List String :=
  ["overlap_integral", "kinetic_energy_integral", "momentum_integral", "angular_momentum_integral",
   "moment_integral", "point_charge_integral", "electron_repulsion_integral",
   "overlap_integral_asymmetric", "evaluate_basis", "evaluate_deriv_basis"]

def allOk (ws : List Wrapper) : Bool :=
  ws.all wrapperOk && expectedWrappers.all fun n => ws.any fun w => w.fn == n

end GB.Dispatch
