import GBModel.Shell
/-!
# Density-type quantities as linear forms in `D(p; q)`

`D(p; q) = Σ_ab γ_ab ∂^p φ_a ∂^q φ_b` is what
`gbasis/evals/density.py::evaluate_deriv_reduced_density_matrix(p, q, γ, …)` returns.
Every function of `density.py` and `stress_tensor.py` is a linear combination of such symbols with
coefficients that are polynomials in the parameters `α`, `β`.  Here each of them is modelled by the
list of `(coefficient, p, q)` terms that the code's loops produce, in the code's loop order.

For a symmetric density matrix `D(p; q) = D(q; p)`; `Form.canon` orders every symbol (`p ≤ q`
lexicographically), merges equal symbols and drops zero coefficients, which gives a normal form that
can be compared with the forms extracted from the running implementation.
-/
namespace GB

abbrev Form := List (Rat × Comp × Comp)

def Comp.add (p q : Comp) : Comp := (p.1 + q.1, p.2.1 + q.2.1, p.2.2 + q.2.2)
def Comp.smul (n : Nat) (p : Comp) : Comp := (n * p.1, n * p.2.1, n * p.2.2)
def Comp.sub (p q : Comp) : Comp := (p.1 - q.1, p.2.1 - q.2.1, p.2.2 - q.2.2)
def Comp.e : Nat → Comp
  | 0 => (1, 0, 0)
  | 1 => (0, 1, 0)
  | _ => (0, 0, 1)
def Comp.zero : Comp := (0, 0, 0)
def Comp.le (p q : Comp) : Bool :=
  p.1 < q.1 || (p.1 == q.1 && (p.2.1 < q.2.1 || (p.2.1 == q.2.1 && p.2.2 ≤ q.2.2)))

def Form.scale (c : Rat) (f : Form) : Form := f.map fun t => (c * t.1, t.2.1, t.2.2)

/-- insert a term into a form kept sorted by symbol, merging equal symbols -/
def Form.insert (t : Rat × Comp × Comp) : Form → Form
  | [] => [t]
  | u :: us =>
    if u.2 == t.2 then (u.1 + t.1, u.2.1, u.2.2) :: us
    else if Comp.le u.2.1 t.2.1 && (u.2.1 != t.2.1 || Comp.le u.2.2 t.2.2) then u :: Form.insert t us
    else t :: u :: us

/-- normal form for a symmetric density matrix -/
def Form.canon (f : Form) : Form :=
  let oriented := f.map fun t => if Comp.le t.2.1 t.2.2 then t else (t.1, t.2.2, t.2.1)
  (oriented.foldl (fun acc t => Form.insert t acc) []).filter fun t => t.1 != 0

/-- value of a form for a given interpretation of the symbols -/
def Form.eval {K : Type} [Num K] (ofRat : Rat → K) (D : Comp → Comp → K) (f : Form) : K :=
  sumL (f.map fun t => ofRat t.1 * D t.2.1 t.2.2)

/-! ## `density.py` -/

/-- `evaluate_density` (before clipping): `D(0; 0)` -/
def densityForm : Form := [(1, Comp.zero, Comp.zero)]

/-- `evaluate_deriv_density(L, …)`: the loop over `l_x ≤ ⌊L_x/2⌋` with factor 2 (1 on the middle term
of an even `L_x`), `l_y ≤ L_y`, `l_z ≤ L_z`, binomial weights, symbols `D(l; L - l)` -/
def derivDensityForm (L : Comp) : Form :=
  (List.range (L.1 / 2 + 1)).flatMap fun lx =>
    let factor : Rat := if L.1 % 2 == 0 && 2 * lx == L.1 then 1 else 2
    (List.range (L.2.1 + 1)).flatMap fun ly =>
      (List.range (L.2.2 + 1)).map fun lz =>
        (factor * (choose L.1 lx * choose L.2.1 ly * choose L.2.2 lz : Nat),
          ((lx, ly, lz) : Comp), Comp.sub L (lx, ly, lz))

/-- the defining (full) Leibniz sum `Σ_{l ≤ L} C(L,l) D(l; L-l)` -/
def leibnizForm (L : Comp) : Form :=
  (List.range (L.1 + 1)).flatMap fun lx =>
    (List.range (L.2.1 + 1)).flatMap fun ly =>
      (List.range (L.2.2 + 1)).map fun lz =>
        (((choose L.1 lx * choose L.2.1 ly * choose L.2.2 lz : Nat) : Rat),
          ((lx, ly, lz) : Comp), Comp.sub L (lx, ly, lz))

/-- `evaluate_density_gradient`, component `i`: `2·D(e_i; 0)` -/
def gradientForm (i : Nat) : Form := [(2, Comp.e i, Comp.zero)]

/-- `evaluate_density_laplacian`: `Σ_i 2·D(2e_i; 0)` then `Σ_i 2·D(e_i; e_i)` -/
def laplacianForm : Form :=
  ((List.range 3).map fun i => ((2 : Rat), Comp.smul 2 (Comp.e i), Comp.zero))
    ++ ((List.range 3).map fun i => ((2 : Rat), Comp.e i, Comp.e i))

/-- `evaluate_density_hessian`, entry `(r, c)`: computed for the pair `(min, max)`,
`2·D(0; e_r + e_c) + 2·D(e_min; e_max)`, and mirrored -/
def hessianForm (r c : Nat) : Form :=
  let lo := min r c
  let hi := max r c
  [(2, Comp.zero, Comp.add (Comp.e lo) (Comp.e hi)), (2, Comp.e lo, Comp.e hi)]

/-- `evaluate_posdef_kinetic_energy_density` (before clipping): `½ Σ_i D(e_i; e_i)` -/
def posdefForm : Form := (List.range 3).map fun i => ((1/2 : Rat), Comp.e i, Comp.e i)

/-- `evaluate_general_kinetic_energy_density`: `t₊ + α ∇²ρ` (the Laplacian is skipped when `α = 0`) -/
def generalKEForm (α : Rat) : Form :=
  posdefForm ++ (if α != 0 then laplacianForm.scale α else [])

/-- the clipping rule applied to densities: `none` = `ValueError` -/
def clipRule (threshold : Rat) (vals : List Rat) : Option (List Rat) :=
  let m := vals.foldl min (vals.headD 0)
  if m < 0 && -m > threshold then none else some (vals.map fun v => max v 0)

/-! ## `stress_tensor.py` -/

/-- `evaluate_stress_tensor`, entry `(i, j)`: computed for `i ≤ j` and mirrored;
`-α·D(e_j; e_i)` (skipped if `α = 0`), `+(1-α)·D(e_i + e_j; 0)` (skipped if `α = 1`),
`-½β·∇²ρ` on the diagonal (skipped if `β = 0`) -/
def stressForm (α β : Rat) (i j : Nat) : Form :=
  let lo := min i j
  let hi := max i j
  (if α != 0 then [(-α, Comp.e hi, Comp.e lo)] else [])
    ++ (if α != 1 then [(1 - α, Comp.add (Comp.e hi) (Comp.e lo), Comp.zero)] else [])
    ++ (if lo == hi && β != 0 then laplacianForm.scale (-(1/2) * β) else [])

/-- `evaluate_ehrenfest_force`, component `i` (sum over `k`):
`α·D(2e_k; e_i) − (1-α)·D(2e_k + e_i; 0) − (1-2α)·D(e_k + e_i; e_k) + ½β·∂^{2e_k + e_i}ρ` -/
def forceForm (α β : Rat) (i : Nat) : Form :=
  (List.range 3).flatMap fun k =>
    (if α != 0 then [(α, Comp.smul 2 (Comp.e k), Comp.e i)] else [])
      ++ (if α != 1 then [(-(1 - α), Comp.add (Comp.smul 2 (Comp.e k)) (Comp.e i), Comp.zero)] else [])
      ++ (if α != 1/2 then [(-(1 - 2 * α), Comp.add (Comp.e k) (Comp.e i), Comp.e k)] else [])
      ++ (if β != 0 then (derivDensityForm (Comp.add (Comp.smul 2 (Comp.e k)) (Comp.e i))).scale ((1/2) * β)
          else [])

/-- `evaluate_ehrenfest_hessian`, entry `(i, j)` before the optional symmetrisation (sum over `k`) -/
def ehrenfestHessianRaw (α β : Rat) (i j : Nat) : Form :=
  (List.range 3).flatMap fun k =>
    let k2 := Comp.smul 2 (Comp.e k)
    (if α != 0 then [(α, Comp.add k2 (Comp.e j), Comp.e i), (α, k2, Comp.add (Comp.e i) (Comp.e j))] else [])
      ++ (if α != 1 then [(-(1 - α), Comp.add (Comp.add k2 (Comp.e i)) (Comp.e j), Comp.zero),
                          (-(1 - α), Comp.add k2 (Comp.e i), Comp.e j)] else [])
      ++ (if α != 1/2 then [(-(1 - 2 * α), Comp.add (Comp.add (Comp.e k) (Comp.e i)) (Comp.e j), Comp.e k),
                            (-(1 - 2 * α), Comp.add (Comp.e k) (Comp.e i), Comp.add (Comp.e k) (Comp.e j))] else [])
      ++ (if β != 0 then
            (derivDensityForm (Comp.add (Comp.add k2 (Comp.e i)) (Comp.e j))).scale ((1/2) * β) else [])

/-- with `symmetric=True`: `(H + Hᵀ)/2` -/
def ehrenfestHessianForm (α β : Rat) (symmetric : Bool) (i j : Nat) : Form :=
  if symmetric then
    (ehrenfestHessianRaw α β i j ++ ehrenfestHessianRaw α β j i).scale (1/2)
  else ehrenfestHessianRaw α β i j

end GB

namespace GB

/-- dispatcher used by the driver and by the extracted-code obligations:
name of the Python function, rational parameters, integer indices -/
def formOf (name : String) (q : List Rat) (n : List Nat) : Option Form :=
  match name, q, n with
  | "density", [], [] => some densityForm
  | "deriv_density", [], [a, b, c] => some (derivDensityForm (a, b, c))
  | "leibniz", [], [a, b, c] => some (leibnizForm (a, b, c))
  | "gradient", [], [i] => some (gradientForm i)
  | "laplacian", [], [] => some laplacianForm
  | "hessian", [], [r, c] => some (hessianForm r c)
  | "posdef_ke", [], [] => some posdefForm
  | "general_ke", [α], [] => some (generalKEForm α)
  | "stress", [α, β], [i, j] => some (stressForm α β i j)
  | "force", [α, β], [i] => some (forceForm α β i)
  | "ehrenfest_hessian", [α, β], [s, i, j] => some (ehrenfestHessianForm α β (s == 1) i j)
  | _, _, _ => none

def Form.toStr (f : Form) : String :=
  " ".intercalate (f.map fun t =>
    s!"{t.1.num}/{t.1.den}:{t.2.1.1},{t.2.1.2.1},{t.2.1.2.2}:{t.2.2.1},{t.2.2.2.1},{t.2.2.2.2}")

end GB
