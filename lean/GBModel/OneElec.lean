import GBModel.Assemble
/-!
# Point-charge (nuclear attraction) integrals

Model of `gbasis/integrals/_one_elec_int.py::_compute_one_elec_integrals` (Obara–Saika vertical
recursion on primitives, contraction, Head-Gordon–Pople horizontal recursion) and of
`PointChargeIntegral.construct_array_contraction` (shell swap, component selection, `-q`).

The Boys function is a parameter `boys T n` = table of `F_0(T) … F_{n-1}(T)`: the algebra of the recursions does
not depend on what it is.  Tables are total functions of their indices; only the part that the
final selection reads is materialised (the rest is reachable through the fall-back of `Tab`).
-/
namespace GB
variable {K : Type}

/-- rows `r 0 = init`, `r (a+1) = step a (r a) (r (a-1))`; returns `(r a, r (a-1))` -/
def rec2 {α : Type} (init dummy : α) (step : Nat → α → α → α) : Nat → α × α
  | 0 => (init, dummy)
  | a+1 => let p := rec2 init dummy step a; (step a p.1 p.2, p.1)

/-- the first `n` rows in one pass: `(#[r 0 … r (n-1)], r n, r (n-1))` -/
def rec2All {α : Type} (init dummy : α) (step : Nat → α → α → α) : Nat → Array α × α × α
  | 0 => (#[], init, dummy)
  | n+1 => let q := rec2All init dummy step n; (q.1.push q.2.1, step n q.2.1 q.2.2, q.2.1)

/-- table of the rows `r 0 … r (n-1)` -/
def rows2 {α : Type} (n : Nat) (init dummy : α) (step : Nat → α → α → α) : Tab α :=
  ⟨(rec2All init dummy step n).1, fun a => (rec2 init dummy step a).1⟩

section
variable [Num K]

/-- one Obara–Saika vertical step along an axis (`PA`, `PC` the components of `P-A`, `P-C` on that
axis, `h = 1/(2p)`), for auxiliary index `m`; `mMax` is the size of the `m` axis of the Python table:
the slice assignment `[:-1] … [1:]` leaves `m = mMax-1` untouched (zero).
`new[m] = PA·cur[m] − PC·cur[m+1] + a·h·(prev[m] − prev[m+1])` -/
def vertStep (PA PC h : K) (mMax a : Nat) (cur prev curU prevU : K) (m : Nat) : K :=
  if m + 1 < mMax then PA * cur - PC * curU + Num.nat a * h * (prev - prevU) else Num.nat 0

/-- x pass: `V[m, ax, 0, 0]` as `[ax][m]`; materialised for `m + ax < mMax` -/
def vertX (PA PC : Nat → K) (h : K) (mMax : Nat) (base : Nat → K) : Tab (Tab K) :=
  rows2 mMax (tab mMax base) (tab 0 fun _ => Num.nat 0) fun a cur prev =>
    tab (mMax - (a + 1)) fun m =>
      vertStep (PA 0) (PC 0) h mMax a (cur.get m) (prev.get m) (cur.get (m+1)) (prev.get (m+1)) m

/-- y pass: `V[m, ax, ay, 0]` as `[ay][ax][m]` -/
def vertXY (PA PC : Nat → K) (h : K) (mMax : Nat) (base : Nat → K) : Tab (Tab (Tab K)) :=
  rows2 mMax (vertX PA PC h mMax base) (tab 0 fun _ => tab 0 fun _ => Num.nat 0) fun a cur prev =>
    tab (mMax - (a + 1)) fun ax => tab (mMax - (a + 1) - ax) fun m =>
      vertStep (PA 1) (PC 1) h mMax a (cur.get2 ax m) (prev.get2 ax m) (cur.get2 ax (m+1))
        (prev.get2 ax (m+1)) m

/-- z pass: `V[m, ax, ay, az]` as `[az][ay][ax][m]` -/
def vertXYZ (PA PC : Nat → K) (h : K) (mMax : Nat) (base : Nat → K) : Tab4 K :=
  rows2 mMax (vertXY PA PC h mMax base) (tab 0 fun _ => tab 0 fun _ => tab 0 fun _ => Num.nat 0)
    fun a cur prev =>
      tab (mMax - (a + 1)) fun ay => tab (mMax - (a + 1) - ay) fun ax =>
        tab (mMax - (a + 1) - ay - ax) fun m =>
          vertStep (PA 2) (PC 2) h mMax a (cur.get3 ay ax m) (prev.get3 ay ax m)
            (cur.get3 ay ax (m+1)) (prev.get3 ay ax (m+1)) m

/-- rows `r 0 = init`, `r (b+1) = step b (r b)` -/
def rec1 {α : Type} (init : α) (step : Nat → α → α) : Nat → α
  | 0 => init
  | b+1 => step b (rec1 init step b)

def rec1All {α : Type} (init : α) (step : Nat → α → α) : Nat → Array α × α
  | 0 => (#[], init)
  | n+1 => let q := rec1All init step n; (q.1.push q.2, step n q.2)

def rows1 {α : Type} (n : Nat) (init : α) (step : Nat → α → α) : Tab α :=
  ⟨(rec1All init step n).1, fun b => rec1 init step b⟩

/-- one horizontal step: `new[a] = old[a+1] + AB·old[a]`; the slice `[:-1] … [1:]` leaves the
last index `a = n-1` of the Python table untouched (zero) -/
def horizStep (AB : K) (n : Nat) (old oldU : K) (a : Nat) : K :=
  if a + 1 < n then oldU + AB * old else Num.nat 0

/-- Head-Gordon–Pople horizontal recursion on all three axes: from `h0[ax][ay][az]` (a table with
`n` entries per axis) to `H[bz][by][bx][ax][ay][az]` for `b_i ≤ lb`, where on each axis
`H[b+1][a] = H[b][a+1] + AB·H[b][a]` (`AB` = component of `A - B`).  The x pass runs with
`by = bz = 0`, the y pass for every `bx`, the z pass for every `bx, by`, as in the code.
Materialised for `ax ≤ la` after the x pass and `ay ≤ la` after the y pass: this is what a final
selection with `a_i ≤ la` reads. -/
def horiz3 (AB : Nat → K) (n lb la : Nat) (h0 : Tab3 K) : Tab3 (Tab3 K) :=
  -- x: [bx][ax][ay][az]
  let hx : Tab (Tab3 K) := rows1 (lb + 1) h0 fun b old =>
    tab3 (n - (b + 1)) n n fun ax ay az =>
      horizStep (AB 0) n (old.get3 ax ay az) (old.get3 (ax+1) ay az) ax
  -- y: [by][bx][ax][ay][az]
  let hy : Tab (Tab (Tab3 K)) := rows1 (lb + 1) (tab (lb + 1) fun bx => hx.get bx) fun b old =>
    tab (lb + 1) fun bx => tab3 (la + 1) (n - (b + 1)) n fun ax ay az =>
      horizStep (AB 1) n ((old.get bx).get3 ax ay az) ((old.get bx).get3 ax (ay+1) az) ay
  -- z: [bz][by][bx][ax][ay][az]
  rows1 (lb + 1) (tab (lb + 1) fun by' => tab (lb + 1) fun bx => (hy.get by').get bx) fun b old =>
    tab2 (lb + 1) (lb + 1) fun by' bx => tab3 (la + 1) (la + 1) (n - (b + 1)) fun ax ay az =>
      horizStep (AB 2) n ((old.get2 by' bx).get3 ax ay az) ((old.get2 by' bx).get3 ax ay (az+1)) az

end

section
variable [Transc K]

/-- `_compute_one_elec_integrals` + selection for one point `C`:
`[ma][ca][mb][cb]` of `∫ g_a g_b / |r - C|`-type integrals with the code's normalisation
(`la ≥ lb` is required here; the caller swaps). -/
def oneElecBlockOrdered (boys : K → Nat → Tab K) (s t : Shell K) (Cpt : Nat → K) : Tab4 K :=
  let la := s.l
  let lb := t.l
  let mMax := la + lb + 1
  -- contracted vertical integrals [az][ay][ax][ma][mb]
  let prim : Tab (Tab (Tab4 K)) := tab2 s.nprim t.nprim fun ka kb =>
    let a := s.exp! ka
    let b := t.exp! kb
    let p := a + b
    let P : Nat → K := fun i => (a * s.ctr i + b * t.ctr i) / p
    let PA : Nat → K := fun i => P i - s.ctr i
    let PC : Nat → K := fun i => P i - Cpt i
    let ab2 := sumN 3 fun i => (s.ctr i - t.ctr i) * (s.ctr i - t.ctr i)
    let pc2 := sumN 3 fun i => PC i * PC i
    let F := boys (p * pc2) mMax
    let pref := Num.nat 2 * Transc.pi / p * Transc.exp (-(a * b / p * ab2))
    vertXYZ PA PC (Num.nat 1 / (Num.nat 2 * p)) mMax (fun m => pref * F.get m)
  let ra : Tab K := tab s.nprim fun ka => normRad (s.exp! ka) la
  let rb : Tab K := tab t.nprim fun kb => normRad (t.exp! kb) lb
  let cont : Tab (Tab (Tab (Tab (Tab K)))) :=
    tab mMax fun az => tab (mMax - az) fun ay => tab (mMax - az - ay) fun ax =>
      tab2 s.nseg t.nseg fun ma mb =>
        sumN s.nprim fun ka => sumN t.nprim fun kb =>
          (prim.get2 ka kb).get4 az ay ax 0 * ra.get ka * s.coef! ka ma * (rb.get kb * t.coef! kb mb)
  let AB : Nat → K := fun i => s.ctr i - t.ctr i
  -- horizontal recursion for every (ma, mb); outside the part of the contracted table that the
  -- vertical recursion fills correctly (ax + ay + az < mMax) the entries are never read: 0 here
  let hz : Tab (Tab (Tab3 (Tab3 K))) := tab2 s.nseg t.nseg fun ma mb =>
    let h0 : Tab3 K := tab3 mMax mMax mMax fun ax ay az =>
      if ax + ay + az < mMax then ((cont.get az).get ay |>.get ax).get2 ma mb else Num.nat 0
    horiz3 AB mMax lb la h0
  blockTab s t fun ma ca mb cb =>
    let a := s.comp! ca
    let b := t.comp! cb
    ((hz.get2 ma mb).get3 b.2.2 b.2.1 b.1).get3 a.1 a.2.1 a.2.2 * normAng a * normAng b

/-- `PointChargeIntegral.construct_array_contraction` for one point charge `q` at `C`:
the shells are exchanged when `l_a < l_b` and the result transposed back. -/
def pointChargeBlock (boys : K → Nat → Tab K) (s t : Shell K) (Cpt : Nat → K) (q : K) : Tab4 K :=
  if s.l < t.l then
    let blk := oneElecBlockOrdered boys t s Cpt
    blockTab s t fun ma ca mb cb => -q * blk.get4 mb cb ma ca
  else
    let blk := oneElecBlockOrdered boys s t Cpt
    blockTab s t fun ma ca mb cb => -q * blk.get4 ma ca mb cb

end
end GB
