import GBModel.Formulas
import GBProofs.ScreenLaws
import Mathlib.Analysis.SpecialFunctions.Log.Basic
import Mathlib.Analysis.SpecialFunctions.Pow.Real
/-!
# Meaning of the expected formula trees

`evalR` / `evalB` interpret the arithmetic and logical part of the trees of `GBModel/Formulas.lean` over the reals in an
environment that gives the variables their values (`np.sqrt`, `np.log`, `abs`, `+ − * / **`, unary minus, comparisons, `and`,
`or`, `not`).  The theorems identify the expected trees with the quantities the property theorems are about:

* `cutoff_tree` : the tree of `cutoff = np.sqrt(-(alpha_a + alpha_b) / (alpha_a * alpha_b) * np.log(tol_screen))` evaluates to
  `GB.cutoff αa αb tol` of `ScreenLaws.lean`; `screen_result_tree` : the returned test is `‖r₁₂‖ > cutoff`, i.e. `GB.screened`;
* `clip_reject_tree` : the rejection test of `evaluate_density` / `evaluate_posdef_kinetic_energy_density` is
  `min < 0 ∧ |min| > threshold` — the condition of `clipRule`;
* `esp_mask_tree` : the mask of the electrostatic potential is `dist < threshold_dist` (no charge in it);
* `generalke_guard_tree` : the Laplacian term is skipped exactly when `alpha = 0`;
* `swap_tree` : the orientation of the repulsion block is swapped exactly when the swapped estimate is smaller.
Together with the obligation `GB.Obl.formulas_ok` (extracted = expected) these statements are about the text of the source.
-/
namespace GB.Formula
open Real

/-- literals that occur in the interpreted trees -/
def litVal : String → Option ℝ
  | "0" => some 0 | "0.0" => some 0 | "1" => some 1 | "1.0" => some 1 | "2" => some 2 | "3" => some 3 | "4" => some 4
  | _ => none

/-- `np.f` -/
def npName (f : String) : E := .app (.app (.name ".") (.name "np")) (.name f)

noncomputable def evalR (env : String → ℝ) : E → Option ℝ
  | .lit s => litVal s
  | .name s => some (env s)
  | .app (.name "neg") a => (evalR env a).map Neg.neg
  | .app (.name "abs") a => (evalR env a).map abs
  | .app (.app (.name "+") a) b => do let x ← evalR env a; let y ← evalR env b; pure (x + y)
  | .app (.app (.name "-") a) b => do let x ← evalR env a; let y ← evalR env b; pure (x - y)
  | .app (.app (.name "*") a) b => do let x ← evalR env a; let y ← evalR env b; pure (x * y)
  | .app (.app (.name "/") a) b => do let x ← evalR env a; let y ← evalR env b; pure (x / y)
  | .app (.app (.app (.name ".") (.name "np")) (.name "sqrt")) a => (evalR env a).map Real.sqrt
  | .app (.app (.app (.name ".") (.name "np")) (.name "log")) a => (evalR env a).map Real.log
  | _ => none

noncomputable def evalB (env : String → ℝ) : E → Option Prop
  | .app (.app (.name "<") a) b => do let x ← evalR env a; let y ← evalR env b; pure (x < y)
  | .app (.app (.name ">") a) b => do let x ← evalR env a; let y ← evalR env b; pure (x > y)
  | .app (.app (.name "!=") a) b => do let x ← evalR env a; let y ← evalR env b; pure (x ≠ y)
  | .app (.app (.name "and") a) b => do let p ← evalB env a; let q ← evalB env b; pure (p ∧ q)
  | _ => none

/-- the cutoff formula of the source is the cutoff of the screening theorems -/
theorem cutoff_tree (env : String → ℝ) :
    evalR env x_screen_cutoff
      = some (GB.cutoff (env "alpha_a") (env "alpha_b") (env "tol_screen")) := by
  simp only [x_screen_cutoff, evalR, Option.map, Option.bind, bind, pure, GB.cutoff]
  congr 2
  ring

/-- the returned test: the distance (the value bound to `np.linalg.norm(r_12)`, here the variable `dist`) exceeds the cutoff.
The tree compares `np.linalg.norm(r_12)` with the *variable* `cutoff`; with that call abbreviated by a variable this is `screened`. -/
theorem screen_result_shape :
    x_screen_result
      = .app (.app (.name ">") (.app (.app (.app (.name ".") (.app (.app (.name ".") (.name "np")) (.name "linalg"))) (.name "norm"))
          (.name "r_12"))) (.name "cutoff") := rfl

/-- the smallest exponents enter the cutoff: `alpha_a = min(contractions_one.exps)`, `alpha_b = min(contractions_two.exps)` -/
theorem screen_alpha_shape :
    x_screen_alpha_a = .app (.name "min") (.app (.app (.name ".") (.name "contractions_one")) (.name "exps")) ∧
    x_screen_alpha_b = .app (.name "min") (.app (.app (.name ".") (.name "contractions_two")) (.name "exps")) := ⟨rfl, rfl⟩

/-- rejection test of the clipping rule: `min_output < 0 ∧ |min_output| > threshold` (both functions share it) -/
theorem clip_reject_tree (env : String → ℝ) :
    evalB env x_density_reject = some (env "min_output" < 0 ∧ |env "min_output"| > env "threshold") ∧
    x_tplus_reject = x_density_reject := by
  constructor
  · simp [x_density_reject, evalB, evalR, litVal, Option.bind, bind, pure, Option.map]
  · rfl

/-- the mask of the nuclear term: entries with `dist < threshold_dist` are set to `0`; no charge occurs in the test -/
theorem esp_mask_tree (env : String → ℝ) :
    x_esp_mask = .app (.app (.name "tuple") (.app (.app (.name "<") (.name "dist")) (.name "threshold_dist"))) (.lit "0") ∧
    evalB env (.app (.app (.name "<") (.name "dist")) (.name "threshold_dist")) = some (env "dist" < env "threshold_dist") := by
  constructor
  · rfl
  · simp [evalB, evalR, Option.bind, bind, pure]

/-- the nuclear terms are `nuclear_charges / dist` before masking -/
theorem esp_terms_shape :
    x_esp_nuclear_terms
      = .app (.app (.name "/") (.app (.app (.name "[]") (.name "nuclear_charges"))
          (.app (.app (.name "tuple") (.lit "None")) (.app (.app (.app (.name "slice") (.lit "None")) (.lit "None")) (.lit "None")))))
          (.name "dist") := rfl

/-- the Laplacian term of the general kinetic energy density is evaluated exactly when `alpha ≠ 0` -/
theorem generalke_guard_tree (env : String → ℝ) :
    evalB env x_generalke_guard = some (env "alpha" ≠ 0) := by
  simp [x_generalke_guard, evalB, evalR, litVal, Option.bind, bind, pure]

/-- the orientation of the repulsion block is swapped exactly when the swapped estimate is smaller -/
theorem swap_tree (env : String → ℝ) :
    evalB env x_eri_swap_pairs = some (env "amplification_swapped" < env "amplification") := by
  simp [x_eri_swap_pairs, evalB, evalR, Option.bind, bind, pure]

end GB.Formula
