import GBModel.Assemble
import Mathlib.Data.List.Basic
import Mathlib.Tactic.Ring

/-!
# Layout of assembled arrays: *shell, then segment, then component*

* `locate_offset`, `locate_lt`: `Basis.locate` inverts `(i, m, f) ↦ offset i + m · nfun + f`.
* `entry2_layout`: the entry of a two-index array at that position is the normalised,
  transformed block entry of the shell pair.
* `assemble2_get`: `assemble2` is the row-major flat array of `entry2`.
* `entry2_append`: the array of `(B₁, B₂)` is the block (rows of `B₁`, columns of `B₂`)
  of the array of the union basis `B₁ ++ B₂`.
-/
namespace GB
variable {K : Type}

/-! ## sums of shell sizes -/

theorem foldl_size_eq (l : List (Shell K)) (a : Nat) :
    l.foldl (fun n s => n + s.size) a = a + (l.map Shell.size).sum := by
  induction l generalizing a with
  | nil => simp
  | cons x xs ih => simp [ih, Nat.add_assoc]

theorem total_eq_sum (b : Basis K) : b.total = (b.toList.map Shell.size).sum := by
  unfold Basis.total
  rw [← Array.foldl_toList, foldl_size_eq]; simp

theorem offset_eq_sum (b : Basis K) (i : Nat) :
    b.offset i = ((b.toList.take i).map Shell.size).sum := by
  unfold Basis.offset
  rw [foldl_size_eq]; simp

theorem offset_zero (b : Basis K) : b.offset 0 = 0 := by
  simp [offset_eq_sum]

theorem offset_succ (b : Basis K) (i : Nat) (hi : i < b.size) :
    b.offset (i + 1) = b.offset i + b[i].size := by
  have hl : i < b.toList.length := by simpa using hi
  simp only [offset_eq_sum]
  rw [List.take_succ_eq_append_getElem hl]
  simp

theorem total_eq_offset_size (b : Basis K) : b.total = b.offset b.size := by
  rw [total_eq_sum, offset_eq_sum]
  have : b.toList.take b.size = b.toList := by
    apply List.take_of_length_le; simp
  rw [this]

theorem offset_of_size_le (b : Basis K) (i : Nat) (hi : b.size ≤ i) : b.offset i = b.total := by
  rw [total_eq_sum, offset_eq_sum]
  have : b.toList.take i = b.toList := by
    apply List.take_of_length_le; simpa using hi
  rw [this]

theorem offset_mono (b : Basis K) {i j : Nat} (hij : i ≤ j) : b.offset i ≤ b.offset j := by
  induction j with
  | zero =>
    have : i = 0 := by omega
    subst this; exact Nat.le_refl _
  | succ j ih =>
    by_cases h : i = j + 1
    · subst h; exact Nat.le_refl _
    · have h1 : b.offset i ≤ b.offset j := ih (by omega)
      by_cases hj : j < b.size
      · rw [offset_succ b j hj]; omega
      · rw [offset_of_size_le b (j + 1) (by omega)]
        rw [offset_of_size_le b j (by omega)] at h1
        exact h1

theorem offset_le_total (b : Basis K) (i : Nat) : b.offset i ≤ b.total := by
  by_cases h : i ≤ b.size
  · rw [total_eq_offset_size]; exact offset_mono b h
  · rw [offset_of_size_le b i (by omega)]

theorem offset_add_size_le_total (b : Basis K) (i : Nat) (hi : i < b.size) :
    b.offset i + b[i].size ≤ b.total := by
  rw [← offset_succ b i hi]; exact offset_le_total b (i + 1)

/-! ## `locate` -/

/-- the loop of `locate`, started at shell `k` with residual index `r`, finds the shell `i`
and the position `x` inside it whenever `offset k + r = offset i + x` with `x < size i` -/
theorem locate_go_offset (b : Basis K) (i : Nat) (hi : i < b.size) (x : Nat)
    (hx : x < b[i].size) :
    ∀ (fuel k r : Nat), k ≤ i → i < k + fuel → b.offset k + r = b.offset i + x →
      Basis.locate.go b k fuel r = (i, x / b[i].nfun, x % b[i].nfun) := by
  intro fuel
  induction fuel with
  | zero => intro k r h1 h2; omega
  | succ fuel ih =>
    intro k r hk hf hr
    have hkb : k < b.size := by omega
    rw [Basis.locate.go]
    have hsome : b[k]? = some b[k] := Array.getElem?_eq_getElem hkb
    rw [hsome]
    simp only
    by_cases hki : k = i
    · subst hki
      have : r = x := by omega
      subst this
      rw [if_pos hx]
    · have hlt : k + 1 ≤ i := by omega
      have hm := offset_mono b hlt
      rw [offset_succ b k hkb] at hm
      have hnot : ¬ r < b[k].size := by omega
      rw [if_neg hnot]
      apply ih (k + 1) (r - b[k].size) hlt (by omega)
      rw [offset_succ b k hkb]; omega

theorem locate_offset' (b : Basis K) (i : Nat) (hi : i < b.size) (x : Nat) (hx : x < b[i].size) :
    b.locate (b.offset i + x) = (i, x / b[i].nfun, x % b[i].nfun) := by
  unfold Basis.locate
  apply locate_go_offset b i hi x hx b.size 0 (b.offset i + x) (Nat.zero_le _) (by omega)
  rw [offset_zero]; omega

theorem seg_fun_lt_size {s : Shell K} {m f : Nat} (hm : m < s.nseg) (hf : f < s.nfun) :
    m * s.nfun + f < s.size := by
  unfold Shell.size
  calc m * s.nfun + f < m * s.nfun + s.nfun := by omega
    _ = (m + 1) * s.nfun := by rw [Nat.add_mul, Nat.one_mul]
    _ ≤ s.nseg * s.nfun := Nat.mul_le_mul_right _ hm

theorem mul_add_div_self {a n e : Nat} (he : e < n) : (a * n + e) / n = a := by
  have hn : 0 < n := by omega
  rw [Nat.add_comm, Nat.add_mul_div_right _ _ hn, Nat.div_eq_of_lt he, Nat.zero_add]

theorem mul_add_mod_self {a n e : Nat} (he : e < n) : (a * n + e) % n = e := by
  rw [Nat.add_comm, Nat.add_mul_mod_self_right, Nat.mod_eq_of_lt he]

/-- **Layout, item 1**: the basis index of function `f` of segment `m` of shell `i` is
`offset i + m · nfun + f`. -/
theorem locate_offset (b : Basis K) (i : Nat) (hi : i < b.size) (m f : Nat)
    (hm : m < b[i].nseg) (hf : f < b[i].nfun) :
    b.locate (b.offset i + m * b[i].nfun + f) = (i, m, f) := by
  rw [Nat.add_assoc, locate_offset' b i hi _ (seg_fun_lt_size hm hf),
    mul_add_div_self hf, mul_add_mod_self hf]

/-- existence: the loop started at shell `k` with `offset k + r < total` stops at an
in-range shell and in-range position -/
theorem locate_go_spec (b : Basis K) :
    ∀ (fuel k r : Nat), k + fuel = b.size → b.offset k + r < b.total →
      ∃ (i : Nat) (hi : i < b.size) (x : Nat), x < b[i].size ∧ b.offset i + x = b.offset k + r ∧
        Basis.locate.go b k fuel r = (i, x / b[i].nfun, x % b[i].nfun) := by
  intro fuel
  induction fuel with
  | zero =>
    intro k r hk hr
    rw [offset_of_size_le b k (by omega)] at hr; omega
  | succ fuel ih =>
    intro k r hk hr
    have hkb : k < b.size := by omega
    rw [Basis.locate.go]
    have hsome : b[k]? = some b[k] := Array.getElem?_eq_getElem hkb
    rw [hsome]
    simp only
    by_cases hlt : r < b[k].size
    · rw [if_pos hlt]
      exact ⟨k, hkb, r, hlt, rfl, rfl⟩
    · rw [if_neg hlt]
      have hs := offset_succ b k hkb
      obtain ⟨i, hi, x, hx, hox, hgo⟩ := ih (k + 1) (r - b[k].size) (by omega) (by omega)
      exact ⟨i, hi, x, hx, by omega, hgo⟩

theorem locate_spec (b : Basis K) (r : Nat) (hr : r < b.total) :
    ∃ (i : Nat) (hi : i < b.size) (x : Nat), x < b[i].size ∧ b.offset i + x = r ∧
      b.locate r = (i, x / b[i].nfun, x % b[i].nfun) := by
  obtain ⟨i, hi, x, hx, hox, hgo⟩ := locate_go_spec b b.size 0 r (by omega) (by rw [offset_zero]; omega)
  refine ⟨i, hi, x, hx, ?_, hgo⟩
  rw [hox, offset_zero]; omega

/-- `locate` of an in-range basis index is an in-range triple `(i, m, f)` that `offset`
maps back to the index.  (No positivity hypothesis is needed: empty shells are skipped.) -/
theorem locate_lt (b : Basis K) (r : Nat) (hr : r < b.total) :
    ∃ (hi : (b.locate r).1 < b.size),
      (b.locate r).2.1 < b[(b.locate r).1].nseg ∧
      (b.locate r).2.2 < b[(b.locate r).1].nfun ∧
      b.offset (b.locate r).1 + (b.locate r).2.1 * b[(b.locate r).1].nfun + (b.locate r).2.2 = r := by
  obtain ⟨i, hi, x, hx, hox, hloc⟩ := locate_spec b r hr
  rw [hloc]
  refine ⟨hi, ?_⟩
  show x / b[i].nfun < b[i].nseg ∧ x % b[i].nfun < b[i].nfun ∧
    b.offset i + x / b[i].nfun * b[i].nfun + x % b[i].nfun = r
  unfold Shell.size at hx
  have hpos : 0 < b[i].nfun := by
    rcases Nat.eq_zero_or_pos b[i].nfun with h | h
    · rw [h] at hx; simp at hx
    · exact h
  refine ⟨?_, Nat.mod_lt _ hpos, ?_⟩
  · apply Nat.div_lt_of_lt_mul; rw [Nat.mul_comm]; exact hx
  · have := Nat.div_add_mod x b[i].nfun
    rw [Nat.mul_comm] at this
    omega

/-! ## `entry2` -/

section
variable [Transc K]

theorem pairBlocks_get (b1 b2 : Basis K) (nextra : Nat) (blk : Nat → Nat → Tab (Tab4 K))
    (i j e : Nat) (hi : i < b1.size) (hj : j < b2.size) :
    ((pairBlocks b1 b2 nextra blk).get2 i j).get e
      = wBlock2 b1[i] b2[j] b1[i].weights b2[j].weights ((blk i j).get e) := by
  unfold pairBlocks
  simp only [tab2_get, tab_get]
  rw [Array.getElem?_eq_getElem hi, Array.getElem?_eq_getElem hj]
  simp [Array.getD, hi, hj]

/-- **Layout, item 2**: the entry at row `offset i + m·nfun + f`, column `offset j + n·nfun + g`
is entry `(m, f, n, g)` of the normalised and transformed block of the shell pair `(i, j)`. -/
theorem entry2_layout (b1 b2 : Basis K) (nextra : Nat) (blk : Nat → Nat → Tab (Tab4 K))
    (i j : Nat) (hi : i < b1.size) (hj : j < b2.size) (m f n g e : Nat)
    (hm : m < b1[i].nseg) (hf : f < b1[i].nfun) (hn : n < b2[j].nseg) (hg : g < b2[j].nfun) :
    entry2 b1 b2 (pairBlocks b1 b2 nextra blk)
        (b1.offset i + m * b1[i].nfun + f) (b2.offset j + n * b2[j].nfun + g) e
      = (wBlock2 b1[i] b2[j] b1[i].weights b2[j].weights ((blk i j).get e)).get4 m f n g := by
  unfold entry2
  simp only [locate_offset b1 i hi m f hm hf, locate_offset b2 j hj n g hn hg]
  rw [pairBlocks_get b1 b2 nextra blk i j e hi hj]

/-! ## the flat array -/

theorem assemble2_size (b1 b2 : Basis K) (nextra : Nat) (blk : Nat → Nat → Tab (Tab4 K)) :
    (assemble2 b1 b2 nextra blk).size = b1.total * b2.total * nextra := by
  simp [assemble2]

theorem flat_index_lt {nr nc ne r c e : Nat} (hr : r < nr) (hc : c < nc) (he : e < ne) :
    (r * nc + c) * ne + e < nr * nc * ne := by
  have h1 : r * nc + c < nr * nc := by
    calc r * nc + c < r * nc + nc := by omega
      _ = (r + 1) * nc := by rw [Nat.add_mul, Nat.one_mul]
      _ ≤ nr * nc := Nat.mul_le_mul_right _ hr
  calc (r * nc + c) * ne + e < (r * nc + c) * ne + ne := by omega
    _ = (r * nc + c + 1) * ne := by rw [Nat.add_mul (r * nc + c) 1 ne, Nat.one_mul]
    _ ≤ nr * nc * ne := Nat.mul_le_mul_right _ h1

theorem flat_index_row {nc ne r c e : Nat} (hc : c < nc) (he : e < ne) :
    ((r * nc + c) * ne + e) / (nc * ne) = r := by
  rw [Nat.mul_comm nc ne, ← Nat.div_div_eq_div_mul, mul_add_div_self he, mul_add_div_self hc]

theorem flat_index_col {nc ne r c e : Nat} (hc : c < nc) (he : e < ne) :
    ((r * nc + c) * ne + e) / ne % nc = c := by
  rw [mul_add_div_self he, mul_add_mod_self hc]

theorem flat_index_extra {nc ne r c e : Nat} (he : e < ne) :
    ((r * nc + c) * ne + e) % ne = e := mul_add_mod_self he

/-- **Layout, item 3** (`getElem` form): `assemble2` is row-major `[r][c][e]`. -/
theorem assemble2_getElem (b1 b2 : Basis K) (nextra : Nat) (blk : Nat → Nat → Tab (Tab4 K))
    (r c e : Nat) (hc : c < b2.total) (he : e < nextra)
    (h : (r * b2.total + c) * nextra + e < (assemble2 b1 b2 nextra blk).size) :
    (assemble2 b1 b2 nextra blk)[(r * b2.total + c) * nextra + e]
      = entry2 b1 b2 (pairBlocks b1 b2 nextra blk) r c e := by
  simp only [assemble2, Array.getElem_ofFn]
  rw [flat_index_row hc he, flat_index_col hc he, flat_index_extra he]

/-- **Layout, item 3**: `assemble2` is row-major `[r][c][e]`. -/
theorem assemble2_get [Inhabited K] (b1 b2 : Basis K) (nextra : Nat)
    (blk : Nat → Nat → Tab (Tab4 K))
    (r c e : Nat) (hr : r < b1.total) (hc : c < b2.total) (he : e < nextra) :
    (assemble2 b1 b2 nextra blk)[(r * b2.total + c) * nextra + e]!
      = entry2 b1 b2 (pairBlocks b1 b2 nextra blk) r c e := by
  have h : (r * b2.total + c) * nextra + e < (assemble2 b1 b2 nextra blk).size := by
    rw [assemble2_size]; exact flat_index_lt hr hc he
  rw [getElem!_pos (assemble2 b1 b2 nextra blk) ((r * b2.total + c) * nextra + e) h]
  exact assemble2_getElem b1 b2 nextra blk r c e hc he h

end

/-! ## appended bases -/

theorem total_append (b1 b2 : Basis K) : Basis.total (b1 ++ b2) = b1.total + b2.total := by
  simp [total_eq_sum]

theorem offset_append_left (b1 b2 : Basis K) (i : Nat) (hi : i ≤ b1.size) :
    Basis.offset (b1 ++ b2) i = b1.offset i := by
  simp only [offset_eq_sum, Array.toList_append]
  rw [List.take_append_of_le_length (by simpa using hi)]

theorem offset_append_right (b1 b2 : Basis K) (j : Nat) :
    Basis.offset (b1 ++ b2) (b1.size + j) = b1.total + b2.offset j := by
  simp only [offset_eq_sum, total_eq_sum, Array.toList_append]
  have : b1.size = b1.toList.length := by simp
  rw [this, List.take_length_add_append]
  simp

theorem getElem_append_left' (b1 b2 : Basis K) (i : Nat) (hi : i < b1.size)
    (h : i < (b1 ++ b2).size) : (b1 ++ b2)[i] = b1[i] :=
  Array.getElem_append_left hi

theorem getElem_append_right' (b1 b2 : Basis K) (j : Nat) (hj : j < b2.size)
    (h : b1.size + j < (b1 ++ b2).size) : (b1 ++ b2)[b1.size + j] = b2[j] := by
  rw [Array.getElem_append_right (by omega)]
  simp

/-- rows of the first basis keep their place in the union -/
theorem locate_append_left (b1 b2 : Basis K) (r : Nat) (hr : r < b1.total) :
    Basis.locate (b1 ++ b2) r = b1.locate r := by
  obtain ⟨i, hi, x, hx, hox, hloc⟩ := locate_spec b1 r hr
  have hiu : i < (b1 ++ b2).size := by rw [Array.size_append]; omega
  have hget := getElem_append_left' b1 b2 i hi hiu
  have := locate_offset' (b1 ++ b2) i hiu x (by rw [hget]; exact hx)
  rw [offset_append_left b1 b2 i (by omega), hox, hget] at this
  rw [this, hloc]

/-- functions of the second basis come after all functions of the first, shell index shifted
by the number of shells of the first -/
theorem locate_append_right (b1 b2 : Basis K) (c : Nat) (hc : c < b2.total) :
    Basis.locate (b1 ++ b2) (b1.total + c)
      = (b1.size + (b2.locate c).1, (b2.locate c).2.1, (b2.locate c).2.2) := by
  obtain ⟨j, hj, x, hx, hox, hloc⟩ := locate_spec b2 c hc
  have hju : b1.size + j < (b1 ++ b2).size := by rw [Array.size_append]; omega
  have hget := getElem_append_right' b1 b2 j hj hju
  have := locate_offset' (b1 ++ b2) (b1.size + j) hju x (by rw [hget]; exact hx)
  rw [offset_append_right b1 b2 j, Nat.add_assoc, hox, hget] at this
  rw [this, hloc]

section
variable [Transc K]

/-- **Asymmetric = block of the union.**  If the block function of the union basis restricted
to (shell `i` of `b1`, shell `j` of `b2`) is the block function of the pair of bases, then the
two-index array of `(b1, b2)` is the sub-array (rows of `b1`, columns of `b2`) of the array of
`b1 ++ b2` with itself. -/
theorem entry2_append (b1 b2 : Basis K) (nextra : Nat) (blk blkU : Nat → Nat → Tab (Tab4 K))
    (hblk : ∀ i j, i < b1.size → j < b2.size → blkU i (b1.size + j) = blk i j)
    (r c e : Nat) (hr : r < b1.total) (hc : c < b2.total) :
    entry2 (b1 ++ b2) (b1 ++ b2) (pairBlocks (b1 ++ b2) (b1 ++ b2) nextra blkU) r (b1.total + c) e
      = entry2 b1 b2 (pairBlocks b1 b2 nextra blk) r c e := by
  obtain ⟨i, hi, x, hx, hox, hlr⟩ := locate_spec b1 r hr
  obtain ⟨j, hj, y, hy, hoy, hlc⟩ := locate_spec b2 c hc
  have hiu : i < (b1 ++ b2).size := by rw [Array.size_append]; omega
  have hju : b1.size + j < (b1 ++ b2).size := by rw [Array.size_append]; omega
  unfold entry2
  simp only [locate_append_left b1 b2 r hr, locate_append_right b1 b2 c hc, hlr, hlc]
  rw [pairBlocks_get (b1 ++ b2) (b1 ++ b2) nextra blkU i (b1.size + j) e hiu hju,
    pairBlocks_get b1 b2 nextra blk i j e hi hj,
    getElem_append_left' b1 b2 i hi hiu, getElem_append_right' b1 b2 j hj hju,
    hblk i j hi hj]

/-- the same statement for the flat arrays: the asymmetric array is the `(rows of b1, columns
of b2)` block of the symmetric array of the union basis -/
theorem assemble2_append [Inhabited K] (b1 b2 : Basis K) (nextra : Nat)
    (blk blkU : Nat → Nat → Tab (Tab4 K))
    (hblk : ∀ i j, i < b1.size → j < b2.size → blkU i (b1.size + j) = blk i j)
    (r c e : Nat) (hr : r < b1.total) (hc : c < b2.total) (he : e < nextra) :
    (assemble2 (b1 ++ b2) (b1 ++ b2) nextra blkU)[(r * (b1.total + b2.total) + (b1.total + c)) * nextra + e]!
      = (assemble2 b1 b2 nextra blk)[(r * b2.total + c) * nextra + e]! := by
  rw [assemble2_get b1 b2 nextra blk r c e hr hc he]
  have h := assemble2_get (b1 ++ b2) (b1 ++ b2) nextra blkU r (b1.total + c) e
    (by rw [total_append]; omega) (by rw [total_append]; omega) he
  rw [total_append] at h
  rw [h]
  exact entry2_append b1 b2 nextra blk blkU hblk r c e hr hc

end

end GB

