import GBProofs.BlockContraction
import GBProofs.Layout

/-!
# Layout of a basis in which one shell is replaced (C13, array level — the index bookkeeping)

* `Basis.splitColumns b i` — shell `i` replaced by its `nseg` single-column shells
  `b[i].column 0, …, b[i].column (nseg-1)`, in that order, all other shells unchanged;
  `Basis.splitColumns_total`, `Basis.splitColumns_locate`, `Basis.splitColumns_shell`:
  the number of functions is unchanged and basis index `r` names the same function.
* `Basis.mapShell b i op` — shell `i` replaced by `op b[i]`; when `op` keeps `nseg` and `nfun`,
  `Basis.mapShell_total`, `Basis.mapShell_locate`, `Basis.mapShell_shell`.
-/
namespace GB

section Generic
variable {K : Type}

/-! ## three-part bases -/

theorem locate_append3_left (A M P : Basis K) (r : ℕ) (hr : r < A.total) :
    Basis.locate (A ++ M ++ P) r = A.locate r := by
  rw [locate_append_left (A ++ M) P r (by rw [total_append]; omega), locate_append_left A M r hr]

theorem locate_append3_mid (A M P : Basis K) (x : ℕ) (hx : x < M.total) :
    Basis.locate (A ++ M ++ P) (A.total + x)
      = (A.size + (M.locate x).1, (M.locate x).2.1, (M.locate x).2.2) := by
  rw [locate_append_left (A ++ M) P _ (by rw [total_append]; omega)]
  exact locate_append_right A M x hx

theorem locate_append3_right (A M P : Basis K) (x : ℕ) (hx : x < P.total) :
    Basis.locate (A ++ M ++ P) (A.total + M.total + x)
      = (A.size + M.size + (P.locate x).1, (P.locate x).2.1, (P.locate x).2.2) := by
  have := locate_append_right (A ++ M) P x hx
  rw [total_append, Array.size_append] at this
  exact this

/-! ## bases of equally large single-segment shells -/

theorem offset_uniform (M : Basis K) (n : ℕ) (h : ∀ j (hj : j < M.size), M[j].size = n) :
    ∀ j, j ≤ M.size → M.offset j = j * n := by
  intro j
  induction j with
  | zero => intro _; rw [offset_zero]; simp
  | succ j ih =>
    intro hj
    rw [offset_succ M j (by omega), ih (by omega), h j (by omega), Nat.succ_mul]

theorem locate_uniform (M : Basis K) (n : ℕ)
    (h : ∀ j (hj : j < M.size), M[j].nseg = 1 ∧ M[j].nfun = n)
    (x : ℕ) (hx : x < M.size * n) : M.locate x = (x / n, 0, x % n) := by
  have hn : 0 < n := by
    rcases Nat.eq_zero_or_pos n with h0 | h0
    · subst h0; simp at hx
    · exact h0
  have hj : x / n < M.size := Nat.div_lt_of_lt_mul (by rwa [Nat.mul_comm] at hx)
  have hsz : ∀ j (hj : j < M.size), M[j].size = n := fun j hj => by
    unfold Shell.size; rw [(h j hj).1, (h j hj).2, Nat.one_mul]
  have hoff := offset_uniform M n hsz (x / n) hj.le
  have hxm : x % n < M[x / n].size := by rw [hsz _ hj]; exact Nat.mod_lt _ hn
  have key := locate_offset' M (x / n) hj (x % n) hxm
  rw [hoff, Nat.div_add_mod' x n] at key
  rw [key, (h _ hj).2, Nat.mod_mod, Nat.div_eq_of_lt (Nat.mod_lt _ hn)]

theorem total_singleton (s : Shell K) : Basis.total (#[s] : Basis K) = s.size := by
  simp [total_eq_sum]

theorem locate_singleton (s : Shell K) (x : ℕ) (hx : x < s.size) :
    Basis.locate (#[s] : Basis K) x = (0, x / s.nfun, x % s.nfun) := by
  have key := locate_offset' (#[s] : Basis K) 0 (by simp) x (by simpa using hx)
  rw [offset_zero, Nat.zero_add] at key
  simpa using key

/-! ## cutting a basis at shell `i` -/

/-- the shells before shell `i` -/
def Basis.pre (b : Basis K) (i : ℕ) : Basis K := (b.toList.take i).toArray
/-- the shells after shell `i` -/
def Basis.post (b : Basis K) (i : ℕ) : Basis K := (b.toList.drop (i + 1)).toArray

theorem Basis.pre_size (b : Basis K) (i : ℕ) (hi : i ≤ b.size) : (b.pre i).size = i := by
  simp [Basis.pre]; omega

theorem Basis.post_size (b : Basis K) (i : ℕ) : (b.post i).size = b.size - (i + 1) := by
  simp [Basis.post]

theorem Basis.eq_pre_append_post (b : Basis K) (i : ℕ) (hi : i < b.size) :
    b = b.pre i ++ #[b[i]] ++ b.post i := by
  apply Array.ext'
  have hl : i < b.toList.length := by simpa using hi
  simp only [Basis.pre, Basis.post, Array.toList_append, List.append_assoc]
  have h1 : b.toList.drop i = b.toList[i] :: b.toList.drop (i + 1) := List.drop_eq_getElem_cons hl
  have h2 : b.toList[i] = b[i] := by simp
  conv_lhs => rw [← List.take_append_drop i b.toList, h1, h2]
  simp

theorem Basis.pre_getElem (b : Basis K) (i j : ℕ) (hj : j < i) (hi : i ≤ b.size)
    (h : j < (b.pre i).size) : (b.pre i)[j] = b[j] := by
  simp [Basis.pre]

theorem Basis.post_getElem (b : Basis K) (i p : ℕ) (h : p < (b.post i).size)
    (h' : i + 1 + p < b.size) : (b.post i)[p] = b[i + 1 + p] := by
  simp [Basis.post]

/-! ## bases with the same shape -/

theorem offset_congr (b b' : Basis K) (hsz : b'.size = b.size)
    (h : ∀ j (hj : j < b.size) (hj' : j < b'.size), b'[j].size = b[j].size) :
    ∀ j, j ≤ b.size → b'.offset j = b.offset j := by
  intro j
  induction j with
  | zero => intro _; rw [offset_zero, offset_zero]
  | succ j ih =>
    intro hj
    rw [offset_succ b j (by omega), offset_succ b' j (by omega), ih (by omega),
      h j (by omega) (by omega)]

theorem total_congr (b b' : Basis K) (hsz : b'.size = b.size)
    (h : ∀ j (hj : j < b.size) (hj' : j < b'.size), b'[j].size = b[j].size) :
    b'.total = b.total := by
  rw [total_eq_offset_size, total_eq_offset_size, hsz]
  exact offset_congr b b' hsz h b.size (Nat.le_refl _)

theorem locate_go_congr (b b' : Basis K) (hsz : b'.size = b.size)
    (h : ∀ j (hj : j < b.size) (hj' : j < b'.size),
      b'[j].nseg = b[j].nseg ∧ b'[j].nfun = b[j].nfun) :
    ∀ (fuel i r : ℕ), Basis.locate.go b' i fuel r = Basis.locate.go b i fuel r := by
  intro fuel
  induction fuel with
  | zero => intro i r; rfl
  | succ fuel ih =>
    intro i r
    rw [Basis.locate.go, Basis.locate.go]
    by_cases hi : i < b.size
    · have hi' : i < b'.size := by omega
      rw [Array.getElem?_eq_getElem hi, Array.getElem?_eq_getElem hi']
      simp only
      have hs : b'[i].size = b[i].size := by
        unfold Shell.size; rw [(h i hi hi').1, (h i hi hi').2]
      rw [hs, (h i hi hi').2, ih]
    · have hi' : ¬ i < b'.size := by omega
      rw [Array.getElem?_eq_none (by omega), Array.getElem?_eq_none (by omega)]

/-- two bases with the same numbers of segments and functions shell by shell assign basis indices
in the same way -/
theorem locate_congr (b b' : Basis K) (hsz : b'.size = b.size)
    (h : ∀ j (hj : j < b.size) (hj' : j < b'.size),
      b'[j].nseg = b[j].nseg ∧ b'[j].nfun = b[j].nfun) (r : ℕ) :
    b'.locate r = b.locate r := by
  unfold Basis.locate
  rw [hsz]
  exact locate_go_congr b b' hsz h b.size 0 r

end Generic

section Ops
variable {K : Type} [Transc K]

/-! ## replacing shell `i` by `op b[i]` -/

/-- the basis in which shell `i` is replaced by `op b[i]` -/
def Basis.mapShell (b : Basis K) (i : ℕ) (op : Shell K → Shell K) : Basis K := b.modify i op

omit [Transc K] in
theorem Basis.mapShell_size (b : Basis K) (i : ℕ) (op : Shell K → Shell K) :
    (b.mapShell i op).size = b.size := by
  simp [Basis.mapShell]

omit [Transc K] in
theorem Basis.mapShell_getElem (b : Basis K) (i : ℕ) (op : Shell K → Shell K) (j : ℕ)
    (hj : j < b.size) (hj' : j < (b.mapShell i op).size) :
    (b.mapShell i op)[j] = if i = j then op b[j] else b[j] := by
  simp [Basis.mapShell, Array.getElem_modify]

theorem Basis.mapShell_getElem! (b : Basis K) (i : ℕ) (op : Shell K → Shell K) (j : ℕ)
    (hj : j < b.size) :
    (b.mapShell i op)[j]! = if j = i then op b[j]! else b[j]! := by
  rw [getElem!_pos (b.mapShell i op) j (by rw [Basis.mapShell_size]; exact hj),
    getElem!_pos b j hj, Basis.mapShell_getElem b i op j hj]
  by_cases h : i = j
  · rw [if_pos h, if_pos h.symm]
  · rw [if_neg h, if_neg (fun h' => h h'.symm)]

omit [Transc K] in
theorem Basis.mapShell_shape (b : Basis K) (i : ℕ) (op : Shell K → Shell K) (hi : i < b.size)
    (hseg : (op b[i]).nseg = b[i].nseg) (hfun : (op b[i]).nfun = b[i].nfun)
    (j : ℕ) (hj : j < b.size) (hj' : j < (b.mapShell i op).size) :
    (b.mapShell i op)[j].nseg = b[j].nseg ∧ (b.mapShell i op)[j].nfun = b[j].nfun := by
  rw [Basis.mapShell_getElem b i op j hj]
  by_cases h : i = j
  · subst h; rw [if_pos rfl]; exact ⟨hseg, hfun⟩
  · rw [if_neg h]; exact ⟨rfl, rfl⟩

omit [Transc K] in
/-- the number of basis functions is unchanged -/
theorem Basis.mapShell_total (b : Basis K) (i : ℕ) (op : Shell K → Shell K) (hi : i < b.size)
    (hseg : (op b[i]).nseg = b[i].nseg) (hfun : (op b[i]).nfun = b[i].nfun) :
    (b.mapShell i op).total = b.total := by
  refine total_congr b _ (Basis.mapShell_size b i op) fun j hj hj' => ?_
  have := Basis.mapShell_shape b i op hi hseg hfun j hj hj'
  unfold Shell.size; rw [this.1, this.2]

omit [Transc K] in
/-- every basis index names the same (shell, segment, function) -/
theorem Basis.mapShell_locate (b : Basis K) (i : ℕ) (op : Shell K → Shell K) (hi : i < b.size)
    (hseg : (op b[i]).nseg = b[i].nseg) (hfun : (op b[i]).nfun = b[i].nfun) (r : ℕ) :
    (b.mapShell i op).locate r = b.locate r :=
  locate_congr b _ (Basis.mapShell_size b i op)
    (fun j hj hj' => Basis.mapShell_shape b i op hi hseg hfun j hj hj') r

/-! ## splitting a generalized shell into its columns -/

/-- the single-column shells of `s`, in the order of the columns -/
def Shell.columns (s : Shell K) : Basis K := Array.ofFn (n := s.nseg) fun m => s.column m.val

/-- the basis in which shell `i` is replaced by its `nseg` single-column shells
`b[i].column 0, …, b[i].column (nseg-1)`, in that order (all other shells unchanged; `b` itself if
there is no shell `i`) -/
def Basis.splitColumns (b : Basis K) (i : ℕ) : Basis K :=
  if h : i < b.size then b.pre i ++ b[i].columns ++ b.post i else b

theorem Shell.columns_size (s : Shell K) : s.columns.size = s.nseg := by
  simp [Shell.columns]

theorem Shell.columns_getElem (s : Shell K) (m : ℕ) (h : m < s.columns.size) :
    s.columns[m] = s.column m := by
  simp [Shell.columns]

theorem column_nseg' (s : Shell K) (m : ℕ) (h : 0 < s.nseg) : (s.column m).nseg = 1 := by
  unfold Shell.nseg at h ⊢
  cases h0 : s.coefs[0]? with
  | none => rw [h0] at h; simp at h
  | some r =>
    have hsz : 0 < s.coefs.size := by
      by_contra hc
      rw [Array.getElem?_eq_none (by omega)] at h0
      cases h0
    simp [Shell.column, hsz]

theorem column_nfun (s : Shell K) (m : ℕ) : (s.column m).nfun = s.nfun := rfl

theorem Shell.columns_shape (s : Shell K) (j : ℕ) (hj : j < s.columns.size) :
    s.columns[j].nseg = 1 ∧ s.columns[j].nfun = s.nfun := by
  rw [Shell.columns_getElem]
  have : j < s.nseg := by rwa [Shell.columns_size] at hj
  exact ⟨column_nseg' s j (by omega), rfl⟩

theorem Shell.columns_total (s : Shell K) : s.columns.total = s.size := by
  rw [total_eq_offset_size, offset_uniform s.columns s.nfun (fun j hj => by
    unfold Shell.size
    rw [(Shell.columns_shape s j hj).1, (Shell.columns_shape s j hj).2, Nat.one_mul])
    s.columns.size (Nat.le_refl _), Shell.columns_size]
  rfl

theorem Shell.columns_locate (s : Shell K) (x : ℕ) (hx : x < s.size) :
    s.columns.locate x = (x / s.nfun, 0, x % s.nfun) :=
  locate_uniform s.columns s.nfun (Shell.columns_shape s) x (by rw [Shell.columns_size]; exact hx)

/-- the number of basis functions is unchanged -/
theorem Basis.splitColumns_total (b : Basis K) (i : ℕ) : (b.splitColumns i).total = b.total := by
  unfold Basis.splitColumns
  by_cases hi : i < b.size
  · rw [dif_pos hi]
    conv_rhs => rw [Basis.eq_pre_append_post b i hi]
    simp only [total_append, Shell.columns_total, total_singleton]
  · rw [dif_neg hi]

/-- `locate` in `A ++ #[s] ++ P` and in `A ++ s.columns ++ P` -/
theorem locate_split_aux (A P : Basis K) (s : Shell K) (r : ℕ)
    (hr : r < Basis.total (A ++ #[s] ++ P)) :
    Basis.locate (A ++ s.columns ++ P) r
      = if (Basis.locate (A ++ #[s] ++ P) r).1 < A.size then Basis.locate (A ++ #[s] ++ P) r
        else if (Basis.locate (A ++ #[s] ++ P) r).1 = A.size then
          (A.size + (Basis.locate (A ++ #[s] ++ P) r).2.1, 0, (Basis.locate (A ++ #[s] ++ P) r).2.2)
        else ((Basis.locate (A ++ #[s] ++ P) r).1 + s.nseg - 1,
          (Basis.locate (A ++ #[s] ++ P) r).2.1, (Basis.locate (A ++ #[s] ++ P) r).2.2) := by
  simp only [total_append, total_singleton] at hr
  by_cases h1 : r < A.total
  · rw [locate_append3_left A _ P r h1, locate_append3_left A _ P r h1]
    obtain ⟨hlt, -⟩ := locate_lt A r h1
    rw [if_pos hlt]
  · by_cases h2 : r < A.total + s.size
    · obtain ⟨x, rfl⟩ : ∃ x, r = A.total + x := ⟨r - A.total, by omega⟩
      have hx : x < s.size := by omega
      rw [locate_append3_mid A s.columns P x (by rw [Shell.columns_total]; exact hx),
        locate_append3_mid A #[s] P x (by rw [total_singleton]; exact hx),
        Shell.columns_locate s x hx, locate_singleton s x hx]
      simp
    · obtain ⟨x, rfl⟩ : ∃ x, r = A.total + s.size + x := ⟨r - A.total - s.size, by omega⟩
      have hx : x < P.total := by omega
      have e1 := locate_append3_right A s.columns P x hx
      rw [Shell.columns_total, Shell.columns_size] at e1
      have e2 := locate_append3_right A #[s] P x hx
      rw [total_singleton] at e2
      rw [e1, e2]
      have ha : ¬ (A.size + (#[s] : Basis K).size + (P.locate x).1 < A.size) := by omega
      have hb : ¬ (A.size + (#[s] : Basis K).size + (P.locate x).1 = A.size) := by
        simp only [List.size_toArray, List.length_cons, List.length_nil]; omega
      simp only [ha, hb, if_false]
      congr 1
      simp
      omega

/-- **The key layout fact.**  Basis index `r` of `b.splitColumns i` names the same function as basis
index `r` of `b`: a function `(i, m, f)` of the split shell is function `f` of the single segment of
shell `i + m` of the new basis; functions of earlier shells keep their place; functions of later
shells have their shell index shifted by `nseg - 1`. -/
theorem Basis.splitColumns_locate (b : Basis K) (i : ℕ) (hi : i < b.size) (r : ℕ)
    (hr : r < b.total) :
    (b.splitColumns i).locate r
      = if (b.locate r).1 < i then b.locate r
        else if (b.locate r).1 = i then (i + (b.locate r).2.1, 0, (b.locate r).2.2)
        else ((b.locate r).1 + b[i].nseg - 1, (b.locate r).2.1, (b.locate r).2.2) := by
  have hb := Basis.eq_pre_append_post b i hi
  have key := locate_split_aux (b.pre i) (b.post i) b[i] r (by rw [← hb]; exact hr)
  rw [← hb, Basis.pre_size b i hi.le] at key
  unfold Basis.splitColumns
  rw [dif_pos hi]
  exact key

theorem Basis.splitColumns_size (b : Basis K) (i : ℕ) (hi : i < b.size) :
    (b.splitColumns i).size = i + b[i].nseg + (b.size - (i + 1)) := by
  unfold Basis.splitColumns
  rw [dif_pos hi]
  simp only [Array.size_append, Basis.pre_size b i hi.le, Shell.columns_size, Basis.post_size]

/-- shells before shell `i` are unchanged -/
theorem Basis.splitColumns_getElem_lt (b : Basis K) (i : ℕ) (hi : i < b.size) (j : ℕ) (hj : j < i) :
    (b.splitColumns i)[j]! = b[j]! := by
  have hsz := Basis.splitColumns_size b i hi
  rw [getElem!_pos _ j (by omega), getElem!_pos b j (by omega)]
  unfold Basis.splitColumns
  simp only [dif_pos hi]
  have hp := Basis.pre_size b i hi.le
  rw [Array.getElem_append_left (by rw [Array.size_append]; omega),
    Array.getElem_append_left (by omega)]
  exact Basis.pre_getElem b i j hj hi.le (by omega)

/-- shell `i + m` of the new basis is the `m`-th column of shell `i` -/
theorem Basis.splitColumns_getElem_mid (b : Basis K) (i : ℕ) (hi : i < b.size) (m : ℕ)
    (hm : m < b[i].nseg) : (b.splitColumns i)[i + m]! = b[i].column m := by
  have hsz := Basis.splitColumns_size b i hi
  rw [getElem!_pos _ (i + m) (by omega)]
  unfold Basis.splitColumns
  simp only [dif_pos hi]
  have hp := Basis.pre_size b i hi.le
  rw [Array.getElem_append_left (by rw [Array.size_append, Shell.columns_size]; omega),
    Array.getElem_append_right (by omega)]
  simp only [hp, Nat.add_sub_cancel_left]
  exact Shell.columns_getElem b[i] m (by rw [Shell.columns_size]; exact hm)

/-- shells after shell `i` are unchanged, at a position shifted by `nseg - 1` -/
theorem Basis.splitColumns_getElem_gt (b : Basis K) (i : ℕ) (hi : i < b.size) (j : ℕ) (hj : i < j)
    (hjb : j < b.size) : (b.splitColumns i)[j + b[i].nseg - 1]! = b[j]! := by
  have hsz := Basis.splitColumns_size b i hi
  rw [getElem!_pos _ (j + b[i].nseg - 1) (by omega), getElem!_pos b j hjb]
  unfold Basis.splitColumns
  simp only [dif_pos hi]
  have hp := Basis.pre_size b i hi.le
  rw [Array.getElem_append_right (by rw [Array.size_append, Shell.columns_size]; omega)]
  have hpost := Basis.post_getElem b i (j - (i + 1)) (by rw [Basis.post_size]; omega) (by omega)
  have e : j + b[i].nseg - 1 - (b.pre i ++ b[i].columns).size = j - (i + 1) := by
    rw [Array.size_append, Shell.columns_size, hp]; omega
  simp only [e]
  rw [hpost]
  congr 1
  omega

/-- **The shell that basis index `r` belongs to** in the split basis: the column
`b[i].column m` if `r` is function `(i, m, f)` of the original basis, the original shell otherwise. -/
theorem Basis.splitColumns_shell (b : Basis K) (i : ℕ) (hi : i < b.size) (r : ℕ)
    (hr : r < b.total) :
    (b.splitColumns i)[((b.splitColumns i).locate r).1]!
      = if (b.locate r).1 = i then b[i].column (b.locate r).2.1 else b[(b.locate r).1]! := by
  obtain ⟨hlt, hm, -, -⟩ := locate_lt b r hr
  rw [Basis.splitColumns_locate b i hi r hr]
  by_cases h1 : (b.locate r).1 < i
  · rw [if_pos h1, if_neg (by omega)]
    exact Basis.splitColumns_getElem_lt b i hi _ h1
  · rw [if_neg h1]
    by_cases h2 : (b.locate r).1 = i
    · rw [if_pos h2, if_pos h2]
      simp only [h2] at hm
      exact Basis.splitColumns_getElem_mid b i hi _ hm
    · rw [if_neg h2, if_neg h2]
      exact Basis.splitColumns_getElem_gt b i hi _ (by omega) hlt

end Ops

end GB
