import GBProofs.SphRotation.Laplace
import GBProofs.SphRotation.Dim
import GBProofs.SphRotation.Span
import GBProofs.SphRotation.Model
import GBProofs.SphRotation.Metric
import GBProofs.SphRotation.Rep
/-!
# Pure (spherical) shells are closed under rotation (C12)

The rotated solid harmonics of degree `l` are linear combinations of the solid harmonics of
degree `l`, so arrays over pure shells transform with orthogonal `(2l+1)×(2l+1)` matrices `W`.
Summary (all in namespace `GB`; `M` a real `3×3` matrix with `M Mᵀ = 1`, `R` a linear isometry of
`E3`, proper or improper; `g` an affine isometry):

**A. `SphRotation/Laplace.lean`** (general)
* `pderiv_aeval_chain` — chain rule for `pderiv` of a substitution;
* `substM M` — the substitution `p ↦ p ∘ M` (`eval_substM`, `substM_monoP : substM M x^c = rotPoly M c`);
* `lapMv`, `lapMv_substM` — **the Laplacian commutes with orthogonal substitutions**;
* `substM_homog` — homogeneity is preserved; `matOf_orthogonal` — the matrix of a linear isometry
  is orthogonal.

**B. `SphRotation/Dim.lean`** (every `l`)
* `Harm l` — the real vector space of harmonic homogeneous polynomials of degree `l`;
* `eq_zero_of_lapMv_eq_zero`, `harmCoords_injective` — a harmonic polynomial is determined by its
  coefficients with `z`-exponent `0` or `1`;
* `finrank_Harm_le : finrank ℝ (Harm l) ≤ 2l+1`.

**C. `SphRotation/Span.lean`** (`l ≤ 10`, every accepted spherical order `ValidSph l ls`)
* `sphHarm l lab` — the model's spherical function as a polynomial; `sphHarm_eq_sum`:
  `sphHarm l lab = Σ_a T[lab,a] · N^ang(a) · x^a` over every full component list;
  `sphHarm_mem_Harm`;
* `sphFam_linearIndependent`, `sphFam_span`, `finrank_Harm : finrank ℝ (Harm l) = 2l+1`,
  `harm_expand`;
* `exists_sphRep` — `Y_{l,f} ∘ M = Σ_{f'} W f f' · Y_{l,f'}`.

**D. `SphRotation/Model.lean`, `SphRotation/Rep.lean`**
* `transEntry_mul_repMat`, `exists_sphRep_matrix`, `transTab_mul_repMat` — `T · D(R) = W · T`;
* `sphShellFnE`, `sphShellFn_moved` — the spherical functions of the moved shell (existence form);
* `sphRep R l ls = T · D(R) · S · Tᵀ` — the explicit matrix; `sphRepM_unique`, `sphRep_substM`,
  `transTab_mul_sphRep`, `sphShellFnE_moved`; with the contraction norm (`Shell.weights`):
  `sphFnE`, `sphFnE_moved`.

**E. `SphRotation/Metric.lean`, `SphRotation/Rep.lean`**
* `repMat_Sov` — `D S Dᵀ = S`: the one-centre overlap metric is invariant;
* `sphRepM_orthogonal`, `sphRep_orthogonal` — `W Wᵀ = 1`.
-/
