import GBProofs.ArrayDefiniteness
import GBProofs.ScreenLaws

/-!
# Overlap screening for the assembled overlap array of a whole basis (C20)

`ScreenLaws.lean` states the documented rule of `is_integral_screened` for two real exponents and a
distance.  This file lifts it to the array the model assembles for a basis (`entry2 b b (pairBlocks …)`,
flat form `assemble2 …`): every shell, Cartesian and spherical, after `norm_cont` and the
Cartesian → spherical transformation.

* §1 `Shell.minExp`, `shellDist`, `pairScreened`, `overlapBlkScreened`.
* §2 `screened_array_entry` (a removed block is a block of zeros of the array, a kept block is the block
  of the unscreened array), `screened_array_none`, `screened_array_mono`, `screened_array_symm`, and the
  same for the flat arrays.
* §3 s-type shells: `sBlock_entry_eq` (an element of an s–s block of the unscreened, normalised array is
  `± Σ_k Σ_l c̃_k c̃'_l · sOverlap α_k β_l d`), `screened_array_conservative_le`,
  `screened_array_conservative` (every removed s-type element is below
  `tol · (Σ_k |c̃_k|)(Σ_l |c̃'_l|)`), `screened_array_conservative_regular`,
  `screened_array_error`.
-/
open Real

namespace GB

/-! ## 1. The screening predicate of a pair of shells -/
section Defs

/-- smallest exponent of a shell (`min(contractions.exps)`); `0` for a shell without primitives -/
noncomputable def Shell.minExp (s : Shell ℝ) : ℝ :=
  if h : 0 < s.nprim then
    (Finset.range s.nprim).inf' ⟨0, Finset.mem_range.2 h⟩ (fun k => s.exp! k)
  else 0

theorem Shell.minExp_le (s : Shell ℝ) (k : ℕ) (hk : k < s.nprim) : s.minExp ≤ s.exp! k := by
  unfold Shell.minExp
  rw [dif_pos (by omega : 0 < s.nprim)]
  exact Finset.inf'_le (fun k => s.exp! k) (Finset.mem_range.2 hk)

/-- the smallest exponent is one of the exponents -/
theorem Shell.minExp_mem (s : Shell ℝ) (h : 0 < s.nprim) : ∃ k < s.nprim, s.minExp = s.exp! k := by
  unfold Shell.minExp
  rw [dif_pos h]
  obtain ⟨k, hk, he⟩ := Finset.exists_mem_eq_inf' ⟨0, Finset.mem_range.2 h⟩ (fun k => s.exp! k)
  exact ⟨k, Finset.mem_range.1 hk, he⟩

theorem Shell.minExp_pos (s : Shell ℝ) (h : 0 < s.nprim) (hs : ∀ k < s.nprim, 0 < s.exp! k) :
    0 < s.minExp := by
  obtain ⟨k, hk, he⟩ := s.minExp_mem h
  rw [he]; exact hs k hk

theorem Shell.minExp_nonneg (s : Shell ℝ) (hs : ∀ k < s.nprim, 0 < s.exp! k) : 0 ≤ s.minExp := by
  by_cases h : 0 < s.nprim
  · exact (s.minExp_pos h hs).le
  · unfold Shell.minExp; rw [dif_neg h]

/-- Euclidean distance of the centres of two shells (`np.linalg.norm(r_12)`) -/
noncomputable def shellDist (s t : Shell ℝ) : ℝ :=
  Real.sqrt ((s.ctr 0 - t.ctr 0) ^ 2 + (s.ctr 1 - t.ctr 1) ^ 2 + (s.ctr 2 - t.ctr 2) ^ 2)

theorem shellDist_nonneg (s t : Shell ℝ) : 0 ≤ shellDist s t := Real.sqrt_nonneg _

theorem shellDist_sq (s t : Shell ℝ) :
    shellDist s t ^ 2
      = (s.ctr 0 - t.ctr 0) ^ 2 + (s.ctr 1 - t.ctr 1) ^ 2 + (s.ctr 2 - t.ctr 2) ^ 2 :=
  Real.sq_sqrt (by positivity)

theorem shellDist_comm (s t : Shell ℝ) : shellDist s t = shellDist t s := by
  unfold shellDist; congr 1; ring

/-- **`is_integral_screened(contractions_one, contractions_two, tol)`**: the documented cutoff, computed
from the tolerance and the smallest exponent of each shell, is exceeded by the distance of the centres -/
def pairScreened (tol : ℝ) (s t : Shell ℝ) : Prop :=
  screened s.minExp t.minExp (shellDist s t) tol

/-- the predicate says: the distance of the centres exceeds the documented cutoff
`√(-(a+b)/(ab) · ln tol)`, `a`, `b` the smallest exponents of the two shells -/
theorem pairScreened_iff (tol : ℝ) (s t : Shell ℝ) :
    pairScreened tol s t ↔ cutoff s.minExp t.minExp tol < shellDist s t := Iff.rfl

/-- equivalently (shells with primitives and positive exponents, `0 < tol < 1`): the Gaussian-product
factor of the two most diffuse primitives is below the tolerance -/
theorem pairScreened_iff_exp (tol : ℝ) (s t : Shell ℝ) (hsn : 0 < s.nprim) (htn : 0 < t.nprim)
    (hs : ∀ k < s.nprim, 0 < s.exp! k) (ht : ∀ k < t.nprim, 0 < t.exp! k) (ht0 : 0 < tol)
    (ht1 : tol < 1) :
    pairScreened tol s t
      ↔ Real.exp (-(s.minExp * t.minExp / (s.minExp + t.minExp)) * shellDist s t ^ 2) < tol :=
  screened_iff_exp _ _ _ tol (s.minExp_pos hsn hs) (t.minExp_pos htn ht)
    (Real.sqrt_nonneg _) ht0 ht1

noncomputable instance pairScreened.decidable (tol : ℝ) (s t : Shell ℝ) :
    Decidable (pairScreened tol s t) := Classical.propDecidable _

theorem cutoff_comm (αa αb tol : ℝ) : cutoff αa αb tol = cutoff αb αa tol := by
  unfold cutoff; rw [add_comm αa αb, mul_comm αa αb]

/-- the predicate is symmetric in the two shells -/
theorem pairScreened_comm (tol : ℝ) (s t : Shell ℝ) : pairScreened tol s t ↔ pairScreened tol t s := by
  unfold pairScreened screened
  rw [cutoff_comm, shellDist_comm]

/-- the cutoff decreases when the tolerance increases, for *non-negative* smallest exponents (for a
zero exponent Lean's `x / 0 = 0` makes the cutoff `0` at every tolerance) -/
theorem cutoff_anti_nonneg (αa αb tol tol' : ℝ) (ha : 0 ≤ αa) (hb : 0 ≤ αb) (ht' : 0 < tol')
    (hle : tol' ≤ tol) : cutoff αa αb tol ≤ cutoff αa αb tol' := by
  unfold cutoff
  apply Real.sqrt_le_sqrt
  have h1 : -(αa + αb) / (αa * αb) ≤ 0 :=
    div_nonpos_of_nonpos_of_nonneg (by linarith) (mul_nonneg ha hb)
  exact mul_le_mul_of_nonpos_left (Real.log_le_log ht' hle) h1

/-- **lowering the tolerance never screens more pairs** -/
theorem pairScreened_mono (tol tol' : ℝ) (s t : Shell ℝ) (hs : ∀ k < s.nprim, 0 < s.exp! k)
    (ht : ∀ k < t.nprim, 0 < t.exp! k) (ht' : 0 < tol') (hle : tol' ≤ tol)
    (h : pairScreened tol' s t) : pairScreened tol s t :=
  lt_of_le_of_lt
    (cutoff_anti_nonneg _ _ tol tol' (s.minExp_nonneg hs) (t.minExp_nonneg ht) ht' hle) h

/-- at `tol = 1` exactly the pairs with distinct centres are screened -/
theorem pairScreened_tol_one (s t : Shell ℝ) : pairScreened 1 s t ↔ 0 < shellDist s t :=
  screened_tol_one _ _ _

/-- whether the block of a pair is computed: always if no tolerance is given -/
noncomputable def keepPair (tol : Option ℝ) (s t : Shell ℝ) : Bool :=
  match tol with
  | none => true
  | some τ => !decide (pairScreened τ s t)

/-- the `blk` argument of `assemble2` for the overlap with screening tolerance `tol`
(`Overlap.construct_array_contraction(…, tol_screen)`): the block `overlapBlock b[i]! b[j]!` if no
tolerance is given or the pair is not screened, a block of zeros otherwise (`screenedBlock`) -/
noncomputable def overlapBlkScreened (tol : Option ℝ) (b : Basis ℝ) (i j : ℕ) : Tab (Tab4 ℝ) :=
  tab 1 fun _ => screenedBlock (keepPair tol b[i]! b[j]!) (overlapBlock b[i]! b[j]!)

theorem screenedBlock_true (blk : Tab4 ℝ) : screenedBlock true blk = blk := by
  simp [screenedBlock]

theorem screenedBlock_false_get4 (blk : Tab4 ℝ) (m a n a' : ℕ) :
    (screenedBlock false blk).get4 m a n a' = 0 := by
  simp [screenedBlock]

/-- no tolerance: the block function of the unscreened overlap -/
theorem overlapBlkScreened_none (b : Basis ℝ) : overlapBlkScreened none b = overlapBlk b := by
  funext i j
  simp only [overlapBlkScreened, overlapBlk, keepPair, screenedBlock_true]

theorem overlapBlkScreened_kept (tol : ℝ) (b : Basis ℝ) (i j : ℕ)
    (h : ¬ pairScreened tol b[i]! b[j]!) :
    overlapBlkScreened (some tol) b i j = overlapBlk b i j := by
  simp only [overlapBlkScreened, overlapBlk, keepPair, h, decide_false, Bool.not_false,
    screenedBlock_true]

theorem overlapBlkScreened_removed (tol : ℝ) (b : Basis ℝ) (i j : ℕ)
    (h : pairScreened tol b[i]! b[j]!) (e m a n a' : ℕ) :
    ((overlapBlkScreened (some tol) b i j).get e).get4 m a n a' = 0 := by
  simp only [overlapBlkScreened, keepPair, h, decide_true, Bool.not_true, tab_get,
    screenedBlock_false_get4]

end Defs

/-! ## 2. The screened array -/
section Array

/-- an entry of an assembled array depends only on the block of the shell pair it lies in -/
theorem entry2_congr_blk (b : Basis ℝ) (nextra : ℕ) (blk blk' : ℕ → ℕ → Tab (Tab4 ℝ)) (r c e : ℕ)
    (hr : r < b.total) (hc : c < b.total)
    (h : (blk (b.locate r).1 (b.locate c).1).get e = (blk' (b.locate r).1 (b.locate c).1).get e) :
    entry2 b b (pairBlocks b b nextra blk) r c e = entry2 b b (pairBlocks b b nextra blk') r c e := by
  obtain ⟨hi, -⟩ := locate_lt b r hr
  obtain ⟨hj, -⟩ := locate_lt b c hc
  unfold entry2
  simp only []
  rw [pairBlocks_get b b nextra blk _ _ e hi hj, pairBlocks_get b b nextra blk' _ _ e hi hj, h]

/-- **C20 for the assembled array.**  For basis indices `r, c` lying in the shells `shellOf b r`,
`shellOf b c`: the entry of the overlap array assembled with screening tolerance `tol` is `0` if the
pair of shells is screened, and is the entry of the unscreened array otherwise.  (The weights —
contraction norms and Cartesian → spherical matrices — multiply a block of zeros to zero; kept blocks
are untouched.) -/
theorem screened_array_entry (b : Basis ℝ) (tol : ℝ) (r c : ℕ) (hr : r < b.total) (hc : c < b.total) :
    entry2 b b (pairBlocks b b 1 (overlapBlkScreened (some tol) b)) r c 0
      = if pairScreened tol (shellOf b r) (shellOf b c) then 0
        else entry2 b b (pairBlocks b b 1 (overlapBlk b)) r c 0 := by
  by_cases h : pairScreened tol (shellOf b r) (shellOf b c)
  · rw [if_pos h, entry2_eq_sum b 1 _ r c 0 hr hc]
    refine Finset.sum_eq_zero fun a _ => Finset.sum_eq_zero fun a' _ => ?_
    rw [overlapBlkScreened_removed tol b _ _ h, mul_zero]
  · rw [if_neg h]
    refine entry2_congr_blk b 1 _ _ r c 0 hr hc ?_
    rw [overlapBlkScreened_kept tol b _ _ h]

/-- the same in layout coordinates: function `f` of segment `m` of shell `i` against function `g` of
segment `n` of shell `j` -/
theorem screened_array_entry_layout (b : Basis ℝ) (tol : ℝ) (i j : ℕ) (hi : i < b.size)
    (hj : j < b.size) (m f n g : ℕ) (hm : m < b[i].nseg) (hf : f < b[i].nfun) (hn : n < b[j].nseg)
    (hg : g < b[j].nfun) :
    entry2 b b (pairBlocks b b 1 (overlapBlkScreened (some tol) b))
        (b.offset i + m * b[i].nfun + f) (b.offset j + n * b[j].nfun + g) 0
      = if pairScreened tol b[i] b[j] then 0
        else entry2 b b (pairBlocks b b 1 (overlapBlk b))
          (b.offset i + m * b[i].nfun + f) (b.offset j + n * b[j].nfun + g) 0 := by
  have hr : b.offset i + m * b[i].nfun + f < b.total := by
    have := offset_add_size_le_total b i hi
    have := seg_fun_lt_size hm hf
    omega
  have hc : b.offset j + n * b[j].nfun + g < b.total := by
    have := offset_add_size_le_total b j hj
    have := seg_fun_lt_size hn hg
    omega
  rw [screened_array_entry b tol _ _ hr hc]
  have e1 : shellOf b (b.offset i + m * b[i].nfun + f) = b[i] := by
    unfold shellOf; rw [locate_offset b i hi m f hm hf]; exact getElem!_pos b i hi
  have e2 : shellOf b (b.offset j + n * b[j].nfun + g) = b[j] := by
    unfold shellOf; rw [locate_offset b j hj n g hn hg]; exact getElem!_pos b j hj
  rw [e1, e2]

/-- **no tolerance means no screening** -/
theorem screened_array_none (b : Basis ℝ) (r c e : ℕ) :
    entry2 b b (pairBlocks b b 1 (overlapBlkScreened none b)) r c e
      = entry2 b b (pairBlocks b b 1 (overlapBlk b)) r c e := by
  rw [overlapBlkScreened_none]

theorem screened_flat_none (b : Basis ℝ) :
    assemble2 b b 1 (overlapBlkScreened none b) = assemble2 b b 1 (overlapBlk b) := by
  rw [overlapBlkScreened_none]

/-- **lowering the tolerance never removes more blocks**: if `0 < tol' ≤ tol`, every entry that is kept
at `tol` (its pair of shells is not screened, so the entry is that of the unscreened array) is kept at
`tol'`.  (No upper bound on `tol` is needed.) -/
theorem screened_array_mono (b : Basis ℝ) (hb : b.ExpsPos) (tol tol' : ℝ) (ht' : 0 < tol')
    (hle : tol' ≤ tol) (r c : ℕ) (hr : r < b.total) (hc : c < b.total)
    (hkeep : ¬ pairScreened tol (shellOf b r) (shellOf b c)) :
    ¬ pairScreened tol' (shellOf b r) (shellOf b c)
      ∧ entry2 b b (pairBlocks b b 1 (overlapBlkScreened (some tol') b)) r c 0
          = entry2 b b (pairBlocks b b 1 (overlapBlk b)) r c 0
      ∧ entry2 b b (pairBlocks b b 1 (overlapBlkScreened (some tol) b)) r c 0
          = entry2 b b (pairBlocks b b 1 (overlapBlk b)) r c 0 := by
  have h' : ¬ pairScreened tol' (shellOf b r) (shellOf b c) := fun h =>
    hkeep (pairScreened_mono tol tol' _ _ (shellOf_exps_pos b hb r hr) (shellOf_exps_pos b hb c hc)
      ht' hle h)
  refine ⟨h', ?_, ?_⟩
  · rw [screened_array_entry b tol' r c hr hc, if_neg h']
  · rw [screened_array_entry b tol r c hr hc, if_neg hkeep]

/-- the zero pattern is monotone: an entry removed at the smaller tolerance is removed at the larger -/
theorem screened_array_removed_mono (b : Basis ℝ) (hb : b.ExpsPos) (tol tol' : ℝ) (ht' : 0 < tol')
    (hle : tol' ≤ tol) (r c : ℕ) (hr : r < b.total) (hc : c < b.total)
    (hrem : pairScreened tol' (shellOf b r) (shellOf b c)) :
    entry2 b b (pairBlocks b b 1 (overlapBlkScreened (some tol) b)) r c 0 = 0 := by
  rw [screened_array_entry b tol r c hr hc, if_pos (pairScreened_mono tol tol' _ _
    (shellOf_exps_pos b hb r hr) (shellOf_exps_pos b hb c hc) ht' hle hrem)]

/-- **the screened array is symmetric** (the predicate is symmetric in the two shells, and the
unscreened array is symmetric) -/
theorem screened_array_symm (b : Basis ℝ) (hb : b.ExpsPos) (tol : ℝ) (r c : ℕ) (hr : r < b.total)
    (hc : c < b.total) :
    entry2 b b (pairBlocks b b 1 (overlapBlkScreened (some tol) b)) r c 0
      = entry2 b b (pairBlocks b b 1 (overlapBlkScreened (some tol) b)) c r 0 := by
  rw [screened_array_entry b tol r c hr hc, screened_array_entry b tol c r hc hr,
    overlap_array_symm b hb r c hr hc]
  by_cases h : pairScreened tol (shellOf b r) (shellOf b c)
  · rw [if_pos h, if_pos ((pairScreened_comm tol _ _).1 h)]
  · rw [if_neg h, if_neg (fun h' => h ((pairScreened_comm tol _ _).2 h'))]

/-! ### the flat arrays -/

theorem screened_flat_entry (b : Basis ℝ) (tol : ℝ) (r c : ℕ) (hr : r < b.total) (hc : c < b.total) :
    (assemble2 b b 1 (overlapBlkScreened (some tol) b))[(r * b.total + c) * 1 + 0]!
      = if pairScreened tol (shellOf b r) (shellOf b c) then 0
        else (assemble2 b b 1 (overlapBlk b))[(r * b.total + c) * 1 + 0]! := by
  rw [assemble2_get b b 1 _ r c 0 hr hc (by omega), assemble2_get b b 1 _ r c 0 hr hc (by omega)]
  exact screened_array_entry b tol r c hr hc

theorem screened_flat_symm (b : Basis ℝ) (hb : b.ExpsPos) (tol : ℝ) (r c : ℕ) (hr : r < b.total)
    (hc : c < b.total) :
    (assemble2 b b 1 (overlapBlkScreened (some tol) b))[(r * b.total + c) * 1 + 0]!
      = (assemble2 b b 1 (overlapBlkScreened (some tol) b))[(c * b.total + r) * 1 + 0]! := by
  rw [assemble2_get b b 1 _ r c 0 hr hc (by omega), assemble2_get b b 1 _ c r 0 hc hr (by omega)]
  exact screened_array_symm b hb tol r c hr hc

end Array

/-! ## 3. s-type shells: every removed element is below the tolerance -/
section SType

/-- an s-type shell: `l = 0`, the single Cartesian component `(0,0,0)` and, if the shell is spherical,
the single function `c0` (with either sign).  For `l = 0` the two coordinate types coincide. -/
structure Shell.IsS (s : Shell ℝ) : Prop where
  l_zero : s.l = 0
  cart_eq : s.cart = [(0, 0, 0)]
  sph_ord : s.sph = true → ∃ neg, s.sphOrd = [⟨neg, false, 0⟩]

theorem Shell.IsS.ncart {s : Shell ℝ} (hs : s.IsS) : s.ncart = 1 := by
  simp [Shell.ncart, hs.cart_eq]

theorem Shell.IsS.nfun {s : Shell ℝ} (hs : s.IsS) : s.nfun = 1 := by
  unfold Shell.nfun
  cases h : s.sph with
  | true =>
    obtain ⟨neg, he⟩ := hs.sph_ord h
    simp [he]
  | false => simp [hs.cart_eq]

theorem Shell.IsS.comp_zero {s : Shell ℝ} (hs : s.IsS) : s.comp! 0 = (0, 0, 0) := by
  simp [Shell.comp!, hs.cart_eq]

/-- the default Cartesian component list of `l = 0` is `[(0,0,0)]` -/
theorem defaultCart_zero : defaultCart 0 = [(0, 0, 0)] := by decide

/-- an accepted spherical order for `l = 0` is `[c0]` or `[-c0]` -/
theorem validSphOrder_zero (labels : List String) (ls : List SphLabel)
    (h : validSphOrder 0 labels = some ls) : ∃ neg, ls = [⟨neg, false, 0⟩] := by
  obtain ⟨-, hperm⟩ := (valid_iff_perm 0 labels ls).1 h
  have hk : sphKeys 0 = [(false, 0)] := by decide
  rw [hk, List.perm_singleton] at hperm
  obtain ⟨x, rfl, hx⟩ := List.map_eq_singleton_iff.1 hperm
  obtain ⟨neg, sine, m⟩ := x
  simp only [Prod.mk.injEq] at hx
  obtain ⟨rfl, rfl⟩ := hx
  exact ⟨neg, rfl⟩

/-- shells with `l = 0` of a regular basis (Cartesian ones with the default component list) are s-type -/
theorem Shell.IsS.of_regular {b : Basis ℝ} (hb : b.Regular) (i : ℕ) (hi : i < b.size)
    (hl : b[i].l = 0) (hcart : b[i].sph = false → b[i].cart = defaultCart b[i].l) : b[i].IsS := by
  refine ⟨hl, ?_, ?_⟩
  · cases h : b[i].sph with
    | true =>
      obtain ⟨-, hc, -⟩ := hb.sph_ok i hi h
      rw [hc, hl, defaultCart_zero]
    | false => rw [hcart h, hl, defaultCart_zero]
  · intro h
    obtain ⟨-, -, labels, hv⟩ := hb.sph_ok i hi h
    rw [hl] at hv
    exact validSphOrder_zero labels _ hv

/-! ### the primitive s–s overlap -/

theorem fourth_sqrt_sqrt (X : ℝ) (hX : 0 ≤ X) : (√√X) ^ 4 = X := by
  rw [show (4 : ℕ) = 2 * 2 from rfl, pow_mul, Real.sq_sqrt (Real.sqrt_nonneg _), Real.sq_sqrt hX]

/-- `N_α N_β (π/(α+β))^{3/2} = (2√(αβ)/(α+β))^{3/2}` -/
theorem sNorm_mul (α β : ℝ) (ha : 0 < α) (hb : 0 < β) :
    √√(2 * α / π * (2 * α / π) * (2 * α / π)) * √√(2 * β / π * (2 * β / π) * (2 * β / π))
        * (√(π / (α + β)) * √(π / (α + β)) * √(π / (α + β)))
      = (2 * √(α * β) / (α + β)) ^ ((3 : ℝ) / 2) := by
  have hπ := Real.pi_pos
  have hp : 0 < α + β := by linarith
  have hX : 0 ≤ 2 * α / π * (2 * α / π) * (2 * α / π) := by positivity
  have hY : 0 ≤ 2 * β / π * (2 * β / π) * (2 * β / π) := by positivity
  have hu : 0 ≤ 2 * √(α * β) / (α + β) := by positivity
  have hL : 0 ≤ √√(2 * α / π * (2 * α / π) * (2 * α / π)) * √√(2 * β / π * (2 * β / π) * (2 * β / π))
        * (√(π / (α + β)) * √(π / (α + β)) * √(π / (α + β))) := by positivity
  have hR : 0 ≤ (2 * √(α * β) / (α + β)) ^ ((3 : ℝ) / 2) := Real.rpow_nonneg hu _
  refine (pow_left_inj₀ hL hR (by norm_num : (4 : ℕ) ≠ 0)).1 ?_
  have hR4 : ((2 * √(α * β) / (α + β)) ^ ((3 : ℝ) / 2)) ^ 4 = (2 * √(α * β) / (α + β)) ^ 6 := by
    rw [← Real.rpow_natCast, ← Real.rpow_mul hu]
    have : (3 : ℝ) / 2 * ((4 : ℕ) : ℝ) = ((6 : ℕ) : ℝ) := by norm_num
    rw [this, Real.rpow_natCast]
  have hC : √(π / (α + β)) ^ 2 = π / (α + β) := Real.sq_sqrt (by positivity)
  have hS : √(α * β) ^ 2 = α * β := Real.sq_sqrt (by positivity)
  have e1 : ∀ A B C : ℝ, (A * B * (C * C * C)) ^ 4 = A ^ 4 * B ^ 4 * (C ^ 2) ^ 6 := fun A B C => by ring
  have e2 : ∀ S p : ℝ, (2 * S / p) ^ 6 = 64 * (S ^ 2) ^ 3 / p ^ 6 := fun S p => by ring
  rw [hR4, e1, e2, fourth_sqrt_sqrt _ hX, fourth_sqrt_sqrt _ hY, hC, hS]
  field_simp
  ring

/-- primitive norm of an s-type primitive: `(2α/π)^{3/4}` -/
theorem normPrim_s (α : ℝ) :
    normPrim α 0 (0, 0, 0) = √√(2 * α / π * (2 * α / π) * (2 * α / π)) := by
  simp [normPrim, normRad, normAng, pow34, powHalf, powN, dfactOdd, Transc.sqrt, Transc.pi]

/-- the `(0, 0, 0)` entry of the one-dimensional table of a primitive pair is the one-dimensional
Gaussian-product integral `√(π/p) e^{-μ (A-B)²}` -/
theorem momAx_s (s t : Shell ℝ) (origin : ℕ → ℝ) (nk ka kb axis : ℕ)
    (ha : 0 < s.exp! ka) (hb : 0 < t.exp! kb) :
    (momAx s t origin nk ka kb axis).get3 0 0 0
      = √(π / (s.exp! ka + t.exp! kb))
        * Real.exp (-(s.exp! ka * t.exp! kb / (s.exp! ka + t.exp! kb)
            * ((s.ctr axis - t.ctr axis) * (s.ctr axis - t.ctr axis)))) := by
  have hp : s.exp! ka + t.exp! kb ≠ 0 := by positivity
  simp only [momAx, pair1D]
  have h2 : (Num.nat 1 : ℝ) / (Num.nat 2 * (s.exp! ka + t.exp! kb))
      = 1 / (2 * (s.exp! ka + t.exp! kb)) := by simp
  rw [h2, momTab_eq _ _ _ _ _ hp, S3_zero, mul_one]
  rfl

/-- **the overlap of two normalised s-type primitives is `sOverlap`** -/
theorem prim_s_overlap (s t : Shell ℝ) (origin : ℕ → ℝ) (nk ka kb : ℕ)
    (ha : 0 < s.exp! ka) (hb : 0 < t.exp! kb) :
    normPrim (s.exp! ka) 0 (0, 0, 0) * normPrim (t.exp! kb) 0 (0, 0, 0)
        * prod3 (pairTabs s t (momAx s t origin nk)) (0, 0, 0) ka kb (0, 0, 0) (0, 0, 0)
      = sOverlap (s.exp! ka) (t.exp! kb) (shellDist s t) := by
  simp only [prod3, pairTabs, tab3_get]
  rw [momAx_s s t origin nk ka kb 0 ha hb, momAx_s s t origin nk ka kb 1 ha hb,
    momAx_s s t origin nk ka kb 2 ha hb, normPrim_s, normPrim_s]
  unfold sOverlap
  rw [← sNorm_mul _ _ ha hb]
  have hexp : Real.exp (-(s.exp! ka * t.exp! kb / (s.exp! ka + t.exp! kb)) * shellDist s t ^ 2)
      = Real.exp (-(s.exp! ka * t.exp! kb / (s.exp! ka + t.exp! kb)
            * ((s.ctr 0 - t.ctr 0) * (s.ctr 0 - t.ctr 0))))
        * Real.exp (-(s.exp! ka * t.exp! kb / (s.exp! ka + t.exp! kb)
            * ((s.ctr 1 - t.ctr 1) * (s.ctr 1 - t.ctr 1))))
        * Real.exp (-(s.exp! ka * t.exp! kb / (s.exp! ka + t.exp! kb)
            * ((s.ctr 2 - t.ctr 2) * (s.ctr 2 - t.ctr 2)))) := by
    rw [← Real.exp_add, ← Real.exp_add, shellDist_sq]
    congr 1
    ring
  rw [hexp]
  ring

/-- **the raw s–s block**: `Σ_k Σ_l c_k c'_l · sOverlap α_k β_l d` (the primitive norms are inside
`sOverlap`, the overlap of *normalised* primitives) -/
theorem overlapBlock_s (s t : Shell ℝ) (hs : s.IsS) (ht : t.IsS)
    (hse : ∀ k < s.nprim, 0 < s.exp! k) (hte : ∀ k < t.nprim, 0 < t.exp! k) (m n : ℕ) :
    (overlapBlock s t).get4 m 0 n 0
      = ∑ ka ∈ Finset.range s.nprim, ∑ kb ∈ Finset.range t.nprim,
          s.coef! ka m * t.coef! kb n * sOverlap (s.exp! ka) (t.exp! kb) (shellDist s t) := by
  simp only [overlapBlock, momentBlock, blockTab, tab_get, tab4_get, contract, Shell.normTab,
    tab2_get, List.getD_cons_zero, hs.comp_zero, ht.comp_zero, hs.l_zero, ht.l_zero]
  rw [sumN_eq_sum]
  refine Finset.sum_congr rfl fun ka hka => ?_
  rw [sumN_eq_sum]
  refine Finset.sum_congr rfl fun kb hkb => ?_
  rw [← prim_s_overlap s t _ _ ka kb (hse ka (Finset.mem_range.mp hka))
    (hte kb (Finset.mem_range.mp hkb))]
  ring

/-! ### weights of an s-type shell -/

/-- the only entry of the Cartesian → spherical matrix of `l = 0` is `±1` -/
theorem transEntry_s (neg : Bool) :
    transEntry (K := ℝ) 0 ⟨neg, false, 0⟩ (0, 0, 0) = if neg then -1 else 1 := by
  have h1 : transEntryQ 0 ⟨neg, false, 0⟩ (0, 0, 0) = ((if neg then -1 else 1), 1) := by
    cases neg <;> decide +kernel
  simp only [transEntry, h1, ofRat_real, Transc.sqrt]
  cases neg <;> simp

/-- the sign with which the function of an s-type shell enters: the `1 × 1` Cartesian → spherical
matrix of a spherical shell (`-1` for the label `-c0`), `1` for a Cartesian shell -/
noncomputable def Shell.sSign (s : Shell ℝ) : ℝ :=
  if s.sph then transEntry s.l (s.sphOrd.getD 0 ⟨false, false, 0⟩) (s.comp! 0) else 1

theorem Shell.IsS.sSign_cases {s : Shell ℝ} (hs : s.IsS) : s.sSign = 1 ∨ s.sSign = -1 := by
  unfold Shell.sSign
  cases h : s.sph with
  | true =>
    obtain ⟨neg, he⟩ := hs.sph_ord h
    rw [if_pos rfl, he, hs.l_zero, hs.comp_zero, List.getD_cons_zero, transEntry_s]
    cases neg <;> simp
  | false => simp

theorem Shell.IsS.sSign_abs {s : Shell ℝ} (hs : s.IsS) : |s.sSign| = 1 := by
  rcases hs.sSign_cases with h | h <;> rw [h] <;> simp

/-- `norm_cont` is never negative (`1/√·`, or `1` for a shell that opts out of normalisation) -/
theorem normCont_nonneg (s : Shell ℝ) (m c : ℕ) : 0 ≤ (normCont s).get2 m c := by
  unfold normCont
  split_ifs with h
  · simp only [tab2_get, Transc.sqrt, num_nat, Nat.cast_one]
    exact div_nonneg zero_le_one (Real.sqrt_nonneg _)
  · simp

/-- weight of the Cartesian component in the function of segment `m` of an s-type shell:
`± norm_cont[m, 0]` -/
theorem cwS_s (s : Shell ℝ) (m : ℕ) : cwS s m 0 0 = s.sSign * (normCont s).get2 m 0 := by
  unfold cwS Shell.sSign Shell.weights
  cases h : s.sph with
  | true => simp [Shell.transTab]
  | false => simp

/-- **normalised contraction coefficient** of primitive `k` in function `m` of an s-type shell: the
function is `± Σ_k c̃_k ĝ_k` with `ĝ_k = N_k g_k` the *normalised* primitives and
`c̃_k = norm_cont[m] · c_k` -/
noncomputable def normCoef (s : Shell ℝ) (m k : ℕ) : ℝ := (normCont s).get2 m 0 * s.coef! k m

/-- `Σ_k |c̃_k|` -/
noncomputable def absCoefSum (s : Shell ℝ) (m : ℕ) : ℝ :=
  ∑ k ∈ Finset.range s.nprim, |normCoef s m k|

theorem absCoefSum_nonneg (s : Shell ℝ) (m : ℕ) : 0 ≤ absCoefSum s m :=
  Finset.sum_nonneg fun _ _ => abs_nonneg _

theorem absCoefSum_eq (s : Shell ℝ) (m : ℕ) :
    absCoefSum s m = ∑ k ∈ Finset.range s.nprim, |s.coef! k m| * (normCont s).get2 m 0 := by
  unfold absCoefSum normCoef
  refine Finset.sum_congr rfl fun k _ => ?_
  rw [abs_mul, abs_of_nonneg (normCont_nonneg s m 0), mul_comm]

/-- **an element of an s–s block of the unscreened, normalised overlap array**:
`± Σ_k Σ_l c̃_k c̃'_l · sOverlap α_k β_l d` -/
theorem sBlock_entry_eq (b : Basis ℝ) (hb : b.ExpsPos) (i j : ℕ) (hi : i < b.size) (hj : j < b.size)
    (hsi : b[i].IsS) (hsj : b[j].IsS) (m n : ℕ) (hm : m < b[i].nseg) (hn : n < b[j].nseg) :
    entry2 b b (pairBlocks b b 1 (overlapBlk b)) (b.offset i + m) (b.offset j + n) 0
      = b[i].sSign * b[j].sSign
        * ∑ ka ∈ Finset.range b[i].nprim, ∑ kb ∈ Finset.range b[j].nprim,
            normCoef b[i] m ka * normCoef b[j] n kb
              * sOverlap (b[i].exp! ka) (b[j].exp! kb) (shellDist b[i] b[j]) := by
  have e := entry2_layout b b 1 (overlapBlk b) i j hi hj m 0 n 0 0 hm (by rw [hsi.nfun]; omega) hn
    (by rw [hsj.nfun]; omega)
  rw [hsi.nfun, hsj.nfun, Nat.mul_one, Nat.mul_one, Nat.add_zero, Nat.add_zero] at e
  rw [e]
  have hblk : (overlapBlk b i j).get 0 = overlapBlock b[i] b[j] := by
    simp only [overlapBlk, tab_get]
    rw [getElem!_pos b i hi, getElem!_pos b j hj]
  rw [hblk, wBlock2_get4_eq_sum _ _ _ _ _ _ _ (by rw [hsi.nfun]; omega) (by rw [hsj.nfun]; omega),
    hsi.ncart, hsj.ncart, Finset.sum_range_one, Finset.sum_range_one, cwS_s, cwS_s,
    overlapBlock_s b[i] b[j] hsi hsj (hb i hi) (hb j hj), Finset.mul_sum, Finset.mul_sum]
  refine Finset.sum_congr rfl fun ka _ => ?_
  rw [Finset.mul_sum, Finset.mul_sum]
  refine Finset.sum_congr rfl fun kb _ => ?_
  unfold normCoef
  ring

/-! ### conservativeness -/

/-- `screen_conservative_prim` for `0 < tol ≤ 1` (at `tol = 1` the screened pairs are those with
distinct centres, and the normalised overlap of two s-type primitives at distinct centres is `< 1`) -/
theorem screen_conservative_prim_le_one (αa αb α β d tol : ℝ) (ha : 0 < αa) (hb : 0 < αb)
    (hα : αa ≤ α) (hβ : αb ≤ β) (hd : 0 ≤ d) (ht0 : 0 < tol) (ht1 : tol ≤ 1)
    (h : screened αa αb d tol) : sOverlap α β d < tol := by
  rcases lt_or_eq_of_le ht1 with h1 | h1
  · exact screen_conservative_prim αa αb α β d tol ha hb hα hβ hd ht0 h1 h
  · subst h1
    have hd0 : 0 < d := (screened_tol_one _ _ _).1 h
    have hα0 : 0 < α := lt_of_lt_of_le ha hα
    have hβ0 : 0 < β := lt_of_lt_of_le hb hβ
    have hs : 0 < α + β := add_pos hα0 hβ0
    have h3 : 0 ≤ 2 * Real.sqrt (α * β) / (α + β) := by positivity
    have h4 : 2 * Real.sqrt (α * β) / (α + β) ≤ 1 := by
      rw [div_le_one hs]
      exact two_sqrt_mul_le_add α β hα0.le hβ0.le
    have h5 : (2 * Real.sqrt (α * β) / (α + β)) ^ ((3:ℝ)/2) ≤ 1 :=
      Real.rpow_le_one h3 h4 (by norm_num)
    have hμ : 0 < α * β / (α + β) := by positivity
    have hexp : Real.exp (-(α * β / (α + β)) * d ^ 2) < 1 := by
      rw [Real.exp_lt_one_iff]
      have := mul_pos hμ (pow_pos hd0 2)
      linarith
    unfold sOverlap
    calc (2 * Real.sqrt (α * β) / (α + β)) ^ ((3:ℝ)/2) * Real.exp (-(α * β / (α + β)) * d ^ 2)
        ≤ 1 * Real.exp (-(α * β / (α + β)) * d ^ 2) :=
          mul_le_mul_of_nonneg_right h5 (Real.exp_pos _).le
      _ = Real.exp (-(α * β / (α + β)) * d ^ 2) := one_mul _
      _ < 1 := hexp

/-- the double sum of `sBlock_entry_eq` in the form of `abs_double_sum_le / _lt` -/
theorem sSum_eq (s t : Shell ℝ) (m n : ℕ) :
    (∑ ka ∈ Finset.range s.nprim, ∑ kb ∈ Finset.range t.nprim,
        normCoef s m ka * normCoef t n kb * sOverlap (s.exp! ka) (t.exp! kb) (shellDist s t))
      = ∑ ka ∈ Finset.range s.nprim, ∑ kb ∈ Finset.range t.nprim,
          s.coef! ka m * (normCont s).get2 m 0 * (t.coef! kb n * (normCont t).get2 n 0)
            * sOverlap (s.exp! ka) (t.exp! kb) (shellDist s t) := by
  refine Finset.sum_congr rfl fun ka _ => Finset.sum_congr rfl fun kb _ => ?_
  unfold normCoef
  ring

/-- `≤` form for two s-type shells, no side condition -/
theorem sShell_sum_le (s t : Shell ℝ) (hse : ∀ k < s.nprim, 0 < s.exp! k)
    (hte : ∀ k < t.nprim, 0 < t.exp! k) (tol : ℝ) (ht0 : 0 < tol) (ht1 : tol ≤ 1)
    (hscr : pairScreened tol s t) (m n : ℕ) :
    |∑ ka ∈ Finset.range s.nprim, ∑ kb ∈ Finset.range t.nprim,
        normCoef s m ka * normCoef t n kb * sOverlap (s.exp! ka) (t.exp! kb) (shellDist s t)|
      ≤ tol * (absCoefSum s m * absCoefSum t n) := by
  by_cases hsn : 0 < s.nprim
  · by_cases htn : 0 < t.nprim
    · rw [sSum_eq, absCoefSum_eq, absCoefSum_eq]
      refine abs_double_sum_le _ _ (fun k => s.coef! k m) (fun _ => (normCont s).get2 m 0)
        (fun k => t.coef! k n) (fun _ => (normCont t).get2 n 0)
        (fun ka kb => sOverlap (s.exp! ka) (t.exp! kb) (shellDist s t)) tol
        (fun _ _ => normCont_nonneg s m 0) (fun _ _ => normCont_nonneg t n 0)
        (fun ka hka kb hkb => sOverlap_nonneg _ _ _ (hse ka (Finset.mem_range.mp hka)).le
          (hte kb (Finset.mem_range.mp hkb)).le)
        (fun ka hka kb hkb => (screen_conservative_prim_le_one s.minExp t.minExp _ _ _ tol
          (s.minExp_pos hsn hse) (t.minExp_pos htn hte) (s.minExp_le ka (Finset.mem_range.mp hka))
          (t.minExp_le kb (Finset.mem_range.mp hkb)) (shellDist_nonneg s t) ht0 ht1 hscr).le)
    · have h0 : t.nprim = 0 := by omega
      simp [absCoefSum, h0]
  · have h0 : s.nprim = 0 := by omega
    simp [absCoefSum, h0]

/-- strict form for two s-type shells -/
theorem sShell_sum_lt (s t : Shell ℝ) (hse : ∀ k < s.nprim, 0 < s.exp! k)
    (hte : ∀ k < t.nprim, 0 < t.exp! k) (tol : ℝ) (ht0 : 0 < tol) (ht1 : tol ≤ 1)
    (hscr : pairScreened tol s t) (m n : ℕ) (hpos : 0 < absCoefSum s m * absCoefSum t n) :
    |∑ ka ∈ Finset.range s.nprim, ∑ kb ∈ Finset.range t.nprim,
        normCoef s m ka * normCoef t n kb * sOverlap (s.exp! ka) (t.exp! kb) (shellDist s t)|
      < tol * (absCoefSum s m * absCoefSum t n) := by
  have hsn : 0 < s.nprim := by
    by_contra h
    have h0 : s.nprim = 0 := by omega
    simp [absCoefSum, h0] at hpos
  have htn : 0 < t.nprim := by
    by_contra h
    have h0 : t.nprim = 0 := by omega
    simp [absCoefSum, h0] at hpos
  rw [absCoefSum_eq, absCoefSum_eq] at hpos
  rw [sSum_eq, absCoefSum_eq, absCoefSum_eq]
  exact abs_double_sum_lt _ _ (fun k => s.coef! k m) (fun _ => (normCont s).get2 m 0)
    (fun k => t.coef! k n) (fun _ => (normCont t).get2 n 0)
    (fun ka kb => sOverlap (s.exp! ka) (t.exp! kb) (shellDist s t)) tol
    (fun _ _ => normCont_nonneg s m 0) (fun _ _ => normCont_nonneg t n 0)
    (fun ka hka kb hkb => sOverlap_nonneg _ _ _ (hse ka (Finset.mem_range.mp hka)).le
      (hte kb (Finset.mem_range.mp hkb)).le)
    (fun ka hka kb hkb => screen_conservative_prim_le_one s.minExp t.minExp _ _ _ tol
      (s.minExp_pos hsn hse) (t.minExp_pos htn hte) (s.minExp_le ka (Finset.mem_range.mp hka))
      (t.minExp_le kb (Finset.mem_range.mp hkb)) (shellDist_nonneg s t) ht0 ht1 hscr)
    hpos

theorem abs_sign_mul {σ τ x : ℝ} (hσ : |σ| = 1) (hτ : |τ| = 1) : |σ * τ * x| = |x| := by
  rw [abs_mul, abs_mul, hσ, hτ, one_mul, one_mul]

/-- **C20, conservativeness in the assembled array (`≤` form, no side condition).**  For two s-type
shells `i`, `j` of a basis with positive exponents, screened at a tolerance `0 < tol ≤ 1`: every
element of their block of the *unscreened* normalised overlap array is at most
`tol · (Σ_k |c̃_k|)(Σ_l |c̃'_l|)` in magnitude. -/
theorem screened_array_conservative_le (b : Basis ℝ) (hb : b.ExpsPos) (i j : ℕ) (hi : i < b.size)
    (hj : j < b.size) (hsi : b[i].IsS) (hsj : b[j].IsS) (tol : ℝ) (ht0 : 0 < tol) (ht1 : tol ≤ 1)
    (hscr : pairScreened tol b[i] b[j]) (m n : ℕ) (hm : m < b[i].nseg) (hn : n < b[j].nseg) :
    |entry2 b b (pairBlocks b b 1 (overlapBlk b)) (b.offset i + m) (b.offset j + n) 0|
      ≤ tol * (absCoefSum b[i] m * absCoefSum b[j] n) := by
  rw [sBlock_entry_eq b hb i j hi hj hsi hsj m n hm hn, abs_sign_mul hsi.sSign_abs hsj.sSign_abs]
  exact sShell_sum_le b[i] b[j] (hb i hi) (hb j hj) tol ht0 ht1 hscr m n

/-- **C20, conservativeness in the assembled array.**  For two s-type shells `i`, `j` (`l = 0`,
Cartesian or spherical) of a basis with positive exponents, screened at a tolerance `0 < tol ≤ 1`: every
element `(offset i + m, offset j + n)` of their block of the *unscreened* normalised overlap array
satisfies `|S| < tol · (Σ_k |c̃_k|)(Σ_l |c̃'_l|)`, where `c̃_k = norm_cont[m] · c_k` are the coefficients
of the two functions over their *normalised* primitives `N_k g_k`.

Hypothesis forced by the mathematics: the strict inequality needs the right-hand side to be non-zero
(`hpos`; it holds as soon as neither function vanishes identically, see
`screened_array_conservative_regular`); without it `screened_array_conservative_le` gives `≤`.
The primitive norms `N_k` are part of `sOverlap` (the overlap of normalised primitives, the quantity
the cutoff bounds by `tol`); with `N_k` put into the coefficients instead the bound would be false. -/
theorem screened_array_conservative (b : Basis ℝ) (hb : b.ExpsPos) (i j : ℕ) (hi : i < b.size)
    (hj : j < b.size) (hsi : b[i].IsS) (hsj : b[j].IsS) (tol : ℝ) (ht0 : 0 < tol) (ht1 : tol ≤ 1)
    (hscr : pairScreened tol b[i] b[j]) (m n : ℕ) (hm : m < b[i].nseg) (hn : n < b[j].nseg)
    (hpos : 0 < absCoefSum b[i] m * absCoefSum b[j] n) :
    |entry2 b b (pairBlocks b b 1 (overlapBlk b)) (b.offset i + m) (b.offset j + n) 0|
      < tol * (absCoefSum b[i] m * absCoefSum b[j] n) := by
  rw [sBlock_entry_eq b hb i j hi hj hsi hsj m n hm hn, abs_sign_mul hsi.sSign_abs hsj.sSign_abs]
  exact sShell_sum_lt b[i] b[j] (hb i hi) (hb j hj) tol ht0 ht1 hscr m n hpos

/-! ### the side condition from non-vanishing functions; `(r, c)` forms -/

/-- `norm_cont` of a function of an s-type shell that does not vanish identically is positive -/
theorem normCont_pos_of_ne (s : Shell ℝ) (hse : ∀ k < s.nprim, 0 < s.exp! k) (m : ℕ)
    (r₀ : ℝ × ℝ × ℝ) (h0 : shellFn s m 0 r₀ ≠ 0) : 0 < (normCont s).get2 m 0 := by
  unfold normCont
  split_ifs with h
  · simp only [tab2_get, Transc.sqrt, num_nat, Nat.cast_one]
    exact div_pos zero_lt_one (Real.sqrt_pos.2 (selfOverlap_pos s m 0 hse r₀ h0))
  · simp

/-- `Σ_k |c̃_k| > 0` for a function that does not vanish identically -/
theorem absCoefSum_pos (s : Shell ℝ) (hse : ∀ k < s.nprim, 0 < s.exp! k) (m : ℕ)
    (r₀ : ℝ × ℝ × ℝ) (h0 : shellFn s m 0 r₀ ≠ 0) : 0 < absCoefSum s m := by
  have hnc := normCont_pos_of_ne s hse m r₀ h0
  obtain ⟨k, hk, hck⟩ : ∃ k ∈ Finset.range s.nprim, s.coef! k m ≠ 0 := by
    by_contra hcon
    push Not at hcon
    apply h0
    unfold shellFn
    refine Finset.sum_eq_zero fun k hk => ?_
    rw [hcon k hk, zero_mul, zero_mul]
  unfold absCoefSum
  refine Finset.sum_pos' (fun _ _ => abs_nonneg _) ⟨k, hk, ?_⟩
  unfold normCoef
  exact abs_pos.2 (mul_ne_zero hnc.ne' hck)

/-- **C20, conservativeness, regular basis** (`Basis.Regular`: unit-normalised shells, positive
exponents, no function vanishing identically): for two screened s-type shells every element of their
block of the unscreened overlap array is strictly below `tol · (Σ_k |c̃_k|)(Σ_l |c̃'_l|)`. -/
theorem screened_array_conservative_regular (b : Basis ℝ) (hb : b.Regular) (i j : ℕ)
    (hi : i < b.size) (hj : j < b.size) (hsi : b[i].IsS) (hsj : b[j].IsS) (tol : ℝ) (ht0 : 0 < tol)
    (ht1 : tol ≤ 1) (hscr : pairScreened tol b[i] b[j]) (m n : ℕ) (hm : m < b[i].nseg)
    (hn : n < b[j].nseg) :
    |entry2 b b (pairBlocks b b 1 (overlapBlk b)) (b.offset i + m) (b.offset j + n) 0|
      < tol * (absCoefSum b[i] m * absCoefSum b[j] n) := by
  obtain ⟨r₀, h0⟩ := hb.nonvanishing i hi m 0 hm (by rw [hsi.ncart]; omega)
  obtain ⟨r₁, h1⟩ := hb.nonvanishing j hj n 0 hn (by rw [hsj.ncart]; omega)
  exact screened_array_conservative b hb.expsPos i j hi hj hsi hsj tol ht0 ht1 hscr m n hm hn
    (mul_pos (absCoefSum_pos b[i] (hb.exps_pos i hi) m r₀ h0)
      (absCoefSum_pos b[j] (hb.exps_pos j hj) n r₁ h1))

/-- a basis index lying in an s-type shell is `offset i + m` with `(i, m)` its shell and segment -/
theorem index_of_sShell (b : Basis ℝ) (r : ℕ) (hr : r < b.total) (hs : (shellOf b r).IsS) :
    ∃ (i : ℕ) (hi : i < b.size) (m : ℕ), m < b[i].nseg ∧ shellOf b r = b[i] ∧ segOf b r = m
      ∧ r = b.offset i + m := by
  obtain ⟨hi, hm, hf, hrr⟩ := locate_lt b r hr
  have hsh := shellOf_eq b r hi
  rw [hsh] at hs
  rw [hs.nfun] at hf hrr
  exact ⟨_, hi, _, hm, hsh, rfl, by omega⟩

/-- **C20, conservativeness, `(r, c)` form**: for basis indices `r`, `c` lying in two screened s-type
shells, `|S_rc| < tol · (Σ_k |c̃_k|)(Σ_l |c̃'_l|)` for the entry of the unscreened array. -/
theorem screened_array_conservative_rc (b : Basis ℝ) (hb : b.ExpsPos) (r c : ℕ) (hr : r < b.total)
    (hc : c < b.total) (hsr : (shellOf b r).IsS) (hsc : (shellOf b c).IsS) (tol : ℝ) (ht0 : 0 < tol)
    (ht1 : tol ≤ 1) (hscr : pairScreened tol (shellOf b r) (shellOf b c))
    (hpos : 0 < absCoefSum (shellOf b r) (segOf b r) * absCoefSum (shellOf b c) (segOf b c)) :
    |entry2 b b (pairBlocks b b 1 (overlapBlk b)) r c 0|
      < tol * (absCoefSum (shellOf b r) (segOf b r) * absCoefSum (shellOf b c) (segOf b c)) := by
  obtain ⟨i, hi, m, hm, hsi, hmi, rfl⟩ := index_of_sShell b r hr hsr
  obtain ⟨j, hj, n, hn, hsj, hnj, rfl⟩ := index_of_sShell b c hc hsc
  rw [hsi, hmi, hsj, hnj] at hpos ⊢
  rw [hsi] at hsr
  rw [hsj] at hsc
  rw [hsi, hsj] at hscr
  exact screened_array_conservative b hb i j hi hj hsr hsc tol ht0 ht1 hscr m n hm hn hpos

/-- the `≤` form in `(r, c)` coordinates (no side condition) -/
theorem screened_array_conservative_rc_le (b : Basis ℝ) (hb : b.ExpsPos) (r c : ℕ)
    (hr : r < b.total) (hc : c < b.total) (hsr : (shellOf b r).IsS) (hsc : (shellOf b c).IsS)
    (tol : ℝ) (ht0 : 0 < tol) (ht1 : tol ≤ 1)
    (hscr : pairScreened tol (shellOf b r) (shellOf b c)) :
    |entry2 b b (pairBlocks b b 1 (overlapBlk b)) r c 0|
      ≤ tol * (absCoefSum (shellOf b r) (segOf b r) * absCoefSum (shellOf b c) (segOf b c)) := by
  obtain ⟨i, hi, m, hm, hsi, hmi, rfl⟩ := index_of_sShell b r hr hsr
  obtain ⟨j, hj, n, hn, hsj, hnj, rfl⟩ := index_of_sShell b c hc hsc
  rw [hsi, hmi, hsj, hnj]
  rw [hsi] at hsr
  rw [hsj] at hsc
  rw [hsi, hsj] at hscr
  exact screened_array_conservative_le b hb i j hi hj hsr hsc tol ht0 ht1 hscr m n hm hn

/-- **the error of screening on the s-type part of the array**: for `r`, `c` in s-type shells the
screened and the unscreened overlap arrays differ by at most `tol · (Σ_k |c̃_k|)(Σ_l |c̃'_l|)` (they are
equal on kept blocks, and a removed element is that small). -/
theorem screened_array_error (b : Basis ℝ) (hb : b.ExpsPos) (r c : ℕ) (hr : r < b.total)
    (hc : c < b.total) (hsr : (shellOf b r).IsS) (hsc : (shellOf b c).IsS) (tol : ℝ) (ht0 : 0 < tol)
    (ht1 : tol ≤ 1) :
    |entry2 b b (pairBlocks b b 1 (overlapBlkScreened (some tol) b)) r c 0
        - entry2 b b (pairBlocks b b 1 (overlapBlk b)) r c 0|
      ≤ tol * (absCoefSum (shellOf b r) (segOf b r) * absCoefSum (shellOf b c) (segOf b c)) := by
  rw [screened_array_entry b tol r c hr hc]
  by_cases h : pairScreened tol (shellOf b r) (shellOf b c)
  · rw [if_pos h, zero_sub, abs_neg]
    exact screened_array_conservative_rc_le b hb r c hr hc hsr hsc tol ht0 ht1 h
  · rw [if_neg h, sub_self, abs_zero]
    exact mul_nonneg ht0.le (mul_nonneg (absCoefSum_nonneg _ _) (absCoefSum_nonneg _ _))

end SType

end GB
