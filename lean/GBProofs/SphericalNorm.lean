import GBProofs.Props.C16
import GBProofs.Harmonics.OrthoReal
import GBProofs.Harmonics.Labels
import GBProofs.Layout

/-!
# Unit normalisation of spherical basis functions (C01 for pure shells)

`Harmonics/OrthoReal.lean` proves that the rows of the Cartesian → spherical matrix are orthonormal
in the metric `Sov c c' = metric c c' / (√dfact c · √dfact c')`.  This file proves that `Sov` *is* the
normalised one-centre overlap the model computes (`normalised_overlap_same_shell`), hence that the
same-segment diagonal block of a spherical shell in the assembled overlap array is the identity
(`spherical_block_orthonormal`), hence that every diagonal entry of the overlap array of a basis is
`1`, Cartesian and spherical shells alike (`overlap_array_diag_one`).
-/
open Real Polynomial

namespace GB

/-! ## Gaussian moments in closed form -/

theorem gmom_two_mul (p : ℝ) (k : ℕ) : gmom p (2 * k) = (dfactOdd k : ℝ) / (2 * p) ^ k := by
  induction k with
  | zero => simp [gmom, dfactOdd]
  | succ k ih =>
    have e : 2 * (k + 1) = 2 * k + 2 := by ring
    rw [e, gmom, ih, dfactOdd, div_mul_div_comm, pow_succ]
    push_cast
    ring

theorem gmom_two_mul_add_one (p : ℝ) (k : ℕ) : gmom p (2 * k + 1) = 0 := by
  induction k with
  | zero => simp [gmom]
  | succ k ih =>
    have e : 2 * (k + 1) + 1 = (2 * k + 1) + 2 := by ring
    rw [e, gmom, ih, mul_zero]

theorem gmom_eq (p : ℝ) (n : ℕ) :
    gmom p n = if n % 2 = 0 then (dfactOdd (n / 2) : ℝ) / (2 * p) ^ (n / 2) else 0 := by
  obtain ⟨k, rfl | rfl⟩ := Nat.even_or_odd' n
  · rw [gmom_two_mul]; simp
  · rw [gmom_two_mul_add_one]
    have : (2 * k + 1) % 2 ≠ 0 := by omega
    rw [if_neg this]

/-- product of the three one-dimensional moments of a one-centre pair = `metric` over `(2p)^L` -/
theorem gmom3_metric (p : ℝ) (a b : Comp) (L : ℕ) (h : a.deg + b.deg = 2 * L) :
    gmom p (a.1 + b.1) * gmom p (a.2.1 + b.2.1) * gmom p (a.2.2 + b.2.2)
      = (metric a b : ℝ) / (2 * p) ^ L := by
  rw [gmom_eq, gmom_eq, gmom_eq]
  unfold Comp.deg at h
  by_cases h1 : (a.1 + b.1) % 2 = 0
  · by_cases h2 : (a.2.1 + b.2.1) % 2 = 0
    · by_cases h3 : (a.2.2 + b.2.2) % 2 = 0
      · have hL : (a.1 + b.1) / 2 + (a.2.1 + b.2.1) / 2 + (a.2.2 + b.2.2) / 2 = L := by omega
        rw [if_pos h1, if_pos h2, if_pos h3, ← hL, pow_add, pow_add, div_mul_div_comm,
          div_mul_div_comm]
        simp [metric, h1, h2, h3]
      · simp [metric, h3]
    · simp [metric, h2]
  · simp [metric, h1]

theorem metric_self (a : Comp) : metric a a = (a.dfact : ℚ) := by
  have e : ∀ n : ℕ, (n + n) % 2 = 0 := fun n => by omega
  have e' : ∀ n : ℕ, (n + n) / 2 = n := fun n => by omega
  simp [metric, Comp.dfact, e, e']

/-! ## The one-centre primitive overlap -/

/-- the factor of the one-centre primitive overlap that depends only on `p = α + β` and `l` -/
noncomputable def radF (l : ℕ) (p : ℝ) : ℝ := √(π / p) * √(π / p) * √(π / p) / (2 * p) ^ l

theorem momAx_one_centre (s : Shell ℝ) (origin : ℕ → ℝ) (nk ka kb axis j i : ℕ)
    (ha : 0 < s.exp! ka) (hb : 0 < s.exp! kb) :
    (momAx s s origin nk ka kb axis).get3 0 j i
      = √(π / (s.exp! ka + s.exp! kb)) * gmom (s.exp! ka + s.exp! kb) (i + j) := by
  have hp : s.exp! ka + s.exp! kb ≠ 0 := by positivity
  simp only [momAx, pair1D]
  have h2 : (Num.nat 1 : ℝ) / (Num.nat 2 * (s.exp! ka + s.exp! kb))
      = 1 / (2 * (s.exp! ka + s.exp! kb)) := by simp
  rw [h2, momTab_eq _ _ _ _ _ hp]
  have hPA : (s.exp! ka * s.ctr axis + s.exp! kb * s.ctr axis) / (s.exp! ka + s.exp! kb)
      - s.ctr axis = 0 := by
    field_simp; ring
  rw [hPA]
  simp [S3, Transc.sqrt, Transc.pi, Transc.exp, ← pow_add, G_X_pow]

/-- **One-centre primitive overlap**: `metric a b` times a factor that depends only on the sum of
the exponents and on `L = (deg a + deg b)/2`. -/
theorem prod3_one_centre (s : Shell ℝ) (origin : ℕ → ℝ) (nk ka kb : ℕ) (a b : Comp) (L : ℕ)
    (ha : 0 < s.exp! ka) (hb : 0 < s.exp! kb) (hab : a.deg + b.deg = 2 * L) :
    prod3 (pairTabs s s (momAx s s origin nk)) (0, 0, 0) ka kb a b
      = (metric a b : ℝ) * radF L (s.exp! ka + s.exp! kb) := by
  simp only [prod3, pairTabs, tab3_get]
  rw [momAx_one_centre s origin nk ka kb 0 _ _ ha hb, momAx_one_centre s origin nk ka kb 1 _ _ ha hb,
    momAx_one_centre s origin nk ka kb 2 _ _ ha hb]
  have h := gmom3_metric (s.exp! ka + s.exp! kb) a b L hab
  unfold radF
  generalize √(π / (s.exp! ka + s.exp! kb)) = w at *
  calc w * gmom _ (a.1 + b.1) * (w * gmom _ (a.2.1 + b.2.1)) * (w * gmom _ (a.2.2 + b.2.2))
      = w * w * w * (gmom (s.exp! ka + s.exp! kb) (a.1 + b.1)
          * gmom (s.exp! ka + s.exp! kb) (a.2.1 + b.2.1)
          * gmom (s.exp! ka + s.exp! kb) (a.2.2 + b.2.2)) := by ring
    _ = _ := by rw [h]; ring

/-! ## The contracted same-shell, same-segment overlap -/

/-- the component-independent factor `Φ_m` of the same-segment overlap of a shell:
`Σ_{k,k'} d_k R_k d_k' R_k' F(α_k + α_k', l)` with `R` the radial part of the primitive norm -/
noncomputable def segPhi (s : Shell ℝ) (m : ℕ) : ℝ :=
  ∑ ka ∈ Finset.range s.nprim, ∑ kb ∈ Finset.range s.nprim,
    (s.coef! ka m * normRad (s.exp! ka) s.l) * (s.coef! kb m * normRad (s.exp! kb) s.l)
      * radF s.l (s.exp! ka + s.exp! kb)

theorem normAng_real (c : Comp) : normAng (K := ℝ) c = 1 / √(c.dfact : ℝ) := by
  simp [normAng, Comp.dfact, Transc.sqrt]

/-- **Same-shell, same-segment raw overlap**: angular norms × `metric` × `Φ_m`. -/
theorem overlapBlock_same_shell (s : Shell ℝ) (m c c' : ℕ)
    (hs : ∀ k < s.nprim, 0 < s.exp! k)
    (hc : (s.comp! c).deg = s.l) (hc' : (s.comp! c').deg = s.l) :
    (overlapBlock s s).get4 m c m c'
      = normAng (s.comp! c) * normAng (s.comp! c') * (metric (s.comp! c) (s.comp! c') : ℝ)
          * segPhi s m := by
  have hab : (s.comp! c).deg + (s.comp! c').deg = 2 * s.l := by omega
  simp only [overlapBlock, momentBlock, blockTab, tab_get, tab4_get, contract, Shell.normTab,
    tab2_get, List.getD_cons_zero]
  unfold segPhi
  rw [sumN_eq_sum, Finset.mul_sum]
  refine Finset.sum_congr rfl fun ka hka => ?_
  rw [sumN_eq_sum, Finset.mul_sum]
  refine Finset.sum_congr rfl fun kb hkb => ?_
  rw [prod3_one_centre s _ _ ka kb _ _ s.l (hs ka (Finset.mem_range.mp hka))
    (hs kb (Finset.mem_range.mp hkb)) hab]
  unfold normPrim
  ring

/-- the raw self-overlap of every component of degree `l` is the same number `Φ_m` -/
theorem selfOverlap_eq_segPhi (s : Shell ℝ) (m c : ℕ) (hs : ∀ k < s.nprim, 0 < s.exp! k)
    (hc : (s.comp! c).deg = s.l) :
    (overlapBlock s s).get4 m c m c = segPhi s m := by
  rw [overlapBlock_same_shell s m c c hs hc hc, normAng_real, metric_self]
  have hd : (0 : ℝ) < ((s.comp! c).dfact : ℝ) := by exact_mod_cast dfact_pos _
  have hsq := Real.mul_self_sqrt hd.le
  have hne : √((s.comp! c).dfact : ℝ) ≠ 0 := (Real.sqrt_pos.2 hd).ne'
  push_cast
  field_simp
  rw [Real.sq_sqrt hd.le]

/-- `norm_cont[m, c] = 1/√Φ_m` for every component of degree `l` -/
theorem normCont_eq (s : Shell ℝ) (m c : ℕ) (hn : s.unitNorm = true)
    (hs : ∀ k < s.nprim, 0 < s.exp! k) (hc : (s.comp! c).deg = s.l) :
    (normCont s).get2 m c = 1 / √(segPhi s m) := by
  simp only [normCont, hn, if_true, tab2_get, Transc.sqrt, num_nat, Nat.cast_one]
  rw [selfOverlap_eq_segPhi s m c hs hc]

/-- **The metric `Sov` is the model's normalised one-centre overlap** (general form): for a
unit-norm shell with positive exponents, a segment `m` whose raw self-overlap is positive for *some*
component `c₀` of degree `l`, and any two components `c`, `c'` of degree `l`. -/
theorem normalised_overlap_same_shell' (s : Shell ℝ) (m c₀ c c' : ℕ) (hn : s.unitNorm = true)
    (hs : ∀ k < s.nprim, 0 < s.exp! k)
    (hc₀ : (s.comp! c₀).deg = s.l) (hpos : 0 < (overlapBlock s s).get4 m c₀ m c₀)
    (hc : (s.comp! c).deg = s.l) (hc' : (s.comp! c').deg = s.l) :
    (overlapBlock s s).get4 m c m c' * (normCont s).get2 m c * (normCont s).get2 m c'
      = Sov (s.comp! c) (s.comp! c') := by
  rw [selfOverlap_eq_segPhi s m c₀ hs hc₀] at hpos
  rw [normCont_eq s m c hn hs hc, normCont_eq s m c' hn hs hc',
    overlapBlock_same_shell s m c c' hs hc hc', normAng_real, normAng_real, Sov]
  have hsq := Real.mul_self_sqrt hpos.le
  have hne : √(segPhi s m) ≠ 0 := (Real.sqrt_pos.2 hpos).ne'
  have hd : (0 : ℝ) < ((s.comp! c).dfact : ℝ) := by exact_mod_cast dfact_pos _
  have hd' : (0 : ℝ) < ((s.comp! c').dfact : ℝ) := by exact_mod_cast dfact_pos _
  have hne1 : √((s.comp! c).dfact : ℝ) ≠ 0 := (Real.sqrt_pos.2 hd).ne'
  have hne2 : √((s.comp! c').dfact : ℝ) ≠ 0 := (Real.sqrt_pos.2 hd').ne'
  generalize √(segPhi s m) = w at *
  rw [← hsq]
  field_simp

/-- **Goal 1.**  `Sov` is the model's normalised overlap of two components of one segment of one
shell (hypothesis: positivity of the raw self-overlap of `(m, c)`). -/
theorem normalised_overlap_same_shell (s : Shell ℝ) (m c c' : ℕ) (hn : s.unitNorm = true)
    (hs : ∀ k < s.nprim, 0 < s.exp! k) (hpos : 0 < (overlapBlock s s).get4 m c m c)
    (hc : (s.comp! c).deg = s.l) (hc' : (s.comp! c').deg = s.l) :
    (overlapBlock s s).get4 m c m c' * (normCont s).get2 m c * (normCont s).get2 m c'
      = Sov (s.comp! c) (s.comp! c') :=
  normalised_overlap_same_shell' s m c c c' hn hs hc hpos hc hc'

/-- the same with the hypothesis of `C16.normalised_diag_one`: the contracted function `(m, c)`
does not vanish identically -/
theorem normalised_overlap_same_shell_of_ne (s : Shell ℝ) (m c c' : ℕ) (hn : s.unitNorm = true)
    (hs : ∀ k < s.nprim, 0 < s.exp! k) (r₀ : ℝ × ℝ × ℝ) (h0 : shellFn s m c r₀ ≠ 0)
    (hc : (s.comp! c).deg = s.l) (hc' : (s.comp! c').deg = s.l) :
    (overlapBlock s s).get4 m c m c' * (normCont s).get2 m c * (normCont s).get2 m c'
      = Sov (s.comp! c) (s.comp! c') :=
  normalised_overlap_same_shell s m c c' hn hs (selfOverlap_pos s m c hs r₀ h0) hc hc'

/-! ## The same-segment block of a spherical shell -/

theorem getD_of_lt {α : Type} (l : List α) (i : ℕ) (d : α) (h : i < l.length) :
    l.getD i d = l[i] := by
  rw [List.getD_eq_getElem?_getD, List.getElem?_eq_getElem h]; rfl

theorem sum_map_eq_sum_range (cs : List Comp) (g : Comp → ℝ) :
    (cs.map g).sum = ∑ i ∈ Finset.range cs.length, g (cs.getD i (0, 0, 0)) := by
  induction cs with
  | nil => simp
  | cons x xs ih =>
    rw [List.map_cons, List.sum_cons, List.length_cons, Finset.sum_range_succ', ih]
    simp [add_comm]

theorem gram_eq_sum_range (s : Shell ℝ) (r r' : SphLabel) :
    gram s.l s.cart r r' = ∑ a ∈ Finset.range s.ncart, ∑ b ∈ Finset.range s.ncart,
      transEntry (K := ℝ) s.l r (s.comp! a) * Sov (s.comp! a) (s.comp! b)
        * transEntry (K := ℝ) s.l r' (s.comp! b) := by
  unfold gram Shell.ncart Shell.comp!
  rw [sum_map_eq_sum_range]
  refine Finset.sum_congr rfl fun a _ => ?_
  rw [sum_map_eq_sum_range]

/-- **The same-segment block of a spherical shell is the Gram matrix `T · Sov · Tᵀ`** of the rows of
its transformation matrix (any `l`, any component list all of whose components have degree `l`, any
label list). -/
theorem spherical_block_eq_gram (s : Shell ℝ) (hsph : s.sph = true) (hn : s.unitNorm = true)
    (hs : ∀ k < s.nprim, 0 < s.exp! k) (hdeg : ∀ c < s.ncart, (s.comp! c).deg = s.l)
    (m c₀ : ℕ) (hc₀ : c₀ < s.ncart) (hpos : 0 < (overlapBlock s s).get4 m c₀ m c₀) (f f' : ℕ) :
    (wBlock2 s s s.weights s.weights (overlapBlock s s)).get4 m f m f'
      = gram s.l s.cart (s.sphOrd.getD f ⟨false, false, 0⟩) (s.sphOrd.getD f' ⟨false, false, 0⟩) := by
  rw [gram_eq_sum_range]
  simp only [wBlock2, tab4_get, hsph, if_true, Shell.weights, tab3_get, Shell.transTab, tab2_get]
  rw [sumN_eq_sum, Finset.sum_comm]
  refine Finset.sum_congr rfl fun b hb => ?_
  rw [sumN_eq_sum, Finset.mul_sum]
  refine Finset.sum_congr rfl fun a ha => ?_
  have hab := normalised_overlap_same_shell' s m c₀ a b hn hs (hdeg c₀ hc₀) hpos
    (hdeg a (Finset.mem_range.mp ha)) (hdeg b (Finset.mem_range.mp hb))
  rw [← hab]
  ring

/-! ### the default Cartesian component list -/

theorem defaultCart_deg (l : ℕ) (c : Comp) (h : c ∈ defaultCart l) : c.deg = l := by
  simp only [defaultCart, List.mem_flatMap, List.mem_reverse, List.mem_range, List.mem_map] at h
  obtain ⟨x, hx, y, hy, rfl⟩ := h
  simp only [Comp.deg]
  omega

theorem defaultCart_ne_nil (l : ℕ) : 0 < (defaultCart l).length := by
  have : ((l, 0, 0) : Comp) ∈ defaultCart l := by
    simp only [defaultCart, List.mem_flatMap, List.mem_reverse, List.mem_range, List.mem_map]
    exact ⟨l, by omega, 0, by omega, by simp⟩
  exact List.length_pos_of_mem this

theorem comp_deg_of_defaultCart (s : Shell ℝ) (hcart : s.cart = defaultCart s.l) (c : ℕ)
    (hc : c < s.ncart) : (s.comp! c).deg = s.l := by
  apply defaultCart_deg
  unfold Shell.comp!
  unfold Shell.ncart at hc
  rw [getD_of_lt _ _ _ hc]
  rw [← hcart]
  exact List.getElem_mem hc

/-- **Goal 2 (signed form, labels in range).**  For `l ≤ 10` and the default Cartesian component list:
the `(m, f; m, f')` entry of the normalised, transformed same-shell overlap block is `sgn_f · sgn_f'`
if rows `f` and `f'` are the same function (up to sign) and `0` otherwise. -/
theorem spherical_block_orthonormal_signed (s : Shell ℝ) (hsph : s.sph = true) (hl : s.l ≤ 10)
    (hcart : s.cart = defaultCart s.l) (hn : s.unitNorm = true)
    (hs : ∀ k < s.nprim, 0 < s.exp! k)
    (m c₀ : ℕ) (hc₀ : c₀ < s.ncart) (hpos : 0 < (overlapBlock s s).get4 m c₀ m c₀)
    (f f' : ℕ) (r r' : SphLabel) (hr : s.sphOrd.getD f ⟨false, false, 0⟩ = r)
    (hr' : s.sphOrd.getD f' ⟨false, false, 0⟩ = r')
    (hm : r.m ≤ s.l) (hm' : r'.m ≤ s.l) (hsn : r.sine = true → 1 ≤ r.m)
    (hsn' : r'.sine = true → 1 ≤ r'.m) :
    (wBlock2 s s s.weights s.weights (overlapBlock s s)).get4 m f m f'
      = if (r.sine, r.m) = (r'.sine, r'.m) then ((r.sgn * r'.sgn : ℚ) : ℝ) else 0 := by
  rw [spherical_block_eq_gram s hsph hn hs (comp_deg_of_defaultCart s hcart) m c₀ hc₀ hpos, hr, hr',
    hcart]
  exact rows_orthonormal_le_10 s.l hl r r' hm hm' hsn hsn'

/-- **Goal 2.**  For a spherical shell with `l ≤ 10`, the default Cartesian component list, an
accepted spherical order (any order, any signs), positive exponents, unit norm, and a segment `m`
that does not vanish (positive raw self-overlap of one component): the same-segment block of the
model's overlap array is the identity matrix. -/
theorem spherical_block_orthonormal (s : Shell ℝ) (hsph : s.sph = true) (hl : s.l ≤ 10)
    (hcart : s.cart = defaultCart s.l) (labels : List String)
    (hord : validSphOrder s.l labels = some s.sphOrd) (hn : s.unitNorm = true)
    (hs : ∀ k < s.nprim, 0 < s.exp! k)
    (m c₀ : ℕ) (hc₀ : c₀ < s.ncart) (hpos : 0 < (overlapBlock s s).get4 m c₀ m c₀)
    (f f' : ℕ) (hf : f < s.nfun) (hf' : f' < s.nfun) :
    (wBlock2 s s s.weights s.weights (overlapBlock s s)).get4 m f m f'
      = if f = f' then 1 else 0 := by
  simp only [Shell.nfun, hsph, if_true] at hf hf'
  rw [spherical_block_eq_gram s hsph hn hs (comp_deg_of_defaultCart s hcart) m c₀ hc₀ hpos,
    getD_of_lt _ _ _ hf, getD_of_lt _ _ _ hf', hcart]
  exact rows_orthonormal_valid s.l hl labels s.sphOrd hord f f' hf hf'

/-- the default spherical order is accepted -/
theorem spherical_block_orthonormal_default (s : Shell ℝ) (hsph : s.sph = true) (hl : s.l ≤ 10)
    (hcart : s.cart = defaultCart s.l) (hord : s.sphOrd = defaultSph s.l) (hn : s.unitNorm = true)
    (hs : ∀ k < s.nprim, 0 < s.exp! k)
    (m c₀ : ℕ) (hc₀ : c₀ < s.ncart) (hpos : 0 < (overlapBlock s s).get4 m c₀ m c₀)
    (f f' : ℕ) (hf : f < s.nfun) (hf' : f' < s.nfun) :
    (wBlock2 s s s.weights s.weights (overlapBlock s s)).get4 m f m f'
      = if f = f' then 1 else 0 :=
  spherical_block_orthonormal s hsph hl hcart _ (by rw [hord]; exact defaultSph_valid s.l hl) hn hs
    m c₀ hc₀ hpos f f' hf hf'

/-- diagonal entries: every spherical function is unit-normalised -/
theorem spherical_diag_one (s : Shell ℝ) (hsph : s.sph = true) (hl : s.l ≤ 10)
    (hcart : s.cart = defaultCart s.l) (labels : List String)
    (hord : validSphOrder s.l labels = some s.sphOrd) (hn : s.unitNorm = true)
    (hs : ∀ k < s.nprim, 0 < s.exp! k)
    (m c₀ : ℕ) (hc₀ : c₀ < s.ncart) (r₀ : ℝ × ℝ × ℝ) (h0 : shellFn s m c₀ r₀ ≠ 0)
    (f : ℕ) (hf : f < s.nfun) :
    (wBlock2 s s s.weights s.weights (overlapBlock s s)).get4 m f m f = 1 := by
  rw [spherical_block_orthonormal s hsph hl hcart labels hord hn hs m c₀ hc₀
    (selfOverlap_pos s m c₀ hs r₀ h0) f f hf hf, if_pos rfl]

/-- diagonal entries of a Cartesian shell (block form of `C16.normalised_diag_one`) -/
theorem cartesian_diag_one (s : Shell ℝ) (hsph : s.sph = false) (hn : s.unitNorm = true)
    (hs : ∀ k < s.nprim, 0 < s.exp! k) (m f : ℕ) (r₀ : ℝ × ℝ × ℝ) (h0 : shellFn s m f r₀ ≠ 0) :
    (wBlock2 s s s.weights s.weights (overlapBlock s s)).get4 m f m f = 1 := by
  have h := C16.normalised_diag_one s m f hn hs r₀ h0
  simp only [wBlock2, tab4_get, hsph, Shell.weights, tab3_get, beq_self_eq_true, if_true]
  simp only [Bool.false_eq_true, if_false]
  rw [← h]
  ring

/-! ## The assembled overlap array -/

/-- hypotheses on a basis under which every basis function is unit-normalised -/
structure Basis.Regular (b : Basis ℝ) : Prop where
  unitNorm : ∀ (i : ℕ) (hi : i < b.size), b[i].unitNorm = true
  exps_pos : ∀ (i : ℕ) (hi : i < b.size), ∀ k < b[i].nprim, 0 < b[i].exp! k
  /-- no contracted Cartesian function of the basis vanishes identically -/
  nonvanishing : ∀ (i : ℕ) (hi : i < b.size) (m c : ℕ), m < b[i].nseg → c < b[i].ncart →
    ∃ r₀ : ℝ × ℝ × ℝ, shellFn b[i] m c r₀ ≠ 0
  /-- spherical shells: `l ≤ 10`, default Cartesian component list, accepted label list -/
  sph_ok : ∀ (i : ℕ) (hi : i < b.size), b[i].sph = true →
    b[i].l ≤ 10 ∧ b[i].cart = defaultCart b[i].l ∧
      ∃ labels, validSphOrder b[i].l labels = some b[i].sphOrd

/-- the `blk` argument with which `Driver.lean` calls `assemble2` for `"overlap"`
(`one4 (overlapBlock b[i]! b[j]!)`) -/
noncomputable def overlapBlk (b : Basis ℝ) (i j : ℕ) : Tab (Tab4 ℝ) :=
  tab 1 fun _ => overlapBlock b[i]! b[j]!

/-- **Goal 3.  Every basis function is unit-normalised**: every diagonal entry of the overlap array
the model assembles is `1` — Cartesian and spherical shells, any number of shells, segments and
primitives. -/
theorem overlap_array_diag_one (b : Basis ℝ) (hb : b.Regular) (r : ℕ) (hr : r < b.total) :
    entry2 b b (pairBlocks b b 1 (overlapBlk b)) r r 0 = 1 := by
  obtain ⟨hi, hm, hf, hrr⟩ := locate_lt b r hr
  generalize (b.locate r).1 = i at hi hm hf hrr
  generalize (b.locate r).2.1 = m at hm hf hrr
  generalize (b.locate r).2.2 = f at hf hrr
  have e := entry2_layout b b 1 (overlapBlk b) i i hi hi m f m f 0 hm hf hm hf
  rw [hrr] at e
  rw [e]
  have hblk : (overlapBlk b i i).get 0 = overlapBlock b[i] b[i] := by
    simp only [overlapBlk, tab_get]
    rw [getElem!_pos b i hi]
  rw [hblk]
  cases hsph : b[i].sph with
  | true =>
    obtain ⟨hl, hcart, labels, hord⟩ := hb.sph_ok i hi hsph
    have hc₀ : 0 < b[i].ncart := by
      unfold Shell.ncart; rw [hcart]; exact defaultCart_ne_nil _
    obtain ⟨r₀, h0⟩ := hb.nonvanishing i hi m 0 hm hc₀
    exact spherical_diag_one b[i] hsph hl hcart labels hord (hb.unitNorm i hi) (hb.exps_pos i hi)
      m 0 hc₀ r₀ h0 f hf
  | false =>
    have hf' : f < b[i].ncart := by
      simpa [Shell.nfun, hsph, Shell.ncart] using hf
    obtain ⟨r₀, h0⟩ := hb.nonvanishing i hi m f hm hf'
    exact cartesian_diag_one b[i] hsph (hb.unitNorm i hi) (hb.exps_pos i hi) m f r₀ h0

/-- **Orthonormality inside a segment of a spherical shell, in the assembled array**: the entry at
rows/columns `offset i + m·nfun + f`, `offset i + m·nfun + f'` is `δ_{ff'}`. -/
theorem overlap_array_sph_segment_orthonormal (b : Basis ℝ) (hb : b.Regular) (i : ℕ)
    (hi : i < b.size) (hsph : b[i].sph = true) (m f f' : ℕ) (hm : m < b[i].nseg)
    (hf : f < b[i].nfun) (hf' : f' < b[i].nfun) :
    entry2 b b (pairBlocks b b 1 (overlapBlk b))
        (b.offset i + m * b[i].nfun + f) (b.offset i + m * b[i].nfun + f') 0
      = if f = f' then 1 else 0 := by
  rw [entry2_layout b b 1 (overlapBlk b) i i hi hi m f m f' 0 hm hf hm hf']
  have hblk : (overlapBlk b i i).get 0 = overlapBlock b[i] b[i] := by
    simp only [overlapBlk, tab_get]
    rw [getElem!_pos b i hi]
  rw [hblk]
  obtain ⟨hl, hcart, labels, hord⟩ := hb.sph_ok i hi hsph
  have hc₀ : 0 < b[i].ncart := by
    unfold Shell.ncart; rw [hcart]; exact defaultCart_ne_nil _
  obtain ⟨r₀, h0⟩ := hb.nonvanishing i hi m 0 hm hc₀
  exact spherical_block_orthonormal b[i] hsph hl hcart labels hord (hb.unitNorm i hi)
    (hb.exps_pos i hi) m 0 hc₀ (selfOverlap_pos b[i] m 0 (hb.exps_pos i hi) r₀ h0) f f' hf hf'

/-- the same for the flat array `assemble2 b b 1 …` that the driver prints: entry `[r][r]` is `1` -/
theorem overlap_flat_diag_one (b : Basis ℝ) (hb : b.Regular) (r : ℕ) (hr : r < b.total) :
    (assemble2 b b 1 (overlapBlk b))[(r * b.total + r) * 1 + 0]! = 1 := by
  rw [assemble2_get b b 1 (overlapBlk b) r r 0 hr hr (by omega)]
  exact overlap_array_diag_one b hb r hr

end GB

