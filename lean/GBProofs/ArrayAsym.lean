import GBProofs.ArrayMotion2
import GBProofs.ArrayContraction

/-!
# Arrays of two (or four) *different* bases: rigid motions (C12) and contraction laws (C13)

`ArrayMotion.lean`, `ArrayMotion2.lean` and `ArrayContraction.lean` state the array-level theorems for
one basis in every slot.  Here they are proved for `assemble2 b1 b2 …` with two different bases (the
library's `overlap_integral_asymmetric(basis_one, basis_two)` in particular) and for
`assemble4g b1 b2 b3 b4 …` with four different bases; the one-basis theorems are the instances
`b1 = b2 (= b3 = b4)`.

* §1 `entry2_moved_of_blocks_asym`, `assemble2_moved_of_blocks_asym`; `overlapBlk2`, the block function
  with which `Driver.lean` calls `assemble2` for `"overlap_asym"`; `overlap_asym_array_moved`,
  `overlap_asym_flat_moved`, `…_moved_of_linear_eq_id`, `…_translate`.
* §2 `entry2_eq_sum_asym`, `entry2_scale_of_located_asym`, `Replaced.refl`,
  `entry2_replaced_of_blocks_asym` (a shell replaced in each of the two bases), the one-sided forms
  `entry2_replaced_of_blocks_left / _right`; the four laws for every `BlockLaws` block function
  (`BlockLaws.array_…_left / _right`); the instances for the asymmetric overlap
  (`overlap_asym_array_…`, `overlap_asym_flat_…`).
* §3 `entry4_moved_of_blocks_g` (four different movable bases), `eri_array_moved_g`,
  `eri_flat_moved_g`.
-/
open Finset

namespace GB

/-! ## 1. Rigid motions: two different bases -/
section Moved2

/-- **Array level, two different bases (the generic lemma).**  If, for every shell `b1[i]` of the
first and every shell `b2[j]` of the second movable basis, the raw Cartesian block `blk' i j` used for
the moved pair of bases is the `repMat` transform of the raw block `blk i j` used for the original pair
(slice `e`), then every entry of the assembled array of the moved pair is the `basisRep` transform of
the assembled array of the original pair: rows with `basisRep b1`, columns with `basisRep b2`.
`entry2_moved_of_blocks` is the case `b1 = b2`. -/
theorem entry2_moved_of_blocks_asym (g : E3 ≃ᵃⁱ[ℝ] E3) (b1 b2 : Basis ℝ) (hb1 : b1.Movable)
    (hb2 : b2.Movable) (nextra : ℕ) (blk blk' : ℕ → ℕ → Tab (Tab4 ℝ)) (e : ℕ)
    (h : ∀ (i j : ℕ) (hi : i < b1.size) (hj : j < b2.size) (m n : ℕ),
      ∀ a < b1[i].ncart, ∀ c < b2[j].ncart, ((blk' i j).get e).get4 m a n c
        = ∑ a' ∈ range b1[i].ncart, ∑ c' ∈ range b2[j].ncart,
            repMat (linPart g) b1[i].cart a a' * repMat (linPart g) b2[j].cart c c'
              * ((blk i j).get e).get4 m a' n c')
    (r c : ℕ) (hr : r < b1.total) (hc : c < b2.total) :
    entry2 (b1.moved g) (b2.moved g) (pairBlocks (b1.moved g) (b2.moved g) nextra blk') r c e
      = ∑ r' ∈ range b1.total, ∑ c' ∈ range b2.total,
          basisRep b1 (linPart g) r r' * basisRep b2 (linPart g) c c'
            * entry2 b1 b2 (pairBlocks b1 b2 nextra blk) r' c' e := by
  obtain ⟨hi, hm, hf, -⟩ := locate_lt b1 r hr
  obtain ⟨hj, hn, hk, -⟩ := locate_lt b2 c hc
  have hsr := shellOf_eq b1 r hi
  have hsc := shellOf_eq b2 c hj
  have hR : ∑ r' ∈ range b1.total, ∑ c' ∈ range b2.total,
        basisRep b1 (linPart g) r r' * basisRep b2 (linPart g) c c'
          * entry2 b1 b2 (pairBlocks b1 b2 nextra blk) r' c' e
      = ∑ r' ∈ range b1.total, basisRep b1 (linPart g) r r' * ∑ c' ∈ range b2.total,
          basisRep b2 (linPart g) c c' * entry2 b1 b2 (pairBlocks b1 b2 nextra blk) r' c' e := by
    refine Finset.sum_congr rfl fun r' _ => ?_
    rw [Finset.mul_sum]; exact Finset.sum_congr rfl fun c' _ => by ring
  rw [hR, sum_basisRep b1 _ r hr]
  simp_rw [sum_basisRep b2 _ c hc]
  rw [hsr, hsc]
  have hL : entry2 (b1.moved g) (b2.moved g) (pairBlocks (b1.moved g) (b2.moved g) nextra blk') r c e
      = (wBlock2 (b1[(b1.locate r).1].moved g) (b2[(b2.locate c).1].moved g)
          (b1[(b1.locate r).1].moved g).weights (b2[(b2.locate c).1].moved g).weights
          ((blk' (b1.locate r).1 (b2.locate c).1).get e)).get4
            (b1.locate r).2.1 (b1.locate r).2.2 (b2.locate c).2.1 (b2.locate c).2.2 := by
    unfold entry2
    simp only [Basis.moved_locate]
    rw [pairBlocks_get (b1.moved g) (b2.moved g) nextra blk' _ _ e (by simpa using hi)
      (by simpa using hj), Basis.moved_getElem b1 g _ hi, Basis.moved_getElem b2 g _ hj]
  rw [hL, wBlock2_moved_of_block g _ _ (hb1 _ hi) (hb2 _ hj)
    ((blk (b1.locate r).1 (b2.locate c).1).get e) _ _ _ (h _ _ hi hj _ _) _ _ hf hk]
  unfold segOf funOf
  refine Finset.sum_congr rfl fun f' hf' => ?_
  rw [Finset.mul_sum]
  refine Finset.sum_congr rfl fun k' hk' => ?_
  rw [entry2_layout b1 b2 nextra blk _ _ hi hj _ f' _ k' e hm (Finset.mem_range.mp hf') hn
    (Finset.mem_range.mp hk')]
  ring

/-- the generic lemma for the flat arrays `assemble2 b1 b2 …` (row-major `[r][c][e]`, `r` over the
functions of `b1`, `c` over those of `b2`) -/
theorem assemble2_moved_of_blocks_asym (g : E3 ≃ᵃⁱ[ℝ] E3) (b1 b2 : Basis ℝ) (hb1 : b1.Movable)
    (hb2 : b2.Movable) (nextra : ℕ) (blk blk' : ℕ → ℕ → Tab (Tab4 ℝ)) (e : ℕ) (he : e < nextra)
    (h : ∀ (i j : ℕ) (hi : i < b1.size) (hj : j < b2.size) (m n : ℕ),
      ∀ a < b1[i].ncart, ∀ c < b2[j].ncart, ((blk' i j).get e).get4 m a n c
        = ∑ a' ∈ range b1[i].ncart, ∑ c' ∈ range b2[j].ncart,
            repMat (linPart g) b1[i].cart a a' * repMat (linPart g) b2[j].cart c c'
              * ((blk i j).get e).get4 m a' n c')
    (r c : ℕ) (hr : r < b1.total) (hc : c < b2.total) :
    (assemble2 (b1.moved g) (b2.moved g) nextra blk')[(r * b2.total + c) * nextra + e]!
      = ∑ r' ∈ range b1.total, ∑ c' ∈ range b2.total,
          basisRep b1 (linPart g) r r' * basisRep b2 (linPart g) c c'
            * (assemble2 b1 b2 nextra blk)[(r' * b2.total + c') * nextra + e]! := by
  have hL := assemble2_get (b1.moved g) (b2.moved g) nextra blk' r c e
    (by rw [Basis.moved_total]; exact hr) (by rw [Basis.moved_total]; exact hc) he
  rw [Basis.moved_total] at hL
  rw [hL, entry2_moved_of_blocks_asym g b1 b2 hb1 hb2 nextra blk blk' e h r c hr hc]
  refine Finset.sum_congr rfl fun r' hr' => Finset.sum_congr rfl fun c' hc' => ?_
  rw [assemble2_get b1 b2 nextra blk r' c' e (Finset.mem_range.mp hr') (Finset.mem_range.mp hc') he]

/-- the `blk` argument with which `Driver.lean` calls `assemble2 b1 b2 1 …` for `"overlap_asym"`
(`overlap_integral_asymmetric(basis_one, basis_two)`): the overlap block of shell `i` of the first and
shell `j` of the second basis, one trailing entry.  `overlapBlk b = overlapBlk2 b b`. -/
noncomputable def overlapBlk2 (b1 b2 : Basis ℝ) (i j : ℕ) : Tab (Tab4 ℝ) :=
  tab 1 fun _ => overlapBlock b1[i]! b2[j]!

theorem overlapBlk2_self (b : Basis ℝ) : overlapBlk2 b b = overlapBlk b := rfl

/-- the block-level input of the overlap instances -/
theorem overlapBlk2_moved (g : E3 ≃ᵃⁱ[ℝ] E3) (b1 b2 : Basis ℝ) (hb1 : b1.Movable)
    (hb2 : b2.Movable) (i j : ℕ) (hi : i < b1.size) (hj : j < b2.size) (m n : ℕ) :
    ∀ a < b1[i].ncart, ∀ c < b2[j].ncart,
      ((overlapBlk2 (b1.moved g) (b2.moved g) i j).get 0).get4 m a n c
        = ∑ a' ∈ range b1[i].ncart, ∑ c' ∈ range b2[j].ncart,
            repMat (linPart g) b1[i].cart a a' * repMat (linPart g) b2[j].cart c c'
              * ((overlapBlk2 b1 b2 i j).get 0).get4 m a' n c' := by
  intro a ha c' hc'
  simp only [overlapBlk2, tab_get]
  rw [Basis.moved_getElem! b1 g i hi, Basis.moved_getElem! b2 g j hj, getElem!_pos b1 i hi,
    getElem!_pos b2 j hj]
  exact overlapBlock_moved g b1[i] b2[j] m a n c' (hb1 i hi).exps_pos (hb2 j hj).exps_pos
    (hb1 i hi).full_cart (hb2 j hj).full_cart ha hc'

/-- **C12 for the asymmetric overlap (C01) of two different (mixed Cartesian / spherical) bases.**
For movable bases `b1`, `b2` and every rigid motion `g` applied to both, every entry of the overlap
array between the moved bases is `Σ_{r'} Σ_{c'} U₁(r,r') U₂(c,c') S(r',c')` with `S` the overlap array
between the original bases and `U_k = basisRep b_k (linPart g)`. -/
theorem overlap_asym_array_moved (g : E3 ≃ᵃⁱ[ℝ] E3) (b1 b2 : Basis ℝ) (hb1 : b1.Movable)
    (hb2 : b2.Movable) (r c : ℕ) (hr : r < b1.total) (hc : c < b2.total) :
    entry2 (b1.moved g) (b2.moved g)
        (pairBlocks (b1.moved g) (b2.moved g) 1 (overlapBlk2 (b1.moved g) (b2.moved g))) r c 0
      = ∑ r' ∈ range b1.total, ∑ c' ∈ range b2.total,
          basisRep b1 (linPart g) r r' * basisRep b2 (linPart g) c c'
            * entry2 b1 b2 (pairBlocks b1 b2 1 (overlapBlk2 b1 b2)) r' c' 0 :=
  entry2_moved_of_blocks_asym g b1 b2 hb1 hb2 1 (overlapBlk2 b1 b2)
    (overlapBlk2 (b1.moved g) (b2.moved g)) 0
    (fun i j hi hj m n => overlapBlk2_moved g b1 b2 hb1 hb2 i j hi hj m n) r c hr hc

/-- **C12 for the flat asymmetric overlap array** `assemble2 b1 b2 1 (overlapBlk2 b1 b2)` (row-major
`[r][c]`, what the driver prints for `"overlap_asym"`) -/
theorem overlap_asym_flat_moved (g : E3 ≃ᵃⁱ[ℝ] E3) (b1 b2 : Basis ℝ) (hb1 : b1.Movable)
    (hb2 : b2.Movable) (r c : ℕ) (hr : r < b1.total) (hc : c < b2.total) :
    (assemble2 (b1.moved g) (b2.moved g) 1 (overlapBlk2 (b1.moved g) (b2.moved g)))[
        (r * b2.total + c) * 1 + 0]!
      = ∑ r' ∈ range b1.total, ∑ c' ∈ range b2.total,
          basisRep b1 (linPart g) r r' * basisRep b2 (linPart g) c c'
            * (assemble2 b1 b2 1 (overlapBlk2 b1 b2))[(r' * b2.total + c') * 1 + 0]! :=
  assemble2_moved_of_blocks_asym g b1 b2 hb1 hb2 1 (overlapBlk2 b1 b2)
    (overlapBlk2 (b1.moved g) (b2.moved g)) 0 (by omega)
    (fun i j hi hj m n => overlapBlk2_moved g b1 b2 hb1 hb2 i j hi hj m n) r c hr hc

/-- a two-index array transformed with `basisRep b1` on the rows and `basisRep b2` on the columns is the
array itself when the linear map acts as the identity -/
theorem sum_basisRep_of_id2_asym (b1 b2 : Basis ℝ) (hb1 : b1.Movable) (hb2 : b2.Movable)
    (R : E3 →ₗ[ℝ] E3) (hR : ∀ u, R u = u) (X : ℕ → ℕ → ℝ) (r c : ℕ) (hr : r < b1.total)
    (hc : c < b2.total) :
    ∑ r' ∈ range b1.total, ∑ c' ∈ range b2.total, basisRep b1 R r r' * basisRep b2 R c c' * X r' c'
      = X r c := by
  have e : ∀ r' ∈ range b1.total, ∀ c' ∈ range b2.total,
      basisRep b1 R r r' * basisRep b2 R c c' * X r' c'
        = if c = c' then (if r = r' then X r' c' else 0) else 0 := by
    intro r' hr' c' hc'
    rw [basisRep_of_id b1 hb1 R hR r r' hr (Finset.mem_range.mp hr'),
      basisRep_of_id b2 hb2 R hR c c' hc (Finset.mem_range.mp hc')]
    split_ifs <;> simp
  rw [Finset.sum_congr rfl fun r' hr' => Finset.sum_congr rfl (e r' hr')]
  simp only [Finset.sum_ite_eq, Finset.mem_range, hr, hc, if_true]

/-- **Asymmetric overlap: invariant under every rigid motion with trivial linear part** (applied to
both bases) -/
theorem overlap_asym_array_moved_of_linear_eq_id (g : E3 ≃ᵃⁱ[ℝ] E3)
    (hg : ∀ u, g.linearIsometryEquiv u = u) (b1 b2 : Basis ℝ) (hb1 : b1.Movable)
    (hb2 : b2.Movable) (r c : ℕ) (hr : r < b1.total) (hc : c < b2.total) :
    entry2 (b1.moved g) (b2.moved g)
        (pairBlocks (b1.moved g) (b2.moved g) 1 (overlapBlk2 (b1.moved g) (b2.moved g))) r c 0
      = entry2 b1 b2 (pairBlocks b1 b2 1 (overlapBlk2 b1 b2)) r c 0 := by
  rw [overlap_asym_array_moved g b1 b2 hb1 hb2 r c hr hc]
  exact sum_basisRep_of_id2_asym b1 b2 hb1 hb2 _ (fun u => by rw [linPart_apply, hg])
    (fun r' c' => entry2 b1 b2 (pairBlocks b1 b2 1 (overlapBlk2 b1 b2)) r' c' 0) r c hr hc

/-- **C12, translation invariance of the asymmetric overlap (C01)**: translating both bases by the
same vector changes no entry. -/
theorem overlap_asym_array_translate (v : E3) (b1 b2 : Basis ℝ) (hb1 : b1.Movable)
    (hb2 : b2.Movable) (r c : ℕ) (hr : r < b1.total) (hc : c < b2.total) :
    entry2 (b1.moved (translation v)) (b2.moved (translation v))
        (pairBlocks (b1.moved (translation v)) (b2.moved (translation v)) 1
          (overlapBlk2 (b1.moved (translation v)) (b2.moved (translation v)))) r c 0
      = entry2 b1 b2 (pairBlocks b1 b2 1 (overlapBlk2 b1 b2)) r c 0 :=
  overlap_asym_array_moved_of_linear_eq_id (translation v) (translation_linear v) b1 b2 hb1 hb2
    r c hr hc

end Moved2

/-! ## 2. Contraction laws: two different bases -/
section Replaced2

/-- **Entries of the assembled array of two bases.**  For `r < b1.total`, `c < b2.total`, entry
`(r, c, e)` is the double sum over the Cartesian components of the raw block entries of the two
shells, weighted by `cw b1 r`, `cw b2 c`.  (`entry2_eq_sum` is the case `b1 = b2`.) -/
theorem entry2_eq_sum_asym (b1 b2 : Basis ℝ) (nextra : ℕ) (blk : ℕ → ℕ → Tab (Tab4 ℝ))
    (r c e : ℕ) (hr : r < b1.total) (hc : c < b2.total) :
    entry2 b1 b2 (pairBlocks b1 b2 nextra blk) r c e
      = ∑ a ∈ Finset.range (shellOf b1 r).ncart, ∑ a' ∈ Finset.range (shellOf b2 c).ncart,
          cw b1 r a * cw b2 c a'
            * ((blk (b1.locate r).1 (b2.locate c).1).get e).get4 (segOf b1 r) a (segOf b2 c) a' := by
  obtain ⟨hi, hm, hf, -⟩ := locate_lt b1 r hr
  obtain ⟨hj, hn, hg, -⟩ := locate_lt b2 c hc
  unfold entry2
  simp only []
  rw [pairBlocks_get b1 b2 nextra blk _ _ e hi hj]
  unfold cw segOf funOf
  rw [shellOf_eq b1 r hi, shellOf_eq b2 c hj]
  exact wBlock2_get4_eq_sum _ _ _ _ _ _ _ hf hg

/-- **Base lemma, two pairs of bases.**  `b1'` has as many functions as `b1`, `b2'` as many as `b2`; if
at the row index `r` and at the column index `c` the shells have equally many Cartesian components,
the weights differ by the factors `εr`, `εc` and the raw block entries by the factor `μ`, the array
entries differ by `εr · εc · μ`. -/
theorem entry2_scale_of_located_asym (b1 b1' b2 b2' : Basis ℝ) (nextra : ℕ)
    (blk blk' : ℕ → ℕ → Tab (Tab4 ℝ)) (e r c : ℕ) (hr : r < b1.total) (hc : c < b2.total)
    (ht1 : b1'.total = b1.total) (ht2 : b2'.total = b2.total) (εr εc μ : ℝ)
    (hsr : (shellOf b1' r).ncart = (shellOf b1 r).ncart)
    (hsc : (shellOf b2' c).ncart = (shellOf b2 c).ncart)
    (hwr : ∀ a < (shellOf b1 r).ncart, cw b1' r a = εr * cw b1 r a)
    (hwc : ∀ a < (shellOf b2 c).ncart, cw b2' c a = εc * cw b2 c a)
    (hX : ∀ a < (shellOf b1 r).ncart, ∀ a' < (shellOf b2 c).ncart,
      ((blk' (b1'.locate r).1 (b2'.locate c).1).get e).get4 (segOf b1' r) a (segOf b2' c) a'
        = μ * ((blk (b1.locate r).1 (b2.locate c).1).get e).get4 (segOf b1 r) a (segOf b2 c) a') :
    entry2 b1' b2' (pairBlocks b1' b2' nextra blk') r c e
      = εr * εc * μ * entry2 b1 b2 (pairBlocks b1 b2 nextra blk) r c e := by
  rw [entry2_eq_sum_asym b1 b2 nextra blk r c e hr hc,
    entry2_eq_sum_asym b1' b2' nextra blk' r c e (by rw [ht1]; exact hr) (by rw [ht2]; exact hc),
    hsr, hsc, Finset.mul_sum]
  refine Finset.sum_congr rfl fun a ha => ?_
  rw [Finset.mul_sum]
  refine Finset.sum_congr rfl fun a' ha' => ?_
  rw [hwr a (Finset.mem_range.mp ha), hwc a' (Finset.mem_range.mp ha'),
    hX a (Finset.mem_range.mp ha) a' (Finset.mem_range.mp ha')]
  ring

/-- a basis is itself with shell `i` "replaced" by itself -/
theorem Replaced.refl (b : Basis ℝ) (i : ℕ) : Replaced b b i (fun m => (b[i]!, m)) := by
  refine ⟨rfl, fun _ _ => rfl, fun r _ h => ⟨?_, rfl⟩, fun _ _ _ => ⟨rfl, rfl⟩⟩
  show b[(b.locate r).1]! = b[i]!
  rw [h]

/-- **The generic lemma, two different bases, a shell replaced in each.**  `b1'` is `b1` with shell
`i1` replaced and `b2'` is `b2` with shell `i2` replaced (`Replaced`; `Replaced.refl` for "nothing
replaced"); the replacing shells have the frames of the replaced ones; the contraction norm of
function `(new_k m)` is `lam_k m` times that of segment `m` of `b_k[i_k]`; the raw block entries of
`(new1 m)` in the left slot are `mu1 m` times those of segment `m` of `b1[i1]` against every shell `t`
with `P2 t`, and those of `(new2 n)` in the right slot `mu2 n` times those of segment `n` of `b2[i2]`
against every shell `s` with `P1 s` (`P1` holds for the shells of `b1`, `P2` for the shells of `b2` and
for the shells replacing `b2[i2]`).  Then every entry of the array of `(b1', b2')` is the entry of the
array of `(b1, b2)` at the same indices, multiplied by `lam1 m · mu1 m` if the row is a function of
segment `m` of shell `i1` of `b1`, and by `lam2 n · mu2 n` if the column is a function of segment `n`
of shell `i2` of `b2`.  `entry2_replaced_of_blocks` is the case `b1 = b2`, `b1' = b2'`, `i1 = i2`. -/
theorem entry2_replaced_of_blocks_asym {b1' b1 b2' b2 : Basis ℝ} {i1 i2 : ℕ}
    {new1 new2 : ℕ → Shell ℝ × ℕ}
    (hR1 : Replaced b1' b1 i1 new1) (hi1 : i1 < b1.size)
    (hR2 : Replaced b2' b2 i2 new2) (hi2 : i2 < b2.size) (lam1 mu1 lam2 mu2 : ℕ → ℝ)
    (hframe1 : ∀ m < b1[i1].nseg, (new1 m).1.frame = b1[i1].frame)
    (hnorm1 : ∀ m < b1[i1].nseg, ∀ a < b1[i1].ncart,
      (normCont (new1 m).1).get2 (new1 m).2 a = lam1 m * (normCont b1[i1]).get2 m a)
    (hframe2 : ∀ m < b2[i2].nseg, (new2 m).1.frame = b2[i2].frame)
    (hnorm2 : ∀ m < b2[i2].nseg, ∀ a < b2[i2].ncart,
      (normCont (new2 m).1).get2 (new2 m).2 a = lam2 m * (normCont b2[i2]).get2 m a)
    (P1 P2 : Shell ℝ → Prop) (hPb1 : ∀ j (hj : j < b1.size), P1 b1[j])
    (hPb2 : ∀ j (hj : j < b2.size), P2 b2[j]) (hPnew2 : ∀ m < b2[i2].nseg, P2 (new2 m).1)
    (nextra : ℕ) (B : Shell ℝ → Shell ℝ → Tab (Tab4 ℝ)) (e : ℕ)
    (hBl : ∀ m < b1[i1].nseg, ∀ t n, P2 t → ∀ a < b1[i1].ncart, ∀ c < t.ncart,
      ((B (new1 m).1 t).get e).get4 (new1 m).2 a n c = mu1 m * ((B b1[i1] t).get e).get4 m a n c)
    (hBr : ∀ n < b2[i2].nseg, ∀ s m, P1 s → ∀ a < s.ncart, ∀ c < b2[i2].ncart,
      ((B s (new2 n).1).get e).get4 m a (new2 n).2 c = mu2 n * ((B s b2[i2]).get e).get4 m a n c)
    (r c : ℕ) (hr : r < b1.total) (hc : c < b2.total) :
    entry2 b1' b2' (pairBlocks b1' b2' nextra fun j k => B b1'[j]! b2'[k]!) r c e
      = (if (b1.locate r).1 = i1 then lam1 (segOf b1 r) * mu1 (segOf b1 r) else 1)
        * (if (b2.locate c).1 = i2 then lam2 (segOf b2 c) * mu2 (segOf b2 c) else 1)
        * entry2 b1 b2 (pairBlocks b1 b2 nextra fun j k => B b1[j]! b2[k]!) r c e := by
  obtain ⟨hir, hsr, -, -⟩ := located b1 r hr
  obtain ⟨hic, hsc, -, -⟩ := located b2 c hc
  obtain ⟨hfrr, hcwr⟩ := hR1.slot hi1 lam1 hframe1 hnorm1 r hr
  obtain ⟨hfrc, hcwc⟩ := hR2.slot hi2 lam2 hframe2 hnorm2 c hc
  have hPr : P1 (shellOf b1 r) := by rw [hsr]; exact hPb1 _ hir
  have hPc' : P2 (shellOf b2' c) := by
    by_cases h : (b2.locate c).1 = i2
    · rw [(hR2.at_i c hc h).1]; exact hPnew2 _ (Replaced.seg_lt hi2 c hc h)
    · rw [(hR2.off_i c hc h).1, hsc]; exact hPb2 _ hic
  -- the left slot
  have hL : ∀ t n, P2 t → ∀ a < (shellOf b1 r).ncart, ∀ c' < t.ncart,
      ((B (shellOf b1' r) t).get e).get4 (segOf b1' r) a n c'
        = (if (b1.locate r).1 = i1 then mu1 (segOf b1 r) else 1)
          * ((B (shellOf b1 r) t).get e).get4 (segOf b1 r) a n c' := by
    intro t n ht a ha c' hc'
    by_cases h : (b1.locate r).1 = i1
    · have hs := shellOf_at b1 r i1 h hi1
      rw [if_pos h, (hR1.at_i r hr h).1, (hR1.at_i r hr h).2, hs]
      rw [hs] at ha
      exact hBl _ (Replaced.seg_lt hi1 r hr h) t n ht a ha c' hc'
    · rw [if_neg h, (hR1.off_i r hr h).1, (hR1.off_i r hr h).2, one_mul]
  -- the right slot
  have hRt : ∀ s m, P1 s → ∀ a < s.ncart, ∀ c' < (shellOf b2 c).ncart,
      ((B s (shellOf b2' c)).get e).get4 m a (segOf b2' c) c'
        = (if (b2.locate c).1 = i2 then mu2 (segOf b2 c) else 1)
          * ((B s (shellOf b2 c)).get e).get4 m a (segOf b2 c) c' := by
    intro s m hs a ha c' hc'
    by_cases h : (b2.locate c).1 = i2
    · have hs' := shellOf_at b2 c i2 h hi2
      rw [if_pos h, (hR2.at_i c hc h).1, (hR2.at_i c hc h).2, hs']
      rw [hs'] at hc'
      exact hBr _ (Replaced.seg_lt hi2 c hc h) s m hs a ha c' hc'
    · rw [if_neg h, (hR2.off_i c hc h).1, (hR2.off_i c hc h).2, one_mul]
  have key := entry2_scale_of_located_asym b1 b1' b2 b2' nextra (fun j k => B b1[j]! b2[k]!)
    (fun j k => B b1'[j]! b2'[k]!) e r c hr hc hR1.total hR2.total
    (if (b1.locate r).1 = i1 then lam1 (segOf b1 r) else 1)
    (if (b2.locate c).1 = i2 then lam2 (segOf b2 c) else 1)
    ((if (b1.locate r).1 = i1 then mu1 (segOf b1 r) else 1)
      * (if (b2.locate c).1 = i2 then mu2 (segOf b2 c) else 1))
    (frame_ncart hfrr) (frame_ncart hfrc) hcwr hcwc (by
      intro a ha a' ha'
      show ((B (shellOf b1' r) (shellOf b2' c)).get e).get4 (segOf b1' r) a (segOf b2' c) a'
        = _ * ((B (shellOf b1 r) (shellOf b2 c)).get e).get4 (segOf b1 r) a (segOf b2 c) a'
      rw [hL _ _ hPc' a ha a' (by rw [frame_ncart hfrc]; exact ha'),
        hRt _ _ hPr a ha a' ha', mul_assoc])
  rw [key]
  by_cases h1 : (b1.locate r).1 = i1 <;> by_cases h2 : (b2.locate c).1 = i2 <;>
    simp only [h1, h2, if_true, if_false] <;> ring

/-- **A shell of the first basis replaced**, the second basis untouched: the factor `lam m · mu m` on
the rows that are functions of segment `m` of shell `i` of `b1`, nothing on the columns. -/
theorem entry2_replaced_of_blocks_left {b1' b1 : Basis ℝ} {i : ℕ} {new : ℕ → Shell ℝ × ℕ}
    (hR : Replaced b1' b1 i new) (hi : i < b1.size) (b2 : Basis ℝ) (lam mu : ℕ → ℝ)
    (hframe : ∀ m < b1[i].nseg, (new m).1.frame = b1[i].frame)
    (hnorm : ∀ m < b1[i].nseg, ∀ a < b1[i].ncart,
      (normCont (new m).1).get2 (new m).2 a = lam m * (normCont b1[i]).get2 m a)
    (P2 : Shell ℝ → Prop) (hPb2 : ∀ j (hj : j < b2.size), P2 b2[j])
    (nextra : ℕ) (B : Shell ℝ → Shell ℝ → Tab (Tab4 ℝ)) (e : ℕ)
    (hBl : ∀ m < b1[i].nseg, ∀ t n, P2 t → ∀ a < b1[i].ncart, ∀ c < t.ncart,
      ((B (new m).1 t).get e).get4 (new m).2 a n c = mu m * ((B b1[i] t).get e).get4 m a n c)
    (r c : ℕ) (hr : r < b1.total) (hc : c < b2.total) :
    entry2 b1' b2 (pairBlocks b1' b2 nextra fun j k => B b1'[j]! b2[k]!) r c e
      = (if (b1.locate r).1 = i then lam (segOf b1 r) * mu (segOf b1 r) else 1)
        * entry2 b1 b2 (pairBlocks b1 b2 nextra fun j k => B b1[j]! b2[k]!) r c e := by
  obtain ⟨hic, -⟩ := located b2 c hc
  have e2 : b2[(b2.locate c).1]! = b2[(b2.locate c).1] := getElem!_pos b2 _ hic
  have key := entry2_replaced_of_blocks_asym hR hi (Replaced.refl b2 (b2.locate c).1) hic
    lam mu (fun _ => 1) (fun _ => 1) hframe hnorm
    (fun m _ => by show (b2[(b2.locate c).1]!).frame = _; rw [e2])
    (fun m _ a _ => by
      show (normCont b2[(b2.locate c).1]!).get2 m a = _
      rw [e2, one_mul])
    (fun _ => True) P2 (fun _ _ => trivial) hPb2
    (fun m _ => by show P2 b2[(b2.locate c).1]!; rw [e2]; exact hPb2 _ hic)
    nextra B e hBl
    (fun n _ s m _ a _ c' _ => by
      show ((B s b2[(b2.locate c).1]!).get e).get4 m a n c' = _
      rw [e2, one_mul])
    r c hr hc
  rw [key]
  simp

/-- **A shell of the second basis replaced**, the first basis untouched: the factor `lam n · mu n` on
the columns that are functions of segment `n` of shell `i` of `b2`, nothing on the rows. -/
theorem entry2_replaced_of_blocks_right {b2' b2 : Basis ℝ} {i : ℕ} {new : ℕ → Shell ℝ × ℕ}
    (b1 : Basis ℝ) (hR : Replaced b2' b2 i new) (hi : i < b2.size) (lam mu : ℕ → ℝ)
    (hframe : ∀ m < b2[i].nseg, (new m).1.frame = b2[i].frame)
    (hnorm : ∀ m < b2[i].nseg, ∀ a < b2[i].ncart,
      (normCont (new m).1).get2 (new m).2 a = lam m * (normCont b2[i]).get2 m a)
    (P1 : Shell ℝ → Prop) (hPb1 : ∀ j (hj : j < b1.size), P1 b1[j])
    (nextra : ℕ) (B : Shell ℝ → Shell ℝ → Tab (Tab4 ℝ)) (e : ℕ)
    (hBr : ∀ n < b2[i].nseg, ∀ s m, P1 s → ∀ a < s.ncart, ∀ c < b2[i].ncart,
      ((B s (new n).1).get e).get4 m a (new n).2 c = mu n * ((B s b2[i]).get e).get4 m a n c)
    (r c : ℕ) (hr : r < b1.total) (hc : c < b2.total) :
    entry2 b1 b2' (pairBlocks b1 b2' nextra fun j k => B b1[j]! b2'[k]!) r c e
      = (if (b2.locate c).1 = i then lam (segOf b2 c) * mu (segOf b2 c) else 1)
        * entry2 b1 b2 (pairBlocks b1 b2 nextra fun j k => B b1[j]! b2[k]!) r c e := by
  obtain ⟨hir, -⟩ := located b1 r hr
  have e1 : b1[(b1.locate r).1]! = b1[(b1.locate r).1] := getElem!_pos b1 _ hir
  have key := entry2_replaced_of_blocks_asym (Replaced.refl b1 (b1.locate r).1) hir hR hi
    (fun _ => 1) (fun _ => 1) lam mu
    (fun m _ => by show (b1[(b1.locate r).1]!).frame = _; rw [e1])
    (fun m _ a _ => by
      show (normCont b1[(b1.locate r).1]!).get2 m a = _
      rw [e1, one_mul])
    hframe hnorm
    P1 (fun _ => True) hPb1 (fun _ _ => trivial) (fun _ _ => trivial)
    nextra B e
    (fun m _ t n _ a _ c' _ => by
      show ((B b1[(b1.locate r).1]! t).get e).get4 m a n c' = _
      rw [e1, one_mul])
    hBr r c hr hc
  rw [key]
  simp

end Replaced2

/-! ### the four laws for every `BlockLaws` block function, one side at a time -/
section Laws2

namespace BlockLaws
variable {P : Shell ℝ → Prop} {B : Shell ℝ → Shell ℝ → Tab (Tab4 ℝ)} {e : ℕ}

/-- **Law 1, a shell of the first basis split into its columns.** -/
theorem array_splitColumns_left (L : BlockLaws P B e) (b1 b2 : Basis ℝ)
    (hP1 : ∀ j (hj : j < b1.size), P b1[j]) (hP2 : ∀ j (hj : j < b2.size), P b2[j]) (i : ℕ)
    (hi : i < b1.size) (nextra r c : ℕ) (hr : r < b1.total) (hc : c < b2.total) :
    entry2 (b1.splitColumns i) b2
        (pairBlocks (b1.splitColumns i) b2 nextra fun j k => B (b1.splitColumns i)[j]! b2[k]!) r c e
      = entry2 b1 b2 (pairBlocks b1 b2 nextra fun j k => B b1[j]! b2[k]!) r c e := by
  have key := entry2_replaced_of_blocks_left (replaced_splitColumns b1 i hi) hi b2 (fun _ => 1)
    (fun _ => 1) (fun m _ => rfl) (fun m _ a _ => by rw [one_mul]; exact normCont_column b1[i] m a)
    P hP2 nextra B e
    (fun m _ t n ht a ha c hc => by
      rw [one_mul]
      exact (L.left t n c ht hc).column b1[i] m a ⟨hP1 i hi, ha⟩ ⟨L.frame b1[i] _ rfl (hP1 i hi), ha⟩)
    r c hr hc
  rw [key]
  simp

/-- **Law 1, a shell of the second basis split into its columns.** -/
theorem array_splitColumns_right (L : BlockLaws P B e) (b1 b2 : Basis ℝ)
    (hP1 : ∀ j (hj : j < b1.size), P b1[j]) (hP2 : ∀ j (hj : j < b2.size), P b2[j]) (i : ℕ)
    (hi : i < b2.size) (nextra r c : ℕ) (hr : r < b1.total) (hc : c < b2.total) :
    entry2 b1 (b2.splitColumns i)
        (pairBlocks b1 (b2.splitColumns i) nextra fun j k => B b1[j]! (b2.splitColumns i)[k]!) r c e
      = entry2 b1 b2 (pairBlocks b1 b2 nextra fun j k => B b1[j]! b2[k]!) r c e := by
  have key := entry2_replaced_of_blocks_right b1 (replaced_splitColumns b2 i hi) hi (fun _ => 1)
    (fun _ => 1) (fun m _ => rfl) (fun m _ a _ => by rw [one_mul]; exact normCont_column b2[i] m a)
    P hP1 nextra B e
    (fun n _ s m hs a ha c hc => by
      rw [one_mul]
      exact (L.right s m a hs ha).column b2[i] n c ⟨hP2 i hi, hc⟩
        ⟨L.frame b2[i] _ rfl (hP2 i hi), hc⟩)
    r c hr hc
  rw [key]
  simp

/-- **Law 2, the primitives of a shell of the first basis listed in another order.** -/
theorem array_permPrims_left (L : BlockLaws P B e) (b1 b2 : Basis ℝ)
    (hP1 : ∀ j (hj : j < b1.size), P b1[j]) (hP2 : ∀ j (hj : j < b2.size), P b2[j]) (i : ℕ)
    (hi : i < b1.size) (σ : ℕ → ℕ)
    (hmap : ∀ k < b1[i].nprim, σ k < b1[i].nprim)
    (hinj : ∀ k < b1[i].nprim, ∀ k' < b1[i].nprim, σ k = σ k' → k = k')
    (hseg : (b1[i].permPrims σ).nseg = b1[i].nseg)
    (nextra r c : ℕ) (hr : r < b1.total) (hc : c < b2.total) :
    entry2 (b1.permPrimsAt i σ) b2
        (pairBlocks (b1.permPrimsAt i σ) b2 nextra fun j k => B (b1.permPrimsAt i σ)[j]! b2[k]!)
        r c e
      = entry2 b1 b2 (pairBlocks b1 b2 nextra fun j k => B b1[j]! b2[k]!) r c e := by
  have key := entry2_replaced_of_blocks_left
    (replaced_mapShell b1 i (fun s => s.permPrims σ) hi hseg rfl) hi b2 (fun _ => 1) (fun _ => 1)
    (fun m _ => rfl)
    (fun m _ a _ => by rw [one_mul]; exact normCont_permPrims b1[i] σ m a hmap hinj)
    P hP2 nextra B e
    (fun m _ t n ht a ha c hc => by
      rw [one_mul]
      exact (L.left t n c ht hc).permPrims b1[i] σ m a ⟨hP1 i hi, ha⟩
        ⟨L.frame b1[i] _ rfl (hP1 i hi), ha⟩ hmap hinj)
    r c hr hc
  unfold Basis.permPrimsAt
  rw [key]
  simp

/-- **Law 2, the primitives of a shell of the second basis listed in another order.** -/
theorem array_permPrims_right (L : BlockLaws P B e) (b1 b2 : Basis ℝ)
    (hP1 : ∀ j (hj : j < b1.size), P b1[j]) (hP2 : ∀ j (hj : j < b2.size), P b2[j]) (i : ℕ)
    (hi : i < b2.size) (σ : ℕ → ℕ)
    (hmap : ∀ k < b2[i].nprim, σ k < b2[i].nprim)
    (hinj : ∀ k < b2[i].nprim, ∀ k' < b2[i].nprim, σ k = σ k' → k = k')
    (hseg : (b2[i].permPrims σ).nseg = b2[i].nseg)
    (nextra r c : ℕ) (hr : r < b1.total) (hc : c < b2.total) :
    entry2 b1 (b2.permPrimsAt i σ)
        (pairBlocks b1 (b2.permPrimsAt i σ) nextra fun j k => B b1[j]! (b2.permPrimsAt i σ)[k]!)
        r c e
      = entry2 b1 b2 (pairBlocks b1 b2 nextra fun j k => B b1[j]! b2[k]!) r c e := by
  have key := entry2_replaced_of_blocks_right b1
    (replaced_mapShell b2 i (fun s => s.permPrims σ) hi hseg rfl) hi (fun _ => 1) (fun _ => 1)
    (fun m _ => rfl)
    (fun m _ a _ => by rw [one_mul]; exact normCont_permPrims b2[i] σ m a hmap hinj)
    P hP1 nextra B e
    (fun n _ s m hs a ha c hc => by
      rw [one_mul]
      exact (L.right s m a hs ha).permPrims b2[i] σ n c ⟨hP2 i hi, hc⟩
        ⟨L.frame b2[i] _ rfl (hP2 i hi), hc⟩ hmap hinj)
    r c hr hc
  unfold Basis.permPrimsAt
  rw [key]
  simp

/-- **Law 3, a primitive of a shell of the first basis split.** -/
theorem array_splitPrim_left (L : BlockLaws P B e) (b1 b2 : Basis ℝ)
    (hP1 : ∀ j (hj : j < b1.size), P b1[j]) (hP2 : ∀ j (hj : j < b2.size), P b2[j]) (i : ℕ)
    (hi : i < b1.size) (j : ℕ) (x : ℝ) (hj : j < b1[i].nprim)
    (nextra r c : ℕ) (hr : r < b1.total) (hc : c < b2.total) :
    entry2 (b1.splitPrimAt i j x) b2
        (pairBlocks (b1.splitPrimAt i j x) b2 nextra fun k l => B (b1.splitPrimAt i j x)[k]! b2[l]!)
        r c e
      = entry2 b1 b2 (pairBlocks b1 b2 nextra fun j k => B b1[j]! b2[k]!) r c e := by
  have key := entry2_replaced_of_blocks_left
    (replaced_mapShell b1 i (fun s => s.splitPrim j x) hi (splitPrim_nseg b1[i] j x hj) rfl) hi b2
    (fun _ => 1) (fun _ => 1) (fun m _ => rfl)
    (fun m _ a _ => by rw [one_mul]; exact normCont_splitPrim b1[i] j x m a hj)
    P hP2 nextra B e
    (fun m _ t n ht a ha c hc => by
      rw [one_mul]
      exact (L.left t n c ht hc).splitPrim b1[i] j x m a ⟨hP1 i hi, ha⟩
        ⟨L.frame b1[i] _ rfl (hP1 i hi), ha⟩ hj)
    r c hr hc
  unfold Basis.splitPrimAt
  rw [key]
  simp

/-- **Law 3, a primitive of a shell of the second basis split.** -/
theorem array_splitPrim_right (L : BlockLaws P B e) (b1 b2 : Basis ℝ)
    (hP1 : ∀ j (hj : j < b1.size), P b1[j]) (hP2 : ∀ j (hj : j < b2.size), P b2[j]) (i : ℕ)
    (hi : i < b2.size) (j : ℕ) (x : ℝ) (hj : j < b2[i].nprim)
    (nextra r c : ℕ) (hr : r < b1.total) (hc : c < b2.total) :
    entry2 b1 (b2.splitPrimAt i j x)
        (pairBlocks b1 (b2.splitPrimAt i j x) nextra fun k l => B b1[k]! (b2.splitPrimAt i j x)[l]!)
        r c e
      = entry2 b1 b2 (pairBlocks b1 b2 nextra fun j k => B b1[j]! b2[k]!) r c e := by
  have key := entry2_replaced_of_blocks_right b1
    (replaced_mapShell b2 i (fun s => s.splitPrim j x) hi (splitPrim_nseg b2[i] j x hj) rfl) hi
    (fun _ => 1) (fun _ => 1) (fun m _ => rfl)
    (fun m _ a _ => by rw [one_mul]; exact normCont_splitPrim b2[i] j x m a hj)
    P hP1 nextra B e
    (fun n _ s m hs a ha c hc => by
      rw [one_mul]
      exact (L.right s m a hs ha).splitPrim b2[i] j x n c ⟨hP2 i hi, hc⟩
        ⟨L.frame b2[i] _ rfl (hP2 i hi), hc⟩ hj)
    r c hr hc
  unfold Basis.splitPrimAt
  rw [key]
  simp

/-- the factor of `entry2_replaced_of_blocks_left / _right` for a scaled column, as a sign -/
theorem scale_factor (b : Basis ℝ) (i m₀ : ℕ) (x : ℝ) (r : ℕ) :
    (if (b.locate r).1 = i then
        (if segOf b r = m₀ then 1 / |x| else 1) * (if segOf b r = m₀ then x else 1) else 1)
      = if (b.locate r).1 = i ∧ (b.locate r).2.1 = m₀ then x / |x| else 1 := by
  unfold segOf
  by_cases h1 : (b.locate r).1 = i <;> by_cases h2 : (b.locate r).2.1 = m₀ <;>
    simp [h1, h2, div_eq_inv_mul]

/-- **Law 4, a coefficient column of a unit-normalised shell of the first basis multiplied by `x`**
(sign form): the entry is multiplied by `x/|x|` if its row is a function of column `m₀` of shell `i`
of `b1`; the columns are untouched. -/
theorem array_scaleColumn_left (L : BlockLaws P B e) (b1 b2 : Basis ℝ)
    (hP1 : ∀ j (hj : j < b1.size), P b1[j]) (hP2 : ∀ j (hj : j < b2.size), P b2[j]) (i : ℕ)
    (hi : i < b1.size) (m₀ : ℕ) (x : ℝ) (hn : b1[i].unitNorm = true)
    (nextra r c : ℕ) (hr : r < b1.total) (hc : c < b2.total) :
    entry2 (b1.scaleColumnAt i m₀ x) b2
        (pairBlocks (b1.scaleColumnAt i m₀ x) b2 nextra fun k l =>
          B (b1.scaleColumnAt i m₀ x)[k]! b2[l]!) r c e
      = (if (b1.locate r).1 = i ∧ (b1.locate r).2.1 = m₀ then x / |x| else 1)
        * entry2 b1 b2 (pairBlocks b1 b2 nextra fun j k => B b1[j]! b2[k]!) r c e := by
  have key := entry2_replaced_of_blocks_left
    (replaced_mapShell b1 i (fun s => s.scaleColumn m₀ x) hi (scaleColumn_nseg b1[i] m₀ x) rfl) hi
    b2 (fun m => if m = m₀ then 1 / |x| else 1) (fun m => if m = m₀ then x else 1)
    (fun m _ => rfl) (fun m _ a _ => normCont_scaleColumn b1[i] m₀ x m a hn)
    P hP2 nextra B e
    (fun m _ t n ht a ha c hc => by
      have h := (L.left t n c ht hc).scaleColumn b1[i] m₀ x m a ⟨hP1 i hi, ha⟩
        ⟨L.frame b1[i] _ rfl (hP1 i hi), ha⟩
      beta_reduce at h
      rw [h]; split_ifs <;> simp)
    r c hr hc
  unfold Basis.scaleColumnAt
  rw [key, scale_factor b1 i m₀ x r]

/-- **Law 4, a coefficient column of a unit-normalised shell of the second basis multiplied by `x`**
(sign form): the entry is multiplied by `x/|x|` if its column is a function of column `m₀` of shell
`i` of `b2`; the rows are untouched. -/
theorem array_scaleColumn_right (L : BlockLaws P B e) (b1 b2 : Basis ℝ)
    (hP1 : ∀ j (hj : j < b1.size), P b1[j]) (hP2 : ∀ j (hj : j < b2.size), P b2[j]) (i : ℕ)
    (hi : i < b2.size) (m₀ : ℕ) (x : ℝ) (hn : b2[i].unitNorm = true)
    (nextra r c : ℕ) (hr : r < b1.total) (hc : c < b2.total) :
    entry2 b1 (b2.scaleColumnAt i m₀ x)
        (pairBlocks b1 (b2.scaleColumnAt i m₀ x) nextra fun k l =>
          B b1[k]! (b2.scaleColumnAt i m₀ x)[l]!) r c e
      = (if (b2.locate c).1 = i ∧ (b2.locate c).2.1 = m₀ then x / |x| else 1)
        * entry2 b1 b2 (pairBlocks b1 b2 nextra fun j k => B b1[j]! b2[k]!) r c e := by
  have key := entry2_replaced_of_blocks_right b1
    (replaced_mapShell b2 i (fun s => s.scaleColumn m₀ x) hi (scaleColumn_nseg b2[i] m₀ x) rfl) hi
    (fun m => if m = m₀ then 1 / |x| else 1) (fun m => if m = m₀ then x else 1)
    (fun m _ => rfl) (fun m _ a _ => normCont_scaleColumn b2[i] m₀ x m a hn)
    P hP1 nextra B e
    (fun n _ s m hs a ha c hc => by
      have h := (L.right s m a hs ha).scaleColumn b2[i] m₀ x n c ⟨hP2 i hi, hc⟩
        ⟨L.frame b2[i] _ rfl (hP2 i hi), hc⟩
      beta_reduce at h
      rw [h]; split_ifs <;> simp)
    r c hr hc
  unfold Basis.scaleColumnAt
  rw [key, scale_factor b2 i m₀ x c]

/-- **Law 4, `x > 0`, first basis**: nothing changes. -/
theorem array_scaleColumn_pos_left (L : BlockLaws P B e) (b1 b2 : Basis ℝ)
    (hP1 : ∀ j (hj : j < b1.size), P b1[j]) (hP2 : ∀ j (hj : j < b2.size), P b2[j]) (i : ℕ)
    (hi : i < b1.size) (m₀ : ℕ) (x : ℝ) (hx : 0 < x) (hn : b1[i].unitNorm = true)
    (nextra r c : ℕ) (hr : r < b1.total) (hc : c < b2.total) :
    entry2 (b1.scaleColumnAt i m₀ x) b2
        (pairBlocks (b1.scaleColumnAt i m₀ x) b2 nextra fun k l =>
          B (b1.scaleColumnAt i m₀ x)[k]! b2[l]!) r c e
      = entry2 b1 b2 (pairBlocks b1 b2 nextra fun j k => B b1[j]! b2[k]!) r c e := by
  rw [L.array_scaleColumn_left b1 b2 hP1 hP2 i hi m₀ x hn nextra r c hr hc, abs_of_pos hx,
    div_self hx.ne']
  simp

/-- **Law 4, `x > 0`, second basis**: nothing changes. -/
theorem array_scaleColumn_pos_right (L : BlockLaws P B e) (b1 b2 : Basis ℝ)
    (hP1 : ∀ j (hj : j < b1.size), P b1[j]) (hP2 : ∀ j (hj : j < b2.size), P b2[j]) (i : ℕ)
    (hi : i < b2.size) (m₀ : ℕ) (x : ℝ) (hx : 0 < x) (hn : b2[i].unitNorm = true)
    (nextra r c : ℕ) (hr : r < b1.total) (hc : c < b2.total) :
    entry2 b1 (b2.scaleColumnAt i m₀ x)
        (pairBlocks b1 (b2.scaleColumnAt i m₀ x) nextra fun k l =>
          B b1[k]! (b2.scaleColumnAt i m₀ x)[l]!) r c e
      = entry2 b1 b2 (pairBlocks b1 b2 nextra fun j k => B b1[j]! b2[k]!) r c e := by
  rw [L.array_scaleColumn_right b1 b2 hP1 hP2 i hi m₀ x hn nextra r c hr hc, abs_of_pos hx,
    div_self hx.ne']
  simp

/-- **Law 4, `x < 0`, first basis**: the rows that are functions of column `m₀` of shell `i` of `b1`
change sign (`colSign b1 i m₀ r`); no sign factor on the columns. -/
theorem array_scaleColumn_neg_left (L : BlockLaws P B e) (b1 b2 : Basis ℝ)
    (hP1 : ∀ j (hj : j < b1.size), P b1[j]) (hP2 : ∀ j (hj : j < b2.size), P b2[j]) (i : ℕ)
    (hi : i < b1.size) (m₀ : ℕ) (x : ℝ) (hx : x < 0) (hn : b1[i].unitNorm = true)
    (nextra r c : ℕ) (hr : r < b1.total) (hc : c < b2.total) :
    entry2 (b1.scaleColumnAt i m₀ x) b2
        (pairBlocks (b1.scaleColumnAt i m₀ x) b2 nextra fun k l =>
          B (b1.scaleColumnAt i m₀ x)[k]! b2[l]!) r c e
      = colSign b1 i m₀ r
        * entry2 b1 b2 (pairBlocks b1 b2 nextra fun j k => B b1[j]! b2[k]!) r c e := by
  rw [L.array_scaleColumn_left b1 b2 hP1 hP2 i hi m₀ x hn nextra r c hr hc, abs_of_neg hx, div_neg,
    div_self hx.ne]
  rfl

/-- **Law 4, `x < 0`, second basis**: the columns that are functions of column `m₀` of shell `i` of
`b2` change sign (`colSign b2 i m₀ c`); no sign factor on the rows. -/
theorem array_scaleColumn_neg_right (L : BlockLaws P B e) (b1 b2 : Basis ℝ)
    (hP1 : ∀ j (hj : j < b1.size), P b1[j]) (hP2 : ∀ j (hj : j < b2.size), P b2[j]) (i : ℕ)
    (hi : i < b2.size) (m₀ : ℕ) (x : ℝ) (hx : x < 0) (hn : b2[i].unitNorm = true)
    (nextra r c : ℕ) (hr : r < b1.total) (hc : c < b2.total) :
    entry2 b1 (b2.scaleColumnAt i m₀ x)
        (pairBlocks b1 (b2.scaleColumnAt i m₀ x) nextra fun k l =>
          B b1[k]! (b2.scaleColumnAt i m₀ x)[l]!) r c e
      = colSign b2 i m₀ c
        * entry2 b1 b2 (pairBlocks b1 b2 nextra fun j k => B b1[j]! b2[k]!) r c e := by
  rw [L.array_scaleColumn_right b1 b2 hP1 hP2 i hi m₀ x hn nextra r c hr hc, abs_of_neg hx, div_neg,
    div_self hx.ne]
  rfl

end BlockLaws

end Laws2

/-! ### the asymmetric overlap (C01) -/
section OverlapAsym

/-- two pairs of bases with the same numbers of functions whose array entries agree have the same flat
array -/
theorem assemble2_congr_asym (b1 b1' b2 b2' : Basis ℝ) (nextra : ℕ)
    (blk blk' : ℕ → ℕ → Tab (Tab4 ℝ)) (ht1 : b1'.total = b1.total) (ht2 : b2'.total = b2.total)
    (h : ∀ r c e, r < b1.total → c < b2.total → e < nextra →
      entry2 b1' b2' (pairBlocks b1' b2' nextra blk') r c e
        = entry2 b1 b2 (pairBlocks b1 b2 nextra blk) r c e) :
    assemble2 b1' b2' nextra blk' = assemble2 b1 b2 nextra blk := by
  unfold assemble2
  refine ofFn_congr (by rw [ht1, ht2]) _ _ fun k hk => ?_
  have hk' : k < b1.total * b2.total * nextra := by rw [ht1, ht2] at hk; exact hk
  have hb : 0 < b2.total := by
    rcases Nat.eq_zero_or_pos b2.total with h0 | h0
    · rw [h0] at hk'; simp at hk'
    · exact h0
  have hn : 0 < nextra := by
    rcases Nat.eq_zero_or_pos nextra with h0 | h0
    · rw [h0] at hk'; simp at hk'
    · exact h0
  show entry2 b1' b2' (pairBlocks b1' b2' nextra blk') (k / (b2'.total * nextra))
      (k / nextra % b2'.total) (k % nextra)
    = entry2 b1 b2 (pairBlocks b1 b2 nextra blk) (k / (b2.total * nextra)) (k / nextra % b2.total)
      (k % nextra)
  rw [ht2]
  refine h _ _ _ ?_ (Nat.mod_lt _ hb) (Nat.mod_lt _ hn)
  apply Nat.div_lt_of_lt_mul
  calc k < b1.total * b2.total * nextra := hk'
    _ = b2.total * nextra * b1.total := by ring

/-- entry-wise relation between the flat arrays of two pairs of bases with the same numbers of
functions -/
theorem assemble2_get_rel_asym (b1 b1' b2 b2' : Basis ℝ) (nextra : ℕ)
    (blk blk' : ℕ → ℕ → Tab (Tab4 ℝ)) (ht1 : b1'.total = b1.total) (ht2 : b2'.total = b2.total)
    (r c e : ℕ) (hr : r < b1.total) (hc : c < b2.total) (he : e < nextra) (ε : ℝ)
    (h : entry2 b1' b2' (pairBlocks b1' b2' nextra blk') r c e
        = ε * entry2 b1 b2 (pairBlocks b1 b2 nextra blk) r c e) :
    (assemble2 b1' b2' nextra blk')[(r * b2.total + c) * nextra + e]!
      = ε * (assemble2 b1 b2 nextra blk)[(r * b2.total + c) * nextra + e]! := by
  rw [assemble2_get b1 b2 nextra blk r c e hr hc he, ← h]
  have := assemble2_get b1' b2' nextra blk' r c e (by rw [ht1]; exact hr) (by rw [ht2]; exact hc) he
  rw [ht2] at this
  exact this

/-! #### law 1 -/

/-- **C13.1, asymmetric overlap, first basis**: a generalized shell of `b1` gives the same rows, in
the same order, as its single-column shells sharing its primitives. -/
theorem overlap_asym_array_splitColumns_left (b1 b2 : Basis ℝ) (i : ℕ) (hi : i < b1.size)
    (r c e : ℕ) (hr : r < b1.total) (hc : c < b2.total) :
    entry2 (b1.splitColumns i) b2
        (pairBlocks (b1.splitColumns i) b2 1 (overlapBlk2 (b1.splitColumns i) b2)) r c e
      = entry2 b1 b2 (pairBlocks b1 b2 1 (overlapBlk2 b1 b2)) r c e :=
  (overlap_blockLaws e).array_splitColumns_left b1 b2 (fun _ _ => trivial) (fun _ _ => trivial)
    i hi 1 r c hr hc

/-- **C13.1, asymmetric overlap, second basis** -/
theorem overlap_asym_array_splitColumns_right (b1 b2 : Basis ℝ) (i : ℕ) (hi : i < b2.size)
    (r c e : ℕ) (hr : r < b1.total) (hc : c < b2.total) :
    entry2 b1 (b2.splitColumns i)
        (pairBlocks b1 (b2.splitColumns i) 1 (overlapBlk2 b1 (b2.splitColumns i))) r c e
      = entry2 b1 b2 (pairBlocks b1 b2 1 (overlapBlk2 b1 b2)) r c e :=
  (overlap_blockLaws e).array_splitColumns_right b1 b2 (fun _ _ => trivial) (fun _ _ => trivial)
    i hi 1 r c hr hc

/-- the same for the flat array that the driver prints for `"overlap_asym"` -/
theorem overlap_asym_flat_splitColumns_left (b1 b2 : Basis ℝ) (i : ℕ) (hi : i < b1.size) :
    assemble2 (b1.splitColumns i) b2 1 (overlapBlk2 (b1.splitColumns i) b2)
      = assemble2 b1 b2 1 (overlapBlk2 b1 b2) :=
  assemble2_congr_asym b1 _ b2 b2 _ _ _ (Basis.splitColumns_total b1 i) rfl fun r c e hr hc _ =>
    overlap_asym_array_splitColumns_left b1 b2 i hi r c e hr hc

theorem overlap_asym_flat_splitColumns_right (b1 b2 : Basis ℝ) (i : ℕ) (hi : i < b2.size) :
    assemble2 b1 (b2.splitColumns i) 1 (overlapBlk2 b1 (b2.splitColumns i))
      = assemble2 b1 b2 1 (overlapBlk2 b1 b2) :=
  assemble2_congr_asym b1 b1 b2 _ _ _ _ rfl (Basis.splitColumns_total b2 i) fun r c e hr hc _ =>
    overlap_asym_array_splitColumns_right b1 b2 i hi r c e hr hc

/-! #### law 2 -/

/-- **C13.2, asymmetric overlap, first basis**: the order in which the primitives of a shell of `b1`
are listed is immaterial (`σ` permutes `{0,…,K-1}`; `hseg`: see `permPrims_nseg`). -/
theorem overlap_asym_array_permPrims_left (b1 b2 : Basis ℝ) (i : ℕ) (hi : i < b1.size) (σ : ℕ → ℕ)
    (hmap : ∀ k < b1[i].nprim, σ k < b1[i].nprim)
    (hinj : ∀ k < b1[i].nprim, ∀ k' < b1[i].nprim, σ k = σ k' → k = k')
    (hseg : (b1[i].permPrims σ).nseg = b1[i].nseg)
    (r c e : ℕ) (hr : r < b1.total) (hc : c < b2.total) :
    entry2 (b1.permPrimsAt i σ) b2
        (pairBlocks (b1.permPrimsAt i σ) b2 1 (overlapBlk2 (b1.permPrimsAt i σ) b2)) r c e
      = entry2 b1 b2 (pairBlocks b1 b2 1 (overlapBlk2 b1 b2)) r c e :=
  (overlap_blockLaws e).array_permPrims_left b1 b2 (fun _ _ => trivial) (fun _ _ => trivial)
    i hi σ hmap hinj hseg 1 r c hr hc

/-- **C13.2, asymmetric overlap, second basis** -/
theorem overlap_asym_array_permPrims_right (b1 b2 : Basis ℝ) (i : ℕ) (hi : i < b2.size) (σ : ℕ → ℕ)
    (hmap : ∀ k < b2[i].nprim, σ k < b2[i].nprim)
    (hinj : ∀ k < b2[i].nprim, ∀ k' < b2[i].nprim, σ k = σ k' → k = k')
    (hseg : (b2[i].permPrims σ).nseg = b2[i].nseg)
    (r c e : ℕ) (hr : r < b1.total) (hc : c < b2.total) :
    entry2 b1 (b2.permPrimsAt i σ)
        (pairBlocks b1 (b2.permPrimsAt i σ) 1 (overlapBlk2 b1 (b2.permPrimsAt i σ))) r c e
      = entry2 b1 b2 (pairBlocks b1 b2 1 (overlapBlk2 b1 b2)) r c e :=
  (overlap_blockLaws e).array_permPrims_right b1 b2 (fun _ _ => trivial) (fun _ _ => trivial)
    i hi σ hmap hinj hseg 1 r c hr hc

theorem overlap_asym_flat_permPrims_left (b1 b2 : Basis ℝ) (i : ℕ) (hi : i < b1.size) (σ : ℕ → ℕ)
    (hmap : ∀ k < b1[i].nprim, σ k < b1[i].nprim)
    (hinj : ∀ k < b1[i].nprim, ∀ k' < b1[i].nprim, σ k = σ k' → k = k')
    (hseg : (b1[i].permPrims σ).nseg = b1[i].nseg) :
    assemble2 (b1.permPrimsAt i σ) b2 1 (overlapBlk2 (b1.permPrimsAt i σ) b2)
      = assemble2 b1 b2 1 (overlapBlk2 b1 b2) :=
  assemble2_congr_asym b1 _ b2 b2 _ _ _ (Basis.permPrimsAt_total b1 i hi σ hseg) rfl
    fun r c e hr hc _ => overlap_asym_array_permPrims_left b1 b2 i hi σ hmap hinj hseg r c e hr hc

theorem overlap_asym_flat_permPrims_right (b1 b2 : Basis ℝ) (i : ℕ) (hi : i < b2.size) (σ : ℕ → ℕ)
    (hmap : ∀ k < b2[i].nprim, σ k < b2[i].nprim)
    (hinj : ∀ k < b2[i].nprim, ∀ k' < b2[i].nprim, σ k = σ k' → k = k')
    (hseg : (b2[i].permPrims σ).nseg = b2[i].nseg) :
    assemble2 b1 (b2.permPrimsAt i σ) 1 (overlapBlk2 b1 (b2.permPrimsAt i σ))
      = assemble2 b1 b2 1 (overlapBlk2 b1 b2) :=
  assemble2_congr_asym b1 b1 b2 _ _ _ _ rfl (Basis.permPrimsAt_total b2 i hi σ hseg)
    fun r c e hr hc _ => overlap_asym_array_permPrims_right b1 b2 i hi σ hmap hinj hseg r c e hr hc

/-! #### law 3 -/

/-- **C13.3, asymmetric overlap, first basis**: splitting a primitive of a shell of `b1` in two with
the same exponent and the coefficients `x·c_j`, `(1-x)·c_j` changes nothing. -/
theorem overlap_asym_array_splitPrim_left (b1 b2 : Basis ℝ) (i : ℕ) (hi : i < b1.size) (j : ℕ)
    (x : ℝ) (hj : j < b1[i].nprim) (r c e : ℕ) (hr : r < b1.total) (hc : c < b2.total) :
    entry2 (b1.splitPrimAt i j x) b2
        (pairBlocks (b1.splitPrimAt i j x) b2 1 (overlapBlk2 (b1.splitPrimAt i j x) b2)) r c e
      = entry2 b1 b2 (pairBlocks b1 b2 1 (overlapBlk2 b1 b2)) r c e :=
  (overlap_blockLaws e).array_splitPrim_left b1 b2 (fun _ _ => trivial) (fun _ _ => trivial)
    i hi j x hj 1 r c hr hc

/-- **C13.3, asymmetric overlap, second basis** -/
theorem overlap_asym_array_splitPrim_right (b1 b2 : Basis ℝ) (i : ℕ) (hi : i < b2.size) (j : ℕ)
    (x : ℝ) (hj : j < b2[i].nprim) (r c e : ℕ) (hr : r < b1.total) (hc : c < b2.total) :
    entry2 b1 (b2.splitPrimAt i j x)
        (pairBlocks b1 (b2.splitPrimAt i j x) 1 (overlapBlk2 b1 (b2.splitPrimAt i j x))) r c e
      = entry2 b1 b2 (pairBlocks b1 b2 1 (overlapBlk2 b1 b2)) r c e :=
  (overlap_blockLaws e).array_splitPrim_right b1 b2 (fun _ _ => trivial) (fun _ _ => trivial)
    i hi j x hj 1 r c hr hc

theorem overlap_asym_flat_splitPrim_left (b1 b2 : Basis ℝ) (i : ℕ) (hi : i < b1.size) (j : ℕ)
    (x : ℝ) (hj : j < b1[i].nprim) :
    assemble2 (b1.splitPrimAt i j x) b2 1 (overlapBlk2 (b1.splitPrimAt i j x) b2)
      = assemble2 b1 b2 1 (overlapBlk2 b1 b2) :=
  assemble2_congr_asym b1 _ b2 b2 _ _ _ (Basis.splitPrimAt_total b1 i hi j x hj) rfl
    fun r c e hr hc _ => overlap_asym_array_splitPrim_left b1 b2 i hi j x hj r c e hr hc

theorem overlap_asym_flat_splitPrim_right (b1 b2 : Basis ℝ) (i : ℕ) (hi : i < b2.size) (j : ℕ)
    (x : ℝ) (hj : j < b2[i].nprim) :
    assemble2 b1 (b2.splitPrimAt i j x) 1 (overlapBlk2 b1 (b2.splitPrimAt i j x))
      = assemble2 b1 b2 1 (overlapBlk2 b1 b2) :=
  assemble2_congr_asym b1 b1 b2 _ _ _ _ rfl (Basis.splitPrimAt_total b2 i hi j x hj)
    fun r c e hr hc _ => overlap_asym_array_splitPrim_right b1 b2 i hi j x hj r c e hr hc

/-! #### law 4 -/

/-- **C13.4, asymmetric overlap, first basis, `x > 0`**: multiplying a coefficient column of a
unit-normalised shell of `b1` by a positive factor changes nothing. -/
theorem overlap_asym_array_scaleColumn_pos_left (b1 b2 : Basis ℝ) (i : ℕ) (hi : i < b1.size)
    (m : ℕ) (x : ℝ) (hx : 0 < x) (hn : b1[i].unitNorm = true) (r c e : ℕ) (hr : r < b1.total)
    (hc : c < b2.total) :
    entry2 (b1.scaleColumnAt i m x) b2
        (pairBlocks (b1.scaleColumnAt i m x) b2 1 (overlapBlk2 (b1.scaleColumnAt i m x) b2)) r c e
      = entry2 b1 b2 (pairBlocks b1 b2 1 (overlapBlk2 b1 b2)) r c e :=
  (overlap_blockLaws e).array_scaleColumn_pos_left b1 b2 (fun _ _ => trivial) (fun _ _ => trivial)
    i hi m x hx hn 1 r c hr hc

/-- **C13.4, asymmetric overlap, second basis, `x > 0`** -/
theorem overlap_asym_array_scaleColumn_pos_right (b1 b2 : Basis ℝ) (i : ℕ) (hi : i < b2.size)
    (m : ℕ) (x : ℝ) (hx : 0 < x) (hn : b2[i].unitNorm = true) (r c e : ℕ) (hr : r < b1.total)
    (hc : c < b2.total) :
    entry2 b1 (b2.scaleColumnAt i m x)
        (pairBlocks b1 (b2.scaleColumnAt i m x) 1 (overlapBlk2 b1 (b2.scaleColumnAt i m x))) r c e
      = entry2 b1 b2 (pairBlocks b1 b2 1 (overlapBlk2 b1 b2)) r c e :=
  (overlap_blockLaws e).array_scaleColumn_pos_right b1 b2 (fun _ _ => trivial) (fun _ _ => trivial)
    i hi m x hx hn 1 r c hr hc

theorem overlap_asym_flat_scaleColumn_pos_left (b1 b2 : Basis ℝ) (i : ℕ) (hi : i < b1.size)
    (m : ℕ) (x : ℝ) (hx : 0 < x) (hn : b1[i].unitNorm = true) :
    assemble2 (b1.scaleColumnAt i m x) b2 1 (overlapBlk2 (b1.scaleColumnAt i m x) b2)
      = assemble2 b1 b2 1 (overlapBlk2 b1 b2) :=
  assemble2_congr_asym b1 _ b2 b2 _ _ _ (Basis.scaleColumnAt_total b1 i hi m x) rfl
    fun r c e hr hc _ => overlap_asym_array_scaleColumn_pos_left b1 b2 i hi m x hx hn r c e hr hc

theorem overlap_asym_flat_scaleColumn_pos_right (b1 b2 : Basis ℝ) (i : ℕ) (hi : i < b2.size)
    (m : ℕ) (x : ℝ) (hx : 0 < x) (hn : b2[i].unitNorm = true) :
    assemble2 b1 (b2.scaleColumnAt i m x) 1 (overlapBlk2 b1 (b2.scaleColumnAt i m x))
      = assemble2 b1 b2 1 (overlapBlk2 b1 b2) :=
  assemble2_congr_asym b1 b1 b2 _ _ _ _ rfl (Basis.scaleColumnAt_total b2 i hi m x)
    fun r c e hr hc _ => overlap_asym_array_scaleColumn_pos_right b1 b2 i hi m x hx hn r c e hr hc

/-- **C13.4, asymmetric overlap, first basis, `x < 0`**: multiplying a coefficient column of a
unit-normalised shell of `b1` by a negative factor flips the sign of the *rows* that are functions of
column `m` of shell `i` of `b1` (`colSign b1 i m r`); there is no sign factor on the columns. -/
theorem overlap_asym_array_scaleColumn_neg_left (b1 b2 : Basis ℝ) (i : ℕ) (hi : i < b1.size)
    (m : ℕ) (x : ℝ) (hx : x < 0) (hn : b1[i].unitNorm = true) (r c e : ℕ) (hr : r < b1.total)
    (hc : c < b2.total) :
    entry2 (b1.scaleColumnAt i m x) b2
        (pairBlocks (b1.scaleColumnAt i m x) b2 1 (overlapBlk2 (b1.scaleColumnAt i m x) b2)) r c e
      = colSign b1 i m r * entry2 b1 b2 (pairBlocks b1 b2 1 (overlapBlk2 b1 b2)) r c e :=
  (overlap_blockLaws e).array_scaleColumn_neg_left b1 b2 (fun _ _ => trivial) (fun _ _ => trivial)
    i hi m x hx hn 1 r c hr hc

/-- **C13.4, asymmetric overlap, second basis, `x < 0`**: the sign of the *columns* that are
functions of column `m` of shell `i` of `b2` flips (`colSign b2 i m c`); no sign factor on the rows. -/
theorem overlap_asym_array_scaleColumn_neg_right (b1 b2 : Basis ℝ) (i : ℕ) (hi : i < b2.size)
    (m : ℕ) (x : ℝ) (hx : x < 0) (hn : b2[i].unitNorm = true) (r c e : ℕ) (hr : r < b1.total)
    (hc : c < b2.total) :
    entry2 b1 (b2.scaleColumnAt i m x)
        (pairBlocks b1 (b2.scaleColumnAt i m x) 1 (overlapBlk2 b1 (b2.scaleColumnAt i m x))) r c e
      = colSign b2 i m c * entry2 b1 b2 (pairBlocks b1 b2 1 (overlapBlk2 b1 b2)) r c e :=
  (overlap_blockLaws e).array_scaleColumn_neg_right b1 b2 (fun _ _ => trivial) (fun _ _ => trivial)
    i hi m x hx hn 1 r c hr hc

/-- the same for the flat array: row `r` of the printed array changes sign -/
theorem overlap_asym_flat_scaleColumn_neg_left (b1 b2 : Basis ℝ) (i : ℕ) (hi : i < b1.size)
    (m : ℕ) (x : ℝ) (hx : x < 0) (hn : b1[i].unitNorm = true) (r c e : ℕ) (hr : r < b1.total)
    (hc : c < b2.total) (he : e < 1) :
    (assemble2 (b1.scaleColumnAt i m x) b2 1 (overlapBlk2 (b1.scaleColumnAt i m x) b2))[
        (r * b2.total + c) * 1 + e]!
      = colSign b1 i m r * (assemble2 b1 b2 1 (overlapBlk2 b1 b2))[(r * b2.total + c) * 1 + e]! :=
  assemble2_get_rel_asym b1 _ b2 b2 _ _ _ (Basis.scaleColumnAt_total b1 i hi m x) rfl r c e hr hc he
    _ (overlap_asym_array_scaleColumn_neg_left b1 b2 i hi m x hx hn r c e hr hc)

/-- the same for the flat array: column `c` of the printed array changes sign -/
theorem overlap_asym_flat_scaleColumn_neg_right (b1 b2 : Basis ℝ) (i : ℕ) (hi : i < b2.size)
    (m : ℕ) (x : ℝ) (hx : x < 0) (hn : b2[i].unitNorm = true) (r c e : ℕ) (hr : r < b1.total)
    (hc : c < b2.total) (he : e < 1) :
    (assemble2 b1 (b2.scaleColumnAt i m x) 1 (overlapBlk2 b1 (b2.scaleColumnAt i m x)))[
        (r * b2.total + c) * 1 + e]!
      = colSign b2 i m c * (assemble2 b1 b2 1 (overlapBlk2 b1 b2))[(r * b2.total + c) * 1 + e]! :=
  assemble2_get_rel_asym b1 b1 b2 _ _ _ _ rfl (Basis.scaleColumnAt_total b2 i hi m x) r c e hr hc he
    _ (overlap_asym_array_scaleColumn_neg_right b1 b2 i hi m x hx hn r c e hr hc)

end OverlapAsym

/-! ## 3. Rigid motions: four different bases -/
section Moved4

/-- **Array level, four different bases (the generic four-index lemma).**  If, for every quartet of
shells `b1[i]`, `b2[j]`, `b3[k]`, `b4[l]` of four movable bases, the raw Cartesian block `blk' i j k l`
used for the moved bases is the four-fold `repMat` transform of the raw block `blk i j k l` used for
the original bases, then every entry of the assembled four-index array of the moved bases is the
four-fold `basisRep` transform (index `k` with `basisRep b_k`) of the assembled array of the original
bases.  `entry4_moved_of_blocks` is the case `b1 = b2 = b3 = b4`. -/
theorem entry4_moved_of_blocks_g (g : E3 ≃ᵃⁱ[ℝ] E3) (b1 b2 b3 b4 : Basis ℝ) (hb1 : b1.Movable)
    (hb2 : b2.Movable) (hb3 : b3.Movable) (hb4 : b4.Movable)
    (blk blk' : ℕ → ℕ → ℕ → ℕ → Tab8 ℝ)
    (h : ∀ (i j k l : ℕ) (hi : i < b1.size) (hj : j < b2.size) (hk : k < b3.size)
      (hl : l < b4.size) (m₁ m₂ m₃ m₄ : ℕ),
      ∀ a₁ < b1[i].ncart, ∀ a₂ < b2[j].ncart, ∀ a₃ < b3[k].ncart, ∀ a₄ < b4[l].ncart,
        (blk' i j k l).get8 m₁ a₁ m₂ a₂ m₃ a₃ m₄ a₄
          = ∑ c₁ ∈ range b1[i].ncart, ∑ c₂ ∈ range b2[j].ncart, ∑ c₃ ∈ range b3[k].ncart,
              ∑ c₄ ∈ range b4[l].ncart,
                repMat (linPart g) b1[i].cart a₁ c₁ * repMat (linPart g) b2[j].cart a₂ c₂
                  * repMat (linPart g) b3[k].cart a₃ c₃ * repMat (linPart g) b4[l].cart a₄ c₄
                  * (blk i j k l).get8 m₁ c₁ m₂ c₂ m₃ c₃ m₄ c₄)
    (r₁ r₂ r₃ r₄ : ℕ) (h₁ : r₁ < b1.total) (h₂ : r₂ < b2.total) (h₃ : r₃ < b3.total)
    (h₄ : r₄ < b4.total) :
    entry4 (b1.moved g) (b2.moved g) (b3.moved g) (b4.moved g)
        (quartetBlocks (b1.moved g) (b2.moved g) (b3.moved g) (b4.moved g) blk') r₁ r₂ r₃ r₄
      = ∑ s₁ ∈ range b1.total, ∑ s₂ ∈ range b2.total, ∑ s₃ ∈ range b3.total,
          ∑ s₄ ∈ range b4.total,
            basisRep b1 (linPart g) r₁ s₁ * basisRep b2 (linPart g) r₂ s₂
              * basisRep b3 (linPart g) r₃ s₃ * basisRep b4 (linPart g) r₄ s₄
              * entry4 b1 b2 b3 b4 (quartetBlocks b1 b2 b3 b4 blk) s₁ s₂ s₃ s₄ := by
  obtain ⟨hi, hm₁, hf₁, -⟩ := locate_lt b1 r₁ h₁
  obtain ⟨hj, hm₂, hf₂, -⟩ := locate_lt b2 r₂ h₂
  obtain ⟨hk, hm₃, hf₃, -⟩ := locate_lt b3 r₃ h₃
  obtain ⟨hl, hm₄, hf₄, -⟩ := locate_lt b4 r₄ h₄
  have hs₁ := shellOf_eq b1 r₁ hi
  have hs₂ := shellOf_eq b2 r₂ hj
  have hs₃ := shellOf_eq b3 r₃ hk
  have hs₄ := shellOf_eq b4 r₄ hl
  rw [sum4_nest, sum_basisRep b1 _ r₁ h₁]
  simp_rw [sum_basisRep b2 _ r₂ h₂, sum_basisRep b3 _ r₃ h₃, sum_basisRep b4 _ r₄ h₄]
  rw [hs₁, hs₂, hs₃, hs₄]
  have hL : entry4 (b1.moved g) (b2.moved g) (b3.moved g) (b4.moved g)
        (quartetBlocks (b1.moved g) (b2.moved g) (b3.moved g) (b4.moved g) blk') r₁ r₂ r₃ r₄
      = (wBlock4 (b1[(b1.locate r₁).1].moved g) (b2[(b2.locate r₂).1].moved g)
          (b3[(b3.locate r₃).1].moved g) (b4[(b4.locate r₄).1].moved g)
          (b1[(b1.locate r₁).1].moved g).weights (b2[(b2.locate r₂).1].moved g).weights
          (b3[(b3.locate r₃).1].moved g).weights (b4[(b4.locate r₄).1].moved g).weights
          (blk' (b1.locate r₁).1 (b2.locate r₂).1 (b3.locate r₃).1 (b4.locate r₄).1)).get8
            (b1.locate r₁).2.1 (b1.locate r₁).2.2 (b2.locate r₂).2.1 (b2.locate r₂).2.2
            (b3.locate r₃).2.1 (b3.locate r₃).2.2 (b4.locate r₄).2.1 (b4.locate r₄).2.2 := by
    unfold entry4
    simp only [Basis.moved_locate]
    rw [quartetBlocks_get (b1.moved g) (b2.moved g) (b3.moved g) (b4.moved g) blk' _ _ _ _
      (by simpa using hi) (by simpa using hj) (by simpa using hk) (by simpa using hl),
      Basis.moved_getElem b1 g _ hi, Basis.moved_getElem b2 g _ hj, Basis.moved_getElem b3 g _ hk,
      Basis.moved_getElem b4 g _ hl]
  have hq := wBlock4_moved_of_block g b1[(b1.locate r₁).1] b2[(b2.locate r₂).1]
    b3[(b3.locate r₃).1] b4[(b4.locate r₄).1] (hb1 _ hi) (hb2 _ hj) (hb3 _ hk) (hb4 _ hl)
    (blk (b1.locate r₁).1 (b2.locate r₂).1 (b3.locate r₃).1 (b4.locate r₄).1)
    (blk' (b1.locate r₁).1 (b2.locate r₂).1 (b3.locate r₃).1 (b4.locate r₄).1)
    (b1.locate r₁).2.1 (b2.locate r₂).2.1 (b3.locate r₃).2.1 (b4.locate r₄).2.1
    (h (b1.locate r₁).1 (b2.locate r₂).1 (b3.locate r₃).1 (b4.locate r₄).1 hi hj hk hl
      (b1.locate r₁).2.1 (b2.locate r₂).2.1 (b3.locate r₃).2.1 (b4.locate r₄).2.1)
    (b1.locate r₁).2.2 (b2.locate r₂).2.2 (b3.locate r₃).2.2 (b4.locate r₄).2.2 hf₁ hf₂ hf₃ hf₄
  rw [hL, hq, sum4_nest]
  unfold segOf funOf
  refine Finset.sum_congr rfl fun f₁ hf₁' => mul_eq_of_right _ ?_
  refine Finset.sum_congr rfl fun f₂ hf₂' => mul_eq_of_right _ ?_
  refine Finset.sum_congr rfl fun f₃ hf₃' => mul_eq_of_right _ ?_
  refine Finset.sum_congr rfl fun f₄ hf₄' => mul_eq_of_right _ ?_
  exact (entry4_layout b1 b2 b3 b4 blk (b1.locate r₁).1 (b2.locate r₂).1 (b3.locate r₃).1
    (b4.locate r₄).1 hi hj hk hl (b1.locate r₁).2.1 f₁ (b2.locate r₂).2.1 f₂ (b3.locate r₃).2.1 f₃
    (b4.locate r₄).2.1 f₄ hm₁ (Finset.mem_range.mp hf₁') hm₂ (Finset.mem_range.mp hf₂') hm₃
    (Finset.mem_range.mp hf₃') hm₄ (Finset.mem_range.mp hf₄')).symm

/-- the generic lemma for the flat arrays `assemble4g b1 b2 b3 b4 …` (row-major `[r₁][r₂][r₃][r₄]`) -/
theorem assemble4g_moved_of_blocks (g : E3 ≃ᵃⁱ[ℝ] E3) (b1 b2 b3 b4 : Basis ℝ) (hb1 : b1.Movable)
    (hb2 : b2.Movable) (hb3 : b3.Movable) (hb4 : b4.Movable)
    (blk blk' : ℕ → ℕ → ℕ → ℕ → Tab8 ℝ)
    (h : ∀ (i j k l : ℕ) (hi : i < b1.size) (hj : j < b2.size) (hk : k < b3.size)
      (hl : l < b4.size) (m₁ m₂ m₃ m₄ : ℕ),
      ∀ a₁ < b1[i].ncart, ∀ a₂ < b2[j].ncart, ∀ a₃ < b3[k].ncart, ∀ a₄ < b4[l].ncart,
        (blk' i j k l).get8 m₁ a₁ m₂ a₂ m₃ a₃ m₄ a₄
          = ∑ c₁ ∈ range b1[i].ncart, ∑ c₂ ∈ range b2[j].ncart, ∑ c₃ ∈ range b3[k].ncart,
              ∑ c₄ ∈ range b4[l].ncart,
                repMat (linPart g) b1[i].cart a₁ c₁ * repMat (linPart g) b2[j].cart a₂ c₂
                  * repMat (linPart g) b3[k].cart a₃ c₃ * repMat (linPart g) b4[l].cart a₄ c₄
                  * (blk i j k l).get8 m₁ c₁ m₂ c₂ m₃ c₃ m₄ c₄)
    (r₁ r₂ r₃ r₄ : ℕ) (h₁ : r₁ < b1.total) (h₂ : r₂ < b2.total) (h₃ : r₃ < b3.total)
    (h₄ : r₄ < b4.total) :
    (assemble4g (b1.moved g) (b2.moved g) (b3.moved g) (b4.moved g) blk')[
        ((r₁ * b2.total + r₂) * b3.total + r₃) * b4.total + r₄]!
      = ∑ s₁ ∈ range b1.total, ∑ s₂ ∈ range b2.total, ∑ s₃ ∈ range b3.total,
          ∑ s₄ ∈ range b4.total,
            basisRep b1 (linPart g) r₁ s₁ * basisRep b2 (linPart g) r₂ s₂
              * basisRep b3 (linPart g) r₃ s₃ * basisRep b4 (linPart g) r₄ s₄
              * (assemble4g b1 b2 b3 b4 blk)[
                  ((s₁ * b2.total + s₂) * b3.total + s₃) * b4.total + s₄]! := by
  have hL := assemble4g_get (b1.moved g) (b2.moved g) (b3.moved g) (b4.moved g) blk' r₁ r₂ r₃ r₄
    (by rw [Basis.moved_total]; exact h₁) (by rw [Basis.moved_total]; exact h₂)
    (by rw [Basis.moved_total]; exact h₃) (by rw [Basis.moved_total]; exact h₄)
  simp only [Basis.moved_total] at hL
  rw [hL, entry4_moved_of_blocks_g g b1 b2 b3 b4 hb1 hb2 hb3 hb4 blk blk' h r₁ r₂ r₃ r₄ h₁ h₂ h₃ h₄]
  refine Finset.sum_congr rfl fun s₁ hs₁ => Finset.sum_congr rfl fun s₂ hs₂ =>
    Finset.sum_congr rfl fun s₃ hs₃ => Finset.sum_congr rfl fun s₄ hs₄ => ?_
  rw [assemble4g_get b1 b2 b3 b4 blk s₁ s₂ s₃ s₄ (Finset.mem_range.mp hs₁)
    (Finset.mem_range.mp hs₂) (Finset.mem_range.mp hs₃) (Finset.mem_range.mp hs₄)]

/-- the electron-repulsion block function of four different bases; `eriBlk boysT b = eriBlk4 boysT b b b b` -/
noncomputable def eriBlk4 (boysT : ℝ → ℕ → Tab ℝ) (b1 b2 b3 b4 : Basis ℝ) (i j k l : ℕ) : Tab8 ℝ :=
  eriBlock boysT b1[i]! b2[j]! b3[k]! b4[l]!

theorem eriBlk4_self (boysT : ℝ → ℕ → Tab ℝ) (b : Basis ℝ) : eriBlk4 boysT b b b b = eriBlk boysT b :=
  rfl

/-- the block-level input of the electron-repulsion instances -/
theorem eriBlk4_moved (boysT : ℝ → ℕ → Tab ℝ)
    (hboys : ∀ T n m, m < n → (boysT T n).get m = boys T m) (g : E3 ≃ᵃⁱ[ℝ] E3)
    (b1 b2 b3 b4 : Basis ℝ) (hb1 : b1.Movable) (hb2 : b2.Movable) (hb3 : b3.Movable)
    (hb4 : b4.Movable) (i j k l : ℕ) (hi : i < b1.size) (hj : j < b2.size) (hk : k < b3.size)
    (hl : l < b4.size) (m₁ m₂ m₃ m₄ : ℕ) :
    ∀ a₁ < b1[i].ncart, ∀ a₂ < b2[j].ncart, ∀ a₃ < b3[k].ncart, ∀ a₄ < b4[l].ncart,
      (eriBlk4 boysT (b1.moved g) (b2.moved g) (b3.moved g) (b4.moved g) i j k l).get8
          m₁ a₁ m₂ a₂ m₃ a₃ m₄ a₄
        = ∑ c₁ ∈ range b1[i].ncart, ∑ c₂ ∈ range b2[j].ncart, ∑ c₃ ∈ range b3[k].ncart,
            ∑ c₄ ∈ range b4[l].ncart,
              repMat (linPart g) b1[i].cart a₁ c₁ * repMat (linPart g) b2[j].cart a₂ c₂
                * repMat (linPart g) b3[k].cart a₃ c₃ * repMat (linPart g) b4[l].cart a₄ c₄
                * (eriBlk4 boysT b1 b2 b3 b4 i j k l).get8 m₁ c₁ m₂ c₂ m₃ c₃ m₄ c₄ := by
  intro a₁ ha₁ a₂ ha₂ a₃ ha₃ a₄ ha₄
  simp only [eriBlk4]
  rw [Basis.moved_getElem! b1 g i hi, Basis.moved_getElem! b2 g j hj, Basis.moved_getElem! b3 g k hk,
    Basis.moved_getElem! b4 g l hl, getElem!_pos b1 i hi, getElem!_pos b2 j hj, getElem!_pos b3 k hk,
    getElem!_pos b4 l hl]
  exact eriBlock_moved boysT hboys g b1[i] b2[j] b3[k] b4[l] m₁ a₁ m₂ a₂ m₃ a₃ m₄ a₄
    (hb1 i hi).exps_pos (hb2 j hj).exps_pos (hb3 k hk).exps_pos (hb4 l hl).exps_pos
    (hb1 i hi).full_cart (hb2 j hj).full_cart (hb3 k hk).full_cart (hb4 l hl).full_cart
    ha₁ ha₂ ha₃ ha₄

/-- **C12, electron-repulsion array over four different (mixed Cartesian / spherical) bases.**  For
movable bases and every rigid motion `g` applied to all four, with the true Boys function in the blocks
(`hboys`), every entry of the four-index array `(r₁ r₂ | r₃ r₄)`, `r_k` a function of the moved `b_k`,
is `Σ U₁(r₁,s₁) U₂(r₂,s₂) U₃(r₃,s₃) U₄(r₄,s₄) (s₁ s₂ | s₃ s₄)` with `U_k = basisRep b_k (linPart g)`. -/
theorem eri_array_moved_g (boysT : ℝ → ℕ → Tab ℝ)
    (hboys : ∀ T n m, m < n → (boysT T n).get m = boys T m) (g : E3 ≃ᵃⁱ[ℝ] E3)
    (b1 b2 b3 b4 : Basis ℝ) (hb1 : b1.Movable) (hb2 : b2.Movable) (hb3 : b3.Movable)
    (hb4 : b4.Movable) (r₁ r₂ r₃ r₄ : ℕ) (h₁ : r₁ < b1.total) (h₂ : r₂ < b2.total)
    (h₃ : r₃ < b3.total) (h₄ : r₄ < b4.total) :
    entry4 (b1.moved g) (b2.moved g) (b3.moved g) (b4.moved g)
        (quartetBlocks (b1.moved g) (b2.moved g) (b3.moved g) (b4.moved g)
          (eriBlk4 boysT (b1.moved g) (b2.moved g) (b3.moved g) (b4.moved g))) r₁ r₂ r₃ r₄
      = ∑ s₁ ∈ range b1.total, ∑ s₂ ∈ range b2.total, ∑ s₃ ∈ range b3.total,
          ∑ s₄ ∈ range b4.total,
            basisRep b1 (linPart g) r₁ s₁ * basisRep b2 (linPart g) r₂ s₂
              * basisRep b3 (linPart g) r₃ s₃ * basisRep b4 (linPart g) r₄ s₄
              * entry4 b1 b2 b3 b4 (quartetBlocks b1 b2 b3 b4 (eriBlk4 boysT b1 b2 b3 b4))
                  s₁ s₂ s₃ s₄ :=
  entry4_moved_of_blocks_g g b1 b2 b3 b4 hb1 hb2 hb3 hb4 (eriBlk4 boysT b1 b2 b3 b4)
    (eriBlk4 boysT (b1.moved g) (b2.moved g) (b3.moved g) (b4.moved g))
    (fun i j k l hi hj hk hl m₁ m₂ m₃ m₄ =>
      eriBlk4_moved boysT hboys g b1 b2 b3 b4 hb1 hb2 hb3 hb4 i j k l hi hj hk hl m₁ m₂ m₃ m₄)
    r₁ r₂ r₃ r₄ h₁ h₂ h₃ h₄

/-- **C12 for the flat electron-repulsion array of four different bases**
`assemble4g b1 b2 b3 b4 (eriBlk4 boysT b1 b2 b3 b4)` -/
theorem eri_flat_moved_g (boysT : ℝ → ℕ → Tab ℝ)
    (hboys : ∀ T n m, m < n → (boysT T n).get m = boys T m) (g : E3 ≃ᵃⁱ[ℝ] E3)
    (b1 b2 b3 b4 : Basis ℝ) (hb1 : b1.Movable) (hb2 : b2.Movable) (hb3 : b3.Movable)
    (hb4 : b4.Movable) (r₁ r₂ r₃ r₄ : ℕ) (h₁ : r₁ < b1.total) (h₂ : r₂ < b2.total)
    (h₃ : r₃ < b3.total) (h₄ : r₄ < b4.total) :
    (assemble4g (b1.moved g) (b2.moved g) (b3.moved g) (b4.moved g)
        (eriBlk4 boysT (b1.moved g) (b2.moved g) (b3.moved g) (b4.moved g)))[
        ((r₁ * b2.total + r₂) * b3.total + r₃) * b4.total + r₄]!
      = ∑ s₁ ∈ range b1.total, ∑ s₂ ∈ range b2.total, ∑ s₃ ∈ range b3.total,
          ∑ s₄ ∈ range b4.total,
            basisRep b1 (linPart g) r₁ s₁ * basisRep b2 (linPart g) r₂ s₂
              * basisRep b3 (linPart g) r₃ s₃ * basisRep b4 (linPart g) r₄ s₄
              * (assemble4g b1 b2 b3 b4 (eriBlk4 boysT b1 b2 b3 b4))[
                  ((s₁ * b2.total + s₂) * b3.total + s₃) * b4.total + s₄]! :=
  assemble4g_moved_of_blocks g b1 b2 b3 b4 hb1 hb2 hb3 hb4 (eriBlk4 boysT b1 b2 b3 b4)
    (eriBlk4 boysT (b1.moved g) (b2.moved g) (b3.moved g) (b4.moved g))
    (fun i j k l hi hj hk hl m₁ m₂ m₃ m₄ =>
      eriBlk4_moved boysT hboys g b1 b2 b3 b4 hb1 hb2 hb3 hb4 i j k l hi hj hk hl m₁ m₂ m₃ m₄)
    r₁ r₂ r₃ r₄ h₁ h₂ h₃ h₄

end Moved4

end GB
