import GBProofs.Block3D
import GBProofs.TranslationLaws

/-!
# Moving the moment origin: binomial expansion in lower moments

* `momentBlock_entry_order_indep` : an entry of `momentBlock s t O orders` at position `d` depends
  only on the order triple `orders[d]` (not on the rest of the list, nor on its maximum): it is the
  entry of the one-element list `[orders[d]]` at position 0.  Purely definitional: any carrier `K`
  with the operations of `Transc`, no hypothesis on the exponents.
* `momentBlock_origin_shift` : over ℝ, positive exponents: the moment of order `(e₁,e₂,e₃)` about
  `O'` is the binomial combination of the moments of orders `(f₁,f₂,f₃) ≤ (e₁,e₂,e₃)` about `O`,
  with coefficients `C(e₁,f₁) C(e₂,f₂) C(e₃,f₃) (O-O')_x^{e₁-f₁} (O-O')_y^{e₂-f₂} (O-O')_z^{e₃-f₃}`.
* `momentBlock_origin_shift_list` : the same for arbitrary order lists on both sides.
* `momentBlock_dipole_shift_x/y/z` : `M_x(O') = M_x(O) + (O_x - O'_x) · S`, with `S` the entry of
  `overlapBlock`.
-/
open MeasureTheory Real

namespace GB

/-! ## An entry only depends on its own order triple -/

/-- **The entry of a moment block at position `d` of the order list only depends on the triple
`orders[d]`** (`(0,0,0)` outside the list, as in the model): the other members of the list only
change how many planes of the one-dimensional tables are materialised, never their values.
Holds for every carrier and every interpretation of the operations; no hypothesis on the shells. -/
theorem momentBlock_entry_order_indep {K : Type} [Transc K] (s t : Shell K) (O : ℕ → K)
    (orders : List Comp) (d ma ca mb cb : ℕ) :
    ((momentBlock s t O orders).get d).get4 ma ca mb cb
      = ((momentBlock s t O [orders.getD d (0,0,0)]).get 0).get4 ma ca mb cb := by
  simp only [momentBlock, tab_get, blockTab, tab4_get, List.getD_cons_zero, contract, prod3,
    pairTabs, tab3_get]
  simp only [momAx, momTab, Tab.get3, tab_get]

/-- two order lists with the same triple at the positions `d`, `d'` give the same entry -/
theorem momentBlock_entry_congr {K : Type} [Transc K] (s t : Shell K) (O : ℕ → K)
    (orders orders' : List Comp) (d d' ma ca mb cb : ℕ)
    (h : orders.getD d (0,0,0) = orders'.getD d' (0,0,0)) :
    ((momentBlock s t O orders).get d).get4 ma ca mb cb
      = ((momentBlock s t O orders').get d').get4 ma ca mb cb := by
  rw [momentBlock_entry_order_indep s t O orders d, momentBlock_entry_order_indep s t O orders' d', h]

/-! ## The binomial expansion of the moment monomial -/

lemma sub_pow_shift (x a b : ℝ) (n : ℕ) :
    (x - b)^n = ∑ m ∈ Finset.range (n + 1), (x - a)^m * (a - b)^(n - m) * (n.choose m : ℝ) := by
  rw [← add_pow]
  congr 1
  ring

/-- coefficient of the moment of order `(f₁,f₂,f₃)` about `O` in the moment of order
`(e₁,e₂,e₃)` about `O'` -/
def shiftCoef (O O' : ℕ → ℝ) (e₁ e₂ e₃ f₁ f₂ f₃ : ℕ) : ℝ :=
  (e₁.choose f₁ : ℝ) * (e₂.choose f₂ : ℝ) * (e₃.choose f₃ : ℝ)
    * ((O 0 - O' 0)^(e₁ - f₁) * (O 1 - O' 1)^(e₂ - f₂) * (O 2 - O' 2)^(e₃ - f₃))

/-- pointwise: `(r-O')^e = Σ_{f ≤ e} C(e,f) (O-O')^{e-f} (r-O)^f` (multi-index notation) -/
lemma monoFn_shift (O O' : ℕ → ℝ) (e₁ e₂ e₃ : ℕ) (r : ℝ × ℝ × ℝ) :
    monoFn O' (e₁, e₂, e₃) r
      = ∑ f₁ ∈ Finset.range (e₁ + 1), ∑ f₂ ∈ Finset.range (e₂ + 1), ∑ f₃ ∈ Finset.range (e₃ + 1),
          shiftCoef O O' e₁ e₂ e₃ f₁ f₂ f₃ * monoFn O (f₁, f₂, f₃) r := by
  unfold monoFn shiftCoef
  simp only
  rw [sub_pow_shift r.1 (O 0) (O' 0), sub_pow_shift r.2.1 (O 1) (O' 1),
    sub_pow_shift r.2.2 (O 2) (O' 2), Finset.sum_mul_sum, Finset.sum_mul]
  refine Finset.sum_congr rfl fun f₁ _ => ?_
  rw [Finset.sum_mul_sum]
  refine Finset.sum_congr rfl fun f₂ _ => Finset.sum_congr rfl fun f₃ _ => ?_
  ring

/-! ## The origin shift of the blocks -/

/-- **Origin shift of the multipole-moment blocks.**  For shells with positive exponents, the
entry of the moment block of order `(e₁,e₂,e₃)` about the origin `O'` is the binomial combination
of the entries of the blocks of all lower orders about the origin `O`:
`M_e(O') = Σ_{f ≤ e} C(e₁,f₁) C(e₂,f₂) C(e₃,f₃) (O-O')_x^{e₁-f₁} (O-O')_y^{e₂-f₂} (O-O')_z^{e₃-f₃} M_f(O)`.
Hypotheses: positive exponents (what makes the entries integrals, `momentBlock_eq_integral`). -/
theorem momentBlock_origin_shift (s t : Shell ℝ) (O O' : ℕ → ℝ) (e₁ e₂ e₃ : ℕ) (ma ca mb cb : ℕ)
    (hs : ∀ k < s.nprim, 0 < s.exp! k) (ht : ∀ k < t.nprim, 0 < t.exp! k) :
    ((momentBlock s t O' [(e₁, e₂, e₃)]).get 0).get4 ma ca mb cb
      = ∑ f₁ ∈ Finset.range (e₁ + 1), ∑ f₂ ∈ Finset.range (e₂ + 1), ∑ f₃ ∈ Finset.range (e₃ + 1),
          (e₁.choose f₁ : ℝ) * (e₂.choose f₂ : ℝ) * (e₃.choose f₃ : ℝ)
            * ((O 0 - O' 0)^(e₁ - f₁) * (O 1 - O' 1)^(e₂ - f₂) * (O 2 - O' 2)^(e₃ - f₃))
            * ((momentBlock s t O [(f₁, f₂, f₃)]).get 0).get4 ma ca mb cb := by
  rw [momentBlock_eq_integral_mono s t O' _ 0 ma ca mb cb hs ht]
  simp only [List.getD_cons_zero]
  have hI : ∀ f : Comp, Integrable (fun r : ℝ × ℝ × ℝ =>
      shellFn s ma ca r * shellFn t mb cb r * monoFn O f r) :=
    fun f => integrable_shell_mul s t O f ma ca mb cb hs ht
  have hpt : ∀ r : ℝ × ℝ × ℝ, shellFn s ma ca r * shellFn t mb cb r * monoFn O' (e₁, e₂, e₃) r
      = ∑ f₁ ∈ Finset.range (e₁ + 1), ∑ f₂ ∈ Finset.range (e₂ + 1),
          ∑ f₃ ∈ Finset.range (e₃ + 1), shiftCoef O O' e₁ e₂ e₃ f₁ f₂ f₃
            * (shellFn s ma ca r * shellFn t mb cb r * monoFn O (f₁, f₂, f₃) r) := by
    intro r
    rw [monoFn_shift O O', Finset.mul_sum]
    refine Finset.sum_congr rfl fun f₁ _ => ?_
    rw [Finset.mul_sum]
    refine Finset.sum_congr rfl fun f₂ _ => ?_
    rw [Finset.mul_sum]
    refine Finset.sum_congr rfl fun f₃ _ => ?_
    ring
  simp_rw [hpt]
  rw [integral_finsetSum _ fun f₁ _ => integrable_finsetSum _ fun f₂ _ =>
    integrable_finsetSum _ fun f₃ _ => (hI _).const_mul _]
  refine Finset.sum_congr rfl fun f₁ _ => ?_
  rw [integral_finsetSum _ fun f₂ _ => integrable_finsetSum _ fun f₃ _ => (hI _).const_mul _]
  refine Finset.sum_congr rfl fun f₂ _ => ?_
  rw [integral_finsetSum _ fun f₃ _ => (hI _).const_mul _]
  refine Finset.sum_congr rfl fun f₃ _ => ?_
  rw [integral_const_mul, momentBlock_eq_integral_mono s t O _ 0 ma ca mb cb hs ht]
  simp only [List.getD_cons_zero, shiftCoef]

/-- **Origin shift, arbitrary order lists.**  The entry at position `d` of the blocks about `O'`
for the list `orders'` is the binomial combination of entries of the blocks about `O` for a list
`orders`, as soon as `orders` contains every lower triple: `idx f₁ f₂ f₃` is a position of
`(f₁,f₂,f₃)` in `orders` for every `(f₁,f₂,f₃) ≤ orders'[d]` componentwise. -/
theorem momentBlock_origin_shift_list (s t : Shell ℝ) (O O' : ℕ → ℝ) (orders orders' : List Comp)
    (d ma ca mb cb : ℕ) (idx : ℕ → ℕ → ℕ → ℕ)
    (hs : ∀ k < s.nprim, 0 < s.exp! k) (ht : ∀ k < t.nprim, 0 < t.exp! k)
    (hidx : ∀ f₁ ≤ (orders'.getD d (0,0,0)).1, ∀ f₂ ≤ (orders'.getD d (0,0,0)).2.1,
      ∀ f₃ ≤ (orders'.getD d (0,0,0)).2.2, orders.getD (idx f₁ f₂ f₃) (0,0,0) = (f₁, f₂, f₃)) :
    ((momentBlock s t O' orders').get d).get4 ma ca mb cb
      = ∑ f₁ ∈ Finset.range ((orders'.getD d (0,0,0)).1 + 1),
        ∑ f₂ ∈ Finset.range ((orders'.getD d (0,0,0)).2.1 + 1),
        ∑ f₃ ∈ Finset.range ((orders'.getD d (0,0,0)).2.2 + 1),
          ((orders'.getD d (0,0,0)).1.choose f₁ : ℝ) * ((orders'.getD d (0,0,0)).2.1.choose f₂ : ℝ)
            * ((orders'.getD d (0,0,0)).2.2.choose f₃ : ℝ)
            * ((O 0 - O' 0)^((orders'.getD d (0,0,0)).1 - f₁)
                * (O 1 - O' 1)^((orders'.getD d (0,0,0)).2.1 - f₂)
                * (O 2 - O' 2)^((orders'.getD d (0,0,0)).2.2 - f₃))
            * ((momentBlock s t O orders).get (idx f₁ f₂ f₃)).get4 ma ca mb cb := by
  rw [momentBlock_entry_order_indep s t O' orders' d]
  have h := momentBlock_origin_shift s t O O' (orders'.getD d (0,0,0)).1
    (orders'.getD d (0,0,0)).2.1 (orders'.getD d (0,0,0)).2.2 ma ca mb cb hs ht
  rw [h]
  refine Finset.sum_congr rfl fun f₁ h₁ => Finset.sum_congr rfl fun f₂ h₂ =>
    Finset.sum_congr rfl fun f₃ h₃ => ?_
  have e := hidx f₁ (Nat.lt_succ_iff.mp (Finset.mem_range.mp h₁))
    f₂ (Nat.lt_succ_iff.mp (Finset.mem_range.mp h₂)) f₃ (Nat.lt_succ_iff.mp (Finset.mem_range.mp h₃))
  rw [momentBlock_entry_order_indep s t O orders (idx f₁ f₂ f₃), e]

/-! ## Dipole moments -/

/-- the order-`(0,0,0)` moment entry about any origin is the overlap entry -/
theorem momentBlock_order0_eq_overlap (s t : Shell ℝ) (O : ℕ → ℝ) (ma ca mb cb : ℕ) :
    ((momentBlock s t O [(0,0,0)]).get 0).get4 ma ca mb cb = (overlapBlock s t).get4 ma ca mb cb := by
  unfold overlapBlock
  exact momentBlock_order0_origin Real.exp Real.sqrt Real.pi s t O _ ma ca mb cb

/-- **Dipole integrals, x component**: `M_x(O') = M_x(O) + (O_x - O'_x) · S`
(`S` the overlap entry).  Positive exponents. -/
theorem momentBlock_dipole_shift_x (s t : Shell ℝ) (O O' : ℕ → ℝ) (ma ca mb cb : ℕ)
    (hs : ∀ k < s.nprim, 0 < s.exp! k) (ht : ∀ k < t.nprim, 0 < t.exp! k) :
    ((momentBlock s t O' [(1,0,0)]).get 0).get4 ma ca mb cb
      = ((momentBlock s t O [(1,0,0)]).get 0).get4 ma ca mb cb
        + (O 0 - O' 0) * (overlapBlock s t).get4 ma ca mb cb := by
  rw [momentBlock_origin_shift s t O O' 1 0 0 ma ca mb cb hs ht,
    ← momentBlock_order0_eq_overlap s t O ma ca mb cb]
  simp [Finset.sum_range_succ]
  ring

/-- **Dipole integrals, y component.** -/
theorem momentBlock_dipole_shift_y (s t : Shell ℝ) (O O' : ℕ → ℝ) (ma ca mb cb : ℕ)
    (hs : ∀ k < s.nprim, 0 < s.exp! k) (ht : ∀ k < t.nprim, 0 < t.exp! k) :
    ((momentBlock s t O' [(0,1,0)]).get 0).get4 ma ca mb cb
      = ((momentBlock s t O [(0,1,0)]).get 0).get4 ma ca mb cb
        + (O 1 - O' 1) * (overlapBlock s t).get4 ma ca mb cb := by
  rw [momentBlock_origin_shift s t O O' 0 1 0 ma ca mb cb hs ht,
    ← momentBlock_order0_eq_overlap s t O ma ca mb cb]
  simp [Finset.sum_range_succ]
  ring

/-- **Dipole integrals, z component.** -/
theorem momentBlock_dipole_shift_z (s t : Shell ℝ) (O O' : ℕ → ℝ) (ma ca mb cb : ℕ)
    (hs : ∀ k < s.nprim, 0 < s.exp! k) (ht : ∀ k < t.nprim, 0 < t.exp! k) :
    ((momentBlock s t O' [(0,0,1)]).get 0).get4 ma ca mb cb
      = ((momentBlock s t O [(0,0,1)]).get 0).get4 ma ca mb cb
        + (O 2 - O' 2) * (overlapBlock s t).get4 ma ca mb cb := by
  rw [momentBlock_origin_shift s t O O' 0 0 1 ma ca mb cb hs ht,
    ← momentBlock_order0_eq_overlap s t O ma ca mb cb]
  simp [Finset.sum_range_succ]
  ring

/-- the dipole block read in the usual three-element list `[(1,0,0),(0,1,0),(0,0,1)]`:
component `axis` moves by `(O - O')_axis` times the overlap -/
theorem momentBlock_dipole_shift (s t : Shell ℝ) (O O' : ℕ → ℝ) (axis ma ca mb cb : ℕ)
    (haxis : axis < 3)
    (hs : ∀ k < s.nprim, 0 < s.exp! k) (ht : ∀ k < t.nprim, 0 < t.exp! k) :
    ((momentBlock s t O' [(1,0,0), (0,1,0), (0,0,1)]).get axis).get4 ma ca mb cb
      = ((momentBlock s t O [(1,0,0), (0,1,0), (0,0,1)]).get axis).get4 ma ca mb cb
        + (O axis - O' axis) * (overlapBlock s t).get4 ma ca mb cb := by
  rw [momentBlock_entry_order_indep s t O' _ axis, momentBlock_entry_order_indep s t O _ axis]
  interval_cases axis
  · exact momentBlock_dipole_shift_x s t O O' ma ca mb cb hs ht
  · exact momentBlock_dipole_shift_y s t O O' ma ca mb cb hs ht
  · exact momentBlock_dipole_shift_z s t O O' ma ca mb cb hs ht

end GB
