import GBProofs.ArrayMotion2

/-!
# Rigid-motion covariance of the density-type evaluations (C12, grid quantities)

`g : E3 ≃ᵃⁱ[ℝ] E3` is an arbitrary rigid motion (translation, proper or improper rotation and their
compositions), `R = g.linearIsometryEquiv` its linear part, `M = matOf (linPart g)` the matrix of `R`,
`b` a movable basis (`Basis.Movable`: Cartesian shells with full component lists, spherical shells with
`l ≤ 10`), `U = basisRep b (linPart g)` the block-diagonal representation matrix of the basis,
`γ'` the density matrix used with the moved basis and `γ = Uᵀ γ' U` (`CongrBy b.total U γ γ'`) the one
used with the original basis.

* §1 `biE`, `CongrBy`, `biE_transform`: `Σ γ' (U A)(U B) = Σ (Uᵀ γ' U) A B`; `CongrBy.of_one`.
* §2 `rhoE b γ x = Σ_{r,c} γ_rc χ_r(x) χ_c(x)` (`χ = basisFnE b`); **`rho_moved`**: `ρ'(g x) = ρ(x)`.
* §3 smoothness; `dirD v f = x ↦ Df(x)(v)`; `Compat g P' P` (operators that carry `ψ ∘ g = Σ D_j φ_j` to
  `(P' ψ) ∘ g = Σ D_j (P φ_j)`): identity, `dirD (R v)` / `dirD v`, compositions; `biFn`, `biFn_moved`.
* §4 **`gradient_moved`**, **`hessian_moved`** (vector form: `Dρ'(g x)(R v) = Dρ(x)(v)`,
  `D²ρ'(g x)(R u, R v) = D²ρ(x)(u, v)`).
* §5 continuous bilinear forms on `E3`: components (`Bilin2.comp_of_moved`) and trace
  (`Bilin2.trace_of_moved`) under a linear isometry; `matOf_orthogonal_col`.
* §6 **`gradient_moved_comp`**, **`hessian_moved_comp`**, **`laplacian_moved`** (`laplacian_moved'` with
  Mathlib's `Δ`).
* §7–9 `T11`, `T20`, `T02`; **`tplus_moved`**; the stress tensor as a bilinear form `stressE`,
  **`stress_moved`**, **`stress_moved_comp`**.
* §10 the forms of the model (`Form.evalA pd …` of `FormsProofs` / `SmoothInstance`) for the basis:
  `formVal b γ f`; `evalB_rho`, `evalB_gradient`, `evalB_hessian`, `evalB_laplacian`, `evalB_posdef`,
  `evalB_generalKE`, `evalB_stress` identify them with the quantities above.
* §11–13 **C12 for the forms**: `densityForm_moved`, `posdefForm_moved` (arbitrary `γ'`),
  `gradientForm_moved`, `hessianForm_moved`, `laplacianForm_moved`, `generalKEForm_moved`,
  `stressForm_moved`, `forceForm_moved`, `ehrenfestHessianRaw_moved`, `ehrenfestHessianForm_moved`
  (symmetric `γ'`: the forms of the model are those of a symmetric density matrix; e.g. the Hessian
  form uses `D(e_min; e_max)`, which is a tensor only for symmetric `γ`).
* §14 translations and all rigid motions with trivial linear part: `U = 1`, same density matrix
  (`rho_translate`, `gradient_translate`, `hessian_translate`, `laplacian_translate`,
  `tplus_translate`, `stress_translate`), and **every** form of the model, arbitrary `γ`
  (`formVal_moved_of_linear_eq_id`, `formVal_translate`).
-/
open Finset
open scoped ContDiff

namespace GB

noncomputable section

/-! ## 1. Algebra: congruence of the density matrix -/

/-- the bilinear contraction `Σ_{r,c<n} γ_rc A_r B_c` -/
def biE (n : ℕ) (γ : ℕ → ℕ → ℝ) (A B : ℕ → ℝ) : ℝ :=
  ∑ r ∈ range n, ∑ c ∈ range n, γ r c * A r * B c

/-- `γ = Uᵀ γ' U` on the indices `< n`: `γ r' c' = Σ_{r,c<n} U r r' * U c c' * γ' r c` -/
def CongrBy (n : ℕ) (U γ γ' : ℕ → ℕ → ℝ) : Prop :=
  ∀ r' < n, ∀ c' < n, γ r' c' = ∑ r ∈ range n, ∑ c ∈ range n, U r r' * U c c' * γ' r c

theorem sum4_swap (n : ℕ) (F : ℕ → ℕ → ℕ → ℕ → ℝ) :
    ∑ r ∈ range n, ∑ c ∈ range n, ∑ r' ∈ range n, ∑ c' ∈ range n, F r c r' c'
      = ∑ r' ∈ range n, ∑ c' ∈ range n, ∑ r ∈ range n, ∑ c ∈ range n, F r c r' c' := by
  calc ∑ r ∈ range n, ∑ c ∈ range n, ∑ r' ∈ range n, ∑ c' ∈ range n, F r c r' c'
      = ∑ r ∈ range n, ∑ r' ∈ range n, ∑ c ∈ range n, ∑ c' ∈ range n, F r c r' c' :=
        sum_congr rfl fun r _ => sum_comm
    _ = ∑ r' ∈ range n, ∑ r ∈ range n, ∑ c ∈ range n, ∑ c' ∈ range n, F r c r' c' := sum_comm
    _ = ∑ r' ∈ range n, ∑ r ∈ range n, ∑ c' ∈ range n, ∑ c ∈ range n, F r c r' c' :=
        sum_congr rfl fun r' _ => sum_congr rfl fun r _ => sum_comm
    _ = _ := sum_congr rfl fun r' _ => sum_comm

/-- **the contraction with the congruent matrix**: if `A' = U A`, `B' = U B` and `γ = Uᵀ γ' U` then
`Σ γ' A' B' = Σ γ A B` -/
theorem biE_transform (n : ℕ) (U γ γ' : ℕ → ℕ → ℝ) (A B A' B' : ℕ → ℝ) (hγ : CongrBy n U γ γ')
    (hA : ∀ r < n, A' r = ∑ r' ∈ range n, U r r' * A r')
    (hB : ∀ c < n, B' c = ∑ c' ∈ range n, U c c' * B c') :
    biE n γ' A' B' = biE n γ A B := by
  unfold biE
  have hL : ∑ r ∈ range n, ∑ c ∈ range n, γ' r c * A' r * B' c
      = ∑ r ∈ range n, ∑ c ∈ range n, ∑ r' ∈ range n, ∑ c' ∈ range n,
          U r r' * U c c' * γ' r c * (A r' * B c') := by
    refine sum_congr rfl fun r hr => sum_congr rfl fun c hc => ?_
    rw [hA r (mem_range.mp hr), hB c (mem_range.mp hc), mul_assoc, sum_mul_sum, mul_sum]
    refine sum_congr rfl fun r' _ => ?_
    rw [mul_sum]
    exact sum_congr rfl fun c' _ => by ring
  have hR : ∑ r' ∈ range n, ∑ c' ∈ range n, γ r' c' * A r' * B c'
      = ∑ r' ∈ range n, ∑ c' ∈ range n, ∑ r ∈ range n, ∑ c ∈ range n,
          U r r' * U c c' * γ' r c * (A r' * B c') := by
    refine sum_congr rfl fun r' hr' => sum_congr rfl fun c' hc' => ?_
    rw [hγ r' (mem_range.mp hr') c' (mem_range.mp hc'), mul_assoc, sum_mul]
    refine sum_congr rfl fun r _ => ?_
    rw [sum_mul]
  rw [hL, hR, sum4_swap]

theorem CongrBy.symm_of_symm {n : ℕ} {U γ γ' : ℕ → ℕ → ℝ} (h : CongrBy n U γ γ')
    (hs : ∀ r < n, ∀ c < n, γ' r c = γ' c r) : ∀ r < n, ∀ c < n, γ r c = γ c r := by
  intro r hr c hc
  rw [h r hr c hc, h c hc r hr, sum_comm]
  refine sum_congr rfl fun a ha => sum_congr rfl fun d hd => ?_
  rw [hs d (mem_range.mp hd) a (mem_range.mp ha)]
  ring

/-- for the unit matrix the congruent matrix is the matrix itself -/
theorem CongrBy.of_one {n : ℕ} {U : ℕ → ℕ → ℝ} (γ : ℕ → ℕ → ℝ)
    (hU : ∀ r < n, ∀ r' < n, U r r' = if r = r' then 1 else 0) : CongrBy n U γ γ := by
  intro r' hr' c' hc'
  have e : ∀ r ∈ range n, ∑ c ∈ range n, U r r' * U c c' * γ r c
      = if r = r' then γ r c' else 0 := by
    intro r hr
    rw [sum_eq_single c']
    · rw [hU r (mem_range.mp hr) r' hr', hU c' hc' c' hc', if_pos rfl]
      by_cases h : r = r' <;> simp [h]
    · intro c hc hne
      rw [hU c (mem_range.mp hc) c' hc', if_neg hne]; ring
    · intro h; exact absurd (mem_range.mpr hc') h
  rw [sum_congr rfl e, sum_ite_eq' (range n) r' fun r => γ r c', if_pos (mem_range.mpr hr')]

/-! ## 2. The density and its invariance -/

/-- **the electron density of the basis `b` with the density matrix `γ`**:
`ρ(x) = Σ_{r,c < b.total} γ_rc χ_r(x) χ_c(x)`, `χ = basisFnE b` the basis functions of the assembled
arrays (contraction norms and Cartesian → spherical transformation included) -/
def rhoE (b : Basis ℝ) (γ : ℕ → ℕ → ℝ) (x : E3) : ℝ :=
  ∑ r ∈ range b.total, ∑ c ∈ range b.total, γ r c * basisFnE b r x * basisFnE b c x

theorem rhoE_eq_biE (b : Basis ℝ) (γ : ℕ → ℕ → ℝ) (x : E3) :
    rhoE b γ x = biE b.total γ (fun r => basisFnE b r x) (fun c => basisFnE b c x) := rfl

/-- **C12, density.**  `ρ'(g x) = ρ(x)`: the density of the moved basis with the density matrix `γ'`
at the moved point is the density of the original basis with `γ = Uᵀ γ' U`,
`U = basisRep b (linPart g)`, at the original point. -/
theorem rho_moved (g : E3 ≃ᵃⁱ[ℝ] E3) (b : Basis ℝ) (hb : b.Movable) (γ γ' : ℕ → ℕ → ℝ)
    (hγ : CongrBy b.total (basisRep b (linPart g)) γ γ') (x : E3) :
    rhoE (b.moved g) γ' (g x) = rhoE b γ x := by
  rw [rhoE_eq_biE, rhoE_eq_biE, Basis.moved_total]
  exact biE_transform b.total _ γ γ' _ _ _ _ hγ (fun r hr => basisFnE_moved g b hb r hr x)
    (fun c hc => basisFnE_moved g b hb c hc x)

/-! ## 3. Smoothness; directional derivatives; operators compatible with the motion -/

theorem contDiff_basisFnE (b : Basis ℝ) (r : ℕ) : ContDiff ℝ ∞ (basisFnE b r) := by
  unfold basisFnE basisLin
  exact ContDiff.sum fun a _ => contDiff_const.mul (contDiff_shellFnE _ _ _)

theorem contDiff_rhoE (b : Basis ℝ) (γ : ℕ → ℕ → ℝ) : ContDiff ℝ ∞ (rhoE b γ) := by
  unfold rhoE
  exact ContDiff.sum fun r _ => ContDiff.sum fun c _ =>
    (contDiff_const.mul (contDiff_basisFnE b r)).mul (contDiff_basisFnE b c)

theorem smooth_diff {f : E3 → ℝ} (hf : ContDiff ℝ ∞ f) : Differentiable ℝ f :=
  hf.differentiable (by simp)

/-- the derivative of `f` in the (fixed) direction `v`, as a function of the point -/
def dirD (v : E3) (f : E3 → ℝ) : E3 → ℝ := fun x => fderiv ℝ f x v

theorem contDiff_dirD {f : E3 → ℝ} (hf : ContDiff ℝ ∞ f) (v : E3) : ContDiff ℝ ∞ (dirD v f) :=
  (hf.fderiv_right (m := ∞) (by simp)).clm_apply contDiff_const

theorem dirD_dirD_apply {f : E3 → ℝ} (hf : ContDiff ℝ ∞ f) (u v x : E3) :
    dirD u (dirD v f) x = fderiv ℝ (fderiv ℝ f) x u v := by
  have hd : DifferentiableAt ℝ (fderiv ℝ f) x :=
    (hf.fderiv_right (m := ∞) (by simp)).differentiable (by simp) x
  show fderiv ℝ (fun y => fderiv ℝ f y v) x u = _
  rw [fderiv_clm_apply hd (differentiableAt_const _)]
  simp

/-- a pair of operators `(P', P)` on functions is *compatible* with the motion `g` if both preserve
smoothness and every linear relation `ψ ∘ g = Σ_j D_j φ_j` between smooth functions is carried to
`(P' ψ) ∘ g = Σ_j D_j (P φ_j)` -/
def Compat (g : E3 ≃ᵃⁱ[ℝ] E3) (P' P : (E3 → ℝ) → E3 → ℝ) : Prop :=
  (∀ f, ContDiff ℝ ∞ f → ContDiff ℝ ∞ (P' f)) ∧ (∀ f, ContDiff ℝ ∞ f → ContDiff ℝ ∞ (P f)) ∧
    ∀ (S : Finset ℕ) (ψ : E3 → ℝ) (φ : ℕ → E3 → ℝ) (D : ℕ → ℝ), ContDiff ℝ ∞ ψ →
      (∀ j, ContDiff ℝ ∞ (φ j)) → (∀ x, ψ (g x) = ∑ j ∈ S, D j * φ j x) →
      ∀ x, P' ψ (g x) = ∑ j ∈ S, D j * P (φ j) x

theorem Compat.id (g : E3 ≃ᵃⁱ[ℝ] E3) : Compat g (fun f => f) (fun f => f) :=
  ⟨fun _ h => h, fun _ h => h, fun _ _ _ _ _ _ h => h⟩

/-- the derivative along `R v` (`R` the linear part of `g`) at the moved point corresponds to the
derivative along `v` at the original point -/
theorem Compat.dirD (g : E3 ≃ᵃⁱ[ℝ] E3) (v : E3) :
    Compat g (dirD (g.linearIsometryEquiv v)) (dirD v) := by
  refine ⟨fun f hf => contDiff_dirD hf _, fun f hf => contDiff_dirD hf _, ?_⟩
  intro S ψ φ D hψ hφ h x
  have h1 := fderiv_comp_moved g S ψ φ D h (smooth_diff hψ) (fun j => smooth_diff (hφ j)) x
  have h2 := congrArg (fun L : E3 →L[ℝ] ℝ => L v) h1
  simp only [ContinuousLinearMap.comp_apply, _root_.sum_apply, _root_.smul_apply,
    smul_eq_mul] at h2
  exact h2

theorem Compat.comp {g : E3 ≃ᵃⁱ[ℝ] E3} {P' P Q' Q : (E3 → ℝ) → E3 → ℝ} (hP : Compat g P' P)
    (hQ : Compat g Q' Q) : Compat g (fun f => P' (Q' f)) (fun f => P (Q f)) := by
  refine ⟨fun f hf => hP.1 _ (hQ.1 f hf), fun f hf => hP.2.1 _ (hQ.2.1 f hf), ?_⟩
  intro S ψ φ D hψ hφ h x
  exact hP.2.2 S (Q' ψ) (fun j => Q (φ j)) D (hQ.1 ψ hψ) (fun j => hQ.2.1 _ (hφ j))
    (hQ.2.2 S ψ φ D hψ hφ h) x

/-- a single function: `F ∘ g = f` gives `(P' F) ∘ g = P f` -/
theorem Compat.apply_single {g : E3 ≃ᵃⁱ[ℝ] E3} {P' P : (E3 → ℝ) → E3 → ℝ} (hP : Compat g P' P)
    {F f : E3 → ℝ} (hF : ContDiff ℝ ∞ F) (hf : ContDiff ℝ ∞ f) (h : ∀ x, F (g x) = f x) (x : E3) :
    P' F (g x) = P f x := by
  have := hP.2.2 {0} F (fun _ => f) (fun _ => 1) hF (fun _ => hf) (fun x => by simp [h x]) x
  simpa using this

/-- the bilinear density-type function `Σ_{r,c} γ_rc (P χ_r)(x) (Q χ_c)(x)` for two operators `P`, `Q`
on functions -/
def biFn (b : Basis ℝ) (γ : ℕ → ℕ → ℝ) (P Q : (E3 → ℝ) → E3 → ℝ) (x : E3) : ℝ :=
  biE b.total γ (fun r => P (basisFnE b r) x) (fun c => Q (basisFnE b c) x)

theorem rhoE_eq_biFn (b : Basis ℝ) (γ : ℕ → ℕ → ℝ) :
    rhoE b γ = biFn b γ (fun f => f) (fun f => f) := rfl

/-- **the generic covariance statement**: for operators compatible with the motion,
`Σ γ' (P' χ'_r)(g x) (Q' χ'_c)(g x) = Σ γ (P χ_r)(x) (Q χ_c)(x)` with `γ = Uᵀ γ' U` -/
theorem biFn_moved (g : E3 ≃ᵃⁱ[ℝ] E3) (b : Basis ℝ) (hb : b.Movable) (γ γ' : ℕ → ℕ → ℝ)
    (hγ : CongrBy b.total (basisRep b (linPart g)) γ γ') {P' P Q' Q : (E3 → ℝ) → E3 → ℝ}
    (hP : Compat g P' P) (hQ : Compat g Q' Q) (x : E3) :
    biFn (b.moved g) γ' P' Q' (g x) = biFn b γ P Q x := by
  unfold biFn
  rw [Basis.moved_total]
  refine biE_transform b.total _ γ γ' _ _ _ _ hγ (fun r hr => ?_) (fun c hc => ?_)
  · exact hP.2.2 (range b.total) _ (fun r' => basisFnE b r') _ (contDiff_basisFnE _ _)
      (fun _ => contDiff_basisFnE _ _) (fun y => basisFnE_moved g b hb r hr y) x
  · exact hQ.2.2 (range b.total) _ (fun r' => basisFnE b r') _ (contDiff_basisFnE _ _)
      (fun _ => contDiff_basisFnE _ _) (fun y => basisFnE_moved g b hb c hc y) x

/-! ## 4. Gradient and Hessian of the density: vector form -/

/-- **C12, gradient of the density** (vector form): the differential of the density of the moved
system at the moved point, applied to the rotated vector `R v` (`R = g.linearIsometryEquiv`, the linear
part of `g`), is the differential of the original density at the original point applied to `v`. -/
theorem gradient_moved (g : E3 ≃ᵃⁱ[ℝ] E3) (b : Basis ℝ) (hb : b.Movable) (γ γ' : ℕ → ℕ → ℝ)
    (hγ : CongrBy b.total (basisRep b (linPart g)) γ γ') (x v : E3) :
    fderiv ℝ (rhoE (b.moved g) γ') (g x) (g.linearIsometryEquiv v) = fderiv ℝ (rhoE b γ) x v :=
  (Compat.dirD g v).apply_single (contDiff_rhoE _ _) (contDiff_rhoE _ _)
    (rho_moved g b hb γ γ' hγ) x

/-- **C12, Hessian of the density** (vector form): `D²ρ'(g x)(R u, R v) = D²ρ(x)(u, v)` -/
theorem hessian_moved (g : E3 ≃ᵃⁱ[ℝ] E3) (b : Basis ℝ) (hb : b.Movable) (γ γ' : ℕ → ℕ → ℝ)
    (hγ : CongrBy b.total (basisRep b (linPart g)) γ γ') (x u v : E3) :
    fderiv ℝ (fderiv ℝ (rhoE (b.moved g) γ')) (g x) (g.linearIsometryEquiv u)
        (g.linearIsometryEquiv v)
      = fderiv ℝ (fderiv ℝ (rhoE b γ)) x u v := by
  rw [← dirD_dirD_apply (contDiff_rhoE _ _), ← dirD_dirD_apply (contDiff_rhoE _ _)]
  exact ((Compat.dirD g u).comp (Compat.dirD g v)).apply_single (contDiff_rhoE _ _)
    (contDiff_rhoE _ _) (rho_moved g b hb γ γ' hγ) x

/-! ## 5. Bilinear forms on `E3`: components and traces under a linear isometry -/

theorem ei_eq_eAx (k : Fin 3) : ei k = eAx k := rfl

/-- `B` is (the function of) a continuous bilinear form -/
def Bilin2 (B : E3 → E3 → ℝ) : Prop := ∃ T : E3 →L[ℝ] E3 →L[ℝ] ℝ, ∀ u v, B u v = T u v

theorem Bilin2.expand {B : E3 → E3 → ℝ} (h : Bilin2 B) (u v : E3) :
    B u v = ∑ k : Fin 3, ∑ l : Fin 3, u k * v l * B (ei k) (ei l) := by
  obtain ⟨T, hT⟩ := h
  simp only [hT, ei_eq_eAx]
  rw [clm_expand (T u) v]
  have e : ∀ l : Fin 3, T u (eAx l) = ∑ k : Fin 3, u k * T (eAx k) (eAx l) := fun l => by
    have := clm_expand (T.flip (eAx l)) u
    simpa only [ContinuousLinearMap.flip_apply] using this
  simp only [e, mul_sum]
  rw [sum_comm]
  exact sum_congr rfl fun k _ => sum_congr rfl fun l _ => by ring

theorem Bilin2.add {B C : E3 → E3 → ℝ} (hB : Bilin2 B) (hC : Bilin2 C) :
    Bilin2 fun u v => B u v + C u v := by
  obtain ⟨T, hT⟩ := hB
  obtain ⟨S, hS⟩ := hC
  exact ⟨T + S, fun u v => by simp [hT, hS]⟩

theorem Bilin2.sub {B C : E3 → E3 → ℝ} (hB : Bilin2 B) (hC : Bilin2 C) :
    Bilin2 fun u v => B u v - C u v := by
  obtain ⟨T, hT⟩ := hB
  obtain ⟨S, hS⟩ := hC
  exact ⟨T - S, fun u v => by simp [hT, hS]⟩

theorem Bilin2.const_mul {B : E3 → E3 → ℝ} (hB : Bilin2 B) (a : ℝ) :
    Bilin2 fun u v => a * B u v := by
  obtain ⟨T, hT⟩ := hB
  exact ⟨a • T, fun u v => by simp [hT]⟩

theorem Bilin2.mul_const {B : E3 → E3 → ℝ} (hB : Bilin2 B) (a : ℝ) :
    Bilin2 fun u v => B u v * a := by
  obtain ⟨T, hT⟩ := hB
  exact ⟨a • T, fun u v => by simp [hT, mul_comm]⟩

theorem Bilin2.swap {B : E3 → E3 → ℝ} (hB : Bilin2 B) : Bilin2 fun u v => B v u := by
  obtain ⟨T, hT⟩ := hB
  exact ⟨T.flip, fun u v => by simp [hT]⟩

theorem Bilin2.inner : Bilin2 fun u v : E3 => inner ℝ u v :=
  ⟨innerSL ℝ, fun u v => (innerSL_apply_apply ℝ u v).symm⟩

theorem Bilin2.sum {κ : Type*} (S : Finset κ) {B : κ → E3 → E3 → ℝ} (hB : ∀ j ∈ S, Bilin2 (B j)) :
    Bilin2 fun u v => ∑ j ∈ S, B j u v := by
  classical
  induction S using Finset.induction_on with
  | empty => exact ⟨0, fun u v => by simp⟩
  | insert a S ha ih =>
    have h1 := hB a (mem_insert_self a S)
    have h2 := ih fun j hj => hB j (mem_insert_of_mem hj)
    have := h1.add h2
    simpa only [sum_insert ha] using this

/-- the linear part of `g` as a matrix is `matOf (linPart g)` -/
theorem symm_ei_apply (g : E3 ≃ᵃⁱ[ℝ] E3) (k j : Fin 3) :
    (g.linearIsometryEquiv.symm (ei k)) j = matOf (linPart g) k j :=
  symm_eAx_apply g.linearIsometryEquiv k j

/-- the columns of the matrix of a linear isometry are orthonormal: `Mᵀ M = 1` -/
theorem matOf_orthogonal_col (R : E3 ≃ₗᵢ[ℝ] E3) (k l : Fin 3) :
    ∑ i, matOf R.toLinearEquiv.toLinearMap i k * matOf R.toLinearEquiv.toLinearMap i l
      = if k = l then 1 else 0 := by
  have hin : inner ℝ (R (EuclideanSpace.single k (1:ℝ))) (R (EuclideanSpace.single l (1:ℝ)))
      = inner ℝ (EuclideanSpace.single k (1:ℝ)) (EuclideanSpace.single l (1:ℝ)) :=
    R.inner_map_map _ _
  rw [EuclideanSpace.inner_single_left, PiLp.single_apply, PiLp.inner_apply] at hin
  have e : ∑ i, matOf R.toLinearEquiv.toLinearMap i k * matOf R.toLinearEquiv.toLinearMap i l
      = ∑ i, inner ℝ ((R (EuclideanSpace.single k (1:ℝ))) i) ((R (EuclideanSpace.single l (1:ℝ))) i) :=
    sum_congr rfl fun i _ => by simp [matOf, mul_comm]
  rw [e, hin]
  by_cases h : k = l <;> simp [h]

/-- **components of a covariant rank-2 tensor**: if `B'(R u, R v) = B(u, v)` for the linear part `R`
of `g` then `B'(e_i, e_j) = Σ_kl M_ik M_jl B(e_k, e_l)`, `M = matOf (linPart g)` -/
theorem Bilin2.comp_of_moved (g : E3 ≃ᵃⁱ[ℝ] E3) {B' B : E3 → E3 → ℝ} (hB : Bilin2 B)
    (h : ∀ u v, B' (g.linearIsometryEquiv u) (g.linearIsometryEquiv v) = B u v) (i j : Fin 3) :
    B' (ei i) (ei j)
      = ∑ k : Fin 3, ∑ l : Fin 3, matOf (linPart g) i k * matOf (linPart g) j l * B (ei k) (ei l) := by
  have h1 := h (g.linearIsometryEquiv.symm (ei i)) (g.linearIsometryEquiv.symm (ei j))
  rw [LinearIsometryEquiv.apply_symm_apply, LinearIsometryEquiv.apply_symm_apply] at h1
  rw [h1, hB.expand]
  simp only [symm_ei_apply]

/-- **the trace of a covariant rank-2 tensor is invariant** -/
theorem Bilin2.trace_of_moved (g : E3 ≃ᵃⁱ[ℝ] E3) {B' B : E3 → E3 → ℝ} (hB : Bilin2 B)
    (h : ∀ u v, B' (g.linearIsometryEquiv u) (g.linearIsometryEquiv v) = B u v) :
    ∑ i : Fin 3, B' (ei i) (ei i) = ∑ k : Fin 3, B (ei k) (ei k) := by
  simp only [hB.comp_of_moved g h]
  rw [sum_comm]
  refine sum_congr rfl fun k _ => ?_
  rw [sum_comm]
  have e : ∀ l : Fin 3, ∑ i : Fin 3, matOf (linPart g) i k * matOf (linPart g) i l * B (ei k) (ei l)
      = (if k = l then 1 else 0) * B (ei k) (ei l) := fun l => by
    rw [← sum_mul]
    congr 1
    exact matOf_orthogonal_col g.linearIsometryEquiv k l
  simp only [e]
  simp

/-- **components of a covariant vector**: `L'(R v) = L(v)` gives `L'(e_i) = Σ_k M_ik L(e_k)` -/
theorem comp_of_moved_vec (g : E3 ≃ᵃⁱ[ℝ] E3) (L' L : E3 →L[ℝ] ℝ)
    (h : ∀ v, L' (g.linearIsometryEquiv v) = L v) (i : Fin 3) :
    L' (ei i) = ∑ k : Fin 3, matOf (linPart g) i k * L (ei k) := by
  have h1 := h (g.linearIsometryEquiv.symm (ei i))
  rw [LinearIsometryEquiv.apply_symm_apply] at h1
  rw [h1, clm_expand L]
  simp only [← symm_ei_apply, ei_eq_eAx]

/-! ## 6. Components of gradient and Hessian; the Laplacian -/

/-- **C12, gradient of the density** (components): `∂_i ρ'(g x) = Σ_k M_ik ∂_k ρ(x)`,
`M = matOf (linPart g)` the rotation matrix -/
theorem gradient_moved_comp (g : E3 ≃ᵃⁱ[ℝ] E3) (b : Basis ℝ) (hb : b.Movable) (γ γ' : ℕ → ℕ → ℝ)
    (hγ : CongrBy b.total (basisRep b (linPart g)) γ γ') (x : E3) (i : Fin 3) :
    fderiv ℝ (rhoE (b.moved g) γ') (g x) (ei i)
      = ∑ k : Fin 3, matOf (linPart g) i k * fderiv ℝ (rhoE b γ) x (ei k) :=
  comp_of_moved_vec g _ _ (gradient_moved g b hb γ γ' hγ x) i

theorem bilin2_hessian (f : E3 → ℝ) (x : E3) : Bilin2 fun u v => fderiv ℝ (fderiv ℝ f) x u v :=
  ⟨fderiv ℝ (fderiv ℝ f) x, fun _ _ => rfl⟩

/-- **C12, Hessian of the density** (components): `∂_i∂_j ρ'(g x) = Σ_kl M_ik M_jl ∂_k∂_l ρ(x)` -/
theorem hessian_moved_comp (g : E3 ≃ᵃⁱ[ℝ] E3) (b : Basis ℝ) (hb : b.Movable) (γ γ' : ℕ → ℕ → ℝ)
    (hγ : CongrBy b.total (basisRep b (linPart g)) γ γ') (x : E3) (i j : Fin 3) :
    fderiv ℝ (fderiv ℝ (rhoE (b.moved g) γ')) (g x) (ei i) (ei j)
      = ∑ k : Fin 3, ∑ l : Fin 3, matOf (linPart g) i k * matOf (linPart g) j l
          * fderiv ℝ (fderiv ℝ (rhoE b γ)) x (ei k) (ei l) :=
  (bilin2_hessian (rhoE b γ) x).comp_of_moved g
    (B' := fun u v => fderiv ℝ (fderiv ℝ (rhoE (b.moved g) γ')) (g x) u v)
    (hessian_moved g b hb γ γ' hγ x) i j

/-- the Laplacian as the sum of the three second partial derivatives -/
def lapE (f : E3 → ℝ) (x : E3) : ℝ := ∑ k : Fin 3, fderiv ℝ (fderiv ℝ f) x (ei k) (ei k)

open Laplacian in
/-- `lapE` is Mathlib's Laplacian -/
theorem lapE_eq_laplacian (f : E3 → ℝ) (x : E3) : lapE f x = (Δ f) x := by
  rw [InnerProductSpace.laplacian_eq_iteratedFDeriv_orthonormalBasis _
    (EuclideanSpace.basisFun (Fin 3) ℝ)]
  unfold lapE
  refine sum_congr rfl fun i _ => ?_
  rw [iteratedFDeriv_two_apply]
  simp [ei]

/-- **C12, Laplacian of the density**: `∇²ρ'(g x) = ∇²ρ(x)` -/
theorem laplacian_moved (g : E3 ≃ᵃⁱ[ℝ] E3) (b : Basis ℝ) (hb : b.Movable) (γ γ' : ℕ → ℕ → ℝ)
    (hγ : CongrBy b.total (basisRep b (linPart g)) γ γ') (x : E3) :
    lapE (rhoE (b.moved g) γ') (g x) = lapE (rhoE b γ) x :=
  (bilin2_hessian (rhoE b γ) x).trace_of_moved g
    (B' := fun u v => fderiv ℝ (fderiv ℝ (rhoE (b.moved g) γ')) (g x) u v)
    (hessian_moved g b hb γ γ' hγ x)

open Laplacian in
/-- the same with Mathlib's Laplacian `Δ` -/
theorem laplacian_moved' (g : E3 ≃ᵃⁱ[ℝ] E3) (b : Basis ℝ) (hb : b.Movable) (γ γ' : ℕ → ℕ → ℝ)
    (hγ : CongrBy b.total (basisRep b (linPart g)) γ γ') (x : E3) :
    (Δ (rhoE (b.moved g) γ')) (g x) = (Δ (rhoE b γ)) x := by
  rw [← lapE_eq_laplacian, ← lapE_eq_laplacian]
  exact laplacian_moved g b hb γ γ' hγ x

/-! ## 7. The bilinear tensors of first and second derivatives of the basis functions -/

/-- `Σ γ_rc (∂_u χ_r)(x) (∂_v χ_c)(x)` -/
def T11 (b : Basis ℝ) (γ : ℕ → ℕ → ℝ) (x u v : E3) : ℝ := biFn b γ (dirD u) (dirD v) x

/-- `Σ γ_rc (∂_u ∂_v χ_r)(x) χ_c(x)` -/
def T20 (b : Basis ℝ) (γ : ℕ → ℕ → ℝ) (x u v : E3) : ℝ :=
  biFn b γ (fun f => dirD u (dirD v f)) (fun f => f) x

/-- `Σ γ_rc χ_r(x) (∂_u ∂_v χ_c)(x)` -/
def T02 (b : Basis ℝ) (γ : ℕ → ℕ → ℝ) (x u v : E3) : ℝ :=
  biFn b γ (fun f => f) (fun f => dirD u (dirD v f)) x

theorem T11_moved (g : E3 ≃ᵃⁱ[ℝ] E3) (b : Basis ℝ) (hb : b.Movable) (γ γ' : ℕ → ℕ → ℝ)
    (hγ : CongrBy b.total (basisRep b (linPart g)) γ γ') (x u v : E3) :
    T11 (b.moved g) γ' (g x) (g.linearIsometryEquiv u) (g.linearIsometryEquiv v) = T11 b γ x u v :=
  biFn_moved g b hb γ γ' hγ (Compat.dirD g u) (Compat.dirD g v) x

theorem T20_moved (g : E3 ≃ᵃⁱ[ℝ] E3) (b : Basis ℝ) (hb : b.Movable) (γ γ' : ℕ → ℕ → ℝ)
    (hγ : CongrBy b.total (basisRep b (linPart g)) γ γ') (x u v : E3) :
    T20 (b.moved g) γ' (g x) (g.linearIsometryEquiv u) (g.linearIsometryEquiv v) = T20 b γ x u v :=
  biFn_moved g b hb γ γ' hγ ((Compat.dirD g u).comp (Compat.dirD g v)) (Compat.id g) x

theorem T02_moved (g : E3 ≃ᵃⁱ[ℝ] E3) (b : Basis ℝ) (hb : b.Movable) (γ γ' : ℕ → ℕ → ℝ)
    (hγ : CongrBy b.total (basisRep b (linPart g)) γ γ') (x u v : E3) :
    T02 (b.moved g) γ' (g x) (g.linearIsometryEquiv u) (g.linearIsometryEquiv v) = T02 b γ x u v :=
  biFn_moved g b hb γ γ' hγ (Compat.id g) ((Compat.dirD g u).comp (Compat.dirD g v)) x

theorem bilin2_T11 (b : Basis ℝ) (γ : ℕ → ℕ → ℝ) (x : E3) : Bilin2 (T11 b γ x) := by
  refine Bilin2.sum (range b.total) fun r _ => Bilin2.sum (range b.total) fun c _ => ?_
  exact ⟨(γ r c) • (fderiv ℝ (basisFnE b r) x).smulRight (fderiv ℝ (basisFnE b c) x),
    fun u v => by simp [dirD, mul_assoc]⟩

theorem bilin2_T20 (b : Basis ℝ) (γ : ℕ → ℕ → ℝ) (x : E3) : Bilin2 (T20 b γ x) := by
  refine Bilin2.sum (range b.total) fun r _ => Bilin2.sum (range b.total) fun c _ => ?_
  refine ⟨(γ r c * basisFnE b c x) • fderiv ℝ (fderiv ℝ (basisFnE b r)) x, fun u v => ?_⟩
  beta_reduce
  rw [dirD_dirD_apply (contDiff_basisFnE b r)]
  simp only [_root_.smul_apply, smul_eq_mul]
  ring

theorem bilin2_T02 (b : Basis ℝ) (γ : ℕ → ℕ → ℝ) (x : E3) : Bilin2 (T02 b γ x) := by
  refine Bilin2.sum (range b.total) fun r _ => Bilin2.sum (range b.total) fun c _ => ?_
  refine ⟨(γ r c * basisFnE b r x) • fderiv ℝ (fderiv ℝ (basisFnE b c)) x, fun u v => ?_⟩
  beta_reduce
  rw [dirD_dirD_apply (contDiff_basisFnE b c)]
  simp only [_root_.smul_apply, smul_eq_mul]

/-! ## 8. The positive-definite kinetic-energy density -/

/-- **the positive-definite kinetic-energy density** `t₊(x) = ½ Σ_k Σ_rc γ_rc ∂_kχ_r(x) ∂_kχ_c(x)` -/
def tplusE (b : Basis ℝ) (γ : ℕ → ℕ → ℝ) (x : E3) : ℝ :=
  1 / 2 * ∑ k : Fin 3, T11 b γ x (ei k) (ei k)

/-- **C12, positive-definite kinetic-energy density**: `t₊'(g x) = t₊(x)` -/
theorem tplus_moved (g : E3 ≃ᵃⁱ[ℝ] E3) (b : Basis ℝ) (hb : b.Movable) (γ γ' : ℕ → ℕ → ℝ)
    (hγ : CongrBy b.total (basisRep b (linPart g)) γ γ') (x : E3) :
    tplusE (b.moved g) γ' (g x) = tplusE b γ x := by
  unfold tplusE
  rw [(bilin2_T11 b γ x).trace_of_moved g (T11_moved g b hb γ γ' hγ x)]

/-! ## 9. The stress tensor -/

/-- **the stress tensor as a bilinear form** in two vectors `u`, `v` (parameters `α`, `β`):
`σ(u,v) = -½ [α (T11(u,v) + T11(v,u)) - (1-α)(T20(u,v) + T02(u,v))] - ½ ⟨u,v⟩ β ∇²ρ`;
`σ(e_i, e_j)` is the documented component `σ_ij` (`stressE_comp`, `stressForm_eq_stressE`) -/
def stressE (b : Basis ℝ) (γ : ℕ → ℕ → ℝ) (α β : ℝ) (x u v : E3) : ℝ :=
  -(1 / 2 : ℝ) * (α * (T11 b γ x u v + T11 b γ x v u) - (1 - α) * (T20 b γ x u v + T02 b γ x u v))
    - (1 / 2 : ℝ) * (inner ℝ u v * β) * lapE (rhoE b γ) x

theorem bilin2_stressE (b : Basis ℝ) (γ : ℕ → ℕ → ℝ) (α β : ℝ) (x : E3) :
    Bilin2 (stressE b γ α β x) := by
  have h11 := bilin2_T11 b γ x
  have h20 := bilin2_T20 b γ x
  have h02 := bilin2_T02 b γ x
  exact ((((h11.add h11.swap).const_mul α).sub ((h20.add h02).const_mul (1 - α))).const_mul
    (-(1 / 2 : ℝ))).sub (((Bilin2.inner.mul_const β).const_mul (1 / 2)).mul_const _)

/-- **C12, stress tensor** (vector form): `σ'(g x)(R u, R v) = σ(x)(u, v)` -/
theorem stress_moved (g : E3 ≃ᵃⁱ[ℝ] E3) (b : Basis ℝ) (hb : b.Movable) (γ γ' : ℕ → ℕ → ℝ)
    (hγ : CongrBy b.total (basisRep b (linPart g)) γ γ') (α β : ℝ) (x u v : E3) :
    stressE (b.moved g) γ' α β (g x) (g.linearIsometryEquiv u) (g.linearIsometryEquiv v)
      = stressE b γ α β x u v := by
  unfold stressE
  rw [T11_moved g b hb γ γ' hγ, T11_moved g b hb γ γ' hγ, T20_moved g b hb γ γ' hγ,
    T02_moved g b hb γ γ' hγ, laplacian_moved g b hb γ γ' hγ, LinearIsometryEquiv.inner_map_map]

/-- **C12, stress tensor** (components): `σ'_ij(g x) = Σ_kl M_ik M_jl σ_kl(x)` -/
theorem stress_moved_comp (g : E3 ≃ᵃⁱ[ℝ] E3) (b : Basis ℝ) (hb : b.Movable) (γ γ' : ℕ → ℕ → ℝ)
    (hγ : CongrBy b.total (basisRep b (linPart g)) γ γ') (α β : ℝ) (x : E3) (i j : Fin 3) :
    stressE (b.moved g) γ' α β (g x) (ei i) (ei j)
      = ∑ k : Fin 3, ∑ l : Fin 3, matOf (linPart g) i k * matOf (linPart g) j l
          * stressE b γ α β x (ei k) (ei l) :=
  (bilin2_stressE b γ α β x).comp_of_moved g (stress_moved g b hb γ γ' hγ α β x) i j

/-! ## 10. The forms of the model (`FormsProofs`, `SmoothInstance`) for a basis -/

/-- basis function `r` as an element of the algebra `Smooth3` -/
def basisSmooth (b : Basis ℝ) (r : ℕ) : Smooth3 := ⟨basisFnE b r, contDiff_basisFnE b r⟩

/-- the first `n` basis functions as a family in `Smooth3` -/
def basisFam (b : Basis ℝ) (n : ℕ) : Fin n → Smooth3 := fun a => basisSmooth b a

/-- the leading `n × n` block of a matrix -/
def finMat (n : ℕ) (γ : ℕ → ℕ → ℝ) : Fin n → Fin n → ℝ := fun a c => γ a c

/-- the value of a form of the model (interpreted in `Smooth3` with the genuine partial derivatives
`pd`) for the first `n` basis functions of `b` and the density matrix `γ` -/
def evalB (b : Basis ℝ) (n : ℕ) (γ : ℕ → ℕ → ℝ) (f : Form) : E3 → ℝ :=
  (Form.evalA pd (basisFam b n) (finMat n γ) f).1

/-- **the value of a form of the model for the basis `b` and the density matrix `γ`** -/
def formVal (b : Basis ℝ) (γ : ℕ → ℕ → ℝ) (f : Form) : E3 → ℝ := evalB b b.total γ f

theorem formVal_moved_eq (g : E3 ≃ᵃⁱ[ℝ] E3) (b : Basis ℝ) (γ : ℕ → ℕ → ℝ) (f : Form) :
    formVal (b.moved g) γ f = evalB (b.moved g) b.total γ f := by
  unfold formVal
  rw [Basis.moved_total]

theorem contDiff_evalB (b : Basis ℝ) (n : ℕ) (γ : ℕ → ℕ → ℝ) (f : Form) :
    ContDiff ℝ ∞ (evalB b n γ f) := smooth_contDiff _

theorem sum_fin_fin (n : ℕ) (F : ℕ → ℕ → ℝ) :
    ∑ a : Fin n, ∑ c : Fin n, F a c = ∑ r ∈ range n, ∑ c ∈ range n, F r c := by
  rw [← Fin.sum_univ_eq_sum_range (fun r => ∑ c ∈ range n, F r c) n]
  exact sum_congr rfl fun a _ => Fin.sum_univ_eq_sum_range (fun c => F a c) n

/-- the symbols `D(p; q)` of the basis -/
theorem DFun_basisFam (b : Basis ℝ) (n : ℕ) (hn : n = b.total) (γ : ℕ → ℕ → ℝ) (p q : Comp) (x : E3) :
    DFun (basisFam b n) (finMat n γ) p q x = biFn b γ (dpowFun p) (dpowFun q) x := by
  subst hn
  exact sum_fin_fin b.total
    (fun r c => γ r c * dpowFun p (basisFnE b r) x * dpowFun q (basisFnE b c) x)

theorem rhoFun_basisFam (b : Basis ℝ) (n : ℕ) (hn : n = b.total) (γ : ℕ → ℕ → ℝ) :
    rhoFun (basisFam b n) (finMat n γ) = rhoE b γ := by
  subst hn
  funext x
  exact sum_fin_fin b.total (fun r c => γ r c * basisFnE b r x * basisFnE b c x)

theorem biFn_congr (b : Basis ℝ) (γ : ℕ → ℕ → ℝ) {P P₂ Q Q₂ : (E3 → ℝ) → E3 → ℝ}
    (hP : ∀ f, ContDiff ℝ ∞ f → P f = P₂ f) (hQ : ∀ f, ContDiff ℝ ∞ f → Q f = Q₂ f) (x : E3) :
    biFn b γ P Q x = biFn b γ P₂ Q₂ x := by
  unfold biFn
  simp only [hP _ (contDiff_basisFnE b _), hQ _ (contDiff_basisFnE b _)]

theorem dpowFun_e_eq (i : Fin 3) (f : E3 → ℝ) : dpowFun (e i) f = dirD (ei i) f := dpowFun_e i f

theorem dpowFun_ee_eq (i j : Fin 3) (f : E3 → ℝ) (hf : ContDiff ℝ ∞ f) :
    dpowFun (e i + e j) f = dirD (ei i) (dirD (ei j) f) := by
  have h := dpow_coe (e i + e j) (⟨f, hf⟩ : Smooth3)
  rw [← d_dpow pd_comm j, dpow_e pd_comm, pd_comm] at h
  funext x
  rw [← h, pd_pd_apply, dirD_dirD_apply hf]

theorem SymmG_finMat (n : ℕ) (γ : ℕ → ℕ → ℝ) (hs : ∀ r < n, ∀ c < n, γ r c = γ c r) :
    SymmG (finMat n γ) := fun a c => hs a a.2 c c.2

/-- the density form is the density -/
theorem evalB_rho (b : Basis ℝ) (n : ℕ) (hn : n = b.total) (γ : ℕ → ℕ → ℝ) :
    (rho pd (basisFam b n) (finMat n γ)).1 = rhoE b γ := by
  rw [rho_coe, rhoFun_basisFam b n hn]

theorem evalB_gradient (b : Basis ℝ) (n : ℕ) (hn : n = b.total) (γ : ℕ → ℕ → ℝ)
    (hs : ∀ r < n, ∀ c < n, γ r c = γ c r) (i : Fin 3) (x : E3) :
    evalB b n γ (gradientForm i) x = fderiv ℝ (rhoE b γ) x (ei i) := by
  unfold evalB
  rw [gradient_pointwise (SymmG_finMat n γ hs) i x, ← rhoFun_basisFam b n hn]
  rfl

theorem evalB_hessian (b : Basis ℝ) (n : ℕ) (hn : n = b.total) (γ : ℕ → ℕ → ℝ)
    (hs : ∀ r < n, ∀ c < n, γ r c = γ c r) (i j : Fin 3) (x : E3) :
    evalB b n γ (hessianForm i j) x = fderiv ℝ (fderiv ℝ (rhoE b γ)) x (ei i) (ei j) := by
  unfold evalB
  rw [hessian_pointwise' (SymmG_finMat n γ hs) i j x, rhoFun_basisFam b n hn]

theorem lap_sum_eq (b : Basis ℝ) (n : ℕ) (hn : n = b.total) (γ : ℕ → ℕ → ℝ) (x : E3) :
    ∑ k : Fin 3, pdFun k (pdFun k (rhoFun (basisFam b n) (finMat n γ))) x = lapE (rhoE b γ) x := by
  rw [rhoFun_basisFam b n hn]
  unfold lapE
  exact sum_congr rfl fun k _ => dirD_dirD_apply (contDiff_rhoE b γ) (ei k) (ei k) x

theorem evalB_laplacian (b : Basis ℝ) (n : ℕ) (hn : n = b.total) (γ : ℕ → ℕ → ℝ)
    (hs : ∀ r < n, ∀ c < n, γ r c = γ c r) (x : E3) :
    evalB b n γ laplacianForm x = lapE (rhoE b γ) x := by
  unfold evalB
  rw [laplacian_eq pd_comm (SymmG_finMat n γ hs), lap_apply, lap_sum_eq b n hn]

theorem evalB_posdef (b : Basis ℝ) (n : ℕ) (hn : n = b.total) (γ : ℕ → ℕ → ℝ) (x : E3) :
    evalB b n γ posdefForm x = tplusE b γ x := by
  subst hn
  unfold evalB tplusE
  rw [posdefKE_pointwise]
  congr 1
  refine sum_congr rfl fun k _ => ?_
  exact sum_fin_fin b.total (fun r c => γ r c * fderiv ℝ (basisFnE b r) x (ei k)
    * fderiv ℝ (basisFnE b c) x (ei k))

theorem evalB_generalKE (b : Basis ℝ) (n : ℕ) (hn : n = b.total) (γ : ℕ → ℕ → ℝ)
    (hs : ∀ r < n, ∀ c < n, γ r c = γ c r) (α : ℚ) (x : E3) :
    evalB b n γ (generalKEForm α) x = tplusE b γ x + (α : ℝ) * lapE (rhoE b γ) x := by
  rw [← evalB_posdef b n hn γ x]
  unfold evalB
  rw [generalKE_pointwise (SymmG_finMat n γ hs), lap_sum_eq b n hn]

theorem inner_ei (i j : Fin 3) : inner ℝ (ei i) (ei j) = if i = j then (1 : ℝ) else 0 := by
  unfold ei
  rw [EuclideanSpace.inner_single_left, PiLp.single_apply]
  by_cases h : i = j <;> simp [h]

/-- **the stress form of the model is the bilinear form `stressE` on the standard basis vectors** -/
theorem evalB_stress (b : Basis ℝ) (n : ℕ) (hn : n = b.total) (γ : ℕ → ℕ → ℝ)
    (hs : ∀ r < n, ∀ c < n, γ r c = γ c r) (α β : ℚ) (i j : Fin 3) (x : E3) :
    evalB b n γ (stressForm α β i j) x = stressE b γ α β x (ei i) (ei j) := by
  unfold evalB
  rw [stress_pointwise (SymmG_finMat n γ hs), lap_sum_eq b n hn, DFun_basisFam b n hn,
    DFun_basisFam b n hn, DFun_basisFam b n hn, DFun_basisFam b n hn]
  unfold stressE T11 T20 T02
  rw [inner_ei,
    biFn_congr b γ (fun f _ => dpowFun_e_eq i f) (fun f _ => dpowFun_e_eq j f),
    biFn_congr b γ (fun f _ => dpowFun_e_eq j f) (fun f _ => dpowFun_e_eq i f),
    biFn_congr b γ (fun f hf => dpowFun_ee_eq i j f hf) (fun f _ => dpowFun_zero f),
    biFn_congr b γ (fun f _ => dpowFun_zero f) (fun f hf => dpowFun_ee_eq i j f hf)]

/-! ## 11. C12 for the forms of the model -/

section FormsMoved

variable (g : E3 ≃ᵃⁱ[ℝ] E3) (b : Basis ℝ) (hb : b.Movable) (γ γ' : ℕ → ℕ → ℝ)
  (hγ : CongrBy b.total (basisRep b (linPart g)) γ γ')

include hb hγ

/-- **C12, `evaluate_density`** (the density form `D(0;0)`): invariant, for an arbitrary matrix `γ'` -/
theorem densityForm_moved (x : E3) :
    formVal (b.moved g) γ' densityForm (g x) = formVal b γ densityForm x := by
  have e : ∀ (b₁ : Basis ℝ) (n : ℕ) (γ₁ : ℕ → ℕ → ℝ), evalB b₁ n γ₁ densityForm
      = (rho pd (basisFam b₁ n) (finMat n γ₁)).1 := by
    intro b₁ n γ₁
    simp [evalB, Form.evalA, densityForm, rho, Comp.zero_eq]
  rw [formVal_moved_eq, e, evalB_rho _ _ (Basis.moved_total b g).symm, formVal, e,
    evalB_rho _ _ rfl]
  exact rho_moved g b hb γ γ' hγ x

/-- **C12, `evaluate_posdef_kinetic_energy_density`**: invariant, for an arbitrary matrix `γ'` -/
theorem posdefForm_moved (x : E3) :
    formVal (b.moved g) γ' posdefForm (g x) = formVal b γ posdefForm x := by
  rw [formVal_moved_eq, evalB_posdef _ _ (Basis.moved_total b g).symm, formVal,
    evalB_posdef _ _ rfl]
  exact tplus_moved g b hb γ γ' hγ x

variable (hs' : ∀ r < b.total, ∀ c < b.total, γ' r c = γ' c r)

include hs'

/-- **C12, `evaluate_density_gradient`**: `(∇ρ)'_i(g x) = Σ_k M_ik (∇ρ)_k(x)`.  The forms of the model
are those of a symmetric density matrix, hence the hypothesis `hs'` (then `γ` is symmetric too). -/
theorem gradientForm_moved (i : Fin 3) (x : E3) :
    formVal (b.moved g) γ' (gradientForm i) (g x)
      = ∑ k : Fin 3, matOf (linPart g) i k * formVal b γ (gradientForm k) x := by
  have hs := hγ.symm_of_symm hs'
  rw [formVal_moved_eq, evalB_gradient _ _ (Basis.moved_total b g).symm _ hs',
    gradient_moved_comp g b hb γ γ' hγ]
  simp only [formVal, evalB_gradient b _ rfl γ hs]

/-- **C12, `evaluate_density_hessian`**: `H'_ij(g x) = Σ_kl M_ik M_jl H_kl(x)` -/
theorem hessianForm_moved (i j : Fin 3) (x : E3) :
    formVal (b.moved g) γ' (hessianForm i j) (g x)
      = ∑ k : Fin 3, ∑ l : Fin 3, matOf (linPart g) i k * matOf (linPart g) j l
          * formVal b γ (hessianForm k l) x := by
  have hs := hγ.symm_of_symm hs'
  rw [formVal_moved_eq, evalB_hessian _ _ (Basis.moved_total b g).symm _ hs',
    hessian_moved_comp g b hb γ γ' hγ]
  simp only [formVal, evalB_hessian b _ rfl γ hs]

/-- **C12, `evaluate_density_laplacian`**: invariant -/
theorem laplacianForm_moved (x : E3) :
    formVal (b.moved g) γ' laplacianForm (g x) = formVal b γ laplacianForm x := by
  have hs := hγ.symm_of_symm hs'
  rw [formVal_moved_eq, evalB_laplacian _ _ (Basis.moved_total b g).symm _ hs', formVal,
    evalB_laplacian _ _ rfl _ hs]
  exact laplacian_moved g b hb γ γ' hγ x

/-- **C12, `evaluate_general_kinetic_energy_density`** (`t₊ + α ∇²ρ`): invariant -/
theorem generalKEForm_moved (α : ℚ) (x : E3) :
    formVal (b.moved g) γ' (generalKEForm α) (g x) = formVal b γ (generalKEForm α) x := by
  have hs := hγ.symm_of_symm hs'
  rw [formVal_moved_eq, evalB_generalKE _ _ (Basis.moved_total b g).symm _ hs', formVal,
    evalB_generalKE _ _ rfl _ hs, tplus_moved g b hb γ γ' hγ, laplacian_moved g b hb γ γ' hγ]

/-- **C12, `evaluate_stress_tensor`**: `σ'_ij(g x) = Σ_kl M_ik M_jl σ_kl(x)`, all `α`, `β` -/
theorem stressForm_moved (α β : ℚ) (i j : Fin 3) (x : E3) :
    formVal (b.moved g) γ' (stressForm α β i j) (g x)
      = ∑ k : Fin 3, ∑ l : Fin 3, matOf (linPart g) i k * matOf (linPart g) j l
          * formVal b γ (stressForm α β k l) x := by
  have hs := hγ.symm_of_symm hs'
  rw [formVal_moved_eq, evalB_stress _ _ (Basis.moved_total b g).symm _ hs',
    stress_moved_comp g b hb γ γ' hγ]
  simp only [formVal, evalB_stress b _ rfl γ hs]

end FormsMoved

/-! ## 12. The Ehrenfest force -/

/-- **the divergence of a covariant vector field is invariant**: if `A'_j(g x) = Σ_l M_jl A_l(x)` then
`Σ_j ∂_j A'_j (g x) = Σ_l ∂_l A_l (x)` -/
theorem div_moved (g : E3 ≃ᵃⁱ[ℝ] E3) (A' A : Fin 3 → E3 → ℝ) (hA' : ∀ j, Differentiable ℝ (A' j))
    (hA : ∀ l, Differentiable ℝ (A l))
    (h : ∀ j x, A' j (g x) = ∑ l : Fin 3, matOf (linPart g) j l * A l x) (x : E3) :
    ∑ j : Fin 3, fderiv ℝ (A' j) (g x) (ei j) = ∑ l : Fin 3, fderiv ℝ (A l) x (ei l) := by
  have e : ∀ j : Fin 3, fderiv ℝ (A' j) (g x) (ei j)
      = ∑ n : Fin 3, matOf (linPart g) j n
          * ∑ l : Fin 3, matOf (linPart g) j l * fderiv ℝ (A l) x (ei n) := fun j =>
    fderiv_moved_ax g univ (A' j) A (matOf (linPart g) j) (h j) (hA' j) hA x j
  simp only [e, mul_sum]
  rw [sum_comm]
  refine sum_congr rfl fun n _ => ?_
  rw [sum_comm]
  have e2 : ∀ l : Fin 3, ∑ j : Fin 3, matOf (linPart g) j n
        * (matOf (linPart g) j l * fderiv ℝ (A l) x (ei n))
      = (if n = l then 1 else 0) * fderiv ℝ (A l) x (ei n) := fun l => by
    rw [← matOf_orthogonal_col g.linearIsometryEquiv n l, sum_mul]
    exact sum_congr rfl fun j _ => by unfold linPart; ring
  simp only [e2]
  simp

theorem evalB_force (b : Basis ℝ) (n : ℕ) (γ : ℕ → ℕ → ℝ)
    (hs : ∀ r < n, ∀ c < n, γ r c = γ c r) (α β : ℚ) (i : Fin 3) (x : E3) :
    evalB b n γ (forceForm α β i) x
      = -∑ j : Fin 3, fderiv ℝ (evalB b n γ (stressForm α β i j)) x (ei j) :=
  force_pointwise (SymmG_finMat n γ hs) α β i x

/-- **C12, `evaluate_ehrenfest_force`**: `F'_i(g x) = Σ_k M_ik F_k(x)`, all `α`, `β` (symmetric
density matrix, as for the other forms) -/
theorem forceForm_moved (g : E3 ≃ᵃⁱ[ℝ] E3) (b : Basis ℝ) (hb : b.Movable) (γ γ' : ℕ → ℕ → ℝ)
    (hγ : CongrBy b.total (basisRep b (linPart g)) γ γ')
    (hs' : ∀ r < b.total, ∀ c < b.total, γ' r c = γ' c r) (α β : ℚ) (i : Fin 3) (x : E3) :
    formVal (b.moved g) γ' (forceForm α β i) (g x)
      = ∑ k : Fin 3, matOf (linPart g) i k * formVal b γ (forceForm α β k) x := by
  have hs := hγ.symm_of_symm hs'
  rw [formVal_moved_eq, evalB_force _ _ _ hs']
  simp only [formVal, evalB_force b _ γ hs]
  -- the covariant vector field `A_l = Σ_k M_ik σ_kl`
  have hst : ∀ (j : Fin 3) (y : E3), evalB (b.moved g) b.total γ' (stressForm α β i j) (g y)
      = ∑ l : Fin 3, matOf (linPart g) j l
          * ∑ k : Fin 3, matOf (linPart g) i k * evalB b b.total γ (stressForm α β k l) y := by
    intro j y
    have h := stressForm_moved g b hb γ γ' hγ hs' α β i j y
    rw [formVal_moved_eq] at h
    rw [h]
    simp only [formVal, mul_sum]
    rw [sum_comm]
    exact sum_congr rfl fun l _ => sum_congr rfl fun k _ => by ring
  have hd : ∀ k l : Fin 3, Differentiable ℝ (evalB b b.total γ (stressForm α β k l)) :=
    fun k l => smooth_diff (contDiff_evalB _ _ _ _)
  have hdiv := div_moved g (fun j => evalB (b.moved g) b.total γ' (stressForm α β i j))
    (fun l y => ∑ k : Fin 3, matOf (linPart g) i k * evalB b b.total γ (stressForm α β k l) y)
    (fun j => smooth_diff (contDiff_evalB _ _ _ _))
    (fun l => Differentiable.fun_sum fun k _ => (hd k l).const_mul _) hst x
  rw [hdiv]
  have e : ∀ l : Fin 3, fderiv ℝ
        (fun y => ∑ k : Fin 3, matOf (linPart g) i k * evalB b b.total γ (stressForm α β k l) y) x
      = ∑ k : Fin 3, matOf (linPart g) i k • fderiv ℝ (evalB b b.total γ (stressForm α β k l)) x :=
    fun l => (HasFDerivAt.fun_sum fun k _ => ((hd k l x).hasFDerivAt).const_mul _).fderiv
  simp only [e, _root_.sum_apply, _root_.smul_apply, smul_eq_mul, mul_neg, ← sum_neg_distrib,
    mul_sum]
  rw [sum_comm]

/-! ## 13. The Ehrenfest Hessian -/

theorem evalB_hessianRaw (b : Basis ℝ) (n : ℕ) (γ : ℕ → ℕ → ℝ)
    (hs : ∀ r < n, ∀ c < n, γ r c = γ c r) (α β : ℚ) (i j : Fin 3) (x : E3) :
    evalB b n γ (ehrenfestHessianRaw α β i j) x
      = fderiv ℝ (evalB b n γ (forceForm α β i)) x (ei j) :=
  ehrenfestHessian_pointwise (SymmG_finMat n γ hs) α β i j x

/-- **C12, Ehrenfest Hessian before symmetrisation** (the Jacobian of the force):
`H'_ij(g x) = Σ_kl M_ik M_jl H_kl(x)` -/
theorem ehrenfestHessianRaw_moved (g : E3 ≃ᵃⁱ[ℝ] E3) (b : Basis ℝ) (hb : b.Movable)
    (γ γ' : ℕ → ℕ → ℝ) (hγ : CongrBy b.total (basisRep b (linPart g)) γ γ')
    (hs' : ∀ r < b.total, ∀ c < b.total, γ' r c = γ' c r) (α β : ℚ) (i j : Fin 3) (x : E3) :
    formVal (b.moved g) γ' (ehrenfestHessianRaw α β i j) (g x)
      = ∑ k : Fin 3, ∑ l : Fin 3, matOf (linPart g) i k * matOf (linPart g) j l
          * formVal b γ (ehrenfestHessianRaw α β k l) x := by
  have hs := hγ.symm_of_symm hs'
  rw [formVal_moved_eq, evalB_hessianRaw _ _ _ hs']
  simp only [formVal, evalB_hessianRaw b _ γ hs]
  have hF : ∀ y, evalB (b.moved g) b.total γ' (forceForm α β i) (g y)
      = ∑ k : Fin 3, matOf (linPart g) i k * evalB b b.total γ (forceForm α β k) y := by
    intro y
    have h := forceForm_moved g b hb γ γ' hγ hs' α β i y
    rwa [formVal_moved_eq] at h
  have h := fderiv_moved_ax g univ (evalB (b.moved g) b.total γ' (forceForm α β i))
    (fun k : Fin 3 => evalB b b.total γ (forceForm α β k)) (matOf (linPart g) i) hF
    (smooth_diff (contDiff_evalB _ _ _ _)) (fun k => smooth_diff (contDiff_evalB _ _ _ _)) x j
  rw [ei_eq_eAx, h]
  simp only [mul_sum, ei_eq_eAx]
  rw [sum_comm]
  exact sum_congr rfl fun k _ => sum_congr rfl fun l _ => by ring

theorem evalB_hessianForm_false (b : Basis ℝ) (n : ℕ) (γ : ℕ → ℕ → ℝ) (α β : ℚ) (i j : Fin 3)
    (x : E3) :
    evalB b n γ (ehrenfestHessianForm α β false i j) x
      = evalB b n γ (ehrenfestHessianRaw α β i j) x := by
  unfold evalB
  rw [ehrenfest_hessian_unsymmetrised]

theorem evalB_hessianForm_true (b : Basis ℝ) (n : ℕ) (γ : ℕ → ℕ → ℝ) (α β : ℚ) (i j : Fin 3)
    (x : E3) :
    evalB b n γ (ehrenfestHessianForm α β true i j) x
      = 1 / 2 * (evalB b n γ (ehrenfestHessianRaw α β i j) x
          + evalB b n γ (ehrenfestHessianRaw α β j i) x) := by
  unfold evalB
  rw [ehrenfest_hessian_symmetrised, ← evalAt_apply, map_smul, map_add]
  rfl

/-- **C12, `evaluate_ehrenfest_hessian`** (`symmetric = False` and `symmetric = True`) -/
theorem ehrenfestHessianForm_moved (g : E3 ≃ᵃⁱ[ℝ] E3) (b : Basis ℝ) (hb : b.Movable)
    (γ γ' : ℕ → ℕ → ℝ) (hγ : CongrBy b.total (basisRep b (linPart g)) γ γ')
    (hs' : ∀ r < b.total, ∀ c < b.total, γ' r c = γ' c r) (α β : ℚ) (sym : Bool) (i j : Fin 3)
    (x : E3) :
    formVal (b.moved g) γ' (ehrenfestHessianForm α β sym i j) (g x)
      = ∑ k : Fin 3, ∑ l : Fin 3, matOf (linPart g) i k * matOf (linPart g) j l
          * formVal b γ (ehrenfestHessianForm α β sym k l) x := by
  have hraw := ehrenfestHessianRaw_moved g b hb γ γ' hγ hs' α β
  cases sym with
  | false =>
    have e : ∀ (b₁ : Basis ℝ) (γ₁ : ℕ → ℕ → ℝ) (k l : Fin 3) (y : E3),
        formVal b₁ γ₁ (ehrenfestHessianForm α β false k l) y
          = formVal b₁ γ₁ (ehrenfestHessianRaw α β k l) y :=
      fun b₁ γ₁ k l y => evalB_hessianForm_false b₁ _ γ₁ α β k l y
    simp only [e]
    exact hraw i j x
  | true =>
    have e : ∀ (b₁ : Basis ℝ) (γ₁ : ℕ → ℕ → ℝ) (k l : Fin 3) (y : E3),
        formVal b₁ γ₁ (ehrenfestHessianForm α β true k l) y
          = 1 / 2 * (formVal b₁ γ₁ (ehrenfestHessianRaw α β k l) y
              + formVal b₁ γ₁ (ehrenfestHessianRaw α β l k) y) :=
      fun b₁ γ₁ k l y => evalB_hessianForm_true b₁ _ γ₁ α β k l y
    simp only [e]
    rw [hraw i j x, hraw j i x]
    have e2 : ∑ k : Fin 3, ∑ l : Fin 3, matOf (linPart g) j k * matOf (linPart g) i l
          * formVal b γ (ehrenfestHessianRaw α β k l) x
        = ∑ k : Fin 3, ∑ l : Fin 3, matOf (linPart g) i k * matOf (linPart g) j l
          * formVal b γ (ehrenfestHessianRaw α β l k) x := by
      rw [sum_comm]
      exact sum_congr rfl fun k _ => sum_congr rfl fun l _ => by ring
    rw [e2, ← sum_add_distrib, mul_sum]
    refine sum_congr rfl fun k _ => ?_
    rw [← sum_add_distrib, mul_sum]
    exact sum_congr rfl fun l _ => by ring

/-! ## 14. Rigid motions with trivial linear part (translations): the same density matrix, and
*every* form of the model -/

theorem congrBy_of_linear_eq_id (g : E3 ≃ᵃⁱ[ℝ] E3) (hg : ∀ u, g.linearIsometryEquiv u = u)
    (b : Basis ℝ) (hb : b.Movable) (γ : ℕ → ℕ → ℝ) :
    CongrBy b.total (basisRep b (linPart g)) γ γ :=
  CongrBy.of_one γ fun r hr r' hr' => basisRep_of_linear_eq_id g hg b hb r r' hr hr'

theorem congrBy_translation (v : E3) (b : Basis ℝ) (hb : b.Movable) (γ : ℕ → ℕ → ℝ) :
    CongrBy b.total (basisRep b (linPart (translation v))) γ γ :=
  congrBy_of_linear_eq_id _ (translation_linear v) b hb γ

/-- **translation invariance of the density**, same density matrix -/
theorem rho_translate (v : E3) (b : Basis ℝ) (hb : b.Movable) (γ : ℕ → ℕ → ℝ) (x : E3) :
    rhoE (b.moved (translation v)) γ (v + x) = rhoE b γ x :=
  rho_moved (translation v) b hb γ γ (congrBy_translation v b hb γ) x

/-- **translation invariance of the gradient of the density** -/
theorem gradient_translate (v : E3) (b : Basis ℝ) (hb : b.Movable) (γ : ℕ → ℕ → ℝ) (x w : E3) :
    fderiv ℝ (rhoE (b.moved (translation v)) γ) (v + x) w = fderiv ℝ (rhoE b γ) x w := by
  have h := gradient_moved (translation v) b hb γ γ (congrBy_translation v b hb γ) x w
  rwa [translation_linear] at h

/-- **translation invariance of the Hessian of the density** -/
theorem hessian_translate (v : E3) (b : Basis ℝ) (hb : b.Movable) (γ : ℕ → ℕ → ℝ) (x u w : E3) :
    fderiv ℝ (fderiv ℝ (rhoE (b.moved (translation v)) γ)) (v + x) u w
      = fderiv ℝ (fderiv ℝ (rhoE b γ)) x u w := by
  have h := hessian_moved (translation v) b hb γ γ (congrBy_translation v b hb γ) x u w
  rwa [translation_linear, translation_linear] at h

/-- **translation invariance of the Laplacian of the density** -/
theorem laplacian_translate (v : E3) (b : Basis ℝ) (hb : b.Movable) (γ : ℕ → ℕ → ℝ) (x : E3) :
    lapE (rhoE (b.moved (translation v)) γ) (v + x) = lapE (rhoE b γ) x :=
  laplacian_moved (translation v) b hb γ γ (congrBy_translation v b hb γ) x

/-- **translation invariance of the positive-definite kinetic-energy density** -/
theorem tplus_translate (v : E3) (b : Basis ℝ) (hb : b.Movable) (γ : ℕ → ℕ → ℝ) (x : E3) :
    tplusE (b.moved (translation v)) γ (v + x) = tplusE b γ x :=
  tplus_moved (translation v) b hb γ γ (congrBy_translation v b hb γ) x

/-- **translation invariance of the stress tensor** -/
theorem stress_translate (v : E3) (b : Basis ℝ) (hb : b.Movable) (γ : ℕ → ℕ → ℝ) (α β : ℝ)
    (x u w : E3) :
    stressE (b.moved (translation v)) γ α β (v + x) u w = stressE b γ α β x u w := by
  have h := stress_moved (translation v) b hb γ γ (congrBy_translation v b hb γ) α β x u w
  rwa [translation_linear, translation_linear] at h

/-! ### every form -/

theorem Compat.iterate {g : E3 ≃ᵃⁱ[ℝ] E3} {P' P : (E3 → ℝ) → E3 → ℝ} (h : Compat g P' P) :
    ∀ n : ℕ, Compat g (P'^[n]) (P^[n])
  | 0 => Compat.id g
  | n + 1 => (Compat.iterate h n).comp h

theorem Compat.pdFun_of_linear_eq_id (g : E3 ≃ᵃⁱ[ℝ] E3) (hg : ∀ u, g.linearIsometryEquiv u = u)
    (i : Fin 3) : Compat g (pdFun i) (pdFun i) := by
  have h := Compat.dirD g (ei i)
  rw [hg] at h
  exact h

/-- every mixed partial derivative commutes with a rigid motion with trivial linear part -/
theorem Compat.dpowFun_of_linear_eq_id (g : E3 ≃ᵃⁱ[ℝ] E3) (hg : ∀ u, g.linearIsometryEquiv u = u)
    (p : Comp) : Compat g (dpowFun p) (dpowFun p) :=
  ((Compat.pdFun_of_linear_eq_id g hg 0).iterate p.1).comp
    (((Compat.pdFun_of_linear_eq_id g hg 1).iterate p.2.1).comp
      ((Compat.pdFun_of_linear_eq_id g hg 2).iterate p.2.2))

/-- the value of a form as the list sum of its terms `c · D(p; q)` -/
theorem evalB_eq_sum (b : Basis ℝ) (n : ℕ) (hn : n = b.total) (γ : ℕ → ℕ → ℝ) (f : Form) (x : E3) :
    evalB b n γ f x
      = (f.map fun t => (t.1 : ℝ) * biFn b γ (dpowFun t.2.1) (dpowFun t.2.2) x).sum := by
  induction f with
  | nil => rfl
  | cons t f ih =>
    rw [List.map_cons, List.sum_cons, ← ih, ← DFun_basisFam b n hn]
    unfold evalB
    rw [evalA_cons, ← evalAt_apply, map_add, map_smul, evalAt_apply, evalAt_apply, Dsym_coe]
    rfl

/-- **C12 for translations (and every rigid motion with trivial linear part), every form of the
model** (density, gradient, Laplacian, Hessian, kinetic-energy densities, stress tensor, Ehrenfest
force and Hessian, `evaluate_deriv_density` of any order, …): the value at the moved point for the
moved basis with the *same*, arbitrary, matrix `γ` is the value at the original point. -/
theorem formVal_moved_of_linear_eq_id (g : E3 ≃ᵃⁱ[ℝ] E3) (hg : ∀ u, g.linearIsometryEquiv u = u)
    (b : Basis ℝ) (hb : b.Movable) (γ : ℕ → ℕ → ℝ) (f : Form) (x : E3) :
    formVal (b.moved g) γ f (g x) = formVal b γ f x := by
  rw [formVal_moved_eq, evalB_eq_sum _ _ (Basis.moved_total b g).symm, formVal,
    evalB_eq_sum _ _ rfl]
  congr 1
  refine List.map_congr_left fun t _ => ?_
  rw [biFn_moved g b hb γ γ (congrBy_of_linear_eq_id g hg b hb γ)
    (Compat.dpowFun_of_linear_eq_id g hg t.2.1) (Compat.dpowFun_of_linear_eq_id g hg t.2.2) x]

/-- **translation invariance of every form of the model** -/
theorem formVal_translate (v : E3) (b : Basis ℝ) (hb : b.Movable) (γ : ℕ → ℕ → ℝ) (f : Form)
    (x : E3) : formVal (b.moved (translation v)) γ f (v + x) = formVal b γ f x :=
  formVal_moved_of_linear_eq_id (translation v) (translation_linear v) b hb γ f x

end

end GB
