import GBProofs.ArrayContraction
import GBProofs.Layout14
import GBProofs.Reorder

/-!
# C13 for the one-index (evaluation) arrays and the four-index electron-repulsion array

Same statements as in `ArrayContraction.lean`, for `entry1 b (oneBlocks b nextra blk) r e` /
`assemble1` and for `entry4 b b b b (quartetBlocks b b b b blk) r1 r2 r3 r4` / `assemble4`.

The work is organised by two independent ingredients:

* `ShellOp s₀ new lam mu` — what replacing the functions `(s₀, m)` by `new m = (shell, segment)` does:
  same frame, exponents among those of `s₀`, contraction norm multiplied by `lam m`, and **every** entry
  that is a contraction over the primitives (`SlotLinearOn`) multiplied by `mu m` (`OpLaw`).  The four
  operations: `shellOp_column`, `shellOp_permPrims`, `shellOp_splitPrim`, `shellOp_scaleColumn`.
* `BlockLaws1 P B e`, `BlockLaws4 P B` — every entry of the block is such a contraction, in every slot.

`entry1_replaced`, `entry4_replaced` combine the two with the layout fact `Replaced`.
-/
namespace GB
open Finset

/-! ## The four operations, once -/
section Ops

/-- the effect of replacing the functions `(s₀, m)` by `new m` on every entry that is a contraction over
the primitives of the shell: multiplication by `mu m` -/
def OpLaw (s₀ : Shell ℝ) (new : ℕ → Shell ℝ × ℕ) (mu : ℕ → ℝ) : Prop :=
  ∀ (ok : Shell ℝ → ℕ → Prop) (E : Shell ℝ → ℕ → ℕ → ℝ),
    SlotLinearOn Real.exp Real.sqrt Real.pi ok E →
      ∀ m < s₀.nseg, ∀ a, ok s₀ a → ok (new m).1 a → E (new m).1 (new m).2 a = mu m * E s₀ m a

/-- an operation on the shell `s₀` -/
structure ShellOp (s₀ : Shell ℝ) (new : ℕ → Shell ℝ × ℕ) (lam mu : ℕ → ℝ) : Prop where
  frame : ∀ m < s₀.nseg, (new m).1.frame = s₀.frame
  expsIn : ∀ m < s₀.nseg, (new m).1.ExpsIn Real.exp Real.sqrt Real.pi s₀
  norm : ∀ m < s₀.nseg, ∀ a < s₀.ncart,
    (normCont (new m).1).get2 (new m).2 a = lam m * (normCont s₀).get2 m a
  law : OpLaw s₀ new mu

theorem shellOp_column (s : Shell ℝ) :
    ShellOp s (fun m => (s.column m, 0)) (fun _ => 1) (fun _ => 1) where
  frame := fun _ _ => rfl
  expsIn := fun m _ => column_expsIn Real.exp Real.sqrt Real.pi s m
  norm := fun m _ a _ => by rw [one_mul]; exact normCont_column s m a
  law := fun ok E h m _ a h0 h1 => by rw [one_mul]; exact h.column s m a h0 h1

theorem shellOp_permPrims (s : Shell ℝ) (σ : ℕ → ℕ) (hmap : ∀ k < s.nprim, σ k < s.nprim)
    (hinj : ∀ k < s.nprim, ∀ k' < s.nprim, σ k = σ k' → k = k') :
    ShellOp s (fun m => (s.permPrims σ, m)) (fun _ => 1) (fun _ => 1) where
  frame := fun _ _ => rfl
  expsIn := fun _ _ => permPrims_expsIn Real.exp Real.sqrt Real.pi s σ hmap
  norm := fun m _ a _ => by rw [one_mul]; exact normCont_permPrims s σ m a hmap hinj
  law := fun ok E h m _ a h0 h1 => by rw [one_mul]; exact h.permPrims s σ m a h0 h1 hmap hinj

theorem shellOp_splitPrim (s : Shell ℝ) (j : ℕ) (x : ℝ) (hj : j < s.nprim) :
    ShellOp s (fun m => (s.splitPrim j x, m)) (fun _ => 1) (fun _ => 1) where
  frame := fun _ _ => rfl
  expsIn := fun _ _ => splitPrim_expsIn Real.exp Real.sqrt Real.pi s j x hj
  norm := fun m _ a _ => by rw [one_mul]; exact normCont_splitPrim s j x m a hj
  law := fun ok E h m _ a h0 h1 => by rw [one_mul]; exact h.splitPrim s j x m a h0 h1 hj

theorem shellOp_scaleColumn (s : Shell ℝ) (m₀ : ℕ) (x : ℝ) (hn : s.unitNorm = true) :
    ShellOp s (fun m => (s.scaleColumn m₀ x, m)) (fun m => if m = m₀ then 1 / |x| else 1)
      (fun m => if m = m₀ then x else 1) where
  frame := fun _ _ => rfl
  expsIn := fun _ _ => scaleColumn_expsIn Real.exp Real.sqrt Real.pi s m₀ x
  norm := fun m _ a _ => normCont_scaleColumn s m₀ x m a hn
  law := fun ok E h m _ a h0 h1 => by
    have := h.scaleColumn s m₀ x m a h0 h1
    show E (s.scaleColumn m₀ x) m a = (if m = m₀ then x else 1) * E s m a
    by_cases hm : m = m₀
    · rw [this, if_pos hm, if_pos hm]
    · rw [this, if_neg hm, if_neg hm, one_mul]

/-- the factor by which a function of column `m₀` changes when the column is multiplied by `x` -/
theorem scale_factor (x : ℝ) (m m₀ : ℕ) :
    (if m = m₀ then 1 / |x| else 1) * (if m = m₀ then x else 1)
      = if m = m₀ then x / |x| else 1 := by
  by_cases h : m = m₀ <;> simp [h, div_eq_inv_mul]

end Ops

/-! ## What `Replaced` transfers -/
section Transfer
variable {b' b : Basis ℝ} {i : ℕ} {new : ℕ → Shell ℝ × ℕ}

/-- a quantity `F shell segment component` that is multiplied by `mu m` when `(b[i], m)` is replaced
by `new m` is multiplied by `mu (segOf b r)` at the basis indices `r` of shell `i`, and unchanged
elsewhere -/
theorem Replaced.transfer (hR : Replaced b' b i new) (hi : i < b.size) (mu : ℕ → ℝ)
    (F : Shell ℝ → ℕ → ℕ → ℝ)
    (hF : ∀ m < b[i].nseg, ∀ a < b[i].ncart, F (new m).1 (new m).2 a = mu m * F b[i] m a)
    (r : ℕ) (hr : r < b.total) (a : ℕ) (ha : a < (shellOf b r).ncart) :
    F (shellOf b' r) (segOf b' r) a
      = (if (b.locate r).1 = i then mu (segOf b r) else 1) * F (shellOf b r) (segOf b r) a := by
  by_cases h : (b.locate r).1 = i
  · have hs := shellOf_at b r i h hi
    rw [if_pos h, (hR.at_i r hr h).1, (hR.at_i r hr h).2, hs]
    rw [hs] at ha
    exact hF _ (Replaced.seg_lt hi r hr h) a ha
  · rw [if_neg h, (hR.off_i r hr h).1, (hR.off_i r hr h).2, one_mul]

theorem Replaced.pred (hR : Replaced b' b i new) (hi : i < b.size) (P : Shell ℝ → Prop)
    (hPb : ∀ j (hj : j < b.size), P b[j]) (hPnew : ∀ m < b[i].nseg, P (new m).1)
    (r : ℕ) (hr : r < b.total) : P (shellOf b r) ∧ P (shellOf b' r) := by
  obtain ⟨hir, hsr, -, -⟩ := located b r hr
  have h0 : P (shellOf b r) := by rw [hsr]; exact hPb _ hir
  refine ⟨h0, ?_⟩
  by_cases h : (b.locate r).1 = i
  · rw [(hR.at_i r hr h).1]; exact hPnew _ (Replaced.seg_lt hi r hr h)
  · rw [(hR.off_i r hr h).1]; exact h0

end Transfer

/-! ## One-index arrays -/
section OneIndex

/-- entry `(r, e)` of a one-index array as a sum over the Cartesian components of the shell of `r` -/
theorem entry1_eq_sum (b : Basis ℝ) (nextra : ℕ) (blk : ℕ → Tab3 ℝ) (r e : ℕ) (hr : r < b.total) :
    entry1 b (oneBlocks b nextra blk) r e
      = ∑ a ∈ range (shellOf b r).ncart,
          cw b r a * (blk (b.locate r).1).get3 (segOf b r) a e := by
  obtain ⟨hi, -, hf, -⟩ := locate_lt b r hr
  unfold entry1
  simp only []
  rw [oneBlocks_get b nextra blk _ hi, sumN_eq_sum]
  unfold cw segOf funOf
  rw [shellOf_eq b r hi]
  exact stage_eq _ _ _ hf fun a => (blk (b.locate r).1).get3 (b.locate r).2.1 a e

theorem sum_scale (n : ℕ) (u u' T T' : ℕ → ℝ) (ε κ : ℝ) (hu : ∀ a < n, u' a = ε * u a)
    (hT : ∀ a < n, T' a = κ * T a) :
    ∑ a ∈ range n, u' a * T' a = ε * κ * ∑ a ∈ range n, u a * T a := by
  rw [Finset.mul_sum]
  refine Finset.sum_congr rfl fun a ha => ?_
  rw [hu a (Finset.mem_range.mp ha), hT a (Finset.mem_range.mp ha)]
  ring

/-- every in-range entry of slice `e` of the one-index block `B s` is a contraction over the primitives
of `s`, for shells satisfying `P` (a condition preserved when frame is kept and no new exponent
appears) -/
structure BlockLaws1 (P : Shell ℝ → Prop) (B : Shell ℝ → Tab3 ℝ) (e : ℕ) : Prop where
  frame : ∀ s s' : Shell ℝ, s'.frame = s.frame → s'.ExpsIn Real.exp Real.sqrt Real.pi s → P s → P s'
  slot : SlotLinearOn Real.exp Real.sqrt Real.pi (fun s a => P s ∧ a < s.ncart)
    (fun s m a => (B s).get3 m a e)

variable {b' b : Basis ℝ} {i : ℕ} {new : ℕ → Shell ℝ × ℕ} {lam mu : ℕ → ℝ}
  {P : Shell ℝ → Prop}

/-- **The generic lemma, one index.** -/
theorem entry1_replaced {B : Shell ℝ → Tab3 ℝ} {e : ℕ} (hR : Replaced b' b i new) (hi : i < b.size)
    (hop : ShellOp b[i] new lam mu) (L : BlockLaws1 P B e) (hP : ∀ j (hj : j < b.size), P b[j])
    (nextra r : ℕ) (hr : r < b.total) :
    entry1 b' (oneBlocks b' nextra fun j => B b'[j]!) r e
      = (if (b.locate r).1 = i then lam (segOf b r) * mu (segOf b r) else 1)
        * entry1 b (oneBlocks b nextra fun j => B b[j]!) r e := by
  obtain ⟨hfr, hcw⟩ := hR.slot hi lam hop.frame hop.norm r hr
  have hPnew : ∀ m < b[i].nseg, P (new m).1 := fun m hm =>
    L.frame _ _ (hop.frame m hm) (hop.expsIn m hm) (hP i hi)
  have hT := hR.transfer hi mu (fun s m a => (B s).get3 m a e)
    (fun m hm a ha => hop.law _ _ L.slot m hm a ⟨hP i hi, ha⟩
      ⟨hPnew m hm, by rw [frame_ncart (hop.frame m hm)]; exact ha⟩) r hr
  rw [entry1_eq_sum b nextra _ r e hr, entry1_eq_sum b' nextra _ r e (by rw [hR.total]; exact hr),
    frame_ncart hfr]
  have := sum_scale (shellOf b r).ncart (cw b r) (cw b' r)
    (fun a => (B (shellOf b r)).get3 (segOf b r) a e)
    (fun a => (B (shellOf b' r)).get3 (segOf b' r) a e) _ _ hcw hT
  refine this.trans ?_
  have hfac : (if (b.locate r).1 = i then lam (segOf b r) else 1)
      * (if (b.locate r).1 = i then mu (segOf b r) else 1)
      = if (b.locate r).1 = i then lam (segOf b r) * mu (segOf b r) else 1 := by
    split_ifs <;> simp
  rw [hfac]
  rfl

/-- two bases with the same number of functions whose one-index array entries agree have the same
flat array -/
theorem assemble1_congr (b b' : Basis ℝ) (nextra : ℕ) (blk blk' : ℕ → Tab3 ℝ)
    (ht : b'.total = b.total)
    (h : ∀ r e, r < b.total → e < nextra →
      entry1 b' (oneBlocks b' nextra blk') r e = entry1 b (oneBlocks b nextra blk) r e) :
    assemble1 b' nextra blk' = assemble1 b nextra blk := by
  unfold assemble1
  refine ofFn_congr (by rw [ht]) _ _ fun k hk => ?_
  have hk' : k < b.total * nextra := by rw [ht] at hk; exact hk
  have hn : 0 < nextra := by
    rcases Nat.eq_zero_or_pos nextra with h0 | h0
    · rw [h0] at hk'; simp at hk'
    · exact h0
  show entry1 b' (oneBlocks b' nextra blk') (k / nextra) (k % nextra)
    = entry1 b (oneBlocks b nextra blk) (k / nextra) (k % nextra)
  refine h _ _ ?_ (Nat.mod_lt _ hn)
  apply Nat.div_lt_of_lt_mul
  rw [Nat.mul_comm]; exact hk'

theorem assemble1_get_rel (b b' : Basis ℝ) (nextra : ℕ) (blk blk' : ℕ → Tab3 ℝ)
    (ht : b'.total = b.total) (r e : ℕ) (hr : r < b.total) (he : e < nextra) (ε : ℝ)
    (h : entry1 b' (oneBlocks b' nextra blk') r e = ε * entry1 b (oneBlocks b nextra blk) r e) :
    (assemble1 b' nextra blk')[r * nextra + e]! = ε * (assemble1 b nextra blk)[r * nextra + e]! := by
  rw [assemble1_get b nextra blk r e hr he, ← h]
  exact assemble1_get b' nextra blk' r e (by rw [ht]; exact hr) he

end OneIndex

/-! ## Four-index arrays -/
section FourIndex

theorem applyW_eq_sum (s : Shell ℝ) (F : ℕ → ℕ → ℝ) (m g : ℕ) (hg : g < s.nfun) :
    applyW s s.weights F m g = ∑ a ∈ range s.ncart, cwS s m g a * F m a := by
  unfold applyW
  rw [sumN_eq_sum]
  exact stage_eq s m g hg fun a => F m a

/-- entry `(r1, r2, r3, r4)` of a four-index array as a nested sum over the Cartesian components of the
four shells -/
theorem entry4_eq_sum (b : Basis ℝ) (blk : ℕ → ℕ → ℕ → ℕ → Tab8 ℝ) (r1 r2 r3 r4 : ℕ)
    (h1 : r1 < b.total) (h2 : r2 < b.total) (h3 : r3 < b.total) (h4 : r4 < b.total) :
    entry4 b b b b (quartetBlocks b b b b blk) r1 r2 r3 r4
      = ∑ a4 ∈ range (shellOf b r4).ncart, cw b r4 a4 *
          ∑ a3 ∈ range (shellOf b r3).ncart, cw b r3 a3 *
            ∑ a2 ∈ range (shellOf b r2).ncart, cw b r2 a2 *
              ∑ a1 ∈ range (shellOf b r1).ncart, cw b r1 a1 *
                (blk (b.locate r1).1 (b.locate r2).1 (b.locate r3).1 (b.locate r4).1).get8
                  (segOf b r1) a1 (segOf b r2) a2 (segOf b r3) a3 (segOf b r4) a4 := by
  obtain ⟨hi1, -, hf1, -⟩ := locate_lt b r1 h1
  obtain ⟨hi2, -, hf2, -⟩ := locate_lt b r2 h2
  obtain ⟨hi3, -, hf3, -⟩ := locate_lt b r3 h3
  obtain ⟨hi4, -, hf4, -⟩ := locate_lt b r4 h4
  unfold entry4
  simp only []
  rw [quartetBlocks_get b b b b blk _ _ _ _ hi1 hi2 hi3 hi4, wBlock4_get8]
  unfold cw segOf funOf
  rw [shellOf_eq b r1 hi1, shellOf_eq b r2 hi2, shellOf_eq b r3 hi3, shellOf_eq b r4 hi4]
  rw [applyW_eq_sum _ _ _ _ hf4]
  refine Finset.sum_congr rfl fun a4 _ => ?_
  rw [applyW_eq_sum _ _ _ _ hf3]
  refine congrArg _ (Finset.sum_congr rfl fun a3 _ => ?_)
  rw [applyW_eq_sum _ _ _ _ hf2]
  refine congrArg _ (Finset.sum_congr rfl fun a2 _ => ?_)
  rw [applyW_eq_sum _ _ _ _ hf1]

/-- **Base lemma, four indices.** -/
theorem entry4_scale_of_located (b b' : Basis ℝ) (blk blk' : ℕ → ℕ → ℕ → ℕ → Tab8 ℝ)
    (r1 r2 r3 r4 : ℕ) (h1 : r1 < b.total) (h2 : r2 < b.total) (h3 : r3 < b.total)
    (h4 : r4 < b.total) (ht : b'.total = b.total) (ε1 ε2 ε3 ε4 μ : ℝ)
    (hs1 : (shellOf b' r1).ncart = (shellOf b r1).ncart)
    (hs2 : (shellOf b' r2).ncart = (shellOf b r2).ncart)
    (hs3 : (shellOf b' r3).ncart = (shellOf b r3).ncart)
    (hs4 : (shellOf b' r4).ncart = (shellOf b r4).ncart)
    (hw1 : ∀ a < (shellOf b r1).ncart, cw b' r1 a = ε1 * cw b r1 a)
    (hw2 : ∀ a < (shellOf b r2).ncart, cw b' r2 a = ε2 * cw b r2 a)
    (hw3 : ∀ a < (shellOf b r3).ncart, cw b' r3 a = ε3 * cw b r3 a)
    (hw4 : ∀ a < (shellOf b r4).ncart, cw b' r4 a = ε4 * cw b r4 a)
    (hX : ∀ a1 < (shellOf b r1).ncart, ∀ a2 < (shellOf b r2).ncart,
      ∀ a3 < (shellOf b r3).ncart, ∀ a4 < (shellOf b r4).ncart,
      (blk' (b'.locate r1).1 (b'.locate r2).1 (b'.locate r3).1 (b'.locate r4).1).get8
          (segOf b' r1) a1 (segOf b' r2) a2 (segOf b' r3) a3 (segOf b' r4) a4
        = μ * (blk (b.locate r1).1 (b.locate r2).1 (b.locate r3).1 (b.locate r4).1).get8
          (segOf b r1) a1 (segOf b r2) a2 (segOf b r3) a3 (segOf b r4) a4) :
    entry4 b' b' b' b' (quartetBlocks b' b' b' b' blk') r1 r2 r3 r4
      = ε1 * ε2 * ε3 * ε4 * μ * entry4 b b b b (quartetBlocks b b b b blk) r1 r2 r3 r4 := by
  rw [entry4_eq_sum b blk r1 r2 r3 r4 h1 h2 h3 h4,
    entry4_eq_sum b' blk' r1 r2 r3 r4 (by rw [ht]; exact h1) (by rw [ht]; exact h2)
      (by rw [ht]; exact h3) (by rw [ht]; exact h4), hs1, hs2, hs3, hs4]
  have key := sum_scale _ (cw b r4) (cw b' r4) _ _ ε4 (ε3 * (ε2 * (ε1 * μ))) hw4
    fun a4 ha4 => sum_scale _ (cw b r3) (cw b' r3) _ _ ε3 (ε2 * (ε1 * μ)) hw3
      fun a3 ha3 => sum_scale _ (cw b r2) (cw b' r2) _ _ ε2 (ε1 * μ) hw2
        fun a2 ha2 => sum_scale _ (cw b r1) (cw b' r1) _ _ ε1 μ hw1
          fun a1 ha1 => hX a1 ha1 a2 ha2 a3 ha3 a4 ha4
  refine key.trans ?_
  ring

/-- every in-range entry of the four-index block `B sa sb sc sd` is a contraction over the primitives
of each of the four shells, for shells satisfying `P` (a condition preserved when the frame is kept
and no new exponent appears) -/
structure BlockLaws4 (P : Shell ℝ → Prop) (B : Shell ℝ → Shell ℝ → Shell ℝ → Shell ℝ → Tab8 ℝ) :
    Prop where
  frame : ∀ s s' : Shell ℝ, s'.frame = s.frame → s'.ExpsIn Real.exp Real.sqrt Real.pi s → P s → P s'
  a : ∀ sb sc sd mb cb mc cc md cd, P sb → P sc → P sd → cb < sb.ncart → cc < sc.ncart →
    cd < sd.ncart → SlotLinearOn Real.exp Real.sqrt Real.pi (fun s a => P s ∧ a < s.ncart)
      (fun s m a => (B s sb sc sd).get8 m a mb cb mc cc md cd)
  b : ∀ sa sc sd ma ca mc cc md cd, P sa → P sc → P sd → ca < sa.ncart → cc < sc.ncart →
    cd < sd.ncart → SlotLinearOn Real.exp Real.sqrt Real.pi (fun s a => P s ∧ a < s.ncart)
      (fun s m a => (B sa s sc sd).get8 ma ca m a mc cc md cd)
  c : ∀ sa sb sd ma ca mb cb md cd, P sa → P sb → P sd → ca < sa.ncart → cb < sb.ncart →
    cd < sd.ncart → SlotLinearOn Real.exp Real.sqrt Real.pi (fun s a => P s ∧ a < s.ncart)
      (fun s m a => (B sa sb s sd).get8 ma ca mb cb m a md cd)
  d : ∀ sa sb sc ma ca mb cb mc cc, P sa → P sb → P sc → ca < sa.ncart → cb < sb.ncart →
    cc < sc.ncart → SlotLinearOn Real.exp Real.sqrt Real.pi (fun s a => P s ∧ a < s.ncart)
      (fun s m a => (B sa sb sc s).get8 ma ca mb cb mc cc m a)

variable {b' b : Basis ℝ} {i : ℕ} {new : ℕ → Shell ℝ × ℕ} {lam mu : ℕ → ℝ}
  {P : Shell ℝ → Prop}

/-- **The generic lemma, four indices.**  Every entry is multiplied by `lam m · mu m` once for each of
its four indices that is a function of segment `m` of shell `i`. -/
theorem entry4_replaced {B : Shell ℝ → Shell ℝ → Shell ℝ → Shell ℝ → Tab8 ℝ}
    (hR : Replaced b' b i new) (hi : i < b.size)
    (hop : ShellOp b[i] new lam mu) (L : BlockLaws4 P B) (hP : ∀ j (hj : j < b.size), P b[j])
    (r1 r2 r3 r4 : ℕ) (h1 : r1 < b.total) (h2 : r2 < b.total) (h3 : r3 < b.total)
    (h4 : r4 < b.total) :
    entry4 b' b' b' b' (quartetBlocks b' b' b' b' fun j k l n => B b'[j]! b'[k]! b'[l]! b'[n]!)
        r1 r2 r3 r4
      = (if (b.locate r1).1 = i then lam (segOf b r1) * mu (segOf b r1) else 1)
        * (if (b.locate r2).1 = i then lam (segOf b r2) * mu (segOf b r2) else 1)
        * (if (b.locate r3).1 = i then lam (segOf b r3) * mu (segOf b r3) else 1)
        * (if (b.locate r4).1 = i then lam (segOf b r4) * mu (segOf b r4) else 1)
        * entry4 b b b b (quartetBlocks b b b b fun j k l n => B b[j]! b[k]! b[l]! b[n]!)
            r1 r2 r3 r4 := by
  obtain ⟨hfr1, hcw1⟩ := hR.slot hi lam hop.frame hop.norm r1 h1
  obtain ⟨hfr2, hcw2⟩ := hR.slot hi lam hop.frame hop.norm r2 h2
  obtain ⟨hfr3, hcw3⟩ := hR.slot hi lam hop.frame hop.norm r3 h3
  obtain ⟨hfr4, hcw4⟩ := hR.slot hi lam hop.frame hop.norm r4 h4
  have hPnew : ∀ m < b[i].nseg, P (new m).1 := fun m hm =>
    L.frame _ _ (hop.frame m hm) (hop.expsIn m hm) (hP i hi)
  obtain ⟨p1, -⟩ := hR.pred hi P hP hPnew r1 h1
  obtain ⟨p2, p2'⟩ := hR.pred hi P hP hPnew r2 h2
  obtain ⟨p3, p3'⟩ := hR.pred hi P hP hPnew r3 h3
  obtain ⟨-, p4'⟩ := hR.pred hi P hP hPnew r4 h4
  have hnc : ∀ m < b[i].nseg, ∀ a < b[i].ncart, a < (new m).1.ncart := fun m hm a ha => by
    rw [frame_ncart (hop.frame m hm)]; exact ha
  have key := entry4_scale_of_located b b' (fun j k l n => B b[j]! b[k]! b[l]! b[n]!)
    (fun j k l n => B b'[j]! b'[k]! b'[l]! b'[n]!) r1 r2 r3 r4 h1 h2 h3 h4 hR.total
    (if (b.locate r1).1 = i then lam (segOf b r1) else 1)
    (if (b.locate r2).1 = i then lam (segOf b r2) else 1)
    (if (b.locate r3).1 = i then lam (segOf b r3) else 1)
    (if (b.locate r4).1 = i then lam (segOf b r4) else 1)
    ((if (b.locate r1).1 = i then mu (segOf b r1) else 1)
      * ((if (b.locate r2).1 = i then mu (segOf b r2) else 1)
        * ((if (b.locate r3).1 = i then mu (segOf b r3) else 1)
          * (if (b.locate r4).1 = i then mu (segOf b r4) else 1))))
    (frame_ncart hfr1) (frame_ncart hfr2) (frame_ncart hfr3) (frame_ncart hfr4)
    hcw1 hcw2 hcw3 hcw4 (by
      intro a1 ha1 a2 ha2 a3 ha3 a4 ha4
      have ha2' : a2 < (shellOf b' r2).ncart := by rw [frame_ncart hfr2]; exact ha2
      have ha3' : a3 < (shellOf b' r3).ncart := by rw [frame_ncart hfr3]; exact ha3
      have ha4' : a4 < (shellOf b' r4).ncart := by rw [frame_ncart hfr4]; exact ha4
      have e1 := hR.transfer hi mu
        (fun s m a => (B s (shellOf b' r2) (shellOf b' r3) (shellOf b' r4)).get8 m a
          (segOf b' r2) a2 (segOf b' r3) a3 (segOf b' r4) a4)
        (fun m hm a ha => hop.law _ _ (L.a _ _ _ _ _ _ _ _ _ p2' p3' p4' ha2' ha3' ha4') m hm a
          ⟨hP i hi, ha⟩ ⟨hPnew m hm, hnc m hm a ha⟩) r1 h1 a1 ha1
      have e2 := hR.transfer hi mu
        (fun s m a => (B (shellOf b r1) s (shellOf b' r3) (shellOf b' r4)).get8 (segOf b r1) a1
          m a (segOf b' r3) a3 (segOf b' r4) a4)
        (fun m hm a ha => hop.law _ _ (L.b _ _ _ _ _ _ _ _ _ p1 p3' p4' ha1 ha3' ha4') m hm a
          ⟨hP i hi, ha⟩ ⟨hPnew m hm, hnc m hm a ha⟩) r2 h2 a2 ha2
      have e3 := hR.transfer hi mu
        (fun s m a => (B (shellOf b r1) (shellOf b r2) s (shellOf b' r4)).get8 (segOf b r1) a1
          (segOf b r2) a2 m a (segOf b' r4) a4)
        (fun m hm a ha => hop.law _ _ (L.c _ _ _ _ _ _ _ _ _ p1 p2 p4' ha1 ha2 ha4') m hm a
          ⟨hP i hi, ha⟩ ⟨hPnew m hm, hnc m hm a ha⟩) r3 h3 a3 ha3
      have e4 := hR.transfer hi mu
        (fun s m a => (B (shellOf b r1) (shellOf b r2) (shellOf b r3) s).get8 (segOf b r1) a1
          (segOf b r2) a2 (segOf b r3) a3 m a)
        (fun m hm a ha => hop.law _ _ (L.d _ _ _ _ _ _ _ _ _ p1 p2 p3 ha1 ha2 ha3) m hm a
          ⟨hP i hi, ha⟩ ⟨hPnew m hm, hnc m hm a ha⟩) r4 h4 a4 ha4
      beta_reduce at e1 e2 e3 e4
      show (B (shellOf b' r1) (shellOf b' r2) (shellOf b' r3) (shellOf b' r4)).get8
          (segOf b' r1) a1 (segOf b' r2) a2 (segOf b' r3) a3 (segOf b' r4) a4
        = _ * (B (shellOf b r1) (shellOf b r2) (shellOf b r3) (shellOf b r4)).get8
          (segOf b r1) a1 (segOf b r2) a2 (segOf b r3) a3 (segOf b r4) a4
      rw [e1, e2, e3, e4]
      ring)
  rw [key]
  by_cases c1 : (b.locate r1).1 = i <;> by_cases c2 : (b.locate r2).1 = i <;>
    by_cases c3 : (b.locate r3).1 = i <;> by_cases c4 : (b.locate r4).1 = i <;>
    simp only [c1, c2, c3, c4, if_true, if_false] <;> ring

/-- two bases with the same number of functions whose four-index array entries agree have the same
flat array -/
theorem assemble4_congr (b b' : Basis ℝ) (blk blk' : ℕ → ℕ → ℕ → ℕ → Tab8 ℝ)
    (ht : b'.total = b.total)
    (h : ∀ r1 r2 r3 r4, r1 < b.total → r2 < b.total → r3 < b.total → r4 < b.total →
      entry4 b' b' b' b' (quartetBlocks b' b' b' b' blk') r1 r2 r3 r4
        = entry4 b b b b (quartetBlocks b b b b blk) r1 r2 r3 r4) :
    assemble4 b' blk' = assemble4 b blk := by
  unfold assemble4 assemble4g
  refine ofFn_congr (by rw [ht]) _ _ fun k hk => ?_
  have hk' : k < b.total * b.total * b.total * b.total := by rw [ht] at hk; exact hk
  have hb : 0 < b.total := by
    rcases Nat.eq_zero_or_pos b.total with h0 | h0
    · rw [h0] at hk'; simp at hk'
    · exact h0
  show entry4 b' b' b' b' (quartetBlocks b' b' b' b' blk')
      (k / (b'.total * b'.total * b'.total)) (k / (b'.total * b'.total) % b'.total)
      (k / b'.total % b'.total) (k % b'.total)
    = entry4 b b b b (quartetBlocks b b b b blk)
      (k / (b.total * b.total * b.total)) (k / (b.total * b.total) % b.total)
      (k / b.total % b.total) (k % b.total)
  rw [ht]
  refine h _ _ _ _ ?_ (Nat.mod_lt _ hb) (Nat.mod_lt _ hb) (Nat.mod_lt _ hb)
  apply Nat.div_lt_of_lt_mul
  calc k < b.total * b.total * b.total * b.total := hk'
    _ = b.total * b.total * b.total * b.total := rfl

theorem assemble4_get_rel (b b' : Basis ℝ) (blk blk' : ℕ → ℕ → ℕ → ℕ → Tab8 ℝ)
    (ht : b'.total = b.total) (r1 r2 r3 r4 : ℕ) (h1 : r1 < b.total) (h2 : r2 < b.total)
    (h3 : r3 < b.total) (h4 : r4 < b.total) (ε : ℝ)
    (h : entry4 b' b' b' b' (quartetBlocks b' b' b' b' blk') r1 r2 r3 r4
        = ε * entry4 b b b b (quartetBlocks b b b b blk) r1 r2 r3 r4) :
    (assemble4 b' blk')[((r1 * b.total + r2) * b.total + r3) * b.total + r4]!
      = ε * (assemble4 b blk)[((r1 * b.total + r2) * b.total + r3) * b.total + r4]! := by
  rw [assemble4_get b blk r1 r2 r3 r4 h1 h2 h3 h4, ← h]
  have := assemble4_get b' blk' r1 r2 r3 r4 (by rw [ht]; exact h1) (by rw [ht]; exact h2)
    (by rw [ht]; exact h3) (by rw [ht]; exact h4)
  rw [ht] at this
  exact this

end FourIndex

/-! ## The evaluation arrays and the electron-repulsion array -/
section Arrays

theorem scale_sign_pos (x : ℝ) (hx : 0 < x) (c : Prop) [Decidable c] (m m₀ : ℕ) :
    (if c then (if m = m₀ then 1 / |x| else 1) * (if m = m₀ then x else 1) else 1) = 1 := by
  rw [scale_factor, abs_of_pos hx, div_self hx.ne']
  simp

theorem scale_sign_neg (x : ℝ) (hx : x < 0) (b : Basis ℝ) (i m₀ r : ℕ) :
    (if (b.locate r).1 = i then
        (if segOf b r = m₀ then 1 / |x| else 1) * (if segOf b r = m₀ then x else 1) else 1)
      = colSign b i m₀ r := by
  rw [scale_factor, abs_of_neg hx, div_neg, div_self hx.ne]
  unfold colSign segOf
  by_cases h1 : (b.locate r).1 = i <;> by_cases h2 : (b.locate r).2.1 = m₀ <;> simp [h1, h2]

/-- the `blk` argument with which `Driver.lean` calls `assemble1` for `"evalderiv"` -/
noncomputable def evalBlk (b : Basis ℝ) (be : Backend) (orders : Comp) (pts : Array (ℕ → ℝ))
    (j : ℕ) : Tab3 ℝ := evalBlock b[j]! be orders pts

theorem eval_blockLaws (be : Backend) (orders : Comp) (pts : Array (ℕ → ℝ)) (e : ℕ) :
    BlockLaws1 (fun _ => True) (fun s => evalBlock s be orders pts) e where
  frame := fun _ _ _ _ _ => trivial
  slot := (evalBlock_slotLinear Real.exp Real.sqrt Real.pi be orders pts e).on _

/-- positive exponents and Cartesian components of degree at most the angular momentum: what
`eriBlock_eq_rys` needs of each of the four shells -/
def Shell.EriReady (s : Shell ℝ) : Prop := (∀ k < s.nprim, 0 < s.exp! k) ∧ s.CompsLe

theorem Basis.WellFormed.eriReady {b : Basis ℝ} (hb : b.WellFormed) (j : ℕ) (hj : j < b.size) :
    b[j].EriReady :=
  ⟨fun k hk => hb.exp_pos j hj k hk, fun a ha => hb.comp_le j hj a ha⟩

theorem eri_blockLaws (boysT : ℝ → ℕ → Tab ℝ) :
    BlockLaws4 Shell.EriReady (fun sa sb sc sd => eriBlock boysT sa sb sc sd) where
  frame := fun s s' hf he hs => ⟨fun k hk => by
      obtain ⟨k', hk', e⟩ := he k hk
      rw [e]; exact hs.1 k' hk',
    fun a ha => (frame_degOK hf a).mpr (hs.2 a (by rw [← frame_ncart hf]; exact ha))⟩
  a := fun sb sc sd mb cb mc cc md cd pb pc pd hb hc hd =>
    (eriBlock_slotLinear_a Real.exp Real.sqrt Real.pi boysT sb sc sd mb cb mc cc md cd).mono
      fun s a h => EriOK.of_pos s sb sc sd a cb cc cd h.1.1 pb.1 pc.1 pd.1 (h.1.2 a h.2)
        (pb.2 cb hb) (pc.2 cc hc) (pd.2 cd hd)
  b := fun sa sc sd ma ca mc cc md cd pa pc pd ha hc hd =>
    (eriBlock_slotLinear_b Real.exp Real.sqrt Real.pi boysT sa sc sd ma ca mc cc md cd).mono
      fun s a h => EriOK.of_pos sa s sc sd ca a cc cd pa.1 h.1.1 pc.1 pd.1 (pa.2 ca ha)
        (h.1.2 a h.2) (pc.2 cc hc) (pd.2 cd hd)
  c := fun sa sb sd ma ca mb cb md cd pa pb pd ha hb hd =>
    (eriBlock_slotLinear_c Real.exp Real.sqrt Real.pi boysT sa sb sd ma ca mb cb md cd).mono
      fun s a h => EriOK.of_pos sa sb s sd ca cb a cd pa.1 pb.1 h.1.1 pd.1 (pa.2 ca ha)
        (pb.2 cb hb) (h.1.2 a h.2) (pd.2 cd hd)
  d := fun sa sb sc ma ca mb cb mc cc pa pb pc ha hb hc =>
    (eriBlock_slotLinear_d Real.exp Real.sqrt Real.pi boysT sa sb sc ma ca mb cb mc cc).mono
      fun s a h => EriOK.of_pos sa sb sc s ca cb cc a pa.1 pb.1 pc.1 h.1.1 (pa.2 ca ha)
        (pb.2 cb hb) (pc.2 cc hc) (h.1.2 a h.2)

/-! ### the evaluation array (values and derivatives of the basis functions at points) -/

/-- **C13.1, evaluation array**: a generalized shell gives the same functions, in the same order, as
its single-column shells sharing its primitives. -/
theorem eval_array_splitColumns (be : Backend) (orders : Comp) (pts : Array (ℕ → ℝ)) (b : Basis ℝ)
    (i : ℕ) (hi : i < b.size) (nextra r e : ℕ) (hr : r < b.total) :
    entry1 (b.splitColumns i) (oneBlocks (b.splitColumns i) nextra
        (evalBlk (b.splitColumns i) be orders pts)) r e
      = entry1 b (oneBlocks b nextra (evalBlk b be orders pts)) r e := by
  have := entry1_replaced (replaced_splitColumns b i hi) hi (shellOp_column b[i])
    (eval_blockLaws be orders pts e) (fun _ _ => trivial) nextra r hr
  refine this.trans ?_
  simp only [mul_one, ite_self, one_mul]
  rfl

theorem eval_flat_splitColumns (be : Backend) (orders : Comp) (pts : Array (ℕ → ℝ)) (b : Basis ℝ)
    (i : ℕ) (hi : i < b.size) (nextra : ℕ) :
    assemble1 (b.splitColumns i) nextra (evalBlk (b.splitColumns i) be orders pts)
      = assemble1 b nextra (evalBlk b be orders pts) :=
  assemble1_congr b _ _ _ _ (Basis.splitColumns_total b i) fun r e hr _ =>
    eval_array_splitColumns be orders pts b i hi nextra r e hr

/-- **C13.2, evaluation array**: the order of the primitives of a shell is immaterial. -/
theorem eval_array_permPrims (be : Backend) (orders : Comp) (pts : Array (ℕ → ℝ)) (b : Basis ℝ)
    (i : ℕ) (hi : i < b.size) (σ : ℕ → ℕ)
    (hmap : ∀ k < b[i].nprim, σ k < b[i].nprim)
    (hinj : ∀ k < b[i].nprim, ∀ k' < b[i].nprim, σ k = σ k' → k = k')
    (hseg : (b[i].permPrims σ).nseg = b[i].nseg) (nextra r e : ℕ) (hr : r < b.total) :
    entry1 (b.permPrimsAt i σ) (oneBlocks (b.permPrimsAt i σ) nextra
        (evalBlk (b.permPrimsAt i σ) be orders pts)) r e
      = entry1 b (oneBlocks b nextra (evalBlk b be orders pts)) r e := by
  have := entry1_replaced (replaced_mapShell b i (fun s => s.permPrims σ) hi hseg rfl) hi
    (shellOp_permPrims b[i] σ hmap hinj) (eval_blockLaws be orders pts e) (fun _ _ => trivial)
    nextra r hr
  refine this.trans ?_
  simp only [mul_one, ite_self, one_mul]
  rfl

theorem eval_flat_permPrims (be : Backend) (orders : Comp) (pts : Array (ℕ → ℝ)) (b : Basis ℝ)
    (i : ℕ) (hi : i < b.size) (σ : ℕ → ℕ)
    (hmap : ∀ k < b[i].nprim, σ k < b[i].nprim)
    (hinj : ∀ k < b[i].nprim, ∀ k' < b[i].nprim, σ k = σ k' → k = k')
    (hseg : (b[i].permPrims σ).nseg = b[i].nseg) (nextra : ℕ) :
    assemble1 (b.permPrimsAt i σ) nextra (evalBlk (b.permPrimsAt i σ) be orders pts)
      = assemble1 b nextra (evalBlk b be orders pts) :=
  assemble1_congr b _ _ _ _ (Basis.permPrimsAt_total b i hi σ hseg) fun r e hr _ =>
    eval_array_permPrims be orders pts b i hi σ hmap hinj hseg nextra r e hr

/-- **C13.3, evaluation array**: splitting a primitive changes nothing. -/
theorem eval_array_splitPrim (be : Backend) (orders : Comp) (pts : Array (ℕ → ℝ)) (b : Basis ℝ)
    (i : ℕ) (hi : i < b.size) (j : ℕ) (x : ℝ) (hj : j < b[i].nprim) (nextra r e : ℕ)
    (hr : r < b.total) :
    entry1 (b.splitPrimAt i j x) (oneBlocks (b.splitPrimAt i j x) nextra
        (evalBlk (b.splitPrimAt i j x) be orders pts)) r e
      = entry1 b (oneBlocks b nextra (evalBlk b be orders pts)) r e := by
  have := entry1_replaced (replaced_mapShell b i (fun s => s.splitPrim j x) hi
      (splitPrim_nseg b[i] j x hj) rfl) hi
    (shellOp_splitPrim b[i] j x hj) (eval_blockLaws be orders pts e) (fun _ _ => trivial)
    nextra r hr
  refine this.trans ?_
  simp only [mul_one, ite_self, one_mul]
  rfl

theorem eval_flat_splitPrim (be : Backend) (orders : Comp) (pts : Array (ℕ → ℝ)) (b : Basis ℝ)
    (i : ℕ) (hi : i < b.size) (j : ℕ) (x : ℝ) (hj : j < b[i].nprim) (nextra : ℕ) :
    assemble1 (b.splitPrimAt i j x) nextra (evalBlk (b.splitPrimAt i j x) be orders pts)
      = assemble1 b nextra (evalBlk b be orders pts) :=
  assemble1_congr b _ _ _ _ (Basis.splitPrimAt_total b i hi j x hj) fun r e hr _ =>
    eval_array_splitPrim be orders pts b i hi j x hj nextra r e hr

/-- **C13.4, evaluation array, `x > 0`**: multiplying a coefficient column of a unit-normalised shell
by a positive factor changes nothing. -/
theorem eval_array_scaleColumn_pos (be : Backend) (orders : Comp) (pts : Array (ℕ → ℝ))
    (b : Basis ℝ) (i : ℕ) (hi : i < b.size) (m : ℕ) (x : ℝ) (hx : 0 < x)
    (hn : b[i].unitNorm = true) (nextra r e : ℕ) (hr : r < b.total) :
    entry1 (b.scaleColumnAt i m x) (oneBlocks (b.scaleColumnAt i m x) nextra
        (evalBlk (b.scaleColumnAt i m x) be orders pts)) r e
      = entry1 b (oneBlocks b nextra (evalBlk b be orders pts)) r e := by
  have := entry1_replaced (replaced_mapShell b i (fun s => s.scaleColumn m x) hi
      (scaleColumn_nseg b[i] m x) rfl) hi
    (shellOp_scaleColumn b[i] m x hn) (eval_blockLaws be orders pts e) (fun _ _ => trivial)
    nextra r hr
  refine this.trans ?_
  rw [scale_sign_pos x hx, one_mul]
  rfl

theorem eval_flat_scaleColumn_pos (be : Backend) (orders : Comp) (pts : Array (ℕ → ℝ))
    (b : Basis ℝ) (i : ℕ) (hi : i < b.size) (m : ℕ) (x : ℝ) (hx : 0 < x)
    (hn : b[i].unitNorm = true) (nextra : ℕ) :
    assemble1 (b.scaleColumnAt i m x) nextra (evalBlk (b.scaleColumnAt i m x) be orders pts)
      = assemble1 b nextra (evalBlk b be orders pts) :=
  assemble1_congr b _ _ _ _ (Basis.scaleColumnAt_total b i hi m x) fun r e hr _ =>
    eval_array_scaleColumn_pos be orders pts b i hi m x hx hn nextra r e hr

/-- **C13.4, evaluation array, `x < 0`**: the functions of column `m` of shell `i` change sign, all
others are unchanged. -/
theorem eval_array_scaleColumn_neg (be : Backend) (orders : Comp) (pts : Array (ℕ → ℝ))
    (b : Basis ℝ) (i : ℕ) (hi : i < b.size) (m : ℕ) (x : ℝ) (hx : x < 0)
    (hn : b[i].unitNorm = true) (nextra r e : ℕ) (hr : r < b.total) :
    entry1 (b.scaleColumnAt i m x) (oneBlocks (b.scaleColumnAt i m x) nextra
        (evalBlk (b.scaleColumnAt i m x) be orders pts)) r e
      = colSign b i m r * entry1 b (oneBlocks b nextra (evalBlk b be orders pts)) r e := by
  have := entry1_replaced (replaced_mapShell b i (fun s => s.scaleColumn m x) hi
      (scaleColumn_nseg b[i] m x) rfl) hi
    (shellOp_scaleColumn b[i] m x hn) (eval_blockLaws be orders pts e) (fun _ _ => trivial)
    nextra r hr
  refine this.trans ?_
  rw [scale_sign_neg x hx]
  rfl

theorem eval_flat_scaleColumn_neg (be : Backend) (orders : Comp) (pts : Array (ℕ → ℝ))
    (b : Basis ℝ) (i : ℕ) (hi : i < b.size) (m : ℕ) (x : ℝ) (hx : x < 0)
    (hn : b[i].unitNorm = true) (nextra r e : ℕ) (hr : r < b.total) (he : e < nextra) :
    (assemble1 (b.scaleColumnAt i m x) nextra
        (evalBlk (b.scaleColumnAt i m x) be orders pts))[r * nextra + e]!
      = colSign b i m r * (assemble1 b nextra (evalBlk b be orders pts))[r * nextra + e]! :=
  assemble1_get_rel b _ _ _ _ (Basis.scaleColumnAt_total b i hi m x) r e hr he _
    (eval_array_scaleColumn_neg be orders pts b i hi m x hx hn nextra r e hr)

/-! ### the electron-repulsion array `(ab|cd)` -/

/-- **C13.1, electron-repulsion array** (`b.WellFormed`: positive exponents, Cartesian components of
degree at most the angular momentum). -/
theorem eri_array_splitColumns (boysT : ℝ → ℕ → Tab ℝ) (b : Basis ℝ) (hb : b.WellFormed)
    (i : ℕ) (hi : i < b.size) (r1 r2 r3 r4 : ℕ) (h1 : r1 < b.total) (h2 : r2 < b.total)
    (h3 : r3 < b.total) (h4 : r4 < b.total) :
    entry4 (b.splitColumns i) (b.splitColumns i) (b.splitColumns i) (b.splitColumns i)
        (quartetBlocks (b.splitColumns i) (b.splitColumns i) (b.splitColumns i) (b.splitColumns i)
          (eriBlk boysT (b.splitColumns i))) r1 r2 r3 r4
      = entry4 b b b b (quartetBlocks b b b b (eriBlk boysT b)) r1 r2 r3 r4 := by
  have := entry4_replaced (replaced_splitColumns b i hi) hi (shellOp_column b[i])
    (eri_blockLaws boysT) hb.eriReady r1 r2 r3 r4 h1 h2 h3 h4
  refine this.trans ?_
  simp only [mul_one, ite_self, one_mul]
  rfl

theorem eri_flat_splitColumns (boysT : ℝ → ℕ → Tab ℝ) (b : Basis ℝ) (hb : b.WellFormed)
    (i : ℕ) (hi : i < b.size) :
    assemble4 (b.splitColumns i) (eriBlk boysT (b.splitColumns i))
      = assemble4 b (eriBlk boysT b) :=
  assemble4_congr b _ _ _ (Basis.splitColumns_total b i) fun r1 r2 r3 r4 h1 h2 h3 h4 =>
    eri_array_splitColumns boysT b hb i hi r1 r2 r3 r4 h1 h2 h3 h4

/-- **C13.2, electron-repulsion array.** -/
theorem eri_array_permPrims (boysT : ℝ → ℕ → Tab ℝ) (b : Basis ℝ) (hb : b.WellFormed)
    (i : ℕ) (hi : i < b.size) (σ : ℕ → ℕ)
    (hmap : ∀ k < b[i].nprim, σ k < b[i].nprim)
    (hinj : ∀ k < b[i].nprim, ∀ k' < b[i].nprim, σ k = σ k' → k = k')
    (hseg : (b[i].permPrims σ).nseg = b[i].nseg)
    (r1 r2 r3 r4 : ℕ) (h1 : r1 < b.total) (h2 : r2 < b.total)
    (h3 : r3 < b.total) (h4 : r4 < b.total) :
    entry4 (b.permPrimsAt i σ) (b.permPrimsAt i σ) (b.permPrimsAt i σ) (b.permPrimsAt i σ)
        (quartetBlocks (b.permPrimsAt i σ) (b.permPrimsAt i σ) (b.permPrimsAt i σ)
          (b.permPrimsAt i σ) (eriBlk boysT (b.permPrimsAt i σ))) r1 r2 r3 r4
      = entry4 b b b b (quartetBlocks b b b b (eriBlk boysT b)) r1 r2 r3 r4 := by
  have := entry4_replaced (replaced_mapShell b i (fun s => s.permPrims σ) hi hseg rfl) hi
    (shellOp_permPrims b[i] σ hmap hinj) (eri_blockLaws boysT) hb.eriReady r1 r2 r3 r4 h1 h2 h3 h4
  refine this.trans ?_
  simp only [mul_one, ite_self, one_mul]
  rfl

theorem eri_flat_permPrims (boysT : ℝ → ℕ → Tab ℝ) (b : Basis ℝ) (hb : b.WellFormed)
    (i : ℕ) (hi : i < b.size) (σ : ℕ → ℕ)
    (hmap : ∀ k < b[i].nprim, σ k < b[i].nprim)
    (hinj : ∀ k < b[i].nprim, ∀ k' < b[i].nprim, σ k = σ k' → k = k')
    (hseg : (b[i].permPrims σ).nseg = b[i].nseg) :
    assemble4 (b.permPrimsAt i σ) (eriBlk boysT (b.permPrimsAt i σ))
      = assemble4 b (eriBlk boysT b) :=
  assemble4_congr b _ _ _ (Basis.permPrimsAt_total b i hi σ hseg) fun r1 r2 r3 r4 h1 h2 h3 h4 =>
    eri_array_permPrims boysT b hb i hi σ hmap hinj hseg r1 r2 r3 r4 h1 h2 h3 h4

/-- **C13.3, electron-repulsion array.** -/
theorem eri_array_splitPrim (boysT : ℝ → ℕ → Tab ℝ) (b : Basis ℝ) (hb : b.WellFormed)
    (i : ℕ) (hi : i < b.size) (j : ℕ) (x : ℝ) (hj : j < b[i].nprim)
    (r1 r2 r3 r4 : ℕ) (h1 : r1 < b.total) (h2 : r2 < b.total)
    (h3 : r3 < b.total) (h4 : r4 < b.total) :
    entry4 (b.splitPrimAt i j x) (b.splitPrimAt i j x) (b.splitPrimAt i j x) (b.splitPrimAt i j x)
        (quartetBlocks (b.splitPrimAt i j x) (b.splitPrimAt i j x) (b.splitPrimAt i j x)
          (b.splitPrimAt i j x) (eriBlk boysT (b.splitPrimAt i j x))) r1 r2 r3 r4
      = entry4 b b b b (quartetBlocks b b b b (eriBlk boysT b)) r1 r2 r3 r4 := by
  have := entry4_replaced (replaced_mapShell b i (fun s => s.splitPrim j x) hi
      (splitPrim_nseg b[i] j x hj) rfl) hi
    (shellOp_splitPrim b[i] j x hj) (eri_blockLaws boysT) hb.eriReady r1 r2 r3 r4 h1 h2 h3 h4
  refine this.trans ?_
  simp only [mul_one, ite_self, one_mul]
  rfl

theorem eri_flat_splitPrim (boysT : ℝ → ℕ → Tab ℝ) (b : Basis ℝ) (hb : b.WellFormed)
    (i : ℕ) (hi : i < b.size) (j : ℕ) (x : ℝ) (hj : j < b[i].nprim) :
    assemble4 (b.splitPrimAt i j x) (eriBlk boysT (b.splitPrimAt i j x))
      = assemble4 b (eriBlk boysT b) :=
  assemble4_congr b _ _ _ (Basis.splitPrimAt_total b i hi j x hj) fun r1 r2 r3 r4 h1 h2 h3 h4 =>
    eri_array_splitPrim boysT b hb i hi j x hj r1 r2 r3 r4 h1 h2 h3 h4

/-- **C13.4, electron-repulsion array, `x > 0`.** -/
theorem eri_array_scaleColumn_pos (boysT : ℝ → ℕ → Tab ℝ) (b : Basis ℝ) (hb : b.WellFormed)
    (i : ℕ) (hi : i < b.size) (m : ℕ) (x : ℝ) (hx : 0 < x) (hn : b[i].unitNorm = true)
    (r1 r2 r3 r4 : ℕ) (h1 : r1 < b.total) (h2 : r2 < b.total)
    (h3 : r3 < b.total) (h4 : r4 < b.total) :
    entry4 (b.scaleColumnAt i m x) (b.scaleColumnAt i m x) (b.scaleColumnAt i m x)
        (b.scaleColumnAt i m x)
        (quartetBlocks (b.scaleColumnAt i m x) (b.scaleColumnAt i m x) (b.scaleColumnAt i m x)
          (b.scaleColumnAt i m x) (eriBlk boysT (b.scaleColumnAt i m x))) r1 r2 r3 r4
      = entry4 b b b b (quartetBlocks b b b b (eriBlk boysT b)) r1 r2 r3 r4 := by
  have := entry4_replaced (replaced_mapShell b i (fun s => s.scaleColumn m x) hi
      (scaleColumn_nseg b[i] m x) rfl) hi
    (shellOp_scaleColumn b[i] m x hn) (eri_blockLaws boysT) hb.eriReady r1 r2 r3 r4 h1 h2 h3 h4
  refine this.trans ?_
  simp only [scale_sign_pos x hx, one_mul]
  rfl

theorem eri_flat_scaleColumn_pos (boysT : ℝ → ℕ → Tab ℝ) (b : Basis ℝ) (hb : b.WellFormed)
    (i : ℕ) (hi : i < b.size) (m : ℕ) (x : ℝ) (hx : 0 < x) (hn : b[i].unitNorm = true) :
    assemble4 (b.scaleColumnAt i m x) (eriBlk boysT (b.scaleColumnAt i m x))
      = assemble4 b (eriBlk boysT b) :=
  assemble4_congr b _ _ _ (Basis.scaleColumnAt_total b i hi m x) fun r1 r2 r3 r4 h1 h2 h3 h4 =>
    eri_array_scaleColumn_pos boysT b hb i hi m x hx hn r1 r2 r3 r4 h1 h2 h3 h4

/-- **C13.4, electron-repulsion array, `x < 0`**: the entry is multiplied by `-1` once for each of its
four indices that is a function of column `m` of shell `i`. -/
theorem eri_array_scaleColumn_neg (boysT : ℝ → ℕ → Tab ℝ) (b : Basis ℝ) (hb : b.WellFormed)
    (i : ℕ) (hi : i < b.size) (m : ℕ) (x : ℝ) (hx : x < 0) (hn : b[i].unitNorm = true)
    (r1 r2 r3 r4 : ℕ) (h1 : r1 < b.total) (h2 : r2 < b.total)
    (h3 : r3 < b.total) (h4 : r4 < b.total) :
    entry4 (b.scaleColumnAt i m x) (b.scaleColumnAt i m x) (b.scaleColumnAt i m x)
        (b.scaleColumnAt i m x)
        (quartetBlocks (b.scaleColumnAt i m x) (b.scaleColumnAt i m x) (b.scaleColumnAt i m x)
          (b.scaleColumnAt i m x) (eriBlk boysT (b.scaleColumnAt i m x))) r1 r2 r3 r4
      = colSign b i m r1 * colSign b i m r2 * colSign b i m r3 * colSign b i m r4
        * entry4 b b b b (quartetBlocks b b b b (eriBlk boysT b)) r1 r2 r3 r4 := by
  have := entry4_replaced (replaced_mapShell b i (fun s => s.scaleColumn m x) hi
      (scaleColumn_nseg b[i] m x) rfl) hi
    (shellOp_scaleColumn b[i] m x hn) (eri_blockLaws boysT) hb.eriReady r1 r2 r3 r4 h1 h2 h3 h4
  refine this.trans ?_
  simp only [scale_sign_neg x hx]
  rfl

theorem eri_flat_scaleColumn_neg (boysT : ℝ → ℕ → Tab ℝ) (b : Basis ℝ) (hb : b.WellFormed)
    (i : ℕ) (hi : i < b.size) (m : ℕ) (x : ℝ) (hx : x < 0) (hn : b[i].unitNorm = true)
    (r1 r2 r3 r4 : ℕ) (h1 : r1 < b.total) (h2 : r2 < b.total)
    (h3 : r3 < b.total) (h4 : r4 < b.total) :
    (assemble4 (b.scaleColumnAt i m x) (eriBlk boysT (b.scaleColumnAt i m x)))[
        ((r1 * b.total + r2) * b.total + r3) * b.total + r4]!
      = colSign b i m r1 * colSign b i m r2 * colSign b i m r3 * colSign b i m r4
        * (assemble4 b (eriBlk boysT b))[((r1 * b.total + r2) * b.total + r3) * b.total + r4]! :=
  assemble4_get_rel b _ _ _ (Basis.scaleColumnAt_total b i hi m x) r1 r2 r3 r4 h1 h2 h3 h4 _
    (eri_array_scaleColumn_neg boysT b hb i hi m x hx hn r1 r2 r3 r4 h1 h2 h3 h4)

end Arrays

end GB
