import GBProofs.SphRotation.Span
import GBProofs.SphericalNorm
/-!
# The matrix identity `T · D(R) = W · T` and the spherical functions of a moved shell
-/
namespace GB
open MvPolynomial Finset

/-- row form of `T · D(R) = W · T`: if `Y_{l,f} ∘ R = Σ_{f'} w f' · Y_{l,f'}` then
`Σ_a T[f,a] · repMat R cart a a' = Σ_{f'} w f' · T[f',a']` (`l ≤ 10`, any accepted spherical order,
any full component list, any linear map `R`). -/
theorem transEntry_mul_repMat_row (l : ℕ) (hl : l ≤ 10) {ls : List SphLabel} (hv : ValidSph l ls)
    {cart : List Comp} (hf : FullCart l cart) (R : E3 →ₗ[ℝ] E3) (f : ℕ) (w : ℕ → ℝ)
    (hW : substM (matOf R) (sphHarm l (labAt ls f))
        = ∑ f' ∈ range ls.length, w f' • sphHarm l (labAt ls f'))
    (a' : ℕ) (ha' : a' < cart.length) :
    ∑ a ∈ range cart.length,
        transEntry (K := ℝ) l (labAt ls f) (cart.getD a (0,0,0)) * repMat R cart a a'
      = ∑ f' ∈ range ls.length,
          w f' * transEntry (K := ℝ) l (labAt ls f') (cart.getD a' (0,0,0)) := by
  have hN : (normAng (cart.getD a' (0,0,0)) : ℝ) ≠ 0 := (normAng_pos _).ne'
  have h := congrArg (coeff (compFs (cart.getD a' (0,0,0)))) hW
  rw [sphHarm_eq_sum l hl _ (hv.labAt_inRange f).1 (hv.labAt_inRange f).2 hf, map_sum,
    coeff_sum, coeff_sum] at h
  have hL : ∀ a ∈ range cart.length,
      coeff (compFs (cart.getD a' (0,0,0)))
        (substM (matOf R) (C (transEntry (K := ℝ) l (labAt ls f) (cart.getD a (0,0,0))
          * normAng (cart.getD a (0,0,0))) * monoP (cart.getD a (0,0,0))))
      = (transEntry (K := ℝ) l (labAt ls f) (cart.getD a (0,0,0)) * repMat R cart a a')
          * normAng (cart.getD a' (0,0,0)) := by
    intro a _
    rw [map_mul, substM_monoP]
    have : substM (matOf R) (C (transEntry (K := ℝ) l (labAt ls f) (cart.getD a (0,0,0))
          * normAng (cart.getD a (0,0,0))))
        = C (transEntry (K := ℝ) l (labAt ls f) (cart.getD a (0,0,0))
          * normAng (cart.getD a (0,0,0))) := by
      simp [substM]
    rw [this, coeff_C_mul, repMat, rotCoef]
    field_simp
  have hR : ∀ f' ∈ range ls.length,
      coeff (compFs (cart.getD a' (0,0,0))) (w f' • sphHarm l (labAt ls f'))
        = (w f' * transEntry (K := ℝ) l (labAt ls f') (cart.getD a' (0,0,0)))
            * normAng (cart.getD a' (0,0,0)) := by
    intro f' _
    rw [coeff_smul, sphHarm_eq_sum l hl _ (hv.labAt_inRange f').1 (hv.labAt_inRange f').2 hf,
      coeff_sum_monoP hf.1 _ ha', smul_eq_mul, mul_assoc]
  rw [Finset.sum_congr rfl hL, Finset.sum_congr rfl hR, ← Finset.sum_mul, ← Finset.sum_mul] at h
  exact mul_right_cancel₀ hN h

/-- **`T · D(R) = W · T`** for every matrix `W` that represents the substitution on the spherical
functions: `Σ_a T[f,a] · repMat R cart a a' = Σ_{f'} W f f' · T[f',a']` (`l ≤ 10`, any accepted
spherical order, any full component list, any linear map `R`). -/
theorem transEntry_mul_repMat (l : ℕ) (hl : l ≤ 10) {ls : List SphLabel} (hv : ValidSph l ls)
    {cart : List Comp} (hf : FullCart l cart) (R : E3 →ₗ[ℝ] E3) (W : ℕ → ℕ → ℝ)
    (hW : ∀ f, substM (matOf R) (sphHarm l (labAt ls f))
        = ∑ f' ∈ range ls.length, W f f' • sphHarm l (labAt ls f'))
    (f a' : ℕ) (ha' : a' < cart.length) :
    ∑ a ∈ range cart.length,
        transEntry (K := ℝ) l (labAt ls f) (cart.getD a (0,0,0)) * repMat R cart a a'
      = ∑ f' ∈ range ls.length,
          W f f' * transEntry (K := ℝ) l (labAt ls f') (cart.getD a' (0,0,0)) :=
  transEntry_mul_repMat_row l hl hv hf R f (W f) (hW f) a' ha'

/-- **Existence form**: for a linear isometry `R`, `l ≤ 10` and an accepted spherical order there is
ONE `(2l+1)×(2l+1)` matrix `W` with `T · D(R) = W · T` for every full Cartesian component list. -/
theorem exists_sphRep_matrix (l : ℕ) (hl : l ≤ 10) {ls : List SphLabel} (hv : ValidSph l ls)
    (R : E3 ≃ₗᵢ[ℝ] E3) :
    ∃ W : ℕ → ℕ → ℝ, ∀ cart : List Comp, FullCart l cart → ∀ f a', a' < cart.length →
      ∑ a ∈ range cart.length,
          transEntry (K := ℝ) l (labAt ls f) (cart.getD a (0,0,0))
            * repMat R.toLinearEquiv.toLinearMap cart a a'
        = ∑ f' ∈ range ls.length,
            W f f' * transEntry (K := ℝ) l (labAt ls f') (cart.getD a' (0,0,0)) := by
  obtain ⟨W, hW⟩ := exists_sphRep l hl hv (matOf R.toLinearEquiv.toLinearMap) (matOf_orthogonal R)
  exact ⟨W, fun cart hf f a' ha' =>
    transEntry_mul_repMat l hl hv hf R.toLinearEquiv.toLinearMap W hW f a' ha'⟩

/-! ## Shells of the model -/

/-- entries of the shell's transformation table -/
lemma transTab_get2 (s : Shell ℝ) (f a : ℕ) :
    s.transTab.get2 f a = transEntry (K := ℝ) s.l (labAt s.sphOrd f) (s.cart.getD a (0,0,0)) := by
  simp [Shell.transTab, labAt, Shell.comp!]

/-- **the spherical function `f` of segment `m` of a shell**, as the model assembles it (before
the per-segment factor `norm_cont`): `Σ_a T[f,a] · (Cartesian function a)` -/
noncomputable def sphShellFnE (s : Shell ℝ) (m f : ℕ) (r : E3) : ℝ :=
  ∑ a ∈ range s.ncart, s.transTab.get2 f a * shellFnE s m a r

@[simp] lemma Shell.moved_sphOrd (s : Shell ℝ) (g : E3 → E3) : (s.moved g).sphOrd = s.sphOrd := rfl
@[simp] lemma Shell.moved_transTab (s : Shell ℝ) (g : E3 → E3) :
    (s.moved g).transTab = s.transTab := rfl

/-- **`T · D(R) = W · T` for a shell of the model** (the statement the assembled arrays need):
for a shell with `l ≤ 10`, an accepted spherical order and a full Cartesian list, and every rigid
motion `g`, there is a matrix `W` — depending only on the linear part of `g`, on `l` and on the
spherical order — with `Σ_a T[f,a] · repMat a a' = Σ_{f'} W f f' · T[f',a']`. -/
theorem transTab_mul_repMat (R : E3 ≃ₗᵢ[ℝ] E3) (l : ℕ) (hl : l ≤ 10) (ls : List SphLabel)
    (hv : ValidSph l ls) :
    ∃ W : ℕ → ℕ → ℝ, ∀ (g : E3 ≃ᵃⁱ[ℝ] E3), g.linearIsometryEquiv = R →
      ∀ s : Shell ℝ, s.l = l → s.sphOrd = ls → FullCart s.l s.cart →
        ∀ f a', a' < s.ncart →
          ∑ a ∈ range s.ncart, s.transTab.get2 f a * repMat (linPart g) s.cart a a'
            = ∑ f' ∈ range s.sphOrd.length, W f f' * s.transTab.get2 f' a' := by
  obtain ⟨W, hW⟩ := exists_sphRep_matrix l hl hv R
  refine ⟨W, ?_⟩
  rintro g rfl s rfl rfl hf f a' ha'
  simp only [transTab_get2]
  exact hW s.cart hf f a' ha'

/-- core of the covariance of the spherical functions: if row `f` of `T · D` is the combination
`Σ_{f'} w f' · (row f' of T)`, the function `f` of the moved shell at `g r` is the combination
`Σ_{f'} w f' · (function f' of the original shell at r)` -/
theorem sphShellFnE_moved_of (g : E3 ≃ᵃⁱ[ℝ] E3) (s : Shell ℝ) (hf : FullCart s.l s.cart)
    (m f : ℕ) (r : E3) (w : ℕ → ℝ)
    (hW' : ∀ a', a' < s.ncart →
      ∑ a ∈ range s.ncart, s.transTab.get2 f a * repMat (linPart g) s.cart a a'
        = ∑ f' ∈ range s.sphOrd.length, w f' * s.transTab.get2 f' a') :
    sphShellFnE (s.moved g) m f (g r)
      = ∑ f' ∈ range s.sphOrd.length, w f' * sphShellFnE s m f' r := by
  unfold sphShellFnE
  simp only [Shell.moved_ncart, Shell.moved_transTab]
  calc ∑ a ∈ range s.ncart, s.transTab.get2 f a * shellFnE (s.moved g) m a (g r)
      = ∑ a ∈ range s.ncart, ∑ a' ∈ range s.ncart,
          (s.transTab.get2 f a * repMat (linPart g) s.cart a a') * shellFnE s m a' r := by
        refine Finset.sum_congr rfl fun a ha => ?_
        rw [shellFnE_moved g s hf m a (Finset.mem_range.mp ha) r, Finset.mul_sum]
        refine Finset.sum_congr rfl fun a' _ => by ring
    _ = ∑ a' ∈ range s.ncart,
          (∑ f' ∈ range s.sphOrd.length, w f' * s.transTab.get2 f' a') * shellFnE s m a' r := by
        rw [Finset.sum_comm]
        refine Finset.sum_congr rfl fun a' ha' => ?_
        rw [← Finset.sum_mul, hW' a' (Finset.mem_range.mp ha')]
    _ = ∑ f' ∈ range s.sphOrd.length,
          w f' * ∑ a ∈ range s.ncart, s.transTab.get2 f' a * shellFnE s m a r := by
        simp_rw [Finset.sum_mul, Finset.mul_sum]
        rw [Finset.sum_comm]
        refine Finset.sum_congr rfl fun f' _ => Finset.sum_congr rfl fun a _ => by ring

/-- **The spherical functions of a moved shell** (existence form): there is a matrix `W` —
depending only on the linear part of the motion, on `l` and on the spherical order — with
`Y^{moved}_{m,f}(g r) = Σ_{f'} W f f' · Y_{m,f'}(r)`: pure shells are closed under every rigid
motion (translations, proper and improper rotations) and transform by `(2l+1)×(2l+1)` matrices.
(`sphShellFnE_moved` in `Rep.lean` gives `W` explicitly.) -/
theorem sphShellFn_moved (R : E3 ≃ₗᵢ[ℝ] E3) (l : ℕ) (hl : l ≤ 10) (ls : List SphLabel)
    (hv : ValidSph l ls) :
    ∃ W : ℕ → ℕ → ℝ, ∀ (g : E3 ≃ᵃⁱ[ℝ] E3), g.linearIsometryEquiv = R →
      ∀ s : Shell ℝ, s.l = l → s.sphOrd = ls → FullCart s.l s.cart →
        ∀ m f r, sphShellFnE (s.moved g) m f (g r)
          = ∑ f' ∈ range s.sphOrd.length, W f f' * sphShellFnE s m f' r := by
  obtain ⟨W, hW⟩ := transTab_mul_repMat R l hl ls hv
  refine ⟨W, ?_⟩
  intro g hg s hl' hs hf m f r
  exact sphShellFnE_moved_of g s hf m f r (W f) (hW g hg s hl' hs hf f)

end GB
