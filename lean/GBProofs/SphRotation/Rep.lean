import GBProofs.SphRotation.Metric
import Mathlib.Data.Matrix.Mul
/-!
# The explicit representation matrix `W = T D S Tᵀ` of a pure shell and its orthogonality
-/
namespace GB
open MvPolynomial Finset Matrix

/-- rows of the transformation matrix over the default component list -/
noncomputable def sphTm (l : ℕ) (ls : List SphLabel) :
    Matrix (Fin ls.length) (Fin (defaultCart l).length) ℝ :=
  Matrix.of fun f a => transEntry (K := ℝ) l (labAt ls f) ((defaultCart l).getD a (0,0,0))

noncomputable def sphDm (R : E3 →ₗ[ℝ] E3) (l : ℕ) :
    Matrix (Fin (defaultCart l).length) (Fin (defaultCart l).length) ℝ :=
  Matrix.of fun a a' => repMat R (defaultCart l) a a'

noncomputable def sphSm (l : ℕ) :
    Matrix (Fin (defaultCart l).length) (Fin (defaultCart l).length) ℝ :=
  Matrix.of fun a a' => Sov ((defaultCart l).getD a (0,0,0)) ((defaultCart l).getD a' (0,0,0))

/-- `W = T · D(R) · S · Tᵀ` (sums over the default component list) -/
noncomputable def sphRepM (R : E3 →ₗ[ℝ] E3) (l : ℕ) (ls : List SphLabel) :
    Matrix (Fin ls.length) (Fin ls.length) ℝ :=
  sphTm l ls * sphDm R l * sphSm l * (sphTm l ls)ᵀ

/-- **the representation matrix of a pure shell** of angular momentum `l` with spherical order `ls`
under the linear map `R`: `W = T · D(R) · S · Tᵀ`, with `T` the Cartesian → spherical matrix, `D(R)`
the Cartesian representation matrix `repMat` and `S` the overlap metric `Sov`, all over the default
component list; `0` outside `(2l+1) × (2l+1)`. -/
noncomputable def sphRep (R : E3 →ₗ[ℝ] E3) (l : ℕ) (ls : List SphLabel) (f f' : ℕ) : ℝ :=
  if h : f < ls.length ∧ f' < ls.length then sphRepM R l ls ⟨f, h.1⟩ ⟨f', h.2⟩ else 0

lemma sphRep_fin (R : E3 →ₗ[ℝ] E3) (l : ℕ) (ls : List SphLabel) (f f' : Fin ls.length) :
    sphRep R l ls f f' = sphRepM R l ls f f' := by
  simp [sphRep]

/-- the Gram matrix as a double sum over `Fin` -/
lemma gram_fin (l : ℕ) (r r' : SphLabel) :
    gram l (defaultCart l) r r' = ∑ a : Fin (defaultCart l).length, ∑ a' : Fin (defaultCart l).length,
      transEntry (K := ℝ) l r ((defaultCart l).getD a (0,0,0))
        * Sov ((defaultCart l).getD a (0,0,0)) ((defaultCart l).getD a' (0,0,0))
        * transEntry (K := ℝ) l r' ((defaultCart l).getD a' (0,0,0)) := by
  unfold gram
  rw [list_sum_map_eq_range _ (0,0,0), Finset.sum_range]
  refine Finset.sum_congr rfl fun a _ => ?_
  rw [list_sum_map_eq_range _ (0,0,0), Finset.sum_range]

/-- `T S Tᵀ = 1` -/
theorem sphTm_sphSm_sphTm (l : ℕ) (hl : l ≤ 10) {ls : List SphLabel} (hv : ValidSph l ls) :
    sphTm l ls * sphSm l * (sphTm l ls)ᵀ = 1 := by
  ext f f'
  have hg := gram_validSph l hl hv f.2 f'.2
  rw [gram_fin] at hg
  have : (if f = f' then (1:ℝ) else 0) = if (f : ℕ) = f' then 1 else 0 := by
    simp [Fin.ext_iff]
  rw [Matrix.one_apply, this, ← hg, Matrix.mul_assoc, Matrix.mul_apply]
  refine Finset.sum_congr rfl fun a _ => ?_
  rw [Matrix.mul_apply, Finset.mul_sum]
  refine Finset.sum_congr rfl fun a' _ => ?_
  simp only [sphTm, sphSm, Matrix.of_apply, Matrix.transpose_apply]
  ring

/-- **uniqueness**: every matrix that represents the substitution on the spherical functions is
`T D S Tᵀ` -/
theorem sphRepM_unique (l : ℕ) (hl : l ≤ 10) {ls : List SphLabel} (hv : ValidSph l ls)
    (R : E3 →ₗ[ℝ] E3) (W : ℕ → ℕ → ℝ)
    (hW : ∀ f, substM (matOf R) (sphHarm l (labAt ls f))
        = ∑ f' ∈ range ls.length, W f f' • sphHarm l (labAt ls f')) :
    (Matrix.of fun f f' : Fin ls.length => W f f') = sphRepM R l ls
      ∧ sphTm l ls * sphDm R l = sphRepM R l ls * sphTm l ls := by
  set W0 : Matrix (Fin ls.length) (Fin ls.length) ℝ := Matrix.of fun f f' => W f f' with hW0
  have h0 : sphTm l ls * sphDm R l = W0 * sphTm l ls := by
    ext f a'
    have := transEntry_mul_repMat l hl hv (fullCart_defaultCart l) R W hW f a' a'.2
    rw [Finset.sum_range, Finset.sum_range] at this
    rw [Matrix.mul_apply, Matrix.mul_apply]
    exact this
  have h1 : W0 = sphRepM R l ls := by
    calc W0 = W0 * (sphTm l ls * sphSm l * (sphTm l ls)ᵀ) := by rw [sphTm_sphSm_sphTm l hl hv, Matrix.mul_one]
      _ = (W0 * sphTm l ls) * sphSm l * (sphTm l ls)ᵀ := by simp only [Matrix.mul_assoc]
      _ = sphRepM R l ls := by rw [← h0, sphRepM]
  exact ⟨h1, by rw [← h1, h0]⟩

/-- **`Y_{l,f} ∘ R = Σ_{f'} W f f' · Y_{l,f'}` with the explicit matrix `W = sphRep R l ls`**
(`l ≤ 10`, accepted order, `R` a linear isometry) -/
theorem sphRep_substM (l : ℕ) (hl : l ≤ 10) {ls : List SphLabel} (hv : ValidSph l ls)
    (R : E3 ≃ₗᵢ[ℝ] E3) {f : ℕ} (hf : f < ls.length) :
    substM (matOf R.toLinearEquiv.toLinearMap) (sphHarm l (labAt ls f))
      = ∑ f' ∈ range ls.length,
          sphRep R.toLinearEquiv.toLinearMap l ls f f' • sphHarm l (labAt ls f') := by
  obtain ⟨W, hW⟩ := exists_sphRep l hl hv (matOf R.toLinearEquiv.toLinearMap) (matOf_orthogonal R)
  have hu := (sphRepM_unique l hl hv R.toLinearEquiv.toLinearMap W hW).1
  rw [hW f]
  refine Finset.sum_congr rfl fun f' hf' => ?_
  have := congrFun (congrFun hu ⟨f, hf⟩) ⟨f', Finset.mem_range.mp hf'⟩
  rw [sphRep, dif_pos ⟨hf, Finset.mem_range.mp hf'⟩, ← this]
  rfl

/-- `T · D(R) = W · T` over the default component list -/
theorem sphTm_sphDm (l : ℕ) (hl : l ≤ 10) {ls : List SphLabel} (hv : ValidSph l ls) (R : E3 ≃ₗᵢ[ℝ] E3) :
    sphTm l ls * sphDm R.toLinearEquiv.toLinearMap l
      = sphRepM R.toLinearEquiv.toLinearMap l ls * sphTm l ls := by
  obtain ⟨W, hW⟩ := exists_sphRep l hl hv (matOf R.toLinearEquiv.toLinearMap) (matOf_orthogonal R)
  exact (sphRepM_unique l hl hv R.toLinearEquiv.toLinearMap W hW).2

/-- **`W Wᵀ = 1`**: the representation matrix of a pure shell under a linear isometry is
orthogonal -/
theorem sphRepM_orthogonal (l : ℕ) (hl : l ≤ 10) {ls : List SphLabel} (hv : ValidSph l ls)
    (R : E3 ≃ₗᵢ[ℝ] E3) :
    sphRepM R.toLinearEquiv.toLinearMap l ls * (sphRepM R.toLinearEquiv.toLinearMap l ls)ᵀ = 1 := by
  set Wm := sphRepM R.toLinearEquiv.toLinearMap l ls with hWm
  set D := sphDm R.toLinearEquiv.toLinearMap l with hD
  have hTST := sphTm_sphSm_sphTm l hl hv
  have hTD : sphTm l ls * D = Wm * sphTm l ls := sphTm_sphDm l hl hv R
  have hDSD : D * sphSm l * Dᵀ = sphSm l := by
    ext a b
    have := repMat_Sov R (fullCart_defaultCart l) a.2 b.2
    rw [Finset.sum_range] at this
    have e : (sphSm l) a b = Sov ((defaultCart l).getD a (0,0,0)) ((defaultCart l).getD b (0,0,0)) := rfl
    rw [e, ← this, Matrix.mul_assoc, Matrix.mul_apply]
    refine Finset.sum_congr rfl fun a' _ => ?_
    rw [Matrix.mul_apply, Finset.mul_sum, Finset.sum_range]
    refine Finset.sum_congr rfl fun b' _ => ?_
    simp only [hD, sphDm, sphSm, Matrix.of_apply, Matrix.transpose_apply]
    ring
  calc Wm * Wmᵀ = Wm * (sphTm l ls * sphSm l * (sphTm l ls)ᵀ) * Wmᵀ := by rw [hTST, Matrix.mul_one]
    _ = (Wm * sphTm l ls) * sphSm l * (Wm * sphTm l ls)ᵀ := by
        rw [Matrix.transpose_mul]; simp only [Matrix.mul_assoc]
    _ = (sphTm l ls * D) * sphSm l * (sphTm l ls * D)ᵀ := by rw [hTD]
    _ = sphTm l ls * (D * sphSm l * Dᵀ) * (sphTm l ls)ᵀ := by
        rw [Matrix.transpose_mul]; simp only [Matrix.mul_assoc]
    _ = 1 := by rw [hDSD, hTST]

/-- **`W Wᵀ = 1`, entrywise**: `Σ_{f''} W f f'' · W f' f'' = δ_{ff'}` -/
theorem sphRep_orthogonal (l : ℕ) (hl : l ≤ 10) {ls : List SphLabel} (hv : ValidSph l ls)
    (R : E3 ≃ₗᵢ[ℝ] E3) {f f' : ℕ} (hf : f < ls.length) (hf' : f' < ls.length) :
    ∑ f'' ∈ range ls.length, sphRep R.toLinearEquiv.toLinearMap l ls f f''
        * sphRep R.toLinearEquiv.toLinearMap l ls f' f''
      = if f = f' then 1 else 0 := by
  have h := congrFun (congrFun (sphRepM_orthogonal l hl hv R) ⟨f, hf⟩) ⟨f', hf'⟩
  rw [Matrix.mul_apply, Matrix.one_apply] at h
  rw [Finset.sum_range]
  have e : (if (⟨f, hf⟩ : Fin ls.length) = ⟨f', hf'⟩ then (1:ℝ) else 0) = if f = f' then 1 else 0 := by
    simp [Fin.ext_iff]
  rw [← e, ← h]
  refine Finset.sum_congr rfl fun f'' _ => ?_
  rw [Matrix.transpose_apply, ← sphRep_fin, ← sphRep_fin]

/-! ## Shells of the model, with the explicit matrix -/

/-- **`T · D(R) = W · T` for a shell of the model, `W = sphRep`** (the matrix identity the
assembled arrays over pure shells need): for a shell with `l ≤ 10`, an accepted spherical order
and a full Cartesian component list, and every rigid motion `g`,
`Σ_a T[f,a] · repMat a a' = Σ_{f'} W f f' · T[f',a']` with `W = sphRep (linPart g) l sphOrd`. -/
theorem transTab_mul_sphRep (g : E3 ≃ᵃⁱ[ℝ] E3) (s : Shell ℝ) (hl : s.l ≤ 10)
    (hv : ValidSph s.l s.sphOrd) (hf : FullCart s.l s.cart) {f a' : ℕ}
    (hf' : f < s.sphOrd.length) (ha' : a' < s.ncart) :
    ∑ a ∈ range s.ncart, s.transTab.get2 f a * repMat (linPart g) s.cart a a'
      = ∑ f' ∈ range s.sphOrd.length,
          sphRep (linPart g) s.l s.sphOrd f f' * s.transTab.get2 f' a' := by
  simp only [transTab_get2]
  exact transEntry_mul_repMat_row s.l hl hv hf (linPart g) f _
    (sphRep_substM s.l hl hv g.linearIsometryEquiv hf') a' ha'

/-- **The spherical functions of a moved shell, explicit matrix**:
`Y^{moved}_{m,f}(g r) = Σ_{f'} W f f' · Y_{m,f'}(r)` with `W = sphRep (linPart g) l sphOrd`
`= T D S Tᵀ` — an orthogonal `(2l+1)×(2l+1)` matrix (`sphRep_orthogonal`) that depends only on
the linear part of `g`, on `l` and on the spherical order. -/
theorem sphShellFnE_moved (g : E3 ≃ᵃⁱ[ℝ] E3) (s : Shell ℝ) (hl : s.l ≤ 10)
    (hv : ValidSph s.l s.sphOrd) (hf : FullCart s.l s.cart) (m : ℕ) {f : ℕ}
    (hf' : f < s.sphOrd.length) (r : E3) :
    sphShellFnE (s.moved g) m f (g r)
      = ∑ f' ∈ range s.sphOrd.length,
          sphRep (linPart g) s.l s.sphOrd f f' * sphShellFnE s m f' r :=
  sphShellFnE_moved_of g s hf m f r _ fun _ ha' => transTab_mul_sphRep g s hl hv hf hf' ha'

/-! ## With the contraction norm: the basis functions of the assembled arrays -/

/-- the per-segment contraction norm of a shell: `1/√Φ_m` (`norm_cont`), or `1` if the shell opts
out of normalisation -/
noncomputable def segNorm (s : Shell ℝ) (m : ℕ) : ℝ :=
  if s.unitNorm then 1 / √(segPhi s m) else 1

lemma normCont_eq_segNorm (s : Shell ℝ) (hs : ∀ k < s.nprim, 0 < s.exp! k)
    (hf : FullCart s.l s.cart) (m : ℕ) {a : ℕ} (ha : a < s.ncart) :
    (normCont s).get2 m a = segNorm s m := by
  unfold segNorm
  by_cases hn : s.unitNorm = true
  · rw [if_pos hn]
    exact normCont_eq s m a hn hs (hf.degree ha)
  · rw [if_neg hn]
    simp [normCont, hn]

/-- **basis function `(m, f)` of a pure shell as the model assembles it**: the combination of the
Cartesian functions with the shell's `weights` (`T[f,a] · norm_cont[m,a]`, `GBModel/Assemble.lean`) -/
noncomputable def sphFnE (s : Shell ℝ) (m f : ℕ) (r : E3) : ℝ :=
  ∑ a ∈ range s.ncart, s.weights.get3 m f a * shellFnE s m a r

lemma sphFnE_eq (s : Shell ℝ) (hsph : s.sph = true) (hs : ∀ k < s.nprim, 0 < s.exp! k)
    (hf : FullCart s.l s.cart) (m f : ℕ) (r : E3) :
    sphFnE s m f r = segNorm s m * sphShellFnE s m f r := by
  unfold sphFnE sphShellFnE
  rw [Finset.mul_sum]
  refine Finset.sum_congr rfl fun a ha => ?_
  simp only [Shell.weights, tab3_get, hsph, if_true]
  rw [normCont_eq_segNorm s hs hf m (Finset.mem_range.mp ha)]
  ring

/-- **The basis functions of a pure shell under a rigid motion** (with the weights of the
assembly, contraction norm included): `χ^{moved}_{m,f}(g r) = Σ_{f'} W f f' · χ_{m,f'}(r)`,
`W = sphRep (linPart g) l sphOrd`. -/
theorem sphFnE_moved (g : E3 ≃ᵃⁱ[ℝ] E3) (s : Shell ℝ) (hsph : s.sph = true) (hl : s.l ≤ 10)
    (hs : ∀ k < s.nprim, 0 < s.exp! k)
    (hv : ValidSph s.l s.sphOrd) (hf : FullCart s.l s.cart) (m : ℕ) {f : ℕ}
    (hf' : f < s.sphOrd.length) (r : E3) :
    sphFnE (s.moved g) m f (g r)
      = ∑ f' ∈ range s.sphOrd.length, sphRep (linPart g) s.l s.sphOrd f f' * sphFnE s m f' r := by
  rw [sphFnE_eq (s.moved g) hsph hs hf, sphShellFnE_moved g s hl hv hf m hf' r, Finset.mul_sum]
  refine Finset.sum_congr rfl fun f' _ => ?_
  rw [sphFnE_eq s hsph hs hf]
  have : segNorm (s.moved g) m = segNorm s m := rfl
  rw [this]
  ring

end GB
