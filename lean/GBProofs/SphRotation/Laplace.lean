import GBProofs.RigidMotion
import Mathlib.Algebra.MvPolynomial.PDeriv
/-!
# The Laplacian commutes with orthogonal substitutions
-/
namespace GB
open MvPolynomial

/-- chain rule for `pderiv` of a substitution -/
theorem pderiv_aeval_chain {σ τ R : Type*} [Fintype σ] [CommSemiring R]
    (f : σ → MvPolynomial τ R) (j : τ) (p : MvPolynomial σ R) :
    pderiv j (aeval f p) = ∑ i, aeval f (pderiv i p) * pderiv j (f i) := by
  classical
  induction p using MvPolynomial.induction_on with
  | C a => simp
  | add p q hp hq => simp [hp, hq, add_mul, Finset.sum_add_distrib]
  | mul_X p k hp =>
    simp only [map_mul, aeval_X, Derivation.leibniz, smul_eq_mul, hp, pderiv_X, map_add]
    simp only [add_mul, Finset.sum_add_distrib, Finset.mul_sum, Pi.single_apply]
    congr 1
    · rw [Finset.sum_eq_single k]
      · simp
      · intro b _ hb
        simp [Ne.symm hb]
      · simp
    · refine Finset.sum_congr rfl fun i _ => by ring

/-- the substitution `p ↦ p ∘ M`, `(p ∘ M)(x) = p (M x)` -/
noncomputable def substM (M : Fin 3 → Fin 3 → ℝ) :
    MvPolynomial (Fin 3) ℝ →ₐ[ℝ] MvPolynomial (Fin 3) ℝ := aeval (rotLin M)

/-- the Laplacian `Σ_i ∂_i²` -/
noncomputable def lapMv {R : Type*} [CommSemiring R] (p : MvPolynomial (Fin 3) R) :
    MvPolynomial (Fin 3) R := ∑ i, pderiv i (pderiv i p)

lemma pderiv_rotLin (M : Fin 3 → Fin 3 → ℝ) (i j : Fin 3) :
    pderiv j (rotLin M i) = C (M i j) := by
  classical
  simp only [rotLin, map_sum, pderiv_C_mul, pderiv_X, Pi.single_apply]
  rw [Finset.sum_eq_single j]
  · simp
  · intro b _ hb; simp [hb]
  · simp

/-- first derivatives of `p ∘ M` -/
theorem pderiv_substM (M : Fin 3 → Fin 3 → ℝ) (j : Fin 3) (p : MvPolynomial (Fin 3) ℝ) :
    pderiv j (substM M p) = ∑ i, C (M i j) * substM M (pderiv i p) := by
  unfold substM
  rw [pderiv_aeval_chain]
  refine Finset.sum_congr rfl fun i _ => ?_
  rw [pderiv_rotLin, mul_comm]

/-- **The Laplacian commutes with orthogonal substitutions**: if `M Mᵀ = 1` then
`Δ (p ∘ M) = (Δ p) ∘ M`. -/
theorem lapMv_substM (M : Fin 3 → Fin 3 → ℝ)
    (hM : ∀ i k, ∑ j, M i j * M k j = if i = k then 1 else 0) (p : MvPolynomial (Fin 3) ℝ) :
    lapMv (substM M p) = substM M (lapMv p) := by
  unfold lapMv
  simp only [pderiv_substM, map_sum, pderiv_C_mul, Finset.mul_sum]
  -- Σ_j Σ_i Σ_k C (M i j) * (C (M k j) * (∂_k ∂_i p) ∘ M)
  rw [Finset.sum_comm]
  refine Finset.sum_congr rfl fun i _ => ?_
  rw [Finset.sum_comm]
  have : ∀ k, ∑ j, C (M i j) * (C (M k j) * substM M (pderiv k (pderiv i p)))
      = C (∑ j, M i j * M k j) * substM M (pderiv k (pderiv i p)) := by
    intro k
    rw [map_sum, Finset.sum_mul]
    refine Finset.sum_congr rfl fun j _ => ?_
    rw [C_mul]; ring
  simp only [this, hM]
  rw [Finset.sum_eq_single i]
  · simp
  · intro b _ hb; simp [Ne.symm hb]
  · simp

/-- `p ∘ M` is homogeneous of the same degree -/
theorem substM_homog (M : Fin 3 → Fin 3 → ℝ) {p : MvPolynomial (Fin 3) ℝ} {l : ℕ}
    (hp : p.IsHomogeneous l) : (substM M p).IsHomogeneous l := by
  have h := hp.aeval (rotLin M) (rotLin_homog M)
  rwa [one_mul] at h

/-- `(p ∘ M)(u) = p (M u)` -/
theorem eval_substM (M : Fin 3 → Fin 3 → ℝ) (p : MvPolynomial (Fin 3) ℝ) (u : Fin 3 → ℝ) :
    eval u (substM M p) = eval (fun i => ∑ j, M i j * u j) p := by
  unfold substM
  induction p using MvPolynomial.induction_on with
  | C a => simp
  | add p q hp hq => simp [hp, hq]
  | mul_X p k hp => simp [hp, eval_rotLin]

/-- the monomial `x^c` as a polynomial -/
noncomputable def monoP (c : Comp) : MvPolynomial (Fin 3) ℝ := monomial (compFs c) 1

lemma monoP_eq (c : Comp) : monoP c = X 0 ^ c.1 * X 1 ^ c.2.1 * X 2 ^ c.2.2 := by
  rw [monoP, monomial_eq]
  simp [Finsupp.prod_fintype, Fin.prod_univ_three]

/-- `rotPoly M c` is the substitution of `M` in the monomial `x^c` -/
theorem substM_monoP (M : Fin 3 → Fin 3 → ℝ) (c : Comp) : substM M (monoP c) = rotPoly M c := by
  rw [monoP_eq]
  simp [substM, rotPoly]

/-- **the matrix of a linear isometry of `E3` is orthogonal**: `M Mᵀ = 1` -/
theorem matOf_orthogonal (R : E3 ≃ₗᵢ[ℝ] E3) (i k : Fin 3) :
    ∑ j, matOf R.toLinearEquiv.toLinearMap i j * matOf R.toLinearEquiv.toLinearMap k j
      = if i = k then 1 else 0 := by
  classical
  set A : Matrix (Fin 3) (Fin 3) ℝ := Matrix.of (matOf R.toLinearEquiv.toLinearMap) with hA
  have h1 : A.transpose * A = 1 := by
    ext j j'
    rw [Matrix.mul_apply, Matrix.one_apply]
    have hin : inner ℝ (R (EuclideanSpace.single j (1:ℝ))) (R (EuclideanSpace.single j' (1:ℝ)))
        = inner ℝ (EuclideanSpace.single j (1:ℝ)) (EuclideanSpace.single j' (1:ℝ)) :=
      R.inner_map_map _ _
    rw [EuclideanSpace.inner_single_left, PiLp.single_apply] at hin
    have hl : inner ℝ (R (EuclideanSpace.single j (1:ℝ))) (R (EuclideanSpace.single j' (1:ℝ)))
        = ∑ x, A.transpose j x * A x j' := by
      rw [PiLp.inner_apply]
      refine Finset.sum_congr rfl fun x _ => ?_
      simp [hA, matOf, mul_comm]
    rw [← hl, hin]
    by_cases h : j = j' <;> simp [h]
  have h2 : A * A.transpose = 1 := mul_eq_one_comm.mp h1
  have := congrFun (congrFun h2 i) k
  rw [Matrix.mul_apply, Matrix.one_apply] at this
  simpa [hA] using this

end GB
