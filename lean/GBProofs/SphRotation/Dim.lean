import GBProofs.SphRotation.Laplace
import Mathlib.LinearAlgebra.Dimension.Constructions
import Mathlib.LinearAlgebra.FiniteDimensional.Defs
/-!
# The space of harmonic homogeneous polynomials of degree `l` has dimension at most `2l+1`
-/
namespace GB
open MvPolynomial

lemma lapMv_add (p q : MvPolynomial (Fin 3) ℝ) : lapMv (p + q) = lapMv p + lapMv q := by
  simp [lapMv, Finset.sum_add_distrib]

lemma lapMv_smul (a : ℝ) (p : MvPolynomial (Fin 3) ℝ) : lapMv (a • p) = a • lapMv p := by
  simp [lapMv, Finset.smul_sum]

@[simp] lemma lapMv_zero : lapMv (0 : MvPolynomial (Fin 3) ℝ) = 0 := by simp [lapMv]

/-- **`Harm l`**: the real vector space of the polynomials in `x, y, z` that are homogeneous of
degree `l` and have zero Laplacian -/
noncomputable def Harm (l : ℕ) : Submodule ℝ (MvPolynomial (Fin 3) ℝ) where
  carrier := {p | p.IsHomogeneous l ∧ lapMv p = 0}
  add_mem' := by
    rintro p q ⟨hp, hp'⟩ ⟨hq, hq'⟩
    exact ⟨hp.add hq, by rw [lapMv_add, hp', hq', add_zero]⟩
  zero_mem' := ⟨isHomogeneous_zero _ _ _, lapMv_zero⟩
  smul_mem' := by
    rintro a p ⟨hp, hp'⟩
    refine ⟨?_, by rw [lapMv_smul, hp', smul_zero]⟩
    rw [smul_eq_C_mul]
    exact hp.C_mul a

lemma mem_Harm {l : ℕ} {p : MvPolynomial (Fin 3) ℝ} :
    p ∈ Harm l ↔ p.IsHomogeneous l ∧ lapMv p = 0 := Iff.rfl

/-- coefficients of the Laplacian -/
lemma coeff_lapMv (p : MvPolynomial (Fin 3) ℝ) (e : Fin 3 →₀ ℕ) :
    coeff e (lapMv p) = ∑ i, coeff (e + Finsupp.single i 2) p * ((e i + 2 : ℕ) : ℝ) * ((e i + 1 : ℕ) : ℝ) := by
  unfold lapMv
  rw [coeff_sum]
  refine Finset.sum_congr rfl fun i _ => ?_
  rw [coeff_pderiv, coeff_pderiv, add_assoc, ← Finsupp.single_add]
  simp only [Finsupp.coe_add, Pi.add_apply, Finsupp.single_eq_same]
  push_cast
  ring

/-- a polynomial with zero Laplacian all of whose coefficients with `z`-exponent `0` or `1` vanish
is zero (the equation `Δ p = 0` is a recursion in the `z`-exponent) -/
theorem eq_zero_of_lapMv_eq_zero (p : MvPolynomial (Fin 3) ℝ) (hp : lapMv p = 0)
    (h01 : ∀ d : Fin 3 →₀ ℕ, d 2 ≤ 1 → coeff d p = 0) : p = 0 := by
  have key : ∀ k : ℕ, ∀ d : Fin 3 →₀ ℕ, d 2 = k → coeff d p = 0 := by
    intro k
    induction k using Nat.strong_induction_on with
    | _ k ih =>
      intro d hd
      rcases Nat.lt_or_ge k 2 with hk | hk
      · exact h01 d (by omega)
      · -- `d = e + 2 e_z`
        obtain ⟨e, rfl⟩ : ∃ e : Fin 3 →₀ ℕ, d = e + Finsupp.single 2 2 := by
          refine ⟨d - Finsupp.single 2 2, ?_⟩
          ext i
          fin_cases i <;> simp
          omega
        have he : e 2 + 2 = k := by simpa using hd
        have h := coeff_lapMv p e
        rw [hp, coeff_zero, Fin.sum_univ_three] at h
        have h0 : coeff (e + Finsupp.single 0 2) p = 0 :=
          ih (e 2) (by omega) _ (by simp)
        have h1 : coeff (e + Finsupp.single 1 2) p = 0 :=
          ih (e 2) (by omega) _ (by simp)
        rw [h0, h1] at h
        have hne : (((e 2 + 2 : ℕ) : ℝ) * ((e 2 + 1 : ℕ) : ℝ)) ≠ 0 := by positivity
        have : coeff (e + Finsupp.single 2 2) p * (((e 2 + 2 : ℕ) : ℝ) * ((e 2 + 1 : ℕ) : ℝ)) = 0 := by
          linear_combination -h
        exact (mul_eq_zero.mp this).resolve_right hne
  ext d
  rw [coeff_zero]
  exact key _ d rfl

/-- the `2l+1` coefficients that determine a harmonic homogeneous polynomial of degree `l`:
those of `x^n y^{l-n}` (`n ≤ l`) and of `x^n y^{l-1-n} z` (`n < l`) -/
noncomputable def harmCoords (l : ℕ) :
    Harm l →ₗ[ℝ] (Fin (l + 1) → ℝ) × (Fin l → ℝ) where
  toFun p := (fun n => coeff (compFs ((n : ℕ), l - n, 0)) p.1,
              fun n => coeff (compFs ((n : ℕ), l - 1 - n, 1)) p.1)
  map_add' p q := by ext <;> simp
  map_smul' a p := by ext <;> simp

theorem harmCoords_injective (l : ℕ) : Function.Injective (harmCoords l) := by
  rw [← LinearMap.ker_eq_bot, LinearMap.ker_eq_bot']
  rintro ⟨p, hhom, hlap⟩ h
  have h1 : ∀ n : Fin (l + 1), coeff (compFs ((n : ℕ), l - n, 0)) p = 0 :=
    fun n => congrFun (congrArg Prod.fst h) n
  have h2 : ∀ n : Fin l, coeff (compFs ((n : ℕ), l - 1 - n, 1)) p = 0 :=
    fun n => congrFun (congrArg Prod.snd h) n
  have : p = 0 := by
    apply eq_zero_of_lapMv_eq_zero p hlap
    intro d hd
    by_cases hdeg : Finsupp.degree d = l
    · rw [Finsupp.degree_eq_sum, Fin.sum_univ_three] at hdeg
      rcases Nat.eq_zero_or_pos (d 2) with hz | hz
      · have := h1 ⟨d 0, by omega⟩
        rw [← compFs_of d]
        convert this using 3
        simp only
        refine Prod.ext rfl (Prod.ext ?_ ?_) <;> simp <;> omega
      · have := h2 ⟨d 0, by omega⟩
        rw [← compFs_of d]
        convert this using 3
        simp only
        refine Prod.ext rfl (Prod.ext ?_ ?_) <;> simp <;> omega
    · exact hhom.coeff_eq_zero hdeg
  exact Subtype.ext this

instance (l : ℕ) : FiniteDimensional ℝ (Harm l) :=
  FiniteDimensional.of_injective (harmCoords l) (harmCoords_injective l)

/-- **Dimension bound**: `dim Harm l ≤ 2l+1` (every `l`) -/
theorem finrank_Harm_le (l : ℕ) : Module.finrank ℝ (Harm l) ≤ 2 * l + 1 := by
  have h := LinearMap.finrank_le_finrank_of_injective (harmCoords_injective l)
  rw [Module.finrank_prod, Module.finrank_fin_fun, Module.finrank_fin_fun] at h
  omega

end GB
