import GBProofs.SphRotation.Dim
import GBProofs.Harmonics
/-!
# The model's spherical functions span `Harm l` (`l ≤ 10`)
-/
namespace GB
open MvPolynomial Finset

/-! ## List polynomials: coefficients -/

lemma monoMv_eq_monomial (c : Comp) (k : ℚ) : monoMv c k = monomial (compFs c) k := by
  rw [monoMv, monomial_eq]
  simp [Finsupp.prod_fintype, Fin.prod_univ_three, mul_assoc]

/-- for a list polynomial with distinct monomials the coefficient of the denoted polynomial is the
list coefficient -/
theorem coeff_toMv : ∀ (p : Poly3), (p.map (·.1)).Nodup → ∀ c : Comp,
    coeff (compFs c) (toMv p) = p.coeff c
  | [], _, c => by simp [Poly3.coeff]
  | (a, x) :: t, hnd, c => by
    classical
    have hnd' : a ∉ t.map (·.1) ∧ (t.map (·.1)).Nodup := by simpa using hnd
    rw [toMv_cons, coeff_add, coeff_toMv t hnd'.2 c, coeff_cons, monoMv_eq_monomial, coeff_monomial]
    by_cases h : a = c
    · subst h
      simp [coeff_eq_zero_of_not_mem t a hnd'.1]
    · have : compFs a ≠ compFs c := fun hh => h (compFs_injective hh)
      simp [h, this]

/-! ## Expansion of homogeneous polynomials over a full component list -/

lemma sph_list_sum_map_eq_range {β M : Type*} [AddCommMonoid M] (l : List β) (d : β) (f : β → M) :
    (l.map f).sum = ∑ i ∈ range l.length, f (l.getD i d) := by
  induction l with
  | nil => simp
  | cons x xs ih =>
    rw [List.map_cons, List.sum_cons, List.length_cons, Finset.sum_range_succ', ih]
    simp only [List.getD_cons_succ, List.getD_cons_zero]
    rw [add_comm]

/-- **a homogeneous polynomial of degree `l` is the combination of the monomials of a full
component list**, with its own coefficients -/
theorem homog_expand (P : MvPolynomial (Fin 3) ℝ) {l : ℕ} (hP : P.IsHomogeneous l)
    {cart : List Comp} (hf : FullCart l cart) :
    P = ∑ a ∈ range cart.length,
      C (coeff (compFs (cart.getD a (0,0,0))) P) * monoP (cart.getD a (0,0,0)) := by
  classical
  conv_lhs => rw [P.as_sum]
  have hsub : P.support ⊆ cart.toFinset.image compFs := by
    intro d hd
    have hdeg : Finsupp.degree d = l := by
      by_contra hne
      exact (mem_support_iff.mp hd) (hP.coeff_eq_zero hne)
    rw [Finsupp.degree_eq_sum, Fin.sum_univ_three] at hdeg
    refine Finset.mem_image.mpr ⟨(d 0, d 1, d 2), ?_, compFs_of d⟩
    exact List.mem_toFinset.mpr ((hf.2 _).mpr hdeg)
  rw [Finset.sum_subset hsub (fun d _ hd => by
      rw [notMem_support_iff.mp hd, monomial_zero]),
    Finset.sum_image (fun a _ b _ h => compFs_injective h),
    List.sum_toFinset _ hf.1, sph_list_sum_map_eq_range _ (0,0,0)]
  refine Finset.sum_congr rfl fun a _ => ?_
  rw [monoP, C_mul_monomial, mul_one]

/-- coefficient extraction from a combination of the monomials of a duplicate-free list -/
theorem coeff_sum_monoP {cart : List Comp} (hnd : cart.Nodup) (k : ℕ → ℝ) {b : ℕ}
    (hb : b < cart.length) :
    coeff (compFs (cart.getD b (0,0,0)))
      (∑ a ∈ range cart.length, C (k a) * monoP (cart.getD a (0,0,0))) = k b := by
  classical
  rw [coeff_sum, Finset.sum_eq_single b]
  · rw [monoP, C_mul_monomial, coeff_monomial]; simp
  · intro a ha hab
    rw [monoP, C_mul_monomial, coeff_monomial, if_neg]
    intro h
    have h' := compFs_injective h
    rw [← List.getElem_eq_getD (h := Finset.mem_range.mp ha),
      ← List.getElem_eq_getD (h := hb)] at h'
    exact hab ((hnd.getElem_inj_iff).mp h')
  · intro h; exact absurd (Finset.mem_range.mpr hb) h

/-! ## The model's spherical functions as polynomials -/

/-- `harmonic l m neg` as a real polynomial -/
noncomputable def harmR (l m : ℕ) (neg : Bool) : MvPolynomial (Fin 3) ℝ :=
  map (algebraMap ℚ ℝ) (toMv (harmonic l m neg))

/-- the normalisation (and sign) the model attaches to the function with label `lab`:
`± √(harmonic_norm² / (2l-1)!!)` -/
noncomputable def sphK (l : ℕ) (lab : SphLabel) : ℝ :=
  ((lab.sgn : ℚ) : ℝ) * √((normSq l lab.m : ℝ) / (dfactOdd l : ℝ))

/-- **the spherical function `Y_{l,lab}` of the model**, as a polynomial in `x, y, z` (the radial
Gaussian and the `l`-dependent radial norm are common to the whole shell): the real regular solid
harmonic `harmonic l m sine` times `sphK`.  By `sphHarm_eq_sum` it is
`Σ_a T[lab, a] · N^ang(a) · x^a` for every full component list. -/
noncomputable def sphHarm (l : ℕ) (lab : SphLabel) : MvPolynomial (Fin 3) ℝ :=
  sphK l lab • harmR l lab.m lab.sine

lemma lapMv_map (p : MvPolynomial (Fin 3) ℚ) :
    lapMv (map (algebraMap ℚ ℝ) p) = map (algebraMap ℚ ℝ) (lapMv p) := by
  simp [lapMv, pderiv_map]

theorem harmR_mem_Harm (l : ℕ) (hl : l ≤ 10) (m : ℕ) (neg : Bool) (hm : m ≤ l)
    (hneg : neg = true → 1 ≤ m) : harmR l m neg ∈ Harm l := by
  refine ⟨(homogeneous_le_10_mv l hl m neg hm hneg).map _, ?_⟩
  have h := harmonic_le_10_mv l hl m neg hm hneg
  rw [harmR, lapMv_map]
  unfold lapMv
  rw [h, map_zero]

/-- the model's spherical functions are harmonic and homogeneous of degree `l` (`l ≤ 10`) -/
theorem sphHarm_mem_Harm (l : ℕ) (hl : l ≤ 10) (lab : SphLabel) (hm : lab.m ≤ l)
    (hs : lab.sine = true → 1 ≤ lab.m) : sphHarm l lab ∈ Harm l :=
  (Harm l).smul_mem _ (harmR_mem_Harm l hl lab.m lab.sine hm hs)

lemma transEntry_real (l : ℕ) (lab : SphLabel) (c : Comp) :
    transEntry (K := ℝ) l lab c =
      ((lab.sgn * (harmonic l lab.m lab.sine).coeff c : ℚ) : ℝ) *
        √((normSq l lab.m : ℝ) * (c.dfact : ℝ) / (dfactOdd l : ℝ)) := by
  simp only [transEntry, transEntryQ, ofRat_real, Transc.sqrt, SphLabel.sgn]
  cases lab.negSign <;> simp

/-- `T[lab, c] · N^ang(c) = sphK · (coefficient of x^c in the harmonic)` -/
lemma transEntry_mul_normAng (l : ℕ) (lab : SphLabel) (c : Comp) :
    transEntry (K := ℝ) l lab c * normAng c
      = sphK l lab * (((harmonic l lab.m lab.sine).coeff c : ℚ) : ℝ) := by
  have hd : (0 : ℝ) < (c.dfact : ℝ) := by exact_mod_cast dfact_pos c
  have hsd : √(c.dfact : ℝ) ≠ 0 := (Real.sqrt_pos.2 hd).ne'
  have hn : (0 : ℝ) ≤ (normSq l lab.m : ℝ) / (dfactOdd l : ℝ) := by
    have h1 : (0 : ℝ) ≤ (normSq l lab.m : ℝ) := by exact_mod_cast normSq_nonneg l lab.m
    positivity
  have hna : (normAng c : ℝ) = 1 / √(c.dfact : ℝ) := by
    simp only [normAng, num_nat, Comp.dfact, Nat.cast_one, Transc.sqrt]
  have hsq : √((normSq l lab.m : ℝ) * (c.dfact : ℝ) / (dfactOdd l : ℝ))
      = √((normSq l lab.m : ℝ) / (dfactOdd l : ℝ)) * √(c.dfact : ℝ) := by
    rw [← Real.sqrt_mul hn]; congr 1; ring
  rw [transEntry_real, hna, hsq, sphK]
  push_cast
  field_simp

/-- **`Y_{l,lab} = Σ_a T[lab, a] · N^ang(a) · x^a`** over any full component list (`l ≤ 10`): the
combination of the *normalised* Cartesian monomials with the entries of the model's
transformation matrix is the polynomial `sphHarm l lab`. -/
theorem sphHarm_eq_sum (l : ℕ) (hl : l ≤ 10) (lab : SphLabel) (hm : lab.m ≤ l)
    (hs : lab.sine = true → 1 ≤ lab.m) {cart : List Comp} (hf : FullCart l cart) :
    sphHarm l lab = ∑ a ∈ range cart.length,
      C (transEntry (K := ℝ) l lab (cart.getD a (0,0,0)) * normAng (cart.getD a (0,0,0)))
        * monoP (cart.getD a (0,0,0)) := by
  have hmem := sphHarm_mem_Harm l hl lab hm hs
  rw [homog_expand _ hmem.1 hf]
  refine Finset.sum_congr rfl fun a _ => ?_
  congr 2
  obtain ⟨_, hnd, _⟩ := support_le_10 l hl lab.m lab.sine hm hs
  rw [transEntry_mul_normAng, sphHarm, coeff_smul, smul_eq_mul, harmR, coeff_map,
    coeff_toMv _ hnd]
  rfl

/-! ## Accepted spherical orders -/

/-- the label lists `validSphOrder` accepts: signs ignored, the entries are exactly the `2l+1`
functions `c0 … cl, s1 … sl`, each once (any order, any signs) -/
def ValidSph (l : ℕ) (ls : List SphLabel) : Prop :=
  (ls.map fun x => (x.sine, x.m)).Perm (sphKeys l)

theorem validSph_of_validSphOrder {l : ℕ} {labels : List String} {ls : List SphLabel}
    (h : validSphOrder l labels = some ls) : ValidSph l ls :=
  ((valid_iff_perm l labels ls).1 h).2

theorem validSph_defaultSph (l : ℕ) (hl : l ≤ 10) : ValidSph l (defaultSph l) :=
  validSph_of_validSphOrder (defaultSph_valid l hl)

theorem ValidSph.length {l : ℕ} {ls : List SphLabel} (hv : ValidSph l ls) :
    ls.length = 2 * l + 1 := by
  have := hv.length_eq
  simpa [sphKeys_length] using this

theorem ValidSph.inRange {l : ℕ} {ls : List SphLabel} (hv : ValidSph l ls) {i : ℕ}
    (hi : i < ls.length) : ls[i].m ≤ l ∧ (ls[i].sine = true → 1 ≤ ls[i].m) := by
  have : (ls[i].sine, ls[i].m) ∈ ls.map fun x => (x.sine, x.m) :=
    List.mem_map.2 ⟨ls[i], List.getElem_mem hi, rfl⟩
  exact mem_sphKeys l _ (hv.subset this)

/-- the label at position `f` (the model's out-of-range default is `c0`) -/
def labAt (ls : List SphLabel) (f : ℕ) : SphLabel := ls.getD f ⟨false, false, 0⟩

theorem ValidSph.labAt_inRange {l : ℕ} {ls : List SphLabel} (hv : ValidSph l ls) (f : ℕ) :
    (labAt ls f).m ≤ l ∧ ((labAt ls f).sine = true → 1 ≤ (labAt ls f).m) := by
  unfold labAt
  by_cases hf : f < ls.length
  · rw [← List.getElem_eq_getD (h := hf)]
    exact hv.inRange hf
  · simp [List.getD_eq_getElem?_getD, List.getElem?_eq_none (not_lt.mp hf)]

/-- orthonormality of the rows for every accepted order (restatement of `rows_orthonormal_valid`
with the permutation hypothesis) -/
theorem gram_validSph (l : ℕ) (hl : l ≤ 10) {ls : List SphLabel} (hv : ValidSph l ls)
    {i j : ℕ} (hi : i < ls.length) (hj : j < ls.length) :
    gram l (defaultCart l) (labAt ls i) (labAt ls j) = if i = j then 1 else 0 := by
  have hnd : (ls.map fun x => (x.sine, x.m)).Nodup := hv.nodup_iff.2 (sphKeys_nodup l)
  unfold labAt
  rw [← List.getElem_eq_getD (h := hi), ← List.getElem_eq_getD (h := hj),
    rows_orthonormal_le_10 l hl _ _ (hv.inRange hi).1 (hv.inRange hj).1 (hv.inRange hi).2
      (hv.inRange hj).2]
  by_cases hij : i = j
  · subst hij
    simp [sgn_mul_self]
  · rw [if_neg hij, if_neg]
    intro hk
    apply hij
    have hi' : i < (ls.map fun x => (x.sine, x.m)).length := by simpa using hi
    have hj' : j < (ls.map fun x => (x.sine, x.m)).length := by simpa using hj
    exact (hnd.getElem_inj_iff (hi := hi') (hj := hj')).1 (by simpa using hk)

/-! ## Linear independence and span -/

/-- if a combination of the functions of an accepted order vanishes, all its coefficients vanish -/
theorem sphHarm_coeffs_zero (l : ℕ) (hl : l ≤ 10) {ls : List SphLabel} (hv : ValidSph l ls)
    (g : ℕ → ℝ) (h0 : ∑ i ∈ range ls.length, g i • sphHarm l (labAt ls i) = 0) :
    ∀ j < ls.length, g j = 0 := by
  intro j hj
  have hf := fullCart_defaultCart l
  set cart := defaultCart l with hcart
  -- column sums vanish
  have hcol : ∀ a < cart.length,
      ∑ i ∈ range ls.length, g i * transEntry (K := ℝ) l (labAt ls i) (cart.getD a (0,0,0)) = 0 := by
    intro a ha
    have h1 := congrArg (coeff (compFs (cart.getD a (0,0,0)))) h0
    rw [coeff_sum, coeff_zero] at h1
    have hN : (normAng (cart.getD a (0,0,0)) : ℝ) ≠ 0 := (normAng_pos _).ne'
    have h2 : ∀ i ∈ range ls.length,
        coeff (compFs (cart.getD a (0,0,0))) (g i • sphHarm l (labAt ls i))
          = (g i * transEntry (K := ℝ) l (labAt ls i) (cart.getD a (0,0,0)))
              * normAng (cart.getD a (0,0,0)) := by
      intro i _
      rw [coeff_smul, sphHarm_eq_sum l hl _ (hv.labAt_inRange i).1 (hv.labAt_inRange i).2 hf,
        coeff_sum_monoP hf.1 _ ha, smul_eq_mul, mul_assoc]
    rw [Finset.sum_congr rfl h2, ← Finset.sum_mul] at h1
    exact (mul_eq_zero.mp h1).resolve_right hN
  -- contract with row `j` in the overlap metric
  have hz : ∑ i ∈ range ls.length, g i * gram l cart (labAt ls i) (labAt ls j) = 0 := by
    have e : ∀ i, g i * gram l cart (labAt ls i) (labAt ls j)
        = ∑ a ∈ range cart.length, ∑ a' ∈ range cart.length,
            (g i * transEntry (K := ℝ) l (labAt ls i) (cart.getD a (0,0,0)))
              * (Sov (cart.getD a (0,0,0)) (cart.getD a' (0,0,0))
                * transEntry (K := ℝ) l (labAt ls j) (cart.getD a' (0,0,0))) := by
      intro i
      unfold gram
      rw [list_sum_map_eq_range _ (0,0,0), Finset.mul_sum]
      refine Finset.sum_congr rfl fun a _ => ?_
      rw [list_sum_map_eq_range _ (0,0,0), Finset.mul_sum]
      refine Finset.sum_congr rfl fun a' _ => ?_
      ring
    simp_rw [e]
    rw [Finset.sum_comm]
    refine Finset.sum_eq_zero fun a ha => ?_
    rw [Finset.sum_comm]
    refine Finset.sum_eq_zero fun a' _ => ?_
    rw [← Finset.sum_mul, hcol a (Finset.mem_range.mp ha), zero_mul]
  rw [Finset.sum_eq_single j] at hz
  · rw [gram_validSph l hl hv hj hj] at hz
    simpa using hz
  · intro i hi hij
    rw [gram_validSph l hl hv (Finset.mem_range.mp hi) hj, if_neg hij, mul_zero]
  · intro h; exact absurd (Finset.mem_range.mpr hj) h

/-- `p ∘ M` is again harmonic and homogeneous of degree `l` when `M` is orthogonal -/
theorem substM_mem_Harm {l : ℕ} (M : Fin 3 → Fin 3 → ℝ)
    (hM : ∀ i k, ∑ j, M i j * M k j = if i = k then 1 else 0) {p : MvPolynomial (Fin 3) ℝ}
    (hp : p ∈ Harm l) : substM M p ∈ Harm l :=
  ⟨substM_homog M hp.1, by rw [lapMv_substM M hM, hp.2, map_zero]⟩

/-- the functions of an accepted order, as a family in `Harm l` -/
noncomputable def sphFam (l : ℕ) (hl : l ≤ 10) {ls : List SphLabel} (hv : ValidSph l ls)
    (i : Fin ls.length) : Harm l :=
  ⟨sphHarm l (labAt ls i), sphHarm_mem_Harm l hl _ (hv.labAt_inRange i).1 (hv.labAt_inRange i).2⟩

theorem sphFam_linearIndependent (l : ℕ) (hl : l ≤ 10) {ls : List SphLabel} (hv : ValidSph l ls) :
    LinearIndependent ℝ (sphFam l hl hv) := by
  rw [Fintype.linearIndependent_iff]
  intro g hg i
  let g' : ℕ → ℝ := fun n => if h : n < ls.length then g ⟨n, h⟩ else 0
  have h0 : ∑ i ∈ range ls.length, g' i • sphHarm l (labAt ls i) = 0 := by
    rw [Finset.sum_range]
    have := congrArg Subtype.val hg
    simp only [Submodule.coe_sum, Submodule.coe_smul, ZeroMemClass.coe_zero] at this
    rw [← this]
    refine Finset.sum_congr rfl fun i _ => ?_
    simp [g', sphFam]
  have := sphHarm_coeffs_zero l hl hv g' h0 i i.2
  simpa [g'] using this

/-- **the `2l+1` functions of an accepted order span `Harm l`** (`l ≤ 10`) -/
theorem sphFam_span (l : ℕ) (hl : l ≤ 10) {ls : List SphLabel} (hv : ValidSph l ls) :
    Submodule.span ℝ (Set.range (sphFam l hl hv)) = ⊤ := by
  have hli := sphFam_linearIndependent l hl hv
  apply hli.span_eq_top_of_card_eq_finrank'
  have h1 := hli.fintype_card_le_finrank
  have h2 := finrank_Harm_le l
  rw [Fintype.card_fin, hv.length] at h1 ⊢
  omega

/-- `dim Harm l = 2l+1` for `l ≤ 10` -/
theorem finrank_Harm (l : ℕ) (hl : l ≤ 10) : Module.finrank ℝ (Harm l) = 2 * l + 1 := by
  have hv := validSph_defaultSph l hl
  have h1 := (sphFam_linearIndependent l hl hv).fintype_card_le_finrank
  have h2 := finrank_Harm_le l
  rw [Fintype.card_fin, hv.length] at h1
  omega

/-- every harmonic homogeneous polynomial of degree `l ≤ 10` is a combination of the model's
spherical functions (any accepted order) -/
theorem harm_expand (l : ℕ) (hl : l ≤ 10) {ls : List SphLabel} (hv : ValidSph l ls)
    {q : MvPolynomial (Fin 3) ℝ} (hq : q ∈ Harm l) :
    ∃ w : ℕ → ℝ, q = ∑ f ∈ range ls.length, w f • sphHarm l (labAt ls f) := by
  have hmem : (⟨q, hq⟩ : Harm l) ∈ Submodule.span ℝ (Set.range (sphFam l hl hv)) := by
    rw [sphFam_span]; trivial
  obtain ⟨c, hc⟩ := (Submodule.mem_span_range_iff_exists_fun ℝ).mp hmem
  refine ⟨fun n => if h : n < ls.length then c ⟨n, h⟩ else 0, ?_⟩
  have := congrArg Subtype.val hc
  simp only [Submodule.coe_sum, Submodule.coe_smul] at this
  rw [Finset.sum_range, ← this]
  refine Finset.sum_congr rfl fun i _ => ?_
  simp [sphFam]

/-- **Pure shells are closed under rotation** (`l ≤ 10`, every accepted order and sign
convention): for every orthogonal matrix `M` (`M Mᵀ = 1`; proper or improper) there is a
`(2l+1) × (2l+1)` matrix `W` with `Y_{l,f} ∘ M = Σ_{f'} W f f' · Y_{l,f'}`. -/
theorem exists_sphRep (l : ℕ) (hl : l ≤ 10) {ls : List SphLabel} (hv : ValidSph l ls)
    (M : Fin 3 → Fin 3 → ℝ) (hM : ∀ i k, ∑ j, M i j * M k j = if i = k then 1 else 0) :
    ∃ W : ℕ → ℕ → ℝ, ∀ f,
      substM M (sphHarm l (labAt ls f))
        = ∑ f' ∈ range ls.length, W f f' • sphHarm l (labAt ls f') := by
  have h : ∀ f, ∃ w : ℕ → ℝ, substM M (sphHarm l (labAt ls f))
      = ∑ f' ∈ range ls.length, w f' • sphHarm l (labAt ls f') := fun f =>
    harm_expand l hl hv (substM_mem_Harm M hM
      (sphHarm_mem_Harm l hl _ (hv.labAt_inRange f).1 (hv.labAt_inRange f).2))
  choose W hW using h
  exact ⟨W, hW⟩

/-- the same with `W` indexed by `Fin (2l+1) × Fin (2l+1)` (`ls.length = 2l+1`, `ValidSph.length`) -/
theorem exists_sphRep_fin (l : ℕ) (hl : l ≤ 10) {ls : List SphLabel} (hv : ValidSph l ls)
    (M : Fin 3 → Fin 3 → ℝ) (hM : ∀ i k, ∑ j, M i j * M k j = if i = k then 1 else 0) :
    ∃ W : Fin ls.length → Fin ls.length → ℝ, ∀ f : Fin ls.length,
      substM M (sphHarm l (labAt ls f)) = ∑ f' : Fin ls.length, W f f' • sphHarm l (labAt ls f') := by
  obtain ⟨W, hW⟩ := exists_sphRep l hl hv M hM
  refine ⟨fun f f' => W f f', fun f => ?_⟩
  rw [hW f, Finset.sum_range]

end GB
