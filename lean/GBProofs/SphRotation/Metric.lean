import GBProofs.SphRotation.Model
/-!
# The one-centre overlap metric `Sov` is invariant under the representation matrices
-/
namespace GB
open MvPolynomial Finset Real

lemma sph_normRad_pos (α : ℝ) (hα : 0 < α) (l : ℕ) : 0 < (normRad α l : ℝ) := by
  have hpi := Real.pi_pos
  unfold normRad pow34 powHalf
  simp only [powN_eq_pow, num_nat, Transc.sqrt, Transc.pi]
  split_ifs <;> positivity

lemma sph_radF_pos (l : ℕ) (p : ℝ) (hp : 0 < p) : 0 < radF l p := by
  have hpi := Real.pi_pos
  unfold radF
  positivity

/-- a probe shell: one primitive with exponent `1` and coefficient `1` at the origin -/
noncomputable def probeShell (l : ℕ) (cart : List Comp) : Shell ℝ :=
  { l := l, ctr := fun _ => 0, exps := #[1], coefs := #[#[1]], sph := false, cart := cart,
    sphOrd := [], unitNorm := true }

lemma segPhi_probe_pos (l : ℕ) (cart : List Comp) : 0 < segPhi (probeShell l cart) 0 := by
  have h1 := sph_normRad_pos 1 one_pos l
  have h2 := sph_radF_pos l (1 + 1) (by norm_num)
  simp only [segPhi, probeShell, Shell.nprim, Shell.coef!, Shell.exp!]
  simp
  positivity

lemma normAng_mul_metric (c c' : Comp) :
    normAng (K := ℝ) c * normAng c' * (metric c c' : ℝ) = Sov c c' := by
  rw [normAng_real, normAng_real, Sov]
  have hd : (0 : ℝ) < (c.dfact : ℝ) := by exact_mod_cast dfact_pos c
  have hd' : (0 : ℝ) < (c'.dfact : ℝ) := by exact_mod_cast dfact_pos c'
  have h1 : √(c.dfact : ℝ) ≠ 0 := (Real.sqrt_pos.2 hd).ne'
  have h2 : √(c'.dfact : ℝ) ≠ 0 := (Real.sqrt_pos.2 hd').ne'
  field_simp

/-- **`D S Dᵀ = S`**: the overlap metric of the unit-normalised Cartesian functions of one shell
is invariant under the representation matrix of every linear isometry (proper or improper) -/
theorem repMat_Sov (R : E3 ≃ₗᵢ[ℝ] E3) {l : ℕ} {cart : List Comp} (hf : FullCart l cart)
    {a b : ℕ} (ha : a < cart.length) (hb : b < cart.length) :
    ∑ a' ∈ range cart.length, ∑ b' ∈ range cart.length,
        repMat R.toLinearEquiv.toLinearMap cart a a' * repMat R.toLinearEquiv.toLinearMap cart b b'
          * Sov (cart.getD a' (0,0,0)) (cart.getD b' (0,0,0))
      = Sov (cart.getD a (0,0,0)) (cart.getD b (0,0,0)) := by
  set s := probeShell l cart with hs_def
  have hs : ∀ k, k < s.nprim → 0 < s.exp! k := by
    intro k hk
    have : k = 0 := by
      simp only [hs_def, probeShell, Shell.nprim] at hk
      simpa using hk
    subst this
    simp [hs_def, probeShell, Shell.exp!]
  have hfs : FullCart s.l s.cart := hf
  have hdeg : ∀ c, c < cart.length → (s.comp! c).deg = s.l := fun c hc => hf.degree hc
  have hΦ := segPhi_probe_pos l cart
  have h := overlapBlock_moved (rigid R 0) s s 0 a 0 b hs hs hfs hfs ha hb
  have hlin : linPart (rigid R 0) = R.toLinearEquiv.toLinearMap := by
    unfold linPart; rw [rigid_linear]
  rw [hlin] at h
  have hL : (overlapBlock (s.moved (rigid R 0)) (s.moved (rigid R 0))).get4 0 a 0 b
      = Sov (cart.getD a (0,0,0)) (cart.getD b (0,0,0)) * segPhi s 0 := by
    rw [overlapBlock_same_shell (s.moved (rigid R 0)) 0 a b hs (hdeg a ha) (hdeg b hb),
      ← normAng_mul_metric]
    rfl
  rw [hL] at h
  have hR : ∀ a' ∈ range s.ncart, ∀ b' ∈ range s.ncart,
      repMat R.toLinearEquiv.toLinearMap s.cart a a' * repMat R.toLinearEquiv.toLinearMap s.cart b b'
        * (overlapBlock s s).get4 0 a' 0 b'
      = (repMat R.toLinearEquiv.toLinearMap cart a a' * repMat R.toLinearEquiv.toLinearMap cart b b'
          * Sov (cart.getD a' (0,0,0)) (cart.getD b' (0,0,0))) * segPhi s 0 := by
    intro a' ha' b' hb'
    rw [overlapBlock_same_shell s 0 a' b' hs (hdeg a' (Finset.mem_range.mp ha'))
      (hdeg b' (Finset.mem_range.mp hb')), ← normAng_mul_metric]
    show _ = _ * _ * (normAng (cart.getD a' (0,0,0)) * normAng (cart.getD b' (0,0,0)) * _) * _
    simp only [Shell.comp!, show s.cart = cart from rfl]
    ring
  rw [Finset.sum_congr rfl fun a' ha' => Finset.sum_congr rfl fun b' hb' => hR a' ha' b' hb'] at h
  simp_rw [← Finset.sum_mul] at h
  exact (mul_right_cancel₀ hΦ.ne' h).symm

end GB
